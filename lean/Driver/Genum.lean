import Model.Genum
import Driver.Util
/-! Line protocol for `Model/Genum` (stateful: the definition file being assembled, then the
generated code of every type).

```
gn opt <flags>                         flags: letters, `c` = -caseInsensitive; `-` = none      -> ok
gn type <T> <kind>                     kind = i8 i16 i32 i64 int u8 u16 u32 u64 uint           -> ok
gn const <T> <name> <val> <d|-> <form> one constant, source order; form only steers how the
                                       harness writes the line (iota / explicit / implicit)    -> ok
gn block | gn skip | gn other …        source layout only (new const block, `_` line,
                                       unrelated constant)                                     -> ok
gn gen                                 run the generator + compile     -> ok | err:compile
gn values <T>                          Values()                        -> v,v,… | -
gn valid <T> all | v,v,…               IsValid (all = every value of an 8-bit kind, ascending) -> t/f string
gn str <T> all | v,v,…                 String()                        -> s,s,…
gn strvals <T>                         StringValues()                  -> s,s,… | -
gn parse <T> <hex>                     Parse<T>/ParseString/ParseGeneric of the string         -> ok:<v> | err
gn parsable <Trait>*                   -parsableByTraits                                       -> ok
gn col <T> <Trait> <dyn type> <fam>    trait column (column order); fam = ustr nstr s<bits> u<bits> none | k:<basic kind> -> ok
gn const … <form> <tval>*              trait constants of the line: s:<hex> i:<int> b:t|f
gn trait <T> <Trait> v,v,…             accessor                        -> rendered constants
gn ptrait <T> <Trait> <tval>           Parse<T>(typed trait constant)  -> ok:<v> | err
gn marshal <T> <json|text|yaml> v,…    encoding, read back as a plain string                   -> s,s,…
gn rt <T> <codec> v,…                  decode(encode v), into a target holding another value   -> ok:<v>,…
gn rtf <T> <json|yaml> v,…             the same as a struct field                              -> ok:<v>,…
gn sdec <T> <codec> <Trait> <tval>     decode a scalar document holding that trait constant: what the
                                       PROPERTY demands (the owning value), not the decoder model  -> ok:<v> | err
gn dec <T> <codec> <doc>               doc = s:<hex> string | n:<literal> number | o:<hex> other scalar -> ok:<v> | err
```
opt flags: `c` -caseInsensitive, `J` -json=false, `Y` -yaml=false, `T` -text=false.
-/
namespace Drv.Genum
open _root_.Genum

structure St where
  opts : Options := {}
  types : List TypeDecl := []
  consts : List Const := []      -- reversed source order while assembling
  outs : List (TypeDecl × GenFull) := []
  status : String := "no-gen"

def kindOf : String → Option IntKind
  | "i8" => some ⟨8, true⟩ | "i16" => some ⟨16, true⟩ | "i32" => some ⟨32, true⟩
  | "i64" => some ⟨64, true⟩ | "int" => some ⟨64, true⟩
  | "u8" => some ⟨8, false⟩ | "u16" => some ⟨16, false⟩ | "u32" => some ⟨32, false⟩
  | "u64" => some ⟨64, false⟩ | "uint" => some ⟨64, false⟩
  | _ => none

def hexVal (c : Char) : Option Nat :=
  if '0' ≤ c ∧ c ≤ '9' then some (c.toNat - 48)
  else if 'a' ≤ c ∧ c ≤ 'f' then some (c.toNat - 87)
  else none

def unhexAux : List Char → Option (List Char)
  | [] => some []
  | a :: b :: r => do
    let x ← hexVal a
    let y ← hexVal b
    let rest ← unhexAux r
    pure (Char.ofNat (16 * x + y) :: rest)
  | _ => none

/-- `-` = empty string, else lower-case hex of the bytes (ASCII only) -/
def unhex (w : String) : Option String :=
  if w = "-" then some "" else (unhexAux w.toList).map String.ofList

def kindOfTok : String → Option BasicKind
  | "untypedRune" => some .untypedRune
  | "untypedInt" => some .untypedInt
  | "untypedString" => some .untypedString
  | "string" => some .string
  | "bool" => some .bool
  | _ => none

/-- family token, or `k:<basic kind>` to let the model's `extractUnderlying` classify the column -/
def famOf (w : String) : Option Family :=
  if w.startsWith "k:" then (kindOfTok (w.drop 2).toString).map extractUnderlying else
  if w = "ustr" then some .ustr else if w = "nstr" then some .nstr else if w = "none" then some .none
  else match w.toList with
    | 's' :: r => (String.ofList r).toNat?.map Family.sint
    | 'u' :: r => (String.ofList r).toNat?.map Family.uint
    | _ => none

def scalarOf (w : String) : Option Scalar :=
  match w.splitOn ":" with
  | ["s", h] => (unhex (if h = "" then "-" else h)).map Scalar.str
  | ["i", n] => n.toInt?.map Scalar.int
  | ["b", b] => some (.bool (b == "t"))
  | _ => none

def hexOfString (s : String) : String :=
  let d := fun (n : Nat) => Char.ofNat (if n < 10 then 48 + n else 87 + n)
  String.ofList (s.toList.flatMap (fun c => [d (c.toNat / 16), d (c.toNat % 16)]))

def showScalar : Scalar → String
  | .str s => "s:" ++ hexOfString s
  | .int i => s!"i:{i}"
  | .bool b => "b:" ++ (if b then "t" else "f")
  | .other r => "o:" ++ r

def showRes : Option Int → String
  | some v => s!"ok:{v}"
  | none => "err"

def joinComma (xs : List String) : String := if xs.isEmpty then "-" else ",".intercalate xs

def rangeOf (k : IntKind) : List Int :=
  (List.range (2 ^ k.bits)).map (fun (i : Nat) => k.minVal + Int.ofNat i)

def valsArg (k : IntKind) (w : String) : Option (List Int) :=
  if w = "all" then (if k.bits ≤ 8 then some (rangeOf k) else none)
  else match (w.splitOn ",").mapM String.toInt? with
    | some vs => if vs.all (fun v => decide (k.InRange v)) then some vs else none
    | none => none

def handle (st : St) (ws : List String) : St × String :=
  match ws with
  | ["opt", fl] =>
    let cs := fl.toList
    let o : Options := { caseInsensitive := cs.contains 'c', json := !(cs.contains 'J'),
                         yaml := !(cs.contains 'Y'), text := !(cs.contains 'T'), parsable := st.opts.parsable }
    ({ st with opts := o }, "ok")
  | "parsable" :: names =>
    let o : Options := { st.opts with parsable := names }
    ({ st with opts := o }, "ok")
  | ["type", t, k] =>
    match kindOf k with
    | some k => ({ st with types := st.types ++ [{ name := t, kind := k }] }, "ok")
    | none => (st, "bad-op")
  | ["col", t, name, ty, fam] =>
    match famOf fam with
    | some fam =>
      ({ st with types := st.types.map (fun td => if td.name == t then { td with cols := td.cols ++ [⟨name, ty, fam⟩] } else td) }, "ok")
    | none => (st, "bad-op")
  | "const" :: t :: name :: v :: d :: _form :: tv =>
    match v.toInt?, tv.mapM scalarOf with
    | some v, some tv => ({ st with consts := { name := name, ty := t, val := v, deprecated := d == "d", tvals := tv } :: st.consts }, "ok")
    | _, _ => (st, "bad-op")
  | ["block"] | ["skip"] => (st, "ok")
  | "other" :: _ => (st, "ok")
  | ["gen"] =>
    let f : FileDef := ⟨st.types, st.consts.reverse⟩
    let rs := st.types.map (fun t => (t, genFull st.opts f t))
    let gens := rs.any (fun r => match r.2 with
      | .error .dupCase => false | .error _ => true | .ok _ => false)
    let comp := rs.any (fun r => match r.2 with | .error .dupCase => true | _ => false)
    let status := if gens then "err:generate" else if comp then "err:compile" else "ok"
    let outs := rs.filterMap (fun r => match r.2 with | .ok g => some (r.1, g) | .error _ => none)
    ({ st with outs := outs, status := status }, status)
  | op :: t :: rest =>
    if st.status ≠ "ok" then (st, "no-gen") else
    match st.outs.find? (fun o => o.1.name == t) with
    | none => (st, "no-type")
    | some (td, gf) =>
      let g := gf.base
      match op, rest with
      | "values", [] => (st, joinComma (g.values.map toString))
      | "strvals", [] => (st, joinComma g.stringValues)
      | "valid", [w] =>
        match valsArg td.kind w with
        | some vs => (st, String.join (vs.map (fun v => showBool (g.isValid v))))
        | none => (st, "bad-op")
      | "str", [w] =>
        match valsArg td.kind w with
        | some vs => (st, joinComma (vs.map g.string))
        | none => (st, "bad-op")
      | "parse", [w] =>
        match unhex w with
        | some s => (st, showRes (g.parseString s))
        | none => (st, "bad-op")
      | "trait", [tr, w] =>
        match gf.traits.find? (fun x => x.name == tr), valsArg td.kind w with
        | some x, some vs => (st, joinComma (vs.map (fun v => showScalar (x.get v).v)))
        | none, _ => (st, "no-trait")
        | _, _ => (st, "bad-op")
      | "ptrait", [tr, w] =>
        match gf.traits.find? (fun x => x.name == tr), scalarOf w with
        | some x, some sc => (st, showRes (g.parse ⟨x.ty, sc⟩))
        | none, _ => (st, "no-trait")
        | _, _ => (st, "bad-op")
      | "sdec", [_codec, tr, w] =>
        -- SPEC side of decode-by-trait: a scalar holding a constant of a parsable trait decodes to
        -- the owning value (= what Parse<T> of the typed constant returns, theorem parse_by_trait)
        match gf.traits.find? (fun x => x.name == tr), scalarOf w with
        | some x, some sc => (st, if x.parsable then showRes (g.parse ⟨x.ty, sc⟩) else "not-parsable")
        | none, _ => (st, "no-trait")
        | _, _ => (st, "bad-op")
      | "marshal", [_codec, w] =>
        match valsArg td.kind w with
        | some vs => (st, joinComma (vs.map gf.marshal))
        | none => (st, "bad-op")
      | "rtf", [codec, w] =>
        -- round trip as a struct field: the same decoder is reached through the library
        if codec = "text" then (st, "bad-op") else
        match valsArg td.kind w with
        | some vs =>
          let dec := fun (s : String) => if codec = "json" then gf.unmarshalJSON {} (.str s) else gf.unmarshalYAML {} s
          (st, joinComma (vs.map (fun v => showRes (dec (gf.marshal v)))))
        | none => (st, "bad-op")
      | "rt", [codec, w] =>
        match valsArg td.kind w with
        | some vs =>
          let dec := fun (s : String) => match codec with
            | "json" => gf.unmarshalJSON {} (.str s)
            | "yaml" => gf.unmarshalYAML {} s
            | _ => gf.unmarshalText s
          (st, joinComma (vs.map (fun v => showRes (dec (gf.marshal v)))))
        | none => (st, "bad-op")
      | "dec", [codec, doc] =>
        let kindPay := match doc.splitOn ":" with
          | [k, p] => some (k, p)
          | _ => none
        match kindPay with
        | none => (st, "bad-op")
        | some (k, p) =>
          let text : Option String := if k = "n" then some p else unhex (if p = "" then "-" else p)
          match text with
          | none => (st, "bad-op")
          | some text =>
            match codec with
            | "json" =>
              let jd : JDoc := if k = "s" then .str text else if k = "n" then (match p.toInt? with | some i => .num i | none => .other) else .other
              (st, showRes (gf.unmarshalJSON {} jd))
            | "yaml" => (st, showRes (gf.unmarshalYAML {} text))
            | "text" => (st, showRes (gf.unmarshalText text))
            | _ => (st, "bad-op")
      | _, _ => (st, "bad-op")
  | _ => (st, "bad-op")

end Drv.Genum

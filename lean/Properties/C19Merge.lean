import Model.Gencommon
import Generated.GoGencommonIface
import Lemmas.GoLoop
import Lemmas.GencommonMerge
import Properties.C07Tie
import Properties.C11Tie
import Properties.C19
/-!
# C19 (b), tie A by translation: `namedTypeToInterface` as translated on this run = the model's merge

`Generated/GoGencommonIface.lean` is rewritten from /repo's `gencommon/interface.go` by
`harness/cmd/go2lean -spec gencommoniface` on every run.  go/types is a type graph handed in as data
(`Graph`): `g t` answers what the code asks of the `*types.Named` numbered `t`.  `Unf g t T` says
that the model's embedding tree `T` is the unfolding of the graph at `t` (own methods = the methods
the code ranges over, embedded fields = the fields the code recurses into, in order); it exists iff
no embedding cycle is reachable from `t` and no embedded field is a pointer to an unnamed type (the
code dereferences a nil `*Interface` there and panics - outside the property's quantifier).

* `go_namedTypeToInterface_eq`: for every graph, `t`, unfolding `T`, fuel `≥ height T`, option set,
  import-handler state and every behaviour of the external functions the translated function does
  not panic and returns the model's `nti` on `T`: same handler state, same methods in the same
  order (every field), same SET of ambiguous names.  The model's `enter`/`visit` are instantiated
  with the translation's parameters (`enterE`, `visitE`), its options with `optsOf opts`
  (`opts.Has(IncludePrivate)`, `opts.Has(IncludeEmbedded)` through the translated `BitSet.Has`).
* `go_embedded_methods_exact`, `go_private_filter`, `go_without_embedded`: the property theorems of
  `Properties/C19.lean` restated for the translated code.

Assumed (trusted, see props.py): `ExportedOK` (`Exported()` is decided by the method name, as the
model computes it); a walk over a Go map produces the insertion order (`Go.KV`, `Go.GMap`; the
rendered interface is sorted afterwards by its consumers, the harness compares sorted names).
-/
set_option linter.unusedSectionVars false
set_option linter.unusedSimpArgs false
set_option linter.unusedVariables false
namespace C19Merge
open Generated.GoGencommonIface Gencommon GoLoop

variable {S σ τ κ ρ π : Type} [Inhabited σ] [Inhabited κ]

/-! ## the type graph seen as the model's embedding tree -/

/-- the methods `namedTypeToInterface` ranges over: those of the named type, or, if it has none
and is an interface type, the interface's -/
def ownOf (g : Graph σ) (t : Nat) : List (Func σ) :=
  if (g t).methods.length == 0 then
    match (g t).underlying with
    | .iface ms => ms
    | _ => (g t).methods
  else (g t).methods

def fieldsOf (g : Graph σ) (t : Nat) : List Field :=
  match (g t).underlying with
  | .struct fs => fs
  | _ => []

/-- the embedded fields the code recurses into, in field order; `none` if an embedded field is a
pointer to something that is not a named type (the code dereferences a nil `*Interface` there) -/
def targets : List Field → Option (List Nat)
  | [] => some []
  | f :: fs =>
    if !f.embedded then targets fs
    else match f.typ with
      | .pointer (.named id) => (targets fs).map (id :: ·)
      | .pointer .other => none
      | .named id => (targets fs).map (id :: ·)
      | .other => targets fs

/-- the model's own-method list of type `t`: name, and what `visit` needs (the type and the
`*types.Func`) -/
def ownM (g : Graph σ) (t : Nat) : List (Name × (Nat × Func σ)) :=
  (ownOf g t).map (fun f => (f.name, (t, f)))

mutual
/-- `T` is the unfolding of the graph at `t` (it exists iff no embedding cycle is reachable from
`t` and no embedded pointer field points to an unnamed type) -/
def Unf (g : Graph σ) : Nat → Ty Nat (Nat × Func σ) → Prop
  | t, .mk self own emb =>
    self = t ∧ own = ownM g t ∧ ∃ ids, targets (fieldsOf g t) = some ids ∧ UnfL g ids emb
def UnfL (g : Graph σ) : List Nat → List (Ty Nat (Nat × Func σ)) → Prop
  | ids, [] => ids = []
  | ids, T :: Ts => ∃ id rest, ids = id :: rest ∧ Unf g id T ∧ UnfL g rest Ts
end

/-- go/types: `Exported()` is decided by the name -/
def ExportedOK (g : Graph σ) : Prop := ∀ t, ∀ f ∈ ownOf g t, f.exported = exported f.name

/-! ## the model, instantiated with the parameters of the translation -/

def enterE (env : Env S σ τ κ ρ π) (s : S) (id : Nat) : S := (env.extractTypeRef s id).1

/-- `MethodFromSignature` followed by the three assignments to `Name`, `IsExported`, `Comments` -/
def visitE (env : Env S σ τ κ ρ π) (g : Graph σ) (s : S) (x : Nat × Func σ) : S × Method τ κ :=
  ((env.methodFromSignature s x.2.sig).1,
    { Name := x.2.name,
      Comments := env.commentsFromMethod (env.findPKgByName (g x.1).pkgPath).1 (g x.1).name x.2.name,
      IsExported := x.2.exported,
      rest := (env.methodFromSignature s x.2.sig).2.rest })

/-- `opts.Has(IncludePrivate)`, `opts.Has(IncludeEmbedded)` -/
def optsOf (opts : Go.U64) : Opts := ⟨BitSetM.has opts IncludePrivate, BitSetM.has opts IncludeEmbedded⟩

/-- the model's merge on the unfolding, with the translation's parameters -/
abbrev modelNti (env : Env S σ τ κ ρ π) (g : Graph σ) (opts : Go.U64) (s : S)
    (T : Ty Nat (Nat × Func σ)) : S × IfaceR (Method τ κ) :=
  nti (enterE env) (visitE env g) true (optsOf opts) s T

def key (m : Method τ κ) : Name × Method τ κ := (m.Name, m)

/-- what is compared: the methods exactly (in order), the ambiguous names as a set -/
def RelI (res : Interface τ κ ρ) (r : IfaceR (Method τ κ)) : Prop :=
  res.Methods.map key = r.methods ∧ ∀ x, x ∈ SetM.elems res.ambiguous ↔ x ∈ r.amb

def KeyOK (l : List (Name × Method τ κ)) : Prop := ∀ e ∈ l, e.1 = e.2.Name

/-- merge state of the translated code `(result, methodsToAdd, ignoreEmbeddedMethodsNamed)` against
the model's -/
def R (gs : Interface τ κ ρ × Go.KV Go.Str (Method τ κ) × Go.GMap Go.Str) (st : Merge (Method τ κ)) : Prop :=
  st.toAdd = gs.2.1 ∧ (∀ x, x ∈ st.ignore ↔ x ∈ SetM.elems gs.2.2) ∧
    (∀ x, x ∈ st.amb ↔ x ∈ SetM.elems gs.1.ambiguous)

/-! ## the two inner loops as pure steps -/

def goMergeStep (gs : Interface τ κ ρ × Go.KV Go.Str (Method τ κ) × Go.GMap Go.Str) (m : Method τ κ) :
    Interface τ κ ρ × Go.KV Go.Str (Method τ κ) × Go.GMap Go.Str :=
  if m.Name ∈ SetM.elems gs.2.2 then gs
  else if Go.kvHas gs.2.1 m.Name then
    ({ gs.1 with ambiguous := some (SetM.insert (SetM.elems gs.1.ambiguous) m.Name) },
      Go.kvDelete gs.2.1 m.Name, some (SetM.insert (SetM.elems gs.2.2) m.Name))
  else (gs.1, Go.kvSet gs.2.1 m.Name m, gs.2.2)

def goAmbStep (gs : Interface τ κ ρ × Go.KV Go.Str (Method τ κ) × Go.GMap Go.Str) (n : Go.Str) :
    Interface τ κ ρ × Go.KV Go.Str (Method τ κ) × Go.GMap Go.Str :=
  if n ∈ SetM.elems gs.2.2 then gs
  else ({ gs.1 with ambiguous := some (SetM.insert (SetM.elems gs.1.ambiguous) n) },
      Go.kvDelete gs.2.1 n, some (SetM.insert (SetM.elems gs.2.2) n))

theorem mem_insert (l : List Name) (a x : Name) : x ∈ SetM.insert l a ↔ x = a ∨ x ∈ l := by
  unfold SetM.insert
  by_cases h : a ∈ l
  · simp only [h, if_true]; constructor
    · exact Or.inr
    · rintro (rfl | h') <;> assumption
  · simp only [h, if_false, List.mem_append, List.mem_singleton]; exact Or.comm

theorem goMergeStep_R (gs) (st : Merge (Method τ κ)) (m : Method τ κ) (h : R (ρ := ρ) gs st) :
    R (goMergeStep gs m) (mergeStep st (key m)) := by
  obtain ⟨h1, h2, h3⟩ := h
  unfold goMergeStep mergeStep key
  by_cases hi : m.Name ∈ SetM.elems gs.2.2
  · have : m.Name ∈ st.ignore := (h2 _).2 hi
    simp only [hi, if_true, List.contains_iff_mem, this]
    exact ⟨h1, h2, h3⟩
  · have hn : ¬ m.Name ∈ st.ignore := fun h => hi ((h2 _).1 h)
    simp only [hi, if_false, List.contains_iff_mem, hn]
    rw [h1]
    by_cases hk : Go.kvHas gs.2.1 m.Name = true
    · have hk' : (gs.2.1.any fun e => decide (e.1 = m.Name)) = true := hk
      simp only [hk, hk', if_true]
      refine ⟨rfl, ?_, ?_⟩
      · intro x; simp only [SetM.elems, mem_insert, List.mem_cons, h2]
      · intro x; simp only [SetM.elems, mem_insert, List.mem_cons, h3]
    · have hk' : ¬ (gs.2.1.any fun e => decide (e.1 = m.Name)) = true := hk
      simp only [hk, hk', if_false]
      refine ⟨?_, h2, h3⟩
      simp only [Go.kvSet, hk, if_false, Bool.false_eq_true]

theorem goAmbStep_R (gs) (st : Merge (Method τ κ)) (n : Name) (h : R (ρ := ρ) gs st) :
    R (goAmbStep gs n) (ambStep st n) := by
  obtain ⟨h1, h2, h3⟩ := h
  unfold goAmbStep ambStep
  by_cases hi : n ∈ SetM.elems gs.2.2
  · have : n ∈ st.ignore := (h2 _).2 hi
    simp only [hi, if_true, List.contains_iff_mem, this]
    exact ⟨h1, h2, h3⟩
  · have hn : ¬ n ∈ st.ignore := fun h => hi ((h2 _).1 h)
    simp only [hi, if_false, List.contains_iff_mem, hn]
    rw [h1]
    refine ⟨rfl, ?_, ?_⟩
    · intro x; simp only [SetM.elems, mem_insert, List.mem_cons, h2]
    · intro x; simp only [SetM.elems, mem_insert, List.mem_cons, h3]

theorem foldl_goMergeStep_R (ms : List (Method τ κ)) : ∀ (gs) (st : Merge (Method τ κ)), R (ρ := ρ) gs st →
    R (ms.foldl goMergeStep gs) ((ms.map key).foldl mergeStep st) := by
  induction ms with
  | nil => intro gs st h; exact h
  | cons m ms ih => intro gs st h; exact ih _ _ (goMergeStep_R gs st m h)

theorem foldl_goAmbStep_R (ns : List Name) : ∀ (gs) (st : Merge (Method τ κ)), R (ρ := ρ) gs st →
    R (ns.foldl goAmbStep gs) (ns.foldl ambStep st) := by
  induction ns with
  | nil => intro gs st h; exact h
  | cons n ns ih => intro gs st h; exact ih _ _ (goAmbStep_R gs st n h)

/-- result fields other than `ambiguous` are untouched by the merge -/
theorem goMergeStep_methods (gs : Interface τ κ ρ × _ × _) (m : Method τ κ) :
    (goMergeStep gs m).1.Methods = gs.1.Methods := by
  unfold goMergeStep; split
  · rfl
  · split <;> rfl
theorem goAmbStep_methods (gs : Interface τ κ ρ × Go.KV Go.Str (Method τ κ) × _) (n : Name) :
    (goAmbStep gs n).1.Methods = gs.1.Methods := by
  unfold goAmbStep; split <;> rfl
theorem foldl_goMergeStep_methods (ms : List (Method τ κ)) : ∀ (gs : Interface τ κ ρ × _ × _),
    (ms.foldl goMergeStep gs).1.Methods = gs.1.Methods := by
  induction ms with
  | nil => intro gs; rfl
  | cons m ms ih => intro gs; rw [List.foldl_cons, ih, goMergeStep_methods]
theorem foldl_goAmbStep_methods (ns : List Name) :
    ∀ (gs : Interface τ κ ρ × Go.KV Go.Str (Method τ κ) × _),
    (ns.foldl goAmbStep gs).1.Methods = gs.1.Methods := by
  induction ns with
  | nil => intro gs; rfl
  | cons m ms ih => intro gs; rw [List.foldl_cons, ih, goAmbStep_methods]

/-! ## the model's `ambStep` fold only depends on WHICH names it is given -/

theorem foldl_ambStep_char {α : Type} (l : List Name) : ∀ (st : Merge α),
    (l.foldl ambStep st).toAdd = st.toAdd.filter (fun e => decide (e.1 ∈ st.ignore) || !decide (e.1 ∈ l)) ∧
    (∀ x, x ∈ (l.foldl ambStep st).ignore ↔ x ∈ st.ignore ∨ x ∈ l) ∧
    (∀ x, x ∈ (l.foldl ambStep st).amb ↔ x ∈ st.amb ∨ (x ∈ l ∧ x ∉ st.ignore)) := by
  induction l with
  | nil =>
    intro st
    refine ⟨?_, by simp, by simp⟩
    simp only [List.foldl_nil, List.not_mem_nil, decide_false, Bool.not_false, Bool.or_true]
    exact (List.filter_eq_self.2 (fun _ _ => rfl)).symm
  | cons n l ih =>
    intro st
    rw [List.foldl_cons]
    obtain ⟨i1, i2, i3⟩ := ih (ambStep st n)
    rw [i1]
    by_cases hn : n ∈ st.ignore
    · have hs : ambStep st n = st := by unfold ambStep; simp [hn]
      rw [hs] at i2 i3 ⊢
      refine ⟨?_, ?_, ?_⟩
      · apply List.filter_congr
        intro e _
        by_cases he : e.1 = n
        · simp [he, hn]
        · simp [he]
      · intro x; rw [i2]; simp only [List.mem_cons]
        constructor
        · rintro (h | h); exact Or.inl h; exact Or.inr (Or.inr h)
        · rintro (h | rfl | h); exact Or.inl h; exact Or.inl hn; exact Or.inr h
      · intro x; rw [i3]; simp only [List.mem_cons]
        constructor
        · rintro (h | ⟨h, h'⟩); exact Or.inl h; exact Or.inr ⟨Or.inr h, h'⟩
        · rintro (h | ⟨rfl | h, h'⟩); exact Or.inl h; exact absurd hn h'; exact Or.inr ⟨h, h'⟩
    · have hs : ambStep st n = ⟨n :: st.ignore, st.toAdd.filter (fun e => e.1 ≠ n), n :: st.amb⟩ := by
        unfold ambStep; simp [hn]
      rw [hs] at i2 i3 ⊢
      refine ⟨?_, ?_, ?_⟩
      · simp only [List.filter_filter]
        apply List.filter_congr
        intro e _
        by_cases he : e.1 = n
        · simp [he, hn]
        · simp [he]
      · intro x; rw [i2]; simp only [List.mem_cons]
        constructor
        · rintro ((rfl | h) | h); exact Or.inr (Or.inl rfl); exact Or.inl h; exact Or.inr (Or.inr h)
        · rintro (h | rfl | h); exact Or.inl (Or.inr h); exact Or.inl (Or.inl rfl); exact Or.inr h
      · intro x; rw [i3]; simp only [List.mem_cons]
        constructor
        · rintro ((rfl | h) | ⟨h, h'⟩)
          · exact Or.inr ⟨Or.inl rfl, hn⟩
          · exact Or.inl h
          · exact Or.inr ⟨Or.inr h, fun hx => h' (Or.inr hx)⟩
        · rintro (h | ⟨rfl | h, h'⟩)
          · exact Or.inl (Or.inr h)
          · exact Or.inl (Or.inl rfl)
          · by_cases hx : x = n
            · exact Or.inl (Or.inl hx)
            · exact Or.inr ⟨h, fun hc => hc.elim hx h'⟩

/-- `R` survives replacing the list of ambiguous names by one with the same members -/
theorem R_amb_congr (gs) (st : Merge (Method τ κ)) (l l' : List Name) (hl : ∀ x, x ∈ l ↔ x ∈ l')
    (h : R (ρ := ρ) gs (l.foldl ambStep st)) : R gs (l'.foldl ambStep st) := by
  obtain ⟨h1, h2, h3⟩ := h
  obtain ⟨a1, a2, a3⟩ := foldl_ambStep_char l st
  obtain ⟨b1, b2, b3⟩ := foldl_ambStep_char l' st
  refine ⟨?_, ?_, ?_⟩
  · rw [← h1, a1, b1]
    apply List.filter_congr
    intro e _
    simp only [hl]
  · intro x; rw [← h2, a2, b2, hl]
  · intro x; rw [← h3, a3, b3, hl]

/-! ## the loops of the translated function as folds -/

/-- one iteration of the own-method loop on `(ih, result)` -/
def ownStep (env : Env S σ τ κ ρ π) (g : Graph σ) (t : Nat) (opts : Go.U64)
    (st : S × Interface τ κ ρ) (f : Func σ) : S × Interface τ κ ρ :=
  if BitSetM.has opts IncludePrivate || f.exported then
    ((env.methodFromSignature st.1 f.sig).1,
      { st.2 with Methods := st.2.Methods ++ [(visitE env g st.1 (t, f)).2] })
  else st

theorem own_fold (env : Env S σ τ κ ρ π) (g : Graph σ) (t : Nat) (opts : Go.U64) (mz : List (Func σ)) :
    (∀ f ∈ mz, f.exported = exported f.name) → ∀ (s : S) (res : Interface τ κ ρ),
    mz.foldl (ownStep env g t opts) (s, res) =
      ((visitOwn (visitE env g) (optsOf opts) s (mz.map (fun f => (f.name, (t, f))))).1,
        { res with Methods := res.Methods ++
            (visitOwn (visitE env g) (optsOf opts) s (mz.map (fun f => (f.name, (t, f))))).2.map (·.2) }) := by
  induction mz with
  | nil => intro _ s res; simp [visitOwn]
  | cons f mz ih =>
    intro hexp s res
    have ih' := ih (fun f' h' => hexp f' (List.mem_cons_of_mem _ h'))
    have hf := hexp f List.mem_cons_self
    rw [List.foldl_cons, List.map_cons, visitOwn]
    have hk' : ((optsOf opts).priv || exported f.name) = (BitSetM.has opts IncludePrivate || f.exported) := by
      simp [optsOf, hf]
    rw [hk']
    by_cases hk : (BitSetM.has opts IncludePrivate || f.exported) = true
    · have hs : ownStep env g t opts (s, res) f = ((env.methodFromSignature s f.sig).1,
          { res with Methods := res.Methods ++ [(visitE env g s (t, f)).2] }) := by
        simp only [ownStep, hk, if_true]
      rw [hs, ih', if_pos hk]
      simp [visitE]
    · have hs : ownStep env g t opts (s, res) f = (s, res) := by
        simp only [ownStep, hk, if_false, Bool.false_eq_true]
      rw [hs, ih', if_neg hk]

theorem visitOwn_keyed (env : Env S σ τ κ ρ π) (g : Graph σ) (t : Nat) (o : Opts) (mz : List (Func σ)) :
    ∀ (s : S), ((visitOwn (visitE env g) o s (mz.map (fun f => (f.name, (t, f))))).2.map (·.2)).map key =
      (visitOwn (visitE env g) o s (mz.map (fun f => (f.name, (t, f))))).2 := by
  induction mz with
  | nil => intro s; simp [visitOwn]
  | cons f mz ih =>
    intro s
    rw [List.map_cons, visitOwn]
    split
    · simp only [List.map_cons, ih]; rfl
    · exact ih s

/-- one iteration of `for _, m := range result.Methods { ignoreEmbeddedMethodsNamed.Add(m.Name) }` -/
def ignStep (s : Go.GMap Go.Str) (m : Method τ κ) : Go.GMap Go.Str :=
  some (SetM.insert (SetM.elems s) m.Name)

theorem ign_fold (ms : List (Method τ κ)) : ∀ (s : Go.GMap Go.Str) (x : Name),
    x ∈ SetM.elems (ms.foldl ignStep s) ↔ x ∈ SetM.elems s ∨ x ∈ ms.map (·.Name) := by
  induction ms with
  | nil => intro s x; simp
  | cons m ms ih =>
    intro s x
    rw [List.foldl_cons, ih]
    simp only [ignStep, SetM.elems, mem_insert, List.map_cons, List.mem_cons]
    constructor
    · rintro ((h | h) | h); exact Or.inr (Or.inl h); exact Or.inl h; exact Or.inr (Or.inr h)
    · rintro (h | h | h); exact Or.inl (Or.inr h); exact Or.inl (Or.inl h); exact Or.inr h

/-- the last loop: `result.Methods = append(result.Methods, m)` -/
def addStep (r : Interface τ κ ρ) (m : Method τ κ) : Interface τ κ ρ :=
  { r with Methods := r.Methods ++ [m] }

theorem add_fold (ms : List (Method τ κ)) : ∀ (r : Interface τ κ ρ),
    ms.foldl addStep r = { r with Methods := r.Methods ++ ms } := by
  induction ms with
  | nil => intro r; simp
  | cons m ms ih => intro r; rw [List.foldl_cons, ih]; simp [addStep]

/-- both inner loops of one embedded field -/
def absorb (c : Interface τ κ ρ)
    (gs : Interface τ κ ρ × Go.KV Go.Str (Method τ κ) × Go.GMap Go.Str) :
    Interface τ κ ρ × Go.KV Go.Str (Method τ κ) × Go.GMap Go.Str :=
  (Go.mapKeys c.ambiguous).foldl goAmbStep (c.Methods.foldl goMergeStep gs)

abbrev LoopSt (S τ κ ρ : Type) := S × Interface τ κ ρ × Go.KV Go.Str (Method τ κ) × Go.GMap Go.Str

/-- one iteration of the loop over the struct's fields; `recF` is the recursive call -/
def fieldStep (recF : S → Nat → Go.M (S × Interface τ κ ρ)) (field : Field) (st : LoopSt S τ κ ρ) :
    Go.M (ForInStep (LoopSt S τ κ ρ)) :=
  if !field.embedded then pure (.yield st)
  else match field.typ with
    | .pointer (.named id) => do
      let r ← recF st.1 id
      pure (.yield (r.1, absorb r.2 st.2))
    | .pointer .other => throw "nil pointer dereference"
    | .named id => do
      let r ← recF st.1 id
      pure (.yield (r.1, absorb r.2 st.2))
    | .other => pure (.yield st)

/-- one step per embedded named field -/
def idStep (recF : S → Nat → Go.M (S × Interface τ κ ρ)) (id : Nat) (st : LoopSt S τ κ ρ) :
    Go.M (ForInStep (LoopSt S τ κ ρ)) := do
  let r ← recF st.1 id
  pure (.yield (r.1, absorb r.2 st.2))

theorem fields_as_targets (recF : S → Nat → Go.M (S × Interface τ κ ρ)) (fields : List Field) :
    ∀ (ids : List Nat) (st : LoopSt S τ κ ρ), targets fields = some ids →
    forIn fields st (fieldStep recF) = forIn ids st (idStep recF) := by
  induction fields with
  | nil => intro ids st h; simp [targets] at h; subst h; rfl
  | cons f fs ih =>
    intro ids st h
    rw [List.forIn_cons]
    unfold targets at h
    unfold fieldStep
    by_cases he : f.embedded = true
    · simp only [he, Bool.not_true, Bool.false_eq_true, if_false] at h ⊢
      cases hty : f.typ with
      | pointer e =>
        cases e with
        | named id =>
          simp only [hty, Option.map_eq_some_iff] at h ⊢
          obtain ⟨rest, hr, rfl⟩ := h
          rw [List.forIn_cons]
          unfold idStep
          simp only [bind_assoc, pure_bind]
          congr 1
          funext r
          exact ih rest _ hr
        | other => simp [hty] at h
      | named id =>
        simp only [hty, Option.map_eq_some_iff] at h ⊢
        obtain ⟨rest, hr, rfl⟩ := h
        rw [List.forIn_cons]
        unfold idStep
        simp only [bind_assoc, pure_bind]
        congr 1
        funext r
        exact ih rest _ hr
      | other =>
        simp only [hty, pure_bind] at h ⊢
        exact ih ids st h
    · have he' : f.embedded = false := by simpa using he
      simp only [he', Bool.not_false, if_true, pure_bind] at h ⊢
      exact ih ids st h

theorem mapKeys_eq (m : Go.GMap Go.Str) : Go.mapKeys m = SetM.elems m := by cases m <;> rfl

theorem height_pos {ρ' σ' : Type} (T : Ty ρ' σ') : 0 < height T := by
  cases T with
  | mk self own emb => rw [height]; omega

theorem has_one (s : Go.GMap Go.Str) (x : Go.Str) : SetM.has s [x] = decide (x ∈ SetM.elems s) := by
  unfold SetM.has
  by_cases h : (SetM.elems s).length = 0
  · have : SetM.elems s = [] := List.eq_nil_of_length_eq_zero h
    simp [this]
  · simp [h]

theorem add_one (s : Go.GMap Go.Str) (x : Go.Str) :
    (SetM.add s [x]).1 = some (SetM.insert (SetM.elems s) x) := by
  simp [SetM.add, SetM.addStep]

theorem forIn_body_congr {α β : Type} (xs : List α) (b : β) (body body' : α → β → Go.M (ForInStep β))
    (h : ∀ a b, body a b = body' a b) : forIn xs b body = forIn xs b body' := by
  have : body = body' := by funext a b; exact h a b
  rw [this]

theorem kvValues_key (l : List (Name × Method τ κ)) (h : KeyOK l) : (Go.kvValues l).map key = l := by
  induction l with
  | nil => rfl
  | cons e l ih =>
    simp only [Go.kvValues, List.map_cons, List.map_map] at ih ⊢
    rw [ih (fun e' h' => h e' (List.mem_cons_of_mem _ h'))]
    have := h e List.mem_cons_self
    obtain ⟨a, b⟩ := e
    simp only [key] at this ⊢
    simp only [Function.comp, this]

/-- one iteration of the first inner loop of the translated code is `goMergeStep` -/
theorem merge_body (a : Method τ κ) (b : Interface τ κ ρ × Go.KV Go.Str (Method τ κ) × Go.GMap Go.Str) :
    (do
      let c9 ← Generated.GoSet.Set.Has b.2.2 [a.Name]
      if c9 = true then pure (ForInStep.yield (b.1, b.2.1, b.2.2))
      else
        if Go.kvHas b.2.1 a.Name = true then do
          let r10 ← Generated.GoSet.Set.Add b.2.2 [a.Name]
          let r11 ← Generated.GoSet.Set.Add b.1.ambiguous [a.Name]
          pure (ForInStep.yield
            ({ IsInterface := b.1.IsInterface, Comments := b.1.Comments, Name := b.1.Name,
               TypeRef := b.1.TypeRef, Methods := b.1.Methods, ambiguous := r11.1 },
              Go.kvDelete b.2.1 a.Name, r10.1))
        else pure (ForInStep.yield (b.1, Go.kvSet b.2.1 a.Name a, b.2.2)) : Go.M _) =
      pure (ForInStep.yield (goMergeStep b a)) := by
  obtain ⟨r, m, i⟩ := b
  simp only [C07Tie.go_has_eq, C07Tie.go_add_eq, pure_bind, has_one, add_one, goMergeStep,
    decide_eq_true_eq]
  split
  · rfl
  · split <;> rfl

theorem amb_body (a : Go.Str) (b : Interface τ κ ρ × Go.KV Go.Str (Method τ κ) × Go.GMap Go.Str) :
    (do
      let c12 ← Generated.GoSet.Set.Has b.2.2 [a]
      if c12 = true then pure (ForInStep.yield (b.1, b.2.1, b.2.2))
      else do
        let r13 ← Generated.GoSet.Set.Add b.2.2 [a]
        let r14 ← Generated.GoSet.Set.Add b.1.ambiguous [a]
        pure (ForInStep.yield
          ({ IsInterface := b.1.IsInterface, Comments := b.1.Comments, Name := b.1.Name,
             TypeRef := b.1.TypeRef, Methods := b.1.Methods, ambiguous := r14.1 },
            Go.kvDelete b.2.1 a, r13.1)) : Go.M _) =
      pure (ForInStep.yield (goAmbStep b a)) := by
  obtain ⟨r, m, i⟩ := b
  simp only [C07Tie.go_has_eq, C07Tie.go_add_eq, pure_bind, has_one, add_one, goAmbStep,
    decide_eq_true_eq]
  split <;> rfl

/-! ## the translated function = the model, for every graph -/

section main
variable (env : Env S σ τ κ ρ π) (g : Graph σ) (opts : Go.U64) (hexp : ExportedOK g)

include hexp in
mutual
theorem go_nti : ∀ (T : Ty Nat (Nat × Func σ)) (fuel : Nat) (s : S) (t : Nat), Unf g t T →
    height T ≤ fuel →
    ∃ res : Interface τ κ ρ, namedTypeToInterface env g fuel s t opts = pure ((modelNti env g opts s T).1, res) ∧
      RelI res (modelNti env g opts s T).2
  | .mk self own emb, fuel, s, t => by
    intro hu hh
    rw [Unf] at hu
    obtain ⟨rfl, rfl, ids, htg, hemb⟩ := hu
    rw [height] at hh
    obtain ⟨f, rfl⟩ : ∃ f, fuel = f + 1 := ⟨fuel - 1, by omega⟩
    have hf : heightL emb ≤ f := by omega
    have hx := hexp self
    rw [namedTypeToInterface]
    unfold modelNti
    rw [nti]
    unfold ownM ownOf at *
    unfold fieldsOf at htg
    by_cases hE : BitSetM.has opts IncludeEmbedded = true
    · cases hund : (g self).underlying with
      | struct fields =>
        cases hpk : (env.findPKgByName (g self).pkgPath).2 <;>
        by_cases hlen : ((g self).methods.length == 0) = true <;>
        simp only [hpk, hlen, hund, hE, C11Tie.go_has_eq, pure_bind, if_true, if_false, Bool.false_eq_true,
          Bool.not_true] at hx htg ⊢
        all_goals
          rw [forIn_range'_get _ _ 0 _ (Nat.zero_le _)]
          rw [forIn_yield _ (ownStep env g self opts) (fun _ => True) (fun _ _ _ => trivial)
            (by intro a b _; unfold ownStep visitE; split <;> rfl) _ _ trivial]
          simp only [pure_bind, List.drop_zero, own_fold env g self opts _ hx, List.nil_append]
          generalize hvo : visitOwn (visitE env g) (optsOf opts) (enterE env s self) _ = vo
          have hvo' := hvo
          unfold enterE at hvo'
          simp only [hvo']
          have hkeyed : (vo.2.map (·.2)).map key = vo.2 := by
            rw [← hvo]; exact visitOwn_keyed env g self _ _ _
          rw [forIn_yield _ (ignStep (τ := τ) (κ := κ)) (fun _ => True) (fun _ _ _ => trivial)
            (by intro a b _; simp only [C07Tie.go_add_eq, pure_bind, add_one]; rfl) _ _ trivial]
          simp only [pure_bind]
          rw [forIn_range'_get _ _ 0 _ (Nat.zero_le _)]
          rw [List.drop_zero, forIn_body_congr _ _ _
            (fieldStep (fun s id => namedTypeToInterface env g f s id opts)) (by
              intro field st
              obtain ⟨ih, res, mta, ign⟩ := st
              obtain ⟨e, ty⟩ := field
              unfold fieldStep
              cases e
              · rfl
              · have inner : ∀ id, (do
                    let r7 ← namedTypeToInterface env g f ih id opts
                    let __do_lift ← Go.deref (some r7.snd)
                    let __s ← forIn __do_lift.Methods (res, mta, ign) fun m __s => do
                          let c9 ← Generated.GoSet.Set.Has __s.snd.snd [m.Name]
                          if c9 = true then pure (ForInStep.yield (__s.fst, __s.snd.fst, __s.snd.snd))
                            else
                              if Go.kvHas __s.snd.fst m.Name = true then do
                                let r10 ← Generated.GoSet.Set.Add __s.snd.snd [m.Name]
                                let r11 ← Generated.GoSet.Set.Add __s.fst.ambiguous [m.Name]
                                pure (ForInStep.yield
                                      ({ IsInterface := __s.fst.IsInterface, Comments := __s.fst.Comments,
                                          Name := __s.fst.Name, TypeRef := __s.fst.TypeRef,
                                          Methods := __s.fst.Methods, ambiguous := r11.fst },
                                        Go.kvDelete __s.snd.fst m.Name, r10.fst))
                              else pure (ForInStep.yield (__s.fst, Go.kvSet __s.snd.fst m.Name m, __s.snd.snd))
                    let __do_lift ← Go.deref (some r7.snd)
                    let __s ← forIn (Go.mapKeys __do_lift.ambiguous) (__s.fst, __s.snd.fst, __s.snd.snd) fun name __s => do
                          let c12 ← Generated.GoSet.Set.Has __s.snd.snd [name]
                          if c12 = true then pure (ForInStep.yield (__s.fst, __s.snd.fst, __s.snd.snd))
                            else do
                              let r13 ← Generated.GoSet.Set.Add __s.snd.snd [name]
                              let r14 ← Generated.GoSet.Set.Add __s.fst.ambiguous [name]
                              pure (ForInStep.yield
                                    ({ IsInterface := __s.fst.IsInterface, Comments := __s.fst.Comments,
                                        Name := __s.fst.Name, TypeRef := __s.fst.TypeRef,
                                        Methods := __s.fst.Methods, ambiguous := r14.fst },
                                      Go.kvDelete __s.snd.fst name, r13.fst))
                    pure (ForInStep.yield (r7.fst, __s.fst, __s.snd.fst, __s.snd.snd)) : Go.M _) =
                    (do
                      let r ← namedTypeToInterface env g f ih id opts
                      pure (ForInStep.yield (r.1, absorb r.2 (res, mta, ign)))) := by
                  intro id
                  congr 1
                  funext r7
                  simp only [Go.deref, pure_bind]
                  rw [forIn_yield _ goMergeStep (fun _ => True) (fun _ _ _ => trivial)
                    (fun a b _ => merge_body a b) _ _ trivial]
                  simp only [pure_bind]
                  rw [forIn_yield _ goAmbStep (fun _ => True) (fun _ _ _ => trivial)
                    (fun a b _ => amb_body a b) _ _ trivial]
                  rfl
                cases ty with
                | pointer el =>
                  cases el with
                  | named id => exact inner id
                  | other => rfl
                | named id => exact inner id
                | other => rfl)]
          rw [fields_as_targets _ _ _ _ htg]
          generalize hres0 : Interface.mk (τ := τ) (κ := κ) (ρ := ρ) false _ _ _
            (List.map (fun x => x.snd) vo.snd) (Go.mapMake 0) = res0
          have hm0 : res0.Methods = vo.2.map (·.2) := by rw [← hres0]
          have ha0 : res0.ambiguous = Go.mapMake 0 := by rw [← hres0]
          generalize hign0 : List.foldl ignStep _ (List.map (fun x => x.snd) vo.snd) = ign0
          have hnames : (vo.2.map (·.2)).map (·.Name) = vo.2.map (·.1) := by
            have := congrArg (List.map (·.1)) hkeyed
            simpa [key, List.map_map, Function.comp] using this
          have hi0 : ∀ x, x ∈ SetM.elems ign0 ↔ x ∈ vo.2.map (·.1) := by
            intro x
            rw [← hign0, ign_fold, hnames]
            simp [Go.mapMake, SetM.elems]
          obtain ⟨gs', h1, h2, h3, h4⟩ := go_emb emb ids f vo.1 (res0, Go.kvMake, ign0)
            ⟨vo.2.map (·.1), [], []⟩ hemb hf
            ⟨rfl, fun x => (hi0 x).symm, by simp [ha0, Go.mapMake, SetM.elems]⟩
            (by intro e he; cases he)
          rw [h1]
          simp only [pure_bind]
          rw [forIn_yield _ addStep (fun _ => True) (fun _ _ _ => trivial) (by intro a b _; rfl) _ _ trivial,
            add_fold]
          have hemb' : (optsOf opts).embedded = true := hE
          simp only [hemb', Bool.not_true, Bool.false_eq_true, if_false, pure_bind]
          refine ⟨_, rfl, ?_, ?_⟩
          · show List.map key (gs'.1.Methods ++ Go.kvValues gs'.2.1) = vo.2 ++ _
            rw [List.map_append, h4, hm0, hkeyed, ← h2.1, kvValues_key _ h3]
          · intro x; exact (h2.2.2 x).symm
      | iface ms =>
        have hids : ids = [] := by
          simp only [hund] at htg
          simpa [targets] using htg.symm
        subst hids
        have hemb0 : emb = [] := by
          cases emb with
          | nil => rfl
          | cons T Ts =>
            rw [UnfL] at hemb
            obtain ⟨_, _, h, _⟩ := hemb
            cases h
        subst hemb0
        have hemb' : (optsOf opts).embedded = true := hE
        cases hpk : (env.findPKgByName (g self).pkgPath).2 <;>
        by_cases hlen : ((g self).methods.length == 0) = true <;>
        simp only [hpk, hlen, hund, hE, C11Tie.go_has_eq, pure_bind, if_true, if_false, Bool.false_eq_true,
          Bool.not_true] at hx ⊢
        all_goals
          rw [forIn_range'_get _ _ 0 _ (Nat.zero_le _)]
          rw [forIn_yield _ (ownStep env g self opts) (fun _ => True) (fun _ _ _ => trivial)
            (by intro a b _; unfold ownStep visitE; split <;> rfl) _ _ trivial]
          simp only [pure_bind, List.drop_zero, own_fold env g self opts _ hx, List.nil_append]
          generalize hvo : visitOwn (visitE env g) (optsOf opts) (enterE env s self) _ = vo
          have hvo' := hvo
          unfold enterE at hvo'
          simp only [hvo']
          have hkeyed : (vo.2.map (·.2)).map key = vo.2 := by
            rw [← hvo]; exact visitOwn_keyed env g self _ _ _
          simp only [hemb', Bool.not_true, Bool.false_eq_true, if_false, ntiEmb]
          refine ⟨_, rfl, ?_, ?_⟩
          · show List.map key (List.map (fun x => x.snd) vo.snd) = _
            rw [hkeyed]; try simp
          · intro x; simp [Go.mapMake, SetM.elems]
      | other =>
        have hids : ids = [] := by
          simp only [hund] at htg
          simpa [targets] using htg.symm
        subst hids
        have hemb0 : emb = [] := by
          cases emb with
          | nil => rfl
          | cons T Ts =>
            rw [UnfL] at hemb
            obtain ⟨_, _, h, _⟩ := hemb
            cases h
        subst hemb0
        have hemb' : (optsOf opts).embedded = true := hE
        cases hpk : (env.findPKgByName (g self).pkgPath).2 <;>
        by_cases hlen : ((g self).methods.length == 0) = true <;>
        simp only [hpk, hlen, hund, hE, C11Tie.go_has_eq, pure_bind, if_true, if_false, Bool.false_eq_true,
          Bool.not_true] at hx ⊢
        all_goals
          rw [forIn_range'_get _ _ 0 _ (Nat.zero_le _)]
          rw [forIn_yield _ (ownStep env g self opts) (fun _ => True) (fun _ _ _ => trivial)
            (by intro a b _; unfold ownStep visitE; split <;> rfl) _ _ trivial]
          simp only [pure_bind, List.drop_zero, own_fold env g self opts _ hx, List.nil_append]
          generalize hvo : visitOwn (visitE env g) (optsOf opts) (enterE env s self) _ = vo
          have hvo' := hvo
          unfold enterE at hvo'
          simp only [hvo']
          have hkeyed : (vo.2.map (·.2)).map key = vo.2 := by
            rw [← hvo]; exact visitOwn_keyed env g self _ _ _
          simp only [hemb', Bool.not_true, Bool.false_eq_true, if_false, ntiEmb]
          refine ⟨_, rfl, ?_, ?_⟩
          · show List.map key (List.map (fun x => x.snd) vo.snd) = _
            rw [hkeyed]; try simp
          · intro x; simp [Go.mapMake, SetM.elems]
    · have hE' : BitSetM.has opts IncludeEmbedded = false := by simpa using hE
      have hemb' : (optsOf opts).embedded = false := hE'
      cases hund : (g self).underlying <;>
      cases hpk : (env.findPKgByName (g self).pkgPath).2 <;>
      by_cases hlen : ((g self).methods.length == 0) = true <;>
      simp only [hpk, hlen, hund, hE', C11Tie.go_has_eq, pure_bind, if_true, if_false, Bool.false_eq_true,
        Bool.not_false] at hx ⊢
      all_goals
        rw [forIn_range'_get _ _ 0 _ (Nat.zero_le _)]
        rw [forIn_yield _ (ownStep env g self opts) (fun _ => True) (fun _ _ _ => trivial)
          (by intro a b _; unfold ownStep visitE; split <;> rfl) _ _ trivial]
        simp only [pure_bind, List.drop_zero, own_fold env g self opts _ hx, List.nil_append]
        generalize hvo : visitOwn (visitE env g) (optsOf opts) (enterE env s self) _ = vo
        have hvo' := hvo
        unfold enterE at hvo'
        simp only [hvo']
        have hkeyed : (vo.2.map (·.2)).map key = vo.2 := by
          rw [← hvo]; exact visitOwn_keyed env g self _ _ _
        simp only [hemb', Bool.not_false, if_true]
        refine ⟨_, rfl, ?_, ?_⟩
        · show List.map key (List.map (fun x => x.snd) vo.snd) = _
          rw [hkeyed]; try simp
        · intro x; simp [Go.mapMake, SetM.elems]
theorem go_emb : ∀ (Ts : List (Ty Nat (Nat × Func σ))) (ids : List Nat) (fuel : Nat) (s : S)
    (gs : Interface τ κ ρ × Go.KV Go.Str (Method τ κ) × Go.GMap Go.Str) (st : Merge (Method τ κ)),
    UnfL g ids Ts → heightL Ts ≤ fuel → R gs st → KeyOK st.toAdd →
    ∃ gs', forIn ids ((s, gs) : LoopSt S τ κ ρ)
        (idStep (fun s id => namedTypeToInterface env g fuel s id opts)) =
        pure ((ntiEmb (enterE env) (visitE env g) true (optsOf opts) s Ts st).1, gs') ∧
      R gs' (ntiEmb (enterE env) (visitE env g) true (optsOf opts) s Ts st).2 ∧
      KeyOK (ntiEmb (enterE env) (visitE env g) true (optsOf opts) s Ts st).2.toAdd ∧
      gs'.1.Methods = gs.1.Methods
  | [], ids, fuel, s, gs, st => by
    intro hu _ hR hK
    rw [UnfL] at hu
    subst hu
    rw [ntiEmb]
    exact ⟨gs, rfl, hR, hK, rfl⟩
  | T :: Ts, ids, fuel, s, gs, st => by
    intro hu hh hR hK
    rw [UnfL] at hu
    obtain ⟨id, rest, rfl, hT, hTs⟩ := hu
    rw [heightL] at hh
    obtain ⟨res, hrun, hrel1, hrel2⟩ := go_nti T fuel s id hT (by omega)
    rw [ntiEmb, List.forIn_cons]
    simp only [idStep, hrun, pure_bind, if_true]
    have hR2 : R (absorb res gs) (List.foldl ambStep
        (List.foldl mergeStep st (modelNti env g opts s T).2.methods) (modelNti env g opts s T).2.amb) := by
      unfold absorb
      rw [← hrel1]
      apply R_amb_congr _ _ (Go.mapKeys res.ambiguous)
      · intro x; rw [mapKeys_eq]; exact hrel2 x
      · exact foldl_goAmbStep_R _ _ _ (foldl_goMergeStep_R _ _ _ hR)
    have hK2 : KeyOK (List.foldl ambStep
        (List.foldl mergeStep st (modelNti env g opts s T).2.methods) (modelNti env g opts s T).2.amb).toAdd := by
      intro e he
      rcases mem_foldl_mergeStep_toAdd _ _ e (mem_foldl_ambStep_toAdd _ _ e he) with h | h
      · exact hK e h
      · rw [← hrel1] at h
        obtain ⟨m, _, rfl⟩ := List.mem_map.1 h
        rfl
    obtain ⟨gs', h1, h2, h3, h4⟩ := go_emb Ts rest fuel (modelNti env g opts s T).1 (absorb res gs) _ hTs
      (by omega) hR2 hK2
    refine ⟨gs', h1, h2, h3, ?_⟩
    rw [h4]
    unfold absorb
    rw [foldl_goAmbStep_methods, foldl_goMergeStep_methods]
end
end main

/-! ## the obligations -/

section obligations
variable (env : Env S σ τ κ ρ π) (g : Graph σ) (opts : Go.U64)

/-- **Tie A for C19 (b).**  For EVERY type graph whose `Exported()` flags are those of the names,
every named type `t` whose unfolding `T` exists (no embedding cycle below `t`), every fuel at least the
height of `T`, every option set, every import-handler state and every behaviour of the external
functions: the translated `namedTypeToInterface` does not panic and returns exactly the model's
merge - the same import-handler state, the same methods in the same order (each with the fields
`Name`, `IsExported`, `Comments` and the rest `MethodFromSignature` produced), and the same set of
ambiguous names. -/
theorem go_namedTypeToInterface_eq (hexp : ExportedOK g) (T : Ty Nat (Nat × Func σ)) (fuel : Nat)
    (s : S) (t : Nat) (hu : Unf g t T) (hh : height T ≤ fuel) :
    ∃ res : Interface τ κ ρ,
      namedTypeToInterface env g fuel s t opts = pure ((modelNti env g opts s T).1, res) ∧
      res.Methods.map key = (modelNti env g opts s T).2.methods ∧
      ∀ x, x ∈ Go.mapElems res.ambiguous ↔ x ∈ (modelNti env g opts s T).2.amb := by
  obtain ⟨res, h1, h2, h3⟩ := go_nti env g opts hexp T fuel s t hu hh
  exact ⟨res, h1, h2, fun x => by rw [← h3]; cases res.ambiguous <;> rfl⟩

/-- the method names the translated code renders -/
def goNames (res : Interface τ κ ρ) : List Name := res.Methods.map (·.Name)

theorem goNames_eq (res : Interface τ κ ρ) (l : List (Name × Method τ κ)) (h : res.Methods.map key = l) :
    goNames res = namesOf l := by
  rw [← h, goNames, namesOf, List.map_map]; rfl

/-- **embedded_methods_exact for the translated code.**  With IncludeEmbedded, whatever the
translated function returns on a graph whose types declare each method name once (`WF`): a name is
rendered iff it passes the private filter and the specification (the property text read
recursively: defined by the type, or under exactly one embedded field and in that field's
interface) has it - at any embedding depth. -/
theorem go_embedded_methods_exact (hexp : ExportedOK g) (T : Ty Nat (Nat × Func σ)) (fuel : Nat)
    (s : S) (t : Nat) (hu : Unf g t T) (hh : height T ≤ fuel) (hwf : WF T)
    (ho : BitSetM.has opts IncludeEmbedded = true) (s' : S) (res : Interface τ κ ρ)
    (hrun : namedTypeToInterface env g fuel s t opts = pure (s', res)) (n : Name) :
    n ∈ goNames res ↔ keep (optsOf opts) n = true ∧ specHas T n = true := by
  obtain ⟨res', h1, h2, _⟩ := go_nti env g opts hexp T fuel s t hu hh
  rw [h1] at hrun
  have hres : res' = res := (Prod.mk.inj (Except.ok.inj hrun)).2
  subst hres
  rw [goNames_eq res' _ h2]
  have hok := nti_ok (enterE env) (visitE env g) (optsOf opts) ho T hwf s
  constructor
  · intro h
    have hk := nti_keepG (enterE env) (visitE env g) true (optsOf opts) T s n h
    exact ⟨hk, (hok.2.1 n hk).1 h⟩
  · rintro ⟨hk, hs⟩
    exact (hok.2.1 n hk).2 hs

/-- **private_filter for the translated code (all depths).**  Every method the translated function
returns - own or promoted - passes the private filter: without IncludePrivate it is exported. -/
theorem go_private_filter (hexp : ExportedOK g) (T : Ty Nat (Nat × Func σ)) (fuel : Nat)
    (s : S) (t : Nat) (hu : Unf g t T) (hh : height T ≤ fuel) (s' : S) (res : Interface τ κ ρ)
    (hrun : namedTypeToInterface env g fuel s t opts = pure (s', res)) :
    ∀ n ∈ goNames res, BitSetM.has opts IncludePrivate = true ∨ exported n = true := by
  obtain ⟨res', h1, h2, _⟩ := go_nti env g opts hexp T fuel s t hu hh
  rw [h1] at hrun
  have hres : res' = res := (Prod.mk.inj (Except.ok.inj hrun)).2
  subst hres
  intro n hn
  rw [goNames_eq res' _ h2] at hn
  have hk := nti_keepG (enterE env) (visitE env g) true (optsOf opts) T s n hn
  simpa [keep, optsOf] using hk

/-- **private_filter (own methods) for the translated code.**  Without IncludeEmbedded the
translated function renders exactly the methods of the type that pass the filter, in declaration
order; so the result without IncludePrivate is the exported part of the result with it. -/
theorem go_without_embedded (hexp : ExportedOK g) (T : Ty Nat (Nat × Func σ)) (fuel : Nat)
    (s : S) (t : Nat) (hu : Unf g t T) (hh : height T ≤ fuel)
    (ho : BitSetM.has opts IncludeEmbedded = false) (s' : S) (res : Interface τ κ ρ)
    (hrun : namedTypeToInterface env g fuel s t opts = pure (s', res)) :
    goNames res = ((ownOf g t).map (·.name)).filter (keep (optsOf opts)) := by
  obtain ⟨res', h1, h2, _⟩ := go_nti env g opts hexp T fuel s t hu hh
  rw [h1] at hrun
  have hres : res' = res := (Prod.mk.inj (Except.ok.inj hrun)).2
  subst hres
  rw [goNames_eq res' _ h2]
  cases T with
  | mk self own emb =>
    rw [Unf] at hu
    obtain ⟨rfl, rfl, _⟩ := hu
    unfold modelNti
    rw [nti]
    have ho' : (optsOf opts).embedded = false := ho
    simp only [ho', Bool.not_false, if_true]
    rw [visitOwn_namesOf]
    simp only [ownM, namesOf, List.map_map]
    rfl

/-! ### a kernel-evaluated sample (non-vacuity): the doc comment's `C{A;B}`, two levels -/

def sampleEnv : Env Unit Unit Unit Unit Unit Unit where
  findPKgByName := fun _ => ((), true)
  extractTypeRef := fun _ _ => ((), ())
  methodFromSignature := fun _ _ => ((), ⟨Go.str "func", (), false, ()⟩)
  commentsFromObj := fun _ _ => ()
  commentsFromMethod := fun _ _ _ => ()

def fn (n : String) : Func Unit := ⟨Go.str n, exported (Go.str n), ()⟩

/-- `0: C{A; *B; x int}` with `Blah`, `1: A` with `Foo`, `Bar`, `2: B{D}` with `Foo`, `Baz`, `3: D`
with `Bar`, `q` -/
def sampleG : Graph Unit := fun t =>
  match t with
  | 0 => ⟨Go.str "C", [], [fn "Blah"], .struct [⟨true, .named 1⟩, ⟨false, .other⟩, ⟨true, .pointer (.named 2)⟩]⟩
  | 1 => ⟨Go.str "A", [], [fn "Foo", fn "Bar"], .struct []⟩
  | 2 => ⟨Go.str "B", [], [fn "Foo", fn "Baz"], .struct [⟨true, .named 3⟩]⟩
  | _ => ⟨Go.str "D", [], [fn "Bar", fn "q"], .other⟩

example :
    (namedTypeToInterface sampleEnv sampleG 3 () 0 3).map (fun r => (goNames r.2, Go.mapElems r.2.ambiguous)) =
      .ok ([Go.str "Blah", Go.str "Baz", Go.str "q"], [Go.str "Foo", Go.str "Bar"]) ∧
    (namedTypeToInterface sampleEnv sampleG 3 () 0 2).map (fun r => goNames r.2) =
      .ok [Go.str "Blah", Go.str "Baz"] ∧
    (namedTypeToInterface sampleEnv sampleG 2 () 0 3).map (fun r => goNames r.2) = .error "out of fuel" ∧
    Unf sampleG 0 (.mk 0 (ownM sampleG 0) [.mk 1 (ownM sampleG 1) [],
      .mk 2 (ownM sampleG 2) [.mk 3 (ownM sampleG 3) []]]) := by
  refine ⟨by rfl, by rfl, by rfl, ?_⟩
  simp only [Unf, UnfL]
  exact ⟨trivial, trivial, [1, 2], rfl, 1, [2], rfl, ⟨rfl, rfl, [], rfl, rfl⟩, 2, [], rfl,
    ⟨rfl, rfl, [3], rfl, 3, [], rfl, ⟨rfl, rfl, [], rfl, rfl⟩, rfl⟩, rfl⟩

end obligations

end C19Merge

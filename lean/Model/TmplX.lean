/-!
# A larger fragment of Go's text/template as data, and what executing it means (core Lean only)

`Model/TmplAst.lean` covers text, `{{.f}}`, `{{if .f}}` and `{{template}}` (enough for gsort's template).
genum's template also declares variables, ranges over lists with `$i, $x`, indexes, compares lengths and
calls a method with an argument.  `harness/cmd/go2lean -spec genumtmpl` reads the template with
text/template/parse and writes the parse tree of each section as terms of `TmplX.Node`
(`lean/Generated/GenumTmpl.lean`).  The `{{-` / `-}}` markers and comments are already resolved in that
tree: a text node holds the text as it is written out, an all-whitespace text that was trimmed away is not
a node at all, a comment is not a node.

Expressions (`Expr`), one per pipeline (pipelines with `|` are outside the fragment):

* `dot`, `var "$x"` (`var "$"` is the data the template was executed on), `field e f` (`e.f`: a field or a
  niladic method), `call e m args` (`e.m a1 a2 …`: a method with arguments), `fn name args` (a built-in
  function: `len`, `index`, `gt`), string / integer / boolean literals.

Nodes (`Node`):

* `text s`; `action e` (`{{e}}`: print the value); `assign "$x" e` (`{{$x := e}}`: declares `$x` for the rest
  of the enclosing block); `ite c thn els`; `withN e thn els` (dot := the value when it is not empty);
  `range iv xv e body els` (`{{range $i, $x := e}} body {{else}} els {{end}}`; dot := the element).

Values are `Val D`: a string, an integer, a boolean, or a piece of the caller's data `D` (structs, slices,
pointers: what they are is `Data D`'s business - the property files bind field and method names to the
TRANSLATED Go methods of the same name).  `none` stands for an execution error (unknown field, wrong
argument kind, index out of range, a method that panics, an unknown variable).

The output is the list of the pieces written, one per text node and one per printed action, in order; the
text of the generated file is their concatenation (`String.join`).

Scoping as in text/template: a variable declared in a block (`if`, `with`, `range` body) ends with the
block; every iteration of a `range` starts from the variables visible before the `range` plus its own
`$i, $x`.
-/
namespace TmplX

inductive Expr where
  | dot
  | var (name : String)
  | field (e : Expr) (f : String)
  | call (e : Expr) (m : String) (args : List Expr)
  | fn (name : String) (args : List Expr)
  | str (s : String)
  | int (n : Int)
  | bool (b : Bool)
  deriving Repr

inductive Node where
  | text (s : String)
  | action (e : Expr)
  | assign (x : String) (e : Expr)
  | ite (c : Expr) (thn els : List Node)
  | withN (e : Expr) (thn els : List Node)
  | range (iv xv : Option String) (e : Expr) (body els : List Node)
  deriving Repr

inductive Val (D : Type) where
  | data (d : D)
  | str (s : String)
  | int (n : Int)
  | bool (b : Bool)

/-- the values a template is executed on -/
structure Data (D : Type) where
  /-- `x.f`: a field or a niladic method -/
  field : D → String → Option (Val D)
  /-- `x.m a1 a2 …` -/
  method : D → String → List (Val D) → Option (Val D)
  /-- the elements of a slice (for `range`, `len`, `index`) -/
  elems : D → Option (List (Val D))
  /-- `{{if x}}` / `{{with x}}`: is the value non-empty (a non-nil pointer, a non-empty slice, a struct) -/
  truth : D → Option Bool
  /-- `{{x}}` -/
  print : D → Option String

variable {D : Type}

abbrev Env (D : Type) := List (String × Val D)

/-- the innermost declaration of `x` -/
def lookup (env : Env D) (x : String) : Option (Val D) :=
  match env with
  | [] => none
  | (y, v) :: rest => if y == x then some v else lookup rest x

def bindOpt (x : Option String) (v : Val D) (env : Env D) : Env D :=
  match x with
  | some x => (x, v) :: env
  | none => env

/-- text/template's `truth` -/
def truthVal (I : Data D) : Val D → Option Bool
  | .data d => I.truth d
  | .str s => some (s != "")
  | .int n => some (n != 0)
  | .bool b => some b

/-- what `{{x}}` writes -/
def printVal (I : Data D) : Val D → Option String
  | .data d => I.print d
  | .str s => some s
  | .int n => some (toString n)
  | .bool b => some (if b then "true" else "false")

/-- `index x i1 i2 …` on slices: every index an integer within bounds -/
def indexVal (I : Data D) : Val D → List (Val D) → Option (Val D)
  | v, [] => some v
  | .data d, .int i :: rest =>
    match I.elems d with
    | none => none
    | some xs =>
      if i < 0 then none else
      match xs[i.toNat]? with
      | none => none
      | some x => indexVal I x rest
  | _, _ => none

/-- the built-in functions of the fragment.  `len` of a slice; `index`; `gt` on two integers. -/
def builtin (I : Data D) (name : String) (args : List (Val D)) : Option (Val D) :=
  if name == "len" then
    match args with
    | [.data d] => (I.elems d).map (fun xs => .int xs.length)
    | [.str s] => some (.int s.utf8ByteSize)
    | _ => none
  else if name == "index" then
    match args with
    | x :: idx => indexVal I x idx
    | [] => none
  else if name == "gt" then
    match args with
    | [.int a, .int b] => some (.bool (decide (a > b)))
    | _ => none
  else none

mutual
def evalExpr (I : Data D) (env : Env D) (dot : Val D) : Expr → Option (Val D)
  | .dot => some dot
  | .var x => lookup env x
  | .field e f =>
    match evalExpr I env dot e with
    | some (.data d) => I.field d f
    | _ => none
  | .call e m args =>
    match evalExpr I env dot e, evalArgs I env dot args with
    | some (.data d), some vs => I.method d m vs
    | _, _ => none
  | .fn name args =>
    match evalArgs I env dot args with
    | some vs => builtin I name vs
    | none => none
  | .str s => some (.str s)
  | .int n => some (.int n)
  | .bool b => some (.bool b)
def evalArgs (I : Data D) (env : Env D) (dot : Val D) : List Expr → Option (List (Val D))
  | [] => some []
  | e :: es =>
    match evalExpr I env dot e, evalArgs I env dot es with
    | some v, some vs => some (v :: vs)
    | _, _ => none
end

/-- the iterations of a `range`, `f i x` being one execution of the body -/
def rangeLoop (f : Nat → Val D → Option (List String)) : Nat → List (Val D) → Option (List String)
  | _, [] => some []
  | i, x :: xs =>
    match f i x, rangeLoop f (i + 1) xs with
    | some a, some b => some (a ++ b)
    | _, _ => none

mutual
/-- one node: what it writes, and the variables visible after it -/
def renderNode (I : Data D) (env : Env D) (dot : Val D) : Node → Option (List String × Env D)
  | .text s => some ([s], env)
  | .action e =>
    match evalExpr I env dot e with
    | none => none
    | some v =>
      match printVal I v with
      | none => none
      | some s => some ([s], env)
  | .assign x e =>
    match evalExpr I env dot e with
    | none => none
    | some v => some ([], (x, v) :: env)
  | .ite c thn els =>
    match evalExpr I env dot c with
    | none => none
    | some v =>
      match truthVal I v with
      | none => none
      | some true => (renderList I env dot thn).map (fun out => (out, env))
      | some false => (renderList I env dot els).map (fun out => (out, env))
  | .withN e thn els =>
    match evalExpr I env dot e with
    | none => none
    | some v =>
      match truthVal I v with
      | none => none
      | some true => (renderList I env v thn).map (fun out => (out, env))
      | some false => (renderList I env dot els).map (fun out => (out, env))
  | .range iv xv e body els =>
    match evalExpr I env dot e with
    | some (.data d) =>
      match I.elems d with
      | none => none
      | some xs =>
        if xs.isEmpty then (renderList I env dot els).map (fun out => (out, env))
        else
          (rangeLoop (fun i y => renderList I (bindOpt xv y (bindOpt iv (.int i) env)) y body) 0 xs).map
            (fun out => (out, env))
    | _ => none
/-- a list of nodes: the outputs one after the other, declarations carried along -/
def renderList (I : Data D) (env : Env D) (dot : Val D) : List Node → Option (List String)
  | [] => some []
  | n :: ns =>
    match renderNode I env dot n with
    | none => none
    | some (out, env') =>
      match renderList I env' dot ns with
      | none => none
      | some rest => some (out ++ rest)
end

/-- execute a piece of a template on `root` (dot = `$` = root) with some variables already declared -/
def render (I : Data D) (root : Val D) (vars : Env D) (ns : List Node) : Option (List String) :=
  renderList I (vars ++ [("$", root)]) root ns

/-! ### facts about the renderer that do not depend on the template -/

/-! #### the equations of the renderer in `Option.bind` form (what `simp` computes with) -/

def fieldOf (I : Data D) (f : String) : Val D → Option (Val D)
  | .data d => I.field d f
  | _ => none

def methodOf (I : Data D) (m : String) : Val D → List (Val D) → Option (Val D)
  | .data d, vs => I.method d m vs
  | _, _ => none

def elemsOf (I : Data D) : Val D → Option (List (Val D))
  | .data d => I.elems d
  | _ => none

@[simp] theorem fieldOf_data (I : Data D) (f : String) (d : D) : fieldOf I f (.data d) = I.field d f := rfl
@[simp] theorem methodOf_data (I : Data D) (m : String) (d : D) (vs : List (Val D)) :
    methodOf I m (.data d) vs = I.method d m vs := rfl
@[simp] theorem elemsOf_data (I : Data D) (d : D) : elemsOf I (.data d) = I.elems d := rfl

theorem lookup_cons (y : String) (v : Val D) (rest : Env D) (x : String) :
    lookup ((y, v) :: rest) x = if y == x then some v else lookup rest x := rfl

theorem evalExpr_dot (I : Data D) (env : Env D) (dot : Val D) : evalExpr I env dot .dot = some dot := by
  simp [evalExpr]
theorem evalExpr_var (I : Data D) (env : Env D) (dot : Val D) (x : String) :
    evalExpr I env dot (.var x) = lookup env x := by simp [evalExpr]
theorem evalExpr_str (I : Data D) (env : Env D) (dot : Val D) (s : String) :
    evalExpr I env dot (.str s) = some (.str s) := by simp [evalExpr]
theorem evalExpr_int (I : Data D) (env : Env D) (dot : Val D) (n : Int) :
    evalExpr I env dot (.int n) = some (.int n) := by simp [evalExpr]
theorem evalExpr_bool (I : Data D) (env : Env D) (dot : Val D) (b : Bool) :
    evalExpr I env dot (.bool b) = some (.bool b) := by simp [evalExpr]

theorem evalExpr_field (I : Data D) (env : Env D) (dot : Val D) (e : Expr) (f : String) :
    evalExpr I env dot (.field e f) = (evalExpr I env dot e).bind (fieldOf I f) := by
  rw [evalExpr]
  cases evalExpr I env dot e with
  | none => rfl
  | some v => cases v <;> rfl

theorem evalExpr_call (I : Data D) (env : Env D) (dot : Val D) (e : Expr) (m : String) (args : List Expr) :
    evalExpr I env dot (.call e m args) =
      (evalExpr I env dot e).bind fun v => (evalArgs I env dot args).bind fun vs => methodOf I m v vs := by
  rw [evalExpr]
  cases evalExpr I env dot e with
  | none => rfl
  | some v => cases v <;> cases evalArgs I env dot args <;> rfl

theorem evalExpr_fn (I : Data D) (env : Env D) (dot : Val D) (name : String) (args : List Expr) :
    evalExpr I env dot (.fn name args) = (evalArgs I env dot args).bind (builtin I name) := by
  rw [evalExpr]
  cases evalArgs I env dot args <;> rfl

theorem evalArgs_nil (I : Data D) (env : Env D) (dot : Val D) : evalArgs I env dot [] = some [] := by
  simp [evalArgs]

theorem evalArgs_cons (I : Data D) (env : Env D) (dot : Val D) (e : Expr) (es : List Expr) :
    evalArgs I env dot (e :: es) =
      (evalExpr I env dot e).bind fun v => (evalArgs I env dot es).map (fun vs => v :: vs) := by
  rw [evalArgs]
  cases evalExpr I env dot e <;> cases evalArgs I env dot es <;> rfl

theorem builtin_index (I : Data D) (x : Val D) (idx : List (Val D)) :
    builtin I "index" (x :: idx) = indexVal I x idx := by simp [builtin]
theorem builtin_len (I : Data D) (d : D) :
    builtin I "len" [.data d] = (I.elems d).map (fun xs => .int xs.length) := by simp [builtin]
theorem builtin_gt (I : Data D) (a b : Int) :
    builtin I "gt" [.int a, .int b] = some (.bool (decide (a > b))) := by simp [builtin]

theorem renderList_nil (I : Data D) (env : Env D) (dot : Val D) : renderList I env dot [] = some [] := by
  simp [renderList]

theorem renderList_text (I : Data D) (env : Env D) (dot : Val D) (s : String) (ns : List Node) :
    renderList I env dot (.text s :: ns) = (renderList I env dot ns).map (fun rest => s :: rest) := by
  rw [renderList, renderNode]
  simp only []
  cases renderList I env dot ns <;> rfl

theorem renderList_action (I : Data D) (env : Env D) (dot : Val D) (e : Expr) (ns : List Node) :
    renderList I env dot (.action e :: ns) =
      (evalExpr I env dot e).bind fun v => (printVal I v).bind fun s =>
        (renderList I env dot ns).map (fun rest => s :: rest) := by
  rw [renderList, renderNode]
  cases evalExpr I env dot e with
  | none => rfl
  | some v =>
    simp only [Option.bind_some]
    cases printVal I v with
    | none => rfl
    | some s => simp only [Option.bind_some]; cases renderList I env dot ns <;> rfl

theorem renderList_assign (I : Data D) (env : Env D) (dot : Val D) (x : String) (e : Expr) (ns : List Node) :
    renderList I env dot (.assign x e :: ns) =
      (evalExpr I env dot e).bind fun v => renderList I ((x, v) :: env) dot ns := by
  rw [renderList, renderNode]
  cases evalExpr I env dot e with
  | none => rfl
  | some v => simp only [Option.bind_some]; cases renderList I ((x, v) :: env) dot ns <;> simp

private theorem seq_eq (a : Option (List String)) (env : Env D) (k : Env D → Option (List String)) :
    (match a.map (fun out => (out, env)) with
      | none => none
      | some (out, env') =>
        match k env' with
        | none => none
        | some rest => some (out ++ rest))
      = a.bind fun out => (k env).map (fun rest => out ++ rest) := by
  cases a with
  | none => rfl
  | some out => simp only [Option.map_some, Option.bind_some]; cases k env <;> rfl

theorem renderList_ite (I : Data D) (env : Env D) (dot : Val D) (c : Expr) (thn els ns : List Node) :
    renderList I env dot (.ite c thn els :: ns) =
      (evalExpr I env dot c).bind fun v => (truthVal I v).bind fun b =>
        (if b then renderList I env dot thn else renderList I env dot els).bind fun out =>
          (renderList I env dot ns).map (fun rest => out ++ rest) := by
  rw [renderList, renderNode]
  cases evalExpr I env dot c with
  | none => rfl
  | some v =>
    simp only [Option.bind_some]
    cases truthVal I v with
    | none => rfl
    | some b =>
      cases b
      · simp only [Option.bind_some, Bool.false_eq_true, if_false]
        exact seq_eq _ env (fun env' => renderList I env' dot ns)
      · simp only [Option.bind_some, if_true]
        exact seq_eq _ env (fun env' => renderList I env' dot ns)

theorem renderList_with (I : Data D) (env : Env D) (dot : Val D) (e : Expr) (thn els ns : List Node) :
    renderList I env dot (.withN e thn els :: ns) =
      (evalExpr I env dot e).bind fun v => (truthVal I v).bind fun b =>
        (if b then renderList I env v thn else renderList I env dot els).bind fun out =>
          (renderList I env dot ns).map (fun rest => out ++ rest) := by
  rw [renderList, renderNode]
  cases evalExpr I env dot e with
  | none => rfl
  | some v =>
    simp only [Option.bind_some]
    cases truthVal I v with
    | none => rfl
    | some b =>
      cases b
      · simp only [Option.bind_some, Bool.false_eq_true, if_false]
        exact seq_eq _ env (fun env' => renderList I env' dot ns)
      · simp only [Option.bind_some, if_true]
        exact seq_eq _ env (fun env' => renderList I env' dot ns)

/-- a `range` without `{{else}}` needs no look at whether the list is empty -/
theorem renderList_range (I : Data D) (env : Env D) (dot : Val D) (iv xv : Option String) (e : Expr)
    (body ns : List Node) :
    renderList I env dot (.range iv xv e body [] :: ns) =
      (evalExpr I env dot e).bind fun v => (elemsOf I v).bind fun xs =>
        (rangeLoop (fun i y => renderList I (bindOpt xv y (bindOpt iv (.int i) env)) y body) 0 xs).bind fun out =>
          (renderList I env dot ns).map (fun rest => out ++ rest) := by
  rw [renderList, renderNode]
  cases evalExpr I env dot e with
  | none => rfl
  | some v =>
    cases v with
    | data d =>
      simp only [Option.bind_some, elemsOf_data]
      cases I.elems d with
      | none => rfl
      | some xs =>
        cases xs with
        | nil =>
          simp only [Option.bind_some, List.isEmpty_nil, if_true, rangeLoop, renderList, Option.map_some]
          cases renderList I env dot ns <;> simp
        | cons x xs =>
          simp only [Option.bind_some, List.isEmpty_cons, Bool.false_eq_true, if_false]
          exact seq_eq _ env (fun env' => renderList I env' dot ns)
    | str _ => rfl
    | int _ => rfl
    | bool _ => rfl

/-- a `range` whose body writes `g i x` at every element writes the pieces one after the other -/
theorem rangeLoop_eq (f : Nat → Val D → Option (List String)) (g : Nat → Val D → List String) :
    ∀ (xs : List (Val D)) (k : Nat), (∀ i x, xs[i]? = some x → f (k + i) x = some (g (k + i) x)) →
      rangeLoop f k xs = some ((xs.zipIdx k).flatMap (fun p => g p.2 p.1)) := by
  intro xs
  induction xs with
  | nil => intro k _; rfl
  | cons x xs ih =>
    intro k h
    have h0 := h 0 x rfl
    simp only [Nat.add_zero] at h0
    have ht := ih (k + 1) (fun i y hy => by
      have := h (i + 1) y (by simpa using hy)
      rw [show k + (i + 1) = k + 1 + i by omega] at this
      exact this)
    simp only [rangeLoop, h0, ht, List.zipIdx_cons, List.flatMap_cons]

/-- the same when the body does not look at the index -/
theorem rangeLoop_map (f : Nat → Val D → Option (List String)) (g : Val D → List String)
    (xs : List (Val D)) (k : Nat) (h : ∀ i x, x ∈ xs → f i x = some (g x)) :
    rangeLoop f k xs = some (xs.flatMap g) := by
  induction xs generalizing k with
  | nil => rfl
  | cons x xs ih =>
    simp only [rangeLoop, h k x (by simp), ih (k + 1) (fun i y hy => h i y (by simp [hy])), List.flatMap_cons]

end TmplX

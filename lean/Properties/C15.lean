import Lemmas.GErrClone
import Generated.GerrorBase
/-!
# C15 — gerror: factories immutable; message/tag/source/stack compose lawfully

Model: `Model/GErrClone.lean` (mirror of `CloneBase`, of the 19 factory methods' wiring and of the
stack/`Metric` string functions).  Specification: `specMessage`, `specDTag`, `specSource`,
`specHasStack` there (they follow the sentences of the property).  All theorems are for every
factory, every chain of any length and all arguments.
-/
namespace GErrClone

/-! ### "trimmed", "non-blank": `strings.TrimSpace` -/

/-- an extension is dropped exactly when it is blank (only white space, or empty) -/
theorem trimSpace_eq_nil_iff (s : Str) : trimSpace s = [] ↔ s.all isSpace = true := by
  unfold trimSpace; rw [trimRight_eq_nil_iff, dropWhile_all_iff]

/-- `TrimSpace s` is `s` without a white-space prefix and a white-space suffix, and neither starts
nor ends with white space: this determines it uniquely. -/
theorem trimSpace_spec (s : Str) :
    ∃ l r, s = l ++ trimSpace s ++ r ∧ l.all isSpace = true ∧ r.all isSpace = true ∧
      (∀ c, (trimSpace s).head? = some c → isSpace c = false) ∧
      (∀ c, (trimSpace s).getLast? = some c → isSpace c = false) := by
  obtain ⟨r, hr, hsp, hl⟩ := trimRight_spec (s.dropWhile isSpace)
  refine ⟨s.takeWhile isSpace, r, ?_, ?_, hsp, ?_, hl⟩
  · unfold trimSpace
    rw [List.append_assoc, ← hr, List.takeWhile_append_dropWhile]
  · simp
  · intro c hc
    unfold trimSpace at hc
    have hne : trimRight (s.dropWhile isSpace) ≠ [] := by intro h; simp [h] at hc
    have h1 : (s.dropWhile isSpace).head? = some c := by
      rw [hr, List.head?_append, hc]; rfl
    have h2 := List.head?_dropWhile_not isSpace s
    rw [h1] at h2
    exact h2


/-! ## The chain laws -/

/-- the name never changes -/
theorem name_law (e : E) (cs : List Call) : (run e cs).name = e.name := by
  induction cs generalizing e with
  | nil => rfl
  | cons c cs ih => rw [run_cons, ih, step_name]

/-- **Message law.** After any chain, the message is the base message followed by each non-blank
extension, trimmed, joined by single spaces. -/
theorem message_law (e : E) (cs : List Call) :
    (run e cs).msg = specMessage e.msg (cs.map Call.msgArg) := by
  induction cs generalizing e with
  | nil => simp [run_nil, specMessage, joinNonEmpty_single]
  | cons c cs ih =>
    rw [run_cons, ih, step_msg]
    simp only [specMessage, List.map_cons]
    rw [joinNonEmpty_combine]

/-- **Detail-tag law.** Detail tags are joined by `-` (empty ones contribute nothing). -/
theorem dtag_law (e : E) (cs : List Call) :
    (run e cs).dtag = specDTag e.dtag (cs.map Call.dtagArg) := by
  induction cs generalizing e with
  | nil => simp [run_nil, specDTag, joinNonEmpty_single]
  | cons c cs ih =>
    rw [run_cons, ih, step_dtag]
    simp only [specDTag, List.map_cons]
    rw [joinNonEmpty_combine]

/-- **Stack law.** A stack is present after a chain exactly when the start had one or a
stack-taking method (`Stack`, `…S`) was used somewhere in the chain. -/
theorem stack_law (e : E) (cs : List Call) :
    (run e cs).hasStack = (e.hasStack || specHasStack cs) := by
  induction cs generalizing e with
  | nil => simp [run_nil, specHasStack]
  | cons c cs ih =>
    rw [run_cons, ih, step_hasStack]
    simp [specHasStack, Bool.or_assoc]

/-- from a factory (which has no stack): present iff a stack-taking method was used -/
theorem stack_iff_stack_method (f : E) (hf : f.stack = []) (cs : List Call) :
    (run f cs).stack ≠ [] ↔ ∃ c ∈ cs, c.m.takesStack = true := by
  have h := stack_law f cs
  simp only [E.hasStack, hf, specHasStack, List.isEmpty_nil, Bool.not_true, Bool.false_or] at h
  rw [← List.isEmpty_eq_false_iff, ← Bool.not_eq_true', h, List.any_eq_true]

/-- once captured, the stack is carried along unchanged -/
theorem stack_persists (e : E) (he : e.stack ≠ []) (cs : List Call) : (run e cs).stack = e.stack := by
  induction cs generalizing e with
  | nil => rfl
  | cons c cs ih =>
    have h1 : (step e c).stack = e.stack := by rw [step_stack]; simp [he]
    rw [run_cons, ih _ (by rw [h1]; exact he), h1]


/-! ### source -/


/-- The caller is "outside": its frame name does not start with what `getCurrentPackage` computes.
(That string is `…/gerror.Stack`, so this only excludes functions of package gerror whose name
starts with `Stack`.) -/
def CallerOutside (c : Call) : Prop := currentPackage.isPrefixOf c.frames.top = false

theorem nearestExternal_makeStack (st : StackType) (fr : Frames) (hst : st ≠ .noStack)
    (ho : currentPackage.isPrefixOf fr.top = false) :
    nearestExternal (makeStack st fr) = fr.top := by
  unfold nearestExternal makeStack Frames.toList
  cases st <;> simp [StackType.depth, ho] at hst ⊢

/-- no stack without a source: true of every factory (no stack) and kept by every derivation -/
def Inv (e : E) : Prop := e.stack ≠ [] → e.src ≠ []

theorem step_src (e : E) (c : Call) (hi : Inv e) (ho : CallerOutside c) :
    (step e c).src =
      if e.src ≠ [] then e.src
      else if c.srcArg ≠ [] then c.srcArg
      else if c.m = .base then []
      else metric c.frames.top := by
  simp only [step, execRow, cloneBase_src, Call.srcArg]
  by_cases h1 : e.src = []
  · have h2 : e.stack = [] := by
      apply Classical.byContradiction; intro h; exact hi h h1
    by_cases h3 : evalArg (wiring c.m).src c = []
    · by_cases h4 : c.m = .base
      · simp [h1, h2, h4, wiring_noStack_iff]
      · have h5 : (wiring c.m).stack ≠ .noStack := fun h => h4 ((wiring_noStack_iff _).mp h)
        simp [h1, h2, h3, h4, h5, nearestExternal_makeStack _ _ h5 ho]
    · simp [h1, h3]
  · simp [h1]

theorem step_inv (e : E) (c : Call) (hi : Inv e) (ho : CallerOutside c) : Inv (step e c) := by
  intro hs
  rw [step_src e c hi ho]
  by_cases h1 : e.src = []
  · have h2 : e.stack = [] := by
      apply Classical.byContradiction; intro h; exact hi h h1
    by_cases h3 : c.srcArg = []
    · by_cases h4 : c.m = .base
      · rw [step_stack] at hs
        simp [h2, h4, Method.takesStack] at hs
      · simp [h1, h3, h4, metric_ne_nil]
    · simp [h1, h3]
  · simp [h1]

theorem specSource_of_ne_nil (b : Str) (hb : b ≠ []) (cs : List Call) : specSource b cs = b := by
  cases cs <;> simp [specSource, hb]

/-- **Source law.** From any error that satisfies `Inv` (in particular every factory), along any
chain whose callers are outside gerror: the first non-empty source — preset in the factory, given
as an argument, or derived from the caller by the first method other than `Base` — wins and is
never overwritten. -/
theorem source_law (e : E) (hi : Inv e) (cs : List Call) (ho : ∀ c ∈ cs, CallerOutside c) :
    (run e cs).src = specSource e.src cs := by
  induction cs generalizing e with
  | nil => rfl
  | cons c cs ih =>
    have hoc := ho c (by simp)
    rw [run_cons, ih _ (step_inv e c hi hoc) (fun d hd => ho d (by simp [hd])), step_src e c hi hoc]
    by_cases h1 : e.src = []
    · by_cases h3 : c.srcArg = []
      · by_cases h4 : c.m = .base
        · simp [specSource, h1, h3, h4]
        · simp [specSource, h1, h3, h4, specSource_of_ne_nil _ (metric_ne_nil _)]
      · simp [specSource, h1, h3, specSource_of_ne_nil _ h3]
    · simp [specSource, h1, specSource_of_ne_nil _ h1]

/-- a factory (no stack) satisfies the invariant -/
theorem inv_of_factory (f : E) (hf : f.stack = []) : Inv f := fun h => absurd hf h

/-- **A non-empty source is never overwritten** — by any chain, wherever the callers are. -/
theorem source_never_overwritten (e : E) (he : e.src ≠ []) (cs : List Call) : (run e cs).src = e.src := by
  induction cs generalizing e with
  | nil => rfl
  | cons c cs ih =>
    have h1 : (step e c).src = e.src := by simp [step, execRow, cloneBase_src, he]
    rw [run_cons, ih _ (by rw [h1]; exact he), h1]

/-- **A source is derived from the caller whenever none was given, except by `Base`.** -/
theorem source_derived_unless_base (f : E) (hf : f.stack = []) (hs : f.src = []) (c : Call)
    (ho : CallerOutside c) (hg : c.srcArg = []) :
    (step f c).src = (if c.m = .base then [] else metric c.frames.top) ∧
    (c.m ≠ .base → (step f c).src ≠ []) := by
  rw [step_src f c (inv_of_factory f hf) ho]
  by_cases h4 : c.m = .base <;> simp [hs, hg, h4, metric_ne_nil]

/-- **The first non-empty source wins.** -/
theorem source_first_wins (f : E) (hf : f.stack = []) (hs : f.src = []) (c : Call) (cs : List Call)
    (ho : ∀ d ∈ c :: cs, CallerOutside d) (hg : c.srcArg ≠ []) :
    (run f (c :: cs)).src = c.srcArg := by
  rw [source_law f (inv_of_factory f hf) _ ho]
  simp [specSource, hs, hg]


/-! ## Tie A: the wiring table is what `gerror.go` says today

`Generated.GerrorBase` is rewritten from the checked tree before every build; these are re-checked by
the kernel each time. -/

/-- **Method wiring.** Every factory method of `*GError` hands to `CloneBase` exactly the stack
type and the parameters its name promises (`wiring`), in the right positions, and only `Convert*`
short-circuit on gerror values. -/
theorem method_wiring : ∀ m ∈ Method.all, rowOf Generated.GerrorBase.rows m = some (wiring m) := by
  decide

/-- the `Factory` interface has exactly the 19 modelled methods, so `method_wiring` covers it -/
theorem factory_methods_covered :
    Generated.GerrorBase.factoryMethods.map String.toList = Method.all.map (fun m => m.goName.toList) ∧
    Generated.GerrorBase.rows.length = Method.all.length := by
  decide

/-- the `StackType` constants and `defaultSkip` are the ones the model uses -/
theorem stack_constants :
    Generated.GerrorBase.stackDepths =
      [(.noStack, StackType.noStack.depth), (.sourceStack, StackType.sourceStack.depth),
       (.shortStack, StackType.shortStack.depth), (.defaultStack, StackType.defaultStack.depth)] ∧
    Generated.GerrorBase.defaultSkip = 4 := by
  decide

/-- the sections of `(*GError).Error()` appear in the order the model renders them (`errorFull`) -/
theorem error_parts :
    Generated.GerrorBase.errorParts.map String.toList =
      ["name".toList, "dtag".toList, "source".toList, "message".toList, "stack".toList] := by
  decide

/-- `ExtMsgf` asserts its first parameter to `Factory`, calls `Msg(format, args...)` on it when that
succeeds and `ErrUnknown.Convert(err)` otherwise; `ErrUnknown` has the fields of `errUnknown`. -/
theorem extMsgf_wiring :
    Generated.GerrorBase.extMsgfAsserts = 0 ∧
    (Generated.GerrorBase.extMsgfFactoryBranch.1.toList, Generated.GerrorBase.extMsgfFactoryBranch.2) =
      (Method.msg.goName.toList, ([1, 2], true)) ∧
    (Generated.GerrorBase.extMsgfElseBranch.1.toList, Generated.GerrorBase.extMsgfElseBranch.2.1.toList,
      Generated.GerrorBase.extMsgfElseBranch.2.2) = ("ErrUnknown".toList, Method.convert.goName.toList, [0]) ∧
    Generated.GerrorBase.errUnknownFields.map (fun p => (p.1.toList, p.2.toList)) =
      [("Name".toList, errUnknown.name), ("Message".toList, errUnknown.msg)] ∧
    errUnknown.src = [] ∧ errUnknown.dtag = [] ∧ errUnknown.stack = [] := by
  decide

/-! ## `ExtMsgf` -/

/-- **On a gerror value `ExtMsgf` is `Msg`**, called from `ExtMsgf`'s own frame. -/
theorem extMsgf_gerror_is_msg (e : E) (format formatted errText : Str) (fr : Frames) :
    extMsgf (.gerr e) format formatted errText fr =
      step e { m := .msg, params := [format], formatted := formatted, frames := extMsgfFrames fr } := rfl

/-- **On anything else it is `ErrUnknown.Convert(err)`** — format and arguments are dropped. -/
theorem extMsgf_foreign_is_convert (format formatted errText : Str) (fr : Frames) :
    extMsgf .foreign format formatted errText fr =
      step errUnknown { m := .convert, params := [], formatted := errText, frames := extMsgfFrames fr } := rfl

theorem extMsgf_foreign_drops_format (f1 s1 f2 s2 errText : Str) (fr : Frames) :
    extMsgf .foreign f1 s1 errText fr = extMsgf .foreign f2 s2 errText fr := rfl

/-- `ExtMsgf` after a chain is the chain with one more `Msg` call: every chain law above applies. -/
theorem extMsgf_extends_chain (f : E) (cs : List Call) (format formatted errText : Str) (fr : Frames) :
    extMsgf (.gerr (run f cs)) format formatted errText fr =
      run f (cs ++ [{ m := .msg, params := [format], formatted := formatted, frames := extMsgfFrames fr }]) := by
  rw [run_append]; rfl

/-- the frame of `ExtMsgf` counts as "outside" for `NearestExternal`, and renders as `gerror:ExtMsgf` -/
theorem extMsgf_frame_outside (c : Call) (fr : Frames) (h : c.frames = extMsgfFrames fr) : CallerOutside c := by
  unfold CallerOutside; rw [h]
  show currentPackage.isPrefixOf extMsgfFrame = false
  decide

theorem extMsgf_metric : metric extMsgfFrame = "gerror:ExtMsgf".toList := by decide

/-- message: the formatted text is appended like any `Msg` extension (trimmed, dropped when blank) -/
theorem extMsgf_message (e : E) (format formatted errText : Str) (fr : Frames) :
    (extMsgf (.gerr e) format formatted errText fr).msg = combine [' '] e.msg (trimSpace formatted) := by
  rw [extMsgf_gerror_is_msg, step_msg]; rfl

/-- name, detail tag and stack are untouched -/
theorem extMsgf_keeps (e : E) (format formatted errText : Str) (fr : Frames) :
    (extMsgf (.gerr e) format formatted errText fr).name = e.name ∧
    (extMsgf (.gerr e) format formatted errText fr).dtag = e.dtag ∧
    (extMsgf (.gerr e) format formatted errText fr).stack = e.stack := by
  rw [extMsgf_gerror_is_msg]
  refine ⟨step_name _ _, ?_, ?_⟩
  · rw [step_dtag]; rfl
  · rw [step_stack]
    by_cases h : e.stack = [] <;> simp [h, Method.takesStack]

/-- **Source.** A source that is there stays; otherwise the derived source names `ExtMsgf` itself
(`gerror:ExtMsgf`), not the function that called `ExtMsgf` — the frame `CloneBase` looks at is the
caller of `Msg`. -/
theorem extMsgf_source (e : E) (hi : Inv e) (format formatted errText : Str) (fr : Frames) :
    (extMsgf (.gerr e) format formatted errText fr).src =
      if e.src ≠ [] then e.src else "gerror:ExtMsgf".toList := by
  rw [extMsgf_gerror_is_msg, step_src e _ hi (extMsgf_frame_outside _ fr rfl)]
  by_cases h : e.src = []
  · simp only [h, ne_eq, not_true_eq_false, if_false]
    rw [← extMsgf_metric]; rfl
  · simp [h]

/-- the result for a foreign error (or `nil`), in full -/
theorem extMsgf_foreign_result (format formatted errText : Str) (fr : Frames) :
    extMsgf .foreign format formatted errText fr =
      { name := errUnknown.name,
        msg := errUnknown.msg ++ [' '] ++ trimSpace (originalErrorPrefix ++ errText),
        src := "gerror:ExtMsgf".toList, dtag := [], stack := [] } := by
  have hne : trimSpace (originalErrorPrefix ++ errText) ≠ [] := by
    rw [Ne, trimSpace_eq_nil_iff]
    have : originalErrorPrefix = 'o' :: "riginalError: ".toList := by decide
    rw [this]
    simp only [List.cons_append, List.all_cons]
    have : isSpace 'o' = false := by decide
    simp [this]
  have hsrc : (extMsgf .foreign format formatted errText fr).src = "gerror:ExtMsgf".toList := by
    rw [extMsgf_foreign_is_convert,
      step_src errUnknown _ (inv_of_factory _ rfl) (extMsgf_frame_outside _ fr rfl), ← extMsgf_metric]
    rfl
  have hmsg : (extMsgf .foreign format formatted errText fr).msg =
      errUnknown.msg ++ [' '] ++ trimSpace (originalErrorPrefix ++ errText) := by
    rw [extMsgf_foreign_is_convert, step_msg]
    show combine [' '] errUnknown.msg (trimSpace (originalErrorPrefix ++ errText)) = _
    unfold combine
    rw [if_neg hne, if_neg (by decide)]
  have hname : (extMsgf .foreign format formatted errText fr).name = errUnknown.name := step_name _ _
  have hdtag : (extMsgf .foreign format formatted errText fr).dtag = [] := by
    rw [extMsgf_foreign_is_convert, step_dtag]; rfl
  have hstack : (extMsgf .foreign format formatted errText fr).stack = [] := by
    rw [extMsgf_foreign_is_convert, step_stack]; rfl
  cases hr : extMsgf .foreign format formatted errText fr with
  | mk n m s d k =>
    rw [hr] at hsrc hmsg hname hdtag hstack
    simp only at hsrc hmsg hname hdtag hstack
    subst hsrc hmsg hname hdtag hstack
    rfl

/-! ## Immutability: derivations only allocate -/

theorem derive_prefix (h : Heap) (d : Deriv) : ∃ l, derive h d = h ++ l := by
  unfold derive
  split
  · exact ⟨_, rfl⟩
  · exact ⟨[], by simp⟩

theorem runHeap_prefix (h : Heap) (ds : List Deriv) : ∃ l, runHeap h ds = h ++ l := by
  induction ds generalizing h with
  | nil => exact ⟨[], by simp [runHeap]⟩
  | cons d ds ih =>
    obtain ⟨l1, h1⟩ := derive_prefix h d
    obtain ⟨l2, h2⟩ := ih (derive h d)
    refine ⟨l1 ++ l2, ?_⟩
    show runHeap (derive h d) ds = _
    rw [h2, h1, List.append_assoc]

/-- **Factories are immutable.** After any number of derivations, by any threads, from any objects
(factories or earlier results), in any order, every object that existed before — each factory in
particular — still has the same name, message, source, detail tag and stack. -/
theorem factory_unchanged (h : Heap) (ds : List Deriv) (a : Nat) (ha : a < h.length) :
    (runHeap h ds)[a]? = h[a]? := by
  obtain ⟨l, hl⟩ := runHeap_prefix h ds
  rw [hl, List.getElem?_append_left ha]

/-- every derivation adds exactly the error the sequential chain semantics predicts -/
theorem derive_result (h : Heap) (d : Deriv) (e : E) (he : h[d.addr]? = some e) :
    derive h d = h ++ [step e d.call] := by
  simp [derive, he]

/-! ## Concurrent derivations: write sets and data races -/

/-- **Tie A, write sets.** Every store in the code a derivation runs (`CloneBase`, the stack
helpers, every method of `*GError`) goes to an object the same function has just allocated or to
one of its own local variables — none through a parameter, the receiver or a package variable.
Regenerated from the source and re-checked on every run. -/
theorem stores_fresh_or_local : ∀ s ∈ Generated.GerrorBase.stores, s.2.2 ≠ StoreClass.shared := by
  decide

theorem mem_threadEvents (alloc : Nat → Nat → Nat) (tid f k : Nat) (e : Ev) :
    e ∈ threadEvents alloc tid f k ↔
      e.tid = tid ∧ ∃ i, i < k ∧ (e.acc = .read (chainBase alloc tid f i) ∨ e.acc = .write (alloc tid i)) := by
  induction k with
  | zero => simp [threadEvents]
  | succ k ih =>
    simp only [threadEvents, List.mem_append, ih, callEvents, List.mem_cons, List.not_mem_nil, or_false]
    constructor
    · rintro (⟨ht, i, hi, h⟩ | h | h)
      · exact ⟨ht, i, Nat.lt_succ_of_lt hi, h⟩
      · subst h; exact ⟨rfl, k, Nat.lt_succ_self k, Or.inl rfl⟩
      · subst h; exact ⟨rfl, k, Nat.lt_succ_self k, Or.inr rfl⟩
    · rintro ⟨ht, i, hi, h⟩
      by_cases hik : i < k
      · exact Or.inl ⟨ht, i, hik, h⟩
      · have : i = k := by omega
        subst this
        cases e with
        | mk t a =>
          simp only at ht h; subst ht
          cases h with
          | inl h => exact Or.inr (Or.inl (by rw [h]))
          | inr h => exact Or.inr (Or.inr (by rw [h]))

/-- the allocator hands out addresses that did not exist before (`≥ n0`) and never gives two of the
`T` goroutines the same address -/
structure FreshAlloc (n0 T : Nat) (alloc : Nat → Nat → Nat) : Prop where
  fresh : ∀ t i, n0 ≤ alloc t i
  own : ∀ t i t' i', t < T → t' < T → alloc t i = alloc t' i' → t = t'

/-- **Derivations write only fresh memory.** In any program of any number of goroutines deriving
chains of any length from shared factories, every write goes to an address allocated during the
run; no object that existed before (no factory) is written. -/
theorem derivations_write_only_fresh (n0 T : Nat) (alloc : Nat → Nat → Nat) (ha : FreshAlloc n0 T alloc)
    (gs : List Goroutine) (e : Ev) (he : e ∈ allEvents alloc gs) (hw : e.acc.isWrite = true) :
    n0 ≤ e.acc.addr := by
  simp only [allEvents, List.mem_flatMap] at he
  obtain ⟨g, _, hg⟩ := he
  obtain ⟨_, i, _, h | h⟩ := (mem_threadEvents _ _ _ _ _).mp hg
  · rw [h] at hw; simp [Access.isWrite] at hw
  · rw [h]; exact ha.fresh _ _

/-- **No data race.** If the goroutines have distinct ids and start from objects that existed
before the run, two accesses to one location from different goroutines are both reads — for every
number of goroutines, all chain lengths, and (the condition being on the set of accesses) every
interleaving. -/
theorem no_data_race (n0 T : Nat) (alloc : Nat → Nat → Nat) (ha : FreshAlloc n0 T alloc)
    (gs : List Goroutine) (hf : ∀ g ∈ gs, g.factory < n0) (hT : ∀ g ∈ gs, g.tid < T)
    (e1 e2 : Ev) (h1 : e1 ∈ allEvents alloc gs) (h2 : e2 ∈ allEvents alloc gs)
    (ht : e1.tid ≠ e2.tid) (hadr : e1.acc.addr = e2.acc.addr) :
    e1.acc.isWrite = false ∧ e2.acc.isWrite = false := by
  simp only [allEvents, List.mem_flatMap] at h1 h2
  obtain ⟨g1, hg1, hm1⟩ := h1
  obtain ⟨g2, hg2, hm2⟩ := h2
  obtain ⟨t1, i, _, c1⟩ := (mem_threadEvents _ _ _ _ _).mp hm1
  obtain ⟨t2, j, _, c2⟩ := (mem_threadEvents _ _ _ _ _).mp hm2
  have hne : g1.tid ≠ g2.tid := by rw [← t1, ← t2]; exact ht
  -- the address of a chain base is the factory (old) or one of the goroutine's own results
  have base_cases : ∀ (g : Goroutine) (k : Nat), g ∈ gs →
      chainBase alloc g.tid g.factory k < n0 ∨ ∃ k', chainBase alloc g.tid g.factory k = alloc g.tid k' := by
    intro g k hg
    cases k with
    | zero => exact Or.inl (hf g hg)
    | succ k => exact Or.inr ⟨k, rfl⟩
  have clash : ∀ (ia ib : Nat), alloc g1.tid ia = alloc g2.tid ib → False :=
    fun ia ib h => hne (ha.own _ _ _ _ (hT g1 hg1) (hT g2 hg2) h)
  rcases c1 with c1 | c1 <;> rcases c2 with c2 | c2 <;> rw [c1, c2] at hadr <;> simp only [Access.addr] at hadr
  · rw [c1, c2]; exact ⟨rfl, rfl⟩
  · exfalso
    rcases base_cases g1 i hg1 with h | ⟨k', h⟩
    · have := ha.fresh g2.tid j; omega
    · rw [h] at hadr; exact clash _ _ hadr
  · exfalso
    rcases base_cases g2 j hg2 with h | ⟨k', h⟩
    · have := ha.fresh g1.tid i; omega
    · rw [h] at hadr; exact clash _ _ hadr
  · exfalso; exact clash _ _ hadr

/-! ## Non-vacuity -/

def exFactory : E := ⟨"ErrA".toList, "base".toList, [], [], []⟩
def exFrames : Frames := ⟨"x/sites.(*T).Plain.func1".toList, ["main.main".toList]⟩
def exChain : List Call :=
  [⟨.msg, [" %d ".toList], " 5 ".toList, exFrames⟩,
   ⟨.srcDTagS, ["late:src".toList, "t".toList], [], exFrames⟩,
   ⟨.dTagMsg, ["u".toList, "  ".toList], "  ".toList, exFrames⟩]

instance (c : Call) : Decidable (CallerOutside c) := by unfold CallerOutside; infer_instance

/-- a factory, callers outside gerror, and a chain that exercises message (one extension blank),
tags, a derived source that a later explicit source does not overwrite, and a stack -/
example :
    exFactory.stack = [] ∧ (∀ c ∈ exChain, CallerOutside c) ∧
    run exFactory exChain =
      ⟨"ErrA".toList, "base 5".toList, "sites:(*T):Plain".toList, "t-u".toList, exFrames.toList⟩ := by
  decide


/-- an allocator striped over 16 goroutines satisfies `FreshAlloc`; two goroutines share factory 1 -/
example : FreshAlloc 3 16 (fun t i => 3 + 16 * i + t) ∧
    (allEvents (fun t i => 3 + 16 * i + t) [⟨0, 1, 2⟩, ⟨1, 1, 1⟩]).length = 6 := by
  refine ⟨⟨fun t i => by omega, ?_⟩, by decide⟩
  intro t i t' i' ht ht' h
  omega

end GErrClone

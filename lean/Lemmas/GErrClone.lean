import Model.GErrClone
/-! Helper lemmas about `Model/GErrClone` shared by `Properties/C15` and `Properties/C09`:
field-by-field behaviour of the blocks of `CloneBase`, joining, single-step facts. -/
namespace GErrClone

/-! ### `strings.TrimSpace` -/

theorem trimRight_eq_nil_iff (s : Str) : trimRight s = [] ↔ s.all isSpace = true := by
  induction s with
  | nil => simp [trimRight]
  | cons c cs ih =>
    unfold trimRight
    split
    · rename_i h
      have := ih.mp h
      by_cases hc : isSpace c <;> simp [hc, this]
    · rename_i h
      have : ¬ (cs.all isSpace = true) := fun hh => h (ih.mpr hh)
      simp
      intro _
      simpa using this

/-- what `trimRight` cuts off is white space, what it keeps does not end in white space -/
theorem trimRight_spec (s : Str) :
    ∃ r, s = trimRight s ++ r ∧ r.all isSpace = true ∧
      ∀ c, (trimRight s).getLast? = some c → isSpace c = false := by
  induction s with
  | nil => exact ⟨[], by simp [trimRight]⟩
  | cons c cs ih =>
    obtain ⟨r, hr, hsp, hl⟩ := ih
    unfold trimRight
    split
    · rename_i h
      rw [h] at hr hl
      by_cases hc : isSpace c
      · refine ⟨c :: cs, by simp [hc], ?_, by simp [hc]⟩
        simp at hr; subst hr; simp [hc, hsp]
      · refine ⟨r, by simp [hc]; simpa using hr, hsp, ?_⟩
        simp [hc]
    · rename_i h
      refine ⟨r, by simp; exact hr, hsp, ?_⟩
      intro d hd
      rw [List.getLast?_cons_of_ne_nil h] at hd  
      exact hl d hd


theorem dropWhile_all_iff (s : Str) : (s.dropWhile isSpace).all isSpace = true ↔ s.all isSpace = true := by
  induction s with
  | nil => simp
  | cons c cs ih =>
    by_cases hc : isSpace c
    · simp [List.dropWhile, hc] at ih ⊢; exact ih
    · simp [List.dropWhile, hc]

/-! ### the blocks of `CloneBase`, field by field -/

@[simp] theorem withSource_name (e : E) (s : Str) : (withSource e s).name = e.name := by unfold withSource; split <;> rfl
@[simp] theorem withSource_msg (e : E) (s : Str) : (withSource e s).msg = e.msg := by unfold withSource; split <;> rfl
@[simp] theorem withSource_dtag (e : E) (s : Str) : (withSource e s).dtag = e.dtag := by unfold withSource; split <;> rfl
@[simp] theorem withSource_stack (e : E) (s : Str) : (withSource e s).stack = e.stack := by unfold withSource; split <;> rfl
theorem withSource_src (e : E) (s : Str) :
    (withSource e s).src = if e.src ≠ [] then e.src else s := by
  unfold withSource
  by_cases h1 : e.src = [] <;> by_cases h2 : s = [] <;> simp [h1, h2]

@[simp] theorem withDTag_name (e : E) (s : Str) : (withDTag e s).name = e.name := by unfold withDTag; (repeat' split) <;> rfl
@[simp] theorem withDTag_msg (e : E) (s : Str) : (withDTag e s).msg = e.msg := by unfold withDTag; (repeat' split) <;> rfl
@[simp] theorem withDTag_src (e : E) (s : Str) : (withDTag e s).src = e.src := by unfold withDTag; (repeat' split) <;> rfl
@[simp] theorem withDTag_stack (e : E) (s : Str) : (withDTag e s).stack = e.stack := by unfold withDTag; (repeat' split) <;> rfl
theorem withDTag_dtag (e : E) (s : Str) :
    (withDTag e s).dtag = if s = [] then e.dtag else if e.dtag = [] then s else e.dtag ++ ['-'] ++ s := by
  unfold withDTag
  by_cases h1 : s = [] <;> by_cases h2 : e.dtag = [] <;> simp [h1, h2]

@[simp] theorem withMsg_name (e : E) (s : Str) : (withMsg e s).name = e.name := by unfold withMsg; simp only []; (repeat' split) <;> rfl
@[simp] theorem withMsg_dtag (e : E) (s : Str) : (withMsg e s).dtag = e.dtag := by unfold withMsg; simp only []; (repeat' split) <;> rfl
@[simp] theorem withMsg_src (e : E) (s : Str) : (withMsg e s).src = e.src := by unfold withMsg; simp only []; (repeat' split) <;> rfl
@[simp] theorem withMsg_stack (e : E) (s : Str) : (withMsg e s).stack = e.stack := by unfold withMsg; simp only []; (repeat' split) <;> rfl
theorem withMsg_msg (e : E) (s : Str) :
    (withMsg e s).msg =
      if trimSpace s = [] then e.msg else if e.msg = [] then trimSpace s else e.msg ++ [' '] ++ trimSpace s := by
  unfold withMsg
  by_cases h1 : trimSpace s = [] <;> by_cases h2 : e.msg = [] <;> simp [h1, h2]

@[simp] theorem withStack_name (e : E) (st : StackType) (fr : Frames) : (withStack e st fr).name = e.name := by
  unfold withStack; simp only []; (repeat' split) <;> rfl
@[simp] theorem withStack_msg (e : E) (st : StackType) (fr : Frames) : (withStack e st fr).msg = e.msg := by
  unfold withStack; simp only []; (repeat' split) <;> rfl
@[simp] theorem withStack_dtag (e : E) (st : StackType) (fr : Frames) : (withStack e st fr).dtag = e.dtag := by
  unfold withStack; simp only []; (repeat' split) <;> rfl


theorem withStack_stack (e : E) (st : StackType) (fr : Frames) :
    (withStack e st fr).stack =
      if e.stack ≠ [] then e.stack
      else if st = .noStack ∨ st = .sourceStack then [] else makeStack st fr := by
  unfold withStack
  by_cases h1 : e.stack = [] <;> by_cases h2 : e.src = [] <;> cases st <;>
    simp [h1, h2, List.length_pos_iff]

theorem withStack_src (e : E) (st : StackType) (fr : Frames) :
    (withStack e st fr).src =
      if e.src ≠ [] then e.src
      else if e.stack ≠ [] ∨ st = .noStack then []
      else metric (nearestExternal (makeStack st fr)) := by
  unfold withStack
  by_cases h1 : e.stack = [] <;> by_cases h2 : e.src = [] <;> cases st <;>
    simp [h1, h2, List.length_pos_iff]


/-! ### one `CloneBase` call -/

@[simp] theorem cloneBase_name (b : E) (st : StackType) (d s m : Str) (fr : Frames) :
    (cloneBase b st d s m fr).name = b.name := by simp [cloneBase]

theorem cloneBase_msg (b : E) (st : StackType) (d s m : Str) (fr : Frames) :
    (cloneBase b st d s m fr).msg =
      if trimSpace m = [] then b.msg else if b.msg = [] then trimSpace m else b.msg ++ [' '] ++ trimSpace m := by
  simp [cloneBase, withMsg_msg]

theorem cloneBase_dtag (b : E) (st : StackType) (d s m : Str) (fr : Frames) :
    (cloneBase b st d s m fr).dtag =
      if d = [] then b.dtag else if b.dtag = [] then d else b.dtag ++ ['-'] ++ d := by
  simp [cloneBase, withDTag_dtag]

theorem cloneBase_stack (b : E) (st : StackType) (d s m : Str) (fr : Frames) :
    (cloneBase b st d s m fr).stack =
      if b.stack ≠ [] then b.stack
      else if st = .noStack ∨ st = .sourceStack then [] else makeStack st fr := by
  simp [cloneBase, withStack_stack]

theorem cloneBase_src (b : E) (st : StackType) (d s m : Str) (fr : Frames) :
    (cloneBase b st d s m fr).src =
      if b.src ≠ [] then b.src
      else if s ≠ [] then s
      else if b.stack ≠ [] ∨ st = .noStack then []
      else metric (nearestExternal (makeStack st fr)) := by
  simp only [cloneBase, withStack_src, withMsg_src, withDTag_src, withSource_src, withMsg_stack,
    withDTag_stack, withSource_stack]
  by_cases h1 : b.src = [] <;> by_cases h2 : s = [] <;> simp [h1, h2]


/-! ### joining -/

/-- how `CloneBase` extends a field: nothing to add / nothing there yet / separator in between -/
def combine (sep base x : Str) : Str :=
  if x = [] then base else if base = [] then x else base ++ sep ++ x

theorem joinWith_merge (sep a b : Str) (rest : List Str) :
    joinWith sep ((a ++ sep ++ b) :: rest) = joinWith sep (a :: b :: rest) := by
  cases rest with
  | nil => simp [joinWith]
  | cons r rs => simp [joinWith, List.append_assoc]

theorem joinNonEmpty_single (sep a : Str) : joinNonEmpty sep [a] = a := by
  unfold joinNonEmpty
  by_cases h : a = [] <;> simp [h, joinWith]

theorem joinNonEmpty_combine (sep base x : Str) (xs : List Str) :
    joinNonEmpty sep (base :: x :: xs) = joinNonEmpty sep (combine sep base x :: xs) := by
  unfold joinNonEmpty combine
  by_cases hx : x = []
  · subst hx; simp [List.filter]
  · by_cases hb : base = []
    · simp [hx, hb]
    · have : base ++ sep ++ x ≠ [] := by simp [hb]
      rw [if_neg hx, if_neg hb]
      rw [List.filter_cons_of_pos (by simpa using hb), List.filter_cons_of_pos (by simpa using hx),
        List.filter_cons_of_pos (by simp [hb]), joinWith_merge]

theorem run_cons (e : E) (c : Call) (cs : List Call) : run e (c :: cs) = run (step e c) cs := rfl
theorem run_nil (e : E) : run e [] = e := rfl
theorem run_append (e : E) (cs ds : List Call) : run e (cs ++ ds) = run (run e cs) ds := by
  simp [run, List.foldl_append]

theorem step_name (e : E) (c : Call) : (step e c).name = e.name := by simp [step, execRow]

theorem step_msg (e : E) (c : Call) :
    (step e c).msg = combine [' '] e.msg (trimSpace c.msgArg) := by
  simp only [step, execRow, cloneBase_msg, combine, Call.msgArg]; rfl

theorem step_dtag (e : E) (c : Call) :
    (step e c).dtag = combine ['-'] e.dtag c.dtagArg := by
  simp only [step, execRow, cloneBase_dtag, combine, Call.dtagArg]; rfl

/-! ### what the wiring table says about stack types -/

theorem wiring_noStack_iff (m : Method) : (wiring m).stack = .noStack ↔ m = .base := by
  cases m <;> decide

theorem wiring_defaultStack_iff (m : Method) : (wiring m).stack = .defaultStack ↔ m.takesStack = true := by
  cases m <;> decide

theorem wiring_sourceStack_iff (m : Method) :
    (wiring m).stack = .sourceStack ↔ (m ≠ .base ∧ m.takesStack = false) := by
  cases m <;> decide

theorem makeStack_default_ne_nil (fr : Frames) : makeStack .defaultStack fr ≠ [] := by
  simp [makeStack, Frames.toList, StackType.depth]

theorem step_stack (e : E) (c : Call) :
    (step e c).stack =
      if e.stack ≠ [] then e.stack
      else if c.m.takesStack then makeStack .defaultStack c.frames else [] := by
  simp only [step, execRow, cloneBase_stack]
  by_cases h : e.stack = []
  · simp only [h, ne_eq, not_true_eq_false, if_false]
    cases hm : c.m <;> simp [wiring, Method.isConvert, Method.takesStack, Method.takesSrc, Method.takesDTag, Method.takesMsg]
  · simp [h]

theorem step_hasStack (e : E) (c : Call) : (step e c).hasStack = (e.hasStack || c.m.takesStack) := by
  unfold E.hasStack
  rw [step_stack]
  by_cases h : e.stack = []
  · by_cases ht : c.m.takesStack = true
    · have := makeStack_default_ne_nil c.frames
      simp [h, ht, this]
    · simp [h, ht]
  · simp [h]

/-- a derived source is never empty (it always contains the `:` after the package name) -/
theorem metric_ne_nil (n : Str) : metric n ≠ [] := by
  simp [metric]

/-! ### ordering of field names -/

theorem strLe_total (a b : Str) : (strLe a b || strLe b a) = true := by
  induction a generalizing b with
  | nil => simp [strLe]
  | cons x xs ih =>
    cases b with
    | nil => simp [strLe]
    | cons y ys =>
      unfold strLe
      by_cases h1 : x.toNat < y.toNat
      · simp [h1]
      · by_cases h2 : y.toNat < x.toNat
        · simp [h1, h2]
        · simp [h1, h2]; simpa using ih ys

theorem strLe_trans (a b c : Str) (h1 : strLe a b = true) (h2 : strLe b c = true) : strLe a c = true := by
  induction a generalizing b c with
  | nil => simp [strLe]
  | cons x xs ih =>
    cases b with
    | nil => simp [strLe] at h1
    | cons y ys =>
      cases c with
      | nil => simp [strLe] at h2
      | cons z zs =>
        unfold strLe at h1 h2 ⊢
        by_cases a1 : x.toNat < y.toNat
        · by_cases a2 : y.toNat < z.toNat
          · have : x.toNat < z.toNat := by omega
            simp [this]
          · by_cases a3 : z.toNat < y.toNat
            · simp [a2, a3] at h2
            · have : x.toNat < z.toNat := by omega
              simp [this]
        · by_cases a4 : y.toNat < x.toNat
          · simp [a1, a4] at h1
          · simp only [a1, a4, if_false] at h1
            by_cases a2 : y.toNat < z.toNat
            · have : x.toNat < z.toNat := by omega
              simp [this]
            · by_cases a3 : z.toNat < y.toNat
              · simp [a2, a3] at h2
              · simp only [a2, a3, if_false] at h2
                have e1 : ¬ x.toNat < z.toNat := by omega
                have e2 : ¬ z.toNat < x.toNat := by omega
                simp only [e1, e2, if_false]
                exact ih ys zs h1 h2

theorem insertField_perm (f : FieldDef) (l : List FieldDef) : (insertField f l).Perm (f :: l) := by
  induction l with
  | nil => exact List.Perm.refl _
  | cons g gs ih =>
    unfold insertField
    split
    · exact List.Perm.refl _
    · exact (List.Perm.cons g ih).trans (List.Perm.swap f g gs)

theorem sortFields_perm (l : List FieldDef) : (sortFields l).Perm l := by
  induction l with
  | nil => exact List.Perm.refl _
  | cons f fs ih =>
    show (insertField f (sortFields fs)).Perm (f :: fs)
    exact (insertField_perm f _).trans (List.Perm.cons f ih)

theorem insertField_sorted (f : FieldDef) (l : List FieldDef)
    (h : l.Pairwise (fun a b => strLe a.name b.name = true)) :
    (insertField f l).Pairwise (fun a b => strLe a.name b.name = true) := by
  induction l with
  | nil => simp [insertField]
  | cons g gs ih =>
    unfold insertField
    rw [List.pairwise_cons] at h
    split
    · rename_i hfg
      rw [List.pairwise_cons]
      refine ⟨?_, List.pairwise_cons.mpr h⟩
      intro a ha
      cases ha with
      | head => exact hfg
      | tail _ ha' => exact strLe_trans _ _ _ hfg (h.1 a ha')
    · rename_i hfg
      have hgf : strLe g.name f.name = true := by
        have := strLe_total f.name g.name
        simp only [Bool.or_eq_true] at this
        cases this with
        | inl h' => exact absurd h' hfg
        | inr h' => exact h'
      rw [List.pairwise_cons]
      refine ⟨?_, ih h.2⟩
      intro a ha
      have := (insertField_perm f gs).mem_iff.mp ha
      cases this with
      | head => exact hgf
      | tail _ ha' => exact h.1 a ha'

theorem sortFields_sorted (l : List FieldDef) :
    (sortFields l).Pairwise (fun a b => strLe a.name b.name = true) := by
  induction l with
  | nil => exact List.Pairwise.nil
  | cons f fs ih => exact insertField_sorted f _ ih

end GErrClone

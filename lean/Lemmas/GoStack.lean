import Model.GoStrings
import Model.GErrClone
import Lemmas.GoLoop
/-!
# Lemmas for the translated `gerror/stack.go` (`Generated/GoGerrorStack.lean`)

* the `strings` functions of `Model/GoStrings.lean` on the arguments stack.go passes are the
  model's own string functions (`split_single`, `join_eq`);
* the three loop shapes of stack.go, each stated for an ARBITRARY loop body so that the
  obligations in `Properties/C15Stack.lean` only analyse one iteration:
  `forIn_cut` (`for i, v := range xs { if p(v) { xs = xs[:i]; break } }`),
  `forIn_prefix_search` (`for j := 0; j < i; j++ { if c == xs[j] { …; break } }`),
  `forIn_firstRepeat` (the `outer:` loop of `Metric`: leave at the first index whose element
  occurred before) and `forIn_fill` (`for i := range out { out[i] = f(in[i]) }`).
-/
namespace GoStack
open Go Go.Strings
open GErrClone hiding Str

theorem split_single (c : Char) (s : Str) : split s [c] = splitOn c s := by
  simp only [split, List.cons_ne_nil, if_false]
  induction s with
  | nil => rfl
  | cons d ds ih =>
    unfold splitAux splitOn
    by_cases h : d = c
    · subst h; simp [List.isPrefixOf, ih]
    · have hb : (c == d) = false := by simpa using fun h' => h h'.symm
      simp only [List.isPrefixOf, hb, Bool.false_and, Bool.false_eq_true, if_false, h, ih]
      cases splitOn c ds <;> rfl

theorem join_eq (l : List Str) (sep : Str) : join l sep = joinWith sep l := by
  induction l with
  | nil => rfl
  | cons a l ih =>
    cases l with
    | nil => rfl
    | cons b rest => rw [join, joinWith, ih]

theorem splitOn_ne_nil (c : Char) (s : Str) : splitOn c s ≠ [] := by
  rw [← split_single]; exact split_ne_nil _ _ (by simp)

theorem splitOn_length_pos (c : Char) (s : Str) : 1 ≤ (splitOn c s).length := by
  have := splitOn_ne_nil c s
  cases h : splitOn c s with
  | nil => exact absurd h this
  | cons => simp

theorem listGet_last {α : Type} [Inhabited α] (xs : List α) (h : xs ≠ []) (d : α) :
    Go.listGet xs (xs.length - 1) = pure (xs.getLastD d) := by
  have hl : xs.length - 1 < xs.length := by
    cases xs with
    | nil => exact absurd rfl h
    | cons => simp
  unfold Go.listGet
  rw [if_pos hl]
  congr 1
  rw [List.getLastD_eq_getLast?, List.getLast?_eq_getElem?]
  simp [List.getD, hl]

theorem listGet_zero' {α : Type} [Inhabited α] (xs : List α) (h : xs ≠ []) (d : α) :
    Go.listGet xs 0 = pure (xs.headD d) := by
  cases xs with
  | nil => exact absurd rfl h
  | cons x xs => simp [Go.listGet]

section loops
variable {α β : Type}

/-- `for i, v := range xs { if p(v) { xs = xs[:i]; break } }` keeps the elements before the first
one that satisfies `p` -/
theorem forIn_cut (p : α → Bool) (body : Nat × α → List α → Go.M (ForInStep (List α))) (xs : List α)
    (h : ∀ i a, i ≤ xs.length →
      body (i, a) xs = if p a then pure (.done (xs.take i)) else pure (.yield xs)) :
    forIn (Go.indexed xs) xs body = pure (xs.takeWhile (fun a => !p a)) := by
  suffices hs : ∀ (ys pre : List α), xs = pre ++ ys →
      forIn (Go.indexedFrom pre.length ys) xs body = pure (pre ++ ys.takeWhile (fun a => !p a)) by
    simpa [Go.indexed] using hs xs [] rfl
  intro ys
  induction ys with
  | nil => intro pre hx; simp [Go.indexedFrom, hx]
  | cons y ys ih =>
    intro pre hx
    rw [Go.indexedFrom, List.forIn_cons, h pre.length y (by simp [hx])]
    by_cases hp : p y = true
    · simp [hp, hx]
    · have := ih (pre ++ [y]) (by simp [hx])
      simp only [List.length_append, List.length_singleton] at this
      simp [hp, this]

/-- `for j := 0; j < i; j++ { if c == xs[j] { <leave with d> } }` -/
theorem forIn_prefix_search [BEq α] [LawfulBEq α] [Inhabited α] (body : Nat → β → Go.M (ForInStep β))
    (xs : List α) (c : α) (st0 d : β) (i : Nat) (hi : i ≤ xs.length)
    (h : ∀ j, (hj : j < i) →
      body j st0 = if c == xs[j]'(Nat.lt_of_lt_of_le hj hi) then pure (.done d) else pure (.yield st0)) :
    forIn (List.range' 0 i) st0 body = pure (if c ∈ xs.take i then d else st0) := by
  suffices hs : ∀ (n k : Nat), k + n = i →
      forIn (List.range' k n) st0 body = pure (if c ∈ (xs.take i).drop k then d else st0) by
    simpa using hs i 0 (by simp)
  intro n
  induction n with
  | zero =>
    intro k hk
    have : (xs.take i).drop k = [] := List.drop_eq_nil_of_le (by simp; omega)
    simp [this]
  | succ n ih =>
    intro k hk
    have hki : k < i := by omega
    have hlt : k < (xs.take i).length := by simp; omega
    have hd : (xs.take i).drop k = xs[k]'(by omega) :: (xs.take i).drop (k + 1) := by
      rw [List.drop_eq_getElem_cons hlt]; simp
    rw [List.range'_succ, List.forIn_cons, h k hki, hd]
    by_cases hc : c = xs[k]'(by omega)
    · simp [hc]
    · have := ih (k + 1) (by omega)
      simp [hc, this]

/-- the `outer:` loop of `Metric`, seen from outside: starting at index `k`, leave with `cut i` at
the first index `i` whose element occurs among the earlier ones, else fall through with `st0` -/
theorem forIn_firstRepeat [BEq α] [LawfulBEq α] (body : Nat → β → Go.M (ForInStep β)) (xs : List α) (st0 : β)
    (cut : Nat → β)
    (h : ∀ i, (hi : i < xs.length) →
      body i st0 = if xs[i] ∈ xs.take i then pure (.done (cut i)) else pure (.yield st0))
    (aux : List α → List α → List α)
    (haux_nil : ∀ seen, aux seen [] = [])
    (haux_cons : ∀ seen x rest, aux seen (x :: rest) = if x ∈ seen then [] else x :: aux (seen ++ [x]) rest) :
    ∀ (n k : Nat), k + n = xs.length →
      forIn (List.range' k n) st0 body =
        pure (if (xs.take k ++ aux (xs.take k) (xs.drop k)).length < xs.length
              then cut (xs.take k ++ aux (xs.take k) (xs.drop k)).length else st0) := by
  intro n
  induction n with
  | zero =>
    intro k hk
    have : xs.drop k = [] := List.drop_eq_nil_of_le (by omega)
    have hmin : min k xs.length = xs.length := by omega
    simp [this, haux_nil, hmin]
  | succ n ih =>
    intro k hk
    have hlt : k < xs.length := by omega
    have hd : xs.drop k = xs[k] :: xs.drop (k + 1) := List.drop_eq_getElem_cons hlt
    rw [List.range'_succ, List.forIn_cons, h k hlt, hd, haux_cons]
    by_cases hm : xs[k] ∈ xs.take k
    · have hmin : min k xs.length = k := by omega
      simp [hm, hmin, hlt]
    · have ht : xs.take (k + 1) = xs.take k ++ [xs[k]] := by
        rw [List.take_add_one, List.getElem?_eq_getElem hlt]; rfl
      simp only [hm, if_false, pure_bind]
      rw [List.append_cons, ← ht]
      exact ih (k + 1) (by omega)

/-- `for _, a := range xs { if p(a) { return a } }` -/
theorem forIn_find (p : α → Bool) (body : α → Option α × Unit → Go.M (ForInStep (Option α × Unit)))
    (h : ∀ a, body a (none, ()) = if p a then pure (.done (some a, ())) else pure (.yield (none, ())))
    (xs : List α) : forIn xs (none, ()) body = pure (xs.find? p, ()) := by
  induction xs with
  | nil => rfl
  | cons a as ih =>
    rw [List.forIn_cons, h a]
    by_cases hp : p a = true
    · simp [hp]
    · simp [hp, ih]

/-- `for i := range out { out[i] = f(in[i]) }` on an `out` as long as `in` -/
theorem forIn_fill {γ : Type} (f : γ → α) (d : α) (ins : List γ)
    (body : Nat → List α → Go.M (ForInStep (List α)))
    (h : ∀ i st, (hi : i < ins.length) → st.length = ins.length →
      body i st = pure (.yield (st.set i (f ins[i])))) :
    forIn (List.range ins.length) (List.replicate ins.length d) body = pure (ins.map f) := by
  suffices hs : ∀ (m k : Nat), k + m = ins.length →
      forIn (List.range' k m) ((ins.take k).map f ++ List.replicate m d) body = pure (ins.map f) by
    simpa [List.range_eq_range'] using hs ins.length 0 (by simp)
  intro m
  induction m with
  | zero =>
    intro k hk
    have : ins.take k = ins := List.take_of_length_le (by omega)
    simp [this]
  | succ m ih =>
    intro k hk
    have hlt : k < ins.length := by omega
    have hlen : ((ins.take k).map f ++ List.replicate (m + 1) d).length = ins.length := by
      simp; omega
    rw [List.range'_succ, List.forIn_cons, h k _ hlt hlen]
    simp only [pure_bind]
    have hset : ((ins.take k).map f ++ List.replicate (m + 1) d).set k (f ins[k])
        = (ins.take (k + 1)).map f ++ List.replicate m d := by
      have hk' : ((ins.take k).map f).length = k := by simp; omega
      rw [List.set_append_right _ _ (by omega), hk', Nat.sub_self, List.replicate_succ, List.set_cons_zero,
        List.append_cons]
      congr 1
      rw [List.take_add_one, List.getElem?_eq_getElem hlt, List.map_append]
      rfl
    rw [hset]
    exact ih (k + 1) (by omega)

end loops

/-- the model's `dropRepeatsAux` is the function `forIn_firstRepeat` talks about -/
theorem dropRepeatsAux_nil (seen : List Go.Str) : dropRepeatsAux seen [] = [] := rfl
theorem dropRepeatsAux_cons (seen : List Go.Str) (x : Go.Str) (rest : List Go.Str) :
    dropRepeatsAux seen (x :: rest) = if x ∈ seen then [] else x :: dropRepeatsAux (seen ++ [x]) rest := rfl

theorem dropRepeats_length_le (seen l : List Go.Str) : (dropRepeatsAux seen l).length ≤ l.length := by
  induction l generalizing seen with
  | nil => simp [dropRepeatsAux]
  | cons x xs ih =>
    rw [dropRepeatsAux_cons]
    split
    · simp
    · simpa using ih _

/-- what `dropRepeats` keeps is a prefix -/
theorem dropRepeatsAux_prefix (seen l : List Go.Str) :
    dropRepeatsAux seen l = l.take (dropRepeatsAux seen l).length := by
  induction l generalizing seen with
  | nil => simp [dropRepeatsAux]
  | cons x xs ih =>
    rw [dropRepeatsAux_cons]
    split
    · simp
    · rw [List.length_cons, List.take_succ_cons, ← ih]

theorem listGet_lt {α : Type} [Inhabited α] (xs : List α) (i : Nat) (h : i < xs.length) :
    Go.listGet xs i = pure xs[i] := by
  unfold Go.listGet; simp [h]

end GoStack

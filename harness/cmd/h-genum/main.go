// h-genum: correspondence runner for /repo/genum (properties C04, C05, C12).
//
// Tie B over generated programs (DESIGN.md section 6, C04): definition files are written from the
// property's quantifier, the real genum CLI (built from /repo's current tree) is run on each as
// `go:generate` would, 20-40 files are compiled together with a generated probe `main`, and the
// probe's answers (Values, IsValid, String, StringValues, Parse*) are compared with the Lean
// model of "what the generated code computes for this definition".
package main

import (
	"flag"
	"fmt"
	"os"
	"path/filepath"
	"sort"
	"strings"

	"verif/harness/internal/hx"
)

func harnessDirDefault() string {
	if wd, err := os.Getwd(); err == nil {
		if _, err := os.Stat(filepath.Join(wd, "go.work")); err == nil {
			return wd
		}
	}
	if exe, err := os.Executable(); err == nil {
		d := filepath.Join(filepath.Dir(exe), "..", "harness")
		if _, err := os.Stat(filepath.Join(d, "go.work")); err == nil {
			return d
		}
	}
	return "."
}

func main() {
	hdir := flag.String("harness-dir", "", "directory holding the harness go.work (default: cwd or <exe>/../harness)")
	f := hx.ParseFlags()
	if *hdir == "" {
		*hdir = harnessDirDefault()
	}
	var run func(*hx.Flags, *world) int
	switch f.Prop {
	case "C04":
		run = runC04
	default:
		fmt.Fprintln(os.Stderr, "h-genum: unknown property", f.Prop)
		os.Exit(2)
	}
	w, err := newWorld(*hdir)
	if err != nil {
		fmt.Fprintln(os.Stderr, err)
		os.Exit(3)
	}
	defer w.close()
	code := run(f, w)
	w.close()
	os.Exit(code)
}

const ruleC04 = "enum definition files from the quantifier (1-4 types per file over all ten integer kinds, 1-40 constants per type in 1-4 const blocks interleaved with the other types, iota runs / explicit values / negatives / gaps / type extremes, duplicate groups of 2-5 names with every deprecation pattern); one case = one type of one file: Values, StringValues, IsValid and String on every value of an 8-bit kind (exhaustive) resp. boundary + defined±1 + random values, Parse<T>/ParseString/ParseGeneric on every constant name, case variants and near-miss strings. non-trivial = the type has a duplicated value, more than 15 constants (binary-search branch) or a negative constant; distinct by request lines"

// defOfCase rebuilds the definition from the request lines of a case.
func defOfCase(lines []string) *Def {
	d := &Def{Opts: "-"}
	for _, l := range lines {
		ws := strings.Fields(l)
		if len(ws) >= 2 && ws[0] == "gn" {
			switch ws[1] {
			case "opt", "type", "const", "block", "skip", "other":
				d.addLine(ws)
			}
		}
	}
	return d
}

// dupPatterns: for every duplicated value of type t, the deprecation pattern of its names in
// alphabetical order (d = deprecated, L = live).
func dupPatterns(d *Def, t string) []string {
	groups := map[string][]Item{}
	for _, it := range d.constsOf(t) {
		groups[it.Val.String()] = append(groups[it.Val.String()], it)
	}
	var pats []string
	for _, g := range groups {
		if len(g) < 2 {
			continue
		}
		sort.Slice(g, func(i, j int) bool { return g[i].Name < g[j].Name })
		p := ""
		for _, it := range g {
			if it.Dep {
				p += "d"
			} else {
				p += "L"
			}
		}
		pats = append(pats, p)
	}
	sort.Strings(pats)
	return pats
}

// keyOfC04: canonical class of a failing input.
func keyOfC04(d *hx.Disagreement) string {
	ws := strings.Fields(d.Request)
	if len(ws) < 2 {
		return "C04:protocol"
	}
	op := ws[1]
	if op == "gen" {
		return "C04:gen:" + d.Impl
	}
	key := "C04:" + op
	if (op == "str" || op == "strvals") && len(ws) >= 3 {
		lines := d.Case.Lines
		if len(d.Shrunk) > 0 {
			lines = d.Shrunk
		}
		for _, p := range dupPatterns(defOfCase(lines), ws[2]) {
			if strings.HasPrefix(p, "d") && strings.Count(p, "L") >= 2 {
				return key + ":deprecated-first-dup"
			}
		}
	}
	return key
}

func runC04(f *hx.Flags, w *world) int {
	m := &impl{w: w}
	r := hx.NewRunner(f, "h-genum", m, ruleC04)
	r.KeyOf = keyOfC04
	r.ShrinkBudget, r.ShrinkMax = 14, 3
	// a shrunk definition that the harness itself cannot write/compile is not a smaller failing input
	r.ShrinkReject = func(req, im, mo string) bool {
		return strings.HasPrefix(req, "gn gen") || im == "no-gen" || im == "no-type" || im == "bad-op" || im == "probe-dead"
	}
	if r.HandleReplay() {
		return 0
	}
	r.RunCorpus()
	g := &gen{r: r, w: w, rng: r.Rng, thorough: f.Tier == "thorough"}
	nBatches, batch := 2, 25
	if g.thorough {
		nBatches, batch = 38, 40
	}
	// first batch: the systematic small definitions (every kind, every duplicate pattern)
	g.emit(g.systematic(), true)
	for b := 0; b < r.N(nBatches); b++ {
		var defs []*Def
		for i := 0; i < batch; i++ {
			defs = append(defs, g.randomDef())
		}
		g.emit(defs, true)
	}
	g.outOfDomain()
	r.Res.Exhaustive = true
	r.Res.Notes["exhaustive"] = "IsValid and String are compared on ALL 256 values of every 8-bit enum type; other kinds on boundary, defined, defined±1 and random values"
	r.Res.Extra["definition_files"] = g.nDefs
	r.Res.Extra["enum_types"] = g.nTypes
	r.Res.Extra["generator_runs"] = w.genRuns
	r.Res.Extra["go_builds"] = w.goBuilds
	r.Res.Extra["parse_queries"] = g.nParse
	r.Res.Extra["value_queries"] = g.nValueQ
	r.Finish()
	return 0
}

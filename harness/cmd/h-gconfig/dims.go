package main

// Dimension enums of the harness (generated with /repo's genum, -caseInsensitive, like
// /repo/gconfig/internal). Value names are pairwise distinct across the three dimensions.

//go:generate genum -types=DimOne,DimTwo,DimThree -caseInsensitive
type DimOne int

const (
	D1a DimOne = iota
	D1b
	D1c
	D1d
)

type DimTwo int

const (
	D2a DimTwo = iota
	D2b
	D2c
	D2d
	D2e
)

type DimThree int

const (
	D3a DimThree = iota
	D3b
	D3c
)

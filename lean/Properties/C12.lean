import Model.Genum
import Lemmas.Genum
import Lemmas.GenumTraits
import Properties.C04
import Properties.C05
/-!
# C12 — genum: trait accessors and parse-by-trait agree with the declaration

About `genFull` and the accessor / `Parse` switch / decoder models of `Model/Genum.lean` part 2
(current tree; the pinned algorithms are the `Quirks`).
-/
namespace Genum.C12
open Genum

variable {f : FileDef} {t : TypeDecl} {k : IntKind}

/-! ## accessors -/

/-- the accessor switch of a trait whose rows have pairwise distinct owners returns, for the owner
of a row, the constant of that row … -/
theorem accessor_of_row (td : TraitDesc) (hn : (td.rows.map (·.owner.val)).Nodup) (r : TraitRow) (hr : r ∈ td.rows) :
    td.get r.owner.val = r.dyn := by
  unfold TraitDesc.get
  have : td.rows.find? (fun x => x.owner.val == r.owner.val) = some r := by
    generalize td.rows = l at *
    induction l with
    | nil => cases hr
    | cons x xs ih =>
      rw [List.map_cons, List.nodup_cons] at hn
      rw [List.find?_cons]
      rcases List.mem_cons.mp hr with rfl | hr'
      · simp
      · have : (x.owner.val == r.owner.val) = false := by
          rw [beq_eq_false_iff_ne]
          intro e
          exact hn.1 (e ▸ List.mem_map.mpr ⟨r, hr', rfl⟩)
        rw [this]; exact ih hn.2 hr'
  rw [this]

/-- … and the zero value of the trait type for every value that owns no row (undefined values
in particular). -/
theorem accessor_zero (td : TraitDesc) (e : Int) (h : ∀ r ∈ td.rows, r.owner.val ≠ e) :
    td.get e = zeroOf td.ty td.fam (td.rows.head?.map (·.dyn.v)) := by
  unfold TraitDesc.get
  have : td.rows.find? (fun x => x.owner.val == e) = none := by
    rw [List.find?_eq_none]
    intro r hr hp
    exact h r hr (by simpa using hp)
  rw [this]

/-- every definition `genFull` accepts has at most one row per value in every trait (the
generated accessor switch compiles) -/
theorem rows_unique (o : Options) (g : GenFull) (h : genFull o f t = .ok g) :
    ∀ td ∈ g.traits, (td.rows.map (·.owner.val)).Nodup := by
  obtain ⟨_, _, hd⟩ := C05.genFull_shape o g h
  unfold hasDupCase at hd
  simp only [Bool.or_eq_false_iff] at hd
  intro td htd
  have := hd.1.2
  rw [List.any_eq_false] at this
  have := this td htd
  simpa using this

/-- `accessor_returns_declared`, generator side: for every accepted definition, every trait and
every row the generator kept (the rows of primary definitions, see `keepRow`), the accessor
returns that row's constant on the row's value. -/
theorem accessor_returns_row (o : Options) (g : GenFull) (h : genFull o f t = .ok g)
    (td : TraitDesc) (htd : td ∈ g.traits) (r : TraitRow) (hr : r ∈ td.rows) :
    td.get r.owner.val = r.dyn :=
  accessor_of_row td (rows_unique o g h td htd) r hr

/-- the line of the lowest value is the head of the sorted value list, so it has every column -/
private theorem first_has_all_columns (ha : Accepted f t.name k) (hfl : FirstLineDeclares f t)
    (first : Value) (rest : List Value) (hvs : sortedValues f t.name = first :: rest) :
    first.tvals.length = t.cols.length := by
  have ⟨hsorted, _⟩ := sortedValues_facts ha
  rw [hvs] at hsorted
  have hfm : first ∈ sortedValues f t.name := by rw [hvs]; simp
  obtain ⟨c0, hc0, ht0, rfl⟩ := mem_sortedValues.mp hfm
  have := hfl c0 hc0 ht0 (by
    intro c' hc' ht'
    have hm : Value.ofConst c' ∈ Value.ofConst c0 :: rest := by
      rw [← hvs]; exact mem_sortedValues.mpr ⟨c', hc', ht', rfl⟩
    rcases List.mem_cons.mp hm with e | hm
    · right
      have e1 : c'.val = c0.val := congrArg Value.val e
      have e2 : c'.name = c0.name := congrArg Value.name e
      exact ⟨e1.symm, by rw [e2]; exact String.le_refl _⟩
    · have hr := (List.pairwise_cons.mp hsorted).1 _ hm
      unfold R at hr
      rcases hr with h | ⟨h1, h2⟩
      · exact Or.inl h
      · exact Or.inr ⟨h1, String.le_of_lt' h2⟩)
  exact this

/-- `accessor_returns_declared`: for every definition `genFull` accepts whose lowest value's line
declares the trait columns, the accessor of column `j` returns, on every defined value, the
constant written in column `j` of that value's PRIMARY definition line (first non-deprecated name
alphabetically, first name if all are deprecated) — whatever aliases, deprecated or live, with or
without trait columns of their own, share the value. (`accessor_zero`: the zero value elsewhere.) -/
theorem accessor_returns_declared (o : Options) (g : GenFull) (h : genFull o f t = .ok g)
    (ha : Accepted f t.name k) (hfl : FirstLineDeclares f t)
    (j : Nat) (e : Int) (d : Dyn) (hd : DeclaredTrait f t j e d) :
    ∃ td ∈ g.traits, (∃ col, t.cols[j]? = some col ∧ td.name = col.name) ∧ td.get e = d := by
  obtain ⟨c, hc, hty, hval, hprim, col, hcol, s, hs, rfl⟩ := hd
  obtain ⟨ts, hts, hg, _⟩ := genFull_ok h
  have ⟨hsorted, hfaith⟩ := sortedValues_facts ha
  have hcv : Value.ofConst c ∈ sortedValues f t.name := mem_sortedValues.mpr ⟨c, hc, hty, rfl⟩
  match hvs : sortedValues f t.name with
  | [] => rw [hvs] at hcv; cases hcv
  | first :: rest =>
    rw [hvs] at hts
    have hperm := genTraits_ok hts
    have hfirst := first_has_all_columns ha hfl first rest hvs
    have htake : t.cols.take first.tvals.length = t.cols := by
      rw [hfirst]; exact List.take_of_length_le (Nat.le_refl _)
    rw [htake] at hperm
    have htd : mkTrait o (first :: rest) (j, col) ∈ ts :=
      hperm.mem_iff.mpr (List.mem_map.mpr ⟨(j, col), mem_zip_range _ _ _ hcol, rfl⟩)
    have htdg : mkTrait o (first :: rest) (j, col) ∈ g.traits := by subst hg; exact htd
    refine ⟨_, htdg, ⟨col, hcol, rfl⟩, ?_⟩
    have hr1 : (⟨Value.ofConst c, ⟨col.ty, s⟩⟩ : TraitRow) ∈ rowsOf (first :: rest) j col.ty := by
      unfold rowsOf
      rw [List.mem_filterMap]
      exact ⟨Value.ofConst c, hvs ▸ hcv, by simp [Value.ofConst, hs]⟩
    have hkeep : keepRow {} (first :: rest) ⟨Value.ofConst c, ⟨col.ty, s⟩⟩ = true := by
      apply keepRow_of_primary_name _ (hvs ▸ hsorted) (hvs ▸ hfaith) _ (hvs ▸ hcv)
      intro p hpin hpv
      have hp := primary_of_primaryIn (f := f) (t := t.name) (hvs ▸ hpin)
      have hpe : p.val = e := by rw [hpv]; exact hval
      rw [hpe] at hp
      exact C04.primary_unique hp hprim
    have hr : (⟨Value.ofConst c, ⟨col.ty, s⟩⟩ : TraitRow) ∈ (mkTrait o (first :: rest) (j, col)).rows :=
      List.mem_filter.mpr ⟨hr1, hkeep⟩
    have := accessor_returns_row o g h _ htdg _ hr
    simpa [Value.ofConst, hval] using this

/-! ## Parse by trait -/

/-- `Parse<T>` of any constant of the generated switch — a constant name or a constant of a
parsable trait, typed as declared — returns the value of the case that holds it. -/
theorem parse_by_trait (o : Options) (g : GenFull) (h : genFull o f t = .ok g)
    (c : ParseCase) (hc : c ∈ g.base.cases) (d : Dyn) (hd : d ∈ c.consts) :
    g.base.parse d = some c.target.val := by
  obtain ⟨_, _, hdup⟩ := C05.genFull_shape o g h
  unfold hasDupCase at hdup
  simp only [Bool.or_eq_false_iff] at hdup
  have hn : (g.base.cases.flatMap (·.consts)).Nodup := by simpa using hdup.1.1
  exact C05.parse_of_case g.base hn c hc d hd

/-- how many traits `validateParsableTraits` walks before `t` (name order) -/
private def walkRank (ts : List TraitDesc) (t : TraitDesc) : Nat :=
  (ts.filter (fun x => decide (x.name < t.name))).length

private theorem walkRank_lt (ts : List TraitDesc) (t' t : TraitDesc) (hm : t' ∈ ts) (hlt : t'.name < t.name) :
    walkRank ts t' < walkRank ts t := by
  unfold walkRank
  apply filter_length_lt _ _ ts _ t' hm
  · simpa using hlt
  · simp [String.lt_irrefl]
  · intro x hx
    have hx' : x.name < t'.name := by simpa using hx
    simpa using String.lt_trans hx' hlt

/-- the constant of every row of every parsable trait is a key of its value's `case` — listed by
the trait itself or, when `validateParsableTraits` marked it as a repeat, by the FIRST parsable
trait of the walk (name order) that carries the same constant on the same value -/
private theorem dyn_in_case {o : Options} {g : GenFull} (h : genFull o f t = .ok g) (ha : Accepted f t.name k)
    (first : Option Value) (n : Nat) :
    ∀ td ∈ g.traits, td.parsable = true → walkRank g.traits td = n → ∀ r ∈ td.rows,
      r.dyn ∈ caseConsts g.traits first r.owner := by
  induction n using Nat.strongRecOn with
  | _ n ih =>
    intro td htd hp hrank r hr
    obtain ⟨hown, _, huniq⟩ := row_facts h ha td htd r hr
    have hinst : td.instanceOf r.owner = some r := by
      unfold TraitDesc.instanceOf
      cases hf : td.rows.find? (fun x => x.owner.name == r.owner.name) with
      | none =>
        rw [List.find?_eq_none] at hf
        exact absurd (by simp) (hf r hr)
      | some r' =>
        have := huniq r' (List.mem_of_find?_eq_some hf) (by simpa using List.find?_some hf)
        rw [this]
    by_cases hrep : repeatsParseKey {} g.traits first td r = true
    · unfold repeatsParseKey at hrep
      rw [List.any_eq_true] at hrep
      obtain ⟨t', ht', hc⟩ := hrep
      simp only [Bool.and_eq_true, decide_eq_true_eq, List.any_eq_true, Bool.false_eq_true, if_false,
        beq_iff_eq] at hc
      obtain ⟨⟨hp', hlt⟩, r', hr', hname, hdyn⟩ := hc
      have hin := ih (walkRank g.traits t') (hrank ▸ walkRank_lt g.traits t' td ht' hlt) t' ht' hp' rfl r' hr'
      obtain ⟨hown', _, _⟩ := row_facts h ha t' ht' r' hr'
      obtain ⟨c, hc, _, hcv⟩ := mem_sortedValues.mp hown
      obtain ⟨c', hc', _, hcv'⟩ := mem_sortedValues.mp hown'
      have hce : c' = c := const_eq_of_name ha.names hc' hc (by
        have h1 : (Value.ofConst c').name = (Value.ofConst c).name := by rw [hcv', hcv]; exact hname
        exact h1)
      have hoe : r'.owner = r.owner := by rw [← hcv', ← hcv, hce]
      rw [hdyn, hoe] at hin
      exact hin
    · unfold caseConsts
      rw [List.mem_flatten]
      refine ⟨[r.dyn], List.mem_map.mpr ⟨td, List.mem_filter.mpr ⟨htd, by simpa using hp⟩, ?_⟩, by simp⟩
      unfold caseOne
      rw [hinst]
      simp [hrep]

/-- `parse_by_trait` on the declaration side: for every parsable trait of an accepted generation
and every row it keeps, `Parse<T>` of the row's typed constant returns the row's value — also when
the constant stands in several parsable trait columns of one line (the same type: listed once;
different types: one key each). -/
theorem parse_row (o : Options) (g : GenFull) (h : genFull o f t = .ok g) (ha : Accepted f t.name k)
    (td : TraitDesc) (htd : td ∈ g.traits) (hp : td.parsable = true) (r : TraitRow) (hr : r ∈ td.rows) :
    g.base.parse r.dyn = some r.owner.val := by
  obtain ⟨hown, _, _⟩ := row_facts h ha td htd r hr
  have hn := C05.cases_nodup h
  have hin := dyn_in_case h ha (sortedValues f t.name).head? (walkRank g.traits td) td htd hp rfl r hr
  obtain ⟨ts, _, hg, _⟩ := genFull_ok h
  have hcase : caseOf ts (sortedValues f t.name).head? r.owner ∈ g.base.cases := by
    subst hg; exact List.mem_map.mpr ⟨_, hown, rfl⟩
  have hts : g.traits = ts := by subst hg; rfl
  have hmem : r.dyn ∈ (caseOf ts (sortedValues f t.name).head? r.owner).consts := by
    unfold caseOf
    apply List.mem_cons_of_mem
    rw [← hts]; exact hin
  exact C05.parse_of_case g.base hn _ hcase r.dyn hmem

/-- "pairwise distinct values" for the constant of row `r`, on the generated switch: no other
`case` constant has the same scalar content, and (for strings, under `-caseInsensitive`) the
string is not a constant name up to case -/
structure Distinct (g : GenFull) (r : TraitRow) : Prop where
  consts : ∀ c ∈ g.base.cases, ∀ d ∈ c.consts, d.v = r.dyn.v → d = r.dyn
  fold : ∀ lc s, g.base.lowerCases = some lc → r.dyn.v = .str s → ∀ p ∈ lc, p.1 ≠ asciiLower s

/-- under `Distinct`, whatever type the decoder reads the document's content at, `Parse<T>`
either fails or returns the owner of the row -/
private theorem parse_content (g : GenFull) (r : TraitRow) (hd : Distinct g r)
    (hrow : g.base.parse r.dyn = some r.owner.val) (ty : String) :
    g.base.parse ⟨ty, r.dyn.v⟩ = none ∨ g.base.parse ⟨ty, r.dyn.v⟩ = some r.owner.val := by
  cases hp : g.base.parse ⟨ty, r.dyn.v⟩ with
  | none => exact Or.inl rfl
  | some w =>
    right
    rcases parse_some g.base _ w hp with ⟨c, hc, hdc, _⟩ | ⟨lc, s, hl, hds, p, hpl, hpe, _⟩
    · have := hd.consts c hc _ hdc rfl
      rw [this] at hp
      rw [← hp, hrow]
    · have hv : r.dyn.v = .str s := by
        have := congrArg Dyn.v hds
        simpa [Dyn.ofString] using this
      exact absurd hpe (hd.fold lc s hl hv p hpl)

/-- `decode_by_trait`, string kinds (untyped `string` constants and named string types): a JSON
string, a YAML scalar and a text holding the constant of a row of a parsable trait decode to the
row's value in all three decoders. -/
theorem decode_by_trait_string (o : Options) (g : GenFull) (h : genFull o f t = .ok g) (ha : Accepted f t.name k)
    (td : TraitDesc) (htd : td ∈ g.traits) (hp : td.parsable = true)
    (hfam : td.fam = .nstr ∨ td.ty = "string")
    (r : TraitRow) (hr : r ∈ td.rows) (s : String) (hs : r.dyn.v = .str s) (hd : Distinct g r) :
    g.unmarshalJSON {} (.str s) = some r.owner.val ∧ g.unmarshalText s = some r.owner.val ∧
    g.unmarshalYAML {} s = some r.owner.val := by
  have hrow := parse_row o g h ha td htd hp r hr
  have hty := (row_facts h ha td htd r hr).2.1
  have hcontent := parse_content g r hd hrow
  rw [hs] at hcontent
  have hdyn : r.dyn = ⟨td.ty, .str s⟩ := by
    cases hrd : r.dyn with
    | mk ty v => rw [hrd] at hty hs; simp at hty hs; rw [hty, hs]
  have hst : stringTry g s = some r.owner.val := by
    unfold stringTry
    cases h1 : g.base.parse (Dyn.ofString s) with
    | some w =>
      rcases hcontent "string" with h2 | h2
      · rw [show Dyn.ofString s = ⟨"string", .str s⟩ from rfl, h2] at h1; cases h1
      · rw [show Dyn.ofString s = ⟨"string", .str s⟩ from rfl, h2] at h1; rw [← h1]
    | none =>
      simp only []
      rcases hfam with hf | hf
      · apply firstSome_eq
        · intro x hx
          obtain ⟨t', _, rfl⟩ := List.mem_map.mp hx
          exact hcontent t'.ty
        · refine List.mem_map.mpr ⟨td, List.mem_filter.mpr ⟨htd, by simp [hp, hf]⟩, ?_⟩
          rw [← hdyn, hrow]
      · rw [hdyn, hf] at hrow
        rw [show Dyn.ofString s = ⟨"string", .str s⟩ from rfl, hrow] at h1
        cases h1
  refine ⟨hst, hst, ?_⟩
  unfold GenFull.unmarshalYAML; rw [hst]

/-- every candidate of a numeric fallback fails or returns the owner, and the trait's own
candidate returns the owner. The trait is in the block of codec `c`: its underlying kind is the
block's and its type has no unmarshaler of its own for `c`. -/
private theorem numericTry_row (g : GenFull) (td : TraitDesc) (htd : td ∈ g.traits) (hp : td.parsable = true)
    (r : TraitRow) (i : Int) (hdyn : r.dyn = ⟨td.ty, .int i⟩)
    (hcontent : ∀ ty, g.base.parse ⟨ty, .int i⟩ = none ∨ g.base.parse ⟨ty, .int i⟩ = some r.owner.val)
    (hrow : g.base.parse r.dyn = some r.owner.val)
    (c : Codec) (signed : Bool) (bits : Nat)
    (hnum : td.fam.isNumeric signed = true) (hbits : td.fam.bitsOf = bits) (hown : td.fam.implements c = false)
    (hw : wrapTo signed bits i = i) :
    numericTry {} g c signed i = some r.owner.val := by
  unfold numericTry
  apply firstSome_eq
  · intro x hx
    obtain ⟨t', _, rfl⟩ := List.mem_map.mp hx
    simp only []
    generalize wrapTo signed _ i = w
    by_cases hc : w = i
    · subst hc; simpa using hcontent t'.ty
    · left
      have : (({} : Quirks).noRangeGuard || w == i) = false := by simp [hc]
      rw [this]; rfl
  · refine List.mem_map.mpr ⟨td, mem_numericTraits.mpr ⟨htd, hp, hnum, hown⟩, ?_⟩
    simp only [hbits, hw]
    rw [← hdyn, hrow]; simp

/-- every candidate of a numeric fallback fails or returns the owner -/
private theorem numericTry_cases (g : GenFull) (c : Codec) (r : TraitRow) (i : Int)
    (hcontent : ∀ ty, g.base.parse ⟨ty, .int i⟩ = none ∨ g.base.parse ⟨ty, .int i⟩ = some r.owner.val) :
    ∀ sg, numericTry {} g c sg i = none ∨ numericTry {} g c sg i = some r.owner.val := by
  intro sg
  cases hq : numericTry {} g c sg i with
  | none => exact Or.inl rfl
  | some w =>
    right
    unfold numericTry at hq
    have : ∀ (l : List (Option Int)), (∀ x ∈ l, x = none ∨ x = some r.owner.val) → firstSome l = some w → w = r.owner.val := by
      intro l hl hf
      induction l with
      | nil => cases hf
      | cons x xs ih =>
        rcases hl x (by simp) with hx | hx
        · subst hx; exact ih (fun y hy => hl y (List.mem_cons_of_mem _ hy)) hf
        · subst hx; injection hf with hf; exact hf.symm
    rw [this _ ?_ hq]
    intro x hx
    obtain ⟨t', _, rfl⟩ := List.mem_map.mp hx
    simp only []
    generalize wrapTo sg _ i = w'
    by_cases hc : w' = i
    · subst hc; simpa using hcontent t'.ty
    · left
      have : (({} : Quirks).noRangeGuard || w' == i) = false := by simp [hc]
      rw [this]; rfl

/-- `decode_by_trait`, integer kinds (untyped int, named and built-in signed / unsigned integer
types of 1-64 bits, `time.Duration`, and every integer-kinded type WITHOUT an `UnmarshalJSON` of
its own — an enum generated earlier with `-json=false`, a hand-written type with only a YAML or
text unmarshaler): a JSON integer holding the constant of a row of a parsable trait decodes to the
row's value. -/
theorem decode_by_trait_json_int (o : Options) (g : GenFull) (h : genFull o f t = .ok g) (ha : Accepted f t.name k)
    (td : TraitDesc) (htd : td ∈ g.traits) (hp : td.parsable = true)
    (signed : Bool) (bits : Nat) (hb : 1 ≤ bits ∧ bits ≤ 64)
    (hnum : td.fam.isNumeric signed = true) (hbits : td.fam.bitsOf = bits) (hown : td.fam.implements .json = false)
    (r : TraitRow) (hr : r ∈ td.rows) (i : Int) (hi : r.dyn.v = .int i)
    (hrange : if signed then -((2 : Int) ^ (bits - 1)) ≤ i ∧ i < (2 : Int) ^ (bits - 1) else 0 ≤ i ∧ i < (2 : Int) ^ bits)
    (hd : Distinct g r) :
    g.unmarshalJSON {} (.num i) = some r.owner.val := by
  have hrow := parse_row o g h ha td htd hp r hr
  have hty := (row_facts h ha td htd r hr).2.1
  have hcontent := parse_content g r hd hrow
  rw [hi] at hcontent
  have hdyn : r.dyn = ⟨td.ty, .int i⟩ := by
    cases hrd : r.dyn with
    | mk ty v => rw [hrd] at hty hi; simp at hty hi; rw [hty, hi]
  have hw := wrapTo_id signed bits hb.1 i hrange
  have hmine := numericTry_row g td htd hp r i hdyn hcontent hrow .json signed bits hnum hbits hown hw
  have hother := numericTry_cases g .json r i hcontent
  have p63 := pow_le_two63 (n := bits - 1) (by omega)
  have p64 := pow_le_two64 (n := bits) hb.2
  unfold GenFull.unmarshalJSON
  simp only []
  cases signed
  · -- unsigned family: the uint64 branch applies and finds it
    simp only [Bool.false_eq_true, if_false] at hrange hmine
    have hcond : 0 ≤ i ∧ i < (two64 : Int) := ⟨hrange.1, by unfold two64; omega⟩
    rw [if_pos hcond, hmine]
  · simp only [if_true] at hrange hmine
    have hcond : -(two63 : Int) ≤ i ∧ i < (two63 : Int) := by unfold two63; omega
    split
    · rename_i v hv
      split at hv
      · rcases hother false with h0 | h0
        · rw [h0] at hv; cases hv
        · rw [h0] at hv; exact hv.symm ▸ rfl
      · cases hv
    · rw [if_pos hcond, hmine]

/-- `decode_by_trait`, integer kinds, YAML (the same kinds, and every integer-kinded type WITHOUT an
`UnmarshalYAML` of its own — an enum generated earlier with `-yaml=false`, a hand-written type with
only a JSON or text unmarshaler): a scalar whose text is a decimal numeral denoting the constant of
a row of a parsable integer trait (`strconv.ParseInt` reads it as `i`, `ParseUint` too when
`i ≥ 0`), and which is not itself a string constant of the switch, decodes to the row's value.
The block exists because the trait itself is in the list that guards it. -/
theorem decode_by_trait_yaml_int (o : Options) (g : GenFull) (h : genFull o f t = .ok g) (ha : Accepted f t.name k)
    (td : TraitDesc) (htd : td ∈ g.traits) (hp : td.parsable = true)
    (signed : Bool) (bits : Nat) (hb : 1 ≤ bits ∧ bits ≤ 64)
    (hnum : td.fam.isNumeric signed = true) (hbits : td.fam.bitsOf = bits) (hown : td.fam.implements .yaml = false)
    (r : TraitRow) (hr : r ∈ td.rows) (i : Int) (hi : r.dyn.v = .int i)
    (hrange : if signed then -((2 : Int) ^ (bits - 1)) ≤ i ∧ i < (2 : Int) ^ (bits - 1) else 0 ≤ i ∧ i < (2 : Int) ^ bits)
    (hd : Distinct g r)
    (text : String) (hpi : parseIntLit text = some i)
    (hpu : parseUintLit text = if 0 ≤ i then some i else none)
    (hnostr : ∀ ty, g.base.parse ⟨ty, .str text⟩ = none) :
    g.unmarshalYAML {} text = some r.owner.val := by
  have hrow := parse_row o g h ha td htd hp r hr
  have hty := (row_facts h ha td htd r hr).2.1
  have hcontent := parse_content g r hd hrow
  rw [hi] at hcontent
  have hdyn : r.dyn = ⟨td.ty, .int i⟩ := by
    cases hrd : r.dyn with
    | mk ty v => rw [hrd] at hty hi; simp at hty hi; rw [hty, hi]
  have hw := wrapTo_id signed bits hb.1 i hrange
  have hmine := numericTry_row g td htd hp r i hdyn hcontent hrow .yaml signed bits hnum hbits hown hw
  have hother := numericTry_cases g .yaml r i hcontent
  have hmem : td ∈ g.numericTraits .yaml signed := mem_numericTraits.mpr ⟨htd, hp, hnum, hown⟩
  have hne : (g.numericTraits .yaml signed).isEmpty = false := by
    cases hl : g.numericTraits .yaml signed with
    | nil => rw [hl] at hmem; cases hmem
    | cons _ _ => rfl
  unfold GenFull.unmarshalYAML
  rw [stringTry_none g text hnostr]
  simp only [hpi]
  cases signed
  · -- unsigned family: ParseUint reads the numeral and the uint64 branch finds it
    simp only [Bool.false_eq_true, if_false] at hrange hmine
    rw [hpu, if_pos hrange.1, hne]
    simp [hmine]
  · simp only [if_true] at hrange hmine
    rw [hpu, hne]
    by_cases h0 : 0 ≤ i
    · rw [if_pos h0]
      rcases hother false with hu | hu
      · simp [hu, hmine]
      · have hne' : g.numericTraits .yaml false ≠ [] := by
          intro he
          unfold numericTry at hu
          rw [he] at hu
          cases hu
        simp [hu, hne']
    · rw [if_neg h0]
      simp [hmine]

/-- the native block of codec `c` finds the row: if the trait type's own unmarshaler for `c` reads
the document as `v`, the trait's row constant is `T(v)`, and every other self-unmarshalling trait's
reading of the document is no constant of another value, the block returns the row's value -/
private theorem nativeTry_row (o : Options) (g : GenFull) (h : genFull o f t = .ok g) (ha : Accepted f t.name k)
    (c : Codec) (td : TraitDesc) (htd : td ∈ g.traits) (hp : td.parsable = true)
    (inner : String) (sg : Bool) (b : Nat) (m : Methods) (hfam : td.fam = .self inner sg b m) (himpl : m.implements c = true)
    (r : TraitRow) (hr : r ∈ td.rows) (v : Int) (hv : r.dyn.v = .int v)
    (dec : String → Option Int) (hdec : dec inner = some v)
    (hothers : ∀ td' ∈ g.traits, td'.parsable = true → ∀ inner' sg' b' m' v', td'.fam = .self inner' sg' b' m' →
      m'.implements c = true → dec inner' = some v' →
      g.base.parse ⟨td'.ty, .int v'⟩ = none ∨ g.base.parse ⟨td'.ty, .int v'⟩ = some r.owner.val) :
    g.nativeTry c dec = some r.owner.val := by
  have hrow := parse_row o g h ha td htd hp r hr
  have hty := (row_facts h ha td htd r hr).2.1
  have hdyn : r.dyn = ⟨td.ty, .int v⟩ := by
    cases hrd : r.dyn with
    | mk ty sc => rw [hrd] at hty hv; simp at hty hv; rw [hty, hv]
  unfold GenFull.nativeTry
  apply firstSome_eq
  · intro x hx
    obtain ⟨td', htd', rfl⟩ := List.mem_map.mp hx
    have hm := List.mem_filter.mp htd'
    cases hf : td'.fam with
    | self inner' sg' b' m' =>
      simp only []
      cases hi' : m'.implements c with
      | false => exact Or.inl rfl
      | true =>
        simp only [if_true]
        cases hd' : dec inner' with
        | none => exact Or.inl rfl
        | some v' => exact hothers td' hm.1 (by simpa using hm.2) inner' sg' b' m' v' hf hi' hd'
    | ustr => exact Or.inl rfl
    | nstr => exact Or.inl rfl
    | sint b => exact Or.inl rfl
    | uint b => exact Or.inl rfl
    | none => exact Or.inl rfl
  · refine List.mem_map.mpr ⟨td, List.mem_filter.mpr ⟨htd, by simpa using hp⟩, ?_⟩
    rw [hfam]
    simp only [himpl, if_true, hdec]
    rw [← hdyn, hrow]

/-- `decode_by_trait`, trait types that decode themselves for codec JSON (another enum generated
with `-json`, a hand-written type with an `UnmarshalJSON`): a JSON document that the trait type's
own unmarshaler reads as the constant `T(v)` of a row of a parsable trait — for an enum: the NAME
of `v`, by `C05.roundtrip` on the inner enum — and that the string / integer branches of the outer
decoder reject, decodes to the row's value through the native block. -/
theorem decode_by_trait_self_json (o : Options) (g : GenFull) (h : genFull o f t = .ok g) (ha : Accepted f t.name k)
    (td : TraitDesc) (htd : td ∈ g.traits) (hp : td.parsable = true)
    (inner : String) (sg : Bool) (b : Nat) (m : Methods) (hfam : td.fam = .self inner sg b m) (himpl : m.implements .json = true)
    (r : TraitRow) (hr : r ∈ td.rows) (v : Int) (hv : r.dyn.v = .int v)
    (envJ : String → JDoc → Option Int) (doc : JDoc)
    (hdj : envJ inner doc = some v) (hj : g.unmarshalJSON {} doc = none)
    (hoj : ∀ td' ∈ g.traits, td'.parsable = true → ∀ inner' sg' b' m' v', td'.fam = .self inner' sg' b' m' →
      m'.implements .json = true → envJ inner' doc = some v' →
      g.base.parse ⟨td'.ty, .int v'⟩ = none ∨ g.base.parse ⟨td'.ty, .int v'⟩ = some r.owner.val) :
    g.unmarshalJSONFull {} envJ doc = some r.owner.val := by
  unfold GenFull.unmarshalJSONFull
  rw [hj]
  exact nativeTry_row o g h ha .json td htd hp inner sg b m hfam himpl r hr v hv _ hdj hoj

/-- the same for YAML (another enum generated with `-yaml`, a hand-written type with an
`UnmarshalYAML`) -/
theorem decode_by_trait_self_yaml (o : Options) (g : GenFull) (h : genFull o f t = .ok g) (ha : Accepted f t.name k)
    (td : TraitDesc) (htd : td ∈ g.traits) (hp : td.parsable = true)
    (inner : String) (sg : Bool) (b : Nat) (m : Methods) (hfam : td.fam = .self inner sg b m) (himpl : m.implements .yaml = true)
    (r : TraitRow) (hr : r ∈ td.rows) (v : Int) (hv : r.dyn.v = .int v)
    (envY : String → String → Option Int) (text : String)
    (hdy : envY inner text = some v) (hy : g.unmarshalYAML {} text = none)
    (hoy : ∀ td' ∈ g.traits, td'.parsable = true → ∀ inner' sg' b' m' v', td'.fam = .self inner' sg' b' m' →
      m'.implements .yaml = true → envY inner' text = some v' →
      g.base.parse ⟨td'.ty, .int v'⟩ = none ∨ g.base.parse ⟨td'.ty, .int v'⟩ = some r.owner.val) :
    g.unmarshalYAMLFull {} envY text = some r.owner.val := by
  unfold GenFull.unmarshalYAMLFull
  rw [hy]
  exact nativeTry_row o g h ha .yaml td htd hp inner sg b m hfam himpl r hr v hv _ hdy hoy

/-- `decode_by_trait_self`: a trait type with BOTH unmarshalers (an enum generated with the default
switches), both decoders. -/
theorem decode_by_trait_self (o : Options) (g : GenFull) (h : genFull o f t = .ok g) (ha : Accepted f t.name k)
    (td : TraitDesc) (htd : td ∈ g.traits) (hp : td.parsable = true)
    (inner : String) (sg : Bool) (b : Nat) (m : Methods) (hfam : td.fam = .self inner sg b m)
    (hij : m.implements .json = true) (hiy : m.implements .yaml = true)
    (r : TraitRow) (hr : r ∈ td.rows) (v : Int) (hv : r.dyn.v = .int v)
    (envJ : String → JDoc → Option Int) (envY : String → String → Option Int) (doc : JDoc) (text : String)
    (hdj : envJ inner doc = some v) (hdy : envY inner text = some v)
    (hj : g.unmarshalJSON {} doc = none) (hy : g.unmarshalYAML {} text = none)
    (hoj : ∀ td' ∈ g.traits, td'.parsable = true → ∀ inner' sg' b' m' v', td'.fam = .self inner' sg' b' m' →
      m'.implements .json = true → envJ inner' doc = some v' →
      g.base.parse ⟨td'.ty, .int v'⟩ = none ∨ g.base.parse ⟨td'.ty, .int v'⟩ = some r.owner.val)
    (hoy : ∀ td' ∈ g.traits, td'.parsable = true → ∀ inner' sg' b' m' v', td'.fam = .self inner' sg' b' m' →
      m'.implements .yaml = true → envY inner' text = some v' →
      g.base.parse ⟨td'.ty, .int v'⟩ = none ∨ g.base.parse ⟨td'.ty, .int v'⟩ = some r.owner.val) :
    g.unmarshalJSONFull {} envJ doc = some r.owner.val ∧ g.unmarshalYAMLFull {} envY text = some r.owner.val :=
  ⟨decode_by_trait_self_json o g h ha td htd hp inner sg b m hfam hij r hr v hv envJ doc hdj hj hoj,
   decode_by_trait_self_yaml o g h ha td htd hp inner sg b m hfam hiy r hr v hv envY text hdy hy hoy⟩

/-! ## the pinned algorithms -/

private def errOf {α : Type} : Except GenFailure α → Option GenFailure
  | .error e => some e
  | .ok _ => none

/-- value 1 has a deprecated alias that carries trait columns of its own -/
def dupWithCols : FileDef :=
  ⟨[{ name := "E", kind := ⟨64, true⟩, cols := [⟨"Num", "int", .sint 64⟩] }],
   [{ name := "B0", ty := "E", val := 0, deprecated := false, tvals := [.int 0] },
    { name := "B1", ty := "E", val := 1, deprecated := false, tvals := [.int 10] },
    { name := "B1Old", ty := "E", val := 1, deprecated := true, tvals := [.int 11] }]⟩

/-- value 1 has a deprecated alias without trait columns -/
def dupNoCols : FileDef :=
  ⟨[{ name := "E", kind := ⟨64, true⟩, cols := [⟨"Num", "int", .sint 64⟩] }],
   [{ name := "B0", ty := "E", val := 0, deprecated := false, tvals := [.int 0] },
    { name := "B1", ty := "E", val := 1, deprecated := false, tvals := [.int 10] },
    { name := "B1Old", ty := "E", val := 1, deprecated := true },
    { name := "B2", ty := "E", val := 2, deprecated := false, tvals := [.int 20] }]⟩

def dupType : TypeDecl := { name := "E", kind := ⟨64, true⟩, cols := [⟨"Num", "int", .sint 64⟩] }

/-- pinned `processDuplicates`: the row of a deprecated alias survives when the group is "safe", the
accessor switch gets two cases for one value and does not compile; pinned `Parse` template: rows
are taken by position, a value without a row shifts them until `index` runs out of range. The
current algorithms accept both definitions and keep the primary definition's constant. -/
theorem legacy_duplicates_violate :
    errOf (genFullQ { dropRowsOnlyUnsafe := true } {} dupWithCols dupType) = some .dupCase ∧
    errOf (genFullQ { parseRowsByIndex := true } { parsable := ["Num"] } dupNoCols dupType) = some .templateIndex ∧
    (genFull {} dupWithCols dupType).toOption.map (fun g => g.traits.map (fun td => (td.get 1, td.get 7)))
      = some [(⟨"int", .int 10⟩, ⟨"int", .int 0⟩)] ∧
    (genFull { parsable := ["Num"] } dupNoCols dupType).toOption.map (fun g =>
      (g.base.parse ⟨"int", .int 20⟩, g.base.parse (Dyn.ofString "B1Old"), g.unmarshalYAML {} "10"))
      = some (some 2, some 1, some 1) := by decide

/-- an untyped rune trait 'a','b' declared parsable; its family comes from `extractUnderlying` -/
def runeWitness (legacy : Bool) : TypeDecl :=
  { name := "E", kind := ⟨64, true⟩, cols := [⟨"Rn", "rune", extractUnderlyingQ legacy .untypedRune⟩] }

def runeDef (legacy : Bool) : FileDef :=
  ⟨[runeWitness legacy],
   [{ name := "R0", ty := "E", val := 0, deprecated := false, tvals := [.int 97] },
    { name := "R1", ty := "E", val := 1, deprecated := false, tvals := [.int 98] }]⟩

/-- the pinned `extractUnderlying` does not list `types.UntypedRune`: the trait has no decoder
family, `Parse<T>('b')` works but JSON / YAML `98` is rejected. With the kind in the int64 family
(current tree) both decode to the owner of 'b', and 99 / 4294967394 (= 98 + 2^32) stay rejected. -/
theorem legacy_rune_family_violates :
    extractUnderlying .untypedRune = .sint 32 ∧ extractUnderlyingQ true .untypedRune = .none ∧
    (genFull { parsable := ["Rn"] } (runeDef true) (runeWitness true)).toOption.map (fun g =>
      (g.base.parse ⟨"rune", .int 98⟩, g.unmarshalJSON {} (.num 98), g.unmarshalYAML {} "98"))
      = some (some 1, none, none) ∧
    (genFull { parsable := ["Rn"] } (runeDef false) (runeWitness false)).toOption.map (fun g =>
      (g.base.parse ⟨"rune", .int 98⟩, g.unmarshalJSON {} (.num 98), g.unmarshalYAML {} "98",
       g.unmarshalJSON {} (.num 99), g.unmarshalJSON {} (.num 4294967394)))
      = some (some 1, some 1, some 1, none, none) := by decide

/-- `Circle, _tint, _code = Shape(iota), NoTint, 0` / `Square, _, _ = Shape(iota), Red, 5`: on the
line of `Circle` the parsable traits `tint` (type `Tint`, another enum) and `code` (untyped int) both
carry a constant whose value text is `0` -/
def tintCols : List TraitCol :=
  [⟨"tint", "Tint", .self "Tint" true 64 (.ofSwitches true true true)⟩, ⟨"code", "int", .sint 64⟩]

def tintFile : FileDef :=
  ⟨[{ name := "Shape", kind := ⟨64, true⟩, cols := tintCols }, { name := "Tint", kind := ⟨64, true⟩ }],
   [{ name := "Circle", ty := "Shape", val := 0, deprecated := false, tvals := [.int 0, .int 0] },
    { name := "Square", ty := "Shape", val := 1, deprecated := false, tvals := [.int 1, .int 5] },
    { name := "NoTint", ty := "Tint", val := 0, deprecated := false },
    { name := "Red", ty := "Tint", val := 1, deprecated := false }]⟩

/-- two untyped int traits with the same constants on every line -/
def twinFile : FileDef :=
  ⟨[{ name := "E", kind := ⟨64, true⟩, cols := [⟨"Num", "int", .sint 64⟩, ⟨"Cnt", "int", .sint 64⟩] }],
   [{ name := "A0", ty := "E", val := 0, deprecated := false, tvals := [.int 3, .int 3] },
    { name := "A1", ty := "E", val := 1, deprecated := false, tvals := [.int 4, .int 4] }]⟩

/-- the repeat marking of `validateParsableTraits`. /repo 7793249 marked a later parsable trait's
constant whenever its value TEXT had been seen on the same enum value, whatever the types: the
walk is in name order, `code` comes before `tint`, and `NoTint` = `Tint(0)` was left out of
`Circle`'s case (`case "Circle", _code:`) although `Tint(0)` and `0` are different keys, so
`ParseShape(NoTint)` failed (and JSON / YAML decoding through the `tint` trait). The current rule (42de8c1) compares the types too:
both are listed; a repeat under the SAME type (`twinFile`) is listed once — without the marking the
case would hold the constant twice and not compile — and both traits parse. -/
theorem legacy_repeat_ignores_type_violates :
    (genFullQ { repeatIgnoresType := true } { parsable := ["tint", "code"] } tintFile
        { name := "Shape", kind := ⟨64, true⟩, cols := tintCols }).toOption.map (fun g =>
      (g.base.parse ⟨"Tint", .int 0⟩, g.base.parse ⟨"int", .int 0⟩, g.unmarshalJSON {} (.num 0), g.base.parse ⟨"int", .int 5⟩))
      = some (none, some 0, some 0, some 1) ∧
    (genFull { parsable := ["tint", "code"] } tintFile
        { name := "Shape", kind := ⟨64, true⟩, cols := tintCols }).toOption.map (fun g =>
      (g.base.parse ⟨"Tint", .int 0⟩, g.base.parse ⟨"int", .int 0⟩, g.unmarshalJSON {} (.num 0), g.base.parse ⟨"int", .int 5⟩))
      = some (some 0, some 0, some 0, some 1) ∧
    (genFull { parsable := ["Num", "Cnt"] } twinFile
        { name := "E", kind := ⟨64, true⟩, cols := [⟨"Num", "int", .sint 64⟩, ⟨"Cnt", "int", .sint 64⟩] }).toOption.map (fun g =>
      (g.base.cases.map (·.consts.length), g.base.parse ⟨"int", .int 4⟩, g.unmarshalYAML {} "3"))
      = some ([2, 2], some 1, some 0) := by decide

/- `decode_by_trait` is proved for every family the template has a branch for:
   `decode_by_trait_string` (untyped and named strings; JSON, text, YAML), `decode_by_trait_json_int`
   and `decode_by_trait_yaml_int` (signed / unsigned integers of 1-64 bits, untyped rune included
   since fix-C12-rune-trait), each under `Distinct` (the quantifier's "pairwise distinct values",
   stated on the generated switch), and `decode_by_trait_self_json` / `_yaml` for trait types that
   bring that codec's unmarshaler (another enum generated earlier with the codec's switch on, a
   hand-written type; native block). An integer-kinded type WITHOUT the codec's unmarshaler is in
   the integer theorems (`hown`), whatever other unmarshalers it has: `self_codec_table`. The bool family has no template
   branch and falsifies the statement on the code: known finding C12:decode:bool-trait. Not
   modelled: float trait types. -/

/-! ## non-vacuity -/

/-- the hypotheses of `accessor_returns_declared` and of the `decode_by_trait` theorems are
satisfiable: the witness definition is accepted, its first line declares the column, value 1 has
the declared constant 10 on its primary line, and every row constant of the generated switch is
`Distinct` (no lower-case switch without `-caseInsensitive`) -/
example : Accepted C05.witness "E" ⟨64, true⟩ ∧ FirstLineDeclares C05.witness C05.witnessType ∧
    DeclaredTrait C05.witness C05.witnessType 0 1 ⟨"int", .int 10⟩ ∧
    (genFull { parsable := ["Num"] } C05.witness C05.witnessType).toOption.map (fun g =>
      (g.traits.all (fun td => td.parsable && td.rows.all (fun r =>
          decide (∀ c ∈ g.base.cases, ∀ d ∈ c.consts, d.v = r.dyn.v → d = r.dyn))),
       g.base.lowerCases.isNone, g.unmarshalJSON {} (.num 10), g.unmarshalYAML {} "10"))
      = some (true, true, some 1, some 1) := by
  refine ⟨⟨by decide, by decide, by decide⟩, by decide, ?_, by decide⟩
  refine ⟨{ name := "A1", ty := "E", val := 1, deprecated := false, tvals := [.int 10] }, by decide, rfl, rfl, ?_,
    ⟨"Num", "int", .sint 64⟩, rfl, .int 10, rfl, rfl⟩
  exact ⟨{ name := "A1", ty := "E", val := 1, deprecated := false, tvals := [.int 10] }, by decide, rfl, rfl, rfl,
    Or.inl ⟨rfl, by decide⟩⟩


example : (genFull { parsable := ["Num"] } C05.witness C05.witnessType).toOption.map (fun g =>
    (g.traits.map (fun td => (td.name, td.get 1, td.get 5)), g.base.parse ⟨"int", .int 10⟩, g.base.parse ⟨"int64", .int 10⟩))
    = some ([("Num", ⟨"int", .int 10⟩, ⟨"int", .int 0⟩)], some 1, none) := by decide

/-- `validateParsableTraits` compares constant TEXTS across all parsable traits, whatever their
types: an untyped int trait `7` on one member and a float trait written as the bare literal `7` on
another (both would be the constant `7` of type int in the `Parse` switch), or the first line's
`int16(7)` (compared by value) next to an untyped `7`, make the generator refuse the definition;
with distinct texts it accepts. -/
theorem text_collision_rejected :
    errOf (genFull { parsable := ["Num", "Weight"] }
      ⟨[{ name := "E", kind := ⟨64, true⟩, cols := [⟨"Num", "int", .sint 64⟩, ⟨"Weight", "float", .none⟩] }],
       [{ name := "M0", ty := "E", val := 0, deprecated := false, tvals := [.int 0, .other "0.5"] },
        { name := "M1", ty := "E", val := 1, deprecated := false, tvals := [.int 7, .other "1.5"] },
        { name := "M2", ty := "E", val := 2, deprecated := false, tvals := [.int 57, .other "7"] }]⟩
      { name := "E", kind := ⟨64, true⟩, cols := [⟨"Num", "int", .sint 64⟩, ⟨"Weight", "float", .none⟩] }) = some .parsableNotUnique ∧
    errOf (genFull { parsable := ["Mid", "Num"] }
      ⟨[{ name := "E", kind := ⟨64, true⟩, cols := [⟨"Mid", "int16", .sint 16⟩, ⟨"Num", "int", .sint 64⟩] }],
       [{ name := "M0", ty := "E", val := 0, deprecated := false, tvals := [.int 7, .int 0] },
        { name := "M1", ty := "E", val := 1, deprecated := false, tvals := [.int 8, .int 7] }]⟩
      { name := "E", kind := ⟨64, true⟩, cols := [⟨"Mid", "int16", .sint 16⟩, ⟨"Num", "int", .sint 64⟩] }) = some .parsableNotUnique ∧
    errOf (genFull { parsable := ["Mid", "Num"] }
      ⟨[{ name := "E", kind := ⟨64, true⟩, cols := [⟨"Mid", "int16", .sint 16⟩, ⟨"Num", "int", .sint 64⟩] }],
       [{ name := "M0", ty := "E", val := 0, deprecated := false, tvals := [.int 7, .int 0] },
        { name := "M1", ty := "E", val := 1, deprecated := false, tvals := [.int 8, .int 9] }]⟩
      { name := "E", kind := ⟨64, true⟩, cols := [⟨"Mid", "int16", .sint 16⟩, ⟨"Num", "int", .sint 64⟩] }) = none := by decide

/-- a file with an inner enum `Colour` (Red, Green) and an outer enum `Fruit` whose parsable trait
`Skin` has type `Colour`; `m` = the unmarshal methods `Colour` has when `Fruit` is generated -/
def selfCols (m : Methods) : List TraitCol := [⟨"Sku", "int", .sint 64⟩, ⟨"Skin", "Colour", .self "Colour" true 64 m⟩]

def selfFile (m : Methods) : FileDef :=
  ⟨[{ name := "Fruit", kind := ⟨64, true⟩, cols := selfCols m }, { name := "Colour", kind := ⟨64, true⟩ }],
   [{ name := "Apple", ty := "Fruit", val := 0, deprecated := false, tvals := [.int 10, .int 0] },
    { name := "Lime", ty := "Fruit", val := 1, deprecated := false, tvals := [.int 20, .int 1] },
    { name := "Red", ty := "Colour", val := 0, deprecated := false },
    { name := "Green", ty := "Colour", val := 1, deprecated := false }]⟩

/-- what the decoders of `Fruit` answer on: JSON "Green", 1, "Greenx", 20; YAML Green, 1; text Green —
with `parsable` declared parsable and `Colour`'s own decoders as the environment -/
def selfAnswers (m : Methods) (parsable : List String) : Option (List (Option Int)) :=
  (genFull {} (selfFile m) { name := "Colour", kind := ⟨64, true⟩ }).toOption.bind (fun gi =>
    (genFull { parsable := parsable } (selfFile m) { name := "Fruit", kind := ⟨64, true⟩, cols := selfCols m }).toOption.map (fun g =>
      let envJ : String → JDoc → Option Int := fun _ d => gi.unmarshalJSON {} d
      let envY : String → String → Option Int := fun _ s => gi.unmarshalYAML {} s
      let envT : String → String → Option Int := fun _ s => gi.unmarshalText s
      [g.unmarshalJSONFull {} envJ (.str "Green"), g.unmarshalJSONFull {} envJ (.num 1),
       g.unmarshalJSONFull {} envJ (.str "Greenx"), g.unmarshalJSONFull {} envJ (.num 20),
       g.unmarshalYAMLFull {} envY "Green", g.unmarshalYAMLFull {} envY "1",
       g.unmarshalTextFull envT "Green"]))

/-- `Colour` generated with the default switches (all three unmarshalers): JSON "Green" / YAML Green
decode through the native block to the owner of Colour(1); the bare numeral 1 and a near-miss name
are rejected; the int trait still decodes 20; text never decodes by an integer-kinded trait. -/
example : selfAnswers (.ofSwitches true true true) ["Sku", "Skin"] =
    some [some 1, none, none, some 1, some 1, none, none] := by decide

/-- the table per codec set of the inner type, `Skin` being the ONLY integer-kinded parsable trait or
next to the untyped int trait `Sku`: for each of JSON and YAML separately, a `Colour` WITH that
codec's unmarshaler is read by name (native block) and its numeral is rejected; a `Colour` WITHOUT it
is read by numeral (that codec's integer block, which then exists also when `Skin` is its only
member) and its name is rejected. The text switch changes nothing. Hand-written types with one
pointer-receiver unmarshaler are the rows with exactly one switch on. -/
theorem self_codec_table :
    ∀ j ∈ [false, true], ∀ y ∈ [false, true], ∀ t ∈ [false, true], ∀ alone ∈ [false, true],
      selfAnswers (.ofSwitches j y t) (if alone then ["Skin"] else ["Sku", "Skin"]) =
        some [if j then some 1 else none, if j then none else some 1, none, if alone then none else some 1,
              if y then some 1 else none, if y then none else some 1, none] := by decide

/-- a value-receiver `UnmarshalText` is the one shape `implementsTextUnmarshaler` accepts: only then
does the text decoder have a native block -/
example : selfAnswers ⟨.no, .no, .val⟩ ["Skin"] = some [none, some 1, none, none, none, some 1, some 1] ∧
    selfAnswers ⟨.no, .no, .ptr⟩ ["Skin"] = some [none, some 1, none, none, none, some 1, none] := by decide

/-- the hypotheses of `decode_by_trait_json_int` / `_yaml_int` for a trait type that has only the
OTHER codec's unmarshaler, and of `decode_by_trait_self_json` / `_yaml` for one that has this
codec's, are satisfiable -/
example : (Family.self "Colour" true 64 (.ofSwitches false true true)).isNumeric true = true ∧
    (Family.self "Colour" true 64 (.ofSwitches false true true)).implements .json = false ∧
    (Family.self "Colour" true 64 (.ofSwitches false true true)).implements .yaml = true ∧
    (Family.self "Colour" true 64 (.ofSwitches true true true)).implements .text = false := by decide

end Genum.C12

// Package gsync here is a placeholder: `check` builds h-gsync with `go build -overlay`, which
// replaces this file by an instrumented copy of /repo/gsync's current sources (cmd/instrument).
// Built without the overlay, every entry point panics.
package gsync

import "context"
import "time"

type SelectableWaitGroup struct{}

func NewSelectableWaitGroup() *SelectableWaitGroup            { panic("not instrumented") }
func (wg *SelectableWaitGroup) Inc() int                      { panic("not instrumented") }
func (wg *SelectableWaitGroup) Dec() int                      { panic("not instrumented") }
func (wg *SelectableWaitGroup) Add(delta int) int             { panic("not instrumented") }
func (wg *SelectableWaitGroup) Count() int                    { panic("not instrumented") }
func (wg *SelectableWaitGroup) Wait() <-chan struct{}         { panic("not instrumented") }
func (wg *SelectableWaitGroup) WaitCTX(context.Context) error { panic("not instrumented") }
func (wg *SelectableWaitGroup) WaitTimeout(time.Duration) error {
	panic("not instrumented")
}

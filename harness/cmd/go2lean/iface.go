// go2lean -spec gencommoniface: translation of `namedTypeToInterface` of gencommon/interface.go
// (property C19, part (b): own-method loop, IncludePrivate filter, the loop over the embedded fields
// with the recursive call, the bookkeeping of names defined more than once / ambiguous below).
//
// go/types is abstracted the way the model abstracts it: a TYPE GRAPH handed in as data.  A
// `*types.Named` is a number `t`; `g t` says what the code can ask of it: `Obj().Name()`,
// `Obj().Pkg().Path()`, `NumMethods()/Method(i)` (a list of `Func` = name, Exported(), signature),
// `Underlying()` (a struct with its fields in order, an interface with its methods, anything else);
// a field says `Embedded()` and `Type()` (pointer to a named type / to something else, a named type,
// anything else).  A `hasMethods` value is the list of its methods.  The recursion goes through FUEL.
// External functions are parameters (`Env`): `pkgs.findPKgByName`, `ih.ExtractTypeRef` and
// `MethodFromSignature` (both thread the import handler state), `CommentsFromObj`,
// `CommentsFromMethod`.  `set.Set[string]` goes through the TRANSLATED Set.Add / Set.Has of
// Generated/GoSet.lean, `opts.Has` through the translated BitSet.Has of Generated/GoBitSet.lean;
// `map[string]*Method` is a `Go.KV` (Model/GoKV.lean).  `*Interface` / `*Method` results are
// treated as values: the pointers are fresh (allocated by the composite literal resp. by
// MethodFromSignature - a contract of that parameter) and never shared while they are written.
//
// Fragment: see (*it).stmt / (*it).expr.  Anything else makes the translator fail.
package main

import (
	"fmt"
	"go/ast"
	"go/parser"
	"go/token"
	"os"
	"path/filepath"
	"regexp"
	"strings"
)

func init() { register("gencommoniface", "../lean/Generated/GoGencommonIface.lean", runGencommonIface) }

type it struct {
	env     []map[string]string // variable -> kind
	out     strings.Builder
	n       int
	mut     map[string]bool // variables written somewhere in the function
	recv    string          // `pkgs`
	loopVar map[string]bool // index variables of the 3-clause loops (may not be used otherwise)
}

var reservedTmp = regexp.MustCompile(`^[rcp][0-9]+$|_Elem$`)

func (t *it) line(ind int, s string) { t.out.WriteString(strings.Repeat("  ", ind) + s + "\n") }
func (t *it) bad(n ast.Node, what string) {
	fail("gencommoniface: %s: %s `%s` is outside the translated fragment", at(n), what, src(n))
}
func (t *it) fresh(p string) string { t.n++; return fmt.Sprintf("%s%d", p, t.n) }
func (t *it) push()                 { t.env = append(t.env, map[string]string{}) }
func (t *it) pop()                  { t.env = t.env[:len(t.env)-1] }
func (t *it) bind(n ast.Node, v, kind string) {
	if _, ok := t.lookup(v); ok {
		t.bad(n, "shadowing declaration")
	}
	// names the translation itself introduces
	if v == "env" || v == "g" || v == "fuel" || v == "ih" || v == "opts" || reservedTmp.MatchString(v) {
		t.bad(n, "declaration of a name the translation uses itself ("+v+") in")
	}
	t.env[len(t.env)-1][v] = kind
}
func (t *it) lookup(v string) (string, bool) {
	for i := len(t.env) - 1; i >= 0; i-- {
		if k, ok := t.env[i][v]; ok {
			return k, true
		}
	}
	return "", false
}
func (t *it) kindOfVar(e ast.Expr) (string, string) {
	id, ok := e.(*ast.Ident)
	if !ok {
		return "", ""
	}
	k, _ := t.lookup(id.Name)
	return id.Name, k
}

var ifLeanType = map[string]string{
	"hasMethods": "List (Func σ)", "ifaceOpt": "Option (Interface τ κ ρ)", "iface": "Interface τ κ ρ",
	"method": "Method τ κ", "kv": "Go.KV Go.Str (Method τ κ)", "set": "Go.GMap Go.Str", "bool": "Bool",
}

func (t *it) letKw(v string) string {
	if t.mut[v] {
		return "let mut "
	}
	return "let "
}

// selCall: `x.M(args)` -> x, M, args
func selCall(e ast.Expr) (ast.Expr, string, []ast.Expr, bool) {
	c, ok := e.(*ast.CallExpr)
	if !ok || c.Ellipsis.IsValid() {
		return nil, "", nil, false
	}
	s, ok := c.Fun.(*ast.SelectorExpr)
	if !ok {
		return nil, "", nil, false
	}
	return s.X, s.Sel.Name, c.Args, true
}

// expr: a pure expression or one whose effects are hoisted into statements emitted at `ind`
// BEFORE the statement that uses it (left to right).  `hoist=false` forbids hoisting (right-hand
// side of || and &&, where Go may skip the evaluation).
func (t *it) expr(ind int, e ast.Expr, hoist bool) (string, string) {
	switch x := e.(type) {
	case *ast.ParenExpr:
		return t.expr(ind, x.X, hoist)
	case *ast.Ident:
		switch x.Name {
		case "true", "false":
			return x.Name, "bool"
		case "IncludePrivate", "IncludeEmbedded":
			return x.Name, "flag"
		}
		if t.loopVar[x.Name] {
			t.bad(e, "use of the loop index")
		}
		if k, ok := t.lookup(x.Name); ok {
			return name(x.Name), k
		}
	case *ast.BasicLit:
		if x.Kind == token.INT {
			return x.Value, "int"
		}
	case *ast.UnaryExpr:
		if x.Op == token.NOT {
			v, k := t.expr(ind, x.X, hoist)
			if k == "bool" {
				return "(!" + v + ")", "bool"
			}
		}
	case *ast.BinaryExpr:
		if x.Op == token.LOR || x.Op == token.LAND {
			a, ka := t.expr(ind, x.X, hoist)
			b, kb := t.expr(ind, x.Y, false)
			if ka == "bool" && kb == "bool" {
				op := map[token.Token]string{token.LOR: "||", token.LAND: "&&"}[x.Op]
				return "(" + a + " " + op + " " + b + ")", "bool"
			}
		}
		if x.Op == token.EQL {
			a, ka := t.expr(ind, x.X, hoist)
			b, kb := t.expr(ind, x.Y, hoist)
			if ka == "int" && kb == "int" {
				return "(" + a + " == " + b + ")", "bool"
			}
		}
	case *ast.SelectorExpr:
		v, k := t.expr(ind, x.X, hoist)
		switch {
		case k == "iface" && (x.Sel.Name == "Methods"):
			return v + ".Methods", "methods"
		case k == "iface" && x.Sel.Name == "ambiguous":
			return v + ".ambiguous", "set"
		case k == "ifaceOpt" && x.Sel.Name == "Methods":
			return "(← Go.deref " + v + ").Methods", "methods"
		case k == "ifaceOpt" && x.Sel.Name == "ambiguous":
			return "(← Go.deref " + v + ").ambiguous", "set"
		case k == "method" && x.Sel.Name == "Name":
			return v + ".Name", "str"
		}
	case *ast.TypeAssertExpr:
		// `mInfo.Type().(*types.Signature)`: the type of a *types.Func is always a signature
		if src(x.Type) == "*types.Signature" {
			if r, m, a, ok := selCall(x.X); ok && m == "Type" && len(a) == 0 {
				if v, k := t.expr(ind, r, hoist); k == "func" {
					return v + ".sig", "sig"
				}
			}
		}
	case *ast.CallExpr:
		return t.call(ind, x, hoist)
	}
	t.bad(e, "expression")
	return "", ""
}

// named: `t.Obj().Name()` / `t.Obj().Pkg().Path()` for a named-type variable
func (t *it) objQuery(e ast.Expr) (string, bool) {
	s := src(e)
	for v, k := range t.flat() {
		if k != "named" {
			continue
		}
		switch s {
		case v + ".Obj().Name()":
			return "(g " + name(v) + ").name", true
		case v + ".Obj().Pkg().Path()":
			return "(g " + name(v) + ").pkgPath", true
		}
	}
	return "", false
}

func (t *it) flat() map[string]string {
	m := map[string]string{}
	for _, sc := range t.env {
		for k, v := range sc {
			m[k] = v
		}
	}
	return m
}

func (t *it) needHoist(e ast.Node, hoist bool) {
	if !hoist {
		t.bad(e, "call with an effect where Go may skip the evaluation:")
	}
}

func (t *it) call(ind int, c *ast.CallExpr, hoist bool) (string, string) {
	if c.Ellipsis.IsValid() {
		t.bad(c, "call")
	}
	if q, ok := t.objQuery(c); ok {
		return q, "str"
	}
	if id, ok := c.Fun.(*ast.Ident); ok {
		switch id.Name {
		case "len":
			if len(c.Args) == 1 {
				if v, k := t.expr(ind, c.Args[0], hoist); k == "methods" {
					return "(List.length " + v + ")", "int"
				}
			}
		case "make":
			switch {
			case len(c.Args) == 3 && src(c.Args[0]) == "Methods" && src(c.Args[1]) == "0":
				if _, k := t.expr(ind, c.Args[2], false); k == "int" { // the capacity: evaluated, no effect
					return "[]", "methods"
				}
			case len(c.Args) >= 1 && len(c.Args) <= 2 && src(c.Args[0]) == "set.Set[string]":
				n := "0"
				if len(c.Args) == 2 {
					var k string
					if n, k = t.expr(ind, c.Args[1], hoist); k != "int" {
						t.bad(c, "call")
					}
				}
				return "Go.mapMake " + n, "set"
			case len(c.Args) == 1 && src(c.Args[0]) == "map[string]*Method":
				return "Go.kvMake", "kv"
			}
		case "MethodFromSignature":
			if len(c.Args) == 2 && src(c.Args[0]) == "ih" {
				if sg, k := t.expr(ind, c.Args[1], hoist); k == "sig" {
					t.needHoist(c, hoist)
					r := t.fresh("r")
					t.line(ind, "let "+r+" := env.methodFromSignature ih "+sg)
					t.line(ind, "ih := "+r+".1")
					return r + ".2", "method"
				}
			}
		case "CommentsFromObj", "CommentsFromMethod":
			want := map[string]int{"CommentsFromObj": 2, "CommentsFromMethod": 3}[id.Name]
			if len(c.Args) == want {
				args := []string{}
				for i, a := range c.Args {
					v, k := t.expr(ind, a, hoist)
					if (i == 0 && k != "pkg") || (i > 0 && k != "str") {
						t.bad(c, "call")
					}
					args = append(args, v)
				}
				return "env.c" + id.Name[1:] + " " + strings.Join(args, " "), "comments"
			}
		}
		t.bad(c, "call")
	}
	recv, m, args, ok := selCall(c)
	if !ok {
		t.bad(c, "call")
	}
	// methods of the receiver `pkgs` and of `ih`
	if id, ok := recv.(*ast.Ident); ok {
		switch {
		case id.Name == "ih" && m == "ExtractTypeRef" && len(args) == 1:
			if v, k := t.kindOfVar(args[0]); k == "named" {
				t.needHoist(c, hoist)
				r := t.fresh("r")
				t.line(ind, "let "+r+" := env.extractTypeRef ih "+name(v))
				t.line(ind, "ih := "+r+".1")
				return r + ".2", "typeref"
			}
		case id.Name == t.recv && m == "namedTypeToInterface" && len(args) == 3 && src(args[0]) == "ih" && src(args[2]) == "opts":
			if v, k := t.kindOfVar(args[1]); k == "named" {
				t.needHoist(c, hoist)
				r := t.fresh("r")
				t.line(ind, "let "+r+" ← namedTypeToInterface env g fuel ih "+name(v)+" opts")
				t.line(ind, "ih := "+r+".1")
				return r + ".2", "iface"
			}
		case id.Name == "opts" && m == "Has" && len(args) == 1:
			if f, k := t.expr(ind, args[0], hoist); k == "flag" {
				t.needHoist(c, hoist)
				r := t.fresh("c")
				t.line(ind, "let "+r+" ← Generated.GoBitSet.BitSet.Has opts "+f)
				return r, "bool"
			}
		}
	}
	v, k := t.expr(ind, recv, hoist)
	switch {
	case k == "named" && m == "NumMethods" && len(args) == 0:
		return "(List.length (g " + v + ").methods)", "int"
	case k == "hasMethods" && m == "NumMethods" && len(args) == 0:
		return "(List.length " + v + ")", "int"
	case k == "struct" && m == "NumFields" && len(args) == 0:
		return "(List.length " + v + ")", "int"
	case k == "func" && m == "Exported" && len(args) == 0:
		return v + ".exported", "bool"
	case k == "func" && m == "Name" && len(args) == 0:
		return v + ".name", "str"
	case k == "field" && m == "Embedded" && len(args) == 0:
		return v + ".embedded", "bool"
	case k == "set" && m == "Has" && len(args) == 1:
		if a, ka := t.expr(ind, args[0], hoist); ka == "str" {
			t.needHoist(c, hoist)
			r := t.fresh("c")
			t.line(ind, "let "+r+" ← Generated.GoSet.Set.Has "+v+" ["+a+"]")
			return r, "bool"
		}
	}
	t.bad(c, "call")
	return "", ""
}

// setAdd: `X.Add(e)` where X is a set variable or `result.ambiguous`
func (t *it) setAdd(ind int, c *ast.CallExpr) bool {
	recv, m, args, ok := selCall(c)
	if !ok || m != "Add" || len(args) != 1 {
		return false
	}
	if v, k := t.kindOfVar(recv); k == "set" {
		a, ka := t.expr(ind, args[0], true)
		if ka != "str" {
			return false
		}
		r := t.fresh("r")
		t.line(ind, "let "+r+" ← Generated.GoSet.Set.Add "+name(v)+" ["+a+"]")
		t.line(ind, name(v)+" := "+r+".1")
		return true
	}
	if sel, ok := recv.(*ast.SelectorExpr); ok && sel.Sel.Name == "ambiguous" {
		if v, k := t.kindOfVar(sel.X); k == "iface" {
			a, ka := t.expr(ind, args[0], true)
			if ka != "str" {
				return false
			}
			r := t.fresh("r")
			t.line(ind, "let "+r+" ← Generated.GoSet.Set.Add "+name(v)+".ambiguous ["+a+"]")
			t.line(ind, name(v)+" := { "+name(v)+" with ambiguous := "+r+".1 }")
			return true
		}
	}
	return false
}

// fields of the two structs the function writes (checked against the declarations)
var ifaceFieldKinds = map[string]string{"IsInterface": "bool", "Comments": "comments", "Name": "str", "TypeRef": "typeref", "Methods": "methods", "ambiguous": "set"}
var ifaceFieldOrder = []string{"IsInterface", "Comments", "Name", "TypeRef", "Methods", "ambiguous"}
var methodFieldKinds = map[string]string{"Name": "str", "Comments": "comments", "IsExported": "bool"}

func (t *it) block(ind int, list []ast.Stmt) {
	if len(list) == 0 {
		t.line(ind, "pure ()")
		return
	}
	t.push()
	for i := 0; i < len(list); i++ {
		// `x, ok := E.(*types.Struct)` followed by `if !ok { return … }`
		if as, ok := list[i].(*ast.AssignStmt); ok && i+1 < len(list) && t.assertThenReturn(ind, as, list[i+1]) {
			i++
			continue
		}
		t.stmt(ind, list[i])
	}
	t.pop()
}

func (t *it) underlyingOf(e ast.Expr) (string, bool) {
	r, m, a, ok := selCall(e)
	if !ok || m != "Underlying" || len(a) != 0 {
		return "", false
	}
	v, k := t.kindOfVar(r)
	if k != "named" {
		return "", false
	}
	return "(g " + name(v) + ").underlying", true
}

func (t *it) assertThenReturn(ind int, as *ast.AssignStmt, next ast.Stmt) bool {
	if as.Tok != token.DEFINE || len(as.Lhs) != 2 || len(as.Rhs) != 1 {
		return false
	}
	ta, ok := as.Rhs[0].(*ast.TypeAssertExpr)
	if !ok || ta.Type == nil || src(ta.Type) != "*types.Struct" {
		return false
	}
	u, ok := t.underlyingOf(ta.X)
	if !ok {
		return false
	}
	x, okv := as.Lhs[0].(*ast.Ident), as.Lhs[1].(*ast.Ident)
	ifs, ok := next.(*ast.IfStmt)
	if !ok || ifs.Init != nil || ifs.Else != nil || src(ifs.Cond) != "!"+okv.Name || len(ifs.Body.List) != 1 {
		return false
	}
	ret, ok := ifs.Body.List[0].(*ast.ReturnStmt)
	if !ok {
		return false
	}
	if t.mut[x.Name] || t.mut[okv.Name] {
		t.bad(as, "assignment to the result of a type assertion after")
	}
	t.line(ind, "let Under.struct "+name(x.Name)+" := "+u+" | "+t.retVal(ret))
	t.bind(as, x.Name, "struct")
	t.bind(as, okv.Name, "dead") // true from here on; any use fails
	return true
}

func (t *it) retVal(x *ast.ReturnStmt) string {
	if len(x.Results) == 1 {
		if v, k := t.kindOfVar(x.Results[0]); k == "iface" {
			return "return (ih, " + name(v) + ")"
		}
	}
	t.bad(x, "return")
	return ""
}

func (t *it) stmt(ind int, s ast.Stmt) {
	switch x := s.(type) {
	case *ast.ReturnStmt:
		t.line(ind, t.retVal(x))
		return
	case *ast.BranchStmt:
		if x.Tok == token.CONTINUE && x.Label == nil {
			t.line(ind, "continue")
			return
		}
	case *ast.DeclStmt:
		gd, ok := x.Decl.(*ast.GenDecl)
		if !ok || gd.Tok != token.VAR || len(gd.Specs) != 1 {
			break
		}
		vs := gd.Specs[0].(*ast.ValueSpec)
		if len(vs.Names) != 1 {
			break
		}
		v := vs.Names[0].Name
		switch {
		case src(vs.Type) == "hasMethods" && len(vs.Values) == 1:
			// a *types.Named as hasMethods: its declared methods
			if w, k := t.kindOfVar(vs.Values[0]); k == "named" {
				t.line(ind, t.letKw(v)+name(v)+" : List (Func σ) := (g "+name(w)+").methods")
				t.bind(x, v, "hasMethods")
				return
			}
		case src(vs.Type) == "*Interface" && len(vs.Values) == 0:
			t.line(ind, t.letKw(v)+name(v)+" : Option (Interface τ κ ρ) := none")
			t.bind(x, v, "ifaceOpt")
			return
		}
	case *ast.ExprStmt:
		c, ok := x.X.(*ast.CallExpr)
		if !ok {
			break
		}
		if t.setAdd(ind, c) {
			return
		}
		if id, ok := c.Fun.(*ast.Ident); ok && id.Name == "delete" && len(c.Args) == 2 {
			if v, k := t.kindOfVar(c.Args[0]); k == "kv" {
				if a, ka := t.expr(ind, c.Args[1], true); ka == "str" {
					t.line(ind, name(v)+" := Go.kvDelete "+name(v)+" "+a)
					return
				}
			}
		}
	case *ast.AssignStmt:
		t.assign(ind, x)
		return
	case *ast.IfStmt:
		t.ifStmt(ind, x)
		return
	case *ast.ForStmt:
		t.forStmt(ind, x)
		return
	case *ast.RangeStmt:
		t.rangeStmt(ind, x)
		return
	case *ast.TypeSwitchStmt:
		t.typeSwitch(ind, x)
		return
	}
	t.bad(s, "statement")
}

func (t *it) assign(ind int, x *ast.AssignStmt) {
	// `pkg, hasPkg := pkgs.findPKgByName(path)`
	if x.Tok == token.DEFINE && len(x.Lhs) == 2 && len(x.Rhs) == 1 {
		if r, m, a, ok := selCall(x.Rhs[0]); ok && src(r) == t.recv && m == "findPKgByName" && len(a) == 1 {
			p, k := t.expr(ind, a[0], true)
			a0, a1 := x.Lhs[0].(*ast.Ident), x.Lhs[1].(*ast.Ident)
			if k == "str" && !t.mut[a0.Name] && !t.mut[a1.Name] {
				r := t.fresh("p")
				t.line(ind, "let "+r+" := env.findPKgByName "+p)
				t.line(ind, "let "+name(a0.Name)+" := "+r+".1")
				t.line(ind, "let "+name(a1.Name)+" := "+r+".2")
				t.bind(x, a0.Name, "pkg")
				t.bind(x, a1.Name, "bool")
				return
			}
		}
	}
	if len(x.Lhs) != 1 || len(x.Rhs) != 1 {
		t.bad(x, "assignment")
	}
	lhs, rhs := x.Lhs[0], x.Rhs[0]
	if x.Tok == token.DEFINE {
		id := lhs.(*ast.Ident)
		// `result := &Interface{…}`
		if u, ok := rhs.(*ast.UnaryExpr); ok && u.Op == token.AND {
			if cl, ok := u.X.(*ast.CompositeLit); ok && src(cl.Type) == "Interface" {
				given := map[string]bool{}
				var fs []string
				for _, el := range cl.Elts {
					kv, ok := el.(*ast.KeyValueExpr)
					if !ok {
						t.bad(el, "composite literal element")
					}
					f := src(kv.Key)
					v, k := t.expr(ind, kv.Value, true)
					if ifaceFieldKinds[f] == "" || given[f] || (k != ifaceFieldKinds[f]) {
						t.bad(el, "composite literal element")
					}
					given[f] = true
					fs = append(fs, f+" := "+v)
				}
				for _, f := range ifaceFieldOrder {
					if !given[f] {
						fs = append(fs, f+" := default")
					}
				}
				t.line(ind, t.letKw(id.Name)+name(id.Name)+" : Interface τ κ ρ := { "+strings.Join(fs, ", ")+" }")
				t.bind(x, id.Name, "iface")
				return
			}
		}
		// `mInfo := methodz.Method(i)` / `field := s.Field(i)` are handled by forStmt
		v, k := t.expr(ind, rhs, true)
		ty, ok := ifLeanType[k]
		if !ok || k == "bool" {
			t.bad(x, "declaration")
		}
		t.line(ind, t.letKw(id.Name)+name(id.Name)+" : "+ty+" := "+v)
		t.bind(x, id.Name, k)
		return
	}
	if x.Tok != token.ASSIGN {
		t.bad(x, "assignment")
	}
	switch l := lhs.(type) {
	case *ast.Ident:
		lk, ok := t.lookup(l.Name)
		if !ok {
			t.bad(x, "assignment")
		}
		v, k := t.expr(ind, rhs, true)
		switch {
		case lk == "hasMethods" && k == "hasMethods":
			t.line(ind, name(l.Name)+" := "+v)
		case lk == "ifaceOpt" && k == "iface":
			t.line(ind, name(l.Name)+" := some "+v)
		default:
			t.bad(x, "assignment")
		}
		return
	case *ast.SelectorExpr:
		v, k := t.kindOfVar(l.X)
		f := l.Sel.Name
		// `result.Methods = append(result.Methods, m)`
		if c, ok := rhs.(*ast.CallExpr); ok && k == "iface" && f == "Methods" {
			if id, ok := c.Fun.(*ast.Ident); ok && id.Name == "append" && len(c.Args) == 2 && !c.Ellipsis.IsValid() && src(c.Args[0]) == src(lhs) {
				if m, km := t.expr(ind, c.Args[1], true); km == "method" {
					t.line(ind, name(v)+" := { "+name(v)+" with Methods := "+name(v)+".Methods ++ ["+m+"] }")
					return
				}
			}
			t.bad(x, "assignment")
		}
		var want string
		switch k {
		case "iface":
			want = ifaceFieldKinds[f]
		case "method":
			want = methodFieldKinds[f]
		}
		r, kr := t.expr(ind, rhs, true)
		if want == "" || kr != want || want == "methods" || want == "set" {
			t.bad(x, "assignment")
		}
		t.line(ind, name(v)+" := { "+name(v)+" with "+f+" := "+r+" }")
		return
	case *ast.IndexExpr:
		// `methodsToAdd[m.Name] = m`
		if v, k := t.kindOfVar(l.X); k == "kv" {
			key, kk := t.expr(ind, l.Index, true)
			val, kv := t.expr(ind, rhs, true)
			if kk == "str" && kv == "method" {
				t.line(ind, name(v)+" := Go.kvSet "+name(v)+" "+key+" "+val)
				return
			}
		}
	}
	t.bad(x, "assignment")
}

func (t *it) ifStmt(ind int, x *ast.IfStmt) {
	if x.Init != nil {
		as, ok := x.Init.(*ast.AssignStmt)
		if !ok || as.Tok != token.DEFINE || len(as.Lhs) != 2 || len(as.Rhs) != 1 || src(x.Cond) != src(as.Lhs[1]) {
			t.bad(x, "if statement")
		}
		// `if _, ok := m[k]; ok { A } else { B }`
		if ix, ok := as.Rhs[0].(*ast.IndexExpr); ok && src(as.Lhs[0]) == "_" {
			if v, k := t.kindOfVar(ix.X); k == "kv" {
				if key, kk := t.expr(ind, ix.Index, true); kk == "str" {
					t.line(ind, "if (Go.kvHas "+name(v)+" "+key+") then")
					t.block(ind+1, x.Body.List)
					t.elseOf(ind, x)
					return
				}
			}
		}
		// `if y, ok := E.(*types.T); ok { A }` (no else)
		if ta, ok := as.Rhs[0].(*ast.TypeAssertExpr); ok && ta.Type != nil && x.Else == nil {
			y := as.Lhs[0].(*ast.Ident)
			var scrut, pat, kind string
			switch src(ta.Type) {
			case "*types.Interface":
				if u, ok := t.underlyingOf(ta.X); ok {
					scrut, pat, kind = u, "Under.iface "+name(y.Name), "hasMethods"
				}
			case "*types.Named":
				// `v.Elem()` of the pointer case of the type switch
				if r, m, a, ok := selCall(ta.X); ok && m == "Elem" && len(a) == 0 {
					if v, k := t.kindOfVar(r); k == "pointer" {
						scrut, pat, kind = name(v)+"_Elem", "Elem.named "+name(y.Name), "named"
					}
				}
			}
			if scrut != "" && !t.mut[y.Name] {
				t.line(ind, "match "+scrut+" with")
				t.line(ind, "| "+pat+" =>")
				t.push()
				t.bind(x, y.Name, kind)
				t.block(ind+1, x.Body.List)
				t.pop()
				t.line(ind, "| _ => pure ()")
				return
			}
		}
		t.bad(x, "if statement")
	}
	c, k := t.expr(ind, x.Cond, true)
	if k != "bool" {
		t.bad(x.Cond, "condition")
	}
	t.line(ind, "if "+c+" then")
	t.block(ind+1, x.Body.List)
	t.elseOf(ind, x)
}

func (t *it) elseOf(ind int, x *ast.IfStmt) {
	switch e := x.Else.(type) {
	case nil:
	case *ast.BlockStmt:
		t.line(ind, "else")
		t.block(ind+1, e.List)
	default:
		t.bad(x, "else branch of")
	}
}

// `for i := 0; i < X.N(); i++ { v := X.At(i); … }` over the methods of a hasMethods / the fields of a struct
func (t *it) forStmt(ind int, x *ast.ForStmt) {
	init, ok1 := x.Init.(*ast.AssignStmt)
	cond, ok2 := x.Cond.(*ast.BinaryExpr)
	post, ok3 := x.Post.(*ast.IncDecStmt)
	if !ok1 || !ok2 || !ok3 || init.Tok != token.DEFINE || len(init.Lhs) != 1 || src(init.Rhs[0]) != "0" ||
		cond.Op != token.LSS || src(cond.X) != src(init.Lhs[0]) || post.Tok != token.INC || src(post.X) != src(init.Lhs[0]) ||
		len(x.Body.List) == 0 {
		t.bad(x, "for statement")
	}
	i := src(init.Lhs[0])
	recv, m, a, ok := selCall(cond.Y)
	first, okf := x.Body.List[0].(*ast.AssignStmt)
	if !ok || len(a) != 0 || !okf || first.Tok != token.DEFINE || len(first.Lhs) != 1 {
		t.bad(x, "for statement")
	}
	coll, k := t.kindOfVar(recv)
	get := map[string]string{"hasMethods.NumMethods": "Method", "struct.NumFields": "Field"}[k+"."+m]
	elemKind := map[string]string{"Method": "func", "Field": "field"}[get]
	r2, m2, a2, ok := selCall(first.Rhs[0])
	el := src(first.Lhs[0])
	if get == "" || !ok || src(r2) != coll || m2 != get || len(a2) != 1 || src(a2[0]) != i || assignsIn(x.Body, coll) || t.mut[el] || assignsIn(x.Body, i) {
		t.bad(x, "for statement")
	}
	t.line(ind, "for "+name(i)+" in List.range' 0 ((List.length "+name(coll)+") - 0) do")
	t.push()
	t.line(ind+1, "let "+name(el)+" ← Go.listGet "+name(coll)+" "+name(i))
	t.bind(x, el, elemKind)
	t.loopVar[i] = true
	t.block(ind+1, x.Body.List[1:])
	delete(t.loopVar, i)
	t.pop()
}

func (t *it) rangeStmt(ind int, x *ast.RangeStmt) {
	if x.Tok != token.DEFINE {
		t.bad(x, "range statement")
	}
	coll, k := t.expr(ind, x.X, true)
	var v, over, kind string
	switch {
	case k == "methods" && src(x.Key) == "_" && x.Value != nil: // for _, m := range <[]*Method>
		v, over, kind = src(x.Value), coll, "method"
	case k == "kv" && src(x.Key) == "_" && x.Value != nil: // for _, m := range <map[string]*Method>
		v, over, kind = src(x.Value), "Go.kvValues "+coll, "method"
	case k == "set" && x.Value == nil: // for name := range <set.Set[string]>
		v, over, kind = src(x.Key), "Go.mapKeys "+coll, "str"
	default:
		t.bad(x, "range statement")
	}
	if t.mut[v] {
		t.bad(x, "assignment to the variable of the range statement")
	}
	// the collection ranged over must not be written in the body (it may be a field of a variable that is)
	base := x.X
	for {
		if sel, ok := base.(*ast.SelectorExpr); ok {
			base = sel.X
			continue
		}
		break
	}
	if id, ok := base.(*ast.Ident); !ok || assignsIn(x.Body, id.Name) {
		t.bad(x, "write to the ranged collection in")
	}
	t.line(ind, "for "+name(v)+" in "+over+" do")
	t.push()
	t.bind(x, v, kind)
	t.block(ind+1, x.Body.List)
	t.pop()
}

// `switch v := field.Type().(type) { case *types.Pointer: … case *types.Named: … default: … }`
func (t *it) typeSwitch(ind int, x *ast.TypeSwitchStmt) {
	as, ok := x.Assign.(*ast.AssignStmt)
	if x.Init != nil || !ok || as.Tok != token.DEFINE || len(as.Lhs) != 1 || len(as.Rhs) != 1 {
		t.bad(x, "type switch")
	}
	ta, ok := as.Rhs[0].(*ast.TypeAssertExpr)
	if !ok || ta.Type != nil {
		t.bad(x, "type switch")
	}
	r, m, a, ok := selCall(ta.X)
	fv, fk := t.kindOfVar(r)
	if !ok || m != "Type" || len(a) != 0 || fk != "field" {
		t.bad(x, "type switch")
	}
	v := src(as.Lhs[0])
	if t.mut[v] {
		t.bad(x, "assignment to the variable of the type switch")
	}
	t.line(ind, "match "+name(fv)+".typ with")
	seen := map[string]bool{}
	hasDefault := false
	for _, cc := range x.Body.List {
		c := cc.(*ast.CaseClause)
		if hasDefault {
			t.bad(c, "case after default")
		}
		t.push()
		switch {
		case c.List == nil:
			hasDefault = true
			t.line(ind, "| _ =>")
		case len(c.List) == 1 && src(c.List[0]) == "*types.Pointer" && !seen["p"]:
			seen["p"] = true
			t.line(ind, "| FType.pointer "+name(v)+"_Elem =>")
			t.bind(c, v, "pointer")
		case len(c.List) == 1 && src(c.List[0]) == "*types.Named" && !seen["n"]:
			seen["n"] = true
			t.line(ind, "| FType.named "+name(v)+" =>")
			t.bind(c, v, "named")
		default:
			t.bad(c, "case")
		}
		t.block(ind+1, c.Body)
		t.pop()
	}
	if !hasDefault {
		t.line(ind, "| _ => pure ()")
	}
}

// assignsIn: v is assigned / written through in the block
func assignsIn(b ast.Node, v string) bool {
	return writtenVars(b)[v]
}

// writtenVars: variables assigned (`x = …`, `x.f = …`, `x[k] = …`, `x.Add(…)`, `x.f.Add(…)`, `delete(x, …)`) anywhere below n
func writtenVars(n ast.Node) map[string]bool {
	w := map[string]bool{}
	base := func(e ast.Expr) {
		for {
			switch y := e.(type) {
			case *ast.SelectorExpr:
				e = y.X
				continue
			case *ast.IndexExpr:
				e = y.X
				continue
			case *ast.Ident:
				w[y.Name] = true
			}
			return
		}
	}
	ast.Inspect(n, func(n ast.Node) bool {
		switch y := n.(type) {
		case *ast.AssignStmt:
			if y.Tok != token.DEFINE {
				for _, l := range y.Lhs {
					base(l)
				}
			}
		case *ast.IncDecStmt:
			if _, ok := y.X.(*ast.Ident); !ok {
				base(y.X)
			}
		case *ast.CallExpr:
			if r, m, _, ok := selCall(y); ok && m == "Add" {
				base(r)
			}
			if id, ok := y.Fun.(*ast.Ident); ok && id.Name == "delete" && len(y.Args) > 0 {
				base(y.Args[0])
			}
		case *ast.UnaryExpr:
			if y.Op == token.AND {
				if _, ok := y.X.(*ast.CompositeLit); !ok {
					base(y.X) // address taken: treated as written
				}
			}
		}
		return true
	})
	return w
}

func structFields(f *ast.File, typ string) []string {
	var r []string
	for _, d := range f.Decls {
		gd, ok := d.(*ast.GenDecl)
		if !ok || gd.Tok != token.TYPE {
			continue
		}
		for _, sp := range gd.Specs {
			ts := sp.(*ast.TypeSpec)
			st, ok := ts.Type.(*ast.StructType)
			if ts.Name.Name != typ || !ok {
				continue
			}
			for _, fl := range st.Fields.List {
				for _, n := range fl.Names {
					r = append(r, n.Name+" "+src(fl.Type))
				}
				if len(fl.Names) == 0 {
					r = append(r, "(embedded) "+src(fl.Type))
				}
			}
		}
	}
	return r
}

func runGencommonIface(repo, out string) {
	parse := func(rel string) *ast.File {
		f, err := parser.ParseFile(fset, filepath.Join(repo, rel), nil, 0)
		if err != nil {
			fail("%v", err)
		}
		return f
	}
	file := parse("gencommon/interface.go")
	mfile := parse("gencommon/method.go")

	// the declarations the translation relies on
	check := func(what string, got, want []string) {
		if strings.Join(got, "; ") != strings.Join(want, "; ") {
			fail("gencommoniface: %s is {%s}, the translation assumes {%s}", what, strings.Join(got, "; "), strings.Join(want, "; "))
		}
	}
	check("struct Interface", structFields(file, "Interface"),
		[]string{"IsInterface bool", "Comments Comments", "Name string", "TypeRef string", "Methods Methods", "ambiguous set.Set[string]"})
	check("struct Method", structFields(mfile, "Method"),
		[]string{"Name string", "Comments Comments", "Input Params", "Output Params", "IsExported bool"})
	var flags []string
	var hasMethodsDecl string
	for _, d := range file.Decls {
		gd, ok := d.(*ast.GenDecl)
		if !ok {
			continue
		}
		if gd.Tok == token.CONST {
			for i, sp := range gd.Specs {
				vs := sp.(*ast.ValueSpec)
				if len(vs.Names) != 1 {
					fail("gencommoniface: %s: constant declaration `%s` is outside the translated fragment", at(vs), src(vs))
				}
				if i == 0 && (src(vs.Type) != "ParseIFaceOption" || len(vs.Values) != 1 || src(vs.Values[0]) != "1 << iota") {
					fail("gencommoniface: %s: the option constants are not `ParseIFaceOption = 1 << iota`: `%s`", at(vs), src(vs))
				}
				if i > 0 && (vs.Type != nil || len(vs.Values) != 0) {
					fail("gencommoniface: %s: constant `%s` does not repeat `1 << iota`", at(vs), src(vs))
				}
				flags = append(flags, fmt.Sprintf("def %s : Go.U64 := 1 <<< %d", vs.Names[0].Name, i))
			}
		}
		if gd.Tok == token.TYPE {
			for _, sp := range gd.Specs {
				ts := sp.(*ast.TypeSpec)
				switch ts.Name.Name {
				case "hasMethods":
					hasMethodsDecl = src(ts.Type)
				case "ParseIFaceOption":
					if src(ts.Type) != "uint" {
						fail("gencommoniface: ParseIFaceOption is `%s`, the translation assumes an unsigned integer type `uint`", src(ts.Type))
					}
				}
			}
		}
	}
	if hasMethodsDecl != "interface { NumMethods() int Method(i int) *types.Func }" {
		fail("gencommoniface: hasMethods is `%s`, the translation assumes NumMethods() / Method(i)", hasMethodsDecl)
	}
	if strings.Join(flags, "\n") != "def IncludePrivate : Go.U64 := 1 <<< 0\ndef IncludeEmbedded : Go.U64 := 1 <<< 1" {
		fail("gencommoniface: the option constants are not IncludePrivate, IncludeEmbedded = 1 << iota: %v", flags)
	}

	var fd *ast.FuncDecl
	for _, d := range file.Decls {
		if f, ok := d.(*ast.FuncDecl); ok && f.Name.Name == "namedTypeToInterface" && f.Recv != nil {
			fd = f
		}
	}
	if fd == nil || fd.Body == nil {
		fail("gencommoniface: method namedTypeToInterface not found in gencommon/interface.go")
	}
	flds := func(fl *ast.FieldList) string {
		var r []string
		if fl != nil {
			for _, f := range fl.List {
				if len(f.Names) == 0 {
					r = append(r, src(f.Type))
				}
				for _, n := range f.Names {
					r = append(r, n.Name+" "+src(f.Type))
				}
			}
		}
		return strings.Join(r, ", ")
	}
	sig := "func (" + flds(fd.Recv) + ") namedTypeToInterface(" + flds(fd.Type.Params) + ") " + flds(fd.Type.Results)
	if want := "func (pkgs allpkgs) namedTypeToInterface(ih *ImportHandler, t *types.Named, opts set.BitSet[ParseIFaceOption]) *Interface"; sig != want || fd.Type.TypeParams != nil {
		fail("gencommoniface: the signature is `%s`, the translation assumes `%s`", sig, want)
	}
	t := &it{mut: writtenVars(fd.Body), recv: "pkgs", loopVar: map[string]bool{}}
	for _, p := range []string{"ih", "t", "opts", "pkgs"} {
		if t.mut[p] {
			fail("gencommoniface: parameter %s is assigned in namedTypeToInterface", p)
		}
	}
	t.push()
	t.env[0]["t"] = "named"
	t.line(2, "let mut ih := ih")
	n := len(fd.Body.List)
	if n == 0 || !endsInReturn(fd.Body.List[n-1]) {
		fail("gencommoniface: namedTypeToInterface can fall off its end")
	}
	t.push()
	for i := 0; i < n; i++ {
		if as, ok := fd.Body.List[i].(*ast.AssignStmt); ok && i+1 < n && t.assertThenReturn(2, as, fd.Body.List[i+1]) {
			i++
			continue
		}
		t.stmt(2, fd.Body.List[i])
	}

	var b strings.Builder
	b.WriteString(`import Model.GoKV
import Generated.GoSet
import Generated.GoBitSet
/-! REGENERATED on every run by harness/cmd/go2lean -spec gencommoniface from gencommon/interface.go
(namedTypeToInterface; the structs Interface and Method (gencommon/method.go), the option constants and the
interface hasMethods are checked against what the translation assumes).  Do not edit.  One Lean statement per
Go statement.

* go/types is a TYPE GRAPH handed in as data: a ` + "`*types.Named`" + ` is a number ` + "`t`" + `, ` + "`g t`" + ` answers
  ` + "`Obj().Name()`, `Obj().Pkg().Path()`, `NumMethods()/Method(i)`, `Underlying()`" + `; a ` + "`hasMethods`" + ` value is the
  list of its methods; ` + "`s.NumFields()/s.Field(i)`" + ` are the list of fields; ` + "`x.(*types.T)`" + ` is a match on the
  constructor.  ` + "`mInfo.Type().(*types.Signature)`" + ` is ` + "`mInfo.sig`" + ` (the type of a *types.Func is a signature).
* Recursion goes through a FUEL argument (out of fuel is a panic of ` + "`Go.M`" + `); the theorems hold for every fuel
  above the height of the embedding tree.
* ` + "`*Interface`, `*Method`" + ` are values (fresh pointers, not shared while written); a ` + "`*Interface`" + ` variable that may
  be nil is an ` + "`Option`" + `, reading through it is ` + "`Go.deref`" + ` (nil dereference = panic).  ` + "`Method.rest`" + ` stands for
  the fields the function does not touch (Input, Output).
* Parameters (` + "`Env`" + `): pkgs.findPKgByName, ih.ExtractTypeRef and MethodFromSignature (they thread the import
  handler state ` + "`ih`" + `, returned next to the result), CommentsFromObj, CommentsFromMethod.
  ` + "`set.Set[string]`" + ` methods are the translated ones of Generated/GoSet.lean, ` + "`opts.Has`" + ` that of
  Generated/GoBitSet.lean; ` + "`map[string]*Method`" + ` is a ` + "`Go.KV`" + ` (walk order = insertion order, see Model/GoKV.lean). -/
namespace Generated.GoGencommonIface

/-- ` + "`*types.Func`" + `: Name(), Exported(), Type().(*types.Signature) -/
structure Func (σ : Type) where
  name : Go.Str
  exported : Bool
  sig : σ
  deriving Inhabited

/-- ` + "`v.Elem()`" + ` of a ` + "`*types.Pointer`" + `: a ` + "`*types.Named`" + ` or anything else -/
inductive Elem where
  | named (id : Nat)
  | other
  deriving Inhabited

/-- ` + "`field.Type()`" + ` -/
inductive FType where
  | pointer (elem : Elem)
  | named (id : Nat)
  | other
  deriving Inhabited

/-- ` + "`*types.Var`" + ` of a struct field: Embedded(), Type() -/
structure Field where
  embedded : Bool
  typ : FType
  deriving Inhabited

/-- ` + "`t.Underlying()`" + ` -/
inductive Under (σ : Type) where
  | struct (fields : List Field)
  | iface (methods : List (Func σ))
  | other
  deriving Inhabited

/-- ` + "`*types.Named`" + ` -/
structure Named (σ : Type) where
  name : Go.Str
  pkgPath : Go.Str
  methods : List (Func σ)
  underlying : Under σ
  deriving Inhabited

abbrev Graph (σ : Type) := Nat → Named σ

/-- ` + "`Method`" + ` (gencommon/method.go): the fields namedTypeToInterface writes, ` + "`rest`" + ` = Input, Output -/
structure Method (τ κ : Type) where
  Name : Go.Str
  Comments : κ
  IsExported : Bool
  rest : τ
  deriving Inhabited

/-- ` + "`Interface`" + ` -/
structure Interface (τ κ ρ : Type) where
  IsInterface : Bool
  Comments : κ
  Name : Go.Str
  TypeRef : ρ
  Methods : List (Method τ κ)
  ambiguous : Go.GMap Go.Str
  deriving Inhabited

/-- the external functions -/
structure Env (S σ τ κ ρ π : Type) where
  findPKgByName : Go.Str → π × Bool
  extractTypeRef : S → Nat → S × ρ
  methodFromSignature : S → σ → S × Method τ κ
  commentsFromObj : π → Go.Str → κ
  commentsFromMethod : π → Go.Str → Go.Str → κ

`)
	b.WriteString(strings.Join(flags, "\n") + "\n\n")
	b.WriteString("variable {S σ τ κ ρ π : Type} [Inhabited σ] [Inhabited κ]\n\n")
	fmt.Fprintf(&b, "/-- `%s` -/\n", sig)
	b.WriteString("def namedTypeToInterface (env : Env S σ τ κ ρ π) (g : Graph σ) :\n    Nat → S → Nat → Go.U64 → Go.M (S × Interface τ κ ρ)\n")
	b.WriteString("  | 0, _, _, _ => throw \"out of fuel\"\n  | fuel + 1, ih, t, opts => do\n")
	b.WriteString(t.out.String())
	b.WriteString("\n/-- the translated functions -/\ndef translated : List String := [\"allpkgs.namedTypeToInterface\"]\n\nend Generated.GoGencommonIface\n")
	if err := os.WriteFile(out, []byte(b.String()), 0o644); err != nil {
		fail("%v", err)
	}
	fmt.Printf("go2lean gencommoniface: namedTypeToInterface of gencommon/interface.go -> %s\n", out)
}

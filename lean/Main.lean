import Driver.Util
import Driver.BitSet
/-! Line-protocol driver: one request per line on stdin, one answer per line on stdout.
Core-only so that it links as a native executable. -/
open Drv

structure DState where
  dummy : Nat := 0

def step (st : DState) (line : String) : DState × String :=
  match words line with
  | "bs" :: rest => (st, BitSet.handle rest)
  | "echo" :: rest => (st, joinSp rest)
  | _ => (st, "bad-op")

partial def loop (hin hout : IO.FS.Stream) (st : DState) : IO Unit := do
  let line ← hin.getLine
  if line.isEmpty then return ()
  let (st', out) := step st (line.dropRightWhile (fun c => c == '\n' || c == '\r'))
  hout.putStrLn out
  loop hin hout st'

def main : IO Unit := do
  let hin ← IO.getStdin
  let hout ← IO.getStdout
  loop hin hout {}
  hout.flush

import Model.Gogenproto
/-!
# C20 — gogenproto: protoc gets exactly the in-scope protos, includes, mappings
-/
namespace Gogenproto

/-- `--go_out=.` is always requested; vtproto and grpc exactly when their flags are set. -/
theorem plugins_iff_flags (pkgOf : Path → String) (cfg : Config) (cs : List Tree) (incs : List Root)
    (pl : Plugin) : Arg.out pl ∈ run pkgOf cfg cs incs ↔ cfg.requested pl = true := by
  cases pl <;> simp [run, runRaw, fixedArgs, rootArgs, mappingArgs, Config.requested] <;>
    (try (intro x _ y _ ; split <;> simp)) <;> (try (cases cfg.vt <;> cases cfg.grpc <;> simp))

end Gogenproto

package main

import (
	"context"
	"fmt"
	"math/rand"
	"sort"
	"strconv"
	"strings"

	rlog "github.com/drshriveer/gtools/log"
	"go.uber.org/zap"
	"go.uber.org/zap/zapcore"
	"go.uber.org/zap/zaptest/observer"

	"verif/harness/internal/hx"
)

// a field token is key:value
func mkFields(toks []string) []zap.Field {
	fs := make([]zap.Field, 0, len(toks))
	for _, t := range toks {
		k, v, _ := strings.Cut(t, ":")
		fs = append(fs, zap.String(k, v))
	}
	return fs
}

func fieldTokens(fs []zapcore.Field) []string {
	out := make([]string, len(fs))
	for i, f := range fs {
		out[i] = f.Key + ":" + f.String
	}
	return out
}

var levelLetters = map[int]string{-1: "D", 0: "I", 1: "W", 2: "E", 3: "P"}

// installGlobal replaces zap's global logger by an observer-backed one.
func installGlobal(lvl int, gf []string) *observer.ObservedLogs {
	core, ob := observer.New(zapcore.Level(lvl))
	l := zap.New(core)
	if len(gf) > 0 {
		l = l.With(mkFields(gf)...)
	}
	zap.ReplaceGlobals(l)
	return ob
}

// probeLogger logs once at every level Debug..max and reports which entries came out and with
// which fields.
func probeLogger(l *zap.Logger, ob *observer.ObservedLogs, max int, sorted bool) (pattern string, fields []string, emitted bool) {
	ob.TakeAll()
	var b strings.Builder
	first := true
	varying := false
	for lvl := -1; lvl <= max; lvl++ {
		l.Log(zapcore.Level(lvl), "p")
		ents := ob.TakeAll()
		switch len(ents) {
		case 0:
			b.WriteString("-")
		case 1:
			if ents[0].Level != zapcore.Level(lvl) {
				b.WriteString("?")
			} else {
				b.WriteString(levelLetters[lvl])
			}
			toks := fieldTokens(ents[0].Context)
			if sorted {
				sort.Strings(toks)
			}
			if first {
				fields, first, emitted = toks, false, true
			} else if strings.Join(toks, " ") != strings.Join(fields, " ") {
				varying = true
			}
		default:
			b.WriteString(strconv.Itoa(len(ents)))
		}
	}
	if varying {
		fields = append(fields, "!fields-vary-between-levels")
	}
	return b.String(), fields, emitted
}

type dkey struct{ n int }

type seqImpl struct {
	ctxs []context.Context
	ob   *observer.ObservedLogs
}

func (s *seqImpl) start(ws []string) string {
	// ws: <variant> <level> <global field>*   (the variant only selects the model's algorithm)
	lvl, err := strconv.Atoi(ws[1])
	if err != nil {
		return "bad-op"
	}
	s.ob = installGlobal(lvl, ws[2:])
	s.ctxs = []context.Context{context.Background()}
	return "ok"
}

func (s *seqImpl) ctx(w string) (context.Context, bool) {
	n, err := strconv.Atoi(w)
	if err != nil || n < 0 {
		return nil, false
	}
	if n >= len(s.ctxs) {
		return nil, false
	}
	return s.ctxs[n], true
}

func (s *seqImpl) push(c context.Context) string {
	s.ctxs = append(s.ctxs, c)
	return fmt.Sprintf("ctx %d", len(s.ctxs)-1)
}

func (s *seqImpl) exec(ws []string) string {
	if s.ctxs == nil {
		return "bad-op"
	}
	switch {
	case len(ws) == 2 && ws[0] == "probeall":
		max, err := strconv.Atoi(ws[1])
		if err != nil || max > 3 {
			return "bad-op"
		}
		parts := make([]string, len(s.ctxs))
		for i, c := range s.ctxs {
			pat, fs, em := probeLogger(rlog.Log(c), s.ob, max, true)
			if em {
				parts[i] = pat + "[" + strings.Join(fs, " ") + "]"
			} else {
				parts[i] = pat
			}
		}
		return strings.Join(parts, " | ")
	case len(ws) >= 2 && (ws[0] == "init" || ws[0] == "child" || ws[0] == "wf"):
		c, ok := s.ctx(ws[1])
		if !ok {
			return "bad-op"
		}
		fs := mkFields(ws[2:])
		switch ws[0] {
		case "init":
			return s.push(rlog.InitLogger(c, fs...))
		case "child":
			return s.push(rlog.ChildLogger(c, fs...))
		default:
			return s.push(rlog.WithFields(c, fs...))
		}
	case len(ws) == 2 && (ws[0] == "derive" || ws[0] == "dbg"):
		c, ok := s.ctx(ws[1])
		if !ok {
			return "bad-op"
		}
		if ws[0] == "derive" {
			return s.push(context.WithValue(c, dkey{len(s.ctxs)}, len(s.ctxs)))
		}
		return s.push(rlog.EnableDebug(c))
	case len(ws) == 3 && ws[0] == "sl":
		c, ok := s.ctx(ws[1])
		l, err := strconv.Atoi(ws[2])
		if !ok || err != nil {
			return "bad-op"
		}
		return s.push(rlog.SetLevel(c, zapcore.Level(l)))
	}
	return "bad-op"
}

// ---- generator ----

var fieldKeys = []string{"a", "b", "c", "d", "e", "f"}

func genFields(rng *rand.Rand) []string {
	n := []int{0, 1, 1, 1, 2, 2, 3}[rng.Intn(7)]
	fs := make([]string, n)
	for i := range fs {
		fs[i] = fmt.Sprintf("%s:%d", fieldKeys[rng.Intn(len(fieldKeys))], rng.Intn(4))
	}
	return fs
}

func join(ws ...string) string { return strings.Join(ws, " ") }

// genSeqCase follows the quantifier: up to 25 calls over a growing set of contexts, random field
// names, levels Debug..Error, every context probed at every level after every step.  domain=false
// draws levels outside Debug..Error as well (drift only).
func genSeqCase(rng *rand.Rand, domain bool) hx.Case {
	glvl := rng.Intn(4) - 1
	start := []string{"lg", "start", "seq", "cur", strconv.Itoa(glvl)}
	if rng.Intn(3) == 0 {
		start = append(start, fmt.Sprintf("g:%d", rng.Intn(3)))
	}
	lines := []string{"case lg seq", join(start...)}
	nctx := 1
	n := 1 + rng.Intn(25)
	probe := "lg probeall 2"
	if !domain {
		probe = "lg probeall 3"
	}
	hasWF, hasLvl, hasNew := false, false, false
	probeMode := rng.Intn(3)
	for i := 0; i < n; i++ {
		// prefer recent contexts, but reach all of them
		c := rng.Intn(nctx)
		if rng.Intn(2) == 0 && nctx > 1 {
			c = nctx - 1 - rng.Intn(min(3, nctx))
		}
		cs := strconv.Itoa(c)
		lvl := rng.Intn(4) - 1
		if !domain && rng.Intn(2) == 0 {
			lvl = []int{-2, 3, 4, 5, -3}[rng.Intn(5)]
		}
		switch x := rng.Intn(20); {
		case x < 2:
			lines = append(lines, join(append([]string{"lg", "init", cs}, genFields(rng)...)...))
			hasNew = true
		case x < 6:
			lines = append(lines, join(append([]string{"lg", "child", cs}, genFields(rng)...)...))
			hasNew = true
		case x < 8:
			lines = append(lines, join("lg", "derive", cs))
		case x < 14:
			lines = append(lines, join(append([]string{"lg", "wf", cs}, genFields(rng)...)...))
			hasWF = true
		case x < 18:
			lines = append(lines, join("lg", "sl", cs, strconv.Itoa(lvl)))
			hasLvl = true
		default:
			lines = append(lines, join("lg", "dbg", cs))
			hasLvl = true
		}
		nctx++
		// observation points: after every step, only at the end, or sparsely.  A logger that
		// materialises pending state when it emits an entry behaves differently when nothing is
		// logged between two calls, so the probes must not always sit between them.
		switch probeMode {
		case 0:
			lines = append(lines, probe)
		case 2:
			if rng.Intn(4) == 0 {
				lines = append(lines, probe)
			}
		}
	}
	if probeMode != 0 && lines[len(lines)-1] != probe {
		lines = append(lines, probe)
	}
	tags := []string{"seq"}
	if !domain {
		tags = []string{"seq-drift"}
	}
	return hx.Case{Lines: lines, Domain: domain, Nontrivial: hasWF && hasLvl && hasNew, Tags: tags}
}

// shapedSeqCases: one short case per branch of the mirror (so that branch coverage does not depend
// on the random stream).
func shapedSeqCases() []hx.Case {
	mk := func(tag string, ops ...string) hx.Case {
		lines := []string{"case lg seq", "lg start seq cur 1 g:0"}
		for _, o := range ops {
			lines = append(lines, "lg "+o, "lg probeall 2")
		}
		return hx.Case{Lines: lines, Domain: true, Nontrivial: true, Tags: []string{"seq-shaped", tag}}
	}
	// the same shapes observed only at the end (nothing is logged between the calls)
	mkEnd := func(tag string, ops ...string) hx.Case {
		lines := []string{"case lg seq", "lg start seq cur 1 g:0"}
		for _, o := range ops {
			lines = append(lines, "lg "+o)
		}
		lines = append(lines, "lg probeall 2")
		return hx.Case{Lines: lines, Domain: true, Nontrivial: true, Tags: []string{"seq-shaped", "end-only", tag}}
	}
	both := func(tag string, ops ...string) []hx.Case { return []hx.Case{mk(tag, ops...), mkEnd(tag, ops...)} }
	var extra []hx.Case
	extra = append(extra, both("fields-then-level", "init 0 a:1", "wf 1 b:2", "sl 1 -1")...)
	extra = append(extra, both("fields-then-debug-shared", "init 0 a:1", "derive 1", "wf 2 b:2 c:3", "dbg 1", "derive 2")...)
	extra = append(extra, both("fields-level-fields", "init 0", "wf 1 a:1", "sl 1 2", "wf 1 b:1", "sl 1 -1", "wf 1 c:1")...)
	extra = append(extra, both("child-after-fields-level", "init 0 a:1", "wf 1 b:1", "sl 1 0", "child 1 c:1", "wf 4 d:1", "wf 1 e:1")...)
	extra = append(extra, both("bare-fields-level", "wf 0 a:1", "sl 1 -1", "wf 2 b:1")...)
	extra = append(extra,
		mkEnd("level-then-fields", "init 0 a:1", "sl 1 -1", "wf 1 b:2"),
		mkEnd("child-isolated", "init 0 a:1", "child 1 b:1", "wf 2 c:1", "sl 2 -1", "wf 1 d:1", "sl 1 2", "init 2 e:1", "wf 7 f:1"),
		mkEnd("siblings", "init 0", "sl 1 -1", "wf 1 a:1", "wf 1 b:1", "wf 1 c:1", "child 1 d:1", "child 1 e:1", "wf 1 f:1", "wf 6 a:2", "wf 7 b:2"),
		mk("siblings", "init 0", "sl 1 -1", "wf 1 a:1", "wf 1 b:1", "wf 1 c:1", "child 1 d:1", "child 1 e:1", "wf 1 f:1", "wf 6 a:2", "wf 7 b:2"))
	return append(extra, []hx.Case{
		mk("level-then-fields", "init 0 a:1", "sl 1 -1", "wf 1 b:2"),
		mk("debug-then-fields", "init 0 a:1", "dbg 1", "wf 1 b:2", "wf 1"),
		mk("level-then-child", "init 0", "sl 1 0", "child 1 c:1", "child 1", "wf 3 d:1"),
		mk("level-twice", "init 0 a:1", "sl 1 -1", "sl 1 2", "wf 1 b:1", "sl 1 0"),
		mk("raise-level", "init 0 a:1", "sl 1 2", "wf 1 b:1", "child 1 c:1", "dbg 4"),
		mk("bare-context", "wf 0 a:1", "sl 0 -1", "dbg 0", "child 0 b:1", "derive 0", "wf 5 c:1"),
		mk("shared-by-derived", "init 0 a:1", "derive 1", "derive 2", "wf 3 b:1", "sl 2 -1", "wf 1 c:1"),
		mk("child-isolated", "init 0 a:1", "child 1 b:1", "wf 2 c:1", "sl 2 -1", "wf 1 d:1", "sl 1 2", "init 2 e:1", "wf 7 f:1"),
		mk("empty-with", "init 0", "sl 1 -1", "wf 1", "child 1", "wf 1 a:1"),
	}...)
}

package main

import (
	"fmt"
	"math/rand"
	"regexp"
	"strconv"
	"strings"
)

// Generator of programs following C19's quantifier text.  A program is emitted as declaration
// lines of the line protocol; see lean/Driver/Gencommon.lean for the grammar.

type gen struct {
	r      *rand.Rand
	domain bool
	avail  []int // package indices imported by the target file x.go (the one handed to LoadPackages), plus the target package
	avail2 []int // the same for the target package's second file y.go (nil: single-file package)
	lines  []string
	tags   map[string]bool
	drift  string
}

const (
	pkTgt = 0
	pkCtx = 1
	pkSib = 2
	pkRen = 3
	pkOdd = 4
	pkDeep = 5
	pkClash = 6
	pkThird = 7 // scratch/third/v3, `package third`: never imported by x.go
)

// how the target file imports the package whose directory name differs from its package clause
const (
	oddPlain    = 0 // import "scratch/odd/v2"            (binds the declared name)
	oddDirName  = 1 // import v2 "scratch/odd/v2"         (explicit name = last path element)
	oddDeclName = 2 // import odd "scratch/odd/v2"        (explicit name = declared name)
	oddOther    = 3 // import ox "scratch/odd/v2"         (explicit name = neither)
)

var oddStyleTag = [...]string{"dir-differs-plain", "dir-differs-named-as-dir", "dir-differs-named-as-pkg", "dir-differs-named-other"}

func (g *gen) emit(f string, a ...any) { g.lines = append(g.lines, "gcm "+fmt.Sprintf(f, a...)) }
func (g *gen) tag(t string)             { g.tags[t] = true }
func (g *gen) pick(xs []string) string  { return xs[g.r.Intn(len(xs))] }
func (g *gen) has(p int) bool  { return contains(g.avail, p) }
func (g *gen) has2(p int) bool { return contains(g.avail2, p) }

var mentionRe = regexp.MustCompile(`(^| )[ng]:([0-9]+):`)

// noteUnimported tags a signature that sits outside x.go (sibling package or y.go) by the kinds of
// packages it mentions that x.go does not import.
func (g *gen) noteUnimported(sig string) bool {
	any := false
	for _, m := range mentionRe.FindAllStringSubmatch(sig, -1) {
		p, _ := strconv.Atoi(m[2])
		if p == pkTgt || g.has(p) {
			continue
		}
		any = true
		switch p {
		case pkCtx:
			g.tag("unimported:stdlib")
		case pkDeep, pkRen:
			g.tag("unimported:sibling-plain-name")
		case pkThird, pkOdd:
			g.tag("unimported:dir-differs")
		}
	}
	return any
}

var basics = []string{"int", "string", "bool", "float64", "byte", "rune", "uint8", "int64", "any", "error", "uint", "complex128"}

// rty produces a random type usable from package `from` given the packages `pk` it may mention.
func (g *gen) rty(depth int, pk []int) string {
	k := g.r.Intn(16)
	if depth <= 0 && k >= 7 {
		k = g.r.Intn(7)
	}
	named := func() string {
		p := pk[g.r.Intn(len(pk))]
		switch p {
		case pkCtx:
			g.tag("context")
			return "n:1:Context"
		case pkTgt:
			g.tag("same-pkg-named")
			n := g.pick([]string{"ID", "Rec", "AliasID", "SibAlias"})
			if n == "AliasID" || n == "SibAlias" {
				g.tag("alias")
			}
			return "n:0:" + n
		default:
			g.tag(map[int]string{pkSib: "plain-import", pkRen: "renamed-import", pkOdd: "dir-differs-import", pkDeep: "third-pkg-plain", pkThird: "third-pkg-dir-differs", pkClash: "name-clash-import"}[p])
			n := g.pick([]string{"T", "Rec", "Al"})
			if n == "Al" {
				g.tag("alias")
			}
			return fmt.Sprintf("n:%d:%s", p, n)
		}
	}
	switch k {
	case 0, 1, 2:
		return "b:" + g.pick(basics)
	case 3, 4, 5, 6:
		return named()
	case 7:
		g.tag("generic")
		p := pk[g.r.Intn(len(pk))]
		if p == pkCtx {
			p = pk[0]
		}
		if p == pkTgt && g.r.Intn(2) == 0 {
			return "g:0:Pair:2 " + g.rty(depth-1, pk) + " " + g.rty(depth-1, pk)
		}
		return fmt.Sprintf("g:%d:Box:1 ", p) + g.rty(depth-1, pk)
	case 8, 9:
		g.tag("pointer")
		return "p " + g.rty(depth-1, pk)
	case 10, 11:
		g.tag("slice")
		return "s " + g.rty(depth-1, pk)
	case 12:
		g.tag("array")
		return fmt.Sprintf("a:%d ", g.r.Intn(5)) + g.rty(depth-1, pk)
	case 13:
		g.tag("map")
		key := g.pick([]string{"b:string", "b:int", "n:2:T", "b:string"})
		return "m " + key + " " + g.rty(depth-1, pk)
	case 14:
		g.tag("func-type")
		return g.rsig(depth-1, pk, false)
	default:
		if g.drift == "other-types" {
			g.tag("other-type")
			return g.pick([]string{"o:chan~int", "o:struct{}", "o:interface{}", "o:<-chan~string"})
		}
		return "b:" + g.pick(basics)
	}
}

var userNames = []string{"a", "b", "name", "x", "val", "n", "in", "out", "arg", "ret", "ctx", "err",
	"arg0", "arg1", "arg2", "ret0", "ret1", "ctx0", "ctx1", "err0", "err1", "arg10", "ret00", "Arg0"}
var adversarial = []string{"arg0", "arg1", "ret0", "ret1", "ctx", "err", "ctx0", "err0", "arg", "ret"}

// rsig produces `f:<np>:<v>:<nr> …` — a signature whose parameter names follow the quantifier:
// unnamed, `_`, user-chosen, and deliberately equal to the generator's own choices.
func (g *gen) rsig(depth int, pk []int, method bool) string {
	np := g.r.Intn(5)
	nr := g.r.Intn(4)
	if !method {
		np, nr = g.r.Intn(4), g.r.Intn(3)
	}
	used := map[string]bool{}
	name := func(style int) string {
		switch style {
		case 0:
			return "-"
		}
		for tries := 0; tries < 20; tries++ {
			var n string
			switch g.r.Intn(6) {
			case 0, 1:
				n = "_"
			case 2, 3:
				n = g.pick(adversarial)
			default:
				n = g.pick(userNames)
			}
			if n == "_" {
				return n
			}
			if !used[n] {
				used[n] = true
				return n
			}
		}
		return "_"
	}
	pstyle, rstyle := g.r.Intn(3), g.r.Intn(3) // 0 unnamed, 1/2 named
	if pstyle == 0 {
		g.tag("params-unnamed")
	} else {
		g.tag("params-named")
	}
	var parts []string
	variadic := 0
	for i := 0; i < np; i++ {
		t := g.rty(depth, pk)
		if i == 0 && contains(pk, pkCtx) && g.r.Intn(3) == 0 {
			t = "n:1:Context"
			g.tag("ctx-first")
		}
		if i == np-1 && g.r.Intn(6) == 0 {
			variadic = 1
			t = "s " + t
			g.tag("variadic")
		}
		parts = append(parts, name(pstyle)+" "+t)
	}
	for i := 0; i < nr; i++ {
		t := g.rty(depth, pk)
		if i == nr-1 && g.r.Intn(2) == 0 {
			t = "b:error"
			g.tag("err-last")
		}
		parts = append(parts, name(rstyle)+" "+t)
	}
	return strings.TrimSpace(fmt.Sprintf("f:%d:%d:%d ", np, variadic, nr) + strings.Join(parts, " "))
}

func contains(xs []int, x int) bool {
	for _, y := range xs {
		if y == x {
			return true
		}
	}
	return false
}

var ownPool = []string{"Alpha", "Beta", "Gamma", "Delta", "Eps", "Zeta", "Eta", "Theta", "alpha", "beta", "gamma"}
var embPool = []string{"Foo", "Bar", "Baz", "Get", "Put"}
var embPrivPool = []string{"foo", "bar"}

type embTy struct {
	pkg   int
	name  string
	iface bool
	file2 bool
}

// program builds one case.
//
// Beyond what the quantifier's single target file imports, two classes reach packages that the
// file handed to LoadPackages does NOT import (the `else` branch of addNamed):
//   - (i)  embedded types declared in sibling packages whose (promoted) methods mention third
//     packages: context (when x.go does not import it), scratch/deep (plain name) and
//     scratch/third/v3 (`package third`, directory != package clause);
//   - (ii) a target package of two files, x.go (handed to LoadPackages) and y.go with a different
//     import set (more packages, other names for the same packages); structs, embedded types and
//     their methods may live in y.go.
//
// `shape` cycles with the case number so that every quick run has forced witnesses of both.
func genProgram(r *rand.Rand, id int, domain bool) (lines []string, tags []string, nontrivial bool) {
	g := &gen{r: r, domain: domain, tags: map[string]bool{}}
	if !domain {
		g.drift = []string{"three-levels", "unimported-clash", "other-types"}[r.Intn(3)]
		g.tag("drift-" + g.drift)
	}
	shape := [...]int{0, 1, 2, 1, 2}[id%5]
	if g.drift == "unimported-clash" {
		shape = 1
	}
	withThird := shape != 0 || r.Intn(2) == 0
	withFile2 := shape == 2 || r.Intn(4) == 0
	g.lines = append(g.lines, fmt.Sprintf("case gcm %d", id))
	// packages and the target file's imports
	renAlias := g.pick([]string{"rn", "r2", "sibx", "odd"})
	oddPath, oddName := "scratch/odd/v2", "odd"
	if r.Intn(2) == 0 {
		oddPath, oddName = "scratch/dir_a", "pkgb"
	}
	oddBase := oddPath[strings.LastIndex(oddPath, "/")+1:]
	// the dir-differs package is imported plainly or under an explicit name that repeats the
	// directory name (the classic `v2 "mod/pkg/v2"`), repeats the declared name, or is neither;
	// the style cycles with the case number so that every quick run has each of them several times
	oddStyle := id % 4
	oddAlias := [...]string{"", oddBase, oddName, "ox"}[oddStyle]
	oddBound := oddAlias // the identifier the import binds in the target file
	if oddBound == "" {
		oddBound = oddName
	}
	// name clash: a second, plainly imported package whose DECLARED name is the dir-differs
	// package's directory name or its declared name - whichever the target file does not
	// already bind for the dir-differs package (so the file stays legal Go)
	clashName := ""
	if r.Intn(3) != 0 {
		var free []string
		for _, n := range []string{oddBase, oddName} {
			if n != oddBound {
				free = append(free, n)
			}
		}
		clashName = g.pick(free)
	}
	if renAlias == oddBound || renAlias == clashName {
		renAlias = "rn"
	}
	hasCtx := r.Intn(5) != 0
	hasRen := r.Intn(4) != 0
	hasOdd := oddStyle != oddPlain || r.Intn(4) != 0
	// a package x.go does not import is referred to by its DECLARED name (addNamed); inside the
	// domain that name is not one x.go already binds to something else (the out-of-domain class
	// `unimported-clash` does exactly that)
	if !hasOdd && renAlias == oddName {
		renAlias = "rn"
	}
	clashThird := pkDeep
	if g.drift == "unimported-clash" {
		hasRen = true
		clashThird = []int{pkDeep, pkThird}[r.Intn(2)]
		renAlias = map[int]string{pkDeep: "deep", pkThird: "third"}[clashThird]
	}
	g.emit("pkg 0 scratch/tgt tgt")
	g.emit("pkg 1 context context")
	g.emit("pkg 2 scratch/sib sib")
	g.emit("pkg 3 scratch/ren ren")
	g.emit("pkg 4 %s %s", oddPath, oddName)
	if withThird {
		g.emit("pkg 5 scratch/deep deep")
		g.emit("pkg 7 scratch/third/v3 third")
	}
	g.avail = []int{pkTgt, pkSib}
	g.emit("imp 2 -")
	if hasCtx {
		g.avail = append(g.avail, pkCtx)
		g.emit("imp 1 -")
	}
	if hasRen {
		g.avail = append(g.avail, pkRen)
		g.emit("imp 3 %s", renAlias)
	}
	if hasOdd {
		g.avail = append(g.avail, pkOdd)
		if oddAlias == "" {
			g.emit("imp 4 -")
		} else {
			g.emit("imp 4 %s", oddAlias)
		}
		g.tag(oddStyleTag[oddStyle])
	}
	hasClash := hasOdd && clashName != ""
	if hasClash {
		g.emit("pkg 6 scratch/cl/%s %s", clashName, clashName)
		g.avail = append(g.avail, pkClash)
		g.emit("imp 6 -")
		if clashName == oddBase {
			g.tag("clash-with-dir-name")
		} else {
			g.tag("clash-with-pkg-name")
		}
	}
	// the second file of the target package and ITS imports: other packages, other names
	var extra2 []int // imported by y.go, not by x.go
	if withFile2 {
		g.tag("second-file")
		bound := map[string]bool{}
		g.avail2 = []int{pkTgt}
		imp2 := func(p int, decl string, names []string) {
			al := g.pick(names)
			b := al
			if al == "-" {
				b = decl
			}
			if bound[b] {
				al, b = fmt.Sprintf("q%d", p), fmt.Sprintf("q%d", p)
			}
			bound[b] = true
			g.avail2 = append(g.avail2, p)
			g.emit("imp2 %d %s", p, al)
			if !g.has(p) {
				extra2 = append(extra2, p)
				g.tag("second-file-extra-import")
			} else if al != "-" {
				g.tag("second-file-other-name")
			}
		}
		imp2(pkSib, "sib", []string{"-", "-", "sb"})
		forced := -1
		if shape == 2 {
			// at least one package that only y.go imports
			cands := []int{pkDeep, pkThird}
			if !hasCtx {
				cands = append(cands, pkCtx)
			}
			if !hasRen {
				cands = append(cands, pkRen)
			}
			if !hasOdd {
				cands = append(cands, pkOdd)
			}
			forced = cands[r.Intn(len(cands))]
		}
		// (pool A signatures may sit on a y.go type: y.go imports what they mention)
		if forced == pkCtx || hasCtx || r.Intn(3) != 0 {
			imp2(pkCtx, "context", []string{"-"})
		}
		if forced == pkRen || r.Intn(3) != 0 {
			names := []string{"-", "rz"}
			if hasRen {
				names = append(names, renAlias)
			}
			imp2(pkRen, "ren", names)
		}
		if forced == pkOdd || r.Intn(2) == 0 {
			imp2(pkOdd, oddName, []string{"-", "oy", oddBase})
		}
		if withThird && (forced == pkDeep || r.Intn(2) == 0) {
			imp2(pkDeep, "deep", []string{"-", "-", "dp"})
		}
		if withThird && (forced == pkThird || r.Intn(2) == 0) {
			imp2(pkThird, "third", []string{"-", "v3", "third", "t3"})
		}
	}
	// named types of every package
	g.emit("def 0 ID named b:int")
	g.emit("def 0 Rec named o:struct{}")
	g.emit("def 0 Box generic 1")
	g.emit("def 0 Pair generic 2")
	g.emit("def 0 AliasID alias n:0:ID")
	g.emit("def 0 SibAlias alias n:2:Rec")
	others := []int{pkSib, pkRen, pkOdd}
	if withThird {
		others = append(others, pkDeep, pkThird)
	}
	if hasClash {
		others = append(others, pkClash)
	}
	for _, q := range others {
		g.emit("def %d T named b:int", q)
		g.emit("def %d Rec named o:struct{}", q)
		g.emit("def %d Box generic 1", q)
		g.emit("def %d Al alias n:%d:T", q, q)
	}
	// signatures of the overlapping method names, two variants per name.  Pool A mentions only
	// basics, sib and (if x.go imports it) context, so a type of any package and file may carry it.
	// Pool X is for types declared in SIBLING packages: it also mentions context when x.go does not
	// import it, and the third packages deep / third (no import cycle: they import nothing).
	poolA := []int{pkSib}
	if hasCtx {
		poolA = append(poolA, pkCtx)
	}
	poolX := []int{pkSib, pkCtx, pkCtx}
	if withThird {
		poolX = append(poolX, pkDeep, pkDeep, pkThird, pkThird)
	}
	sigA, sigX := map[string][2]string{}, map[string][2]string{}
	// an interface type may embed interfaces of other packages; duplicate method names must then
	// agree on the signature, so every name has ONE signature for all interface types - from pool X
	// for some names, which target-package interfaces then do not declare
	ifaceX := map[string]bool{}
	for _, n := range append(append([]string{}, embPool...), embPrivPool...) {
		sigA[n] = [2]string{g.rsig(1, poolA, true), g.rsig(1, poolA, true)}
		sigX[n] = [2]string{g.rsig(1, poolX, true), g.rsig(1, poolX, true)}
		ifaceX[n] = exported(n) && r.Intn(2) == 0
	}
	var pk2 []int // what a signature written in y.go may mention
	if withFile2 {
		pk2 = append(pk2, g.avail2...)
		pk2 = append(pk2, extra2...) // twice as likely
	}
	// level-2 then level-1 embedded types
	mk := func(name string, level int, below []embTy) embTy {
		e := embTy{name: name}
		pkChoices := []int{pkTgt, pkTgt}
		for _, p := range g.avail {
			if p == pkRen || p == pkOdd || p == pkClash {
				pkChoices = append(pkChoices, p)
			}
		}
		if level > 0 {
			pkChoices = append(pkChoices, pkSib, pkSib)
		}
		e.pkg = pkChoices[r.Intn(len(pkChoices))]
		e.iface = r.Intn(3) == 0
		e.file2 = e.pkg == pkTgt && withFile2 && r.Intn(3) == 0
		kind := "struct"
		if e.iface {
			kind = "iface"
			g.tag("embedded-interface")
		}
		g.emit("ty %d %s %s", e.pkg, name, kind)
		if e.file2 {
			g.emit("in2 %s", name)
			g.tag("second-file-embedded-type")
		}
		// embedded fields of this embedded type
		for _, b := range below {
			if r.Intn(2) == 0 {
				continue
			}
			if e.iface && !b.iface {
				continue
			}
			// no import cycles: sib imports nothing of ours; ren/odd may import sib only; tgt anything
			// its file imports
			if e.pkg != pkTgt && b.pkg != e.pkg && b.pkg != pkSib {
				continue
			}
			if e.pkg == pkSib && b.pkg != pkSib {
				continue
			}
			if e.file2 && !g.has2(b.pkg) {
				continue
			}
			ptr := "v"
			if !b.iface && r.Intn(3) == 0 {
				ptr = "p"
				g.tag("embedded-pointer")
			}
			g.emit("emb %d %s %s %d %s", e.pkg, name, ptr, b.pkg, b.name)
			g.tag(fmt.Sprintf("embed-depth-%d", 3-level))
		}
		pool := append([]string{}, embPool...)
		if e.pkg == pkTgt {
			pool = append(pool, embPrivPool...)
		}
		if e.iface && e.pkg == pkTgt {
			var keep []string
			for _, n := range pool {
				if !ifaceX[n] {
					keep = append(keep, n)
				}
			}
			pool = keep
		}
		r.Shuffle(len(pool), func(i, j int) { pool[i], pool[j] = pool[j], pool[i] })
		nm := 1 + r.Intn(3)
		if nm > len(pool) {
			nm = len(pool)
		}
		for _, m := range pool[:nm] {
			recv := g.pick([]string{"p", "v"})
			var sig string
			switch {
			case e.iface && ifaceX[m]:
				recv, sig = "v", sigX[m][0]
			case e.iface:
				recv, sig = "v", sigA[m][0]
			case e.pkg != pkTgt && r.Intn(2) == 0:
				sig = sigX[m][r.Intn(2)]
			case e.file2 && r.Intn(2) == 0:
				sig = g.rsig(1, pk2, true)
			default:
				sig = sigA[m][r.Intn(2)]
			}
			if (e.pkg != pkTgt || e.file2) && g.noteUnimported(sig) {
				g.tag("embedded-method-mentions-unimported")
			}
			g.emit("meth %d %s %s %s %s", e.pkg, name, m, recv, sig)
		}
		return e
	}
	var l3, l2, l1 []embTy
	if g.drift == "three-levels" {
		for i := 0; i < 2; i++ {
			l3 = append(l3, mk(fmt.Sprintf("G%d", i+1), 0, nil))
		}
	}
	for i := 0; i < 2+r.Intn(3); i++ {
		l2 = append(l2, mk(fmt.Sprintf("F%d", i+1), 1, l3))
	}
	for i := 0; i < 2+r.Intn(2); i++ {
		l1 = append(l1, mk(fmt.Sprintf("E%d", i+1), 2, l2))
	}
	// class (i), forced: a type of a sibling package that x.go imports plainly / under a rename /
	// from a directory unlike its package clause, with a method of a name nobody else has, whose
	// parameters and results come from packages x.go never mentions.  Struct S0 embeds it.
	var forcedEmb *embTy
	if shape == 1 {
		hosts := []int{pkSib}
		for _, p := range g.avail {
			if p == pkRen || p == pkOdd {
				hosts = append(hosts, p, p)
			}
		}
		e := embTy{pkg: hosts[r.Intn(len(hosts))], name: "X1", iface: r.Intn(3) == 0}
		kind := "struct"
		if e.iface {
			kind = "iface"
		}
		g.tag(map[int]string{pkSib: "unimported-via-plain-sibling", pkRen: "unimported-via-renamed-sibling", pkOdd: "unimported-via-dir-differs-sibling"}[e.pkg])
		g.emit("ty %d X1 %s", e.pkg, kind)
		var cand []string
		if !hasCtx {
			cand = append(cand, "n:1:Context")
		}
		cand = append(cand, "n:5:T", "p n:5:Rec", "g:5:Box:1 b:int", "s n:5:Al", "n:7:T", "m b:string n:7:Rec", "g:7:Box:1 n:5:T", "p n:7:Al")
		if g.drift == "unimported-clash" {
			cand = []string{fmt.Sprintf("n:%d:T", clashThird), fmt.Sprintf("p n:%d:Rec", clashThird)}
		}
		nmStyle := g.pick([]string{"-", "_", "k"})
		nm := func(i int) string {
			if nmStyle == "k" {
				return fmt.Sprintf("k%d", i)
			}
			return nmStyle
		}
		var parts []string
		np := 0
		if r.Intn(2) == 0 {
			parts = append(parts, nm(np)+" n:1:Context")
			np++
			g.tag("ctx-first")
		}
		for k := 1 + r.Intn(2); k > 0; k-- {
			parts = append(parts, nm(np)+" "+g.pick(cand))
			np++
		}
		nr := 0
		for k := r.Intn(2); k > 0; k-- {
			parts = append(parts, "- "+g.pick(cand))
			nr++
		}
		if r.Intn(2) == 0 {
			parts = append(parts, "- b:error")
			nr++
		}
		sig := fmt.Sprintf("f:%d:0:%d %s", np, nr, strings.Join(parts, " "))
		g.noteUnimported(sig)
		g.tag("embedded-method-mentions-unimported")
		recv := g.pick([]string{"p", "v"})
		if e.iface {
			recv = "v"
		}
		g.emit("meth %d X1 Via3 %s %s", e.pkg, recv, sig)
		forcedEmb = &e
	}
	// target structs
	ns := 2 + r.Intn(3)
	var targets []string
	for s := 0; s < ns; s++ {
		name := fmt.Sprintf("S%d", s)
		targets = append(targets, name)
		g.emit("ty 0 %s struct", name)
		// S0 stays in x.go; in a two-file package S1 is in y.go when forced, others at random
		inFile2 := withFile2 && s > 0 && ((shape == 2 && s == 1) || r.Intn(3) == 0)
		if inFile2 {
			g.emit("in2 %s", name)
			g.tag("second-file-struct")
		}
		perm := r.Perm(len(l1))
		ne := r.Intn(len(l1) + 1)
		if s == 0 {
			ne = len(l1)
		}
		for _, k := range perm[:ne] {
			e := l1[k]
			if inFile2 && !g.has2(e.pkg) {
				continue
			}
			ptr := "v"
			if !e.iface && r.Intn(3) == 0 {
				ptr = "p"
				g.tag("embedded-pointer")
			}
			g.emit("emb 0 %s %s %d %s", name, ptr, e.pkg, e.name)
			nontrivial = true
		}
		if forcedEmb != nil && (s == 0 || (!inFile2 && r.Intn(2) == 0)) {
			ptr := "v"
			if !forcedEmb.iface && r.Intn(3) == 0 {
				ptr = "p"
			}
			g.emit("emb 0 %s %s %d %s", name, ptr, forcedEmb.pkg, forcedEmb.name)
			nontrivial = true
		}
		pool := append([]string{}, ownPool...)
		if r.Intn(2) == 0 {
			pool = append(pool, g.pick(embPool), g.pick(embPrivPool))
			g.tag("own-shadows-embedded")
		}
		r.Shuffle(len(pool), func(i, j int) { pool[i], pool[j] = pool[j], pool[i] })
		nm := 1 + r.Intn(8)
		for _, m := range pool[:nm] {
			if inFile2 {
				sig := g.rsig(2, pk2, true)
				if g.noteUnimported(sig) {
					g.tag("own-method-in-second-file-mentions-unimported")
				}
				g.emit("meth 0 %s %s %s %s", name, m, g.pick([]string{"p", "v"}), sig)
				continue
			}
			g.emit("meth 0 %s %s %s %s", name, m, g.pick([]string{"p", "v"}), g.rsig(2, g.avail, true))
		}
		// class (ii), forced: a method written in y.go that mentions a package only y.go imports
		if inFile2 && len(extra2) > 0 && (shape == 2 && s == 1 || r.Intn(2) == 0) {
			q := extra2[r.Intn(len(extra2))]
			t := fmt.Sprintf("n:%d:T", q)
			if q == pkCtx {
				t = "n:1:Context"
			} else {
				t = g.pick([]string{t, fmt.Sprintf("p n:%d:Rec", q), fmt.Sprintf("s n:%d:Al", q), fmt.Sprintf("g:%d:Box:1 b:int", q), fmt.Sprintf("m b:string n:%d:T", q)})
			}
			sig := fmt.Sprintf("f:1:0:1 %s %s - %s", g.pick([]string{"-", "_", "v"}), t, g.pick([]string{t, "b:error"}))
			g.noteUnimported(sig)
			g.tag("own-method-in-second-file-mentions-unimported")
			g.emit("meth 0 %s ViaFile2 %s %s", name, g.pick([]string{"p", "v"}), sig)
		}
		// the first struct always mentions a type of the dir-differs package (and of the
		// clashing one) in a method of its own, so that both imports are active and printed
		if s == 0 && hasOdd {
			sig := fmt.Sprintf("f:1:0:1 %s %s - %s", g.pick([]string{"-", "_", "v"}),
				g.pick([]string{"n:4:T", "p n:4:Rec", "s n:4:Al", "g:4:Box:1 b:int"}), g.pick([]string{"n:4:T", "b:error"}))
			if hasClash {
				sig = fmt.Sprintf("f:2:0:1 - %s - %s - %s", g.pick([]string{"n:4:T", "p n:4:Rec", "g:4:Box:1 n:6:T"}),
					g.pick([]string{"n:6:T", "s n:6:Rec", "m b:string n:6:Al"}), g.pick([]string{"n:4:Al", "n:6:T", "b:error"}))
			}
			g.emit("meth 0 %s ViaOdd %s %s", name, g.pick([]string{"p", "v"}), sig)
			g.tag("dir-differs-import")
		}
		if s == 0 && g.drift == "unimported-clash" {
			// x.go binds the unimported package's declared name to another package and uses it
			g.emit("meth 0 %s ViaRen v f:1:0:0 - n:3:T", name)
		}
	}
	for _, t := range targets {
		for _, bits := range r.Perm(4) {
			g.emit("find 0 %s %d", t, bits)
		}
		g.emit("promoted 0 %s", t)
	}
	g.emit("build")
	for t := range g.tags {
		tags = append(tags, t)
	}
	sortStrings(tags)
	return g.lines, tags, nontrivial || g.tags["params-unnamed"]
}

func exported(n string) bool { return n != "" && n[0] >= 'A' && n[0] <= 'Z' }

import Driver.Util
import Driver.GenOrder
import Driver.GenGuards
import Driver.Genum
import Driver.GErrorIs
import Driver.Log
import Driver.BitSet
import Driver.Set
import Driver.GSync
import Driver.GConfig
import Driver.GSort
import Driver.EnvTmpl
import Driver.Gencommon
import Driver.GErrClone
import Driver.Gogenproto
/-! Line-protocol driver: one request per line on stdin, one answer per line on stdout.
Core-only so that it links as a native executable. -/
open Drv

structure DState where
  gn : Drv.Genum.St := {}
  gei : Drv.GEI.St := {}
  lg : Drv.Log.DSt := {}
  set : Drv.Set.St := {}
  gsync : Drv.GSync.DSt := {}
  gc : Drv.GConfig.DSt := {}
  gsort : Drv.GSort.St := {}
  tmpl : Drv.EnvTmpl.St := {}
  gcm : Drv.GC.St := {}
  ge : Drv.GErrClone.St := []
  gx : Drv.GErrClone.XSt := {}
  gp : Drv.Gogenproto.St := {}

def step (st : DState) (line : String) : DState × String :=
  match words line with
  | "bs" :: rest => (st, BitSet.handle rest)
  | "set" :: rest => let r := Drv.Set.handle st.set rest; ({ st with set := r.1 }, r.2)
  | "gc" :: rest => let r := Drv.GConfig.handle st.gc rest; ({ st with gc := r.1 }, r.2)
  | "gp" :: rest => let r := Drv.Gogenproto.handle st.gp rest; ({ st with gp := r.1 }, r.2)
  | "ge" :: rest => let r := Drv.GErrClone.handle st.ge rest; ({ st with ge := r.1 }, r.2)
  | "gx" :: rest => let r := Drv.GErrClone.handleX st.gx rest; ({ st with gx := r.1 }, r.2)
  | "gcm" :: rest => let r := Drv.GC.handle st.gcm rest; ({ st with gcm := r.1 }, r.2)
  | "tmpl" :: rest => let r := Drv.EnvTmpl.handle st.tmpl rest; ({ st with tmpl := r.1 }, r.2)
  | "gso" :: rest => let r := Drv.GSort.handle st.gsort rest; ({ st with gsort := r.1 }, r.2)
  | "gs" :: rest => let r := Drv.GSync.handle st.gsync rest; ({ st with gsync := r.1 }, r.2)
  | "case" :: "gsync" :: rest =>
    match Drv.GSync.initCase rest with
    | some d => ({ gsync := d }, joinSp ("case" :: "gsync" :: rest))
    | none => ({}, "bad-op")
  | "case" :: rest => ({}, joinSp ("case" :: rest))
  | "lg" :: rest => let r := Drv.Log.handle st.lg rest; ({ st with lg := r.1 }, r.2)
  | "gei" :: rest => let r := Drv.GEI.handle st.gei rest; ({ st with gei := r.1 }, r.2)
  | "gn" :: rest => let r := Drv.Genum.handle st.gn rest; ({ st with gn := r.1 }, r.2)
  | "gg" :: rest => (st, Drv.GG.handle rest)
  | "go_" :: rest => (st, Drv.GO.handle rest)
  | "echo" :: rest => (st, joinSp rest)
  | _ => (st, "bad-op")

partial def loop (hin hout : IO.FS.Stream) (st : DState) : IO Unit := do
  let line ← hin.getLine
  if line.isEmpty then return ()
  let (st', out) := step st ((line.dropEndWhile (fun c => c == '\n' || c == '\r')).toString)
  hout.putStrLn out
  loop hin hout st'

def main : IO Unit := do
  let hin ← IO.getStdin
  let hout ← IO.getStdout
  loop hin hout {}
  hout.flush

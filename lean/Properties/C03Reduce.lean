import Generated.GoGConfigReduce
import Lemmas.GoLoop
import Lemmas.GoReduce
import Properties.C03Tie
import Properties.C03
set_option linter.unusedSimpArgs false
set_option linter.unusedVariables false
namespace C03Reduce
open Generated.GoGConfigReduce GConfig GoLoop GoAny GoReduce

/-- the model's dimension as the `*dimension` the translated code works with -/
def dimOf (d : Dim) : Dimension where
  parseGeneric := fun k => match d.parse k with
    | some i => (i, none)
    | none => (0, some "not a value of the enum")
  get := d.sel

/-- the model's answer as the `(any, error)` pair of `reduceAny` -/
def ofOptE : Option Y → Y × Err
  | some y => (y, none)
  | none => (Y.null, reduce_err1)

/-- what `reduce` returns for each verdict of the model's `classify1` -/
def redOut (dims : List Dim) (kvs : List (String × Y)) : Red → Y × Bool × Err
  | .notReducible => (Y.map kvs, false, none)
  | .follow k => ((ofOptE (GConfig.reduceAt dims kvs k)).1, true, (ofOptE (GConfig.reduceAt dims kvs k)).2)
  | .followDefault =>
    ((ofOptE (GConfig.reduceAt dims kvs GConfig.defaultKey)).1, true, (ofOptE (GConfig.reduceAt dims kvs GConfig.defaultKey)).2)
  | .broken => (Y.null, true, reduce_err1)

theorem reduceAt_lookup (dims : List Dim) (key : String) : ∀ (kvs : List (String × Y)),
    GConfig.reduceAt dims kvs key = (match lookupKey kvs key with
      | some v => GConfig.reduceAny dims v
      | none => none)
  | [] => by simp [GConfig.reduceAt, lookupKey]
  | (k, v) :: rest => by
    have ih := reduceAt_lookup dims key rest
    by_cases hk : (k == key) = true
    · simp [GConfig.reduceAt, lookupKey, List.find?_cons, hk]
    · simp only [GConfig.reduceAt, lookupKey, List.find?_cons, hk, ih]
      simp [lookupKey]

theorem lookupKey_mem (kvs : List (String × Y)) (key : String) (v : Y) (h : lookupKey kvs key = some v) :
    (key, v) ∈ kvs := by
  unfold lookupKey at h
  cases hf : kvs.find? (fun kv => kv.1 == key) with
  | none => simp [hf] at h
  | some kv =>
    simp [hf] at h
    have h1 := List.find?_some hf
    have h2 := List.mem_of_find?_eq_some hf
    obtain ⟨k', v'⟩ := kv
    simp at h1 h; subst h1; subst h; exact h2

theorem lookupKey_isSome (kvs : List (String × Y)) (key : String) :
    (lookupKey kvs key).isSome = decide (key ∈ kvs.map (·.1)) := by
  induction kvs with
  | nil => simp [lookupKey]
  | cons kv rest ih =>
    obtain ⟨k, v⟩ := kv
    by_cases hk : k = key
    · simp [lookupKey, List.find?_cons, hk]
    · have hk' : ¬ key = k := fun h => hk h.symm
      have hb : (k == key) = false := by simp [hk]
      simp only [lookupKey, List.find?_cons, hb] at ih ⊢
      simp [hk, hk', ih]

/-- the model's `found` fold of `classify1` -/
def foundStep (d : Dim) (acc : Option String) (k : String) : Option String :=
  if d.parse k == some d.sel then some k else acc

/-- one iteration of the classification loop of `reduce` on (keys, foundDimKey) -/
def redStep (d : Dim) (st : Go.GMap String × String) (k : String) : Go.GMap String × String :=
  if (d.parse k).isSome then
    ((SetM.remove st.1 [k]).1, if d.parse k == some d.sel then k else st.2)
  else st

theorem red_fold (d : Dim) (ks : List String) : ∀ (A : List String) (f : Option String), (A ++ ks).Nodup →
    ks.foldl (redStep d) (some (A ++ ks), f.getD "")
      = (some (A ++ ks.filter (fun k => (d.parse k).isNone)),
         (ks.foldl (foundStep d) f).getD "") := by
  induction ks with
  | nil => intro A f _; simp
  | cons k ks ih =>
    intro A f hnd
    have hk : k ∉ A := by
      intro hm
      simp only [List.nodup_append, List.mem_cons] at hnd
      exact hnd.2.2 k hm k (Or.inl rfl) rfl
    simp only [List.foldl_cons]
    cases hp : d.parse k with
    | none =>
      have e : A ++ k :: ks = (A ++ [k]) ++ ks := by simp
      have := ih (A ++ [k]) f (by simpa using hnd)
      simp only [redStep, hp, Option.isSome_none, Bool.false_eq_true, if_false]
      rw [e, this]
      simp [List.filter_cons, hp, foundStep]
    | some i =>
      have her : (A ++ k :: ks).erase k = A ++ ks := by
        rw [List.erase_append_right _ hk]; simp
      have hrm : (SetM.remove (some (A ++ k :: ks)) [k]).1 = some (A ++ ks) := by
        simp [SetM.remove, SetM.elems, SetM.removeStep, her]
      have hnd' : (A ++ ks).Nodup := by
        simp only [List.nodup_append, List.nodup_cons, List.mem_cons] at hnd ⊢
        exact ⟨hnd.1, hnd.2.1.2, fun a ha b hb => hnd.2.2 a ha b (Or.inr hb)⟩
      simp only [redStep, hp, Option.isSome_some, if_true, hrm]
      by_cases hs : (some i == some d.sel) = true
      · have := ih A (some k) hnd'
        simp only [Option.getD_some] at this
        simp only [hs, if_true, this, foundStep, hp]
        simp [List.filter_cons, hp]
      · have := ih A f hnd'
        simp only [hs, if_false, foundStep, hp]
        simp only [List.filter_cons, hp, Option.isNone_some, Bool.false_eq_true, if_false]
        exact this

theorem foldl_found_mem (d : Dim) (ks : List String) (f : Option String) (k : String)
    (h : ks.foldl (foundStep d) f = some k) :
    f = some k ∨ k ∈ ks := by
  induction ks generalizing f with
  | nil => simp at h; exact Or.inl h
  | cons a ks ih =>
    simp only [List.foldl_cons] at h
    rcases ih _ h with h1 | h1
    · by_cases hc : (d.parse a == some d.sel) = true
      · simp [foundStep, hc] at h1; subst h1; simp
      · simp only [foundStep, hc, if_false] at h1; exact Or.inl h1
    · exact Or.inr (by simp [h1])

theorem listGet_map (dims : List Dim) (i : Nat) (hi : i < dims.length) :
    Go.listGet (dims.map dimOf) i = pure (dimOf dims[i]) := by
  simp [Go.listGet, hi, List.getD_eq_getElem?_getD]

/-- `reduce` = the model's `classify1` verdict + `reduceAny` of the branch it follows -/
theorem go_reduce_eq (fuel : Nat) (dims : List Dim) (kvs : List (String × Y)) (i : Nat) (hi : i < dims.length)
    (hk : (kvs.map (·.1)).Nodup) (hE : dims[i].parse "" = none)
    (ih : ∀ k v, (k, v) ∈ kvs →
      Generated.GoGConfigReduce.reduceAny fuel v (dims.map dimOf) 0 = pure (ofOptE (GConfig.reduceAny dims v))) :
    Generated.GoGConfigReduce.reduce (fuel + 1) kvs (dims.map dimOf) i
      = pure (redOut dims kvs (classify1 dims[i] kvs)) := by
  rw [Generated.GoGConfigReduce.reduce]
  simp only []
  rw [listGet_map dims i hi, pure_bind, C03Tie.go_keySet_eq kvs hk, pure_bind]
  generalize hd : dims[i] = d at hE ⊢
  simp only []
  unfold classify1
  have hfs : (fun (acc : Option String) k => if d.parse k == some d.sel then some k else acc) = foundStep d := rfl
  simp only [hfs]
  -- facts about the key set
  have hks : (GConfig.keySet kvs).1 = (kvs.map (·.1)).filter (fun k => k != GConfig.defaultKey) := rfl
  have hdf : (GConfig.keySet kvs).2 = kvs.any (fun kv => kv.1 == GConfig.defaultKey) := rfl
  have hnd : ((GConfig.keySet kvs).1).Nodup := by rw [hks]; exact hk.filter _
  have hmem : ∀ k, k ∈ (GConfig.keySet kvs).1 ↔ (k ∈ kvs.map (·.1) ∧ k ≠ GConfig.defaultKey) := by
    intro k; rw [hks]; simp
  have hdef : (GConfig.keySet kvs).2 = true → ∃ v, lookupKey kvs GConfig.defaultKey = some v := by
    intro h
    have : (lookupKey kvs GConfig.defaultKey).isSome = true := by
      rw [lookupKey_isSome]; rw [hdf] at h
      simp only [List.any_eq_true] at h
      obtain ⟨kv, hm, he⟩ := h
      have : kv.1 = GConfig.defaultKey := by simpa using he
      simp only [decide_eq_true_eq, List.mem_map]
      exact ⟨kv, hm, this⟩
    cases hl : lookupKey kvs GConfig.defaultKey with
    | none => simp [hl] at this
    | some v => exact ⟨v, rfl⟩
  generalize (GConfig.keySet kvs).1 = ks at hnd hmem ⊢
  generalize (GConfig.keySet kvs).2 = hasD at hdef ⊢
  -- the classification loop
  rw [forIn_yield _ (redStep d) (fun st => st.1.isSome)
    (by
      intro b a hb
      unfold redStep
      split
      · simp only [SetM.remove]; split <;> simp_all
      · exact hb)
    (by
      intro k st hst
      obtain ⟨m, f⟩ := st
      cases m with
      | none => simp at hst
      | some l =>
        cases hp : d.parse k with
        | none => simp [dimOf, hp, redStep]
        | some j =>
          by_cases hs : d.sel = j
          · simp [dimOf, hp, redStep, C07Tie.go_remove_eq, hs]
          · have hs' : ¬ j = d.sel := fun h => hs h.symm
            simp [dimOf, hp, redStep, C07Tie.go_remove_eq, hs, hs']) _ _ (by simp)]
  have hfold := red_fold d ks [] none (by simpa using hnd)
  simp only [List.nil_append, Option.getD_none] at hfold
  simp only [Go.mapKeys, Go.mapElems, hfold, pure_bind, Go.mapLen]
  have e1 : ∀ (l : List String), l.isEmpty = (l.length == 0) := by intro l; cases l <;> simp
  simp only [e1]
  by_cases h0 : (ks.length == 0 && !hasD) = true
  · simp [h0, redOut]
  simp only [h0, if_false, Bool.false_eq_true]
  by_cases h1 : ((List.filter (fun k => (d.parse k).isNone) ks).length != 0) = true
  · have h1' : (!(List.filter (fun k => (d.parse k).isNone) ks).length == 0) = true := by simpa using h1
    simp only [h1, h1', if_true, redOut]
  have h1' : ¬ (!(List.filter (fun k => (d.parse k).isNone) ks).length == 0) = true := by simpa using h1
  simp only [h1, h1', if_false]
  have hall : ∀ k ∈ ks, (d.parse k).isSome = true := by
    intro k hm
    cases hp : d.parse k with
    | some j => rfl
    | none =>
      exfalso; apply h1
      have : k ∈ List.filter (fun k => (d.parse k).isNone) ks := by simp [hm, hp]
      cases hl : List.filter (fun k => (d.parse k).isNone) ks with
      | nil => rw [hl] at this; simp at this
      | cons a l => simp
  cases hf : List.foldl (foundStep d) none ks with
  | some k =>
    have hkm : k ∈ ks := by
      rcases foldl_found_mem d ks none k hf with h | h
      · simp at h
      · exact h
    have hkk : k ∈ kvs.map (·.1) := ((hmem k).1 hkm).1
    have hl : (lookupKey kvs k).isSome = true := by rw [lookupKey_isSome]; simpa using hkk
    cases hv : lookupKey kvs k with
    | none => simp [hv] at hl
    | some v =>
      have hr : GConfig.reduceAt dims kvs k = GConfig.reduceAny dims v := by rw [reduceAt_lookup, hv]
      simp only [Option.getD_some, amapGet, hv, if_true, ih k v (lookupKey_mem kvs k v hv), pure_bind, redOut]
      simp [hr]
  | none =>
    have hno : lookupKey kvs "" = none := by
      cases hv : lookupKey kvs "" with
      | none => rfl
      | some v =>
        exfalso
        have hm : "" ∈ kvs.map (·.1) := by
          have := lookupKey_isSome kvs ""; rw [hv] at this; simpa using this.symm
        have hm' : "" ∈ ks := (hmem "").2 ⟨hm, by decide⟩
        have := hall "" hm'
        rw [hE] at this; simp at this
    simp only [Option.getD_none, amapGet, hno, Bool.false_eq_true, if_false]
    cases hD : hasD with
    | false => simp [redOut]
    | true =>
      obtain ⟨v, hv⟩ := hdef hD
      have hr : GConfig.reduceAt dims kvs GConfig.defaultKey = GConfig.reduceAny dims v := by rw [reduceAt_lookup, hv]
      have hdk : Generated.GoGConfigReduce.defaultKey = GConfig.defaultKey := rfl
      simp only [if_true, hdk, hv, ih _ v (lookupKey_mem kvs _ v hv), pure_bind, redOut, hr]

/-! ## fuel and the standing assumption on documents -/

mutual
  /-- fuel that `reduceAny` needs on a document: two levels of calls per map (reduceAny → reduce →
  reduceAny of the branch), one per list -/
  def need : Y → Nat
    | .map kvs => needKVs kvs + 2
    | .list xs => needList xs + 1
    | _ => 1
  def needList : List Y → Nat
    | [] => 0
    | x :: xs => max (need x) (needList xs)
  def needKVs : List (String × Y) → Nat
    | [] => 0
    | (_, v) :: rest => max (need v) (needKVs rest)
end

mutual
  /-- the keys of every map of the document are pairwise distinct (true of every Go map) -/
  def NK : Y → Bool
    | .map kvs => keysDistinct (kvs.map (·.1)) && nkKVs kvs
    | .list xs => nkList xs
    | _ => true
  def nkList : List Y → Bool
    | [] => true
    | x :: xs => NK x && nkList xs
  def nkKVs : List (String × Y) → Bool
    | [] => true
    | (_, v) :: rest => NK v && nkKVs rest
end

theorem need_mem_kvs : ∀ (kvs : List (String × Y)) (k : String) (v : Y), (k, v) ∈ kvs → need v ≤ needKVs kvs
  | [], _, _, h => by simp at h
  | (k', v') :: rest, k, v, h => by
    simp only [List.mem_cons] at h
    simp only [needKVs]
    rcases h with h | h
    · have : v = v' := by injection h
      subst this; exact Nat.le_max_left _ _
    · exact Nat.le_trans (need_mem_kvs rest k v h) (Nat.le_max_right _ _)

theorem need_mem_list : ∀ (xs : List Y) (x : Y), x ∈ xs → need x ≤ needList xs
  | [], _, h => by simp at h
  | x' :: rest, x, h => by
    simp only [List.mem_cons] at h
    simp only [needList]
    rcases h with h | h
    · subst h; exact Nat.le_max_left _ _
    · exact Nat.le_trans (need_mem_list rest x h) (Nat.le_max_right _ _)

theorem nk_mem_kvs : ∀ (kvs : List (String × Y)) (k : String) (v : Y), nkKVs kvs = true → (k, v) ∈ kvs → NK v = true
  | [], _, _, _, h => by simp at h
  | (k', v') :: rest, k, v, hn, h => by
    simp only [nkKVs, Bool.and_eq_true] at hn
    simp only [List.mem_cons] at h
    rcases h with h | h
    · have : v = v' := by injection h
      subst this; exact hn.1
    · exact nk_mem_kvs rest k v hn.2 h

theorem nk_mem_list : ∀ (xs : List Y) (x : Y), nkList xs = true → x ∈ xs → NK x = true
  | [], _, _, h => by simp at h
  | x' :: rest, x, hn, h => by
    simp only [nkList, Bool.and_eq_true] at hn
    simp only [List.mem_cons] at h
    rcases h with h | h
    · subst h; exact hn.1
    · exact nk_mem_list rest x hn.2 h

theorem keysDistinct_nodup : ∀ (ks : List String), keysDistinct ks = true → ks.Nodup
  | [], _ => List.nodup_nil
  | k :: ks, h => by
    simp only [keysDistinct, Bool.and_eq_true, Bool.not_eq_true', List.contains_eq_mem, decide_eq_false_iff_not] at h
    exact List.nodup_cons.2 ⟨by simpa using h.1, keysDistinct_nodup ks h.2⟩

theorem reduceKVs_eq_map (dims : List Dim) : ∀ (kvs : List (String × Y)),
    GConfig.reduceKVs dims kvs = mapKVs (GConfig.reduceAny dims) kvs
  | [] => by simp [GConfig.reduceKVs, mapKVs]
  | (k, v) :: rest => by
    rw [GConfig.reduceKVs, mapKVs, reduceKVs_eq_map dims rest]
    cases GConfig.reduceAny dims v <;> cases mapKVs (GConfig.reduceAny dims) rest <;> rfl

theorem reduceList_eq_map (dims : List Dim) : ∀ (xs : List Y),
    GConfig.reduceList dims xs = mapList (GConfig.reduceAny dims) xs
  | [] => by simp [GConfig.reduceList, mapList]
  | x :: rest => by
    rw [GConfig.reduceList, mapList, reduceList_eq_map dims rest]
    cases GConfig.reduceAny dims x <;> cases mapList (GConfig.reduceAny dims) rest <;> rfl

/-- what the dimension loop of `reduceAny` leaves with at index `i` -/
def selAt (dims : List Dim) (kvs : List (String × Y)) (i : Nat) : Option (Y × Err) :=
  match dims[i]? with
  | none => none
  | some d =>
    match classify1 d kvs with
    | .notReducible => none
    | r => some ((redOut dims kvs r).1, (redOut dims kvs r).2.2)

/-- what it leaves with overall: the verdict of the model's `classify` -/
def selOf (dims : List Dim) (kvs : List (String × Y)) : Red → Option (Y × Err)
  | .notReducible => none
  | r => some ((redOut dims kvs r).1, (redOut dims kvs r).2.2)

theorem findSome_classify (dims : List Dim) (kvs : List (String × Y)) : ∀ (ds : List Dim) (k : Nat),
    dims.drop k = ds →
    (List.range' k ds.length).findSome? (selAt dims kvs) = selOf dims kvs (classify ds kvs)
  | [], k, _ => by simp [classify, selOf]
  | d :: ds, k, h => by
    have hk : k < dims.length := by
      apply Nat.lt_of_not_le; intro hle
      rw [List.drop_eq_nil_of_le hle] at h; cases h
    have hd : dims[k]? = some d := by
      have := List.drop_eq_getElem_cons hk
      rw [this] at h; injection h with h1 h2
      rw [List.getElem?_eq_getElem hk, h1]
    have hds : dims.drop (k + 1) = ds := by
      have := List.drop_eq_getElem_cons hk
      rw [this] at h; injection h
    have ih := findSome_classify dims kvs ds (k + 1) hds
    simp only [List.length_cons, List.range'_succ, List.findSome?_cons, classify]
    cases hc : classify1 d kvs <;> simp [selAt, hd, hc, ih, selOf]

theorem listSet_lt (v : List Y) (i : Nat) (x : Y) (h : i < v.length) : Go.listSet v i x = pure (v.set i x) := by
  simp [Go.listSet, h]

/-- **tie A**: the translated `reduceAny` (hence `reduce`, mutually) computes exactly the model's
`reduceAny`, on every document whose maps have distinct keys, for every list of dimensions none of
which parses the empty string, and every fuel above `need y`; it cannot panic, and it reports an
error exactly when the model's answer is `none`. -/
theorem go_reduceAny_eq (dims : List Dim) (hE : ∀ d ∈ dims, d.parse "" = none) : ∀ (fuel : Nat) (y : Y),
    need y ≤ fuel → NK y = true →
    Generated.GoGConfigReduce.reduceAny fuel y (dims.map dimOf) 0 = pure (ofOptE (GConfig.reduceAny dims y)) := by
  intro fuel
  induction fuel using Nat.strongRecOn with
  | _ fuel IH =>
    intro y hn hnk
    cases fuel with
    | zero => cases y <;> simp [need] at hn
    | succ f =>
      cases y with
      | null => simp [Generated.GoGConfigReduce.reduceAny, GConfig.reduceAny, ofOptE]
      | str s => simp [Generated.GoGConfigReduce.reduceAny, GConfig.reduceAny, ofOptE]
      | int n => simp [Generated.GoGConfigReduce.reduceAny, GConfig.reduceAny, ofOptE]
      | bool b => simp [Generated.GoGConfigReduce.reduceAny, GConfig.reduceAny, ofOptE]
      | list xs =>
        simp only [need] at hn
        simp only [NK] at hnk
        rw [Generated.GoGConfigReduce.reduceAny]
        simp only []
        obtain ⟨s, hs⟩ := forIn_listUpdate (GConfig.reduceAny dims) (Y.null, reduce_err1) Y.null
          (fun el __s => do
            let p3 ← Generated.GoGConfigReduce.reduceAny f el (List.map dimOf dims) 0
            let v ← Go.listSet __s.snd.fst __s.snd.snd p3.fst
            if (p3.snd != none) = true then pure (ForInStep.done (some (Y.null, p3.snd), v, __s.snd.snd))
              else pure (ForInStep.yield (none, v, __s.snd.snd + 1))) xs
          (by
            intro el v i hm hi
            have := IH f (Nat.lt_succ_self f) el (by have := need_mem_list xs el hm; omega) (nk_mem_list xs el hnk hm)
            simp only [this, pure_bind]
            cases GConfig.reduceAny dims el with
            | some x => simp [ofOptE, listSet_lt _ _ _ hi]
            | none => simp [ofOptE, listSet_lt _ _ _ hi, reduce_err1]) []
        simp only [List.nil_append, List.length_nil] at hs
        rw [hs, GConfig.reduceAny, reduceList_eq_map]
        cases mapList (GConfig.reduceAny dims) xs <;> simp [ofOptE]
      | map kvs =>
        simp only [need] at hn
        simp only [NK, Bool.and_eq_true] at hnk
        have hnd : (kvs.map (·.1)).Nodup := keysDistinct_nodup _ hnk.1
        cases f with
        | zero => omega
        | succ f' =>
          have ihc : ∀ (m : Nat), f' ≤ m → m < f' + 1 + 1 → ∀ k v, (k, v) ∈ kvs →
              Generated.GoGConfigReduce.reduceAny m v (dims.map dimOf) 0 = pure (ofOptE (GConfig.reduceAny dims v)) := by
            intro m hm1 hm2 k v hm
            exact IH m hm2 v (by have := need_mem_kvs kvs k v hm; omega) (nk_mem_kvs kvs k v hnk.2 hm)
          rw [Generated.GoGConfigReduce.reduceAny]
          simp only []
          rw [forIn_findSome _ (selAt dims kvs) _ (by
            intro i hi
            have hi' : i < dims.length := by
              have := (List.mem_range'_1.1 hi).2; simp at this; omega
            rw [go_reduce_eq f' dims kvs i hi' hnd (hE _ (List.getElem_mem hi')) (ihc f' (Nat.le_refl _) (by omega))]
            simp only [pure_bind, selAt, List.getElem?_eq_getElem hi']
            cases hc : classify1 dims[i] kvs <;> simp [redOut])]
          have hfs := findSome_classify dims kvs dims 0 (by simp)
          simp only [List.length_map, Nat.sub_zero, pure_bind, hfs]
          rw [GConfig.reduceAny]
          cases hc : classify dims kvs with
          | follow k => simp [selOf, redOut]
          | followDefault => simp [selOf, redOut]
          | broken => simp [selOf, redOut, ofOptE]
          | notReducible =>
            simp only [selOf]
            obtain ⟨s, hs⟩ := forIn_amapUpdate (GConfig.reduceAny dims) (Y.null, reduce_err1) Y.null
              (fun x __s => do
                let p2 ← Generated.GoGConfigReduce.reduceAny (f' + 1) x.snd (List.map dimOf dims) 0
                if (p2.snd != none) = true then
                    pure (ForInStep.done (some (Y.null, p2.snd), amapSet __s.snd x.fst p2.fst))
                  else pure (ForInStep.yield (none, amapSet __s.snd x.fst p2.fst))) kvs
              (by
                intro kv v hm
                have := ihc (f' + 1) (by omega) (by omega) kv.1 kv.2 hm
                simp only [this, pure_bind]
                cases GConfig.reduceAny dims kv.2 with
                | some x => simp [ofOptE]
                | none => simp [ofOptE, reduce_err1]) [] (by simpa using hnd)
            simp only [List.nil_append] at hs
            rw [hs, reduceKVs_eq_map]
            cases mapKVs (GConfig.reduceAny dims) kvs <;> simp [ofOptE]

end C03Reduce

package main

import (
	"fmt"
	"hash/fnv"
	"math/big"
	"strings"
)

// A Def is one enum definition FILE (1-4 enum types, constants spread over const blocks) plus
// the generator options. It is exactly the `gn opt|type|const|block|skip|other` request lines
// of a case, so that a case can be replayed and shrunk line by line.
type Def struct {
	Opts  string // letters: c = -caseInsensitive; "-" = none
	Types []TypeD
	Items []Item
}

type TypeD struct {
	Name string
	Kind string // i8 i16 i32 i64 int u8 u16 u32 u64 uint
}

type Item struct {
	What string // const | block | skip | other
	T    string
	Name string
	Val  *big.Int
	Dep  bool
	// Form steers how the line is WRITTEN: x explicit literal, i `T = iota±k`, c `= T(iota±k)`,
	// r implicit repetition of the previous spec (falls back to i when that would not give Val).
	Form string
}

var kinds = []string{"i8", "i16", "i32", "i64", "int", "u8", "u16", "u32", "u64", "uint"}

func kindInfo(k string) (bits int, signed bool, goType string, ok bool) {
	switch k {
	case "i8":
		return 8, true, "int8", true
	case "i16":
		return 16, true, "int16", true
	case "i32":
		return 32, true, "int32", true
	case "i64":
		return 64, true, "int64", true
	case "int":
		return 64, true, "int", true
	case "u8":
		return 8, false, "uint8", true
	case "u16":
		return 16, false, "uint16", true
	case "u32":
		return 32, false, "uint32", true
	case "u64":
		return 64, false, "uint64", true
	case "uint":
		return 64, false, "uint", true
	}
	return 0, false, "", false
}

func kindRange(k string) (lo, hi *big.Int) {
	bits, signed, _, _ := kindInfo(k)
	one := big.NewInt(1)
	if signed {
		hi = new(big.Int).Lsh(one, uint(bits-1))
		lo = new(big.Int).Neg(hi)
		hi = new(big.Int).Sub(hi, one)
		return
	}
	return big.NewInt(0), new(big.Int).Sub(new(big.Int).Lsh(one, uint(bits)), one)
}

func (d *Def) kindOf(t string) string {
	for _, td := range d.Types {
		if td.Name == t {
			return td.Kind
		}
	}
	return ""
}

// Lines renders the definition as request lines (without the final `gn gen`).
func (d *Def) Lines() []string {
	ls := []string{"gn opt " + d.Opts}
	for _, t := range d.Types {
		ls = append(ls, "gn type "+t.Name+" "+t.Kind)
	}
	for _, it := range d.Items {
		switch it.What {
		case "const":
			dep := "-"
			if it.Dep {
				dep = "d"
			}
			ls = append(ls, fmt.Sprintf("gn const %s %s %s %s %s", it.T, it.Name, it.Val.String(), dep, it.Form))
		case "block":
			ls = append(ls, "gn block")
		case "skip":
			ls = append(ls, "gn skip")
		case "other":
			ls = append(ls, "gn other "+it.Name)
		}
	}
	return ls
}

func (d *Def) Key() string { return strings.Join(d.Lines(), "\n") }

func isIdent(s string) bool {
	if s == "" {
		return false
	}
	for i, c := range s {
		switch {
		case c >= 'a' && c <= 'z', c >= 'A' && c <= 'Z', c == '_':
		case c >= '0' && c <= '9' && i > 0:
		default:
			return false
		}
	}
	return true
}

// addLine folds one `gn …` definition line into d; false = not a definition line / malformed.
func (d *Def) addLine(ws []string) bool {
	if len(ws) < 2 || ws[0] != "gn" {
		return false
	}
	switch {
	case ws[1] == "opt" && len(ws) == 3:
		d.Opts = ws[2]
	case ws[1] == "type" && len(ws) == 4:
		if _, _, _, ok := kindInfo(ws[3]); !ok || !isIdent(ws[2]) {
			return false
		}
		d.Types = append(d.Types, TypeD{ws[2], ws[3]})
	case ws[1] == "const" && len(ws) == 7:
		v, ok := new(big.Int).SetString(ws[4], 10)
		if !ok || !isIdent(ws[2]) || !isIdent(ws[3]) || (ws[5] != "d" && ws[5] != "-") {
			return false
		}
		d.Items = append(d.Items, Item{What: "const", T: ws[2], Name: ws[3], Val: v, Dep: ws[5] == "d", Form: ws[6]})
	case ws[1] == "block" && len(ws) == 2:
		d.Items = append(d.Items, Item{What: "block"})
	case ws[1] == "skip" && len(ws) == 2:
		d.Items = append(d.Items, Item{What: "skip"})
	case ws[1] == "other" && len(ws) == 3:
		if !isIdent(ws[2]) {
			return false
		}
		d.Items = append(d.Items, Item{What: "other", Name: ws[2]})
	default:
		return false
	}
	return true
}

// consts of one type, source order
func (d *Def) constsOf(t string) []Item {
	var r []Item
	for _, it := range d.Items {
		if it.What == "const" && it.T == t {
			r = append(r, it)
		}
	}
	return r
}

// names declared by the definition (types, constants, unrelated constants)
func (d *Def) declared() []string {
	var r []string
	for _, t := range d.Types {
		r = append(r, t.Name)
	}
	for _, it := range d.Items {
		if it.What == "const" || it.What == "other" {
			r = append(r, it.Name)
		}
	}
	return r
}

func (d *Def) typeNames() []string {
	r := make([]string, len(d.Types))
	for i, t := range d.Types {
		r[i] = t.Name
	}
	return r
}

func hashOf(s string) uint32 {
	h := fnv.New32a()
	h.Write([]byte(s))
	return h.Sum32()
}

func iotaExpr(k *big.Int) string {
	switch k.Sign() {
	case 0:
		return "iota"
	case 1:
		return "iota + " + k.String()
	}
	return "iota - " + new(big.Int).Neg(k).String()
}

// chain describes the expression an implicit repetition would repeat.
type chain struct {
	ok     bool
	t      string   // declared type ("" = untyped)
	isIota bool     // value = iota + k
	k      *big.Int // offset, or the literal when !isIota
}

func (c chain) valueAt(i int) *big.Int {
	if c.isIota {
		return new(big.Int).Add(big.NewInt(int64(i)), c.k)
	}
	return c.k
}

// Source renders the definition file. It is a pure function of the definition lines.
func (d *Def) Source(pkg string) string {
	var b strings.Builder
	b.WriteString("package " + pkg + "\n\n")
	for _, t := range d.Types {
		_, _, gt, _ := kindInfo(t.Kind)
		fmt.Fprintf(&b, "// %s is a generated test enum.\ntype %s %s\n\n", t.Name, t.Name, gt)
	}
	// split into blocks
	var blocks [][]Item
	cur := []Item{}
	for _, it := range d.Items {
		if it.What == "block" {
			blocks = append(blocks, cur)
			cur = []Item{}
			continue
		}
		cur = append(cur, it)
	}
	blocks = append(blocks, cur)
	for _, blk := range blocks {
		if len(blk) == 0 {
			continue
		}
		b.WriteString("const (\n")
		ch := chain{}
		for i, it := range blk {
			switch it.What {
			case "skip":
				if ch.ok && d.inRange(ch.t, ch.valueAt(i)) {
					b.WriteString("\t_\n")
				} else {
					b.WriteString("\t_ = iota\n")
					ch = chain{ok: true, t: "", isIota: true, k: big.NewInt(0)}
				}
			case "other":
				fmt.Fprintf(&b, "\t%s = \"unrelated %s\"\n", it.Name, it.Name)
				ch = chain{}
			case "const":
				if it.Dep {
					switch hashOf(it.Name) % 3 {
					case 0:
						fmt.Fprintf(&b, "\t// Deprecated: use something else.\n")
					case 1:
						fmt.Fprintf(&b, "\t//Deprecated: no longer in use.\n")
					default:
						fmt.Fprintf(&b, "\t// %s is old.\n\t//\n\t// Deprecated: do not use.\n", it.Name)
					}
				} else if hashOf(it.Name)%5 == 0 {
					fmt.Fprintf(&b, "\t// %s is not deprecated: it is in use.\n", it.Name)
				}
				form := it.Form
				if form == "r" {
					if ch.ok && ch.t == it.T && ch.valueAt(i).Cmp(it.Val) == 0 {
						fmt.Fprintf(&b, "\t%s\n", it.Name)
						continue
					}
					form = "i"
				}
				k := new(big.Int).Sub(it.Val, big.NewInt(int64(i)))
				switch form {
				case "i":
					fmt.Fprintf(&b, "\t%s %s = %s\n", it.Name, it.T, iotaExpr(k))
					ch = chain{ok: true, t: it.T, isIota: true, k: k}
				case "c":
					fmt.Fprintf(&b, "\t%s = %s(%s)\n", it.Name, it.T, iotaExpr(k))
					// the repeated expression T(iota±k) is typed T through the conversion
					ch = chain{ok: true, t: it.T, isIota: true, k: k}
				default: // x
					fmt.Fprintf(&b, "\t%s %s = %s\n", it.Name, it.T, it.Val.String())
					ch = chain{ok: true, t: it.T, isIota: false, k: it.Val}
				}
			}
		}
		b.WriteString(")\n\n")
	}
	return b.String()
}

// inRange: v fits type t ("" = untyped: always)
func (d *Def) inRange(t string, v *big.Int) bool {
	k := d.kindOf(t)
	if k == "" {
		return true
	}
	lo, hi := kindRange(k)
	return v.Cmp(lo) >= 0 && v.Cmp(hi) <= 0
}

// wellFormed: what the harness needs to be able to write and probe the file at all.
func (d *Def) wellFormed() bool {
	if len(d.Types) == 0 {
		return false
	}
	seen := map[string]bool{}
	for _, n := range d.declared() {
		if seen[n] {
			return false
		}
		seen[n] = true
	}
	for _, it := range d.Items {
		if it.What != "const" {
			continue
		}
		k := d.kindOf(it.T)
		if k == "" {
			return false
		}
		lo, hi := kindRange(k)
		if it.Val.Cmp(lo) < 0 || it.Val.Cmp(hi) > 0 {
			return false
		}
	}
	return true
}

/-!
# Model of `set/bit_set.go`

`BitSet[T]` is a `uint64`; a flag of any unsigned width `w ≤ 64` is converted with
`BitSet[T](item)`, i.e. zero-extended.  The model therefore works on `BitVec 64` and a flag is
whatever 64-bit vector the conversion yields (`ofFlag`).  Every definition follows the Go code
statement by statement: the loops are left folds carrying `(resultS, changed)`.

`removeLegacy` is the algorithm at the pinned commit (`removed || resultS&asFlag == asFlag`);
`remove` is the algorithm of the current tree.
-/
namespace BitSetM

abbrev BS := BitVec 64

/-- `BitSet[T](item)` for a flag type of width `w`: zero extension. -/
def ofFlag {w : Nat} (f : BitVec w) : BS := f.zeroExtend 64

/-- `MakeBitSet(items...)` -/
def make (fs : List BS) : BS := fs.foldl (fun r f => r ||| f) 0#64

def addStep (acc : BS × Bool) (f : BS) : BS × Bool :=
  (acc.1 ||| f, acc.2 || (acc.1 &&& f != f))

/-- `(*BitSet).Add(items...)`: new value and returned flag. -/
def add (s : BS) (fs : List BS) : BS × Bool := fs.foldl addStep (s, false)

def removeStep (acc : BS × Bool) (f : BS) : BS × Bool :=
  (acc.1 &&& ~~~f, acc.2 || (acc.1 &&& f != 0#64))

/-- `(*BitSet).Remove(items...)` (current tree). -/
def remove (s : BS) (fs : List BS) : BS × Bool := fs.foldl removeStep (s, false)

def removeStepLegacy (acc : BS × Bool) (f : BS) : BS × Bool :=
  (acc.1 &&& ~~~f, acc.2 || (acc.1 &&& f == f))

/-- `Remove` as it was at the pinned commit. -/
def removeLegacy (s : BS) (fs : List BS) : BS × Bool := fs.foldl removeStepLegacy (s, false)

/-- `MaskOf` -/
def maskOf (s f : BS) : BS := s &&& f

/-- `Has` -/
def has (s f : BS) : Bool := s &&& f == f

/-- `HasAny` -/
def hasAny (s : BS) (fs : List BS) : Bool := fs.any (has s)

/-! ## Specification: a set of bit positions -/

/-- membership of bit position `i` -/
def mem (s : BS) (i : Nat) : Bool := s.getLsbD i

end BitSetM

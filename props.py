"""Per-property configuration of ./check (which Lean modules hold the obligations, which
harness binaries run the correspondence, what is trusted)."""

GO_TRUST = "Go compiler/runtime; the harness (cmd/%s) and the Lean line-protocol driver, incl. their canonicalisation"

GSYNC_COMMON = dict(
    harness=[dict(bin="h-gsync", instrument=dict(src="/repo/gsync", dst="instr/gsyncx"))],
    trusted=[GO_TRUST % "h-gsync", "cmd/instrument (rewrites only the import paths sync, sync/atomic and the builtin close)",
             "internal/sched: cooperative scheduler and shims = sequentially consistent atomics, mutex, close",
             "Go memory model: sync/atomic operations are sequentially consistent; select/timers (WaitTimeout/WaitCTX deadline clause)"],
    assumptions=["callers never drive the count negative (hypothesis NonNeg of the theorems)",
                 "the real Go scheduler and preemption inside a single atomic instruction are not modelled"],
)

PROPS = {
    "C01": dict(
        title="gsync: a Wait channel is never released while the count stayed above zero",
        level_text="Machine-checked Lean 4 inductive invariant over the interleaving transition system of Add/Wait/Count at atomic-operation granularity: for EVERY number of goroutines, every client program and every schedule of any length, a channel returned by Wait is closed only if the counter was zero at some instant since that Wait started. The model is tied to /repo by lock-step execution of an instrumented copy of the real source under a cooperative scheduler (every step's label class and full observable state compared), and an implementation-side monitor evaluates the property exactly as worded over random and exhaustively enumerated bounded-preemption schedules.",
        level_note="Trusted: Lean kernel + standard axioms; SC atomics (Go memory model) as implemented by the scheduler shims; the source rewriter; the harness and driver. Not modelled: the real Go scheduler, preemption within one atomic instruction.",
        technique="Lean 4 proof (inductive invariant over all programs x schedules) + lock-step trace correspondence under a controlled scheduler",
        explanation="theorem quantifies over all programs and schedules; lock-step tie C",
        lean_modules=["Properties.C01"],
        **GSYNC_COMMON),
    "C02": dict(
        title="gsync: waiters released at zero, consistent at rest, Wait never blocks",
        level_text="Machine-checked Lean 4 theorems from the same inductive invariant: at every reachable state with no Add in flight Count() equals the sum of the deltas begun, count 0 => every channel ever returned by Wait is closed, count > 0 => the installed channel is open, and a Wait started there returns within two of its own steps whatever the other goroutines do (as long as no Add starts). Tied to /repo by the same lock-step runs plus Count()/Wait() probes at rest. The deadline clause of WaitTimeout/WaitCTX reduces to this by Go's select semantics (trusted).",
        level_note="Trusted: as C01, plus Go's select/timer semantics for WaitTimeout/WaitCTX (they select on Wait()'s result; that Wait returns promptly is the proved part).",
        technique="Lean 4 proof (inductive invariant; bounded termination of Wait at rest) + lock-step trace correspondence under a controlled scheduler",
        explanation="quiescence theorems + two-step termination of Wait",
        lean_modules=["Properties.C02"],
        **GSYNC_COMMON),
    "C03": dict(
        title="gconfig: dimension resolution selects exactly the active branch",
        lean_modules=["Properties.C03"],
        harness=[dict(bin="h-gconfig")],
        trusted=[GO_TRUST % "h-gconfig", "gopkg.in/yaml.v3 parsing of the (JSON-subset) document text and its re-marshal/unmarshal in Get (typed conversion is not modelled)",
                 "the genum-generated ParseGeneric of the harness's dimension enums (modelled as exact-then-lower-case name match)"],
        assumptions=["documents are well-formed in the sense of the quantifier (Lean predicate WF; the driver marks every non-WF document so the domain stream cannot leave it)",
                     "the flag-package path of dimension selection is not modelled (the property names default and environment only)"],
        level_text="Machine-checked Lean 4 theorem reduce_eq_resolve: on EVERY well-formed document (any depth, any nesting order, any number of registered dimensions) the mirror of reduceAny/reduce/keySet equals the specification written from the property text (replace each dimension-keyed map by the selected entry, else default, else fail; keep other maps; recurse into lists), by mutual structural induction over the nested document type; plus Get = path lookup, missing-branch => load error, selection via default/env spellings, and independence from Go's map iteration order. Tied to /repo by differential runs: generated documents x dimension assignments through the real Builder.FromBytes, then Get[any] at every path of the expected tree.",
        level_note="Trusted: Lean kernel + standard axioms; yaml.v3; the harness/driver. The typed conversion in Get (yaml re-marshal) is observed, not modelled. The model mirrors the repaired reduceAny (see known_findings.json); the pinned algorithm's failures are kept as corpus replays, not as a Lean model.",
        technique="Lean 4 proof (mutual structural induction over nested document trees: code mirror = specification) + differential correspondence through Builder.FromBytes/Get",
        explanation="reduce_eq_resolve for all WF documents; correspondence on generated documents x assignments",
    ),
    "C10": dict(
        title="gconfig: Get is a pure function of (config, key, type)",
        lean_modules=["Generated.GConfigKey", "Properties.C10"],
        extract=[dict(name="extract-gconfig", cmd=["go", "run", "-C", "harness", "./cmd/extract-gconfig"])],
        harness=[dict(bin="h-gconfig"), dict(bin="h-gconfig", out="h-gconfig-race", race=True, args=["-scale", "0.15"])],
        trusted=[GO_TRUST % "h-gconfig", "cmd/extract-gconfig (reads how getFromCache builds its memo key)",
                 "xsync.MapOf.Compute is atomic per key (every concurrent mix is then equivalent to a sequential history, to which the theorem applies)",
                 "the YAML conversion into T is a pure function of (config, key, T) and yields values of dynamic type T (hypothesis ConvTyped)"],
        assumptions=["result types as listed in the quantifier (a T whose conversion panics INSIDE the fill callback, e.g. the interface type error, leaves an xsync bucket locked; such types are outside the quantifier and recorded in DESIGN.md)",
                     "callers do not mutate returned slices/maps"],
        level_text="Machine-checked Lean 4 theorems over a model of getFromCache: for ANY memo-key function injective in (key, type), the outcome of a request after any request history equals its outcome on a fresh config (get_history_independent, by the invariant that every memo entry was produced by a request with exactly that memo key), no request panics, errors are not memoized, other requests are unaffected. The memo-key construction in config.go is re-read on every run by an extractor and the regenerated fact must be the injective pair (obligation code_memo_key_is_pair; the pinned concatenation is proved non-injective with a panicking witness). Tied to /repo by request histories incl. 88 colliding concatenation pairs and 16-goroutine mixes (also under the race detector), each result compared with a fresh Config.",
        level_note="Trusted: Lean kernel + standard axioms; per-key atomicity of xsync.MapOf.Compute (concurrent clause reduces to the sequential theorem); the extractor; yaml.v3 conversion as a pure function (not modelled).",
        technique="Lean 4 proof (history independence from injectivity of the memo key, induction over request histories) + regenerated fact about the key construction + differential histories against fresh configs",
        explanation="history independence for all histories; tie A on the memo key; differential histories",
    ),
    "C11": dict(
        title="set: BitSet is exact bit-set algebra and reports changes truthfully",
        lean_modules=["Properties.C11"],
        harness=[dict(bin="h-set")],
        trusted=[GO_TRUST % "h-set", "Go's conversion BitSet[T](item) zero-extends (language spec)"],
        assumptions=["flags enter the model already zero-extended to 64 bits (theorem mem_ofFlag covers every width <= 64)"],
        level_text="Machine-checked Lean 4 theorems (kernel-only axioms) over a BitVec 64 model that mirrors bit_set.go statement by statement: union/difference/intersection/subset characterisations, change flag <-> value changed, multi-argument = sequential, for every set, every flag list and every flag width. The model is tied to /repo by executing model and implementation on all 65536 (set,flag) pairs of an 8-bit flag type (all triples in the thorough tier) plus random wide calls and sequences.",
        level_note="Trusted: Lean kernel + propext/Quot.sound/Classical.choice as reported by #print axioms; the Go harness and Lean driver; Go's integer conversion semantics. The theorem is about the model; the exhaustive 8-bit correspondence and random 16/32/64-bit runs are what tie it to the code.",
        technique="Lean 4 proof (induction over flag lists, bitwise extensionality) + exhaustive model/implementation correspondence",
        explanation="theorems over all BitVec 64 sets and all flag lists; correspondence exhaustive on the 8-bit flag type",
    ),
    "C07": dict(
        title="set: Set is a mathematical set under every operation sequence",
        lean_modules=["Properties.C07"],
        harness=[dict(bin="h-set")],
        trusted=[GO_TRUST % "h-set", "Go's built-in map is a finite map (insert/delete/lookup/len/range)"],
        assumptions=["Has/HasAny are called with at least one argument (the quantifier); zero-argument calls are compared only in the out-of-domain stream"],
        level_text="Machine-checked Lean 4 refinement: the model of set.go (nil/allocated map as Option (List), every early return and changed-flag guard mirrored) refines the mathematical set for EVERY operation sequence of any length over any element type (refines_math_set, by induction over the op list from the no-duplicates invariant), with Has/HasAny/Slice characterisations, change-flag <-> membership-changed, and order independence of AddSet/RemoveSet over Go's map iteration order. Tied to /repo by differential execution of random op sequences on int/string/struct sets with a full membership probe after every mutation.",
        level_note="Trusted: Lean kernel + standard axioms; Go's built-in map; the Go harness and the Lean driver. The theorem is about the model; the correspondence (20k sequences quick, 600k thorough) ties it to set.go.",
        technique="Lean 4 proof (refinement to a mathematical set by induction over operation sequences) + differential correspondence on op histories",
        explanation="refinement theorem for all op sequences; correspondence on random histories",
    ),
    "C17": dict(
        title="set: JSON and YAML encodings of Set round-trip membership",
        lean_modules=["Properties.C17"],
        harness=[dict(bin="h-set")],
        trusted=[GO_TRUST % "h-set", "encoding/json and gopkg.in/yaml.v3 round-trip lists of the element types (hypothesis Codec.RoundTrips; observed by the correspondence run, not proved)"],
        assumptions=["the list codec round-trips the element type (no NaN floats); a literal YAML null decoded into a pre-filled set is yaml.v3 behaviour and out of domain"],
        level_text="Machine-checked Lean 4 theorems, parametric in the element list codec: Unmarshal(Marshal(s)) into any target is exactly target ∪ s (hence exact round trip into nil/empty targets, nil and empty sets included), the encoding is Slice() = each member once, nil exactly when empty. PARTIAL: the codec's own round-trip law is a hypothesis of the theorems, validated differentially (json and yaml.v3, standalone and as struct field, 7 element types incl. YAML-significant strings) rather than proved.",
        level_note="Trusted: Lean kernel + standard axioms; encoding/json and yaml.v3 (not modelled; their list round trip is the hypothesis RoundTrips); the Go harness and Lean driver.",
        technique="Lean 4 proof parametric in a codec law (reusing the C07 refinement lemmas) + differential correspondence through the real codecs",
        explanation="partial: codec law is a hypothesis; everything Set itself contributes is proved",
    ),
}

# properties not claimed, with the reason (kept current; see DESIGN.md)
NOT_CLAIMED = {}

import Model.GSync
/-!
# Book-keeping invariant: the counter is the sum of the deltas whose update has executed
(independent of `NonNeg`; used by C02)
-/
namespace GSync

def addedSum (ts : List Thread) : Int := (ts.map (fun t => t.added.sum)).sum

/-- relation between the deltas begun and the deltas applied, per program counter -/
def BA (t : Thread) : Prop :=
  match t.pc with
  | .aLock d | .aAdd d => t.begun = d :: t.added
  | _ => t.begun = t.added

structure Inv2 (s : St) : Prop where
  cnt : s.sh.count = addedSum s.threads
  ba : ∀ (i : Nat) (t : Thread), s.threads[i]? = some t → BA t

theorem sum_map_set (f : Thread → Int) (l : List Thread) (i : Nat) (t t' : Thread)
    (h : l[i]? = some t) : ((l.set i t').map f).sum = (l.map f).sum - f t + f t' := by
  induction l generalizing i with
  | nil => simp at h
  | cons a l ih =>
    cases i with
    | zero => simp at h; subst h; simp; omega
    | succ i =>
      simp at h
      have := ih i h
      simp only [List.set_cons_succ, List.map_cons, List.sum_cons] at this ⊢
      omega

theorem enter_added (L : Bool) (zc : Nat) (t : Thread) : (enter L zc t).added = t.added := by
  unfold enter; split <;> simp

theorem enter_BA (zc : Nat) (t : Thread) (h : t.begun = t.added) : BA (enter true zc t) := by
  unfold enter; split <;> simp [BA, h]

theorem tstep_added (sh : Shared) (i : Nat) (t : Thread) :
    (tstep true sh i t).1.count - sh.count =
      (tstep true sh i t).2.1.added.sum - t.added.sum := by
  cases hp : t.pc with
  | idle => simp [tstep, hp]
  | aLock d => simp only [tstep, hp]; cases sh.lock <;> simp
  | aAdd d =>
    simp only [tstep, hp, finishAdd]
    by_cases h1 : sh.count + d = 0
    · rw [if_pos h1]; simp; omega
    · by_cases h2 : 0 < d ∧ sh.count + d = d
      · rw [if_neg h1, if_pos h2]; simp; omega
      · rw [if_neg h1, if_neg h2]; simp; omega
  | aSwap v => simp only [tstep, hp, finishAdd]; split <;> simp
  | aCloseOld v ch => simp [tstep, hp, finishAdd]
  | aCAS v => simp only [tstep, hp, finishAdd]; split <;> simp
  | aCloseNew v ch => simp [tstep, hp, finishAdd]
  | aUnlock v => simp [tstep, hp, enter_added]
  | wCount => simp [tstep, hp]
  | wChan c => simp only [tstep, hp]; split <;> simp [enter_added]
  | cLoad => simp [tstep, hp, enter_added]

theorem tstep_BA (sh : Shared) (i : Nat) (t : Thread) (h : BA t) : BA (tstep true sh i t).2.1 := by
  unfold BA at h
  cases hp : t.pc with
  | idle => simp only [hp] at h; simpa [tstep, hp, BA] using h
  | aLock d => simp only [hp] at h; simp only [tstep, hp]; cases sh.lock <;> simp [BA, hp, h]
  | aAdd d =>
    simp only [hp] at h
    simp only [tstep, hp, finishAdd]
    by_cases h1 : sh.count + d = 0
    · rw [if_pos h1]; simp [BA, h]
    · by_cases h2 : 0 < d ∧ sh.count + d = d
      · rw [if_neg h1, if_pos h2]; simp [BA, h]
      · rw [if_neg h1, if_neg h2]; simp [BA, h]
  | aSwap v => simp only [hp] at h; simp only [tstep, hp, finishAdd]; split <;> simp [BA, h]
  | aCloseOld v ch => simp only [hp] at h; simp [tstep, hp, finishAdd, BA, h]
  | aCAS v => simp only [hp] at h; simp only [tstep, hp, finishAdd]; split <;> simp [BA, h]
  | aCloseNew v ch => simp only [hp] at h; simp [tstep, hp, finishAdd, BA, h]
  | aUnlock v => simp only [hp] at h; simp only [tstep, hp]; exact enter_BA _ _ (by simpa using h)
  | wCount => simp only [hp] at h; simp [tstep, hp, BA, h]
  | wChan c =>
    simp only [hp] at h
    simp only [tstep, hp]
    split
    · exact enter_BA _ _ (by simpa using h)
    · simp [BA, h]
  | cLoad => simp only [hp] at h; simp only [tstep, hp]; exact enter_BA _ _ (by simpa using h)

theorem step_inv2 (s : St) (i : Nat) (h : Inv2 s) : Inv2 (step true s i) := by
  unfold step stepL
  cases ht : s.threads[i]? with
  | none => simpa [ht] using h
  | some t =>
    simp only [ht]
    have hi : i < s.threads.length := (List.getElem?_eq_some_iff.1 ht).1
    refine ⟨?_, ?_⟩
    · show (tick (tstep true s.sh i t).1).count = _; simp only [tick, addedSum]
      rw [sum_map_set _ _ _ _ _ ht]
      have := tstep_added s.sh i t
      have hc := h.cnt
      simp only [addedSum] at hc
      omega
    · intro j u hj
      simp only [List.getElem?_set] at hj
      by_cases hji : i = j
      · subst hji; simp [hi] at hj; subst hj
        exact tstep_BA _ _ _ (h.ba i t ht)
      · simp [hji] at hj; exact h.ba j u hj

theorem init_inv2 (progs : List (List Call)) : Inv2 (init true progs) := by
  refine ⟨?_, ?_⟩
  · simp only [init, addedSum]
    induction progs with
    | nil => simp
    | cons p ps ih => simp [enter_added] at ih ⊢; exact ih
  · intro i t ht
    simp only [init, List.getElem?_map] at ht
    cases hp : progs[i]? with
    | none => simp [hp] at ht
    | some p => simp [hp] at ht; subst ht; exact enter_BA _ _ rfl

theorem run_inv2 (s : St) (sched : List Nat) (h : Inv2 s) : Inv2 (run true s sched) := by
  induction sched generalizing s with
  | nil => simpa [run] using h
  | cons a rest ih => simpa [run] using ih (step true s a) (step_inv2 s a h)

end GSync

/-! ## the property's conservative lower bound of the count

"increments that have returned plus decrements that have merely been called" -/
namespace GSync

def negSum (l : List Int) : Int := (l.map (fun d => min d 0)).sum
def posSum (l : List Int) : Int := (l.map (fun d => max d 0)).sum

/-- lower bound contributed by one goroutine: every decrement it has begun, every increment it
has completed (`begun` is newest first; while a call is in flight its delta is the head) -/
def lbT (t : Thread) : Int :=
  negSum t.begun + posSum (if inAdd t.pc then t.begun.tail else t.begun)

def lb (ts : List Thread) : Int := (ts.map lbT).sum

theorem negSum_add_posSum (l : List Int) : negSum l + posSum l = l.sum := by
  induction l with
  | nil => simp [negSum, posSum]
  | cons d l ih =>
    simp only [negSum, posSum, List.map_cons, List.sum_cons] at ih ⊢
    omega

theorem negSum_le (l : List Int) : negSum l ≤ 0 := by
  induction l with
  | nil => simp [negSum]
  | cons d l ih => simp only [negSum, List.map_cons, List.sum_cons] at ih ⊢; omega

theorem lbT_le (t : Thread) (h : BA t) : lbT t ≤ t.added.sum := by
  unfold BA at h
  unfold lbT
  cases hp : t.pc <;> simp only [hp] at h <;> simp only [inAdd, if_true, if_false, Bool.false_eq_true]
  case aLock d =>
    rw [h]; simp only [List.tail_cons]
    have := negSum_add_posSum t.added
    simp only [negSum, List.map_cons, List.sum_cons] at this ⊢; omega
  case aAdd d =>
    rw [h]; simp only [List.tail_cons]
    have := negSum_add_posSum t.added
    simp only [negSum, List.map_cons, List.sum_cons] at this ⊢; omega
  case idle => rw [h]; exact Int.le_of_eq (negSum_add_posSum _)
  case wCount => rw [h]; exact Int.le_of_eq (negSum_add_posSum _)
  case wChan c => rw [h]; exact Int.le_of_eq (negSum_add_posSum _)
  case cLoad => rw [h]; exact Int.le_of_eq (negSum_add_posSum _)
  all_goals
    rw [h]
    cases ha : t.added with
    | nil => simp [negSum, posSum]
    | cons d rest =>
      simp only [List.tail_cons]
      have := negSum_add_posSum rest
      simp only [negSum, posSum, List.map_cons, List.sum_cons] at this ⊢; omega

theorem sum_map_le (f g : Thread → Int) (l : List Thread) (h : ∀ t ∈ l, f t ≤ g t) :
    (l.map f).sum ≤ (l.map g).sum := by
  induction l with
  | nil => simp
  | cons a l ih =>
    simp only [List.map_cons, List.sum_cons]
    have h1 := h a (by simp)
    have h2 := ih (fun t ht => h t (by simp [ht]))
    omega

/-- In every state satisfying the book-keeping invariant the conservative lower bound is at most
the counter. -/
theorem lb_le_count_of_inv2 (s : St) (h : Inv2 s) : lb s.threads ≤ s.sh.count := by
  rw [h.cnt, addedSum, lb]
  apply sum_map_le
  intro t ht
  obtain ⟨i, hi⟩ := List.mem_iff_getElem?.1 ht
  exact lbT_le t (h.ba i t hi)

end GSync

/-! ## a syntactic discipline that implies `NonNeg`

If every goroutine only decrements what it has itself incremented before (all prefix sums of
its own deltas are non-negative), the counter never goes negative under any schedule. -/
namespace GSync

def addsOf (p : List Call) : List Int :=
  p.filterMap (fun c => match c with | .add d => some d | _ => none)

@[simp] theorem addsOf_nil : addsOf [] = [] := rfl
@[simp] theorem addsOf_add (d : Int) (p : List Call) : addsOf (.add d :: p) = d :: addsOf p := rfl
@[simp] theorem addsOf_wait (p : List Call) : addsOf (.wait :: p) = addsOf p := rfl
@[simp] theorem addsOf_count (p : List Call) : addsOf (.count :: p) = addsOf p := rfl

def PrefixNonNeg (l : List Int) : Prop := ∀ k, 0 ≤ (l.take k).sum

def SelfBalanced (progs : List (List Call)) : Prop := ∀ p ∈ progs, PrefixNonNeg (addsOf p)

/-- the delta of an `Add` that has begun but not yet updated the counter -/
def inflight : PC → List Int
  | .aLock d | .aAdd d => [d]
  | _ => []

/-- the goroutine's program is: deltas applied so far, the one in flight, the calls to come -/
def Rel3 (p : List Call) (t : Thread) : Prop :=
  addsOf p = t.added.reverse ++ inflight t.pc ++ addsOf t.prog

theorem enter_Rel3 (p : List Call) (zc : Nat) (t : Thread)
    (h : addsOf p = t.added.reverse ++ addsOf t.prog) : Rel3 p (enter true zc t) := by
  unfold enter Rel3
  split
  · rename_i hp; rw [hp] at h; simp [inflight, h, hp]
  · rename_i d rest hp; rw [hp] at h; simp [inflight, h]
  · rename_i rest hp; rw [hp] at h; simp [inflight, h]
  · rename_i rest hp; rw [hp] at h; simp [inflight, h]

theorem tstep_Rel3 (p : List Call) (sh : Shared) (i : Nat) (t : Thread) (h : Rel3 p t) :
    Rel3 p (tstep true sh i t).2.1 := by
  unfold Rel3 at h
  cases hp : t.pc with
  | idle => simp only [hp] at h; simpa [tstep, hp, Rel3] using h
  | aLock d => simp only [hp, inflight] at h; simp only [tstep, hp]; cases sh.lock <;> simp [Rel3, hp, inflight, h]
  | aAdd d =>
    simp only [hp, inflight] at h
    simp only [tstep, hp, finishAdd]
    by_cases h1 : sh.count + d = 0
    · rw [if_pos h1]; simp [Rel3, inflight, h]
    · by_cases h2 : 0 < d ∧ sh.count + d = d
      · rw [if_neg h1, if_pos h2]; simp [Rel3, inflight, h]
      · rw [if_neg h1, if_neg h2]; simp [Rel3, inflight, h]
  | aSwap v => simp only [hp, inflight] at h; simp only [tstep, hp, finishAdd]; split <;> simp [Rel3, inflight, h]
  | aCloseOld v ch => simp only [hp, inflight] at h; simp [tstep, hp, finishAdd, Rel3, inflight, h]
  | aCAS v => simp only [hp, inflight] at h; simp only [tstep, hp, finishAdd]; split <;> simp [Rel3, inflight, h]
  | aCloseNew v ch => simp only [hp, inflight] at h; simp [tstep, hp, finishAdd, Rel3, inflight, h]
  | aUnlock v =>
    simp only [hp, inflight] at h; simp only [tstep, hp]
    exact enter_Rel3 p _ _ (by simpa using h)
  | wCount => simp only [hp, inflight] at h; simp [tstep, hp, Rel3, inflight, h]
  | wChan c =>
    simp only [hp, inflight] at h
    simp only [tstep, hp]
    split
    · exact enter_Rel3 p _ _ (by simpa using h)
    · simp [Rel3, inflight, h]
  | cLoad =>
    simp only [hp, inflight] at h; simp only [tstep, hp]
    exact enter_Rel3 p _ _ (by simpa using h)

def Inv3 (progs : List (List Call)) (s : St) : Prop :=
  ∀ (i : Nat) (t : Thread), s.threads[i]? = some t → ∃ p, progs[i]? = some p ∧ Rel3 p t

theorem init_inv3 (progs : List (List Call)) : Inv3 progs (init true progs) := by
  intro i t ht
  simp only [init, List.getElem?_map] at ht
  cases hp : progs[i]? with
  | none => simp [hp] at ht
  | some p =>
    simp [hp] at ht; subst ht
    exact ⟨p, rfl, enter_Rel3 p _ _ (by simp)⟩

theorem step_inv3 (progs : List (List Call)) (s : St) (i : Nat) (h : Inv3 progs s) :
    Inv3 progs (step true s i) := by
  unfold step stepL
  cases ht : s.threads[i]? with
  | none => simpa [ht] using h
  | some t =>
    simp only [ht]
    have hi : i < s.threads.length := (List.getElem?_eq_some_iff.1 ht).1
    intro j u hj
    simp only [List.getElem?_set] at hj
    by_cases hji : i = j
    · subst hji; simp [hi] at hj; subst hj
      obtain ⟨p, hp, hr⟩ := h i t ht
      exact ⟨p, hp, tstep_Rel3 p _ _ _ hr⟩
    · simp [hji] at hj; exact h j u hj

theorem run_inv3 (progs : List (List Call)) (s : St) (sched : List Nat) (h : Inv3 progs s) :
    Inv3 progs (run true s sched) := by
  induction sched generalizing s with
  | nil => simpa [run] using h
  | cons a rest ih => simpa [run] using ih (step true s a) (step_inv3 progs s a h)

theorem sum_reverse (l : List Int) : l.reverse.sum = l.sum := by
  induction l with
  | nil => rfl
  | cons a l ih => simp [List.sum_append, ih]; omega

/-- Self-balanced client programs never drive the counter negative, under any schedule. -/
theorem selfBalanced_nonneg (progs : List (List Call)) (hb : SelfBalanced progs) (sched : List Nat) :
    NonNeg true (init true progs) sched := by
  intro pre _
  have h2 := run_inv2 _ pre (init_inv2 progs)
  have h3 := run_inv3 progs _ pre (init_inv3 progs)
  rw [h2.cnt, addedSum]
  suffices h : ∀ t ∈ (run true (init true progs) pre).threads, 0 ≤ t.added.sum by
    generalize (run true (init true progs) pre).threads = ts at h
    induction ts with
    | nil => simp
    | cons a l ih =>
      simp only [List.map_cons, List.sum_cons]
      have := h a (by simp)
      have := ih (fun t ht => h t (by simp [ht]))
      omega
  intro t ht
  obtain ⟨i, hi⟩ := List.mem_iff_getElem?.1 ht
  obtain ⟨p, hp, hr⟩ := h3 i t hi
  have hpn := hb p (List.mem_of_getElem? hp) t.added.length
  unfold Rel3 at hr
  rw [hr, List.append_assoc, List.take_left' (by simp)] at hpn
  rw [sum_reverse] at hpn
  exact hpn

end GSync

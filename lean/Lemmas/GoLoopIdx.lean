import Lemmas.GoLoop
/-!
# Index loops of translated Go code whose body reads `xs[i]` more than once

`for i := range xs { … xs[i] … xs[i] … }` becomes a `forIn` over `List.range' 0 xs.length` whose body calls
`Go.listGet xs i` wherever the Go text indexes.  When `xs` is not written in the loop, such a loop is a loop
over the elements: it suffices that the body at an index in range is a function of the element there.
-/
namespace GoLoop

theorem listGet_lt {α : Type} [Inhabited α] (xs : List α) (i : Nat) (h : i < xs.length) :
    Go.listGet xs i = pure xs[i] := by
  unfold Go.listGet; simp [h]

theorem forIn_range'_idx {α β : Type} (xs : List α) (body : Nat → β → Go.M (ForInStep β))
    (body' : α → β → Go.M (ForInStep β))
    (h : ∀ (i : Nat) (b : β) (hi : i < xs.length), body i b = body' xs[i] b) :
    ∀ (k : Nat) (b : β), k ≤ xs.length →
    forIn (List.range' k (xs.length - k)) b body = forIn (xs.drop k) b body' := by
  intro k
  generalize hn : xs.length - k = n
  induction n generalizing k with
  | zero =>
    intro b hk
    have : xs.drop k = [] := List.drop_eq_nil_of_le (by omega)
    simp [this]
  | succ n ih =>
    intro b hk
    have hlt : k < xs.length := by omega
    have hd : xs.drop k = xs[k] :: xs.drop (k + 1) := (List.drop_eq_getElem_cons hlt)
    rw [hd, List.range'_succ, List.forIn_cons, List.forIn_cons, h k b hlt]
    congr 1
    funext r
    cases r with
    | done b' => rfl
    | yield b' => exact ih (k + 1) (by omega) b' (by omega)

/-- the loop from index 0 -/
theorem forIn_range_idx {α β : Type} (xs : List α) (body : Nat → β → Go.M (ForInStep β))
    (body' : α → β → Go.M (ForInStep β))
    (h : ∀ (i : Nat) (b : β) (hi : i < xs.length), body i b = body' xs[i] b) (b : β) :
    forIn (List.range' 0 xs.length) b body = forIn xs b body' := by
  have := forIn_range'_idx xs body body' h 0 b (Nat.zero_le _)
  simpa using this

end GoLoop

// go2lean -spec genumgen: translation of the layer of the enum generator that decides WHICH trait rows
// and WHICH traits reach the template (C12, C05):
//
//	genum/gen/traits.go    getParsableUnderlying and its eleven GetParsableUnderlying…For… wrappers, the three
//	                       GetParsable…Unmarshalable filters, extractUnderlying, hasUnderlying, the three
//	                       implements…Unmarshaler queries, TraitDesc.InstanceOf, TraitInstance.Value
//	genum/gen/generate.go  validateParsableTraits, processDuplicates
//
// What go/types answers is an ATTRIBUTE of the trait descriptor: `td.Type` becomes a `GType` with the
// fields `basic` (`Underlying().(*types.Basic)` and its `Kind()`), `defaultTypeId` (the class of `types.Default(T)`
// under `types.Identical`), `typesImplements pkg iface` and
// `gcTypeImplements pkg iface` (types.Implements / gencommon.TypeImplements against the interface that
// gencommon.FindIFaceDef(pkg, iface) finds).  `processDuplicates` calls the TRANSLATED
// `Values.getPrimary` of Generated/GoGenumValues.lean.
//
// Fragment (anything else makes the translator fail): typed locals, `:=` / `=` with one or two names,
// comma-ok map lookup (also as the init of an `if`), `m[k] = v`, `xs[i].F = e`, a write through the copy
// a range loop hands out (`for _, x := range xs { … x.F[i].G = e … }`: the slice field of the copy shares
// its array with `xs[k].F`, so the write lands in `xs`), `for _, x := range <slice>`,
// `for i[, x] := range <slice>`, `for _, v := range <map>` (order = a parameter `walk`), if / else,
// `switch` on a value with constant case lists, early return, `continue`, `panic(lit)`, `append`, `len`,
// `make`, `slices.DeleteFunc(xs, func(t T) bool { return <pure> })`, `sort.Sort(xs)` for a slice type whose
// `Less(i, j)` is `return s[i].F < s[j].F`, `fmt.Errorf(lit, …)` (the error is its format string, a named constant per site),
// `log.Printf(…)` (dropped: it writes to stderr only), short-circuit `&&` / `||`, calls of other translated
// functions, of function-valued parameters and of `getPrimary`.  A slice parameter that the function
// writes into is returned in front of the function's own results.
package main

import (
	"fmt"
	"go/ast"
	"go/parser"
	"go/token"
	"os"
	"path/filepath"
	"strconv"
	"strings"
)

func init() { register("genumgen", "../lean/Generated/GoGenumGen.lean", runGenumGen) }

const (
	gtStr   = "String"
	gtBool  = "Bool"
	gtNat   = "Nat"
	gtU64   = "Go.U64"
	gtVal   = "GValue"
	gtVals  = "List GValue"
	gtTI    = "GTraitInstance"
	gtTIs   = "List GTraitInstance"
	gtTD    = "GTraitDesc"
	gtTDs   = "List GTraitDesc"
	gtOptTI = "Option GTraitInstance"
	gtUnd   = "Underlying"
	gtType  = "GType"
	gtFn    = "(GTraitDesc → Go.M Bool)"
	gtErr   = "Option String"
	gtKVss  = "Go.KV String String"
	gtKVuv  = "Go.KV Go.U64 (List GValue)"
	gtKVst  = "Go.KV String (List GType)"
	gtTypes = "List GType"
	gtBK    = "BasicKind"
	gtPrim  = "GValue × Bool" // result of getPrimary
	gtNil   = "nil"
)

// the constants of go/types.BasicKind (go/types is the standard library: this list is its API)
var basicKinds = []string{"Invalid", "Bool", "Int", "Int8", "Int16", "Int32", "Int64", "Uint", "Uint8", "Uint16", "Uint32", "Uint64",
	"Uintptr", "Float32", "Float64", "Complex64", "Complex128", "String", "UnsafePointer",
	"UntypedBool", "UntypedInt", "UntypedRune", "UntypedFloat", "UntypedComplex", "UntypedString", "UntypedNil"}

type gParam struct{ name, ty string }

type gFn struct {
	key, lean string
	decl      *ast.FuncDecl
	params    []gParam // receiver first
	rets      []string
	mut       []string // slice parameters the body writes into: returned in front of the results
	walk      string   // type of the map the body ranges over ("" = none): the function takes `walk`
}

type gWriteBack struct{ list, idx string }

type gg struct {
	fields map[string]map[string]string // Lean struct type -> field -> Lean type
	consts map[string]string            // package constants -> Lean expression
	cty    map[string]string            // package constants -> Lean type
	fns    map[string]*gFn
	less   map[string]string // Lean list type -> element comparator of its Less method (Lean lambda)
	env    []map[string]string
	out    strings.Builder
	cur    *gFn
	wb     map[string]gWriteBack // range variable -> (slice it copies from, hidden index)
	errs   []string              // definitions of the current function's error messages
	n      int
}

func (t *gg) line(ind int, s string) { t.out.WriteString(strings.Repeat("  ", ind) + s + "\n") }
func (t *gg) push()                  { t.env = append(t.env, map[string]string{}) }
func (t *gg) pop()                   { t.env = t.env[:len(t.env)-1] }
func (t *gg) bind(n, ty string)      { t.env[len(t.env)-1][n] = ty }
func (t *gg) lookup(n string) (string, bool) {
	for i := len(t.env) - 1; i >= 0; i-- {
		if k, ok := t.env[i][n]; ok {
			return k, true
		}
	}
	return "", false
}

func (t *gg) bad(n ast.Node, what string) {
	fail("genumgen: %s: %s `%s` is outside the translated fragment", at(n), what, src(n))
}

func gLeanType(e ast.Expr) string {
	switch src(e) {
	case "string":
		return gtStr
	case "bool":
		return gtBool
	case "int":
		return gtNat
	case "uint64":
		return gtU64
	case "Value":
		return gtVal
	case "Values", "[]Value":
		return gtVals
	case "TraitInstance":
		return gtTI
	case "TraitInstances", "[]TraitInstance":
		return gtTIs
	case "TraitDesc", "*TraitDesc":
		return gtTD
	case "TraitDescs", "[]TraitDesc":
		return gtTDs
	case "*TraitInstance":
		return gtOptTI
	case "underlying":
		return gtUnd
	case "types.Type":
		return gtType
	case "func(*TraitDesc) bool":
		return gtFn
	case "error":
		return gtErr
	case "map[string]string":
		return gtKVss
	case "map[uint64]Values":
		return gtKVuv
	case "map[string][]types.Type":
		return gtKVst
	case "[]types.Type":
		return gtTypes
	}
	return ""
}

func gElem(ty string) string {
	if strings.HasPrefix(ty, "List ") {
		return strings.TrimPrefix(ty, "List ")
	}
	return ""
}

func gKV(ty string) (k, v string, ok bool) {
	switch ty {
	case gtKVss:
		return gtStr, gtStr, true
	case gtKVuv:
		return gtU64, gtVals, true
	case gtKVst:
		return gtStr, gtTypes, true
	}
	return "", "", false
}

func gStrLit(n ast.Node, v string) string {
	s, err := strconv.Unquote(v)
	if err != nil {
		fail("genumgen: %s: string literal %s", at(n), v)
	}
	var b strings.Builder
	b.WriteByte('"')
	for _, r := range s {
		switch {
		case r == '\\' || r == '"':
			b.WriteByte('\\')
			b.WriteRune(r)
		case r >= 0x20 && r <= 0x7e:
			b.WriteRune(r)
		case r < 0x20:
			fmt.Fprintf(&b, "\\x%02x", r) // the same escape in Lean
		default:
			fail("genumgen: %s: string literal %s has a character the translation does not carry over", at(n), v)
		}
	}
	b.WriteByte('"')
	return b.String()
}

// typeOf: the Lean type of a Go expression; fails outside the fragment.
func (t *gg) typeOf(e ast.Expr) string { _, ty := t.expr(e, ""); return ty }

// expr: (Lean term, Lean type).  `want` is the type the context asks for (only used for `nil`).
func (t *gg) expr(e ast.Expr, want string) (string, string) {
	switch x := e.(type) {
	case *ast.ParenExpr:
		return t.expr(x.X, want)
	case *ast.Ident:
		switch x.Name {
		case "true", "false":
			return x.Name, gtBool
		case "nil":
			if want == gtErr || want == gtOptTI {
				return "none", want
			}
			t.bad(e, "nil of an unknown type")
		}
		if ty, ok := t.lookup(x.Name); ok {
			return name(x.Name), ty
		}
		if c, ok := t.consts[x.Name]; ok {
			return c, t.cty[x.Name]
		}
		if f, ok := t.fns[x.Name]; ok && len(f.params) == 1 && f.params[0].ty == gtTD && len(f.rets) == 1 && f.rets[0] == gtBool && len(f.mut) == 0 {
			return f.lean, gtFn // a translated function used as a value
		}
	case *ast.BasicLit:
		switch x.Kind {
		case token.INT:
			return x.Value, gtNat
		case token.STRING:
			return gStrLit(x, x.Value), gtStr
		}
	case *ast.SelectorExpr:
		if id, ok := x.X.(*ast.Ident); ok && id.Name == "types" {
			if _, shadow := t.lookup("types"); !shadow {
				for _, k := range basicKinds {
					if k == x.Sel.Name {
						return "BasicKind." + k, gtBK
					}
				}
			}
			t.bad(e, "go/types name")
		}
		a, ty := t.expr(x.X, "")
		if fs, ok := t.fields[ty]; ok {
			if fty, ok := fs[x.Sel.Name]; ok {
				return a + "." + name(x.Sel.Name), fty
			}
		}
	case *ast.IndexExpr:
		a, ty := t.expr(x.X, "")
		i, ity := t.expr(x.Index, "")
		if el := gElem(ty); el != "" && ity == gtNat {
			return "(← Go.listGet " + a + " " + i + ")", el
		}
		if kt, vt, kv := gKV(ty); kv && ity == kt {
			return "(Option.getD (Go.kvGet " + a + " " + i + ") default)", vt // the zero value when the key is absent
		}
	case *ast.UnaryExpr:
		switch x.Op {
		case token.NOT:
			a, ty := t.expr(x.X, "")
			if ty == gtBool {
				return "(!" + a + ")", gtBool
			}
		case token.AND:
			// &x of a struct handed to a callee that only reads it (checked where the callee is translated);
			// &xs[i] as a result of type *T: the element, or nil
			a, ty := t.expr(x.X, "")
			if ty == gtTD {
				return a, gtTD
			}
			if ty == gtTI && want == gtOptTI {
				return "(some " + a + ")", gtOptTI
			}
		}
	case *ast.CompositeLit:
		if ty := gLeanType(x.Type); gElem(ty) != "" {
			var els []string
			for _, el := range x.Elts {
				a, ety := t.expr(el, "")
				if ety != gElem(ty) {
					t.bad(e, "composite literal")
				}
				els = append(els, a)
			}
			return "([" + strings.Join(els, ", ") + "] : " + ty + ")", ty
		}
	case *ast.BinaryExpr:
		return t.binary(x)
	case *ast.CallExpr:
		return t.call(x, want)
	}
	t.bad(e, "expression")
	return "", ""
}

func (t *gg) binary(x *ast.BinaryExpr) (string, string) {
	if x.Op == token.LAND || x.Op == token.LOR {
		a, ta := t.expr(x.X, "")
		b, tb := t.expr(x.Y, "")
		if ta != gtBool || tb != gtBool {
			t.bad(x, "operands of")
		}
		if strings.Contains(b, "←") {
			// the right operand can panic or calls a function: evaluated only when the left one does not decide
			f := "Go.andThen"
			if x.Op == token.LOR {
				f = "Go.orElse"
			}
			return "(← " + f + " " + a + " (do return " + b + "))", gtBool
		}
		if x.Op == token.LAND {
			return "(" + a + " && " + b + ")", gtBool
		}
		return "(" + a + " || " + b + ")", gtBool
	}
	if id, ok := x.Y.(*ast.Ident); ok && id.Name == "nil" && (x.Op == token.EQL || x.Op == token.NEQ) {
		// a types.Type interface value compared with nil
		if a, ta := t.expr(x.X, ""); ta == gtType {
			if x.Op == token.EQL {
				return a + ".isNil", gtBool
			}
			return "(!" + a + ".isNil)", gtBool
		}
	}
	a, ta := t.expr(x.X, "")
	b, tb := t.expr(x.Y, ta)
	if ta != tb {
		fail("genumgen: %s: `%s` mixes %s and %s", at(x), src(x), ta, tb)
	}
	eq := ta == gtStr || ta == gtBool || ta == gtNat || ta == gtU64 || ta == gtUnd || ta == gtBK
	ord := ta == gtStr || ta == gtNat || ta == gtU64
	switch x.Op {
	case token.EQL:
		if eq {
			return "(" + a + " == " + b + ")", gtBool
		}
	case token.NEQ:
		if eq {
			return "(" + a + " != " + b + ")", gtBool
		}
	case token.LSS:
		if ord {
			return "(decide (" + a + " < " + b + "))", gtBool
		}
	case token.GTR:
		if ord {
			return "(decide (" + a + " > " + b + "))", gtBool
		}
	case token.LEQ:
		if ord {
			return "(decide (" + a + " ≤ " + b + "))", gtBool
		}
	case token.GEQ:
		if ord {
			return "(decide (" + a + " ≥ " + b + "))", gtBool
		}
	case token.ADD:
		if ta == gtNat {
			return "(" + a + " + " + b + ")", gtNat
		}
		if ta == gtStr {
			return "(" + a + " ++ " + b + ")", gtStr
		}
	}
	t.bad(x, "operator in")
	return "", ""
}

// callee: the translated function a call expression refers to, with the receiver as first argument
func (t *gg) callee(x *ast.CallExpr) (*gFn, []ast.Expr) {
	switch f := x.Fun.(type) {
	case *ast.Ident:
		if _, local := t.lookup(f.Name); !local {
			if fn, ok := t.fns[f.Name]; ok {
				return fn, x.Args
			}
		}
	case *ast.SelectorExpr:
		if id, ok := f.X.(*ast.Ident); ok {
			if _, local := t.lookup(id.Name); !local {
				return nil, nil // a package
			}
		}
		_, rty := t.expr(f.X, "")
		for _, fn := range t.fns {
			if len(fn.params) > 0 && fn.decl.Recv != nil && fn.params[0].ty == rty && fn.decl.Name.Name == f.Sel.Name {
				return fn, append([]ast.Expr{f.X}, x.Args...)
			}
		}
	}
	return nil, nil
}

func (t *gg) applyFn(x *ast.CallExpr, fn *gFn, args []ast.Expr) string {
	if len(fn.mut) > 0 || fn.walk != "" {
		t.bad(x, "call of a function that writes into its arguments:")
	}
	if len(args) != len(fn.params) || x.Ellipsis.IsValid() {
		t.bad(x, "arguments of")
	}
	s := "(← " + fn.lean
	for i, a := range args {
		v, ty := t.expr(a, fn.params[i].ty)
		if ty != fn.params[i].ty {
			fail("genumgen: %s: argument %d of `%s` is a %s, the parameter a %s", at(x), i, src(x), ty, fn.params[i].ty)
		}
		s += " " + v
	}
	return s + ")"
}

func (t *gg) call(x *ast.CallExpr, want string) (string, string) {
	if fn, args := t.callee(x); fn != nil {
		if len(fn.rets) == 1 {
			return t.applyFn(x, fn, args), fn.rets[0]
		}
		if len(fn.rets) == 2 {
			return t.applyFn(x, fn, args), fn.rets[0] + " × " + fn.rets[1]
		}
		t.bad(x, "call without a result used as a value:")
	}
	fs := src(x.Fun)
	if id, ok := x.Fun.(*ast.Ident); ok {
		if ty, local := t.lookup(id.Name); local {
			if ty == gtFn && len(x.Args) == 1 {
				a, aty := t.expr(x.Args[0], gtTD)
				if aty == gtTD {
					return "(← " + name(id.Name) + " " + a + ")", gtBool
				}
			}
			t.bad(x, "call of a local")
		}
	}
	switch fs {
	case "len":
		if len(x.Args) == 1 {
			a, ty := t.expr(x.Args[0], "")
			if _, _, kv := gKV(ty); gElem(ty) != "" || kv {
				return "(List.length " + a + ")", gtNat
			}
		}
	case "make":
		if len(x.Args) >= 1 {
			ty := gLeanType(x.Args[0])
			for _, a := range x.Args[1:] {
				if t.typeOf(a) != gtNat {
					t.bad(x, "size in")
				}
			}
			if _, _, kv := gKV(ty); kv && len(x.Args) <= 2 {
				return "([] : " + ty + ")", ty // the capacity hint does not matter
			}
			if gElem(ty) != "" && len(x.Args) >= 2 && src(x.Args[1]) == "0" {
				return "([] : " + ty + ")", ty // length 0; the capacity does not matter
			}
		}
	case "append":
		if len(x.Args) == 2 && !x.Ellipsis.IsValid() {
			a, ty := t.expr(x.Args[0], "")
			b, ety := t.expr(x.Args[1], "")
			if gElem(ty) != "" && gElem(ty) == ety {
				return "(" + a + " ++ [" + b + "])", ty
			}
		}
	case "fmt.Errorf":
		if len(x.Args) >= 1 {
			// the error is identified by its format string (a literal or a concatenation of literals); the
			// arguments only fill in the message
			if lit := gConcatLit(x.Args[0]); lit != "" {
				// a named constant per error site, so that obligations do not depend on the wording
				nm := fmt.Sprintf("%s_err%d", strings.ReplaceAll(t.cur.lean, ".", "_"), len(t.errs)+1)
				t.errs = append(t.errs, "def "+nm+" : String := "+lit+"\n")
				return "(some " + nm + ")", gtErr
			}
		}
	case "types.Identical":
		// identity of the DEFAULT types of two trait types: an equivalence relation; `defaultTypeId` names the class
		if len(x.Args) == 2 {
			var ids []string
			for _, a := range x.Args {
				c, ok := a.(*ast.CallExpr)
				if !ok || src(c.Fun) != "types.Default" || len(c.Args) != 1 {
					t.bad(x, "call")
				}
				v, ty := t.expr(c.Args[0], "")
				if ty != gtType {
					t.bad(x, "call")
				}
				ids = append(ids, v+".defaultTypeId")
			}
			return "(" + ids[0] + " == " + ids[1] + ")", gtBool
		}
	case "slices.DeleteFunc":
		if len(x.Args) == 2 {
			a, ty := t.expr(x.Args[0], "")
			fl, ok := x.Args[1].(*ast.FuncLit)
			if gElem(ty) != "" && ok && len(fl.Type.Params.List) == 1 && len(fl.Type.Params.List[0].Names) == 1 &&
				gLeanType(fl.Type.Params.List[0].Type) == gElem(ty) && len(fl.Body.List) == 1 {
				if r, ok := fl.Body.List[0].(*ast.ReturnStmt); ok && len(r.Results) == 1 {
					p := fl.Type.Params.List[0].Names[0].Name
					t.push()
					t.bind(p, gElem(ty))
					b, bty := t.expr(r.Results[0], "")
					t.pop()
					if bty == gtBool && !strings.Contains(b, "←") {
						// slices.DeleteFunc keeps, in order, the elements for which the function is false
						return "(List.filter (fun " + name(p) + " => !" + b + ") " + a + ")", ty
					}
				}
			}
		}
	}
	if sel, ok := x.Fun.(*ast.SelectorExpr); ok && sel.Sel.Name == "getPrimary" && len(x.Args) == 0 {
		a, ty := t.expr(sel.X, "")
		if ty == gtVals {
			return "(← GValues.getPrimary " + a + ")", gtPrim
		}
	}
	if sel, ok := x.Fun.(*ast.SelectorExpr); ok && sel.Sel.Name == "Kind" && len(x.Args) == 0 {
		a, ty := t.expr(sel.X, "")
		if ty == gtBK {
			return a, gtBK // (*types.Basic).Kind()
		}
	}
	t.bad(x, "call")
	return "", ""
}

func gConcatLit(e ast.Expr) string {
	switch x := e.(type) {
	case *ast.BasicLit:
		if x.Kind == token.STRING {
			s, err := strconv.Unquote(x.Value)
			if err != nil {
				return ""
			}
			var b strings.Builder
			for _, r := range s {
				if r >= 0x20 && r <= 0x7e && r != '\\' && r != '"' {
					b.WriteRune(r)
				} else {
					b.WriteRune('?')
				}
			}
			return "\"" + b.String() + "\""
		}
	case *ast.BinaryExpr:
		if x.Op == token.ADD {
			a, b := gConcatLit(x.X), gConcatLit(x.Y)
			if a != "" && b != "" {
				return a[:len(a)-1] + b[1:]
			}
		}
	}
	return ""
}

// rootIdent: xs, xs[i], xs[i].F, x.F[i].G … -> the variable at the root
func rootIdent(e ast.Expr) string {
	for {
		switch x := e.(type) {
		case *ast.Ident:
			return x.Name
		case *ast.SelectorExpr:
			e = x.X
		case *ast.IndexExpr:
			e = x.X
		case *ast.ParenExpr:
			e = x.X
		case *ast.StarExpr:
			e = x.X
		default:
			return ""
		}
	}
}

// writesTo: does the block assign to (something rooted at) variable v
func writesTo(b ast.Node, v string) bool {
	found := false
	returned := map[ast.Expr]bool{} // &xs[i] handed back as a result: translated as a copy of the element (or nil)
	ast.Inspect(b, func(n ast.Node) bool {
		switch x := n.(type) {
		case *ast.ReturnStmt:
			for _, r := range x.Results {
				returned[r] = true
			}
		case *ast.AssignStmt:
			if x.Tok == token.DEFINE {
				return true
			}
			for _, l := range x.Lhs {
				if rootIdent(l) == v {
					found = true
				}
			}
		case *ast.IncDecStmt:
			if rootIdent(x.X) == v {
				found = true
			}
		case *ast.UnaryExpr:
			if x.Op == token.AND && rootIdent(x.X) == v && !returned[x] {
				if _, plain := x.X.(*ast.Ident); !plain {
					found = true // the address of a part escapes
				}
			}
		}
		return true
	})
	return found
}

func (t *gg) block(ind int, b *ast.BlockStmt) {
	t.push()
	if len(b.List) == 0 {
		t.line(ind, "pure ()")
	}
	for _, s := range b.List {
		t.stmt(ind, s)
	}
	t.pop()
}

func (t *gg) define(ind int, n *ast.Ident, ty, val string) {
	if n.Name == "_" {
		return
	}
	t.bind(n.Name, ty)
	t.line(ind, "let mut "+name(n.Name)+" : "+ty+" := "+val)
}

// commaOk: `v, ok := m[k]`
func (t *gg) commaOk(ind int, x *ast.AssignStmt) bool {
	if x.Tok != token.DEFINE || len(x.Lhs) != 2 || len(x.Rhs) != 1 {
		return false
	}
	ix, ok := x.Rhs[0].(*ast.IndexExpr)
	if !ok {
		return false
	}
	m, mty := t.expr(ix.X, "")
	kt, vt, kv := gKV(mty)
	if !kv {
		return false
	}
	k, kty := t.expr(ix.Index, "")
	if kty != kt {
		t.bad(x, "key type in")
	}
	v, ok1 := x.Lhs[0].(*ast.Ident)
	o, ok2 := x.Lhs[1].(*ast.Ident)
	if !ok1 || !ok2 {
		t.bad(x, "statement")
	}
	t.n++
	p := fmt.Sprintf("p%d", t.n)
	t.line(ind, "let "+p+" : Option ("+vt+") := Go.kvGet "+m+" "+k)
	t.define(ind, v, vt, "Option.getD "+p+" default") // the zero value when the key is absent
	t.define(ind, o, gtBool, "Option.isSome "+p)
	return true
}

func (t *gg) ifStmt(ind int, x *ast.IfStmt) {
	t.push()
	if x.Init != nil {
		as, ok := x.Init.(*ast.AssignStmt)
		if !ok {
			t.bad(x.Init, "init statement")
		}
		for _, l := range as.Lhs {
			if id, ok := l.(*ast.Ident); ok && id.Name != "_" {
				if _, bound := t.lookup(id.Name); bound {
					fail("genumgen: %s: the init statement `%s` shadows a variable", at(x), src(x.Init))
				}
			}
		}
		if !t.commaOk(ind, as) {
			t.bad(x.Init, "init statement")
		}
	}
	c, cty := t.expr(x.Cond, "")
	if cty != gtBool {
		t.bad(x.Cond, "condition")
	}
	t.line(ind, "if "+c+" then")
	t.block(ind+1, x.Body)
	switch e := x.Else.(type) {
	case nil:
	case *ast.BlockStmt:
		t.line(ind, "else")
		t.block(ind+1, e)
	case *ast.IfStmt:
		t.line(ind, "else")
		t.ifStmt(ind+1, e)
	}
	t.pop()
}

// throughWrite: v.F[i].G = e where v is the copy a range loop over a slice hands out
func (t *gg) throughWrite(ind int, x *ast.AssignStmt) bool {
	g, ok := x.Lhs[0].(*ast.SelectorExpr)
	if !ok {
		return false
	}
	ix, ok := g.X.(*ast.IndexExpr)
	if !ok {
		return false
	}
	f, ok := ix.X.(*ast.SelectorExpr)
	if !ok {
		return false
	}
	v, ok := f.X.(*ast.Ident)
	if !ok {
		return false
	}
	wb, ok := t.wb[v.Name]
	if !ok {
		return false
	}
	vty, _ := t.lookup(v.Name)
	fty := t.fields[vty][f.Sel.Name]
	el := gElem(fty)
	gty := t.fields[el][g.Sel.Name]
	if el == "" || gty == "" {
		t.bad(x, "assignment")
	}
	i, ity := t.expr(ix.Index, "")
	e, ety := t.expr(x.Rhs[0], gty)
	if ity != gtNat || ety != gty {
		t.bad(x, "assignment")
	}
	arr := name(v.Name) + "." + name(f.Sel.Name)
	t.line(ind, name(v.Name)+" := { "+name(v.Name)+" with "+name(f.Sel.Name)+" := (← Go.listSet "+arr+" "+i+
		" { (← Go.listGet "+arr+" "+i+") with "+name(g.Sel.Name)+" := "+e+" }) }")
	// the slice field of the copy shares its array with the element it was copied from
	t.line(ind, name(wb.list)+" ← Go.listSet "+name(wb.list)+" "+wb.idx+" "+name(v.Name))
	return true
}

func (t *gg) assign(ind int, x *ast.AssignStmt) {
	if x.Tok == token.DEFINE {
		if t.commaOk(ind, x) {
			return
		}
		// v, ok := td.Type.Underlying().(*types.Basic)
		if len(x.Lhs) == 2 && len(x.Rhs) == 1 {
			if ta, ok := x.Rhs[0].(*ast.TypeAssertExpr); ok && src(ta.Type) == "*types.Basic" {
				if c, ok := ta.X.(*ast.CallExpr); ok && len(c.Args) == 0 {
					if sel, ok := c.Fun.(*ast.SelectorExpr); ok && sel.Sel.Name == "Underlying" {
						a, ty := t.expr(sel.X, "")
						if ty == gtType {
							// `v` is nil when the assertion fails: the translation requires that nothing reads it then
							t.define(ind, x.Lhs[0].(*ast.Ident), gtBK, "Option.getD "+a+".basic default")
							t.define(ind, x.Lhs[1].(*ast.Ident), gtBool, "Option.isSome "+a+".basic")
							return
						}
					}
				}
			}
			// a, b := f(…) with two results
			if c, ok := x.Rhs[0].(*ast.CallExpr); ok {
				v, ty := t.call(c, "")
				parts := strings.Split(ty, " × ")
				if len(parts) == 2 {
					t.n++
					p := fmt.Sprintf("p%d", t.n)
					t.line(ind, "let "+p+" : "+ty+" := "+v)
					t.define(ind, x.Lhs[0].(*ast.Ident), parts[0], p+".1")
					t.define(ind, x.Lhs[1].(*ast.Ident), parts[1], p+".2")
					return
				}
			}
			t.bad(x, "statement")
		}
		if len(x.Lhs) != len(x.Rhs) {
			t.bad(x, "statement")
		}
		vals := make([]string, len(x.Rhs))
		tys := make([]string, len(x.Rhs))
		for i, r := range x.Rhs {
			vals[i], tys[i] = t.expr(r, "")
		}
		for i, l := range x.Lhs {
			id, ok := l.(*ast.Ident)
			if !ok {
				t.bad(x, "statement")
			}
			for j := i + 1; j < len(x.Rhs); j++ {
				if usesIdent(x.Rhs[j], id.Name) {
					t.bad(x, "a definition that reads a name it also defines:")
				}
			}
			t.define(ind, id, tys[i], vals[i])
		}
		return
	}
	if x.Tok != token.ASSIGN || len(x.Lhs) != 1 || len(x.Rhs) != 1 {
		t.bad(x, "statement")
	}
	switch l := x.Lhs[0].(type) {
	case *ast.Ident:
		ty, ok := t.lookup(l.Name)
		if !ok {
			t.bad(x, "assignment")
		}
		if _, isCopy := t.wb[l.Name]; isCopy {
			t.bad(x, "assignment to a range copy that is written through:")
		}
		e, ety := t.expr(x.Rhs[0], ty)
		if ety != ty {
			t.bad(x, "assignment")
		}
		t.line(ind, name(l.Name)+" := "+e)
	case *ast.IndexExpr:
		// m[k] = v
		id, ok := l.X.(*ast.Ident)
		if !ok {
			t.bad(x, "assignment")
		}
		mty, _ := t.lookup(id.Name)
		kt, vt, kv := gKV(mty)
		k, kty := t.expr(l.Index, "")
		e, ety := t.expr(x.Rhs[0], vt)
		if !kv || kty != kt || ety != vt {
			t.bad(x, "assignment")
		}
		t.line(ind, name(id.Name)+" := Go.kvSet "+name(id.Name)+" "+k+" "+e)
	case *ast.SelectorExpr:
		if t.throughWrite(ind, x) {
			return
		}
		// xs[i].F = e
		ix, ok := l.X.(*ast.IndexExpr)
		if !ok {
			t.bad(x, "assignment")
		}
		id, ok := ix.X.(*ast.Ident)
		if !ok {
			t.bad(x, "assignment")
		}
		lty, _ := t.lookup(id.Name)
		fty := t.fields[gElem(lty)][l.Sel.Name]
		i, ity := t.expr(ix.Index, "")
		e, ety := t.expr(x.Rhs[0], fty)
		if fty == "" || ity != gtNat || ety != fty {
			t.bad(x, "assignment")
		}
		t.line(ind, name(id.Name)+" ← Go.listSet "+name(id.Name)+" "+i+" { (← Go.listGet "+name(id.Name)+" "+i+") with "+name(l.Sel.Name)+" := "+e+" }")
	default:
		t.bad(x, "assignment")
	}
}

func (t *gg) rangeStmt(ind int, x *ast.RangeStmt) {
	if x.Tok != token.DEFINE {
		t.bad(x, "range loop")
	}
	key, _ := x.Key.(*ast.Ident)
	val, _ := x.Value.(*ast.Ident)
	if x.Key != nil && key == nil || x.Value != nil && val == nil {
		t.bad(x, "range loop")
	}
	if key != nil && key.Name == "_" {
		key = nil
	}
	if val != nil && val.Name == "_" {
		val = nil
	}
	xs, ty := t.expr(x.X, "")
	if strings.Contains(xs, "←") {
		t.bad(x.X, "range expression")
	}
	root := rootIdent(x.X)
	for _, v := range []*ast.Ident{key, val} {
		if v != nil {
			if _, bound := t.lookup(v.Name); bound {
				fail("genumgen: %s: the loop variable `%s` shadows a variable", at(x), v.Name)
			}
		}
	}
	t.push()
	defer t.pop()
	if _, vt, kv := gKV(ty); kv {
		// for _, v := range m: the order is the parameter `walk`
		if key != nil || val == nil || writesTo(x.Body, root) || writesTo(x.Body, val.Name) {
			t.bad(x, "range over a map")
		}
		if t.cur.walk != "" && t.cur.walk != ty {
			t.bad(x, "a second map type in")
		}
		t.cur.walk = ty
		t.bind(val.Name, vt)
		t.line(ind, "for "+name(val.Name)+" in List.map Prod.snd (walk "+xs+") do")
		t.block(ind+1, x.Body)
		return
	}
	el := gElem(ty)
	if el == "" {
		t.bad(x, "range loop")
	}
	_, plain := x.X.(*ast.Ident)
	through := false
	if val != nil && plain {
		ast.Inspect(x.Body, func(n ast.Node) bool {
			if as, ok := n.(*ast.AssignStmt); ok && as.Tok != token.DEFINE {
				for _, l := range as.Lhs {
					if rootIdent(l) == val.Name {
						through = true
					}
				}
			}
			return true
		})
	}
	if key == nil && !through {
		// for _, v := range xs with xs not written in the body
		if val == nil || writesTo(x.Body, root) || writesTo(x.Body, val.Name) {
			t.bad(x, "range loop (the body writes the slice it runs over)")
		}
		t.bind(val.Name, el)
		t.line(ind, "for "+name(val.Name)+" in "+xs+" do")
		t.block(ind+1, x.Body)
		return
	}
	// index loop: the length is taken once, the elements are read when their turn comes
	idx := ""
	if key != nil {
		idx = name(key.Name)
		if writesTo(x.Body, key.Name) {
			t.bad(x, "range loop (the body assigns the index)")
		}
		t.bind(key.Name, gtNat)
	} else {
		t.n++
		idx = fmt.Sprintf("k%d", t.n)
	}
	// the slice itself may only be written element-wise (xs[i].F = e), never re-sliced or re-assigned
	ast.Inspect(x.Body, func(n ast.Node) bool {
		if as, ok := n.(*ast.AssignStmt); ok && as.Tok != token.DEFINE {
			for _, l := range as.Lhs {
				if rootIdent(l) == root {
					sel, ok1 := l.(*ast.SelectorExpr)
					if !ok1 {
						t.bad(as, "write to the slice a loop runs over:")
					}
					if _, ok2 := sel.X.(*ast.IndexExpr); !ok2 {
						t.bad(as, "write to the slice a loop runs over:")
					}
				}
			}
		}
		return true
	})
	t.line(ind, "for "+idx+" in List.range' 0 (List.length "+xs+") do")
	if val != nil {
		t.bind(val.Name, el)
		if through {
			if t.wb == nil {
				t.wb = map[string]gWriteBack{}
			}
			t.wb[val.Name] = gWriteBack{root, idx}
			defer delete(t.wb, val.Name)
		}
		t.line(ind+1, "let mut "+name(val.Name)+" : "+el+" := (← Go.listGet "+xs+" "+idx+")")
	}
	t.block(ind+1, x.Body)
}

func (t *gg) switchStmt(ind int, x *ast.SwitchStmt) {
	if x.Init != nil || x.Tag == nil {
		t.bad(x, "switch")
	}
	tag, ty := t.expr(x.Tag, "")
	if ty != gtBK && ty != gtUnd && ty != gtStr {
		t.bad(x.Tag, "switch tag")
	}
	t.n++
	tv := fmt.Sprintf("tag%d", t.n)
	t.line(ind, "let "+tv+" : "+ty+" := "+tag)
	depth := 0
	for _, c := range x.Body.List {
		cc := c.(*ast.CaseClause)
		if cc.List == nil {
			t.bad(cc, "default clause")
		}
		var cs []string
		for _, e := range cc.List {
			a, aty := t.expr(e, "")
			if aty != ty || strings.Contains(a, "←") {
				t.bad(e, "case constant")
			}
			cs = append(cs, a)
		}
		for _, s := range cc.Body {
			if b, ok := s.(*ast.BranchStmt); ok && b.Tok == token.FALLTHROUGH {
				t.bad(s, "fallthrough")
			}
		}
		t.line(ind+depth, "if (decide ("+tv+" ∈ ["+strings.Join(cs, ", ")+"])) then")
		t.block(ind+depth+1, &ast.BlockStmt{List: cc.Body})
		t.line(ind+depth, "else")
		depth++
	}
	t.line(ind+depth, "pure ()")
}

func (t *gg) retTuple(vals []string) string {
	var all []string
	for _, m := range t.cur.mut {
		all = append(all, name(m))
	}
	all = append(all, vals...)
	switch len(all) {
	case 0:
		return "()"
	case 1:
		return all[0]
	}
	return "(" + strings.Join(all, ", ") + ")"
}

func (t *gg) stmt(ind int, s ast.Stmt) {
	switch x := s.(type) {
	case *ast.AssignStmt:
		t.assign(ind, x)
	case *ast.IfStmt:
		t.ifStmt(ind, x)
	case *ast.RangeStmt:
		t.rangeStmt(ind, x)
	case *ast.SwitchStmt:
		t.switchStmt(ind, x)
	case *ast.BranchStmt:
		if x.Tok != token.CONTINUE || x.Label != nil {
			t.bad(x, "statement")
		}
		t.line(ind, "continue")
	case *ast.ReturnStmt:
		if len(x.Results) != len(t.cur.rets) {
			t.bad(x, "return")
		}
		var vs []string
		for i, r := range x.Results {
			v, ty := t.expr(r, t.cur.rets[i])
			if ty != t.cur.rets[i] {
				fail("genumgen: %s: result %d of `%s` is a %s, declared %s", at(x), i, src(x), ty, t.cur.rets[i])
			}
			vs = append(vs, v)
		}
		t.line(ind, "return "+t.retTuple(vs))
	case *ast.ExprStmt:
		c, ok := x.X.(*ast.CallExpr)
		if !ok {
			t.bad(x, "statement")
		}
		switch src(c.Fun) {
		case "panic":
			if len(c.Args) == 1 {
				if lit, ok := c.Args[0].(*ast.BasicLit); ok && lit.Kind == token.STRING {
					t.line(ind, "throw "+gStrLit(lit, lit.Value))
					return
				}
			}
		case "log.Printf":
			t.line(ind, "pure () -- log.Printf(…): writes to stderr only")
			return
		case "sort.Sort":
			if len(c.Args) == 1 {
				if id, ok := c.Args[0].(*ast.Ident); ok {
					ty, _ := t.lookup(id.Name)
					if less, ok := t.less[ty]; ok {
						if _, isCopy := t.wb[id.Name]; isCopy {
							t.bad(x, "sort of a range copy")
						}
						t.line(ind, name(id.Name)+" := Go.sortSort "+less+" "+name(id.Name))
						return
					}
				}
			}
		}
		t.bad(x, "statement")
	default:
		t.bad(s, "statement")
	}
}

// lessOf: `func (s T) Less(i, j int) bool { return s[i].F < s[j].F }` -> the element comparator
func (t *gg) lessOf(fd *ast.FuncDecl, elemTy string) string {
	if len(fd.Recv.List[0].Names) != 1 || len(fd.Body.List) != 1 || len(fd.Type.Params.List) != 1 || len(fd.Type.Params.List[0].Names) != 2 {
		return ""
	}
	s := fd.Recv.List[0].Names[0].Name
	i, j := fd.Type.Params.List[0].Names[0].Name, fd.Type.Params.List[0].Names[1].Name
	r, ok := fd.Body.List[0].(*ast.ReturnStmt)
	if !ok || len(r.Results) != 1 {
		return ""
	}
	b, ok := r.Results[0].(*ast.BinaryExpr)
	if !ok || b.Op != token.LSS {
		return ""
	}
	l, ok1 := b.X.(*ast.SelectorExpr)
	rr, ok2 := b.Y.(*ast.SelectorExpr)
	if !ok1 || !ok2 || l.Sel.Name != rr.Sel.Name || src(l.X) != s+"["+i+"]" || src(rr.X) != s+"["+j+"]" {
		return ""
	}
	fty := t.fields[elemTy][l.Sel.Name]
	if fty != gtStr && fty != gtNat {
		return ""
	}
	return "(fun a b => decide (a." + name(l.Sel.Name) + " < b." + name(l.Sel.Name) + "))"
}

// implementsQuery: the three functions that ask go/types whether the trait type implements an interface
//
//	iFace, err := gencommon.FindIFaceDef("<pkg>", "<name>")
//	if err != nil || iFace == nil { panic("…") }
//	return gencommon.TypeImplements(td.Type, iFace)      // or types.Implements
//
// FindIFaceDef of a package the generator imports itself cannot fail; the query is an attribute of the type.
func (t *gg) implementsQuery(fn *gFn) (string, bool) {
	b := fn.decl.Body.List
	if len(b) != 3 || len(fn.params) != 1 || fn.params[0].ty != gtTD {
		return "", false
	}
	td := fn.params[0].name
	as, ok := b[0].(*ast.AssignStmt)
	if !ok || as.Tok != token.DEFINE || len(as.Lhs) != 2 || len(as.Rhs) != 1 {
		return "", false
	}
	c, ok := as.Rhs[0].(*ast.CallExpr)
	if !ok || src(c.Fun) != "gencommon.FindIFaceDef" || len(c.Args) != 2 {
		return "", false
	}
	p1, ok1 := c.Args[0].(*ast.BasicLit)
	p2, ok2 := c.Args[1].(*ast.BasicLit)
	if !ok1 || !ok2 || p1.Kind != token.STRING || p2.Kind != token.STRING {
		return "", false
	}
	iface, errv := src(as.Lhs[0]), src(as.Lhs[1])
	ifs, ok := b[1].(*ast.IfStmt)
	if !ok || ifs.Init != nil || ifs.Else != nil || src(ifs.Cond) != errv+" != nil || "+iface+" == nil" || len(ifs.Body.List) != 1 {
		return "", false
	}
	if es, ok := ifs.Body.List[0].(*ast.ExprStmt); !ok || !strings.HasPrefix(src(es), "panic(") {
		return "", false
	}
	r, ok := b[2].(*ast.ReturnStmt)
	if !ok || len(r.Results) != 1 {
		return "", false
	}
	rc, ok := r.Results[0].(*ast.CallExpr)
	if !ok || len(rc.Args) != 2 || src(rc.Args[0]) != td+".Type" || src(rc.Args[1]) != iface {
		return "", false
	}
	attr := ""
	switch src(rc.Fun) {
	case "gencommon.TypeImplements":
		attr = "gcTypeImplements"
	case "types.Implements":
		attr = "typesImplements"
	default:
		return "", false
	}
	return "  return (" + name(td) + ".«Type»." + attr + " " + gStrLit(p1, p1.Value) + " " + gStrLit(p2, p2.Value) + ")\n", true
}

func gStructFields(file *ast.File, goName string, skipped *[]string) map[string]string {
	out := map[string]string{}
	for _, d := range file.Decls {
		gd, ok := d.(*ast.GenDecl)
		if !ok || gd.Tok != token.TYPE {
			continue
		}
		for _, sp := range gd.Specs {
			ts := sp.(*ast.TypeSpec)
			if ts.Name.Name != goName {
				continue
			}
			st, ok := ts.Type.(*ast.StructType)
			if !ok {
				fail("genumgen: type %s is not a struct", goName)
			}
			for _, f := range st.Fields.List {
				ty := gLeanType(f.Type)
				for _, n := range f.Names {
					if ty == "" {
						*skipped = append(*skipped, goName+"."+n.Name+" "+src(f.Type))
						continue
					}
					out[n.Name] = ty
				}
			}
			return out
		}
	}
	fail("genumgen: struct %s not found", goName)
	return nil
}

func gFieldOrder(file *ast.File, goName string, have map[string]string) []string {
	var out []string
	ast.Inspect(file, func(n ast.Node) bool {
		if ts, ok := n.(*ast.TypeSpec); ok && ts.Name.Name == goName {
			if st, ok := ts.Type.(*ast.StructType); ok {
				for _, f := range st.Fields.List {
					for _, nm := range f.Names {
						if _, ok := have[nm.Name]; ok {
							out = append(out, nm.Name)
						}
					}
				}
			}
		}
		return true
	})
	return out
}

func runGenumGen(repo, out string) {
	t := &gg{fields: map[string]map[string]string{}, consts: map[string]string{}, cty: map[string]string{}, fns: map[string]*gFn{}, less: map[string]string{}}
	parse := func(rel string) *ast.File {
		f, err := parser.ParseFile(fset, filepath.Join(repo, rel), nil, 0)
		if err != nil {
			fail("%v", err)
		}
		return f
	}
	fTraits, fGen, fValues := parse("genum/gen/traits.go"), parse("genum/gen/generate.go"), parse("genum/gen/values.go")

	// type declarations the translation rests on
	wantDecl := map[string]string{"TraitDescs": "[]TraitDesc", "TraitInstances": "[]TraitInstance", "underlying": "int", "Values": "[]Value"}
	for _, f := range []*ast.File{fTraits, fValues} {
		for _, d := range f.Decls {
			if gd, ok := d.(*ast.GenDecl); ok && gd.Tok == token.TYPE {
				for _, sp := range gd.Specs {
					ts := sp.(*ast.TypeSpec)
					if w, ok := wantDecl[ts.Name.Name]; ok {
						if src(ts.Type) != w {
							fail("genumgen: type %s is declared as `%s`; the translation assumes `%s`", ts.Name.Name, src(ts.Type), w)
						}
						delete(wantDecl, ts.Name.Name)
					}
				}
			}
		}
	}
	for n := range wantDecl {
		fail("genumgen: type %s not found", n)
	}
	var skipped []string
	var ignore []string
	t.fields[gtVal] = gStructFields(fValues, "Value", &ignore) // GValue is the structure of Generated/GoGenumValues.lean
	t.fields[gtTI] = gStructFields(fTraits, "TraitInstance", &skipped)
	t.fields[gtTD] = gStructFields(fTraits, "TraitDesc", &skipped)
	if t.fields[gtTD]["Type"] != gtType {
		fail("genumgen: TraitDesc.Type is not a types.Type")
	}

	// const ( unknown underlying = iota; … )
	var undNames []string
	for _, d := range fTraits.Decls {
		gd, ok := d.(*ast.GenDecl)
		if !ok || gd.Tok != token.CONST {
			continue
		}
		first := true
		isUnd := false
		for _, sp := range gd.Specs {
			vs := sp.(*ast.ValueSpec)
			if first {
				isUnd = vs.Type != nil && src(vs.Type) == "underlying" && len(vs.Values) == 1 && src(vs.Values[0]) == "iota"
				first = false
			} else if isUnd && (vs.Type != nil || len(vs.Values) != 0) {
				fail("genumgen: %s: the `underlying` constants are not a plain iota block", at(vs))
			}
			if isUnd {
				for _, n := range vs.Names {
					undNames = append(undNames, n.Name)
					t.consts[n.Name] = "Underlying." + name(n.Name)
					t.cty[n.Name] = gtUnd
				}
			}
		}
	}
	if len(undNames) == 0 {
		fail("genumgen: the constants of type `underlying` were not found")
	}

	// functions
	decls := map[string]*ast.FuncDecl{}
	for _, f := range []*ast.File{fTraits, fGen} {
		for _, d := range f.Decls {
			if fd, ok := d.(*ast.FuncDecl); ok && fd.Body != nil {
				key := fd.Name.Name
				if fd.Recv != nil && len(fd.Recv.List) == 1 {
					key = strings.TrimPrefix(src(fd.Recv.List[0].Type), "*") + "." + key
				}
				decls[key] = fd
			}
		}
	}
	if fd := decls["TraitDescs.Less"]; fd != nil {
		if l := t.lessOf(fd, gtTD); l != "" {
			t.less[gtTDs] = l
		}
	}
	order := []string{"implementsJSONUnmarshaler", "implementsYAMLUnmarshaler", "implementsTextUnmarshaler",
		"TraitDesc.extractUnderlying", "TraitDesc.hasUnderlying", "TraitDescs.getParsableUnderlying"}
	// every exported selector of TraitDescs the template can call
	for _, d := range fTraits.Decls {
		if fd, ok := d.(*ast.FuncDecl); ok && fd.Recv != nil && src(fd.Recv.List[0].Type) == "TraitDescs" && strings.HasPrefix(fd.Name.Name, "GetParsable") {
			order = append(order, "TraitDescs."+fd.Name.Name)
		}
	}
	order = append(order, "TraitDesc.InstanceOf", "TraitInstance.Value", "validateParsableTraits", "processDuplicates")

	var b strings.Builder
	b.WriteString("import Model.GoPreludeKV\nimport Generated.GoGenumValues\n")
	b.WriteString("/-! REGENERATED on every run by harness/cmd/go2lean -spec genumgen from genum/gen/traits.go and genum/gen/generate.go.\nDo not edit.  Each definition follows the Go function of the same name statement by statement.  What go/types\nanswers about a trait's type is an attribute of the descriptor (`GType`); a `for … range` over a map takes its\norder from the parameter `walk`; a slice parameter the function writes into is returned in front of its results;\n`fmt.Errorf` is its format string; `log.Printf` is dropped.\n")
	if len(skipped) > 0 {
		fmt.Fprintf(&b, "Fields that are not part of the translation (no translated function reads them): %s. -/\n", strings.Join(skipped, ", "))
	} else {
		b.WriteString("-/\n")
	}
	b.WriteString("set_option linter.unusedVariables false\nnamespace Generated.GoGenumGen\nopen Generated.GoGenumValues\n\n")
	b.WriteString("/-- `go/types.BasicKind` -/\ninductive BasicKind where\n")
	for _, k := range basicKinds {
		b.WriteString("  | " + k + "\n")
	}
	b.WriteString("  deriving DecidableEq, Repr, Inhabited\n\n")
	b.WriteString("/-- `type underlying int` and its constants -/\ninductive Underlying where\n")
	for _, k := range undNames {
		b.WriteString("  | " + name(k) + "\n")
	}
	b.WriteString("  deriving DecidableEq, Repr, Inhabited\n\n")
	b.WriteString("/-- what the translated functions ask go/types about a `types.Type`: `basic` = `Underlying().(*types.Basic)`\n(`none`: the assertion fails) with its `Kind()`; `typesImplements pkg name` = `types.Implements(T, I)` and\n`gcTypeImplements pkg name` = `gencommon.TypeImplements(T, I)` for the interface `I` that\n`gencommon.FindIFaceDef(pkg, name)` finds; `defaultTypeId` = the class of `types.Default(T)` under `types.Identical`; `isNil` = the interface value is nil\n(then the other attributes mean nothing; the translated functions ask `== nil` before they use such a value) -/\nstructure GType where\n  isNil : Bool\n  basic : Option BasicKind\n  defaultTypeId : Nat\n  typesImplements : String → String → Bool\n  gcTypeImplements : String → String → Bool\n  deriving Inhabited\n\n")
	for _, st := range []struct{ goN, lean string }{{"TraitInstance", gtTI}, {"TraitDesc", gtTD}} {
		fmt.Fprintf(&b, "/-- `type %s struct` -/\nstructure %s where\n", st.goN, st.lean)
		for _, f := range gFieldOrder(fTraits, st.goN, t.fields[st.lean]) {
			fmt.Fprintf(&b, "  %s : %s\n", name(f), t.fields[st.lean][f])
		}
		b.WriteString("  deriving Inhabited\n\n")
	}

	// signatures first (calls are resolved against them)
	for _, key := range order {
		fd := decls[key]
		if fd == nil {
			fail("genumgen: function %s not found", key)
		}
		fn := &gFn{key: key, decl: fd, lean: key}
		if fd.Recv != nil {
			r := fd.Recv.List[0]
			rty := gLeanType(r.Type)
			if len(r.Names) != 1 || rty == "" {
				fail("genumgen: %s: receiver", key)
			}
			fn.lean = "G" + key
			fn.params = append(fn.params, gParam{r.Names[0].Name, rty})
		}
		for _, p := range fd.Type.Params.List {
			ty := gLeanType(p.Type)
			if ty == "" {
				fail("genumgen: %s: parameter type `%s`", key, src(p.Type))
			}
			for _, n := range p.Names {
				fn.params = append(fn.params, gParam{n.Name, ty})
			}
		}
		if fd.Type.Results != nil {
			for _, r := range fd.Type.Results.List {
				ty := gLeanType(r.Type)
				if ty == "" || len(r.Names) > 0 {
					fail("genumgen: %s: result `%s`", key, src(r.Type))
				}
				fn.rets = append(fn.rets, ty)
			}
		}
		for _, p := range fn.params {
			if writesTo(fd.Body, p.name) {
				if gElem(p.ty) == "" {
					fail("genumgen: %s writes to its parameter %s", key, p.name)
				}
				// a write through a range copy also lands in the slice
				fn.mut = append(fn.mut, p.name)
			}
		}
		// a write through the copy of a range loop over a parameter
		ast.Inspect(fd.Body, func(n ast.Node) bool {
			if rs, ok := n.(*ast.RangeStmt); ok {
				if id, ok := rs.X.(*ast.Ident); ok {
					if v, ok := rs.Value.(*ast.Ident); ok && v.Name != "_" && writesTo(rs.Body, v.Name) {
						for _, p := range fn.params {
							if p.name == id.Name && gElem(p.ty) != "" {
								dup := false
								for _, m := range fn.mut {
									dup = dup || m == p.name
								}
								if !dup {
									fn.mut = append(fn.mut, p.name)
								}
							}
						}
					}
				}
			}
			return true
		})
		// sort.Sort(p) of a parameter
		ast.Inspect(fd.Body, func(n ast.Node) bool {
			if c, ok := n.(*ast.CallExpr); ok && src(c.Fun) == "sort.Sort" && len(c.Args) == 1 {
				for _, p := range fn.params {
					if src(c.Args[0]) == p.name {
						dup := false
						for _, m := range fn.mut {
							dup = dup || m == p.name
						}
						if !dup {
							fn.mut = append(fn.mut, p.name)
						}
					}
				}
			}
			return true
		})
		t.fns[key] = fn
		if fd.Recv == nil {
			t.fns[fd.Name.Name] = fn
		}
	}

	count := 0
	for _, key := range order {
		fn := t.fns[key]
		fd := fn.decl
		t.cur = fn
		t.env = nil
		t.wb = nil
		t.errs = nil
		t.push()
		t.out.Reset()
		var rts []string
		for _, m := range fn.mut {
			for _, p := range fn.params {
				if p.name == m {
					rts = append(rts, p.ty)
				}
			}
		}
		rts = append(rts, fn.rets...)
		rt := "Unit"
		if len(rts) > 0 {
			rt = strings.Join(rts, " × ")
		}
		body := ""
		if q, ok := t.implementsQuery(fn); ok {
			body = q
		} else {
			for _, p := range fn.params {
				t.bind(p.name, p.ty)
			}
			for _, m := range fn.mut {
				t.line(1, "let mut "+name(m)+" := "+name(m))
			}
			for i, s := range fd.Body.List {
				if as, ok := s.(*ast.AssignStmt); ok && len(as.Rhs) == 1 {
					if _, isAssert := as.Rhs[0].(*ast.TypeAssertExpr); isAssert {
						// the asserted value is nil when the assertion fails: the next statement must leave then
						okName := src(as.Lhs[len(as.Lhs)-1])
						guard := false
						if i+1 < len(fd.Body.List) {
							if g, ok := fd.Body.List[i+1].(*ast.IfStmt); ok && g.Init == nil && src(g.Cond) == "!"+okName && len(g.Body.List) > 0 && endsInReturn(g.Body.List[len(g.Body.List)-1]) {
								guard = true
							}
						}
						if !guard {
							fail("genumgen: %s: the type assertion `%s` is not followed by `if !%s { return … }`", at(s), src(s), okName)
						}
					}
				}
				t.stmt(1, s)
			}
			if n := len(fd.Body.List); n == 0 || !endsInReturn(fd.Body.List[n-1]) {
				if len(fn.rets) != 0 {
					fail("genumgen: %s can fall off its end", key)
				}
				t.line(1, "return "+t.retTuple(nil))
			}
			body = t.out.String()
		}
		sig := "def " + fn.lean
		if fn.walk != "" {
			k, v, _ := gKV(fn.walk)
			sig += " (walk : List (" + k + " × " + v + ") → List (" + k + " × " + v + "))"
		}
		for _, p := range fn.params {
			sig += " (" + name(p.name) + " : " + p.ty + ")"
		}
		sig += " : Go.M (" + rt + ") := do"
		for _, e := range t.errs {
			b.WriteString(e)
		}
		fmt.Fprintf(&b, "/-- `%s` -/\n%s\n%s\n", src(&ast.FuncDecl{Recv: fd.Recv, Name: fd.Name, Type: fd.Type}), sig, body)
		count++
	}
	b.WriteString("end Generated.GoGenumGen\n")
	if err := os.WriteFile(out, []byte(b.String()), 0o644); err != nil {
		fail("%v", err)
	}
	fmt.Printf("go2lean genumgen: %d functions of genum/gen/traits.go and generate.go -> %s\n", count, out)
}

import Model.GenOrder
/-! REGENERATED on every run by harness/cmd/extract-mapranges (go/types) from the generator packages
github.com/drshriveer/gtools/gencommon, github.com/drshriveer/gtools/genum/gen, github.com/drshriveer/gtools/genum/cmd/genum, github.com/drshriveer/gtools/gerror/gen, github.com/drshriveer/gtools/gerror/cmd/gerror, github.com/drshriveer/gtools/gsort/gen, github.com/drshriveer/gtools/gsort/cmd/gsort.
Every `range` over a map-typed expression and every set.Set.Slice call, as ⟨file, function, expression, effects⟩;
effects = what the loop body does, in source order (assignment targets, append/delete containers, callees,
control transfers; indices normalised to ·).
A site occurring twice in one function is listed twice. Do not edit. -/
namespace Generated.MapRanges
open GenOrder

def sites : List Site := [
  ⟨"gencommon/comments.go", "CommentsFromObj", "range cmap",
    ["if", "define:v", "define:ok", "call:len", "call:len", "return/1", "call:FromCommentGroup", "call:len"]⟩,
  ⟨"gencommon/imports.go", "*ImportHandler.GetActive", "range ih.imports",
    ["if", "assign=:result", "append:result"]⟩,
  ⟨"gencommon/interface.go", "allpkgs.findPKgByName", "range pkg.Imports",
    ["if", "return/2"]⟩,
  ⟨"gencommon/interface.go", "allpkgs.namedTypeToInterface", "range embeddedIface.ambiguous",
    ["if", "call:ignoreEmbeddedMethodsNamed.Has", "continue", "call:ignoreEmbeddedMethodsNamed.Add", "call:result.ambiguous.Add", "delete:methodsToAdd"]⟩,
  ⟨"gencommon/interface.go", "allpkgs.namedTypeToInterface", "range methodsToAdd",
    ["assign=:result.Methods", "append:result.Methods"]⟩,
  ⟨"genum/gen/generate.go", "processDuplicates", "range data",
    ["define:primary", "define:safe", "call:duplicates.getPrimary", "if", "call:len", "range:traits", "assign=:traits[·].Traits", "call:slices.DeleteFunc", "return/1", "if", "continue", "call:log.Printf", "call:duplicates.stringList"]⟩,
  ⟨"gsort/gen/sorter_desc.go", "createSorterDesc", "range descs",
    ["assign=:result", "append:result"]⟩,
  ⟨"gsort/gen/sorter_desc.go", "createSorterDesc", "range descs",
    ["if", "define:err", "call:desc.Fields.Validate", "return/2"]⟩
]

end Generated.MapRanges

package main

import (
	"errors"
	"fmt"
	"reflect"
	"strconv"
	"strings"

	"github.com/drshriveer/gtools/gerror"
	"verif/harness/cmd/h-gerroris/xt"
)

// foreign error types of the pool
type ptrErr struct{ n int }

func (e *ptrErr) Error() string { return "ptrErr" + strconv.Itoa(e.n) }

type strErr string

func (e strErr) Error() string { return "strErr:" + string(e) }

type structErr struct {
	K int
	S string
}

func (e structErr) Error() string { return "structErr" + strconv.Itoa(e.K) }

type sliceErr []string

func (e sliceErr) Error() string { return "sliceErr" + strings.Join(e, ",") }

type mapErr map[string]int

func (e mapErr) Error() string { return "mapErr" + strconv.Itoa(len(e)) }

type structSliceErr struct {
	Xs []int
	N  int
}

func (e structSliceErr) Error() string { return "structSliceErr" + strconv.Itoa(e.N) }

// strTable: the "arbitrary string arguments" (sources, tags, format strings).
var strTable = []string{"", " ", "a", "pkg:Type:method", "%d", "%s and %v", "tab\there", "ünï-cødé", "100%", "-", "a-b", "line\nbreak", "  padded  ", "%!", "{}", "x/y.z"}

type gimpl struct {
	vals  []xt.Value
	fvals []error
}

func (g *gimpl) Reset() { g.vals, g.fvals = nil, nil }

func (g *gimpl) targets() []error {
	ts := make([]error, 0, len(g.vals)+len(g.fvals)+1)
	for _, v := range g.vals {
		ts = append(ts, v)
	}
	ts = append(ts, g.fvals...)
	return append(ts, nil)
}

func safeIs(err, target error) (c byte) {
	defer func() {
		if r := recover(); r != nil {
			c = 'p'
		}
	}()
	if errors.Is(err, target) {
		return 't'
	}
	return 'f'
}

func (g *gimpl) row(err error) string {
	ts := g.targets()
	b := make([]byte, len(ts))
	for i, t := range ts {
		b[i] = safeIs(err, t)
	}
	return string(b)
}

func idx(tok string, pfx byte, n int) (int, bool) {
	if len(tok) < 2 || tok[0] != pfx {
		return 0, false
	}
	k, err := strconv.Atoi(tok[1:])
	if err != nil || k < 0 || k >= n {
		return 0, false
	}
	return k, true
}

func callMethod(v xt.Value, meth string, arg error, seed int) (gerror.Error, bool) {
	n := len(strTable)
	s1, s2, s3 := strTable[seed%n], strTable[(seed/n)%n], strTable[(seed/(n*n))%n]
	switch meth {
	case "Base":
		return v.Base(), true
	case "SourceOnly":
		return v.SourceOnly(), true
	case "Stack":
		return v.Stack(), true
	case "Src":
		return v.Src(s1), true
	case "DTag":
		return v.DTag(s1), true
	case "Msg":
		return v.Msg(s1), true
	case "SrcDTagMsg":
		return v.SrcDTagMsg(s1, s2, s3), true
	case "SrcDTag":
		return v.SrcDTag(s1, s2), true
	case "SrcMsg":
		return v.SrcMsg(s1, s2), true
	case "DTagMsg":
		return v.DTagMsg(s1, s2), true
	case "SrcS":
		return v.SrcS(s1), true
	case "DTagS":
		return v.DTagS(s1), true
	case "MsgS":
		return v.MsgS(s1), true
	case "SrcDTagMsgS":
		return v.SrcDTagMsgS(s1, s2, s3), true
	case "SrcDTagS":
		return v.SrcDTagS(s1, s2), true
	case "SrcMsgS":
		return v.SrcMsgS(s1, s2), true
	case "DTagMsgS":
		return v.DTagMsgS(s1, s2), true
	case "Convert":
		return v.Convert(arg), true
	case "ConvertS":
		return v.ConvertS(arg), true
	}
	return nil, false
}

func (g *gimpl) Exec(line string) string {
	ws := strings.Fields(line)
	if len(ws) == 0 {
		return "bad-op"
	}
	if ws[0] == "case" {
		return line
	}
	if ws[0] != "gei" || len(ws) < 3 {
		return "bad-op"
	}
	switch ws[1] {
	case "foreign":
		k := len(g.fvals)
		switch {
		case ws[2] == "wrap" && len(ws) == 4:
			f, err := strconv.Atoi(ws[3])
			if err != nil || f < 0 || f >= len(g.fvals) {
				return "bad-op"
			}
			g.fvals = append(g.fvals, fmt.Errorf("wrap%d: %w", k, g.fvals[f]))
		case ws[2] == "wrapv" && len(ws) == 4:
			i, err := strconv.Atoi(ws[3])
			if err != nil || i < 0 || i >= len(g.vals) {
				return "bad-op"
			}
			g.fvals = append(g.fvals, fmt.Errorf("wrapv%d: %w", k, g.vals[i]))
		case len(ws) != 3:
			return "bad-op"
		case ws[2] == "new":
			g.fvals = append(g.fvals, errors.New("new"+strconv.Itoa(k)))
		case ws[2] == "ptr":
			g.fvals = append(g.fvals, &ptrErr{k})
		case ws[2] == "sliceptr":
			g.fvals = append(g.fvals, &sliceErr{"p", strconv.Itoa(k)})
		case ws[2] == "slice":
			g.fvals = append(g.fvals, sliceErr{"s", strconv.Itoa(k)})
		case ws[2] == "map":
			g.fvals = append(g.fvals, mapErr{"k": k})
		case ws[2] == "structslice":
			g.fvals = append(g.fvals, structSliceErr{Xs: []int{k}, N: k})
		case strings.HasPrefix(ws[2], "str:"):
			n, err := strconv.Atoi(ws[2][4:])
			if err != nil || n < 0 {
				return "bad-op"
			}
			g.fvals = append(g.fvals, strErr(strconv.Itoa(n)))
		case strings.HasPrefix(ws[2], "struct:"):
			n, err := strconv.Atoi(ws[2][7:])
			if err != nil || n < 0 {
				return "bad-op"
			}
			g.fvals = append(g.fvals, structErr{K: n, S: "s"})
		default:
			return "bad-op"
		}
		return "ok"
	case "root":
		if len(ws) != 3 {
			return "bad-op"
		}
		n := len(g.vals)
		name := "Err" + strconv.Itoa(n)
		kind, tys, _ := strings.Cut(ws[2], ":")
		switch kind {
		case "base":
			if tys != "" {
				return "bad-op"
			}
			e := &gerror.GError{Name: name, Message: "base " + name}
			gerror.FactoryOf(e)
			g.vals = append(g.vals, e)
		case "bare":
			if tys != "" {
				return "bad-op"
			}
			g.vals = append(g.vals, &gerror.GError{Name: name, Message: "bare " + name})
		case "ext", "bareext":
			ty, err := strconv.Atoi(tys)
			if err != nil || ty < 0 || ty >= xt.NumTypes {
				return "bad-op"
			}
			v := xt.NewRoot(ty, name, kind == "ext")
			g.vals = append(g.vals, v)
		default:
			return "bad-op"
		}
		return fmt.Sprintf("v%d root", n)
	case "call":
		if len(ws) != 6 {
			return "bad-op"
		}
		recv, err := strconv.Atoi(ws[2])
		if err != nil || recv < 0 || recv >= len(g.vals) {
			return "bad-op"
		}
		seed, err := strconv.Atoi(ws[5])
		if err != nil || seed < 0 {
			seed = 0
		}
		var arg error
		switch {
		case ws[4] == "-" || ws[4] == "nil":
		default:
			if k, ok := idx(ws[4], 'f', len(g.fvals)); ok {
				arg = g.fvals[k]
			} else if j, ok := idx(ws[4], 'v', len(g.vals)); ok {
				arg = g.vals[j]
			} else {
				return "bad-op"
			}
		}
		res, ok := callMethod(g.vals[recv], ws[3], arg, seed)
		if !ok {
			return "bad-op"
		}
		n := len(g.vals)
		rv, isV := res.(xt.Value)
		if !isV {
			return fmt.Sprintf("v%d not-a-factory", n)
		}
		desc := ""
		for j, v := range g.vals {
			if error(v) == error(rv) {
				desc = fmt.Sprintf("v%d same %d", n, j)
				break
			}
		}
		if desc == "" {
			switch ty := xt.TypeOf(rv); {
			case ty == -1:
				desc = fmt.Sprintf("v%d new base", n)
			case ty >= 0:
				desc = fmt.Sprintf("v%d new ext:%d", n, ty)
			default:
				desc = fmt.Sprintf("v%d new other", n)
			}
		}
		g.vals = append(g.vals, rv)
		return desc
	case "isrow", "isfrow", "xref", "specrow":
		if len(ws) != 3 {
			return "bad-op"
		}
		i, err := strconv.Atoi(ws[2])
		if err != nil || i < 0 {
			return "bad-op"
		}
		switch ws[1] {
		case "isrow":
			if i >= len(g.vals) {
				return "bad-op"
			}
			return g.row(g.vals[i])
		case "specrow":
			// the implementation's row in the shape of the SPECIFICATION's answer: targets of
			// non-comparable type are left open by the property (only "no panic" is required)
			if i >= len(g.vals) {
				return "bad-op"
			}
			b := []byte(g.row(g.vals[i]))
			for k, f := range g.fvals {
				c := len(g.vals) + k
				if !reflect.TypeOf(f).Comparable() && b[c] != 'p' {
					b[c] = '-'
				}
			}
			return string(b)
		case "isfrow":
			if i >= len(g.fvals) {
				return "bad-op"
			}
			return g.row(g.fvals[i])
		default:
			if i >= len(g.vals) {
				return "bad-op"
			}
			x := gerror.ExtractFactoryReference(g.vals[i])
			if x == nil {
				return "nil"
			}
			p, ok := x.(*gerror.GError)
			if !ok {
				return "other"
			}
			for j, v := range g.vals {
				if xt.Embedded(v) == p {
					return fmt.Sprintf("emb %d", j)
				}
			}
			return "other"
		}
	}
	return "bad-op"
}


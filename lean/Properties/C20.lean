import Model.Gogenproto
/-!
# C20 — gogenproto: protoc gets exactly the in-scope protos, includes, mappings

For EVERY directory tree (any depth, any number of entries, any names), every list of include
roots and every setting of `-recurse`, `-vt-proto`, `-grpc`.  `run` is the argument vector assembled by
`Generate.Run` (model in `Model/Gogenproto.lean`); the specification side is `HasFile` / `InScope`
/ `EndsWithProto` / `specPkg`, which restate the property text and know nothing of the walk.

| clause of the property | theorem |
|---|---|
| protoc is invoked exactly once | `single_invocation` (+ observed on the recording stub) |
| names each `.proto` directly inside the input dir (anywhere below with `-recurse`) … and no other file | `protos_named_iff` |
| … exactly once | `protos_exactly_once` (file systems: distinct names per directory) |
| include path for the input dir and each `-include` dir | `includes_present` |
| mapping for every proto under those paths without `go_package`, prefix-joined or the directory's Go package | `mapping_iff_no_go_package` (both directions), `mapping_to_every_requested_plugin` |
| vtproto / grpc requested exactly when their flags are set | `plugins_iff_flags`, `requested_iff` |
| `filepath.Ext(name) == ".proto"` is "the name ends in .proto" | `isProtoName_iff` |
| `Run` on a file system = `run` on the directories found (input dir name without `=`) | `runFS_eq_run`, `cut_noEq` |
| "directly inside" spelled out | `inScope_norecurse_iff` |

Hypotheses, all about the INPUT (none is about the algorithm): `WFL` (a directory has no two
entries of the same name) for "exactly once"; `RootOK` for the mapping theorem — the input directory
is not itself a regular file of an include tree, and an explicit `=prefix` is a non-empty list of
plain components (then `filepath.Join` does not rewrite it).  Both are shown satisfiable at the end.

Parameters (not modelled, see DESIGN.md section 6): the package of a directory (`pkgOf`), and the
`declares go_package` bit of a file (an attribute of the model's file node; the line scan of
`protoFileHasGoPackage` is compared only through the correspondence run).
-/
namespace Gogenproto

/-! ### `filepath.Ext` -/
theorem extRev_spec (r acc : List Char) :
    extRev r acc = [] ∨ ∃ pre rest, r = pre ++ '.' :: rest ∧ extRev r acc = '.' :: (pre.reverse ++ acc) := by
  induction r generalizing acc with
  | nil => left; rfl
  | cons c rest ih =>
    unfold extRev
    by_cases h1 : c = '/'
    · simp [h1]
    · by_cases h2 : c = '.'
      · right; refine ⟨[], rest, by simp [h2], by simp [h2]⟩
      · simp only [h1, h2, if_false]
        rcases ih (c :: acc) with h | ⟨pre, rest', hr, he⟩
        · left; exact h
        · right; refine ⟨c :: pre, rest', by simp [hr], ?_⟩
          rw [he]; simp

theorem isProtoName_iff (n : String) : isProtoName n = true ↔ EndsWithProto n := by
  unfold isProtoName ext EndsWithProto
  constructor
  · intro h
    have h' : extRev n.toList.reverse [] = ".proto".toList := by
      have := congrArg String.toList (eq_of_beq h)
      simpa using this
    rcases extRev_spec n.toList.reverse [] with h0 | ⟨pre, rest, hr, he⟩
    · rw [h0] at h'; exact absurd h' (by decide)
    · rw [he] at h'
      have hp : pre.reverse = "proto".toList := by simpa using h'
      have hn : n.toList = rest.reverse ++ ('.' :: pre.reverse) := by
        have := congrArg List.reverse hr
        simpa using this
      refine ⟨rest.reverse, ?_⟩
      rw [hn, hp]; rfl
  · rintro ⟨t, ht⟩
    have : n.toList.reverse = 'o' :: 't' :: 'o' :: 'r' :: 'p' :: '.' :: t.reverse := by
      rw [← ht]; simp
    rw [this]
    simp [extRev]

/-! ### the walk: prefix, soundness, completeness, no duplicates (mutual structural induction) -/

theorem HasFile.mono {cs cs' : List Tree} (hsub : ∀ x ∈ cs, x ∈ cs') {dirs n reg g}
    (h : HasFile cs dirs n reg g) : HasFile cs' dirs n reg g := by
  cases h with
  | here hm => exact .here (hsub _ hm)
  | under hm hs => exact .under (hsub _ hm) hs

mutual
theorem walk_prefix (c : WalkCtx) (pre : Path) (t : Tree) (f : Found) (h : f ∈ walk c pre t) :
    ∃ q, f.path = pre ++ t.name :: q := by
  match t with
  | .file n reg g =>
    simp only [walk] at h
    split at h
    · simp at h
    · split at h
      · simp at h; subst h; exact ⟨[], by simp [Tree.name]⟩
      · simp at h
  | .dir n cs =>
    have key : f ∈ walkList c (pre ++ [n]) cs → ∃ q, f.path = pre ++ n :: q := by
      intro h'
      obtain ⟨u, _, q, hq⟩ := walkList_prefix c (pre ++ [n]) cs f h'
      exact ⟨u.name :: q, by simp [hq]⟩
    simp only [walk] at h
    split at h
    · exact key h
    · split at h
      · simp at h
      · exact key h
theorem walkList_prefix (c : WalkCtx) (pre : Path) (cs : List Tree) (f : Found)
    (h : f ∈ walkList c pre cs) : ∃ u ∈ cs, ∃ q, f.path = pre ++ u.name :: q := by
  match cs with
  | [] => simp [walkList] at h
  | t :: ts =>
    simp only [walkList, List.mem_append] at h
    rcases h with h | h
    · obtain ⟨q, hq⟩ := walk_prefix c pre t f h; exact ⟨t, by simp, q, hq⟩
    · obtain ⟨u, hu, q, hq⟩ := walkList_prefix c pre ts f h; exact ⟨u, by simp [hu], q, hq⟩
end

mutual
theorem walk_sound (c : WalkCtx) (pre : Path) (t : Tree) (f : Found) (h : f ∈ walk c pre t) :
    ∃ dirs n, HasFile [t] dirs n true f.goPkg ∧ isProtoName n = true ∧ f.path = pre ++ dirs ++ [n] := by
  match t with
  | .file n reg g =>
    simp only [walk] at h
    split at h
    · simp at h
    · split at h
      · rename_i hr
        simp at h; subst h
        simp at hr
        refine ⟨[], n, .here ?_, hr.2, by simp⟩
        simp [hr.1]
      · simp at h
  | .dir n cs =>
    have key : f ∈ walkList c (pre ++ [n]) cs →
        ∃ dirs m, HasFile [Tree.dir n cs] dirs m true f.goPkg ∧ isProtoName m = true ∧
          f.path = pre ++ dirs ++ [m] := by
      intro h'
      obtain ⟨dirs, m, hf, hp, hq⟩ := walkList_sound c (pre ++ [n]) cs f h'
      exact ⟨n :: dirs, m, .under (by simp) hf, hp, by simp [hq]⟩
    simp only [walk] at h
    split at h
    · exact key h
    · split at h
      · simp at h
      · exact key h
theorem walkList_sound (c : WalkCtx) (pre : Path) (cs : List Tree) (f : Found)
    (h : f ∈ walkList c pre cs) :
    ∃ dirs n, HasFile cs dirs n true f.goPkg ∧ isProtoName n = true ∧ f.path = pre ++ dirs ++ [n] := by
  match cs with
  | [] => simp [walkList] at h
  | t :: ts =>
    simp only [walkList, List.mem_append] at h
    rcases h with h | h
    · obtain ⟨dirs, n, hf, hp, hq⟩ := walk_sound c pre t f h
      exact ⟨dirs, n, hf.mono (by simp), hp, hq⟩
    · obtain ⟨dirs, n, hf, hp, hq⟩ := walkList_sound c pre ts f h
      exact ⟨dirs, n, hf.mono (by intro x hx; simp [hx]), hp, hq⟩
end

theorem mem_walkList_of_mem (c : WalkCtx) (pre : Path) {t : Tree} {cs : List Tree} (ht : t ∈ cs)
    {f : Found} (h : f ∈ walk c pre t) : f ∈ walkList c pre cs := by
  induction cs with
  | nil => simp at ht
  | cons u us ih =>
    simp only [walkList, List.mem_append]
    rcases List.mem_cons.1 ht with rfl | hu
    · left; exact h
    · right; exact ih hu

theorem walk_complete (c : WalkCtx) (hrec : c.recurse = true) {cs : List Tree} {dirs : List String}
    {n : String} {reg g : Bool} (h : HasFile cs dirs n reg g) (hreg : reg = true)
    (hp : isProtoName n = true) :
    ∀ pre, c.isInput (pre ++ dirs ++ [n]) = false → ⟨pre ++ dirs ++ [n], g⟩ ∈ walkList c pre cs := by
  induction h with
  | here hm =>
    intro pre hin
    apply mem_walkList_of_mem c pre hm
    simp at hin
    simp [walk, hin, hreg, hp]
  | @under cs d sub dirs n reg g hm _ ih =>
    intro pre hin
    apply mem_walkList_of_mem c pre hm
    have := ih hreg hp (pre ++ [d]) (by simpa using hin)
    simp only [walk, hrec]
    simp at this
    split <;> simpa using this

def directFile (pre : Path) : Tree → Option Found
  | .file n reg g => if reg && isProtoName n then some ⟨pre ++ [n], g⟩ else none
  | .dir _ _ => none

theorem walkList_norecurse (c : WalkCtx) (hrec : c.recurse = false) (pre : Path) (cs : List Tree)
    (hin : ∀ t ∈ cs, c.isInput (pre ++ [t.name]) = false) :
    walkList c pre cs = cs.filterMap (directFile pre) := by
  induction cs with
  | nil => simp [walkList]
  | cons t ts ih =>
    have h1 := hin t (by simp)
    have ih' := ih (fun u hu => hin u (by simp [hu]))
    simp only [walkList, ih']
    cases t with
    | file n reg g =>
      simp only [Tree.name] at h1
      by_cases hc : (reg && isProtoName n) = true
      · simp [walk, h1, directFile, hc]
      · simp [walk, h1, directFile, hc]
    | dir n sub =>
      simp only [Tree.name] at h1
      simp [walk, h1, hrec, List.filterMap_cons, directFile]

mutual
theorem walk_nodup (c : WalkCtx) (pre : Path) (t : Tree) (h : WF t) :
    ((walk c pre t).map (·.path)).Nodup := by
  match t with
  | .file n reg g =>
    simp only [walk]
    split
    · simp
    · split <;> simp
  | .dir n cs =>
    have key := walkList_nodup c (pre ++ [n]) cs (by simpa [WF] using h)
    simp only [walk]
    split
    · exact key
    · split
      · simp
      · exact key
theorem walkList_nodup (c : WalkCtx) (pre : Path) (cs : List Tree) (h : WFL cs) :
    ((walkList c pre cs).map (·.path)).Nodup := by
  match cs with
  | [] => simp [walkList]
  | t :: ts =>
    simp only [WFL] at h
    obtain ⟨h1, h2, h3⟩ := h
    simp only [walkList, List.map_append]
    rw [List.nodup_append]
    refine ⟨walk_nodup c pre t h1, walkList_nodup c pre ts h3, ?_⟩
    intro a ha b hb hab
    obtain ⟨fa, hfa, rfl⟩ := List.mem_map.1 ha
    obtain ⟨fb, hfb, hb'⟩ := List.mem_map.1 hb
    obtain ⟨q, hq⟩ := walk_prefix c pre t fa hfa
    obtain ⟨u, hu, q', hq'⟩ := walkList_prefix c pre ts fb hfb
    rw [hq] at hab
    rw [← hab, hq'] at hb'
    have := List.append_cancel_left hb'
    simp at this
    exact h2 u hu this.1
end


/-! ### the argument vector, by membership -/

theorem mem_fixedArgs (cfg : Config) (a : Arg) :
    a ∈ fixedArgs cfg ↔ a = .fatalWarnings ∨ ∃ pl, cfg.requested pl = true ∧ (a = .out pl ∨ a = .optPaths pl) := by
  constructor
  · intro h
    simp only [fixedArgs, List.mem_append] at h
    rcases h with (h | h) | h
    · simp at h
      rcases h with rfl | rfl | rfl
      · exact .inr ⟨.go, rfl, .inl rfl⟩
      · exact .inr ⟨.go, rfl, .inr rfl⟩
      · exact .inl rfl
    · split at h
      · rename_i hv
        simp at h
        rcases h with rfl | rfl
        · exact .inr ⟨.vt, hv, .inl rfl⟩
        · exact .inr ⟨.vt, hv, .inr rfl⟩
      · simp at h
    · split at h
      · rename_i hv
        simp at h
        rcases h with rfl | rfl
        · exact .inr ⟨.grpc, hv, .inl rfl⟩
        · exact .inr ⟨.grpc, hv, .inr rfl⟩
      · simp at h
  · rintro (rfl | ⟨pl, hpl, rfl | rfl⟩)
    · simp [fixedArgs]
    · cases pl <;> simp_all [fixedArgs, Config.requested]
    · cases pl <;> simp_all [fixedArgs, Config.requested]

theorem mem_mappingArgs (cfg : Config) (rel : Path) (pkg : String) (a : Arg) :
    a ∈ mappingArgs cfg rel pkg ↔ ∃ pl, cfg.requested pl = true ∧ a = .mapping pl rel pkg := by
  constructor
  · intro h
    simp only [mappingArgs, List.mem_append] at h
    rcases h with (h | h) | h
    · simp at h; exact ⟨.go, rfl, h⟩
    · split at h
      · rename_i hv; simp at h; exact ⟨.vt, hv, h⟩
      · simp at h
    · split at h
      · rename_i hv; simp at h; exact ⟨.grpc, hv, h⟩
      · simp at h
  · rintro ⟨pl, hpl, rfl⟩
    cases pl <;> simp_all [mappingArgs, Config.requested]

theorem findProtos_incl (cfg : Config) (root : Path) (cs : List Tree) :
    findProtos (inclCtx cfg) root cs = walkList (inclCtx cfg) root cs := by
  unfold findProtos; split <;> simp [inclCtx]

theorem findProtos_first (cfg : Config) (cs : List Tree) :
    findProtos (firstCtx cfg) cfg.input cs = walkList (firstCtx cfg) cfg.input cs := by
  unfold findProtos; simp [firstCtx]

theorem mem_rootArgs (pkgOf : Path → String) (cfg : Config) (r : Root) (a : Arg) :
    a ∈ rootArgs pkgOf cfg r ↔ a = .incl r.abs ∨
      ∃ f ∈ walkList (inclCtx cfg) r.abs r.children, f.goPkg = false ∧ ∃ pl, cfg.requested pl = true ∧
        a = .mapping pl (f.path.drop r.abs.length) (pkgFor pkgOf r f) := by
  simp only [rootArgs, List.mem_cons, List.mem_flatMap, findProtos_incl]
  constructor
  · rintro (h | ⟨f, hf, h⟩)
    · exact .inl h
    · right
      split at h
      · simp at h
      · rename_i hg
        exact ⟨f, hf, by simpa using hg, (mem_mappingArgs ..).1 h⟩
  · rintro (h | ⟨f, hf, hg, h⟩)
    · exact .inl h
    · right
      refine ⟨f, hf, ?_⟩
      simp only [hg]
      exact (mem_mappingArgs ..).2 h

theorem mem_run (pkgOf : Path → String) (cfg : Config) (cs : List Tree) (incs : List Root) (a : Arg) :
    a ∈ run pkgOf cfg cs incs ↔ a ∈ fixedArgs cfg ∨
      (∃ r ∈ (⟨cfg.input, none, cs⟩ : Root) :: incs, a ∈ rootArgs pkgOf cfg r) ∨
      ∃ f ∈ walkList (firstCtx cfg) cfg.input cs, a = .file f.path := by
  simp only [run, runRaw, List.mem_append, List.mem_flatMap, List.mem_map, findProtos_first, or_assoc]
  constructor
  · rintro (h | h | ⟨f, hf, rfl⟩)
    · exact .inl h
    · exact .inr (.inl h)
    · exact .inr (.inr ⟨f, hf, rfl⟩)
  · rintro (h | h | ⟨f, hf, rfl⟩)
    · exact .inl h
    · exact .inr (.inl h)
    · exact .inr (.inr ⟨f, hf, rfl⟩)

/-! ### 1. the files named -/

theorem firstCtx_below (cfg : Config) (q : Path) (hq : q ≠ []) :
    (firstCtx cfg).isInput (cfg.input ++ q) = false := by
  simp [firstCtx, hq]

/-- The first walk finds exactly the regular `.proto` files in scope. -/
theorem mem_first_walk_iff (cfg : Config) (cs : List Tree) (f : Found) :
    f ∈ walkList (firstCtx cfg) cfg.input cs ↔
      ∃ dirs n, HasFile cs dirs n true f.goPkg ∧ EndsWithProto n ∧ (cfg.recurse = true ∨ dirs = []) ∧
        f.path = cfg.input ++ dirs ++ [n] := by
  by_cases hrec : cfg.recurse = true
  · constructor
    · intro h
      obtain ⟨dirs, n, hf, hp, hq⟩ := walkList_sound _ _ _ _ h
      exact ⟨dirs, n, hf, (isProtoName_iff n).1 hp, .inl hrec, hq⟩
    · rintro ⟨dirs, n, hf, hp, _, hq⟩
      have := walk_complete (firstCtx cfg) hrec hf rfl ((isProtoName_iff n).2 hp) cfg.input
        (by rw [List.append_assoc]; exact firstCtx_below cfg _ (by simp))
      cases f; simp_all
  · have hrec' : (firstCtx cfg).recurse = false := by simpa [firstCtx] using hrec
    rw [walkList_norecurse _ hrec' _ _ (fun t _ => firstCtx_below cfg _ (by simp))]
    simp only [List.mem_filterMap]
    constructor
    · rintro ⟨t, ht, h⟩
      cases t with
      | dir n sub => simp [directFile] at h
      | file n reg g =>
        simp only [directFile] at h
        split at h
        · rename_i hc
          simp at hc
          simp at h; subst h
          refine ⟨[], n, .here ?_, (isProtoName_iff n).1 hc.2, .inr rfl, by simp⟩
          simpa [hc.1] using ht
        · simp at h
    · rintro ⟨dirs, n, hf, hp, hd, hq⟩
      rcases hd with hd | hd
      · exact absurd hd hrec
      · subst hd
        cases hf with
        | here hm =>
          refine ⟨_, hm, ?_⟩
          cases f
          simp_all [directFile, (isProtoName_iff n).2 hp]

/-- `protos_named_iff`: a file operand is passed exactly for the `.proto` files directly inside the
input directory (anywhere below it with `-recurse`), and for nothing else. -/
theorem protos_named_iff (pkgOf : Path → String) (cfg : Config) (cs : List Tree) (incs : List Root)
    (p : Path) : Arg.file p ∈ run pkgOf cfg cs incs ↔ InScope cfg.recurse cfg.input cs p := by
  rw [mem_run]
  constructor
  · rintro (h | ⟨r, _, h⟩ | ⟨f, hf, h⟩)
    · rw [mem_fixedArgs] at h
      rcases h with h | ⟨pl, _, h | h⟩ <;> simp at h
    · rw [mem_rootArgs] at h
      rcases h with h | ⟨f, _, _, pl, _, h⟩ <;> simp at h
    · obtain ⟨dirs, n, hf', hp, hd, hq⟩ := (mem_first_walk_iff cfg cs f).1 hf
      simp at h; subst h
      exact ⟨dirs, n, f.goPkg, hf', hp, hd, hq⟩
  · rintro ⟨dirs, n, g, hf, hp, hd, rfl⟩
    right; right
    exact ⟨⟨cfg.input ++ dirs ++ [n], g⟩, (mem_first_walk_iff cfg cs _).2 ⟨dirs, n, hf, hp, hd, rfl⟩, rfl⟩

theorem count_file_fixedArgs (cfg : Config) (p : Path) : (fixedArgs cfg).count (.file p) = 0 := by
  apply List.count_eq_zero_of_not_mem
  rw [mem_fixedArgs]
  rintro (h | ⟨pl, _, h | h⟩) <;> simp at h

theorem count_file_roots (pkgOf : Path → String) (cfg : Config) (roots : List Root) (p : Path) :
    (roots.flatMap (rootArgs pkgOf cfg)).count (.file p) = 0 := by
  apply List.count_eq_zero_of_not_mem
  simp only [List.mem_flatMap, mem_rootArgs]
  rintro ⟨r, _, h | ⟨f, _, _, pl, _, h⟩⟩ <;> simp at h

/-- `protos_exactly_once`: in a file system (distinct names in a directory) every in-scope `.proto`
file is named exactly once, and no other file is named at all. -/
theorem protos_exactly_once (pkgOf : Path → String) (cfg : Config) (cs : List Tree) (incs : List Root)
    (hwf : WFL cs) (p : Path) :
    (InScope cfg.recurse cfg.input cs p → (run pkgOf cfg cs incs).count (.file p) = 1) ∧
    (¬ InScope cfg.recurse cfg.input cs p → (run pkgOf cfg cs incs).count (.file p) = 0) := by
  constructor
  · intro hs
    have hmem := (protos_named_iff pkgOf cfg cs incs p).2 hs
    simp only [run, runRaw, List.count_append, count_file_fixedArgs, count_file_roots, Nat.zero_add]
    simp only [run, runRaw, List.mem_append] at hmem
    have hmem' : Arg.file p ∈ (findProtos (firstCtx cfg) cfg.input cs).map (fun f => Arg.file f.path) := by
      rcases hmem with (h | h) | h
      · exact absurd (List.count_pos_iff.2 h) (by rw [count_file_fixedArgs]; simp)
      · exact absurd (List.count_pos_iff.2 h) (by rw [count_file_roots]; simp)
      · exact h
    have hnd : ((findProtos (firstCtx cfg) cfg.input cs).map (fun f => Arg.file f.path)).Nodup := by
      rw [findProtos_first]
      have := walkList_nodup (firstCtx cfg) cfg.input cs hwf
      have h2 : (walkList (firstCtx cfg) cfg.input cs).map (fun f => Arg.file f.path)
          = ((walkList (firstCtx cfg) cfg.input cs).map (·.path)).map Arg.file := by simp
      rw [h2]
      exact List.Pairwise.map Arg.file (fun a b (h : a ≠ b) => (by simpa using h : Arg.file a ≠ Arg.file b)) this
    rw [hnd.count]; simp [hmem']
  · intro hs
    apply List.count_eq_zero_of_not_mem
    exact fun h => hs ((protos_named_iff pkgOf cfg cs incs p).1 h)

/-! ### 2. include paths -/

def Arg.inclOf : Arg → Option Path
  | .incl p => some p
  | _ => none

theorem inclOf_rootArgs (pkgOf : Path → String) (cfg : Config) (r : Root) :
    (rootArgs pkgOf cfg r).filterMap Arg.inclOf = [r.abs] := by
  simp only [rootArgs, List.filterMap_cons, Arg.inclOf]
  have : ∀ l : List Found, (l.flatMap (fun f => if f.goPkg = true then [] else
      mappingArgs cfg (f.path.drop r.abs.length) (pkgFor pkgOf r f))).filterMap Arg.inclOf = [] := by
    intro l
    rw [List.filterMap_eq_nil_iff]
    intro a ha
    simp only [List.mem_flatMap] at ha
    obtain ⟨f, _, h⟩ := ha
    split at h
    · simp at h
    · obtain ⟨pl, _, rfl⟩ := (mem_mappingArgs ..).1 h; rfl
  simp [this]

/-- `includes_present`: the `-I` arguments are exactly the (absolute) input directory followed by the
(absolute) `-include` directories — one each, nothing else. -/
theorem includes_present (pkgOf : Path → String) (cfg : Config) (cs : List Tree) (incs : List Root) :
    (run pkgOf cfg cs incs).filterMap Arg.inclOf = cfg.input :: incs.map (·.abs) := by
  have hfix : (fixedArgs cfg).filterMap Arg.inclOf = [] := by
    rw [List.filterMap_eq_nil_iff]
    intro a ha
    rw [mem_fixedArgs] at ha
    rcases ha with rfl | ⟨pl, _, rfl | rfl⟩ <;> rfl
  have hfiles : ∀ l : List Found, (l.map (fun f => Arg.file f.path)).filterMap Arg.inclOf = [] := by
    intro l; rw [List.filterMap_eq_nil_iff]; intro a ha
    obtain ⟨f, _, rfl⟩ := List.mem_map.1 ha; rfl
  have hroots : ∀ roots : List Root,
      (roots.flatMap (rootArgs pkgOf cfg)).filterMap Arg.inclOf = roots.map (·.abs) := by
    intro roots
    induction roots with
    | nil => simp
    | cons r rs ih => simp [List.flatMap_cons, List.filterMap_append, inclOf_rootArgs, ih]
  simp [run, runRaw, List.filterMap_append, hfix, hfiles, hroots, inclOf_rootArgs]

/-! ### 3. Go-package mappings -/

theorem normStep_plain (r : Bool) (acc : List String) (c : String) (h : PlainComp c) :
    normStep r acc c = c :: acc := by
  obtain ⟨h1, h2, h3⟩ := h
  simp [normStep, h1, h2, h3]

theorem foldl_normStep_plain (r : Bool) (xs acc : List String) (h : ∀ c ∈ xs, PlainComp c) :
    xs.foldl (normStep r) acc = xs.reverse ++ acc := by
  induction xs generalizing acc with
  | nil => simp
  | cons x xs ih =>
    rw [List.foldl_cons, normStep_plain r acc x (h x (by simp)), ih _ (fun c hc => h c (by simp [hc]))]
    simp

/-- `filepath.Clean` leaves a path of plain components alone. -/
theorem normalize_plain (r : Bool) (xs : List String) (h : ∀ c ∈ xs, PlainComp c) :
    normalize r xs = xs := by
  simp [normalize, foldl_normStep_plain r xs [] h]

theorem joinPkg_plain (pre dirs : List String) (hpre : pre ≠ []) (h1 : ∀ c ∈ pre, PlainComp c)
    (h2 : ∀ d ∈ dirs, PlainComp d) : joinPkg pre dirs = "/".intercalate (pre ++ dirs) := by
  have : normalize false (pre ++ dirs) = pre ++ dirs :=
    normalize_plain _ _ (fun c hc => by
      rcases List.mem_append.1 hc with h | h
      · exact h1 c h
      · exact h2 c h)
  simp [joinPkg, this, hpre]

/-- what the mapping theorem needs of an include root: the input directory is not a regular file of
that tree (it is a directory), and an explicit prefix is a clean, non-empty relative import path
(directory names are never ``, `.` or `..`) -/
structure RootOK (cfg : Config) (r : Root) : Prop where
  inputNotAFile : ∀ dirs n g, HasFile r.children dirs n true g → r.abs ++ dirs ++ [n] ≠ cfg.input
  cleanPrefix : ∀ pre, r.pkgPrefix = some pre → pre ≠ [] ∧ (∀ c ∈ pre, PlainComp c) ∧
    ∀ dirs n reg g, HasFile r.children dirs n reg g → ∀ d ∈ dirs, PlainComp d

/-- the input directory's own root always qualifies -/
theorem rootOK_input (cfg : Config) (cs : List Tree) : RootOK cfg ⟨cfg.input, none, cs⟩ := by
  refine ⟨?_, by simp⟩
  intro dirs n g _ h
  have := congrArg List.length h
  simp at this

theorem pkgFor_eq_spec (pkgOf : Path → String) (cfg : Config) (r : Root) (hok : RootOK cfg r)
    {dirs : List String} {n : String} {reg g g' : Bool} (hf : HasFile r.children dirs n reg g) :
    pkgFor pkgOf r ⟨r.abs ++ dirs ++ [n], g'⟩ = specPkg pkgOf r dirs := by
  unfold pkgFor specPkg
  cases hp : r.pkgPrefix with
  | none => simp
  | some pre =>
    obtain ⟨h1, h2, h3⟩ := hok.cleanPrefix pre hp
    simp only []
    have : ((r.abs ++ dirs ++ [n]).drop r.abs.length).dropLast = dirs := by
      rw [List.append_assoc, List.drop_left]; simp
    rw [this]
    exact joinPkg_plain pre dirs h1 h2 (h3 dirs n reg g hf)

theorem inclCtx_notInput (cfg : Config) (p : Path) (h : p ≠ cfg.input) :
    (inclCtx cfg).isInput p = false := by
  simp [inclCtx, h]

/-- `mapping_iff_no_go_package`: an `M<rel>=<pkg>` option is passed to plugin `pl` exactly when `pl`
is requested and `<rel>` is a `.proto` file below the input directory or an include directory that
does NOT declare `go_package`, with `<pkg>` the explicit prefix joined with the relative directory
(when one was given) or the Go package of the file's directory. -/
theorem mapping_iff_no_go_package (pkgOf : Path → String) (cfg : Config) (cs : List Tree)
    (incs : List Root) (hok : ∀ r ∈ incs, RootOK cfg r) (pl : Plugin) (rel : Path) (pkg : String) :
    Arg.mapping pl rel pkg ∈ run pkgOf cfg cs incs ↔
      cfg.requested pl = true ∧ ∃ r ∈ (⟨cfg.input, none, cs⟩ : Root) :: incs, ∃ dirs n,
        HasFile r.children dirs n true false ∧ EndsWithProto n ∧ rel = dirs ++ [n] ∧
          pkg = specPkg pkgOf r dirs := by
  have hok' : ∀ r ∈ (⟨cfg.input, none, cs⟩ : Root) :: incs, RootOK cfg r := by
    intro r hr
    rcases List.mem_cons.1 hr with rfl | hr
    · exact rootOK_input cfg cs
    · exact hok r hr
  rw [mem_run]
  constructor
  · rintro (h | ⟨r, hr, h⟩ | ⟨f, _, h⟩)
    · rw [mem_fixedArgs] at h
      rcases h with h | ⟨pl, _, h | h⟩ <;> simp at h
    · rw [mem_rootArgs] at h
      rcases h with h | ⟨f, hf, hg, pl', hpl', h⟩
      · simp at h
      · obtain ⟨dirs, n, hfile, hp, hq⟩ := walkList_sound _ _ _ _ hf
        simp only [Arg.mapping.injEq] at h
        obtain ⟨rfl, hrel, hpkg⟩ := h
        refine ⟨hpl', r, hr, dirs, n, by simpa [hg] using hfile, (isProtoName_iff n).1 hp, ?_, ?_⟩
        · rw [hrel, hq, List.append_assoc, List.drop_left]
        · rw [hpkg]
          have : f = ⟨r.abs ++ dirs ++ [n], f.goPkg⟩ := by cases f; simp_all
          rw [this]
          exact pkgFor_eq_spec pkgOf cfg r (hok' r hr) hfile
    · simp at h
  · rintro ⟨hpl, r, hr, dirs, n, hfile, hp, rfl, rfl⟩
    right; left
    refine ⟨r, hr, (mem_rootArgs ..).2 (.inr ⟨⟨r.abs ++ dirs ++ [n], false⟩, ?_, rfl, pl, hpl, ?_⟩)⟩
    · exact walk_complete (inclCtx cfg) rfl hfile rfl ((isProtoName_iff n).2 hp) r.abs
        (inclCtx_notInput cfg _ ((hok' r hr).inputNotAFile dirs n false hfile))
    · simp only [Arg.mapping.injEq, true_and]
      refine ⟨?_, (pkgFor_eq_spec pkgOf cfg r (hok' r hr) hfile).symm⟩
      rw [List.append_assoc, List.drop_left]

/-- the mapping of an undeclared proto goes to EVERY requested plugin -/
theorem mapping_to_every_requested_plugin (pkgOf : Path → String) (cfg : Config) (cs : List Tree)
    (incs : List Root) (hok : ∀ r ∈ incs, RootOK cfg r) (r : Root)
    (hr : r ∈ (⟨cfg.input, none, cs⟩ : Root) :: incs) (dirs : List String) (n : String)
    (hf : HasFile r.children dirs n true false) (hp : EndsWithProto n) (pl : Plugin)
    (hpl : cfg.requested pl = true) :
    Arg.mapping pl (dirs ++ [n]) (specPkg pkgOf r dirs) ∈ run pkgOf cfg cs incs :=
  (mapping_iff_no_go_package pkgOf cfg cs incs hok pl _ _).2 ⟨hpl, r, hr, dirs, n, hf, hp, rfl, rfl⟩

/-- no mapping for a proto that declares `go_package` (unless a sibling tree maps the same relative
name): every mapping passed stems from an undeclared file -/
theorem no_mapping_without_undeclared_file (pkgOf : Path → String) (cfg : Config) (cs : List Tree)
    (incs : List Root) (hok : ∀ r ∈ incs, RootOK cfg r) (pl : Plugin) (rel : Path) (pkg : String)
    (h : Arg.mapping pl rel pkg ∈ run pkgOf cfg cs incs) :
    ∃ r ∈ (⟨cfg.input, none, cs⟩ : Root) :: incs, ∃ dirs n,
      HasFile r.children dirs n true false ∧ rel = dirs ++ [n] := by
  obtain ⟨_, r, hr, dirs, n, hf, _, hrel, _⟩ := (mapping_iff_no_go_package pkgOf cfg cs incs hok pl rel pkg).1 h
  exact ⟨r, hr, dirs, n, hf, hrel⟩

/-! ### 4. plugins -/

/-- `plugins_iff_flags`: `--go_out` always; `--go-vtproto_out` / `--go-grpc_out` (and their `paths`
options) exactly when the flags are set. -/
theorem plugins_iff_flags (pkgOf : Path → String) (cfg : Config) (cs : List Tree) (incs : List Root)
    (pl : Plugin) :
    (Arg.out pl ∈ run pkgOf cfg cs incs ↔ cfg.requested pl = true) ∧
    (Arg.optPaths pl ∈ run pkgOf cfg cs incs ↔ cfg.requested pl = true) := by
  constructor <;>
  · rw [mem_run]
    constructor
    · rintro (h | ⟨r, _, h⟩ | ⟨f, _, h⟩)
      · rw [mem_fixedArgs] at h
        rcases h with h | ⟨pl', hpl', h | h⟩ <;> simp at h
        subst h; exact hpl'
      · rw [mem_rootArgs] at h
        rcases h with h | ⟨f, _, _, pl', _, h⟩ <;> simp at h
      · simp at h
    · intro h
      left; rw [mem_fixedArgs]; right
      exact ⟨pl, h, by simp⟩

theorem requested_iff (cfg : Config) :
    cfg.requested .go = true ∧ (cfg.requested .vt = true ↔ cfg.vt = true) ∧
      (cfg.requested .grpc = true ↔ cfg.grpc = true) := by
  simp [Config.requested]

/-! ### 5. one invocation -/

/-- `single_invocation`: protoc is started (the model has no way to start it twice) exactly when
the input directory and every include directory exist; otherwise `Run` fails before starting it. -/
theorem single_invocation (pkgOf : Path → String) (fs : List Tree) (rq : Request) :
    (runFS pkgOf fs rq).isSome = true ↔
      (lookupDir fs rq.config.input).isSome = true ∧
        ((rq.inputDir :: rq.includes).mapM (resolveRoot fs rq.cwd)).isSome = true := by
  simp only [runFS]
  cases h1 : lookupDir fs rq.config.input with
  | none => simp
  | some cs =>
    cases h2 : (rq.inputDir :: rq.includes).mapM (resolveRoot fs rq.cwd) with
    | none => simp
    | some roots => simp

theorem cutChars_noEq (cs : List Char) (h : '=' ∉ cs) : cutChars cs = (cs, none) := by
  induction cs with
  | nil => rfl
  | cons c cs ih =>
    have hc : c ≠ '=' := fun e => h (by simp [e])
    have := ih (fun hm => h (by simp [hm]))
    simp [cutChars, hc, this]

/-- `strings.Cut` leaves a string without `=` alone -/
theorem cut_noEq (s : String) (h : '=' ∉ s.toList) : cut s = (s, none) := by
  simp [cut, cutChars_noEq _ h]

/-- for an input directory without `=` in its name, `Run` on a file system is `run` on the trees
found at the resolved directories -/
theorem runFS_eq_run (pkgOf : Path → String) (fs : List Tree) (rq : Request)
    (hne : '=' ∉ rq.inputDir.toList) {cs : List Tree}
    (hin : lookupDir fs rq.config.input = some cs) {incs : List Root}
    (hincs : rq.includes.mapM (resolveRoot fs rq.cwd) = some incs) :
    runFS pkgOf fs rq = some (run pkgOf rq.config cs incs) := by
  have hroot : resolveRoot fs rq.cwd rq.inputDir = some ⟨rq.config.input, none, cs⟩ := by
    have : absPath rq.cwd rq.inputDir = rq.config.input := rfl
    simp [resolveRoot, cut_noEq _ hne, this, hin]
  simp [runFS, hin, List.mapM_cons, hroot, hincs, run]

/-- without `-recurse`, "in scope" is "a regular `.proto` entry of the input directory itself" -/
theorem inScope_norecurse_iff (root : Path) (cs : List Tree) (p : Path) :
    InScope false root cs p ↔ ∃ n g, Tree.file n true g ∈ cs ∧ EndsWithProto n ∧ p = root ++ [n] := by
  constructor
  · rintro ⟨dirs, n, g, hf, hp, hd, rfl⟩
    rcases hd with hd | rfl
    · simp at hd
    · cases hf with
      | here hm => exact ⟨n, g, hm, hp, by simp⟩
  · rintro ⟨n, g, hm, hp, rfl⟩
    exact ⟨[], n, g, .here hm, hp, .inr rfl, by simp⟩

/-! ### non-vacuity -/

def exTree : List Tree :=
  [.file "a.proto" true false, .file "notes.txt" true false,
   .dir "sub" [.file "b.proto" true true, .file "c.proto" true false]]

example : WFL exTree := by
  simp [exTree, WFL, WF, Tree.name]

example : InScope true ["T", "in"] exTree ["T", "in", "sub", "c.proto"] :=
  ⟨["sub"], "c.proto", false, .under (sub := [.file "b.proto" true true, .file "c.proto" true false])
    (by simp [exTree]) (.here (by simp)), ⟨['c'], by decide⟩, .inl rfl, rfl⟩

example : RootOK ⟨["T", "in"], true, true, true, false⟩ ⟨["T", "inc"], some ["example.com", "x"], exTree⟩ := by
  refine ⟨?_, ?_⟩
  · intro dirs n g _ h
    have := congrArg (fun l => l.take 2) h
    simp at this
  · intro pre hpre
    simp at hpre; subst hpre
    refine ⟨by simp, by simp [PlainComp], ?_⟩
    intro dirs n reg g h d hd
    cases h with
    | here _ => simp at hd
    | under hm hs =>
      simp [exTree] at hm
      obtain ⟨rfl, rfl⟩ := hm
      cases hs with
      | here _ => simp at hd; subst hd; simp [PlainComp]
      | under hm' _ => simp at hm'

end Gogenproto

import Model.GoPrelude
/-!
# More primitives of the translated Go fragment (core Lean only)

* `KV κ ν`: a Go `map[K]V` whose VALUES matter, created by `make` (never nil in the fragment): an
  association list with distinct keys, in walk order.  A key that is assigned for the first time
  goes to the end, an assignment to a present key replaces its value in place, `delete` removes
  the entry.  As for `Go.GMap`, a walk hands out the list as it is.
* `deref`: reading through a pointer that may be nil.
-/
namespace Go
variable {κ ν α : Type}

abbrev KV (κ ν : Type) := List (κ × ν)

/-- `make(map[K]V)` -/
def kvMake : KV κ ν := []

/-- `_, ok := m[k]` -/
def kvHas [DecidableEq κ] (m : KV κ ν) (k : κ) : Bool := m.any (fun e => e.1 = k)

/-- `m[k] = v` -/
def kvSet [DecidableEq κ] (m : KV κ ν) (k : κ) (v : ν) : KV κ ν :=
  if kvHas m k then m.map (fun e => if e.1 = k then (k, v) else e) else m ++ [(k, v)]

/-- `delete(m, k)` -/
def kvDelete [DecidableEq κ] (m : KV κ ν) (k : κ) : KV κ ν := m.filter (fun e => e.1 ≠ k)

/-- the values in the order this walk of the map produces them (`for _, v := range m`) -/
def kvValues (m : KV κ ν) : List ν := m.map (·.2)

/-- `p.f` / `p.m()` through a pointer: a nil pointer dereference is a panic -/
def deref : Option α → M α
  | none => throw "nil pointer dereference"
  | some a => pure a

end Go

// extract-gconfig: tie A for C10. Reads getFromCache in /repo/gconfig/config.go and reports
// how the memo key handed to cached.Compute is constructed, as a regenerated Lean fact
// (lean/Generated/GConfigKey.lean). It only extracts; the Lean obligation
// `code_memo_key_is_pair` decides.
//
//	pair     : a composite literal holding the request key and exactly reflect.TypeFor[T]()
//	typeName : a composite literal holding the key and something derived from the type
//	           (its name/string form, TypeOf of a zero value): distinct types can share it
//	concat   : string concatenation of the key with something else (not injective)
package main

import (
	"flag"
	"fmt"
	"go/ast"
	"go/parser"
	"go/token"
	"os"
	"strings"
)

func main() {
	src := flag.String("src", "/repo/gconfig/config.go", "")
	out := flag.String("out", "../lean/Generated/GConfigKey.lean", "relative to the harness directory (go run -C harness)")
	flag.Parse()
	fset := token.NewFileSet()
	f, err := parser.ParseFile(fset, *src, nil, 0)
	if err != nil {
		fail(err.Error())
	}
	var fn *ast.FuncDecl
	for _, d := range f.Decls {
		if fd, ok := d.(*ast.FuncDecl); ok && fd.Name.Name == "getFromCache" {
			fn = fd
		}
	}
	if fn == nil {
		fail("func getFromCache not found")
	}
	// the first argument of the .Compute( call
	var keyArg ast.Expr
	ast.Inspect(fn, func(n ast.Node) bool {
		if c, ok := n.(*ast.CallExpr); ok {
			if s, ok := c.Fun.(*ast.SelectorExpr); ok && (s.Sel.Name == "Compute" || s.Sel.Name == "LoadOrCompute" || s.Sel.Name == "LoadOrStore" || s.Sel.Name == "Load") && len(c.Args) >= 1 && keyArg == nil {
				keyArg = c.Args[0]
			}
		}
		return true
	})
	if keyArg == nil {
		fail("no Compute/Load call on the memo table found in getFromCache")
	}
	expr := keyArg
	if id, ok := keyArg.(*ast.Ident); ok {
		// find its definition
		ast.Inspect(fn, func(n ast.Node) bool {
			if as, ok := n.(*ast.AssignStmt); ok && len(as.Lhs) == 1 && len(as.Rhs) == 1 {
				if l, ok := as.Lhs[0].(*ast.Ident); ok && l.Name == id.Name {
					expr = as.Rhs[0]
				}
			}
			return true
		})
	}
	kind := classify(expr)
	if kind == "" {
		fail(fmt.Sprintf("memo key expression at %s is neither a (key, type) composite literal nor a string concatenation", fset.Position(expr.Pos())))
	}
	body := fmt.Sprintf(`import Model.GConfigCache
/-! REGENERATED on every run by harness/cmd/extract-gconfig from %s (getFromCache, %s).
Do not edit. -/
namespace Generated.GConfigKey
def memoKeyKind : GConfigCache.KeyKind := .%s
end Generated.GConfigKey
`, *src, fset.Position(expr.Pos()), kind)
	old, _ := os.ReadFile(*out)
	if string(old) != body {
		if err := os.WriteFile(*out, []byte(body), 0o644); err != nil {
			fail(err.Error())
		}
	}
	fmt.Println("memo key construction:", kind)
}

func mentions(e ast.Expr, pred func(ast.Node) bool) bool {
	found := false
	ast.Inspect(e, func(n ast.Node) bool {
		if n != nil && pred(n) {
			found = true
		}
		return !found
	})
	return found
}

func classify(e ast.Expr) string {
	switch x := e.(type) {
	case *ast.CompositeLit:
		hasKey, hasType, derivedType := false, false, false
		for _, el := range x.Elts {
			v := el
			if kv, ok := el.(*ast.KeyValueExpr); ok {
				v = kv.Value
			}
			if id, ok := v.(*ast.Ident); ok && id.Name == "key" {
				hasKey = true
			}
			if isTypeForT(v) {
				hasType = true // the reflect.Type of T itself: type identity
			} else if mentions(v, func(n ast.Node) bool {
				s, ok := n.(*ast.SelectorExpr)
				if !ok {
					return false
				}
				p, ok := s.X.(*ast.Ident)
				return ok && p.Name == "reflect" && (s.Sel.Name == "TypeFor" || s.Sel.Name == "TypeOf")
			}) || mentions(v, func(n ast.Node) bool {
				c, ok := n.(*ast.CallExpr)
				if !ok {
					return false
				}
				s, ok := c.Fun.(*ast.SelectorExpr)
				return ok && strings.HasPrefix(s.Sel.Name, "Sprint")
			}) {
				// something DERIVED from the type (its name, its string form, TypeOf of a zero
				// value, ...): distinct types can share it
				derivedType = true
			}
		}
		if hasKey && hasType && len(x.Elts) == 2 {
			return "pair"
		}
		if hasKey && derivedType {
			return "typeName"
		}
	case *ast.BinaryExpr:
		if x.Op == token.ADD {
			return "concat"
		}
	case *ast.CallExpr:
		// e.g. fmt.Sprintf("%s%T", key, r): a formatted string is a concatenation
		if s, ok := x.Fun.(*ast.SelectorExpr); ok && strings.HasPrefix(s.Sel.Name, "Sprint") {
			return "concat"
		}
	}
	return ""
}

// isTypeForT: exactly `reflect.TypeFor[T]()`
func isTypeForT(e ast.Expr) bool {
	c, ok := e.(*ast.CallExpr)
	if !ok || len(c.Args) != 0 {
		return false
	}
	ix, ok := c.Fun.(*ast.IndexExpr)
	if !ok {
		return false
	}
	s, ok := ix.X.(*ast.SelectorExpr)
	if !ok {
		return false
	}
	p, ok := s.X.(*ast.Ident)
	return ok && p.Name == "reflect" && s.Sel.Name == "TypeFor"
}

func fail(msg string) {
	fmt.Fprintln(os.Stderr, "extract-gconfig:", msg)
	os.Exit(1)
}

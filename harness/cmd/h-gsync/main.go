// h-gsync: lock-step correspondence (tie C) between Model/GSync.lean and an instrumented copy of
// /repo/gsync, plus an implementation-side monitor of C01/C02 exactly as worded (L3 search).
//
// Built by ./check with `go build -overlay`, which maps the instrumented sources over the stub
// package verif/harness/instr/gsyncx.
package main

import (
	"context"
	"fmt"
	"os"
	"reflect"
	"sort"
	"strconv"
	"strings"
	"time"
	"unsafe"

	gsync "verif/harness/instr/gsyncx"
	"verif/harness/internal/hx"
	"verif/harness/internal/sched"
)

type call struct {
	kind string // a | w | c
	d    int
}

type rec struct {
	ch     uintptr
	start  int // zc just before the Wait started
	lstart int // lzc just before the Wait started (conservative monitor)
}

type thread struct {
	prog   []call
	status string
	rets   []int
	recs   []rec
	// the Add call in flight: its delta, and whether its counter update has been performed
	curDelta int
	applied  bool
	reserved bool
	// own steps taken inside Wait while no Add/Inc/Dec was in flight
	waitRest int
	// the Wait call in flight has not performed a visible operation yet / lzc just before its first one
	waitFresh bool
	waitLst   int
}

type gImpl struct {
	s           *sched.Sched
	wg          *gsync.SelectableWaitGroup
	threads     []*thread
	chanID      map[uintptr]int
	chans       map[int]chan struct{} // id -> channel value, for the closed-ness probe
	nextID      int
	count       int64
	wchan       int
	lock        string
	zc          int
	lb          int    // conservative lower bound of the count: increments returned + decrements called
	lzc         int    // instants with lb <= 0
	sumRet      int    // sum of deltas of returned Add calls
	inAdd       int    // Add calls in flight
	mon2        string // C02 verdict raised inside a schedule (sticky)
	mon         string
	variant     string
	roChans     []<-chan struct{}
	reservedSum int
	// client-side bookkeeping for the discipline of the quantifier ("every decrement issued after
	// the matching increment returned"), independent of how the implementation stores its count:
	retPos int // sum of the positive deltas whose call has returned
	admNeg int // sum of |delta| of the decrements admitted so far (in flight or returned)
}

func (g *gImpl) Reset() {}

func chanPtr(c any) uintptr { return reflect.ValueOf(c).Pointer() }

// chanOf finds the channel behind the object handed to a pointer update: the object is either a
// *chan struct{} (the pinned representation) or a pointer to a struct holding a chan struct{}
// field (e.g. a "gate" record) — a representation change that does not alter behaviour.
func chanOf(p any) (chan struct{}, bool) {
	if c, ok := p.(*chan struct{}); ok {
		if c == nil {
			return nil, false
		}
		return *c, true
	}
	v := reflect.ValueOf(p)
	if !v.IsValid() || v.Kind() != reflect.Pointer || v.IsNil() {
		return nil, false
	}
	e := v.Elem()
	if e.Kind() != reflect.Struct {
		return nil, false
	}
	for i := 0; i < e.NumField(); i++ {
		f := e.Field(i)
		if f.Kind() == reflect.Chan && f.Type() == reflect.TypeOf((chan struct{})(nil)) {
			c := reflect.NewAt(f.Type(), unsafe.Pointer(f.UnsafeAddr())).Elem().Interface().(chan struct{})
			if c != nil {
				return c, true
			}
		}
	}
	return nil, false
}

func (g *gImpl) idOf(ch chan struct{}) int {
	p := chanPtr(ch)
	if id, ok := g.chanID[p]; ok {
		return id
	}
	id := g.nextID
	g.nextID++
	g.chanID[p] = id
	g.chans[id] = ch
	return id
}

func isClosed(ch chan struct{}) bool {
	select {
	case <-ch:
		return true
	default:
		return false
	}
}

func isClosedRO(ch <-chan struct{}) bool {
	select {
	case <-ch:
		return true
	default:
		return false
	}
}

func parseProg(ws []string) ([]call, bool) {
	var p []call
	for _, w := range ws {
		switch {
		case w == "w":
			p = append(p, call{kind: "w"})
		case w == "c":
			p = append(p, call{kind: "c"})
		case strings.HasPrefix(w, "a"):
			d, err := strconv.Atoi(w[1:])
			if err != nil {
				return nil, false
			}
			p = append(p, call{kind: "a", d: d})
		default:
			return nil, false
		}
	}
	return p, true
}

func (g *gImpl) startCase(ws []string) string {
	if g.s != nil {
		g.s.Kill()
	}
	// ws: <variant> | prog | prog ...
	if len(ws) < 2 || ws[1] != "|" {
		return "bad-op"
	}
	g.variant = ws[0]
	var progs [][]call
	cur := []string{}
	for _, w := range ws[2:] {
		if w == "|" {
			p, ok := parseProg(cur)
			if !ok {
				return "bad-op"
			}
			progs = append(progs, p)
			cur = []string{}
		} else {
			cur = append(cur, w)
		}
	}
	p, ok := parseProg(cur)
	if !ok {
		return "bad-op"
	}
	progs = append(progs, p)

	g.chanID = map[uintptr]int{}
	g.chans = map[int]chan struct{}{}
	g.nextID = 0
	g.count, g.wchan, g.lock, g.zc, g.lb, g.lzc, g.sumRet, g.inAdd, g.mon = 0, 0, "-", 1, 0, 1, 0, 0, "ok"
	g.mon2 = ""
	g.reservedSum = 0
	g.retPos, g.admNeg = 0, 0
	g.threads = nil
	g.s = sched.New()
	sentinelSeen := false
	sched.OnOp = func(op *sched.Op) {
		// set-up operations (outside the scheduled threads): learn the sentinel channel
		if !sentinelSeen && op.Kind == "ptr-update" {
			if c, ok := chanOf(op.B); ok {
				g.idOf(c) // id 0
				sentinelSeen = true
			}
		}
	}
	g.wg = gsync.NewSelectableWaitGroup()
	sched.OnOp = nil
	if !sentinelSeen {
		// a constructor that does not store a channel: no sentinel known; reserve id 0
		g.nextID = 1
	}
	for _, p := range progs {
		t := &thread{prog: p, status: "idle"}
		g.threads = append(g.threads, t)
		g.s.Spawn(func() { g.runThread(t) })
	}
	return ""
}

// runThread is the client goroutine: it performs its calls in order.
func (g *gImpl) runThread(t *thread) {
	for _, c := range t.prog {
		switch c.kind {
		case "a":
			t.status = "add"
			t.curDelta, t.applied, t.reserved = c.d, false, false
			g.inAdd++
			if c.d < 0 {
				g.lb += c.d
			}
			// the property quantifies over Add, Inc and Dec: unit deltas go through the wrappers
			var v int
			switch c.d {
			case 1:
				v = g.wg.Inc()
			case -1:
				v = g.wg.Dec()
			default:
				v = g.wg.Add(c.d)
			}
			if c.d > 0 {
				g.lb += c.d
				g.retPos += c.d
			}
			if t.reserved && !t.applied {
				// an implementation without a separate counter update (e.g. count and channel in one
				// snapshot behind a pointer): the reservation ends with the call
				g.reservedSum -= -t.curDelta
				t.reserved = false
			}
			g.inAdd--
			g.sumRet += c.d
			t.rets = append(t.rets, v)
		case "w":
			t.status = "wait"
			// The interval of the property starts with the Wait call. A goroutine parked before the
			// first visible operation of Wait has done nothing another goroutine could notice, so the
			// same interleaving is also an execution in which it calls Wait only now: the monitor's
			// interval starts at the first own step of the call (the latest start this interleaving
			// allows). `start` (compared in lock-step with the model's zeroSeen) stays at the call.
			st := g.zc
			t.waitFresh, t.waitLst = true, g.lzc
			ch := g.wg.Wait()
			t.waitFresh = false
			t.recs = append(t.recs, rec{ch: chanPtr(ch), start: st, lstart: t.waitLst})
			// remember the channel object for closed-ness probes
			if _, ok := g.chanID[chanPtr(ch)]; !ok {
				g.chanID[chanPtr(ch)] = -1 // a channel never seen in a pointer update
				_ = ch
			}
			g.roChans = append(g.roChans, ch)
		case "c":
			t.status = "count"
			t.rets = append(t.rets, g.wg.Count())
		}
	}
	t.status = "idle"
}

func (g *gImpl) closedByPtr(p uintptr) bool {
	if id, ok := g.chanID[p]; ok && id >= 0 {
		return isClosed(g.chans[id])
	}
	for _, c := range g.roChans {
		if chanPtr(c) == p {
			return isClosedRO(c)
		}
	}
	return false
}

func ints(xs []int) string {
	p := make([]string, len(xs))
	for i, x := range xs {
		p[i] = strconv.Itoa(x)
	}
	return "[" + strings.Join(p, " ") + "]"
}

func b2s(b bool) string {
	if b {
		return "t"
	}
	return "f"
}

func (g *gImpl) observe(op *sched.Op, tid int) {
	if op == nil {
		return
	}
	switch op.Kind {
	case "ctr-update":
		if v, ok := op.Res.(int64); ok {
			g.count = v
		}
	case "ptr-update":
		if c, ok := chanOf(op.B); ok {
			id := g.idOf(c) // allocate the id at the operation, whether or not it installs
			if op.OK {
				g.wchan = id
			}
		}
	case "close":
		if c, ok := op.A.(chan struct{}); ok {
			g.idOf(c)
		}
	case "lock":
		if op.OK {
			g.lock = strconv.Itoa(tid)
		}
	case "unlock":
		g.lock = "-"
	}
}

func (g *gImpl) tick() {
	if g.count == 0 {
		g.zc++
	}
	if g.lb <= 0 {
		g.lzc++
	}
}

func (g *gImpl) state() string {
	closed := []int{}
	for id, c := range g.chans {
		if id != 0 && isClosed(c) {
			closed = append(closed, id)
		}
	}
	sort.Ints(closed)
	var b strings.Builder
	fmt.Fprintf(&b, "count=%d wchan=%d closed=%s lock=%s", g.count, g.wchan, ints(closed), g.lock)
	for _, t := range g.threads {
		rs := []string{}
		for _, r := range t.recs {
			id := g.chanID[r.ch]
			cl := g.closedByPtr(r.ch)
			rs = append(rs, fmt.Sprintf("%d:%s:%s", id, b2s(cl), b2s(r.start < g.zc)))
			// C01 exactly as worded: observed closed although the lower bound of the count
			// stayed > 0 over the whole interval since the Wait started
			if cl && !(r.lstart < g.lzc) && g.mon == "ok" {
				g.mon = "C01:closed-while-count-stayed-positive"
			}
		}
		fmt.Fprintf(&b, " | %s rets=%s recs=[%s]", t.status, ints(t.rets), strings.Join(rs, " "))
	}
	return b.String()
}

// gated: stepping thread tid now could drive the count negative. A decrement issued by one
// goroutine may rely on an increment of another one (cross-goroutine balance); the schedule
// generators only let such a decrement proceed once it is covered, so that the callers'
// obligation "never negative" holds. Covered means either of
//   - the increments that have RETURNED minus the decrements admitted so far cover it (the
//     discipline of the quantifier; known to the client whatever the implementation looks like), or
//   - the implementation's counter object (minus what other admitted decrements have reserved)
//     covers it (the increment's counter update has been performed although the call has not
//     returned yet; only meaningful for an implementation that keeps a counter object: one that
//     does not would otherwise never have a decrement admitted).
func (g *gImpl) gated(tid int) bool {
	if tid < 0 || tid >= len(g.threads) {
		return false
	}
	t := g.threads[tid]
	if t.status != "add" || t.curDelta >= 0 || t.applied || t.reserved {
		return false
	}
	if g.retPos-g.admNeg+t.curDelta >= 0 {
		return false
	}
	return g.count-int64(g.reservedSum)+int64(t.curDelta) < 0
}

func (g *gImpl) step(tid int) string {
	if g.s == nil || tid < 0 || tid >= len(g.threads) {
		return "bad-op"
	}
	if t := g.threads[tid]; t.status == "add" && t.curDelta < 0 && !t.applied && !t.reserved && !g.s.Done(tid) {
		t.reserved = true
		g.reservedSum += -t.curDelta
		g.admNeg += -t.curDelta
	}
	restBefore := g.inAdd == 0
	if t := g.threads[tid]; t.status == "wait" && t.waitFresh {
		t.waitFresh, t.waitLst = false, g.lzc
	}
	op := g.s.Step(tid)
	// C02, non-blocking clause exactly as worded: a goroutine inside Wait while no Add/Inc/Dec is in
	// flight must return within a few of its own steps (the model needs at most two loads per
	// iteration and one stale iteration: 4; the bound is 8)
	if g.inAdd > 0 {
		for _, th := range g.threads {
			th.waitRest = 0
		}
	} else if t := g.threads[tid]; t.status == "wait" && !g.s.Done(tid) && restBefore {
		t.waitRest++
		if t.waitRest > 8 && g.mon2 == "" {
			g.mon2 = "C02:wait-does-not-return-while-no-add-in-flight"
		}
	} else {
		t.waitRest = 0
	}
	if op != nil && op.Kind == "ctr-update" {
		if t := g.threads[tid]; t.status == "add" || true {
			if t.reserved && !t.applied {
				g.reservedSum -= -t.curDelta
				t.reserved = false
			}
			t.applied = true
		}
	}
	label := "none"
	if op != nil {
		label = op.Kind
		if label == "panic" {
			// a call of an in-domain client panicked inside the package (e.g. close of a closed
			// channel): that call never returns, so the state C02 speaks about ("all Add/Inc/Dec
			// calls have returned", "Wait returns") is never reached; reported under C02
			return "panic " + strings.Join(strings.Fields(fmt.Sprint(op.Res)), "-") + " mon=C02:call-panicked"
		}
	}
	g.observe(op, tid)
	g.tick()
	st := g.state()
	out := label + " " + st
	if g.mon != "ok" {
		out += " mon=" + g.mon
	}
	if g.mon2 != "" {
		out += " mon=" + g.mon2
	}
	return out
}

// probe: a fresh goroutine calls Count() then Wait(), at most 12 of its own steps.
func (g *gImpl) probe() string {
	t := &thread{prog: []call{{kind: "c"}, {kind: "w"}}, status: "idle"}
	saveZc, saveLzc := g.zc, g.lzc
	id := g.s.Spawn(func() { g.runThread(t) })
	steps := 0
	for steps < 12 && !g.s.Done(id) {
		op := g.s.Step(id)
		g.observe(op, id)
		steps++
	}
	g.zc, g.lzc = saveZc, saveLzc
	w := "spin"
	if g.s.Done(id) && len(t.recs) == 1 {
		w = fmt.Sprintf("%d:%s", g.chanID[t.recs[0].ch], b2s(g.closedByPtr(t.recs[0].ch)))
	}
	out := fmt.Sprintf("count=%s wait=%s steps=%d", ints(t.rets), w, steps)
	// C02 exactly as worded, at a point where no Add/Inc/Dec is in flight
	if g.inAdd == 0 {
		mon := ""
		if len(t.rets) != 1 || t.rets[0] != g.sumRet {
			mon = "C02:count-differs-from-sum-of-deltas"
		} else if w == "spin" {
			mon = "C02:wait-does-not-return-at-rest"
		} else if g.sumRet > 0 && strings.HasSuffix(w, ":t") {
			mon = "C02:fresh-wait-closed-while-count-positive"
		} else if g.sumRet == 0 {
			for _, th := range g.threads {
				for _, r := range th.recs {
					if !g.closedByPtr(r.ch) {
						mon = "C02:waiter-not-released-at-zero"
					}
				}
			}
			if !strings.HasSuffix(w, ":t") {
				mon = "C02:waiter-not-released-at-zero"
			}
		}
		if mon != "" {
			out += " mon=" + mon
		}
	}
	return out
}

// deadline: real-time smoke of WaitTimeout / WaitCTX at rest (all goroutines finished): with a
// positive count both must report their deadline promptly, with count zero both return nil.
func (g *gImpl) deadline() string {
	for i := range g.threads {
		if !g.s.Done(i) {
			return "bad-op"
		}
	}
	// Only run the real-time calls when a scheduled Wait() returns: a Wait that spins (an
	// inconsistent state at rest) would leave a goroutine spinning through the shims forever.
	pr := g.probe()
	if strings.Contains(pr, "wait=spin") {
		return "hang"
	}
	// The goroutine below runs OUTSIDE the scheduler. It must have finished before the next
	// scheduled step: a goroutine that is still inside the package later (say, woken by a long
	// timer) would enter the shims concurrently with a scheduled thread and be taken for it.
	// So the deadline is chosen from what a scheduled Wait() just returned at this point of rest:
	// a closed channel - the calls return at once, the deadline is generous (a short one could
	// fire first on a loaded machine and make select pick it); an open channel - the deadline is
	// what the calls wait for, so it is short.
	freshClosed := strings.Contains(pr, ":t steps=")
	res := make(chan string, 1)
	go func() {
		d := 2 * time.Millisecond
		if freshClosed {
			d = 30 * time.Second
		}
		e1 := g.wg.WaitTimeout(d)
		ctx, cancel := context.WithTimeout(context.Background(), d)
		defer cancel()
		e2 := g.wg.WaitCTX(ctx)
		switch {
		case e1 == nil && e2 == nil:
			res <- "released"
		case e1 != nil && e2 != nil:
			res <- "deadline"
		default:
			res <- fmt.Sprintf("mixed:%v:%v", e1 != nil, e2 != nil)
		}
	}()
	select {
	case r := <-res:
		return r
	case <-time.After(20 * time.Second):
		return "hang"
	}
}

func (g *gImpl) Exec(line string) string {
	ws := strings.Fields(line)
	if len(ws) >= 2 && ws[0] == "case" && ws[1] == "gsync" {
		g.roChans = nil
		if e := g.startCase(ws[2:]); e != "" {
			return e
		}
		return line
	}
	if len(ws) == 3 && ws[0] == "gs" && ws[1] == "step" {
		n, err := strconv.Atoi(ws[2])
		if err != nil {
			return "bad-op"
		}
		return g.step(n)
	}
	if len(ws) == 2 && ws[0] == "gs" && ws[1] == "probe" {
		return g.probe()
	}
	if len(ws) == 2 && ws[0] == "gs" && ws[1] == "deadline" {
		return g.deadline()
	}
	if len(ws) == 2 && ws[0] == "gs" && ws[1] == "state" {
		return g.state()
	}
	return "bad-op"
}

func main() {
	f := hx.ParseFlags()
	switch f.Prop {
	case "C01", "C02":
		runGSync(f)
	default:
		fmt.Fprintln(os.Stderr, "h-gsync: unknown property", f.Prop)
		os.Exit(2)
	}
}

import Model.Gencommon
import Driver.Util
/-! Line protocol for `Model/Gencommon` (stateful).  A case declares a small Go program
(packages, the target file's imports, method-bearing types with embedded fields and methods) and
then asks `find <pkg> <Type> <optbits>` (`findq`: same call, answer withheld), `promoted <pkg> <Type>` and `build`.
`imp2 <pkg> <alias>` is an import of the target package's SECOND file and `in2 <Type>` puts a type of
the target package (and its methods) there: the import handler is built from the first file alone.

Types are written in prefix form, one token each:
`b:<name>` basic/universe · `n:<pkg>:<Name>` named · `g:<pkg>:<Name>:<k>` + k types: instantiated
generic · `p` pointer · `s` slice · `a:<len>` array · `m` map (key, value) ·
`f:<np>:<0|1 variadic>:<nr>` + np×(name type) + nr×(name type) · `o:<text>` anything else.
A parameter name `-` means unnamed. -/
namespace Drv.GC
open _root_.Gencommon

structure TyDecl where
  pkg : Nat
  name : String
  iface : Bool := false
  methods : List (Name × Sig) := []
  embeds : List (Nat × String) := []

structure St where
  pkgs : List (Nat × Name × Name) := []       -- idx ↦ (path, package name)
  imps : List (Nat × Option Name) := []       -- import specs of the target file (the one handed to LoadPackages)
  imps2 : List Nat := []                      -- packages imported by the target package's second file only
  tys : List TyDecl := []
  ih : Option IH := none
  legacy : Bool := false

def S (n : Name) : String := String.ofList n

def pkgOf (st : St) (i : Nat) : Name × Name :=
  match st.pkgs.find? (fun p => p.1 = i) with
  | some p => p.2
  | none => ("?".toList, "?".toList)

def pname (w : String) : Name := if w = "-" then [] else w.toList

partial def parseTy (st : St) : List String → Option (GoType × List String)
  | [] => none
  | w :: rest =>
    match w.splitOn ":" with
    | ["b", n] => some (.basic n.toList, rest)
    | "o" :: t => some (.other ((":".intercalate t).replace "~" " ").toList, rest)
    | ["n", p, n] => p.toNat?.map fun p => (.named (pkgOf st p).1 (pkgOf st p).2 n.toList [], rest)
    | ["g", p, n, k] => do
      let p ← p.toNat?
      let k ← k.toNat?
      let (args, rest) ← parseN st k rest
      pure (.named (pkgOf st p).1 (pkgOf st p).2 n.toList args, rest)
    | ["p"] => do let (e, r) ← parseTy st rest; pure (.ptr e, r)
    | ["s"] => do let (e, r) ← parseTy st rest; pure (.slice e, r)
    | ["a", k] => do let k ← k.toNat?; let (e, r) ← parseTy st rest; pure (.array k e, r)
    | ["m"] => do
      let (k, r) ← parseTy st rest
      let (v, r) ← parseTy st r
      pure (.map k v, r)
    | ["f", np, v, nr] => do
      let np ← np.toNat?
      let nr ← nr.toNat?
      let (ps, r) ← parsePs st np rest
      let (rs, r) ← parsePs st nr r
      pure (.func ps (v = "1") rs, r)
    | _ => none
where
  parseN (st : St) : Nat → List String → Option (List GoType × List String)
    | 0, r => some ([], r)
    | k + 1, r => do
      let (t, r) ← parseTy st r
      let (ts, r) ← parseN st k r
      pure (t :: ts, r)
  parsePs (st : St) : Nat → List String → Option (List (Name × GoType) × List String)
    | 0, r => some ([], r)
    | k + 1, r => match r with
      | [] => none
      | nm :: r => do
        let (t, r) ← parseTy st r
        let (ps, r) ← parsePs st k r
        pure ((pname nm, t) :: ps, r)

def findDecl (st : St) (p : Nat) (n : String) : Option TyDecl :=
  st.tys.find? (fun d => d.pkg = p && d.name = n)

/-- complete method set of an interface type (`(*types.Interface).NumMethods/Method`):
explicit methods and those of embedded interfaces, once per name -/
def ifaceMethods (st : St) : Nat → Nat → String → List (Name × Sig)
  | 0, _, _ => []
  | fuel + 1, p, n =>
    match findDecl st p n with
    | none => []
    | some d =>
      let all := d.methods ++ (d.embeds.map (fun e => ifaceMethods st fuel e.1 e.2)).flatten
      all.foldl (fun acc m => if acc.any (fun x => x.1 = m.1) then acc else acc ++ [m]) []

def selfOf (st : St) (p : Nat) (n : String) : GoType :=
  .named (pkgOf st p).1 (pkgOf st p).2 n.toList []

/-- unroll the declared embedding graph into the model's tree (fuel bounds the depth) -/
def buildTy (st : St) : Nat → Nat → String → Ty GoType Sig
  | 0, p, n => .mk (selfOf st p n) [] []
  | fuel + 1, p, n =>
    match findDecl st p n with
    | none => .mk (selfOf st p n) [] []
    | some d =>
      if d.iface then .mk (selfOf st p n) (ifaceMethods st (fuel + 1) p n) []
      else .mk (selfOf st p n) d.methods (d.embeds.map (fun e => buildTy st fuel e.1 e.2))

def mapTy {ρ σ τ : Type} (f : σ → τ) : Nat → Ty ρ σ → Ty Unit τ
  | 0, _ => .mk () [] []
  | k + 1, .mk _ own emb => .mk () (own.map (fun m => (m.1, f m.2))) (emb.map (mapTy f k))

/-- `calcImports` reads the import specs of the file handed to `LoadPackages` only; `PInfo.Imports`
covers every file of the target package -/
def initIH (st : St) : IH :=
  let pin := st.imps.map (fun i => pkgOf st i.1) ++ st.imps2.map (fun i => pkgOf st i)
  calcImports (pkgOf st 0).1 pin (st.imps.map (fun i => ((pkgOf st i.1).1, i.2)))

def sortStr (l : List String) : List String := l.mergeSort (fun a b => decide (a ≤ b))

def dedup (l : List Name) : List Name := l.foldl (fun acc x => if acc.contains x then acc else acc ++ [x]) []

def methText (m : Name × RMeth) : String :=
  S (m.2.signature m.1) ++ "{" ++ ",".intercalate (m.2.input.map (S ·.1)) ++ "|" ++
    ",".intercalate (m.2.output.map (S ·.1)) ++ "}"

def updTy (st : St) (p : Nat) (n : String) (f : TyDecl → TyDecl) : St :=
  { st with tys := st.tys.map (fun d => if d.pkg = p && d.name = n then f d else d) }

def handle (st : St) (ws : List String) : St × String :=
  match ws with
  | ["mode", "legacy"] => ({ st with legacy := true }, "ok")
  | ["pkg", i, path, name] => match i.toNat? with
    | some i => ({ st with pkgs := st.pkgs ++ [(i, path.toList, name.toList)] }, "ok")
    | none => (st, "bad-op")
  | ["imp", i, al] => match i.toNat? with
    | some i => ({ st with imps := st.imps ++ [(i, if al = "-" then none else some al.toList)] }, "ok")
    | none => (st, "bad-op")
  | ["imp2", i, _al] => match i.toNat? with
    | some i => ({ st with imps2 := st.imps2 ++ [i] }, "ok")
    | none => (st, "bad-op")
  | ["in2", _n] => (st, "ok")   -- which file of the target package declares a type: not looked at
  | ["ty", p, n, kind] => match p.toNat? with
    | some p => ({ st with tys := st.tys ++ [{ pkg := p, name := n, iface := kind = "iface" }] }, "ok")
    | none => (st, "bad-op")
  | ["emb", p, n, _ptr, p2, n2] => match p.toNat?, p2.toNat? with
    | some p, some p2 => (updTy st p n (fun d => { d with embeds := d.embeds ++ [(p2, n2)] }), "ok")
    | _, _ => (st, "bad-op")
  | "meth" :: p :: n :: mname :: _recv :: ty => match p.toNat?, parseTy st ty with
    | some p, some (.func ps v rs, []) =>
      (updTy st p n (fun d => { d with methods := d.methods ++ [(mname.toList, ⟨ps, v, rs⟩)] }), "ok")
    | _, _ => (st, "bad-op")
  | "def" :: _ => (st, "ok")
  | ["find", p, n, bits] => match p.toNat?, bits.toNat? with
    | some p, some bits =>
      let ih := st.ih.getD (initIH st)
      let o : Opts := ⟨bits % 2 = 1, bits / 2 % 2 = 1⟩
      let r := findInterface st.legacy o ih (buildTy st 12 p n)
      let ms := sortStr (r.2.methods.map methText)
      let act := sortStr (r.1.active.map (fun i => S i.importString))
      ({ st with ih := some r.1 }, " ;; ".intercalate ms ++ " ## " ++ ",".intercalate act)
    | _, _ => (st, "bad-op")
  | ["findq", p, n, bits] =>
    -- same call as `find`, answer withheld (used before `build` to observe the compiler's verdict)
    match p.toNat?, bits.toNat? with
    | some p, some bits =>
      let ih := st.ih.getD (initIH st)
      let r := findInterface st.legacy ⟨bits % 2 = 1, bits / 2 % 2 = 1⟩ ih (buildTy st 12 p n)
      ({ st with ih := some r.1 }, "ok")
    | _, _ => (st, "bad-op")
  | ["promoted", p, n] => match p.toNat? with
    | some p =>
      let t := mapTy (fun (_ : Sig) => ()) 13 (buildTy st 12 p n)
      let ns := (dedup (allNames t)).filter (fun x => goPromotes t x)
      (st, "[" ++ ",".intercalate (sortStr (ns.map S)) ++ "]")
    | none => (st, "bad-op")
  | ["build"] => (st, "ok")
  | _ => (st, "bad-op")

end Drv.GC

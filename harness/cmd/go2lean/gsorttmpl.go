// go2lean -spec gsorttmpl: the part of gsort's template that writes the body of `Less`, as a term of the
// template-AST datatype of lean/Model/TmplAst.lean.
//
// The template file is the one gsort/gen/generate.go embeds (`//go:embed <file>` above `rawSortTemplate`).
// It is parsed with text/template/parse (through text/template, as the generator does).  Written out:
//
//	lessBody   the nodes between `func (s <SortTypeName>) Less(i, j int) bool {` and the closing `\n}` inside
//	           the `range $desc := .SorterDescs` block, with dot = $desc;
//	defs       every `define`d template reachable from there.
//
// Fragment: text; `{{.F}}` / `{{$desc.F}}` (one identifier); `{{if .F}} … [{{else}} …] {{end}}`;
// `{{template "T" .F}}`; comments.  Anything else (pipelines with functions or arguments, variables other
// than the range variable, range/with inside the body, chained fields) makes the extractor FAIL.
package main

import (
	"fmt"
	"go/ast"
	"go/parser"
	"os"
	"path/filepath"
	"sort"
	"strings"
	"text/template"
	"text/template/parse"
)

func init() { register("gsorttmpl", "../lean/Generated/GSortTmpl.lean", runGSortTmpl) }

type tmplx struct {
	rangeVar string // `$desc` while translating the Less body, "" inside a define
	called   map[string]bool
}

func leanStrLit(s string) string {
	var b strings.Builder
	b.WriteByte('"')
	for _, r := range s {
		switch {
		case r == '\n':
			b.WriteString(`\n`)
		case r == '\t':
			b.WriteString(`\t`)
		case r == '"':
			b.WriteString(`\"`)
		case r == '\\':
			b.WriteString(`\\`)
		case r >= 0x20 && r <= 0x7e:
			b.WriteRune(r)
		default:
			fail("gsorttmpl: template text holds a character the extractor does not spell: %q", r)
		}
	}
	b.WriteByte('"')
	return b.String()
}

// fieldOf: the single identifier F of a pipeline `.F` (or `$v.F` for the range variable)
func (t *tmplx) fieldOf(p *parse.PipeNode, what string) string {
	if p == nil || len(p.Decl) != 0 || len(p.Cmds) != 1 || len(p.Cmds[0].Args) != 1 {
		fail("gsorttmpl: %s `%s` is outside the translated fragment (one field of dot expected)", what, p)
	}
	switch a := p.Cmds[0].Args[0].(type) {
	case *parse.FieldNode:
		if len(a.Ident) == 1 && t.rangeVar == "" {
			return a.Ident[0]
		}
	case *parse.VariableNode:
		if len(a.Ident) == 2 && t.rangeVar != "" && a.Ident[0] == t.rangeVar {
			return a.Ident[1]
		}
	}
	fail("gsorttmpl: %s `%s` is outside the translated fragment (one field of dot expected)", what, p)
	return ""
}

func (t *tmplx) nodes(ns []parse.Node) string {
	var out []string
	for _, n := range ns {
		switch x := n.(type) {
		case *parse.TextNode:
			out = append(out, ".text "+leanStrLit(string(x.Text)))
		case *parse.CommentNode:
		case *parse.ActionNode:
			out = append(out, ".field "+leanStrLit(t.fieldOf(x.Pipe, "action")))
		case *parse.IfNode:
			els := "[]"
			if x.ElseList != nil {
				els = t.nodes(x.ElseList.Nodes)
			}
			out = append(out, ".cond "+leanStrLit(t.fieldOf(x.Pipe, "condition"))+" "+t.nodes(x.List.Nodes)+" "+els)
		case *parse.TemplateNode:
			t.called[x.Name] = true
			out = append(out, ".call "+leanStrLit(x.Name)+" "+leanStrLit(t.fieldOf(x.Pipe, "template argument")))
		default:
			fail("gsorttmpl: template node `%s` is outside the translated fragment", n)
		}
	}
	return "[" + strings.Join(out, ", ") + "]"
}

// embeddedTemplate: the file named by the //go:embed directive of the variable the template is parsed from
func embeddedTemplate(repo string) string {
	const rel = "gsort/gen/generate.go"
	f, err := parser.ParseFile(fset, filepath.Join(repo, rel), nil, parser.ParseComments)
	if err != nil {
		fail("%v", err)
	}
	var files []string
	for _, d := range f.Decls {
		gd, ok := d.(*ast.GenDecl)
		if !ok {
			continue
		}
		for _, sp := range gd.Specs {
			vs, ok := sp.(*ast.ValueSpec)
			if !ok || vs.Doc == nil {
				continue
			}
			for _, c := range vs.Doc.List {
				if strings.HasPrefix(c.Text, "//go:embed ") {
					files = append(files, strings.TrimSpace(strings.TrimPrefix(c.Text, "//go:embed ")))
				}
			}
		}
	}
	if len(files) != 1 || strings.ContainsAny(files[0], " *?[") {
		fail("gsorttmpl: %s: expected exactly one //go:embed directive naming one file, found %q", rel, files)
	}
	return filepath.Join("gsort/gen", files[0])
}

func runGSortTmpl(repo, out string) {
	rel := embeddedTemplate(repo)
	raw, err := os.ReadFile(filepath.Join(repo, rel))
	if err != nil {
		fail("%v", err)
	}
	tm, err := template.New("gsort").Parse(string(raw))
	if err != nil {
		fail("gsorttmpl: %s: %v", rel, err)
	}
	main := tm.Lookup("gsort")
	if main == nil || main.Tree == nil {
		fail("gsorttmpl: %s: no main template", rel)
	}
	// the range over the sorter descriptions
	var rng *parse.RangeNode
	for _, n := range main.Tree.Root.Nodes {
		if r, ok := n.(*parse.RangeNode); ok {
			if rng != nil {
				fail("gsorttmpl: %s: more than one top-level range", rel)
			}
			rng = r
		}
	}
	if rng == nil || len(rng.Pipe.Decl) != 1 || len(rng.Pipe.Cmds) != 1 || rng.Pipe.Cmds[0].String() != ".SorterDescs" || rng.ElseList != nil {
		fail("gsorttmpl: %s: expected one `range $v := .SorterDescs` at the top level", rel)
	}
	t := &tmplx{rangeVar: rng.Pipe.Decl[0].Ident[0], called: map[string]bool{}}
	// the Less method: `func (s ` {{$v.SortTypeName}} `) Less(i, j int) bool {` … `\n}`
	const marker = ") Less(i, j int) bool {"
	body := rng.List.Nodes
	start := -1
	for i, n := range body {
		if tx, ok := n.(*parse.TextNode); ok && strings.Contains(string(tx.Text), marker) {
			if start >= 0 || strings.Count(string(tx.Text), marker) != 1 {
				fail("gsorttmpl: %s: more than one Less method", rel)
			}
			start = i
		}
	}
	if start < 2 {
		fail("gsorttmpl: %s: no `%s` inside the range block", rel, marker)
	}
	head := string(body[start].(*parse.TextNode).Text)
	if !strings.HasPrefix(head, marker) {
		fail("gsorttmpl: %s: the receiver of Less is not `(s {{%s.SortTypeName}})`", rel, t.rangeVar)
	}
	if a, ok := body[start-1].(*parse.ActionNode); !ok || t.fieldOf(a.Pipe, "receiver type") != "SortTypeName" {
		fail("gsorttmpl: %s: the receiver of Less is not `(s {{%s.SortTypeName}})`", rel, t.rangeVar)
	}
	if tx, ok := body[start-2].(*parse.TextNode); !ok || !strings.HasSuffix(string(tx.Text), "\nfunc (s ") {
		fail("gsorttmpl: %s: the receiver of Less is not `(s {{%s.SortTypeName}})`", rel, t.rangeVar)
	}
	var less []parse.Node
	if rest := head[len(marker):]; rest != "" {
		// text between the opening brace and the first action belongs to the body
		if i := strings.Index(rest, "\n}"); i >= 0 {
			fail("gsorttmpl: %s: Less has a body without template actions", rel)
		}
		less = append(less, &parse.TextNode{NodeType: parse.NodeText, Text: []byte(rest)})
	}
	closed := false
	for _, n := range body[start+1:] {
		if tx, ok := n.(*parse.TextNode); ok {
			if i := strings.Index(string(tx.Text), "\n}"); i >= 0 {
				if i > 0 {
					less = append(less, &parse.TextNode{NodeType: parse.NodeText, Text: tx.Text[:i]})
				}
				closed = true
				break
			}
		}
		less = append(less, n)
	}
	if !closed {
		fail("gsorttmpl: %s: the closing brace of Less was not found", rel)
	}
	lessTerm := t.nodes(less)
	// the defined templates reachable from the body
	defs := map[string]string{}
	t.rangeVar = ""
	for changed := true; changed; {
		changed = false
		var names []string
		for n := range t.called {
			names = append(names, n)
		}
		sort.Strings(names)
		for _, n := range names {
			if _, ok := defs[n]; ok {
				continue
			}
			d := tm.Lookup(n)
			if d == nil || d.Tree == nil {
				fail("gsorttmpl: %s: template %q is not defined", rel, n)
			}
			defs[n] = t.nodes(d.Tree.Root.Nodes)
			changed = true
		}
	}
	var names []string
	for n := range defs {
		names = append(names, n)
	}
	sort.Strings(names)
	var b strings.Builder
	b.WriteString("import Model.TmplAst\n")
	fmt.Fprintf(&b, "/-! REGENERATED on every run by harness/cmd/go2lean -spec gsorttmpl from %s (text/template/parse). Do not edit.\n"+
		"`lessBody`: what the template writes between `func (s {{%s.SortTypeName}}) Less(i, j int) bool {` and the\n"+
		"closing brace, dot = %s (a SorterDesc); `defs`: the defined templates it calls.  See Model/TmplAst.lean. -/\n", rel, t.rangeVarName(rng), t.rangeVarName(rng))
	b.WriteString("namespace Generated.GSortTmpl\nopen TmplAst\n\n")
	for i, n := range names {
		fmt.Fprintf(&b, "/-- `{{define %q}}` -/\ndef tmpl%d : List Node :=\n  %s\n\n", n, i, defs[n])
	}
	b.WriteString("/-- the defined templates by name -/\ndef defs : String → Option (List Node) := fun n =>\n")
	for i, n := range names {
		fmt.Fprintf(&b, "  if n = %s then some tmpl%d else\n", leanStrLit(n), i)
	}
	b.WriteString("  none\n\n")
	fmt.Fprintf(&b, "/-- the body of the generated `Less` -/\ndef lessBody : List Node :=\n  %s\n\n", lessTerm)
	b.WriteString("end Generated.GSortTmpl\n")
	if err := os.WriteFile(out, []byte(b.String()), 0o644); err != nil {
		fail("%v", err)
	}
	fmt.Printf("go2lean gsorttmpl: Less body and %d defined template(s) of %s -> %s\n", len(names), rel, out)
}

func (t *tmplx) rangeVarName(r *parse.RangeNode) string { return r.Pipe.Decl[0].Ident[0] }

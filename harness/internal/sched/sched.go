// Package sched is a deterministic cooperative scheduler (tie C of DESIGN.md).
//
// Instrumented copies of /repo sources use drop-in replacements of sync/atomic and sync
// (sub-packages atomic and sync) whose every operation first yields to this scheduler.  Exactly
// one goroutine runs at a time; Step(id) lets thread id perform its pending visible operation
// and run thread-local code up to its next visible operation (or its end) — the unit of one
// `step` of the Lean transition systems.
package sched

import "fmt"

// Op describes one visible operation.
type Op struct {
	Kind string // lock | blocked | unlock | ctr-update | ctr-read | ptr-update | ptr-read | close
	Obj  any    // the atomic / mutex object
	A, B any    // arguments (e.g. old/new pointers of a CAS, the channel of a close)
	Res  any    // result, filled in when the operation has been performed
	OK   bool   // success flag of a CAS
}

type thr struct {
	id      int
	resume  chan bool // true = go on, false = die
	pending *Op
	done    bool
	dying   bool // unwinding after Kill
}

type killed struct{}

// Sched runs a fixed set of threads.
type Sched struct {
	threads []*thr
	cur     *thr
	yielded chan struct{}
}

// S is the active scheduler (nil: operations run directly, without yielding).
var S *Sched

// New installs a fresh scheduler.
func New() *Sched {
	S = &Sched{yielded: make(chan struct{})}
	return S
}

// Spawn starts a thread and runs it up to its first visible operation.
func (s *Sched) Spawn(f func()) int {
	S = s
	t := &thr{id: len(s.threads), resume: make(chan bool)}
	s.threads = append(s.threads, t)
	go func() {
		defer func() {
			if r := recover(); r != nil {
				if _, ok := r.(killed); !ok {
					t.pending = &Op{Kind: "panic", Res: fmt.Sprint(r)}
				}
			}
			t.done = true
			s.cur = nil
			s.yielded <- struct{}{}
		}()
		if !<-t.resume {
			t.dying = true
			panic(killed{})
		}
		f()
	}()
	s.cur = t
	t.resume <- true
	<-s.yielded
	return t.id
}

// OnOp, if set, sees every operation at the moment it is issued (also set-up operations issued
// outside the scheduled threads).
var OnOp func(*Op)

// Yield is called by the shims before performing op. It reports whether the caller is a
// scheduled thread (false: the operation runs directly, e.g. set-up code or the harness observing
// state between steps).
func Yield(op *Op) bool {
	if OnOp != nil {
		OnOp(op)
	}
	s := S
	if s == nil || s.cur == nil {
		return false
	}
	t := s.cur
	if t.dying {
		// the thread is unwinding after Kill: operations of its deferred calls (e.g. a deferred
		// Unlock) run directly; yielding here would park the goroutine forever
		return false
	}
	t.pending = op
	s.cur = nil
	s.yielded <- struct{}{}
	if !<-t.resume {
		t.dying = true
		panic(killed{})
	}
	return true
}

// Done reports whether thread id has finished.
func (s *Sched) Done(id int) bool { return id >= len(s.threads) || s.threads[id].done }

// Pending is the visible operation thread id will perform next (nil when finished).
func (s *Sched) Pending(id int) *Op {
	if s.Done(id) {
		return nil
	}
	return s.threads[id].pending
}

// Step lets thread id perform its pending operation and run to its next one. It returns the
// operation performed (nil if the thread had finished).
func (s *Sched) Step(id int) *Op {
	if s.Done(id) {
		return nil
	}
	S = s
	t := s.threads[id]
	op := t.pending
	s.cur = t
	t.resume <- true
	<-s.yielded
	if t.done && t.pending != nil && t.pending != op && t.pending.Kind == "panic" {
		// the thread ended in a panic of the code under test (not the unwinding after Kill): report
		// that instead of the operation that raised it
		return t.pending
	}
	return op
}

// Kill ends all unfinished threads (their goroutines unwind through a panic) and uninstalls s.
func (s *Sched) Kill() {
	prev := S
	S = s
	defer func() {
		if prev != s {
			S = prev
		}
	}()
	for _, t := range s.threads {
		if !t.done {
			s.cur = t
			t.resume <- false
			<-s.yielded
		}
	}
	if prev == s {
		S = nil
	}
}

// Close is the replacement of the builtin close where the call is not a statement of its own
// (`defer close(ch)`, `go close(ch)`): there the operand is evaluated when the statement is reached,
// as in the original.
func Close[T any](ch chan T) {
	op := &Op{Kind: "close", A: ch}
	Yield(op)
	close(ch)
}

// CloseLate is the replacement of a statement `close(X)`:
//
//	vsched.CloseLate(func(op *vsched.Op) { vsched.CloseNow(op, X) })
//
// The thread yields first and evaluates the operand X only when the close is performed. In the
// original the evaluation of X and the close are adjacent instructions; evaluating X before the
// yield (as an argument of Close would be) glues it to the PREVIOUS visible operation, which hides
// every schedule in which another goroutine changes what X designates in between (e.g. X = *p for
// a p that points into a reused slot and is read after an Unlock).
func CloseLate(f func(op *Op)) {
	op := &Op{Kind: "close"}
	Yield(op)
	f(op)
}

// CloseNow performs the close announced by CloseLate.
func CloseNow[T any](op *Op, ch chan T) {
	op.A = ch
	close(ch)
}

import Model.Gencommon
/-!
# Lemmas for C19 (b): the embedded-method merge of `namedTypeToInterface`

Per-name view of the merge state: every name is in one of four states (`Stat`); `mergeStep` and
`ambStep` change only the state of the name they are called with, by `mergeT` / `ambT`.
-/
namespace Gencommon

/-- the private filter of the own-method loop -/
def keep (o : Opts) (n : Name) : Bool := o.priv || exported n

abbrev namesOf {τ : Type} (l : List (Name × τ)) : List Name := l.map (·.1)

/-- state of one name in the merge loop: defined by the type itself (or otherwise ignored without
being ambiguous), not seen, queued for adding, dropped as ambiguous -/
inductive Stat where
  | own | none | add | amb
deriving DecidableEq, Repr

def stat {τ : Type} (st : Merge τ) (x : Name) : Stat :=
  if x ∈ st.ignore then (if x ∈ st.amb then .amb else .own)
  else if x ∈ namesOf st.toAdd then .add else .none

def mergeT : Stat → Stat
  | .own => .own | .amb => .amb | .add => .amb | .none => .add

def ambT : Stat → Stat
  | .own => .own | .amb => .amb | .add => .amb | .none => .amb

theorem mem_namesOf_filter {τ : Type} (l : List (Name × τ)) (n x : Name) :
    x ∈ namesOf (l.filter (fun e => e.1 ≠ n)) ↔ x ∈ namesOf l ∧ x ≠ n := by
  simp only [namesOf, List.mem_map, List.mem_filter, decide_eq_true_eq]
  constructor
  · rintro ⟨e, ⟨h1, h2⟩, rfl⟩; exact ⟨⟨e, h1, rfl⟩, h2⟩
  · rintro ⟨⟨e, h1, rfl⟩, h2⟩; exact ⟨e, ⟨h1, h2⟩, rfl⟩

theorem any_iff_mem_namesOf {τ : Type} (l : List (Name × τ)) (n : Name) :
    l.any (fun e => e.1 = n) = true ↔ n ∈ namesOf l := by
  simp [namesOf]

theorem mergeStep_stat {τ : Type} (st : Merge τ) (m : Name × τ) (x : Name) :
    stat (mergeStep st m) x = if x = m.1 then mergeT (stat st x) else stat st x := by
  unfold mergeStep
  by_cases h1 : m.1 ∈ st.ignore
  · have : st.ignore.contains m.1 = true := by simpa using h1
    simp only [this, if_true]
    by_cases hx : x = m.1
    · subst hx; simp only [if_true, stat, h1]; split <;> rfl
    · simp [hx]
  · have hc : st.ignore.contains m.1 = false := by simpa using h1
    simp only [hc, Bool.false_eq_true, if_false]
    by_cases h2 : m.1 ∈ namesOf st.toAdd
    · have ha : st.toAdd.any (fun e => e.1 = m.1) = true := (any_iff_mem_namesOf _ _).2 h2
      simp only [ha, if_true]
      by_cases hx : x = m.1
      · subst hx
        simp [stat, h1, h2, mergeT]
      · simp only [hx, if_false, stat, List.mem_cons, false_or, mem_namesOf_filter, ne_eq,
          not_false_eq_true, and_true]
    · have ha : st.toAdd.any (fun e => e.1 = m.1) = false := by
        cases h : st.toAdd.any (fun e => e.1 = m.1)
        · rfl
        · exact absurd ((any_iff_mem_namesOf _ _).1 h) h2
      simp only [ha, Bool.false_eq_true, if_false]
      by_cases hx : x = m.1
      · subst hx
        simp [stat, h1, h2, mergeT]
      · simp only [hx, if_false, stat, namesOf, List.map_append, List.mem_append, List.map_cons,
          List.map_nil, List.mem_singleton, or_false]

theorem ambStep_stat {τ : Type} (st : Merge τ) (n x : Name) :
    stat (ambStep st n) x = if x = n then ambT (stat st x) else stat st x := by
  unfold ambStep
  by_cases h1 : n ∈ st.ignore
  · have : st.ignore.contains n = true := by simpa using h1
    simp only [this, if_true]
    by_cases hx : x = n
    · subst hx; simp only [if_true, stat, h1]; split <;> rfl
    · simp [hx]
  · have hc : st.ignore.contains n = false := by simpa using h1
    simp only [hc, Bool.false_eq_true, if_false]
    by_cases hx : x = n
    · subst hx
      by_cases h3 : x ∈ List.map (fun e => e.1) st.toAdd <;> simp [stat, h1, h3, ambT]
    · simp only [hx, if_false, stat, List.mem_cons, false_or, mem_namesOf_filter, ne_eq,
        not_false_eq_true, and_true]

theorem ambT_idem (s : Stat) : ambT (ambT s) = ambT s := by cases s <;> rfl

theorem foldl_mergeStep_stat {τ : Type} : ∀ (ms : List (Name × τ)) (st : Merge τ) (x : Name),
    (namesOf ms).Nodup →
    stat (ms.foldl mergeStep st) x = if x ∈ namesOf ms then mergeT (stat st x) else stat st x := by
  intro ms
  induction ms with
  | nil => intro st x _; simp
  | cons m ms ih =>
    intro st x hn
    have hn' := List.nodup_cons.1 hn
    rw [List.foldl_cons, ih _ x hn'.2, mergeStep_stat]
    by_cases hx : x = m.1
    · subst hx
      have : ¬ m.1 ∈ namesOf ms := hn'.1
      simp [this]
    · have : x ∈ namesOf (m :: ms) ↔ x ∈ namesOf ms := by simp [hx]
      simp only [hx, if_false, this]

theorem foldl_ambStep_stat {τ : Type} : ∀ (ns : List Name) (st : Merge τ) (x : Name),
    stat (ns.foldl ambStep st) x = if x ∈ ns then ambT (stat st x) else stat st x := by
  intro ns
  induction ns with
  | nil => intro st x; simp
  | cons n ns ih =>
    intro st x
    rw [List.foldl_cons, ih, ambStep_stat]
    by_cases hx : x = n
    · subst hx; simp [ambT_idem]
    · simp [hx]

/-- consistency of the merge state; `own'` are the type's own (filtered) method names -/
structure MInv {τ : Type} (own' : List Name) (st : Merge τ) : Prop where
  ownIg : ∀ x ∈ own', x ∈ st.ignore
  addNotIg : ∀ x ∈ namesOf st.toAdd, x ∉ st.ignore
  ambIg : ∀ x ∈ st.amb, x ∈ st.ignore
  nodup : (namesOf st.toAdd).Nodup

theorem mergeStep_inv {τ : Type} {own' : List Name} (st : Merge τ) (m : Name × τ)
    (h : MInv own' st) : MInv own' (mergeStep st m) := by
  unfold mergeStep
  by_cases h1 : m.1 ∈ st.ignore
  · have : st.ignore.contains m.1 = true := by simpa using h1
    simpa only [this, if_true] using h
  · have hc : st.ignore.contains m.1 = false := by simpa using h1
    simp only [hc, Bool.false_eq_true, if_false]
    by_cases h2 : m.1 ∈ namesOf st.toAdd
    · have ha : st.toAdd.any (fun e => e.1 = m.1) = true := (any_iff_mem_namesOf _ _).2 h2
      simp only [ha, if_true]
      refine ⟨fun x hx => List.mem_cons_of_mem _ (h.ownIg x hx), ?_,
        fun x hx => ?_, ?_⟩
      · intro x hx
        rw [mem_namesOf_filter] at hx
        intro hc'
        rcases List.mem_cons.1 hc' with e | e
        · exact hx.2 e
        · exact h.addNotIg x hx.1 e
      · rcases List.mem_cons.1 hx with e | e
        · subst e; exact List.mem_cons_self
        · exact List.mem_cons_of_mem _ (h.ambIg x e)
      · exact h.nodup.sublist (List.Sublist.map _ List.filter_sublist)
    · have ha : st.toAdd.any (fun e => e.1 = m.1) = false := by
        cases h' : st.toAdd.any (fun e => e.1 = m.1)
        · rfl
        · exact absurd ((any_iff_mem_namesOf _ _).1 h') h2
      simp only [ha, Bool.false_eq_true, if_false]
      refine ⟨h.ownIg, ?_, h.ambIg, ?_⟩
      · intro x hx
        simp only [namesOf, List.map_append, List.mem_append, List.map_cons, List.map_nil,
          List.mem_singleton] at hx
        rcases hx with hx | hx
        · exact h.addNotIg x hx
        · subst hx; exact h1
      · simp only [namesOf, List.map_append, List.map_cons, List.map_nil]
        rw [List.nodup_append]
        refine ⟨h.nodup, by simp, ?_⟩
        intro a ha' b hb
        simp at hb; subst hb
        intro e; subst e; exact h2 ha'

theorem ambStep_inv {τ : Type} {own' : List Name} (st : Merge τ) (n : Name)
    (h : MInv own' st) : MInv own' (ambStep st n) := by
  unfold ambStep
  by_cases h1 : n ∈ st.ignore
  · have : st.ignore.contains n = true := by simpa using h1
    simpa only [this, if_true] using h
  · have hc : st.ignore.contains n = false := by simpa using h1
    simp only [hc, Bool.false_eq_true, if_false]
    refine ⟨fun x hx => List.mem_cons_of_mem _ (h.ownIg x hx), ?_, fun x hx => ?_, ?_⟩
    · intro x hx
      rw [mem_namesOf_filter] at hx
      intro hc'
      rcases List.mem_cons.1 hc' with e | e
      · exact hx.2 e
      · exact h.addNotIg x hx.1 e
    · rcases List.mem_cons.1 hx with e | e
      · subst e; exact List.mem_cons_self
      · exact List.mem_cons_of_mem _ (h.ambIg x e)
    · exact h.nodup.sublist (List.Sublist.map _ List.filter_sublist)

theorem foldl_mergeStep_inv {τ : Type} {own' : List Name} : ∀ (ms : List (Name × τ)) (st : Merge τ),
    MInv own' st → MInv own' (ms.foldl mergeStep st) := by
  intro ms
  induction ms with
  | nil => intro st h; exact h
  | cons m ms ih => intro st h; exact ih _ (mergeStep_inv st m h)

theorem foldl_ambStep_inv {τ : Type} {own' : List Name} : ∀ (ns : List Name) (st : Merge τ),
    MInv own' st → MInv own' (ns.foldl ambStep st) := by
  intro ns
  induction ns with
  | nil => intro st h; exact h
  | cons n ns ih => intro st h; exact ih _ (ambStep_inv st n h)

theorem stat_add_iff {τ : Type} {own' : List Name} {st : Merge τ} (h : MInv own' st) (x : Name) :
    stat st x = .add ↔ x ∈ namesOf st.toAdd := by
  unfold stat
  by_cases h1 : x ∈ st.ignore
  · have : ¬ x ∈ namesOf st.toAdd := fun h2 => h.addNotIg x h2 h1
    simp only [h1, if_true, this]
    split <;> simp
  · by_cases h2 : x ∈ namesOf st.toAdd <;> simp [h1, h2]

theorem stat_amb_iff {τ : Type} {own' : List Name} {st : Merge τ} (h : MInv own' st) (x : Name) :
    stat st x = .amb ↔ x ∈ st.amb := by
  unfold stat
  by_cases h1 : x ∈ st.ignore
  · by_cases h2 : x ∈ st.amb <;> simp [h1, h2]
  · have : ¬ x ∈ st.amb := fun h2 => h1 (h.ambIg x h2)
    simp only [h1, if_false, this]
    split <;> simp

/-! ### facts about the specification functions -/

theorem contains_iff {l : List Name} {x : Name} : l.contains x = true ↔ x ∈ l := by simp

mutual
theorem specHas_mem_allNames {ρ σ : Type} : ∀ (t : Ty ρ σ) (x : Name),
    specHas t x = true → x ∈ allNames t
  | .mk _ own emb, x => by
    intro h
    rw [specHas] at h
    rw [allNames]
    simp only [Bool.or_eq_true, Bool.and_eq_true] at h
    rcases h with h | h
    · exact List.mem_append_left _ (contains_iff.1 h)
    · exact List.mem_append_right _ (specAny_mem_allNamesL emb x h.2)
theorem specAny_mem_allNamesL {ρ σ : Type} : ∀ (ts : List (Ty ρ σ)) (x : Name),
    specAny ts x = true → x ∈ allNamesL ts
  | [], x => by intro h; rw [specAny] at h; cases h
  | t :: ts, x => by
    intro h
    rw [specAny] at h
    rw [allNamesL]
    simp only [Bool.or_eq_true] at h
    rcases h with h | h
    · exact List.mem_append_left _ (specHas_mem_allNames t x h)
    · exact List.mem_append_right _ (specAny_mem_allNamesL ts x h)
end

theorem specCount_eq_zero_iff {ρ σ : Type} : ∀ (ts : List (Ty ρ σ)) (x : Name),
    specCount ts x = 0 ↔ x ∉ allNamesL ts := by
  intro ts
  induction ts with
  | nil => intro x; simp [specCount, allNamesL]
  | cons t ts ih =>
    intro x
    rw [specCount, allNamesL, List.mem_append]
    by_cases h : x ∈ allNames t
    · have : (allNames t).contains x = true := contains_iff.2 h
      simp [this, h]
    · have : (allNames t).contains x = false := by
        cases hc : (allNames t).contains x
        · rfl
        · exact absurd (contains_iff.1 hc) h
      simp [this, h, ih]

theorem specAny_false_of_count_zero {ρ σ : Type} (ts : List (Ty ρ σ)) (x : Name)
    (h : specCount ts x = 0) : specAny ts x = false := by
  cases ha : specAny ts x
  · rfl
  · exact absurd (specAny_mem_allNamesL ts x ha) ((specCount_eq_zero_iff ts x).1 h)

/-! `WF`: own method names are pairwise distinct at every type of the tree (Go: a type cannot
declare two methods of one name) -/
mutual
def WF {ρ σ : Type} : Ty ρ σ → Prop
  | .mk _ own emb => (own.map (·.1)).Nodup ∧ WFL emb
def WFL {ρ σ : Type} : List (Ty ρ σ) → Prop
  | [] => True
  | t :: ts => WF t ∧ WFL ts
end

/-- the state of a name after the embedded fields `ts`, from the number `c` of fields it is defined
under and whether one of them has it in its interface (`a`) -/
def mergeG (c : Nat) (a : Bool) : Stat → Stat
  | .own => .own
  | .amb => .amb
  | .add => if c = 0 then .add else .amb
  | .none => if c = 0 then .none else if c = 1 ∧ a = true then .add else .amb

theorem visitOwn_namesOf {σ τ S : Type} (visit : S → σ → S × τ) (o : Opts) :
    ∀ (own : List (Name × σ)) (s : S),
    namesOf (visitOwn visit o s own).2 = (own.map (·.1)).filter (keep o) := by
  intro own
  induction own with
  | nil => intro s; rfl
  | cons m ms ih =>
    intro s
    by_cases h : (o.priv || exported m.1) = true
    · simp only [visitOwn, h, if_true, namesOf, List.map_cons, List.filter_cons, keep]
      have := ih (visit s m.2).1
      simp only [namesOf, keep] at this
      rw [this]
    · have h' : (o.priv || exported m.1) = false := by simpa using h
      simp only [visitOwn, h', List.map_cons, List.filter_cons, keep, Bool.false_eq_true, if_false]
      have := ih s
      simp only [namesOf, keep] at this
      exact this

theorem mergeG_M (c : Nat) (a : Bool) (s : Stat) :
    mergeG c a (mergeT s) = mergeG (1 + c) true s := by
  cases s <;> simp [mergeG, mergeT] <;> omega

theorem mergeG_A (c : Nat) (a : Bool) (s : Stat) (h : c = 0 → a = false) :
    mergeG c a (ambT s) = mergeG (1 + c) a s := by
  cases s <;> simp [mergeG, ambT]
  · by_cases hc : c = 0
    · simp [hc, h hc]
    · simp [hc]

theorem stat_init {τ : Type} (own' : List Name) (x : Name) :
    stat (⟨own', [], []⟩ : Merge τ) x = if x ∈ own' then .own else .none := by
  simp [stat]

theorem mergeG_none_add (c : Nat) (a : Bool) : mergeG c a .none = .add ↔ c = 1 ∧ a = true := by
  simp only [mergeG]
  by_cases hc : c = 0
  · simp [hc]
  · by_cases h1 : c = 1 ∧ a = true
    · simp [hc, h1]
    · simp [hc, h1]

theorem mergeG_none_amb (c : Nat) (a : Bool) :
    mergeG c a .none = .amb ↔ c ≠ 0 ∧ ¬ (c = 1 ∧ a = true) := by
  simp only [mergeG]
  by_cases hc : c = 0
  · simp [hc]
  · by_cases h1 : c = 1 ∧ a = true
    · simp [hc, h1]
    · simp [hc, h1]

mutual
/-- the repaired `namedTypeToInterface` with IncludeEmbedded, on any embedding tree and for any
import-handler state: distinct method names; a name passing the private filter is in the interface
iff the specification has it, and is reported ambiguous iff it is defined somewhere in the tree but
not in the specification's interface -/
theorem nti_ok {ρ σ τ S : Type} (enter : S → ρ → S) (visit : S → σ → S × τ) (o : Opts)
    (ho : o.embedded = true) : ∀ (t : Ty ρ σ), WF t → ∀ s : S,
    (namesOf (nti enter visit true o s t).2.methods).Nodup ∧
    (∀ x, keep o x = true →
      (x ∈ namesOf (nti enter visit true o s t).2.methods ↔ specHas t x = true)) ∧
    (∀ x, keep o x = true →
      (x ∈ (nti enter visit true o s t).2.amb ↔ (x ∈ allNames t ∧ specHas t x = false)))
  | .mk self own emb => by
    intro hwf s
    rw [WF] at hwf
    rw [nti]
    simp only [ho, Bool.not_true, Bool.false_eq_true, if_false]
    have hn0 := visitOwn_namesOf visit o own (enter s self)
    have hinv0 : MInv (namesOf (visitOwn visit o (enter s self) own).2)
        (⟨namesOf (visitOwn visit o (enter s self) own).2, [], []⟩ : Merge τ) :=
      ⟨fun _ h => h, by simp, by simp, by simp⟩
    obtain ⟨hI, hS⟩ := ntiEmb_ok enter visit o ho emb hwf.2 _
      (visitOwn visit o (enter s self) own).1 _ hinv0
    have hown : ∀ x, keep o x = true →
        (x ∈ namesOf (visitOwn visit o (enter s self) own).2 ↔ x ∈ own.map (·.1)) := by
      intro x hk; rw [hn0, List.mem_filter]; simp [hk]
    refine ⟨?_, ?_, ?_⟩
    · simp only [namesOf, List.map_append]
      rw [List.nodup_append]
      refine ⟨?_, hI.nodup, ?_⟩
      · have := hwf.1.sublist (List.filter_sublist (p := keep o))
        rw [← hn0] at this; exact this
      · intro a ha b hb e
        subst e
        exact hI.addNotIg a hb (hI.ownIg a ha)
    · intro x hk
      rw [specHas]
      simp only [namesOf, List.map_append, List.mem_append]
      by_cases hx : x ∈ own.map (·.1)
      · have : (own.map (·.1)).contains x = true := contains_iff.2 hx
        rw [this, Bool.true_or]
        exact ⟨fun _ => rfl, fun _ => Or.inl ((hown x hk).2 hx)⟩
      · have hc : (own.map (·.1)).contains x = false := by
          cases h : (own.map (·.1)).contains x
          · rfl
          · exact absurd (contains_iff.1 h) hx
        have h1 : ¬ x ∈ namesOf (visitOwn visit o (enter s self) own).2 := fun h => hx ((hown x hk).1 h)
        have h2 := stat_add_iff hI x
        rw [hS x hk, stat_init, if_neg h1, mergeG_none_add] at h2
        simp only [namesOf] at h1 h2
        simp only [h1, false_or, hc, Bool.false_or, Bool.and_eq_true, beq_iff_eq]
        exact h2.symm
    · intro x hk
      rw [specHas, allNames]
      by_cases hx : x ∈ own.map (·.1)
      · have : (own.map (·.1)).contains x = true := contains_iff.2 hx
        have h2 := stat_amb_iff hI x
        rw [hS x hk, stat_init, if_pos ((hown x hk).2 hx)] at h2
        simp only [mergeG] at h2
        rw [this, Bool.true_or]
        constructor
        · intro h'; exact absurd (h2.2 h') (by decide)
        · rintro ⟨_, h'⟩; cases h'
      · have hc : (own.map (·.1)).contains x = false := by
          cases h : (own.map (·.1)).contains x
          · rfl
          · exact absurd (contains_iff.1 h) hx
        have h1 : ¬ x ∈ namesOf (visitOwn visit o (enter s self) own).2 := fun h => hx ((hown x hk).1 h)
        have h2 := stat_amb_iff hI x
        rw [hS x hk, stat_init, if_neg h1, mergeG_none_amb] at h2
        rw [← h2]
        have h3 := specCount_eq_zero_iff emb x
        simp only [List.mem_append, hx, false_or, hc, Bool.false_or, Bool.and_eq_false_imp,
          beq_iff_eq]
        constructor
        · rintro ⟨h4, h5⟩
          refine ⟨Classical.byContradiction fun hn => h4 (h3.2 hn), ?_⟩
          intro hc1
          cases ha : specAny emb x
          · rfl
          · exact absurd ⟨hc1, ha⟩ h5
        · rintro ⟨h4, h5⟩
          refine ⟨fun h0 => h3.1 h0 h4, ?_⟩
          rintro ⟨hc1, ha⟩
          rw [h5 hc1] at ha; cases ha
theorem ntiEmb_ok {ρ σ τ S : Type} (enter : S → ρ → S) (visit : S → σ → S × τ) (o : Opts)
    (ho : o.embedded = true) : ∀ (ts : List (Ty ρ σ)), WFL ts →
    ∀ (own' : List Name) (s : S) (st : Merge τ), MInv own' st →
    MInv own' (ntiEmb enter visit true o s ts st).2 ∧
    ∀ x, keep o x = true →
      stat (ntiEmb enter visit true o s ts st).2 x =
        mergeG (specCount ts x) (specAny ts x) (stat st x)
  | [] => by
    intro _ own' s st h
    rw [ntiEmb]
    refine ⟨h, fun x _ => ?_⟩
    rw [specCount, specAny]
    cases stat st x <;> simp [mergeG]
  | t :: ts => by
    intro hwf own' s st h
    rw [WFL] at hwf
    rw [ntiEmb]
    simp only [if_true]
    obtain ⟨hnd, hM, hA⟩ := nti_ok enter visit o ho t hwf.1 s
    have hinv2 := foldl_ambStep_inv (nti enter visit true o s t).2.amb _
      (foldl_mergeStep_inv (nti enter visit true o s t).2.methods st h)
    obtain ⟨hI, hS⟩ := ntiEmb_ok enter visit o ho ts hwf.2 own' (nti enter visit true o s t).1 _ hinv2
    refine ⟨hI, fun x hk => ?_⟩
    rw [hS x hk, foldl_ambStep_stat, foldl_mergeStep_stat _ _ _ hnd, specCount, specAny]
    by_cases hmem : x ∈ allNames t
    · have hcm : (allNames t).contains x = true := contains_iff.2 hmem
      by_cases hsp : specHas t x = true
      · have h1 : x ∈ namesOf (nti enter visit true o s t).2.methods := (hM x hk).2 hsp
        have h2 : ¬ x ∈ (nti enter visit true o s t).2.amb := by
          intro h'; have := ((hA x hk).1 h').2; rw [hsp] at this; cases this
        simp only [h1, h2, if_true, if_false, hcm, hsp, Bool.true_or]
        exact mergeG_M _ _ _
      · have hsp' : specHas t x = false := by simpa using hsp
        have h1 : ¬ x ∈ namesOf (nti enter visit true o s t).2.methods := fun h' => hsp ((hM x hk).1 h')
        have h2 : x ∈ (nti enter visit true o s t).2.amb := (hA x hk).2 ⟨hmem, hsp'⟩
        simp only [h1, h2, if_true, if_false, hcm, hsp', Bool.false_or]
        exact mergeG_A _ _ _ (specAny_false_of_count_zero ts x)
    · have hcm : (allNames t).contains x = false := by
        cases hc : (allNames t).contains x
        · rfl
        · exact absurd (contains_iff.1 hc) hmem
      have hsp' : specHas t x = false := by
        cases hh : specHas t x
        · rfl
        · exact absurd (specHas_mem_allNames t x hh) hmem
      have h1 : ¬ x ∈ namesOf (nti enter visit true o s t).2.methods := by
        intro h'; have := (hM x hk).1 h'; rw [hsp'] at this; cases this
      have h2 : ¬ x ∈ (nti enter visit true o s t).2.amb := fun h' => hmem ((hA x hk).1 h').1
      simp [h1, h2, hcm, hsp', hmem]
end

/-! ### the specification against Go's selector rule -/

mutual
theorem countAt_zero_of_not_mem {ρ σ : Type} : ∀ (t : Ty ρ σ) (x : Name), x ∉ allNames t →
    ∀ d, countAt d t x = 0
  | .mk _ own emb, x => by
    intro h d
    rw [allNames, List.mem_append] at h
    cases d with
    | zero =>
      rw [countAt]
      have : (own.map (·.1)).contains x = false := by
        cases hc : (own.map (·.1)).contains x
        · rfl
        · exact absurd (Or.inl (contains_iff.1 hc)) h
      simp only [this, Bool.false_eq_true, if_false]
    | succ d =>
      rw [countAt]
      exact countAtL_zero_of_not_mem emb x (fun h' => h (Or.inr h')) d
theorem countAtL_zero_of_not_mem {ρ σ : Type} : ∀ (ts : List (Ty ρ σ)) (x : Name),
    x ∉ allNamesL ts → ∀ d, countAtL d ts x = 0
  | [], x => by intro _ d; rw [countAtL]
  | t :: ts, x => by
    intro h d
    rw [allNamesL, List.mem_append] at h
    rw [countAtL, countAt_zero_of_not_mem t x (fun h' => h (Or.inl h')) d,
      countAtL_zero_of_not_mem ts x (fun h' => h (Or.inr h')) d]
end

mutual
/-- every method of the specification's interface is a legal selector in Go: exactly one method of
that name at the shallowest embedding depth that has one -/
theorem specHas_promotes {ρ σ : Type} : ∀ (t : Ty ρ σ) (x : Name), specHas t x = true →
    GoPromotes t x
  | .mk self own emb, x => by
    intro h
    rw [specHas] at h
    by_cases hx : (own.map (·.1)).contains x = true
    · exact ⟨0, by rw [countAt]; simp only [hx, if_true], fun d' hd => absurd hd (Nat.not_lt_zero _)⟩
    · have hx' : (own.map (·.1)).contains x = false := by simpa using hx
      simp only [hx', Bool.false_or, Bool.and_eq_true, beq_iff_eq] at h
      obtain ⟨d, h1, h2⟩ := specAny_promotes emb x h.1 h.2
      refine ⟨d + 1, by rw [countAt]; exact h1, ?_⟩
      intro d' hd
      cases d' with
      | zero => rw [countAt]; simp only [hx', Bool.false_eq_true, if_false]
      | succ k => rw [countAt]; exact h2 k (by omega)
theorem specAny_promotes {ρ σ : Type} : ∀ (ts : List (Ty ρ σ)) (x : Name),
    specCount ts x = 1 → specAny ts x = true →
    ∃ d, countAtL d ts x = 1 ∧ ∀ d', d' < d → countAtL d' ts x = 0
  | [], x => by intro h; rw [specCount] at h; cases h
  | t :: ts, x => by
    intro hc ha
    rw [specCount] at hc
    rw [specAny] at ha
    by_cases hm : x ∈ allNames t
    · have hcm : (allNames t).contains x = true := contains_iff.2 hm
      simp only [hcm, if_true] at hc
      have hc0 : specCount ts x = 0 := by omega
      have hz := countAtL_zero_of_not_mem ts x ((specCount_eq_zero_iff ts x).1 hc0)
      rw [specAny_false_of_count_zero ts x hc0, Bool.or_false] at ha
      obtain ⟨d, h1, h2⟩ := specHas_promotes t x ha
      refine ⟨d, by rw [countAtL, h1, hz d], ?_⟩
      intro d' hd
      rw [countAtL, h2 d' hd, hz d']
    · have hcm : (allNames t).contains x = false := by
        cases h : (allNames t).contains x
        · rfl
        · exact absurd (contains_iff.1 h) hm
      have hsp : specHas t x = false := by
        cases h : specHas t x
        · rfl
        · exact absurd (specHas_mem_allNames t x h) hm
      simp only [hcm, Bool.false_eq_true, if_false, Nat.zero_add] at hc
      rw [hsp, Bool.false_or] at ha
      have hz := countAt_zero_of_not_mem t x hm
      obtain ⟨d, h1, h2⟩ := specAny_promotes ts x hc ha
      refine ⟨d, by rw [countAtL, hz d, Nat.zero_add, h1], ?_⟩
      intro d' hd
      rw [countAtL, hz d', h2 d' hd]
end

/-! ### the private filter, for any handler state -/

theorem mergeStep_keepG {τ : Type} {o : Opts} (st : Merge τ) (m : Name × τ)
    (hs : ∀ x ∈ namesOf st.toAdd, keep o x = true) (hm : keep o m.1 = true) :
    ∀ x ∈ namesOf (mergeStep st m).toAdd, keep o x = true := by
  unfold mergeStep
  split
  · exact hs
  · split
    · intro x hx; exact hs x ((mem_namesOf_filter _ _ _).1 hx).1
    · intro x hx
      simp only [namesOf, List.map_append, List.mem_append, List.map_cons, List.map_nil,
        List.mem_singleton] at hx
      rcases hx with h | h
      · exact hs x h
      · subst h; exact hm

theorem ambStep_keepG {τ : Type} {o : Opts} (st : Merge τ) (n : Name)
    (hs : ∀ x ∈ namesOf st.toAdd, keep o x = true) :
    ∀ x ∈ namesOf (ambStep st n).toAdd, keep o x = true := by
  unfold ambStep
  split
  · exact hs
  · intro x hx; exact hs x ((mem_namesOf_filter _ _ _).1 hx).1

theorem foldl_mergeStep_keepG {τ : Type} {o : Opts} : ∀ (ms : List (Name × τ)) (st : Merge τ),
    (∀ x ∈ namesOf st.toAdd, keep o x = true) → (∀ x ∈ namesOf ms, keep o x = true) →
    ∀ x ∈ namesOf (ms.foldl mergeStep st).toAdd, keep o x = true := by
  intro ms
  induction ms with
  | nil => intro st hs _; exact hs
  | cons m ms ih =>
    intro st hs hm
    rw [List.foldl_cons]
    exact ih _ (mergeStep_keepG st m hs (hm m.1 (by simp)))
      (fun x hx => hm x (by simp only [namesOf, List.map_cons, List.mem_cons]; exact Or.inr hx))

theorem foldl_ambStep_keepG {τ : Type} {o : Opts} : ∀ (ns : List Name) (st : Merge τ),
    (∀ x ∈ namesOf st.toAdd, keep o x = true) →
    ∀ x ∈ namesOf (ns.foldl ambStep st).toAdd, keep o x = true := by
  intro ns
  induction ns with
  | nil => intro st hs; exact hs
  | cons n ns ih => intro st hs; rw [List.foldl_cons]; exact ih _ (ambStep_keepG st n hs)

mutual
/-- whatever is embedded, however deep, for both algorithms and any handler state: every method
of the interface passes the private filter -/
theorem nti_keepG {ρ σ τ S : Type} (enter : S → ρ → S) (visit : S → σ → S × τ) (propagate : Bool)
    (o : Opts) : ∀ (t : Ty ρ σ) (s : S),
    ∀ x ∈ namesOf (nti enter visit propagate o s t).2.methods, keep o x = true
  | .mk self own emb, s => by
    have hown : ∀ x ∈ namesOf (visitOwn visit o (enter s self) own).2, keep o x = true := by
      intro x hx
      rw [visitOwn_namesOf] at hx
      exact (List.mem_filter.1 hx).2
    rw [nti]
    by_cases ho : o.embedded = true
    · simp only [ho, Bool.not_true, Bool.false_eq_true, if_false]
      intro x hx
      simp only [namesOf, List.map_append, List.mem_append] at hx
      rcases hx with h | h
      · exact hown x h
      · exact ntiEmb_keepG enter visit propagate o emb _ _ (by simp) x h
    · have ho' : o.embedded = false := by simpa using ho
      simp only [ho', Bool.not_false, if_true]
      exact hown
theorem ntiEmb_keepG {ρ σ τ S : Type} (enter : S → ρ → S) (visit : S → σ → S × τ)
    (propagate : Bool) (o : Opts) : ∀ (ts : List (Ty ρ σ)) (s : S) (st : Merge τ),
    (∀ x ∈ namesOf st.toAdd, keep o x = true) →
    ∀ x ∈ namesOf (ntiEmb enter visit propagate o s ts st).2.toAdd, keep o x = true
  | [], s, st => by intro hs; rw [ntiEmb]; exact hs
  | t :: ts, s, st => by
    intro hs
    rw [ntiEmb]
    apply ntiEmb_keepG enter visit propagate o ts
    have h1 := foldl_mergeStep_keepG (o := o) _ st hs (nti_keepG enter visit propagate o t s)
    cases propagate
    · simpa using h1
    · simpa using foldl_ambStep_keepG _ _ h1
end

/-! ### a state invariant carried through `namedTypeToInterface` (both algorithms)

`le` is a preorder on handler states under which `enter` and `visit` only move forward; `Q s y`
is any property of a rendered method that survives moving forward and holds right after the visit
that produced it.  Then it holds, in the final state, of every method of the interface. -/

mutual
/-- every method declared by the type or anywhere under its embedded fields -/
def allMeths {ρ σ : Type} : Ty ρ σ → List (Name × σ)
  | .mk _ own emb => own ++ allMethsL emb
def allMethsL {ρ σ : Type} : List (Ty ρ σ) → List (Name × σ)
  | [] => []
  | t :: ts => allMeths t ++ allMethsL ts
end

theorem mem_mergeStep_toAdd {τ : Type} (st : Merge τ) (m y : Name × τ)
    (h : y ∈ (mergeStep st m).toAdd) : y ∈ st.toAdd ∨ y = m := by
  unfold mergeStep at h
  split at h
  · exact Or.inl h
  · split at h
    · exact Or.inl (List.mem_filter.1 h).1
    · rcases List.mem_append.1 h with h | h
      · exact Or.inl h
      · exact Or.inr (by simpa using h)

theorem mem_ambStep_toAdd {τ : Type} (st : Merge τ) (n : Name) (y : Name × τ)
    (h : y ∈ (ambStep st n).toAdd) : y ∈ st.toAdd := by
  unfold ambStep at h
  split at h
  · exact h
  · exact (List.mem_filter.1 h).1

theorem mem_foldl_mergeStep_toAdd {τ : Type} : ∀ (ms : List (Name × τ)) (st : Merge τ)
    (y : Name × τ), y ∈ (ms.foldl mergeStep st).toAdd → y ∈ st.toAdd ∨ y ∈ ms := by
  intro ms
  induction ms with
  | nil => intro st y h; exact Or.inl h
  | cons m ms ih =>
    intro st y h
    rw [List.foldl_cons] at h
    rcases ih _ y h with h | h
    · rcases mem_mergeStep_toAdd st m y h with h | h
      · exact Or.inl h
      · exact Or.inr (h ▸ List.mem_cons_self)
    · exact Or.inr (List.mem_cons_of_mem _ h)

theorem mem_foldl_ambStep_toAdd {τ : Type} : ∀ (ns : List Name) (st : Merge τ) (y : Name × τ),
    y ∈ (ns.foldl ambStep st).toAdd → y ∈ st.toAdd := by
  intro ns
  induction ns with
  | nil => intro st y h; exact h
  | cons n ns ih =>
    intro st y h
    rw [List.foldl_cons] at h
    exact mem_ambStep_toAdd st n y (ih _ y h)

section inv
variable {ρ σ τ S : Type} (le : S → S → Prop) (le_refl : ∀ s, le s s)
  (le_trans : ∀ a b c, le a b → le b c → le a c)
  (enter : S → ρ → S) (visit : S → σ → S × τ) (Q : S → Name × τ → Prop)
  (henter : ∀ s r, le s (enter s r)) (hvisit : ∀ s x, le s (visit s x).1)
  (hQ : ∀ s s' y, le s s' → Q s y → Q s' y)

include le_refl le_trans hvisit hQ in
theorem visitOwn_inv (o : Opts) : ∀ (own : List (Name × σ)) (s : S),
    (∀ m ∈ own, ∀ s, Q (visit s m.2).1 (m.1, (visit s m.2).2)) →
    le s (visitOwn visit o s own).1 ∧
    ∀ y ∈ (visitOwn visit o s own).2, Q (visitOwn visit o s own).1 y := by
  intro own
  induction own with
  | nil => intro s _; exact ⟨le_refl s, fun _ h => absurd h List.not_mem_nil⟩
  | cons m ms ih =>
    intro s hm
    have ih' := fun s => ih s (fun m' h' => hm m' (List.mem_cons_of_mem _ h'))
    simp only [visitOwn]
    split
    · obtain ⟨h1, h2⟩ := ih' (visit s m.2).1
      refine ⟨le_trans _ _ _ (hvisit s m.2) h1, ?_⟩
      intro y hy
      rcases List.mem_cons.1 hy with rfl | hy
      · exact hQ _ _ _ h1 (hm m List.mem_cons_self s)
      · exact h2 y hy
    · exact ih' s

include le_refl le_trans henter hvisit hQ in
mutual
theorem nti_inv (propagate : Bool) (o : Opts) : ∀ (t : Ty ρ σ) (s : S),
    (∀ m ∈ allMeths t, ∀ s, Q (visit s m.2).1 (m.1, (visit s m.2).2)) →
    le s (nti enter visit propagate o s t).1 ∧
    ∀ y ∈ (nti enter visit propagate o s t).2.methods, Q (nti enter visit propagate o s t).1 y
  | .mk self own emb, s => by
    intro hm
    rw [allMeths] at hm
    obtain ⟨h1, h2⟩ := visitOwn_inv le le_refl le_trans visit Q hvisit hQ o own (enter s self)
      (fun m h => hm m (List.mem_append_left _ h))
    rw [nti]
    by_cases ho : o.embedded = true
    · simp only [ho, Bool.not_true, Bool.false_eq_true, if_false]
      obtain ⟨h3, h4⟩ := ntiEmb_inv propagate o emb (visitOwn visit o (enter s self) own).1
        ⟨namesOf (visitOwn visit o (enter s self) own).2, [], []⟩
        (fun m h => hm m (List.mem_append_right _ h)) (fun _ h => absurd h List.not_mem_nil)
      refine ⟨le_trans _ _ _ (henter s self) (le_trans _ _ _ h1 h3), ?_⟩
      intro y hy
      rcases List.mem_append.1 hy with hy | hy
      · exact hQ _ _ _ h3 (h2 y hy)
      · exact h4 y hy
    · have ho' : o.embedded = false := by simpa using ho
      simp only [ho', Bool.not_false, if_true]
      exact ⟨le_trans _ _ _ (henter s self) h1, h2⟩
theorem ntiEmb_inv (propagate : Bool) (o : Opts) : ∀ (ts : List (Ty ρ σ)) (s : S) (st : Merge τ),
    (∀ m ∈ allMethsL ts, ∀ s, Q (visit s m.2).1 (m.1, (visit s m.2).2)) →
    (∀ y ∈ st.toAdd, Q s y) →
    le s (ntiEmb enter visit propagate o s ts st).1 ∧
    ∀ y ∈ (ntiEmb enter visit propagate o s ts st).2.toAdd,
      Q (ntiEmb enter visit propagate o s ts st).1 y
  | [], s, st => by
    intro _ hs
    rw [ntiEmb]
    exact ⟨le_refl s, hs⟩
  | t :: ts, s, st => by
    intro hm hs
    rw [allMethsL] at hm
    obtain ⟨h1, h2⟩ := nti_inv propagate o t s (fun m h => hm m (List.mem_append_left _ h))
    rw [ntiEmb]
    have hst : ∀ y ∈ (if propagate = true then
        (nti enter visit propagate o s t).2.amb.foldl ambStep
          ((nti enter visit propagate o s t).2.methods.foldl mergeStep st)
        else (nti enter visit propagate o s t).2.methods.foldl mergeStep st).toAdd,
        Q (nti enter visit propagate o s t).1 y := by
      intro y hy
      have hy' : y ∈ ((nti enter visit propagate o s t).2.methods.foldl mergeStep st).toAdd := by
        cases propagate
        · simpa using hy
        · exact mem_foldl_ambStep_toAdd _ _ y (by simpa using hy)
      rcases mem_foldl_mergeStep_toAdd _ _ y hy' with h | h
      · exact hQ _ _ _ h1 (hs y h)
      · exact h2 y h
    obtain ⟨h3, h4⟩ := ntiEmb_inv propagate o ts (nti enter visit propagate o s t).1 _
      (fun m h => hm m (List.mem_append_right _ h)) hst
    exact ⟨le_trans _ _ _ h1 h3, h4⟩
end
end inv

end Gencommon

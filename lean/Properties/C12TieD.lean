import Properties.C12TieV
import Lemmas.GoKV
/-!
# C12, tie A by translation: `processDuplicates` as translated on this run = the model's `keepRow` + `sortTraits`

The Go function groups the values by their number in a `map[uint64]Values`, walks the groups in the order the
runtime happens to choose (`walk`, any permutation of the entries), asks the TRANSLATED `Values.getPrimary` for
each group's primary name, deletes from every trait (`slices.DeleteFunc`, written back through `traits[i].Traits`)
the instances of the group's non-primary names when the group has more than one name, and sorts the traits by
name.  `go_processDuplicates_closed`: for every list of 64-bit values, all descriptors and every walk, no panic and
the result is `sort (map (prune by the primaries of the groups with several names))`.
`go_processDuplicates_eq`: on descriptors related to the model's, that is the model's
`sortTraits (rows filtered by keepRow)` - for every walk order.
-/
set_option linter.unusedSimpArgs false
set_option linter.unusedVariables false
namespace C12Tie
open Generated.GoGenumValues Generated.GoGenumGen Genum GoLoop

abbrev VMap := Go.KV Go.U64 (List GValue)

/-- one iteration of the grouping loop -/
def groupStep (d : VMap) (v : GValue) : VMap :=
  if (Go.kvGet d v.Value).isSome then Go.kvSet d v.Value ((Go.kvGet d v.Value).getD default ++ [v])
  else Go.kvSet d v.Value [v]

/-- `data` after the grouping loop -/
def groups (vals : List GValue) : VMap := vals.foldl groupStep []

def sameValue (k : Go.U64) (v : GValue) : Bool := v.Value == k

/-- invariant of the grouping loop: one entry per number, holding the values of that number in order -/
def GroupInv (d : VMap) (done : List GValue) : Prop :=
  (d.map Prod.fst).Nodup ∧
  ∀ k, Go.kvGet d k = if done.filter (sameValue k) = [] then none else some (done.filter (sameValue k))

theorem groupStep_inv (d : VMap) (done : List GValue) (v : GValue) (h : GroupInv d done) :
    GroupInv (groupStep d v) (done ++ [v]) := by
  obtain ⟨hn, hg⟩ := h
  unfold groupStep
  have hv := hg v.Value
  by_cases he : done.filter (sameValue v.Value) = []
  · rw [he] at hv; simp only [if_true] at hv
    simp only [hv, Option.isSome_none, Bool.false_eq_true, if_false]
    refine ⟨Go.kvSet_nodup _ _ _ hn, fun k => ?_⟩
    rw [Go.kvGet_kvSet', hg k, List.filter_append]
    by_cases hk : v.Value = k
    · subst hk; simp [he, sameValue]
    · have : sameValue k v = false := by simp [sameValue, hk]
      simp [hk, this]
  · simp only [he, if_false] at hv
    simp only [hv, Option.isSome_some, if_true, Option.getD_some]
    refine ⟨Go.kvSet_nodup _ _ _ hn, fun k => ?_⟩
    rw [Go.kvGet_kvSet', hg k, List.filter_append]
    by_cases hk : v.Value = k
    · subst hk; simp [he, sameValue]
    · have : sameValue k v = false := by simp [sameValue, hk]
      simp [hk, this]

theorem groups_inv_aux (rest : List GValue) : ∀ (d : VMap) (done : List GValue), GroupInv d done →
    GroupInv (rest.foldl groupStep d) (done ++ rest) := by
  induction rest with
  | nil => intro d done h; simpa using h
  | cons v rest ih =>
    intro d done h
    have := ih (groupStep d v) (done ++ [v]) (groupStep_inv d done v h)
    simpa [List.append_assoc] using this

theorem groups_inv (vals : List GValue) : GroupInv (groups vals) vals := by
  have := groups_inv_aux vals [] [] ⟨by simp, fun k => by simp [Go.kvGet]⟩
  simpa [groups] using this

/-- the entries of `data`: the non-empty classes of equal numbers -/
theorem mem_groups (vals : List GValue) (k : Go.U64) (l : List GValue) :
    (k, l) ∈ groups vals ↔ l = vals.filter (sameValue k) ∧ l ≠ [] := by
  obtain ⟨hn, hg⟩ := groups_inv vals
  rw [Go.mem_iff_kvGet _ hn, hg k]
  by_cases he : vals.filter (sameValue k) = []
  · simp only [he, if_true]
    constructor
    · intro h; cases h
    · rintro ⟨h1, h2⟩; exact absurd h1 h2
  · simp only [he, if_false, Option.some.injEq]
    constructor
    · intro h; subst h; exact ⟨rfl, he⟩
    · rintro ⟨h1, _⟩; exact h1.symm

/-- an index loop that replaces every element in place -/
theorem forIn_inplace_map {α : Type} (f : α → α) (body : Nat → List α → Go.M (ForInStep (List α)))
    (h : ∀ (i : Nat) (s : List α) (hi : i < s.length), body i s = pure (ForInStep.yield (s.set i (f s[i]))))
    (suf : List α) : ∀ pre : List α,
    forIn (List.range' pre.length suf.length) (pre ++ suf) body = pure (pre ++ suf.map f) := by
  induction suf with
  | nil => intro pre; simp
  | cons a suf ih =>
    intro pre
    have hi : pre.length < (pre ++ a :: suf).length := by simp
    rw [List.length_cons, List.range'_succ, List.forIn_cons, h _ _ hi]
    have ha : (pre ++ a :: suf)[pre.length] = a := by simp
    have hset : (pre ++ a :: suf).set pre.length (f a) = (pre ++ [f a]) ++ suf := by simp [List.set_append]
    simp only [pure_bind, ha, hset]
    have := ih (pre ++ [f a])
    simp only [List.length_append, List.length_singleton] at this
    rw [this]
    simp

theorem forIn_inplace_map0 {α : Type} (f : α → α) (body : Nat → List α → Go.M (ForInStep (List α)))
    (s : List α)
    (h : ∀ (i : Nat) (s : List α) (hi : i < s.length), body i s = pure (ForInStep.yield (s.set i (f s[i])))) :
    forIn (List.range' 0 s.length) s body = pure (s.map f) := by
  have := forIn_inplace_map f body h s []
  simpa using this

/-- `slices.DeleteFunc` predicate of one group with primary `p` -/
def dropFor (p : GValue) (x : GTraitInstance) : Bool :=
  x.OwningValue.Value == p.Value && x.OwningValue.Name != p.Name

def pruneBy (p : GValue) (td : GTraitDesc) : GTraitDesc :=
  { td with Traits := td.Traits.filter (fun t => !dropFor p t) }

/-- all groups with several names at once -/
def pruneAll (ps : List GValue) (td : GTraitDesc) : GTraitDesc :=
  { td with Traits := td.Traits.filter (fun t => ps.all (fun p => !dropFor p t)) }

theorem pruneAll_cons (p : GValue) (ps : List GValue) (td : GTraitDesc) :
    pruneAll ps (pruneBy p td) = pruneAll (p :: ps) td := by
  unfold pruneAll pruneBy
  simp only [List.filter_filter, List.all_cons]
  congr 1
  congr 1
  funext t
  exact Bool.and_comm _ _

theorem pruneAll_nil (td : GTraitDesc) : pruneAll [] td = td := by
  unfold pruneAll
  have : td.Traits.filter (fun t => ([] : List GValue).all (fun p => !dropFor p t)) = td.Traits := by
    simp
  rw [this]

/-- the primary of a group of model values, as the translated `getPrimary` returns it -/
def primOf (G : List Genum.Value) : Option GValue := (Genum.getPrimary G).map (fun p => C04Tie.abs p.1)

/-- the primaries of the groups with more than one name -/
def prims (Gs : List (List Genum.Value)) : List GValue :=
  Gs.filterMap (fun G => if G.length > 1 then primOf G else none)

abbrev DupBody := List GValue → List GTraitDesc → Go.M (ForInStep (List GTraitDesc))

theorem dup_loop (body : DupBody)
    (h : ∀ (G : List Genum.Value) (s : List GTraitDesc) (pm : Genum.Value) (safe : Bool),
      Genum.getPrimary G = some (pm, safe) →
      body (G.map C04Tie.abs) s = pure (ForInStep.yield (if G.length > 1 then s.map (pruneBy (C04Tie.abs pm)) else s)))
    (Gs : List (List Genum.Value)) (hne : ∀ G ∈ Gs, G ≠ []) : ∀ s : List GTraitDesc,
    forIn (Gs.map (fun G => G.map C04Tie.abs)) s body = pure (s.map (pruneAll (prims Gs))) := by
  induction Gs with
  | nil =>
    intro s
    have : s.map (pruneAll (prims [])) = s := by
      have : prims [] = [] := rfl
      rw [this]
      conv => rhs; rw [← List.map_id s]
      apply List.map_congr_left
      intro td _
      exact pruneAll_nil td
    rw [this]; rfl
  | cons G Gs ih =>
    intro s
    have hG : G ≠ [] := hne G (by simp)
    obtain ⟨pm, safe, hp⟩ : ∃ pm safe, Genum.getPrimary G = some (pm, safe) := by
      match G, hG with
      | [v], _ => exact ⟨v, true, rfl⟩
      | v :: w :: rest, _ => exact ⟨_, _, rfl⟩
    rw [List.map_cons, List.forIn_cons, h G s pm safe hp]
    simp only [pure_bind]
    rw [ih (fun G' hG' => hne G' (by simp [hG']))]
    by_cases hl : G.length > 1
    · have : prims (G :: Gs) = C04Tie.abs pm :: prims Gs := by
        simp [prims, List.filterMap_cons, hl, primOf, hp]
      simp only [hl, if_true, this, List.map_map]
      congr 1
      apply List.map_congr_left
      intro td _
      exact pruneAll_cons _ _ _
    · have : prims (G :: Gs) = prims Gs := by
        simp [prims, List.filterMap_cons, hl]
      simp only [hl, if_false, this]


/-- the groups in the order of the walk, as lists of model values -/
def groupsOfWalk (w : List (Go.U64 × List GValue) → List (Go.U64 × List GValue)) (vs : List Genum.Value) :
    List (List Genum.Value) :=
  (w (groups (vs.map C04Tie.abs))).map (fun e => vs.filter (fun v => BitVec.ofNat 64 v.value == e.1))

theorem filter_abs (vs : List Genum.Value) (k : Go.U64) :
    (vs.map C04Tie.abs).filter (sameValue k) = (vs.filter (fun v => BitVec.ofNat 64 v.value == k)).map C04Tie.abs := by
  rw [List.filter_map]
  rfl

theorem walk_groups (w : List (Go.U64 × List GValue) → List (Go.U64 × List GValue)) (hw : ∀ l, (w l).Perm l)
    (vs : List Genum.Value) :
    (w (groups (vs.map C04Tie.abs))).map Prod.snd = (groupsOfWalk w vs).map (fun G => G.map C04Tie.abs) ∧
    ∀ G ∈ groupsOfWalk w vs, G ≠ [] := by
  unfold groupsOfWalk
  constructor
  · rw [List.map_map]
    apply List.map_congr_left
    intro e he
    have he' : (e.1, e.2) ∈ groups (vs.map C04Tie.abs) := (hw _).mem_iff.mp he
    rw [mem_groups] at he'
    simp only [Function.comp]
    rw [he'.1, filter_abs]
  · intro G hG
    simp only [List.mem_map] at hG
    obtain ⟨e, he, rfl⟩ := hG
    have he' : (e.1, e.2) ∈ groups (vs.map C04Tie.abs) := (hw _).mem_iff.mp he
    rw [mem_groups] at he'
    intro hnil
    apply he'.2
    rw [he'.1, filter_abs, hnil]
    rfl

/-- `processDuplicates`, for every list of 64-bit values, all descriptors and every walk order of the map: no
panic; every trait loses the instances that `slices.DeleteFunc` drops for the primaries of the groups with several
names; the traits come back sorted by name -/
theorem go_processDuplicates_closed (w : List (Go.U64 × List GValue) → List (Go.U64 × List GValue))
    (hw : ∀ l, (w l).Perm l) (vs : List Genum.Value) (gs : List GTraitDesc) (e : String) :
    processDuplicates w (vs.map C04Tie.abs) gs e = pure (
      if vs = [] then gs
      else Go.sortSort (fun a b => decide (a.Name < b.Name)) (gs.map (pruneAll (prims (groupsOfWalk w vs))))) := by
  unfold processDuplicates
  simp only []
  by_cases hvs : vs = []
  · subst hvs; simp
  · have hlen : ((vs.map C04Tie.abs).length == 0) = false := by
      cases vs with
      | nil => exact absurd rfl hvs
      | cons a l => simp
    simp only [hlen, Bool.false_eq_true, if_false, hvs]
    rw [forIn_yield _ groupStep (fun _ => True) (fun _ _ _ => trivial) (by
      intro v d _
      unfold groupStep
      by_cases hs : (Go.kvGet d v.Value).isSome = true <;> simp [hs]) _ _ trivial]
    simp only [pure_bind]
    have hgroups : List.foldl groupStep [] (vs.map C04Tie.abs) = groups (vs.map C04Tie.abs) := rfl
    rw [hgroups, (walk_groups w hw vs).1]
    rw [dup_loop _ ?h _ (walk_groups w hw vs).2]
    · simp
    case h =>
      intro G s pm safe hp
      have hgp := C04Tie.go_getPrimary_eq G
      rw [hp] at hgp
      simp only [hgp, pure_bind, List.length_map]
      by_cases hl : G.length > 1
      · simp only [hl, decide_true, if_true]
        rw [forIn_inplace_map0 (pruneBy (C04Tie.abs pm)) _ s ?h2]
        · cases safe <;> rfl
        case h2 =>
          intro i s' hi
          simp only [listGet_lt _ _ hi, pure_bind, Go.listSet, hi, if_true]
          rfl
      · simp only [hl, decide_false, if_false, Bool.false_eq_true]
        cases safe <;> rfl


/-! ## the closed form and the model's `keepRow` / `sortTraits` -/

theorem getPrimaryLoop_mem (rest : List Genum.Value) : ∀ p : Genum.Value, (getPrimaryLoop p rest).1 ∈ p :: rest := by
  induction rest with
  | nil => intro p; simp [getPrimaryLoop]
  | cons v rest ih =>
    intro p
    unfold getPrimaryLoop
    by_cases h1 : (p.deprecated && !v.deprecated) = true
    · simp only [h1, if_true]
      exact List.mem_cons_of_mem _ (ih v)
    · by_cases h2 : (!p.deprecated && !v.deprecated) = true
      · simp only [h1, h2, if_true, if_false, Bool.false_eq_true]
        exact List.mem_cons_self
      · simp only [h1, h2, if_false, Bool.false_eq_true]
        have := ih p
        simp only [List.mem_cons] at this ⊢
        rcases this with h | h
        · exact Or.inl h
        · exact Or.inr (Or.inr h)

theorem getPrimary_mem (G : List Genum.Value) (pm : Genum.Value) (safe : Bool)
    (h : Genum.getPrimary G = some (pm, safe)) : pm ∈ G := by
  match G, h with
  | [v], h => simp [Genum.getPrimary] at h; simp [h.1]
  | v :: w :: rest, h =>
    simp only [Genum.getPrimary, Option.some.injEq] at h
    have := getPrimaryLoop_mem (w :: rest) v
    rw [h] at this
    exact this

theorem getPrimary_some (G : List Genum.Value) (hG : G ≠ []) : ∃ pm safe, Genum.getPrimary G = some (pm, safe) := by
  match G, hG with
  | [v], _ => exact ⟨v, true, rfl⟩
  | v :: w :: rest, _ => exact ⟨_, _, rfl⟩

/-- the group of number `k` -/
def groupAt (vs : List Genum.Value) (k : Go.U64) : List Genum.Value :=
  vs.filter (fun v => BitVec.ofNat 64 v.value == k)

theorem mem_groupsOfWalk (w : List (Go.U64 × List GValue) → List (Go.U64 × List GValue)) (hw : ∀ l, (w l).Perm l)
    (vs : List Genum.Value) (G : List Genum.Value) :
    G ∈ groupsOfWalk w vs ↔ ∃ k, G = groupAt vs k ∧ G ≠ [] := by
  unfold groupsOfWalk
  simp only [List.mem_map]
  constructor
  · rintro ⟨e, he, rfl⟩
    have he' : (e.1, e.2) ∈ groups (vs.map C04Tie.abs) := (hw _).mem_iff.mp he
    rw [mem_groups, filter_abs] at he'
    refine ⟨e.1, rfl, fun hnil => he'.2 ?_⟩
    rw [he'.1]
    unfold groupAt at hnil
    rw [hnil]; rfl
  · rintro ⟨k, rfl, hne⟩
    refine ⟨(k, (vs.map C04Tie.abs).filter (sameValue k)), ?_, rfl⟩
    apply (hw _).mem_iff.mpr
    rw [mem_groups]
    refine ⟨rfl, fun hnil => hne ?_⟩
    rw [filter_abs] at hnil
    unfold groupAt
    exact List.map_eq_nil_iff.mp hnil

theorem groupAt_owner (vs : List Genum.Value) (hU : ∀ v ∈ vs, C04Tie.U64 v) (o : Genum.Value) (ho : C04Tie.U64 o) :
    groupAt vs (BitVec.ofNat 64 o.value) = vs.filter (fun v => v.value == o.value) := by
  unfold groupAt
  apply List.filter_congr
  intro v hv
  have := C04Tie.ofNat_eq v.value o.value (hU v hv) ho
  rw [Bool.eq_iff_iff]
  simp only [beq_iff_eq]
  exact this

/-- the conjunction over the walked groups = the model's `keepRow`, whatever the walk order -/
theorem prims_all_eq_keepRow (w : List (Go.U64 × List GValue) → List (Go.U64 × List GValue)) (hw : ∀ l, (w l).Perm l)
    (vs : List Genum.Value) (hU : ∀ v ∈ vs, C04Tie.U64 v) (r : TraitRow) (hr : r.owner ∈ vs)
    (x : GTraitInstance) (hx : x.OwningValue = C04Tie.abs r.owner) :
    (prims (groupsOfWalk w vs)).all (fun p => !dropFor p x) = keepRow {} vs r := by
  have hUo := hU _ hr
  have hG0 := groupAt_owner vs hU r.owner hUo
  have hmem0 : r.owner ∈ vs.filter (fun v => v.value == r.owner.value) := by simp [hr]
  have hne0 : vs.filter (fun v => v.value == r.owner.value) ≠ [] := List.ne_nil_of_mem hmem0
  obtain ⟨pm0, safe0, hp0⟩ := getPrimary_some _ hne0
  have hpm0 := getPrimary_mem _ _ _ hp0
  have hv0 : pm0.value = r.owner.value := by simpa using (List.mem_filter.mp hpm0).2
  have hkeep : keepRow {} vs r = (r.owner.name == pm0.name) := by
    unfold keepRow
    simp only [hp0, hv0]
    by_cases hn : r.owner.name = pm0.name <;> simp [hn, bne]
  rw [hkeep, Bool.eq_iff_iff]
  simp only [List.all_eq_true, Bool.not_eq_true', beq_iff_eq]
  constructor
  · intro hall
    by_cases hl : (vs.filter (fun v => v.value == r.owner.value)).length > 1
    · have hin : vs.filter (fun v => v.value == r.owner.value) ∈ groupsOfWalk w vs :=
        (mem_groupsOfWalk w hw vs _).mpr ⟨BitVec.ofNat 64 r.owner.value, hG0.symm, hne0⟩
      have hpr : C04Tie.abs pm0 ∈ prims (groupsOfWalk w vs) := by
        unfold prims
        simp only [List.mem_filterMap]
        exact ⟨_, hin, by simp [hl, primOf, hp0]⟩
      have := hall _ hpr
      simp only [dropFor, hx, C04Tie.abs, hv0, beq_self_eq_true, Bool.true_and, bne_eq_false_iff_eq] at this
      exact this
    · -- a single name: it is the owner itself
      match hvf : vs.filter (fun v => v.value == r.owner.value), hne0 with
      | [v], _ =>
        rw [hvf] at hp0 hmem0
        simp [Genum.getPrimary] at hp0
        simp at hmem0
        rw [← hp0.1, hmem0]
      | a :: b :: rest, _ => rw [hvf] at hl; simp at hl
      | [], _ => exact absurd hvf hne0
  · intro hname p hp
    unfold prims at hp
    simp only [List.mem_filterMap] at hp
    obtain ⟨G, hG, hGp⟩ := hp
    obtain ⟨k, hk, hGne⟩ := (mem_groupsOfWalk w hw vs G).mp hG
    by_cases hl : G.length > 1
    · simp only [hl, if_true, primOf, Option.map_eq_some_iff] at hGp
      obtain ⟨⟨pm, safe⟩, hpm, rfl⟩ := hGp
      have hpmG := getPrimary_mem _ _ _ hpm
      rw [hk] at hpmG
      have hpk : BitVec.ofNat 64 pm.value = k := by simpa [groupAt] using (List.mem_filter.mp hpmG).2
      by_cases hvv : BitVec.ofNat 64 r.owner.value = BitVec.ofNat 64 pm.value
      · have hkk : k = BitVec.ofNat 64 r.owner.value := by rw [← hpk, hvv]
        rw [hk, hkk, hG0, hp0] at hpm
        simp only [Option.some.injEq, Prod.mk.injEq] at hpm
        simp [dropFor, hx, C04Tie.abs, ← hpm.1, hname]
      · simp [dropFor, hx, C04Tie.abs, hvv]
    · simp [hl] at hGp


theorem insert_rel {first : Genum.Value} {t : Genum.TraitDesc} {g : GTraitDesc} (htg : DescRel first t g)
    {us : List Genum.TraitDesc} {hs : List GTraitDesc} (h : All₂ (DescRel first) us hs) :
    All₂ (DescRel first) (insertTrait t us) (Go.sortInsert (fun a b => decide (a.Name < b.Name)) g hs) := by
  induction h with
  | nil => exact .cons htg .nil
  | @cons u h' us hs hab hrest ih =>
    unfold insertTrait Go.sortInsert
    simp only [htg.name, hab.name]
    by_cases hlt : t.name < u.name
    · simp only [hlt, decide_true, if_true]
      exact .cons htg (.cons hab hrest)
    · simp only [hlt, decide_false, if_false, Bool.false_eq_true]
      exact .cons hab ih

/-- `sort.Sort(traits)` on related descriptors is the model's `sortTraits` -/
theorem sort_rel {first : Genum.Value} {ts : List Genum.TraitDesc} {gs : List GTraitDesc}
    (h : All₂ (DescRel first) ts gs) :
    All₂ (DescRel first) (sortTraits ts) (Go.sortSort (fun a b => decide (a.Name < b.Name)) gs) := by
  induction h with
  | nil => exact .nil
  | cons hab _ ih =>
    unfold sortTraits Go.sortSort
    simp only [List.foldr_cons]
    exact insert_rel hab ih

/-- the model's `processDuplicates`: every trait keeps the rows `keepRow` keeps -/
def keepRows (vs : List Genum.Value) (t : Genum.TraitDesc) : Genum.TraitDesc :=
  { t with rows := t.rows.filter (keepRow {} vs) }

theorem map_rel {first : Genum.Value} {ts : List Genum.TraitDesc} {gs : List GTraitDesc}
    (h : All₂ (DescRel first) ts gs) (f : Genum.TraitDesc → Genum.TraitDesc) (f' : GTraitDesc → GTraitDesc)
    (hf : ∀ t g, t ∈ ts → DescRel first t g → DescRel first (f t) (f' g)) :
    All₂ (DescRel first) (ts.map f) (gs.map f') := by
  induction h with
  | nil => exact .nil
  | @cons t g ts gs hab _ ih =>
    exact .cons (hf t g (by simp) hab) (ih (fun t' g' ht' => hf t' g' (by simp [ht'])))

theorem All₂.filter_mem {α β : Type} {R : α → β → Prop} {p : α → Bool} {q : β → Bool}
    {l : List α} {l' : List β} (h : All₂ R l l') (hpq : ∀ a b, a ∈ l → R a b → p a = q b) :
    All₂ R (l.filter p) (l'.filter q) := by
  induction h with
  | nil => exact .nil
  | @cons a b as bs hab _ ih =>
    have ih' := ih (fun a' b' ha' => hpq a' b' (by simp [ha']))
    simp only [List.filter_cons, ← hpq a b (by simp) hab]
    split
    · exact .cons hab ih'
    · exact ih'

/-- `processDuplicates` on the code's descriptors of the model's traits, for every enum whose values fit 64 bits,
every walk order of the map: no panic, and the result is the model's `sortTraits (map keepRows …)` - the rows of
non-primary duplicate names are gone, the traits are sorted by name -/
theorem go_processDuplicates_eq (first : Genum.Value) (vs : List Genum.Value) (hvs : vs ≠ [])
    (hU : ∀ v ∈ vs, C04Tie.U64 v)
    (ts : List Genum.TraitDesc) (gs : List GTraitDesc) (h : All₂ (DescRel first) ts gs)
    (hown : ∀ t ∈ ts, ∀ r ∈ t.rows, r.owner ∈ vs)
    (w : List (Go.U64 × List GValue) → List (Go.U64 × List GValue)) (hw : ∀ l, (w l).Perm l) (e : String) :
    ∃ gs', processDuplicates w (vs.map C04Tie.abs) gs e = pure gs' ∧
      All₂ (DescRel first) (sortTraits (ts.map (keepRows vs))) gs' := by
  refine ⟨_, go_processDuplicates_closed w hw vs gs e, ?_⟩
  simp only [hvs, if_false]
  apply sort_rel
  apply map_rel h
  intro t g ht htg
  refine ⟨htg.name, htg.parsable, htg.fam, ?_⟩
  unfold keepRows pruneAll
  simp only []
  apply htg.rows.filter_mem
  intro r x hr hrx
  exact (prims_all_eq_keepRow w hw vs hU r (hown t ht r hr) x hrx.owner).symm

/-- with no values the function returns at once (the generator never calls it then) -/
theorem go_processDuplicates_nil (w : List (Go.U64 × List GValue) → List (Go.U64 × List GValue))
    (hw : ∀ l, (w l).Perm l) (gs : List GTraitDesc) (e : String) :
    processDuplicates w [] gs e = pure gs := by
  have := go_processDuplicates_closed w hw [] gs e
  simpa using this

/-- headline of C12 for the translated code: after the translated `processDuplicates`, a trait has no instance on
the definition line of a NON-primary name of a duplicated value - the row the accessor and the Parse switch see
for a value is the one of its primary name (`accessor_returns_declared` rests on exactly this) -/
theorem go_no_row_of_nonprimary (first : Genum.Value) (vs : List Genum.Value) (hvs : vs ≠ [])
    (hU : ∀ v ∈ vs, C04Tie.U64 v)
    (ts : List Genum.TraitDesc) (gs : List GTraitDesc) (h : All₂ (DescRel first) ts gs)
    (hown : ∀ t ∈ ts, ∀ r ∈ t.rows, r.owner ∈ vs)
    (w : List (Go.U64 × List GValue) → List (Go.U64 × List GValue)) (hw : ∀ l, (w l).Perm l) (e : String) :
    ∃ gs', processDuplicates w (vs.map C04Tie.abs) gs e = pure gs' ∧
      ∃ ts', All₂ (DescRel first) ts' gs' ∧ ∀ t' ∈ ts', ∀ r ∈ t'.rows, keepRow {} vs r = true := by
  obtain ⟨gs', hgs, hrel⟩ := go_processDuplicates_eq first vs hvs hU ts gs h hown w hw e
  refine ⟨gs', hgs, _, hrel, ?_⟩
  intro t' ht' r hr
  have ht'' : t' ∈ ts.map (keepRows vs) := (Genum.sortTraits_perm _).mem_iff.mp ht'
  simp only [List.mem_map] at ht''
  obtain ⟨t, _, rfl⟩ := ht''
  unfold keepRows at hr
  simp only [List.mem_filter] at hr
  exact hr.2


/-! ## non-vacuity: the relation between the model's and the code's descriptors is inhabited -/

def exV : Genum.Value := { name := "A", value := 1, signed := false, deprecated := false, val := 1, tvals := [.int 7] }
def exT : Genum.TraitDesc :=
  { name := "Num", ty := "int", fam := .sint 64, parsable := true, rows := [⟨exV, ⟨"int", .int 7⟩⟩] }
def exTy : GType := ⟨false, some .UntypedInt, 0, fun _ _ => false, fun _ _ => false⟩
def exI : GTraitInstance :=
  { OwningValue := C04Tie.abs exV, value := "7", variableName := "_Num", keyType := exTy, keyValue := "7", repeatsParseKey := false }
def exG : GTraitDesc := { Name := "Num", «Type» := exTy, TypeRef := "int", Parsable := true, Traits := [exI] }

/-- the hypotheses of `go_processDuplicates_eq`, `go_validateParsable_eq`, `go_getParsable…_eq`, `go_instanceOf_eq`
hold for a concrete enum -/
example : All₂ (DescRel exV) [exT] [exG] ∧ (∀ v ∈ [exV], C04Tie.U64 v) ∧
    (∀ t ∈ [exT], ∀ r ∈ t.rows, r.owner ∈ [exV]) ∧ (∀ x ∈ exG.Traits, x.repeatsParseKey = false) := by
  refine ⟨.cons ⟨rfl, rfl, ?_, .cons ⟨rfl, by decide⟩ .nil⟩ .nil, ?_, ?_, ?_⟩
  · exact ⟨rfl, rfl, rfl, .UntypedInt, rfl, rfl, rfl⟩
  · intro v hv; simp at hv; subst hv; unfold C04Tie.U64 exV two64; decide
  · intro t ht r hr; simp at ht; subst ht; simp [exT] at hr; subst hr; simp
  · intro x hx; simp [exG] at hx; subst hx; rfl

end C12Tie

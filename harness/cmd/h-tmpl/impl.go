package main

import (
	"encoding/hex"
	"fmt"
	"go/ast"
	"go/parser"
	"go/token"
	"os"
	"path/filepath"
	"reflect"
	"regexp"
	"runtime"
	"sort"
	"strconv"
	"strings"

	"github.com/drshriveer/gtools/gconfig"
	"gopkg.in/yaml.v3"

	"verif/harness/cmd/h-tmpl/dims"
)

// dimFlag is the name under which the one dimension is registered (also the environment variable
// gconfig would read for it; never used as a template variable).
const dimFlag = "c16dim"

var dimNames = []string{"D1a", "D1b", "D1c", "D1d"}

// ---- tokens ---------------------------------------------------------------------------------

func tokS(s string) string { return "S" + hex.EncodeToString([]byte(s)) }
func tokK(s string) string { return "K" + hex.EncodeToString([]byte(s)) }

func untok(tag byte, w string) (string, bool) {
	if len(w) == 0 || w[0] != tag {
		return "", false
	}
	b, err := hex.DecodeString(w[1:])
	if err != nil {
		return "", false
	}
	return string(b), true
}

// ---- trees ----------------------------------------------------------------------------------

// node is a document tree as the generator builds it (the Lean `Doc`).
type node struct {
	kind byte // 'S' 'N' 'L' 'M' 'W'
	s    string
	n    int
	kids []*node
	keys []string // 'M': map keys; 'W': "B<i>" or "D"
}

func (t *node) tokens(out *[]string) {
	switch t.kind {
	case 'S':
		*out = append(*out, tokS(t.s))
	case 'N':
		*out = append(*out, "N"+strconv.Itoa(t.n))
	case 'L':
		*out = append(*out, "L"+strconv.Itoa(len(t.kids)))
		for _, k := range t.kids {
			k.tokens(out)
		}
	case 'M':
		*out = append(*out, "M"+strconv.Itoa(len(t.kids)))
		for i, k := range t.kids {
			*out = append(*out, tokK(t.keys[i]))
			k.tokens(out)
		}
	case 'W':
		*out = append(*out, "W"+strconv.Itoa(len(t.kids)))
		for i, k := range t.kids {
			*out = append(*out, t.keys[i])
			k.tokens(out)
		}
	}
}

func (t *node) String() string {
	var o []string
	t.tokens(&o)
	return strings.Join(o, " ")
}

func parseTree(ws []string) (*node, []string, bool) {
	if len(ws) == 0 || len(ws[0]) == 0 {
		return nil, nil, false
	}
	w, rest := ws[0], ws[1:]
	switch w[0] {
	case 'S':
		s, ok := untok('S', w)
		return &node{kind: 'S', s: s}, rest, ok
	case 'N':
		n, err := strconv.Atoi(w[1:])
		return &node{kind: 'N', n: n}, rest, err == nil && n >= 0
	case 'L', 'M', 'W':
		n, err := strconv.Atoi(w[1:])
		if err != nil || n < 0 {
			return nil, nil, false
		}
		t := &node{kind: w[0]}
		for i := 0; i < n; i++ {
			if w[0] != 'L' {
				if len(rest) == 0 {
					return nil, nil, false
				}
				kw := rest[0]
				rest = rest[1:]
				if w[0] == 'M' {
					k, ok := untok('K', kw)
					if !ok {
						return nil, nil, false
					}
					t.keys = append(t.keys, k)
				} else {
					if kw != "D" {
						if len(kw) < 2 || kw[0] != 'B' {
							return nil, nil, false
						}
						if _, err := strconv.Atoi(kw[1:]); err != nil {
							return nil, nil, false
						}
					}
					t.keys = append(t.keys, kw)
				}
			}
			var kid *node
			var ok bool
			kid, rest, ok = parseTree(rest)
			if !ok {
				return nil, nil, false
			}
			t.kids = append(t.kids, kid)
		}
		return t, rest, true
	}
	return nil, nil, false
}

// goValue turns a tree into what yaml.Unmarshal would produce for the document (switches become
// maps keyed by the dimension's value names / "default").
func (t *node) goValue() any {
	switch t.kind {
	case 'S':
		return t.s
	case 'N':
		return t.n
	case 'L':
		r := make([]any, len(t.kids))
		for i, k := range t.kids {
			r[i] = k.goValue()
		}
		return r
	case 'M':
		r := make(map[string]any, len(t.kids))
		for i, k := range t.kids {
			r[t.keys[i]] = k.goValue()
		}
		return r
	case 'W':
		r := make(map[string]any, len(t.kids))
		for i, k := range t.kids {
			if t.keys[i] == "D" {
				r["default"] = k.goValue()
			} else {
				n, _ := strconv.Atoi(t.keys[i][1:])
				if n < len(dimNames) {
					r[dimNames[n]] = k.goValue()
				} else {
					r[fmt.Sprintf("D1x%d", n)] = k.goValue()
				}
			}
		}
		return r
	}
	return nil
}

// canon renders a value returned by gconfig.Get[any] in the tree notation, map keys sorted.
func canon(v any) string {
	switch x := v.(type) {
	case string:
		return tokS(x)
	case int:
		return "N" + strconv.Itoa(x)
	case []any:
		p := []string{"L" + strconv.Itoa(len(x))}
		for _, e := range x {
			p = append(p, canon(e))
		}
		return strings.Join(p, " ")
	case map[string]any:
		ks := make([]string, 0, len(x))
		for k := range x {
			ks = append(ks, k)
		}
		sort.Strings(ks)
		p := []string{"M" + strconv.Itoa(len(x))}
		for _, k := range ks {
			p = append(p, tokK(k), canon(x[k]))
		}
		return strings.Join(p, " ")
	case nil:
		return "null"
	}
	return fmt.Sprintf("other:%T", v)
}

// yamlRoundTrips says whether yaml.v3 reproduces the Go value (YAML itself is not modelled; a
// document that does not survive the codec is outside the domain).
func yamlRoundTrips(v any) ([]byte, bool) {
	b, err := yaml.Marshal(v)
	if err != nil {
		return nil, false
	}
	var back any
	if m, ok := v.(map[string]any); ok {
		mm := make(map[string]any)
		if yaml.Unmarshal(b, &mm) != nil {
			return b, false
		}
		return b, reflect.DeepEqual(mm, m)
	}
	if yaml.Unmarshal(b, &back) != nil {
		return b, false
	}
	return b, reflect.DeepEqual(back, v)
}

// ---- the pattern as compiled in the package --------------------------------------------------

// gconfigDir is the directory of the gconfig sources this binary was built from.
func gconfigDir() string {
	if d := os.Getenv("VERIF_GCONFIG_DIR"); d != "" {
		return d
	}
	fn := runtime.FuncForPC(reflect.ValueOf(gconfig.NewBuilder).Pointer())
	if fn != nil {
		file, _ := fn.FileLine(fn.Entry())
		if file != "" {
			return filepath.Dir(file)
		}
	}
	return "/repo/gconfig"
}

// extractPattern reads `var envVarTmplMatcher = regexp.MustCompile(<literal>)` from
// yaml_templates.go (the variable is unexported, so the pattern is taken from the source the
// binary was built from and compiled with the same regexp package).
func extractPattern() (string, string, error) {
	file := filepath.Join(gconfigDir(), "yaml_templates.go")
	fset := token.NewFileSet()
	f, err := parser.ParseFile(fset, file, nil, 0)
	if err != nil {
		return "", file, err
	}
	var pat string
	found := false
	ast.Inspect(f, func(n ast.Node) bool {
		vs, ok := n.(*ast.ValueSpec)
		if !ok || len(vs.Names) != 1 || vs.Names[0].Name != "envVarTmplMatcher" || len(vs.Values) != 1 {
			return true
		}
		call, ok := vs.Values[0].(*ast.CallExpr)
		if !ok || len(call.Args) != 1 {
			return true
		}
		sel, ok := call.Fun.(*ast.SelectorExpr)
		if !ok || sel.Sel.Name != "MustCompile" {
			return true
		}
		lit, ok := call.Args[0].(*ast.BasicLit)
		if !ok || lit.Kind != token.STRING {
			return true
		}
		s, err := strconv.Unquote(lit.Value)
		if err == nil {
			pat, found = s, true
		}
		return false
	})
	if !found {
		return "", file, fmt.Errorf("envVarTmplMatcher = regexp.MustCompile(<string literal>) not found in %s", file)
	}
	return pat, file, nil
}

// ---- interpreter -----------------------------------------------------------------------------

type tmplImpl struct {
	re      *regexp.Regexp
	touched map[string]bool
	cfg     *gconfig.Config
	rootKey []string
}

func newImpl() (*tmplImpl, string, string) {
	pat, file, err := extractPattern()
	if err != nil {
		// the pattern is no longer a literal the harness can read: the capture comparison is a broken
		// tie (reported once), but MatchAndResolve is still observed through FromBytes+Get, which is
		// what the property talks about - so the run goes on and can still find a failing input
		fmt.Fprintln(os.Stderr, "h-tmpl: broken tie:", err)
		return &tmplImpl{touched: map[string]bool{}}, "", file
	}
	re, err := regexp.Compile(pat)
	if err != nil {
		fmt.Fprintln(os.Stderr, "h-tmpl: pattern does not compile:", err)
		os.Exit(4)
	}
	return &tmplImpl{re: re, touched: map[string]bool{}}, pat, file
}

func (t *tmplImpl) Reset() {
	for k := range t.touched {
		os.Unsetenv(k)
	}
	t.touched = map[string]bool{}
	os.Unsetenv(dimFlag)
	os.Unsetenv(strings.ToUpper(dimFlag))
	t.cfg = nil
	t.rootKey = nil
}

func showSub(m []string) string {
	if len(m) == 0 {
		return "none"
	}
	d := "-"
	if len(m) >= 3 && m[2] != "" {
		d = tokS(m[2])
	}
	return "some " + tokS(m[1]) + " " + d
}

func (t *tmplImpl) Exec(line string) string {
	ws := strings.Fields(line)
	if len(ws) == 0 {
		return "bad-op"
	}
	if ws[0] == "case" {
		return line
	}
	if ws[0] != "tmpl" || len(ws) < 2 {
		return "bad-op"
	}
	switch ws[1] {
	case "re", "relegacy":
		if len(ws) != 3 {
			return "bad-op"
		}
		s, ok := untok('S', ws[2])
		if !ok {
			return "bad-op"
		}
		if t.re == nil {
			return "no-pattern-literal"
		}
		return showSub(t.re.FindStringSubmatch(s))
	case "env":
		if len(ws) < 4 {
			return "bad-op"
		}
		n, ok := untok('S', ws[2])
		if !ok || n == "" || strings.ContainsAny(n, "=\x00") {
			return "bad-op"
		}
		switch {
		case ws[3] == "unset" && len(ws) == 4:
			t.touched[n] = true
			os.Unsetenv(n)
			return "ok"
		case ws[3] == "set" && len(ws) == 5:
			v, ok := untok('S', ws[4])
			if !ok || strings.Contains(v, "\x00") {
				return "bad-op"
			}
			t.touched[n] = true
			if os.Setenv(n, v) != nil {
				return "bad-op"
			}
			return "ok"
		}
		return "bad-op"
	case "resolve", "resolvelegacy":
		// MatchAndResolve is unexported: a one-key document through FromBytes + Get[string].
		if len(ws) != 3 {
			return "bad-op"
		}
		s, ok := untok('S', ws[2])
		if !ok {
			return "bad-op"
		}
		b, err := yaml.Marshal(map[string]any{"k": s})
		if err != nil {
			return "yaml-err"
		}
		cfg, err := gconfig.NewBuilder().FromBytes(b)
		if err != nil {
			return "error"
		}
		out, err := gconfig.Get[string](cfg, "k")
		if err != nil {
			return "get-err"
		}
		return "ok " + tokS(out)
	case "load", "loadlegacy":
		if len(ws) < 4 {
			return "bad-op"
		}
		sel, err := strconv.Atoi(ws[2])
		if err != nil || sel < 0 || sel >= len(dimNames) {
			return "bad-op"
		}
		tree, rest, ok := parseTree(ws[3:])
		if !ok || len(rest) != 0 {
			return "bad-op"
		}
		t.cfg, t.rootKey = nil, nil
		b, err := yaml.Marshal(tree.goValue())
		if err != nil {
			return "yaml-err"
		}
		cfg, err := gconfig.NewBuilder().WithDimension(dimFlag, dims.DimensionOne(sel)).FromBytes(b)
		if err != nil {
			return "err"
		}
		if got := gconfig.GetDimension[dims.DimensionOne](cfg); int(got) != sel {
			return "dim-mismatch"
		}
		t.cfg = cfg
		if tree.kind == 'M' {
			t.rootKey = append([]string{}, tree.keys...)
		}
		return "ok"
	case "get":
		if len(ws) != 3 {
			return "bad-op"
		}
		if t.cfg == nil {
			return "nocfg"
		}
		return t.get(ws[2])
	case "dump":
		if len(ws) != 2 {
			return "bad-op"
		}
		if t.cfg == nil {
			return "nocfg"
		}
		if t.rootKey == nil {
			return "dump-needs-map-root"
		}
		ks := append([]string{}, t.rootKey...)
		sort.Strings(ks)
		p := []string{"M" + strconv.Itoa(len(ks))}
		for _, k := range ks {
			p = append(p, tokK(k), t.get(k))
		}
		return strings.Join(p, " ")
	}
	return "bad-op"
}

// get observes one position: Get[any], and for string values also the typed Get[string].
func (t *tmplImpl) get(path string) string {
	v, err := gconfig.Get[any](t.cfg, path)
	if err != nil {
		return "missing"
	}
	if s, ok := v.(string); ok {
		typed, err := gconfig.Get[string](t.cfg, path)
		if err != nil {
			return "typed-get-err"
		}
		if typed != s {
			return "typed-get-differs " + tokS(typed) + " " + tokS(s)
		}
	}
	return canon(v)
}

// h-gencommon: correspondence runner for /repo/gencommon (property C19).
package main

import (
	"fmt"
	"os"
	"regexp"
	"sort"
	"strings"

	"verif/harness/internal/hx"
)

func sortStrings(s []string) { sort.Strings(s) }

var genNameRe = regexp.MustCompile(`\b(arg|ret|ctx|err)[0-9]*\b`)

// methodNames extracts the method names of a `find` answer.
func findParts(ans string) (names, params, sigs, imports string) {
	body, imp, _ := strings.Cut(ans, " ## ")
	var ns, ps, ss []string
	for _, m := range strings.Split(body, " ;; ") {
		if m == "" {
			continue
		}
		n, _, _ := strings.Cut(m, "(")
		ns = append(ns, n)
		i := strings.LastIndex(m, "{")
		if i >= 0 {
			ps = append(ps, m[i:])
			ss = append(ss, m[:i])
		}
	}
	return strings.Join(ns, ","), strings.Join(ps, ","), strings.Join(ss, ";"), imp
}

func keyOf(d *hx.Disagreement) string {
	ws := strings.Fields(d.Request)
	if len(ws) < 2 {
		return "C19:?"
	}
	switch ws[1] {
	case "find":
		if d.Impl == "panic" || d.Impl == "err" {
			return "C19:find:" + d.Impl
		}
		n1, p1, s1, i1 := findParts(d.Impl)
		n2, p2, s2, i2 := findParts(d.Model)
		switch {
		case n1 != n2:
			return "C19:find:method-set"
		case p1 != p2:
			return "C19:find:param-names"
		case s1 != s2:
			// generated names inside a func-typed parameter are parameter naming too
			if genNameRe.ReplaceAllString(s1, "${1}N") == genNameRe.ReplaceAllString(s2, "${1}N") {
				return "C19:find:param-names"
			}
			return "C19:find:type-ref"
		case i1 != i2:
			return "C19:find:imports"
		}
		return "C19:find:?"
	case "build":
		return "C19:build:" + strings.TrimPrefix(d.Impl, "fail:")
	case "promoted":
		return "C19:promoted"
	}
	return "C19:" + ws[1]
}

func runC19(f *hx.Flags) {
	impl := &gcImpl{}
	defer impl.cleanup()
	r := hx.NewRunner(f, "h-gencommon", impl, "generated Go modules (target package + context + sibling packages imported plainly, under a rename, from a directory whose name differs from its package clause - that one plainly or under an explicit name equal to the directory name (`v2 \"m/odd/v2\"`), to the declared name, or to neither - and a plainly imported package whose declared name repeats the directory or declared name the target file leaves unbound; packages the target file does NOT import are reached through embedded types of sibling packages whose promoted methods mention context / scratch/deep / scratch/third/v3 (`package third`) and through a second file y.go of the target package with its own import set - other packages, other names for the same packages - holding structs, embedded types and their methods): 2-4 structs with 1-8 methods each, parameters/results from basic, same-package, imported, alias, generic-instance, pointer, slice, array, map, func, variadic, context.Context and error types; parameter names unnamed, _, user-chosen and equal to arg0/ret0/ctx/err/ctx0/err0; embedded structs/pointers/interfaces two levels deep with overlapping method names (unexported only on same-package types); every struct asked with all four option sets. compared per FindInterface call: every method's Signature() text, input and output parameter names, cumulative GetActive() import strings; per struct: go/types' method set of *T vs the Lean selector rule; per module: `go build` of the rendered interfaces with `var _ R = (*T)(nil)`. non-trivial: at least one embedded field or one unnamed parameter list; distinct by request lines. out-of-domain stream (drift only): three embedding levels, an unimported package whose declared name the target file binds to another package, chan/struct/interface literal types")
	r.KeyOf = keyOf
	r.ShrinkBudget, r.ShrinkMax = 20, 4
	r.Compare = func(req, a, b string) bool { return a == b || a == "invalid-program" }
	if r.HandleReplay() {
		impl.cleanup()
		return
	}
	r.RunCorpus()
	if impl.Invalid > 0 {
		// a hand-written witness that is not a legal program would compare equal to anything
		fmt.Fprintln(os.Stderr, "h-gencommon: a corpus case is not a loadable Go program (run with VERIF_DEBUG=1)")
		impl.cleanup()
		os.Exit(2)
	}
	n := r.N(60)
	if f.Tier == "thorough" {
		n = r.N(600)
	}
	for i := 0; i < n; i++ {
		domain := i%6 != 5
		lines, tags, nt := genProgram(r.Rng, i, domain)
		r.Add(hx.Case{Domain: domain, Nontrivial: nt, Tags: tags, Lines: lines})
	}
	r.Res.Extra["packages_loads"] = impl.Loads
	r.Res.Extra["go_builds"] = impl.Builds
	r.Res.Extra["invalid_programs"] = impl.Invalid
	if impl.Invalid > 0 {
		r.Res.Notes["invalid_programs"] = "some generated programs did not load; their queries were not compared"
	}
	r.Finish()
	impl.cleanup()
}

func main() {
	f := hx.ParseFlags()
	switch f.Prop {
	case "C19":
		runC19(f)
	default:
		fmt.Fprintln(os.Stderr, "h-gencommon: unknown property", f.Prop)
		os.Exit(2)
	}
}

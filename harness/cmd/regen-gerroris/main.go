// regen-gerroris regenerates harness/cmd/h-gerroris/xt/*.gerror.go with the gerror CLI built from
// /repo's current working tree (through the harness workspace), as `go generate` would.
// Run from /verif (or anywhere): go run -C harness ./cmd/regen-gerroris
package main

import (
	"fmt"
	"os"
	"os/exec"
	"path/filepath"
)

type job struct {
	in, types string
	skip      bool
}

func main() {
	wd, err := os.Getwd() // harness/
	if err != nil {
		fail(err)
	}
	xt := filepath.Join(wd, "cmd", "h-gerroris", "xt")
	if _, err := os.Stat(filepath.Join(xt, "types.go")); err != nil {
		fail(fmt.Errorf("run with -C harness: %w", err))
	}
	tmp, err := os.MkdirTemp("", "verif-c06-gen-")
	if err != nil {
		fail(err)
	}
	defer os.RemoveAll(tmp)
	env := append(os.Environ(), "GOPROXY=off", "GOSUMDB=off", "GOTOOLCHAIN=local", "GOFLAGS=")
	bin := filepath.Join(tmp, "gerror")
	cmd := exec.Command("go", "build", "-o", bin, "github.com/drshriveer/gtools/gerror/cmd/gerror")
	cmd.Dir, cmd.Env = wd, env
	if out, err := cmd.CombinedOutput(); err != nil {
		os.RemoveAll(tmp)
		fail(fmt.Errorf("building /repo/gerror/cmd/gerror: %v\n%s", err, out))
	}
	for _, j := range []job{{"types.go", "PlainErr,FieldErr", false}, {"custom.go", "CustomErr", true}} {
		args := []string{"-types", j.types}
		if j.skip {
			args = append(args, "-skipConvertGen")
		}
		c := exec.Command(bin, args...)
		c.Dir = xt
		c.Env = append(env, "GOFILE="+j.in, "PWD="+xt, "GOPACKAGE=xt")
		if out, err := c.CombinedOutput(); err != nil {
			os.RemoveAll(tmp)
			fail(fmt.Errorf("gerror %v on %s: %v\n%s", args, j.in, err, out))
		}
	}
	fmt.Println("regenerated", xt, "*.gerror.go")
}

func fail(err error) {
	fmt.Fprintln(os.Stderr, "regen-gerroris:", err)
	os.Exit(1)
}

/-!
# Model of `gsync/selectable_wait_group.go`

An interleaving transition system at the granularity of one atomic / mutex / `close` operation
(the quantifier of C01/C02).  One `step s i` lets thread `i` perform its pending visible
operation and then run thread-local code up to its next visible operation — the same unit the
cooperative scheduler of the correspondence harness executes on the real code, so model steps
and implementation steps are in one-to-one correspondence and carry the same labels.

Channels are natural numbers: `0` is the package-level closed sentinel `closedChan`, fresh
channels get `next, next+1, …` (allocated at the compare-and-swap step, where the real code has
just executed its thread-local `make`).

The flag `L` selects the algorithm: `L = true` is the tree's current `Add` (a mutex around the
counter-and-channel transition); `L = false` is `Add` at the pinned commit (no mutex).  `Wait`
and `Count` are the same in both.

Ghost state (never read by the algorithm): `zc` counts the instants (initial state and the state
after every step) at which the counter was zero.  A `Wait` call remembers `zc` from just before
its starting instant, so "the count was zero at some instant between the start of that Wait call
and now" is `start < zc`.
-/
namespace GSync

inductive Call where
  | add (d : Int) | wait | count
  deriving DecidableEq, Repr

/-- program counter: the pending visible operation of a thread -/
inductive PC where
  | idle                              -- all calls returned
  | aLock (d : Int)                   -- `wg.mu.Lock()`
  | aAdd (d : Int)                    -- `wg.count.Add(delta)`
  | aSwap (v : Int)                   -- `wg.wChan.Swap(&closedChan)`
  | aCloseOld (v : Int) (ch : Nat)    -- `close(*oldChan)`
  | aCAS (v : Int)                    -- `wg.wChan.CompareAndSwap(&closedChan, &newChan)`
  | aCloseNew (v : Int) (ch : Nat)    -- `close(newChan)` after a failed CAS
  | aUnlock (v : Int)                 -- deferred `wg.mu.Unlock()`
  | wCount                            -- `wg.count.Load()` in Wait
  | wChan (c : Int)                   -- `wg.wChan.Load()` in Wait
  | cLoad                             -- `wg.count.Load()` in Count
  deriving DecidableEq, Repr

/-- the result of a returned `Wait()` -/
structure Rec where
  ch : Nat
  start : Nat
  deriving DecidableEq, Repr

structure Thread where
  pc : PC := .idle
  prog : List Call := []       -- calls not started yet
  recs : List Rec := []        -- returned Wait results, newest first
  wstart : Nat := 0            -- ghost: `zc` just before the start of the Wait in flight
  begun : List Int := []       -- deltas of the Add calls begun so far, newest first
  added : List Int := []       -- deltas of the Add calls whose counter update has executed
  rets : List Int := []        -- values returned by Add / Count, newest first
  deriving DecidableEq, Repr

structure Shared where
  count : Int := 0
  wchan : Nat := 0
  closed : List Nat := []      -- channels closed so far (sentinel 0 is closed by construction)
  next : Nat := 1
  lock : Option Nat := none
  zc : Nat := 1                -- ghost; the initial instant has count 0
  deriving DecidableEq, Repr

structure St where
  sh : Shared := {}
  threads : List Thread := []
  deriving DecidableEq, Repr

/-- class of the visible operation performed by a step (what the lock-step comparison sees) -/
inductive Label where
  | none | lock | lockBlocked | unlock | ctrUpdate | ctrRead | ptrUpdate | ptrRead | close
  deriving DecidableEq, Repr

/-- thread-local: begin the next call (or become idle) -/
def enter (L : Bool) (zc : Nat) (t : Thread) : Thread :=
  match t.prog with
  | [] => { t with pc := .idle }
  | .add d :: p => { t with pc := if L then .aLock d else .aAdd d, prog := p, begun := d :: t.begun }
  | .wait :: p => { t with pc := .wCount, prog := p, wstart := zc }
  | .count :: p => { t with pc := .cLoad, prog := p }

/-- after the last shared operation of `Add`: go to the unlock (current) or return (legacy) -/
def finishAdd (L : Bool) (zc : Nat) (t : Thread) (v : Int) : Thread :=
  if L then { t with pc := .aUnlock v } else enter L zc { t with rets := v :: t.rets }

/-- one visible operation of thread `i` -/
def tstep (L : Bool) (sh : Shared) (i : Nat) (t : Thread) : Shared × Thread × Label :=
  match t.pc with
  | .idle => (sh, t, .none)
  | .aLock d =>
    match sh.lock with
    | none => ({ sh with lock := some i }, { t with pc := .aAdd d }, .lock)
    | some _ => (sh, t, .lockBlocked)
  | .aAdd d =>
    let v := sh.count + d
    let sh' := { sh with count := v }
    let t' := { t with added := d :: t.added }
    if v = 0 then (sh', { t' with pc := .aSwap v }, .ctrUpdate)
    else if 0 < d ∧ v = d then (sh', { t' with pc := .aCAS v }, .ctrUpdate)
    else (sh', finishAdd L sh.zc t' v, .ctrUpdate)
  | .aSwap v =>
    let old := sh.wchan
    let sh' := { sh with wchan := 0 }
    if old ≠ 0 then (sh', { t with pc := .aCloseOld v old }, .ptrUpdate)
    else (sh', finishAdd L sh.zc t v, .ptrUpdate)
  | .aCloseOld v ch => ({ sh with closed := ch :: sh.closed }, finishAdd L sh.zc t v, .close)
  | .aCAS v =>
    let n := sh.next
    if sh.wchan = 0 then ({ sh with wchan := n, next := n + 1 }, finishAdd L sh.zc t v, .ptrUpdate)
    else ({ sh with next := n + 1 }, { t with pc := .aCloseNew v n }, .ptrUpdate)
  | .aCloseNew v ch => ({ sh with closed := ch :: sh.closed }, finishAdd L sh.zc t v, .close)
  | .aUnlock v => ({ sh with lock := none }, enter L sh.zc { t with rets := v :: t.rets }, .unlock)
  | .wCount => (sh, { t with pc := .wChan sh.count }, .ctrRead)
  | .wChan c =>
    let ch := sh.wchan
    if c = 0 ∨ (0 < c ∧ ch ≠ 0) then
      (sh, enter L sh.zc { t with recs := ⟨ch, t.wstart⟩ :: t.recs }, .ptrRead)
    else (sh, { t with pc := .wCount }, .ptrRead)
  | .cLoad => (sh, enter L sh.zc { t with rets := sh.count :: t.rets }, .ctrRead)

/-- ghost: count the new instant if the counter is zero there -/
def tick (sh : Shared) : Shared := { sh with zc := sh.zc + (if sh.count = 0 then 1 else 0) }

def stepL (L : Bool) (s : St) (i : Nat) : St × Label :=
  match s.threads[i]? with
  | none => (s, .none)
  | some t =>
    let r := tstep L s.sh i t
    ({ sh := tick r.1, threads := s.threads.set i r.2.1 }, r.2.2)

def step (L : Bool) (s : St) (i : Nat) : St := (stepL L s i).1

def run (L : Bool) (s : St) (sched : List Nat) : St := sched.foldl (step L) s

/-- initial state of a client program: every goroutine has begun its first call -/
def init (L : Bool) (progs : List (List Call)) : St :=
  { sh := {}, threads := progs.map (fun p => enter L 0 { prog := p }) }

/-! ## observations -/

def isClosed (sh : Shared) (ch : Nat) : Bool := ch == 0 || sh.closed.contains ch

/-- the count was zero at some instant between the start of the Wait that produced `r` and now -/
def zeroSeen (sh : Shared) (r : Rec) : Bool := decide (r.start < sh.zc)

def inAdd : PC → Bool
  | .aLock _ | .aAdd _ | .aSwap _ | .aCloseOld _ _ | .aCAS _ | .aCloseNew _ _ | .aUnlock _ => true
  | _ => false

def inWait : PC → Bool
  | .wCount | .wChan _ => true
  | _ => false

/-- no Add/Inc/Dec call is in flight -/
def quiescent (s : St) : Bool := s.threads.all (fun t => !inAdd t.pc)

/-- the count never went negative along the run (callers' obligation in C01/C02) -/
def NonNeg (L : Bool) (s : St) (sched : List Nat) : Prop :=
  ∀ pre, pre <+: sched → 0 ≤ (run L s pre).sh.count

end GSync

import Model.GSyncCfg
/-! REGENERATED on every run by harness/cmd/go2lean -spec gsync from gsync/selectable_wait_group.go.
Do not edit.  The control-flow graph of Add, Wait, Count in the vocabulary of Model/GSyncCfg.lean: one node
per visible operation (mutex / atomic / close), per thread-local make, per Go condition, per return (a
deferred Unlock is a node in front of the return).  Checked while reading: SelectableWaitGroup has exactly a
sync.Mutex (`mu`), an atomic.Int64 (`count`) and an atomic.Pointer[chan struct{}] (`wChan`); the constructor
stores `&closedChan` (closed once, in init) and nothing else; no other function of the package touches them.

locals of Add: 0=delta 1=newV 2=oldChan 3=newChan 4=(wg.wChan.CompareAndSwap(&closedChan, &newChan))
locals of Wait: 0=count 1=wgChan
locals of Count: 0=(wg.count.Load())
-/
namespace Generated.GoGSync
open GSyncCfg

def node : Nat → Option Node
  | 0 => some (.lock 1)  -- wg.mu.Lock()
  | 1 => some (.ctrAdd (.var 0) 1 2)  -- newV := wg.count.Add(int64(delta))
  | 2 => some (.branch (.ieq (.var 1) (.lit 0)) 3 8)  -- newV == 0
  | 3 => some (.ptrSwap .sentinel 2 4)  -- oldChan := wg.wChan.Swap(&closedChan)
  | 4 => some (.branch (.peq (.var 2) .sentinel) 5 7)  -- NOT (oldChan != &closedChan)
  | 5 => some (.unlock 6)  -- deferred wg.mu.Unlock()
  | 6 => some (.retInt (.var 1))  -- return int(newV)
  | 7 => some (.close (.var 2) 5)  -- close(*oldChan)
  | 8 => some (.branch (.and (.ilt (.lit 0) (.var 0)) (.ieq (.var 1) (.var 0))) 9 5)  -- delta > 0 && newV == int64(delta)
  | 9 => some (.make 3 10)  -- newChan := make(chan struct{})
  | 10 => some (.ptrCAS .sentinel (.var 3) 4 11)  -- wg.wChan.CompareAndSwap(&closedChan, &newChan)
  | 11 => some (.branch (.bvar 4) 5 12)  -- NOT (!wg.wChan.CompareAndSwap(&closedChan, &newChan))
  | 12 => some (.close (.var 3) 5)  -- close(newChan)
  | 13 => some (.ctrLoad 0 14)  -- count := wg.count.Load()
  | 14 => some (.ptrLoad 1 15)  -- wgChan := wg.wChan.Load()
  | 15 => some (.branch (.or (.ieq (.var 0) (.lit 0)) (.and (.ilt (.lit 0) (.var 0)) (.not (.peq (.var 1) .sentinel)))) 16 13)  -- count == 0 || (count > 0 && wgChan != &closedChan)
  | 16 => some (.retChan (.var 1))  -- return *wgChan
  | 17 => some (.ctrLoad 0 18)  -- wg.count.Load()
  | 18 => some (.retInt (.var 0))  -- return int(wg.count.Load())
  | _ => none

def cfg : Cfg := { node := node, size := 19, addEntry := 0, addParam := 0, waitEntry := 13, countEntry := 17 }

/-- `Inc()` is `Add(incDelta)`, `Dec()` is `Add(decDelta)` -/
def incDelta : Int := 1
def decDelta : Int := -1

end Generated.GoGSync

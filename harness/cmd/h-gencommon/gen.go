package main

import (
	"fmt"
	"math/rand"
	"strings"
)

// Generator of programs following C19's quantifier text.  A program is emitted as declaration
// lines of the line protocol; see lean/Driver/Gencommon.lean for the grammar.

type gen struct {
	r      *rand.Rand
	domain bool
	avail  []int // package indices importable from the target file
	lines  []string
	tags   map[string]bool
	drift  string
}

const (
	pkTgt = 0
	pkCtx = 1
	pkSib = 2
	pkRen = 3
	pkOdd = 4
	pkDeep = 5
	pkClash = 6
)

// how the target file imports the package whose directory name differs from its package clause
const (
	oddPlain    = 0 // import "scratch/odd/v2"            (binds the declared name)
	oddDirName  = 1 // import v2 "scratch/odd/v2"         (explicit name = last path element)
	oddDeclName = 2 // import odd "scratch/odd/v2"        (explicit name = declared name)
	oddOther    = 3 // import ox "scratch/odd/v2"         (explicit name = neither)
)

var oddStyleTag = [...]string{"dir-differs-plain", "dir-differs-named-as-dir", "dir-differs-named-as-pkg", "dir-differs-named-other"}

func (g *gen) emit(f string, a ...any) { g.lines = append(g.lines, "gcm "+fmt.Sprintf(f, a...)) }
func (g *gen) tag(t string)             { g.tags[t] = true }
func (g *gen) pick(xs []string) string  { return xs[g.r.Intn(len(xs))] }
func (g *gen) has(p int) bool {
	for _, x := range g.avail {
		if x == p {
			return true
		}
	}
	return false
}

var basics = []string{"int", "string", "bool", "float64", "byte", "rune", "uint8", "int64", "any", "error", "uint", "complex128"}

// rty produces a random type usable from package `from` given the packages `pk` it may mention.
func (g *gen) rty(depth int, pk []int) string {
	k := g.r.Intn(16)
	if depth <= 0 && k >= 7 {
		k = g.r.Intn(7)
	}
	named := func() string {
		p := pk[g.r.Intn(len(pk))]
		switch p {
		case pkCtx:
			g.tag("context")
			return "n:1:Context"
		case pkTgt:
			g.tag("same-pkg-named")
			n := g.pick([]string{"ID", "Rec", "AliasID", "SibAlias"})
			if n == "AliasID" || n == "SibAlias" {
				g.tag("alias")
			}
			return "n:0:" + n
		default:
			g.tag(map[int]string{pkSib: "plain-import", pkRen: "renamed-import", pkOdd: "dir-differs-import", pkDeep: "unimported-pkg", pkClash: "name-clash-import"}[p])
			n := g.pick([]string{"T", "Rec", "Al"})
			if n == "Al" {
				g.tag("alias")
			}
			return fmt.Sprintf("n:%d:%s", p, n)
		}
	}
	switch k {
	case 0, 1, 2:
		return "b:" + g.pick(basics)
	case 3, 4, 5, 6:
		return named()
	case 7:
		g.tag("generic")
		p := pk[g.r.Intn(len(pk))]
		if p == pkCtx {
			p = pk[0]
		}
		if p == pkTgt && g.r.Intn(2) == 0 {
			return "g:0:Pair:2 " + g.rty(depth-1, pk) + " " + g.rty(depth-1, pk)
		}
		return fmt.Sprintf("g:%d:Box:1 ", p) + g.rty(depth-1, pk)
	case 8, 9:
		g.tag("pointer")
		return "p " + g.rty(depth-1, pk)
	case 10, 11:
		g.tag("slice")
		return "s " + g.rty(depth-1, pk)
	case 12:
		g.tag("array")
		return fmt.Sprintf("a:%d ", g.r.Intn(5)) + g.rty(depth-1, pk)
	case 13:
		g.tag("map")
		key := g.pick([]string{"b:string", "b:int", "n:2:T", "b:string"})
		return "m " + key + " " + g.rty(depth-1, pk)
	case 14:
		g.tag("func-type")
		return g.rsig(depth-1, pk, false)
	default:
		if g.drift == "other-types" {
			g.tag("other-type")
			return g.pick([]string{"o:chan~int", "o:struct{}", "o:interface{}", "o:<-chan~string"})
		}
		return "b:" + g.pick(basics)
	}
}

var userNames = []string{"a", "b", "name", "x", "val", "n", "in", "out", "arg", "ret", "ctx", "err",
	"arg0", "arg1", "arg2", "ret0", "ret1", "ctx0", "ctx1", "err0", "err1", "arg10", "ret00", "Arg0"}
var adversarial = []string{"arg0", "arg1", "ret0", "ret1", "ctx", "err", "ctx0", "err0", "arg", "ret"}

// rsig produces `f:<np>:<v>:<nr> …` — a signature whose parameter names follow the quantifier:
// unnamed, `_`, user-chosen, and deliberately equal to the generator's own choices.
func (g *gen) rsig(depth int, pk []int, method bool) string {
	np := g.r.Intn(5)
	nr := g.r.Intn(4)
	if !method {
		np, nr = g.r.Intn(4), g.r.Intn(3)
	}
	used := map[string]bool{}
	name := func(style int) string {
		switch style {
		case 0:
			return "-"
		}
		for tries := 0; tries < 20; tries++ {
			var n string
			switch g.r.Intn(6) {
			case 0, 1:
				n = "_"
			case 2, 3:
				n = g.pick(adversarial)
			default:
				n = g.pick(userNames)
			}
			if n == "_" {
				return n
			}
			if !used[n] {
				used[n] = true
				return n
			}
		}
		return "_"
	}
	pstyle, rstyle := g.r.Intn(3), g.r.Intn(3) // 0 unnamed, 1/2 named
	if pstyle == 0 {
		g.tag("params-unnamed")
	} else {
		g.tag("params-named")
	}
	var parts []string
	variadic := 0
	for i := 0; i < np; i++ {
		t := g.rty(depth, pk)
		if i == 0 && contains(pk, pkCtx) && g.r.Intn(3) == 0 {
			t = "n:1:Context"
			g.tag("ctx-first")
		}
		if i == np-1 && g.r.Intn(6) == 0 {
			variadic = 1
			t = "s " + t
			g.tag("variadic")
		}
		parts = append(parts, name(pstyle)+" "+t)
	}
	for i := 0; i < nr; i++ {
		t := g.rty(depth, pk)
		if i == nr-1 && g.r.Intn(2) == 0 {
			t = "b:error"
			g.tag("err-last")
		}
		parts = append(parts, name(rstyle)+" "+t)
	}
	return strings.TrimSpace(fmt.Sprintf("f:%d:%d:%d ", np, variadic, nr) + strings.Join(parts, " "))
}

func contains(xs []int, x int) bool {
	for _, y := range xs {
		if y == x {
			return true
		}
	}
	return false
}

var ownPool = []string{"Alpha", "Beta", "Gamma", "Delta", "Eps", "Zeta", "Eta", "Theta", "alpha", "beta", "gamma"}
var embPool = []string{"Foo", "Bar", "Baz", "Get", "Put"}
var embPrivPool = []string{"foo", "bar"}

type embTy struct {
	pkg   int
	name  string
	iface bool
}

// program builds one case.
func genProgram(r *rand.Rand, id int, domain bool) (lines []string, tags []string, nontrivial bool) {
	g := &gen{r: r, domain: domain, tags: map[string]bool{}}
	if !domain {
		g.drift = []string{"three-levels", "unimported-pkg", "other-types"}[r.Intn(3)]
		g.tag("drift-" + g.drift)
	}
	g.lines = append(g.lines, fmt.Sprintf("case gcm %d", id))
	// packages and the target file's imports
	renAlias := g.pick([]string{"rn", "r2", "sibx", "odd"})
	oddPath, oddName := "scratch/odd/v2", "odd"
	if r.Intn(2) == 0 {
		oddPath, oddName = "scratch/dir_a", "pkgb"
	}
	oddBase := oddPath[strings.LastIndex(oddPath, "/")+1:]
	// the dir-differs package is imported plainly or under an explicit name that repeats the
	// directory name (the classic `v2 "mod/pkg/v2"`), repeats the declared name, or is neither;
	// the style cycles with the case number so that every quick run has each of them several times
	oddStyle := id % 4
	oddAlias := [...]string{"", oddBase, oddName, "ox"}[oddStyle]
	oddBound := oddAlias // the identifier the import binds in the target file
	if oddBound == "" {
		oddBound = oddName
	}
	// name clash: a second, plainly imported package whose DECLARED name is the dir-differs
	// package's directory name or its declared name - whichever the target file does not
	// already bind for the dir-differs package (so the file stays legal Go)
	clashName := ""
	if r.Intn(3) != 0 {
		var free []string
		for _, n := range []string{oddBase, oddName} {
			if n != oddBound {
				free = append(free, n)
			}
		}
		clashName = g.pick(free)
	}
	if renAlias == oddBound || renAlias == clashName {
		renAlias = "rn"
	}
	g.emit("pkg 0 scratch/tgt tgt")
	g.emit("pkg 1 context context")
	g.emit("pkg 2 scratch/sib sib")
	g.emit("pkg 3 scratch/ren ren")
	g.emit("pkg 4 %s %s", oddPath, oddName)
	if g.drift == "unimported-pkg" {
		g.emit("pkg 5 scratch/deep deep")
	}
	g.avail = []int{pkTgt, pkSib}
	g.emit("imp 2 -")
	if r.Intn(5) != 0 {
		g.avail = append(g.avail, pkCtx)
		g.emit("imp 1 -")
	}
	if r.Intn(4) != 0 {
		g.avail = append(g.avail, pkRen)
		g.emit("imp 3 %s", renAlias)
	}
	hasOdd := oddStyle != oddPlain || r.Intn(4) != 0
	if hasOdd {
		g.avail = append(g.avail, pkOdd)
		if oddAlias == "" {
			g.emit("imp 4 -")
		} else {
			g.emit("imp 4 %s", oddAlias)
		}
		g.tag(oddStyleTag[oddStyle])
	}
	hasClash := hasOdd && clashName != ""
	if hasClash {
		g.emit("pkg 6 scratch/cl/%s %s", clashName, clashName)
		g.avail = append(g.avail, pkClash)
		g.emit("imp 6 -")
		if clashName == oddBase {
			g.tag("clash-with-dir-name")
		} else {
			g.tag("clash-with-pkg-name")
		}
	}
	// named types of every package
	g.emit("def 0 ID named b:int")
	g.emit("def 0 Rec named o:struct{}")
	g.emit("def 0 Box generic 1")
	g.emit("def 0 Pair generic 2")
	g.emit("def 0 AliasID alias n:0:ID")
	g.emit("def 0 SibAlias alias n:2:Rec")
	others := []int{pkSib, pkRen, pkOdd}
	if g.drift == "unimported-pkg" {
		others = append(others, pkDeep)
	}
	if hasClash {
		others = append(others, pkClash)
	}
	for _, q := range others {
		g.emit("def %d T named b:int", q)
		g.emit("def %d Rec named o:struct{}", q)
		g.emit("def %d Box generic 1", q)
		g.emit("def %d Al alias n:%d:T", q, q)
	}
	// signatures of the overlapping method names: two variants per name; they mention only
	// basics, context and sib (which every package may import without a cycle)
	poolPk := []int{pkSib}
	if g.has(pkCtx) || g.drift == "unimported-pkg" {
		poolPk = append(poolPk, pkCtx)
	}
	if g.drift == "unimported-pkg" {
		poolPk = append(poolPk, pkDeep, pkDeep)
	}
	poolSig := map[string][2]string{}
	for _, n := range append(append([]string{}, embPool...), embPrivPool...) {
		poolSig[n] = [2]string{g.rsig(1, poolPk, true), g.rsig(1, poolPk, true)}
	}
	// level-2 then level-1 embedded types
	mk := func(name string, level int, below []embTy) embTy {
		e := embTy{name: name}
		pkChoices := []int{pkTgt, pkTgt}
		for _, p := range g.avail {
			if p == pkRen || p == pkOdd || p == pkClash {
				pkChoices = append(pkChoices, p)
			}
		}
		if level > 0 {
			pkChoices = append(pkChoices, pkSib)
		}
		e.pkg = pkChoices[r.Intn(len(pkChoices))]
		if g.drift == "unimported-pkg" {
			e.pkg = pkSib // the only place that may mention package deep
		}
		e.iface = r.Intn(3) == 0
		kind := "struct"
		if e.iface {
			kind = "iface"
			g.tag("embedded-interface")
		}
		g.emit("ty %d %s %s", e.pkg, name, kind)
		// embedded fields of this embedded type
		for _, b := range below {
			if r.Intn(2) == 0 {
				continue
			}
			if e.iface && !b.iface {
				continue
			}
			// no import cycles: sib imports nothing; ren/odd may import sib only; tgt anything
			if e.pkg != pkTgt && b.pkg != e.pkg && b.pkg != pkSib {
				continue
			}
			if e.pkg == pkSib && b.pkg != pkSib {
				continue
			}
			ptr := "v"
			if !b.iface && r.Intn(3) == 0 {
				ptr = "p"
				g.tag("embedded-pointer")
			}
			g.emit("emb %d %s %s %d %s", e.pkg, name, ptr, b.pkg, b.name)
			g.tag(fmt.Sprintf("embed-depth-%d", 3-level))
		}
		pool := append([]string{}, embPool...)
		if e.pkg == pkTgt {
			pool = append(pool, embPrivPool...)
		}
		r.Shuffle(len(pool), func(i, j int) { pool[i], pool[j] = pool[j], pool[i] })
		nm := 1 + r.Intn(3)
		for _, m := range pool[:nm] {
			v := 0
			if !e.iface {
				v = r.Intn(2)
			}
			recv := g.pick([]string{"p", "v"})
			if e.iface {
				recv = "v"
			}
			g.emit("meth %d %s %s %s %s", e.pkg, name, m, recv, poolSig[m][v])
		}
		return e
	}
	var l3, l2, l1 []embTy
	if g.drift == "three-levels" {
		for i := 0; i < 2; i++ {
			l3 = append(l3, mk(fmt.Sprintf("G%d", i+1), 0, nil))
		}
	}
	for i := 0; i < 2+r.Intn(3); i++ {
		l2 = append(l2, mk(fmt.Sprintf("F%d", i+1), 1, l3))
	}
	for i := 0; i < 2+r.Intn(2); i++ {
		l1 = append(l1, mk(fmt.Sprintf("E%d", i+1), 2, l2))
	}
	// target structs
	ns := 2 + r.Intn(3)
	var targets []string
	for s := 0; s < ns; s++ {
		name := fmt.Sprintf("S%d", s)
		targets = append(targets, name)
		g.emit("ty 0 %s struct", name)
		perm := r.Perm(len(l1))
		ne := r.Intn(len(l1) + 1)
		if s == 0 {
			ne = len(l1)
		}
		for _, k := range perm[:ne] {
			e := l1[k]
			ptr := "v"
			if !e.iface && r.Intn(3) == 0 {
				ptr = "p"
				g.tag("embedded-pointer")
			}
			g.emit("emb 0 %s %s %d %s", name, ptr, e.pkg, e.name)
			nontrivial = true
		}
		pool := append([]string{}, ownPool...)
		if r.Intn(2) == 0 {
			pool = append(pool, g.pick(embPool), g.pick(embPrivPool))
			g.tag("own-shadows-embedded")
		}
		r.Shuffle(len(pool), func(i, j int) { pool[i], pool[j] = pool[j], pool[i] })
		nm := 1 + r.Intn(8)
		for _, m := range pool[:nm] {
			g.emit("meth 0 %s %s %s %s", name, m, g.pick([]string{"p", "v"}), g.rsig(2, g.avail, true))
		}
		// the first struct always mentions a type of the dir-differs package (and of the
		// clashing one) in a method of its own, so that both imports are active and printed
		if s == 0 && hasOdd {
			sig := fmt.Sprintf("f:1:0:1 %s %s - %s", g.pick([]string{"-", "_", "v"}),
				g.pick([]string{"n:4:T", "p n:4:Rec", "s n:4:Al", "g:4:Box:1 b:int"}), g.pick([]string{"n:4:T", "b:error"}))
			if hasClash {
				sig = fmt.Sprintf("f:2:0:1 - %s - %s - %s", g.pick([]string{"n:4:T", "p n:4:Rec", "g:4:Box:1 n:6:T"}),
					g.pick([]string{"n:6:T", "s n:6:Rec", "m b:string n:6:Al"}), g.pick([]string{"n:4:Al", "n:6:T", "b:error"}))
			}
			g.emit("meth 0 %s ViaOdd %s %s", name, g.pick([]string{"p", "v"}), sig)
			g.tag("dir-differs-import")
		}
	}
	for _, t := range targets {
		for _, bits := range r.Perm(4) {
			g.emit("find 0 %s %d", t, bits)
		}
		g.emit("promoted 0 %s", t)
	}
	g.emit("build")
	for t := range g.tags {
		tags = append(tags, t)
	}
	sortStrings(tags)
	return g.lines, tags, nontrivial || g.tags["params-unnamed"]
}

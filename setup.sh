#!/bin/bash
set -e
cd "$(dirname "$0")"
echo setup: nothing to build yet

// h-gogenproto: correspondence runner for /repo/gogenproto (property C20).
//
// A case builds a directory tree below a scratch module root (called /T in the protocol) and
// then runs gogenproto several times on it — through gen.Generate.Run in-process and through
// the CLI built from /repo/gogenproto/cmd/gogenproto — with protoc replaced by a recording stub.
// The recorded working directory and argument vector (file operands resolved to the file they
// name, everything sorted) are compared with the Lean model's answer.
package main

import (
	"flag"
	"fmt"
	"math/rand"
	"os"
	"path/filepath"
	"strconv"
	"strings"

	"verif/harness/internal/hx"
)

func main() {
	worker := flag.Bool("gp-worker", false, "internal: execute cases from stdin")
	cli := flag.String("gp-cli", "", "internal: gogenproto CLI already built")
	f := hx.ParseFlags()
	if *worker {
		workerMain(*cli)
		return
	}
	if f.Prop != "C20" {
		fmt.Fprintln(os.Stderr, "h-gogenproto: unknown property", f.Prop)
		os.Exit(2)
	}
	impl := newImpl()
	code := 0
	func() {
		defer impl.Close()
		runC20(f, impl)
	}()
	os.Exit(code)
}

const rule = "random directory trees below a scratch Go module (input dir at /T, /T/in or /T/svc/api; depth <=3, <=12 non-Go files: .proto with/without `option go_package`, look-alikes such as x.proto.txt, .protox, A.PROTO, a directory named like a proto; a Go file in every directory), 0-2 include dirs (siblings, sometimes nested in / parent of / equal to the input dir) spelled relative or absolute, with or without =prefix; per tree all 8 settings of recurse/vt-proto/grpc, each with a random working directory inside the module, a random spelling of the input dir (., rel, ./rel, rel/, ../rel, absolute, absolute with trailing slash) and a random entry point (gen.Generate.Run in-process, CLI with -input-dir, CLI with the PWD default). Out-of-domain stream (drift only): odd go_package spellings, symlinked protos, missing dirs, `=` or spaces in names, unclean/empty prefixes. non-trivial: >=2 .proto files, >=1 of them without go_package, and >=1 sub-directory or include dir; distinct by request lines"

func runC20(f *hx.Flags, impl *gpImpl) {
	memo := &memoImpl{inner: impl, memo: map[string]string{}}
	r := hx.NewRunner(f, "h-gogenproto", memo, rule)
	r.KeyOf = keyOf
	if r.HandleReplay() {
		return
	}
	r.RunCorpus()
	n := r.N(120)
	if f.Tier == "thorough" {
		n = r.N(2400)
	}
	cases := make([]hx.Case, n)
	for i := range cases {
		cases[i] = genCase(r.Rng, r.Rng.Intn(8) != 0)
	}
	workers := 4
	if w, err := strconv.Atoi(os.Getenv("VERIF_WORKERS")); err == nil && w > 0 {
		workers = w
	}
	if err := precompute(memo, cases, workers); err != nil {
		// the answers that are missing are computed in-process below; a CLI that does not build shows up there
		r.Res.Notes["precompute"] = err.Error()
	}
	r.Res.Extra["worker_processes"] = workers
	for i, c := range cases {
		r.Add(c)
		if i%10 == 9 {
			r.Flush()
			if len(r.Res.Disagreements) >= 3 {
				// enough failing inputs; shrinking each further one costs minutes of `go list` calls
				r.Res.Notes["stopped_early"] = fmt.Sprintf("after %d of %d cases: %d in-domain disagreements", i+1, len(cases), len(r.Res.Disagreements))
				break
			}
		}
	}
	r.Finish()
}

// keyOf classifies a disagreement by the kind of argument on which the two sides differ.
func keyOf(d *hx.Disagreement) string {
	ws := strings.Fields(d.Request)
	if len(ws) < 2 || ws[1] != "run" {
		return "C20:" + strings.Join(ws[:min(2, len(ws))], ":")
	}
	head := func(s string) string {
		if i := strings.Index(s, " argv: "); i >= 0 {
			return s[:i]
		}
		return s
	}
	if head(d.Impl) != head(d.Model) {
		if strings.Contains(head(d.Impl), "n=") && strings.Contains(head(d.Model), "n=") && nOf(d.Impl) != nOf(d.Model) {
			return "C20:run:invocations"
		}
		return "C20:run:cwd-or-status"
	}
	ia, ma := argSet(d.Impl), argSet(d.Model)
	classes := map[string]bool{}
	for a := range ia {
		if ia[a] != ma[a] {
			classes[classOf(a)] = true
		}
	}
	for a := range ma {
		if ia[a] != ma[a] {
			classes[classOf(a)] = true
		}
	}
	for _, c := range []string{"files", "include", "mapping", "plugins"} {
		if classes[c] {
			return "C20:run:" + c
		}
	}
	return "C20:run:other"
}

func nOf(s string) string {
	for _, w := range strings.Fields(s) {
		if strings.HasPrefix(w, "n=") {
			return w
		}
	}
	return ""
}

func argSet(s string) map[string]int {
	m := map[string]int{}
	if i := strings.Index(s, " argv: "); i >= 0 {
		for _, a := range strings.Fields(s[i+7:]) {
			m[a]++
		}
	}
	return m
}

func classOf(a string) string {
	switch {
	case strings.HasPrefix(a, "file:"):
		return "files"
	case strings.HasPrefix(a, "-I"):
		return "include"
	case strings.Contains(a, "_opt=M"):
		return "mapping"
	case strings.HasPrefix(a, "--go"):
		return "plugins"
	}
	return "other"
}

// ---- generator ----

type tgen struct {
	rng   *rand.Rand
	lines []string
	files int // non-Go files so far
	dirs  []string
	nProto, nNoPkg, nSub int
	goFiles bool
}

var protoNames = []string{"a.proto", "b.proto", "svc.proto", "x.y.proto", "msg_v1.proto", "z.proto", ".proto"}
var otherNames = []string{"readme.md", "notes.proto.txt", "proto", "data.protox", "Makefile", "A.PROTO", "b.proto.bak", "gen.pb.go.txt"}
var dirNames = []string{"sub", "deep", "v1", "api", "dir.proto", "types"}

func (g *tgen) mkdir(p string) {
	g.lines = append(g.lines, "gp d "+p)
	g.dirs = append(g.dirs, p)
	if g.goFiles {
		g.lines = append(g.lines, "gp f "+p+"/zz_pkg.go -")
	}
}

// fill puts files and sub-directories into dir (depth levels of nesting still allowed below it).
func (g *tgen) fill(dir string, depth int, want int) {
	used := map[string]bool{}
	pick := func(pool []string) string {
		for k := 0; k < 8; k++ {
			n := pool[g.rng.Intn(len(pool))]
			if !used[n] {
				used[n] = true
				return n
			}
		}
		return ""
	}
	for i := 0; i < want && g.files < 12; i++ {
		if g.rng.Intn(10) < 7 {
			n := pick(protoNames)
			if n == "" {
				continue
			}
			flag := "g0"
			if g.rng.Intn(5) < 2 {
				flag = "g1"
				if g.rng.Intn(2) == 0 {
					flag = []string{"g1:trailer", "g1:middle", "g1:aftercomment", "g1:indent", "g1:crlf", "g1:noeol"}[g.rng.Intn(6)]
				}
			} else {
				g.nNoPkg++
			}
			g.nProto++
			g.files++
			g.lines = append(g.lines, "gp f "+dir+"/"+n+" "+flag)
		} else {
			n := pick(otherNames)
			if n == "" {
				continue
			}
			g.files++
			g.lines = append(g.lines, "gp f "+dir+"/"+n+" -")
		}
	}
	if depth > 0 {
		k := g.rng.Intn(3)
		for i := 0; i < k; i++ {
			n := pick(dirNames)
			if n == "" {
				continue
			}
			g.nSub++
			g.mkdir(dir + "/" + n)
			g.fill(dir+"/"+n, depth-1, g.rng.Intn(4))
		}
	}
}

func relTo(base, target string) string {
	r, err := filepath.Rel(base, target)
	if err != nil {
		return target
	}
	return r
}

func genCase(rng *rand.Rand, domain bool) hx.Case {
	g := &tgen{rng: rng, goFiles: true}
	g.lines = []string{"case gogenproto", "gp mod " + []string{"example.com/m", "github.com/acme/protos", "corp.internal/svc/v2"}[rng.Intn(3)]}
	tags := []string{}
	mut := ""
	if !domain {
		mut = []string{"gopkg-style", "symlink", "no-go-file", "odd-prefix", "eq-in-input", "space-in-name", "missing-include", "missing-input"}[rng.Intn(8)]
		tags = append(tags, "ood:"+mut)
		if mut == "no-go-file" {
			g.goFiles = false
		}
	}
	if g.goFiles {
		g.lines = append(g.lines, "gp f /T/zz_pkg.go -")
	}
	g.dirs = append(g.dirs, "/T")
	// input directory
	input := []string{"/T/in", "/T/svc/api", "/T", "/T/in"}[rng.Intn(4)]
	if mut == "eq-in-input" {
		input = "/T/a=b"
	}
	if mut == "space-in-name" {
		input = "/T/my%20protos"
	}
	switch input {
	case "/T":
	case "/T/svc/api":
		g.mkdir("/T/svc")
		g.mkdir(input)
	default:
		g.mkdir(input)
	}
	tags = append(tags, "input:"+input)
	g.fill(input, 3, 1+rng.Intn(5))
	inputDirs := append([]string{}, g.dirs...)
	// include directories
	type inc struct{ dir, prefix string }
	var incs []inc
	nInc := rng.Intn(3)
	prefixes := []string{"example.com/ext", "github.com/foo/bar", "corp/pkg/v2"}
	for i := 0; i < nInc; i++ {
		var d string
		switch k := rng.Intn(10); {
		case k < 7 || input == "/T":
			d = []string{"/T/inc1", "/T/third_party/inc2"}[i]
			if i == 1 {
				g.mkdir("/T/third_party")
			}
			g.mkdir(d)
			g.fill(d, 2, 1+rng.Intn(3))
		case k == 7:
			d = input // the input dir once more
		case k == 8:
			d = filepath.Dir(input) // its parent
		default:
			// a directory nested in the input dir, if there is one
			d = inputDirs[rng.Intn(len(inputDirs))]
			if !strings.HasPrefix(d, input) {
				d = input
			}
		}
		p := ""
		if rng.Intn(2) == 0 {
			p = prefixes[rng.Intn(len(prefixes))]
		}
		incs = append(incs, inc{d, p})
	}
	tags = append(tags, fmt.Sprintf("includes:%d", nInc))
	if mut == "odd-prefix" {
		if len(incs) == 0 {
			g.mkdir("/T/inc1")
			g.fill("/T/inc1", 1, 2)
			incs = append(incs, inc{"/T/inc1", ""})
		}
		incs[0].prefix = []string{"x/", "a/../b", "/abs/prefix", "a=b", "./rel", ""}[rng.Intn(6)]
	}
	if mut == "missing-include" {
		incs = append(incs, inc{"/T/nowhere", ""})
	}
	if mut == "symlink" {
		g.lines = append(g.lines, "gp f "+input+"/target.proto g0", "gp s "+input+"/link.proto "+input+"/target.proto")
		g.nProto++
		g.nNoPkg++
	}
	if mut == "gopkg-style" {
		for i, st := range []string{"g1:nospace", "g1:twospace", "g1:longline", "g0:commented", "g0:block"} {
			if rng.Intn(2) == 0 || i == rng.Intn(5) {
				g.lines = append(g.lines, fmt.Sprintf("gp f %s/odd%d.proto %s", input, i, st))
			}
		}
	}
	runInput := input
	if mut == "missing-input" {
		runInput = input + "/nope"
	}
	// runs: all 8 flag settings, in random order
	cwds := append([]string{}, g.dirs...)
	for _, k := range rng.Perm(8) {
		rec, vt, grpc := k&1, (k>>1)&1, (k>>2)&1
		cwd := cwds[rng.Intn(len(cwds))]
		if rng.Intn(3) == 0 {
			cwd = input
		}
		if rng.Intn(3) == 0 {
			cwd = "/T"
		}
		via := "api"
		switch rng.Intn(8) {
		case 0:
			via = "cli"
		case 1:
			via = "clipwd"
		}
		var in string
		ucwd, uin := unesc(cwd), unesc(runInput)
		if via == "clipwd" {
			if mut == "missing-input" {
				via = "cli"
			} else {
				cwd, ucwd = input, unesc(input)
			}
			in = uin
		}
		if via != "clipwd" {
			switch s := rng.Intn(8); {
			case s < 2:
				in = relTo(ucwd, uin)
			case s == 2:
				in = relTo(ucwd, uin)
				if in != "." && !strings.HasPrefix(in, "..") {
					in = "./" + in
				}
			case s == 3:
				in = relTo(ucwd, uin) + "/"
			case s == 4:
				// through the parent: ../<name> when run from a sibling position
				in = relTo(ucwd, uin)
				if ucwd != "/T" && !strings.HasPrefix(in, "..") {
					in = "../" + filepath.Base(ucwd) + "/" + in
				}
			case s == 5:
				in = uin + "/"
			default:
				in = uin
			}
		}
		line := fmt.Sprintf("gp run via=%s cwd=%s in=%s recurse=%d vt=%d grpc=%d", via, cwd, esc(in), rec, vt, grpc)
		for _, ic := range incs {
			sp := unesc(ic.dir)
			if rng.Intn(2) == 0 {
				sp = relTo(ucwd, sp)
			}
			if ic.prefix != "" || mut == "odd-prefix" && ic == incs[0] {
				sp += "=" + ic.prefix
			}
			line += " inc=" + esc(sp)
		}
		g.lines = append(g.lines, line)
		tags = append(tags, "via:"+via)
	}
	nontrivial := g.nProto >= 2 && g.nNoPkg >= 1 && (g.nSub >= 1 || nInc >= 1)
	return hx.Case{Lines: g.lines, Domain: domain, Nontrivial: nontrivial, Tags: tags}
}

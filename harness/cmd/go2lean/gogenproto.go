// go2lean -spec gogenproto: translation of gogenproto/gen/generate.go (C20) -
//
//	Generate.Run                 the argv assembly and the choice of the protoc path; the translated function
//	                             RETURNS (path, args) where the code starts exec.Command(path, args...).Run()
//	Generate.findProtos          `protoList := []string{}; err := filepath.WalkDir(dir, <callback>); return protoList, err`
//	                             with the callback as a function of (pathname, entry, incoming error, protoList)
//	                             returning the new protoList and nil / fs.SkipDir / the error
//	protoFileHasGoPackage        the line loop (os.Open + bufio.Scanner = the file's lines)
//
// A Go `string` is a value of a type parameter `S`; literals, `+`, `==` and everything the code takes
// from outside (strings.Cut/Contains, filepath.Abs/Rel/Dir/Join/Ext, gencommon.PackageNameFromPath,
// os.Open+bufio.Scanner, filepath.WalkDir) are fields of the parameter `Env S`.
//
// Fragment: `x := e`, `x = e`, `var x string`, `a, b, c := strings.Cut(s, lit)`, `append`, `[]string{…}`,
// `x, err := F(…)` / `x, err = F(…)` IMMEDIATELY followed by `if err != nil { return <zero values>, err }`
// (a monadic bind: the error leaves the function), a second such check with no assignment to err in
// between (dead code, dropped with a comment), `if / else if / else`, `for _, v := range <[]string>`,
// `continue`, `for scanner.Scan()` with `scanner.Text()`, `return`.  Anything else FAILS.
package main

import (
	"fmt"
	"go/ast"
	"go/parser"
	"go/token"
	"os"
	"path/filepath"
	"strconv"
	"strings"
)

func init() { register("gogenproto", "../lean/Generated/GoGogenproto.lean", runGogenproto) }

type gpt struct {
	out     strings.Builder
	env     []map[string]string // variable -> kind: str | bool | strs | err | file | scanner | entry
	fields  map[string]string   // field of Generate -> kind
	recv    string              // receiver variable of the current method ("" = none)
	mutObj  map[*ast.Object]bool
	n       int
	loops   int
	mode    string   // run | walkfn | scan
	zeros   []string // kinds of the results before the trailing error
	lineVar string   // inside `for scanner.Scan()`: the Lean variable holding scanner.Text()
	lines   map[string]string
}

func (t *gpt) fail(n ast.Node, format string, a ...any) {
	fail("gogenproto: %s: %s", at(n), fmt.Sprintf(format, a...))
}
func (t *gpt) line(ind int, s string) { t.out.WriteString(strings.Repeat("  ", ind) + s + "\n") }
func (t *gpt) push()                  { t.env = append(t.env, map[string]string{}) }
func (t *gpt) pop()                   { t.env = t.env[:len(t.env)-1] }
func (t *gpt) bind(n, k string)       { t.env[len(t.env)-1][n] = k }
func (t *gpt) lookup(n string) string {
	for i := len(t.env) - 1; i >= 0; i-- {
		if k, ok := t.env[i][n]; ok {
			return k
		}
	}
	return ""
}

func gpLeanType(k string) string {
	switch k {
	case "str":
		return "S"
	case "bool":
		return "Bool"
	case "strs":
		return "List S"
	}
	fail("gogenproto: no Lean type for kind %q", k)
	return ""
}

func gpKindOfType(e ast.Expr) string {
	switch src(e) {
	case "string":
		return "str"
	case "bool":
		return "bool"
	case "[]string":
		return "strs"
	case "error":
		return "err"
	case "fs.DirEntry":
		return "entry"
	}
	return ""
}

// a Go interpreted string literal of printable ASCII without escapes is the same Lean literal
func (t *gpt) strLit(x *ast.BasicLit) string {
	v, err := strconv.Unquote(x.Value)
	if err != nil || x.Value[0] != '"' {
		t.fail(x, "string literal %s", x.Value)
	}
	for _, c := range v {
		if c < 0x20 || c > 0x7e || c == '\\' || c == '"' {
			t.fail(x, "string literal %s has characters outside the translated fragment", x.Value)
		}
	}
	return `"` + v + `"`
}

func (t *gpt) kindOf(e ast.Expr) string {
	switch x := e.(type) {
	case *ast.ParenExpr:
		return t.kindOf(x.X)
	case *ast.Ident:
		if x.Name == "true" || x.Name == "false" {
			return "bool"
		}
		if k := t.lookup(x.Name); k != "" {
			return k
		}
	case *ast.BasicLit:
		if x.Kind == token.STRING {
			return "str"
		}
	case *ast.SelectorExpr:
		if id, ok := x.X.(*ast.Ident); ok && t.recv != "" && id.Name == t.recv {
			if k, ok := t.fields[x.Sel.Name]; ok {
				return k
			}
		}
	case *ast.UnaryExpr:
		if x.Op == token.NOT && t.kindOf(x.X) == "bool" {
			return "bool"
		}
	case *ast.BinaryExpr:
		switch x.Op {
		case token.EQL, token.NEQ, token.LAND, token.LOR:
			return "bool"
		case token.ADD:
			if t.kindOf(x.X) == "str" && t.kindOf(x.Y) == "str" {
				return "str"
			}
		}
	case *ast.CompositeLit:
		if x.Type != nil && src(x.Type) == "[]string" {
			return "strs"
		}
	case *ast.CallExpr:
		switch src(x.Fun) {
		case "append":
			return "strs"
		case "strings.Contains":
			return "bool"
		case "filepath.Dir", "filepath.Join", "filepath.Ext":
			return "str"
		}
		if sel, ok := x.Fun.(*ast.SelectorExpr); ok && len(x.Args) == 0 {
			if t.isEntry(sel.X) && (sel.Sel.Name == "IsDir") {
				return "bool"
			}
			if t.isEntry(sel.X) && sel.Sel.Name == "Name" {
				return "str"
			}
			if sel.Sel.Name == "IsRegular" {
				if c, ok := sel.X.(*ast.CallExpr); ok && len(c.Args) == 0 {
					if s2, ok := c.Fun.(*ast.SelectorExpr); ok && s2.Sel.Name == "Type" && t.isEntry(s2.X) {
						return "bool"
					}
				}
			}
			if id, ok := sel.X.(*ast.Ident); ok && t.lookup(id.Name) == "scanner" && sel.Sel.Name == "Text" && t.lineVar != "" {
				return "str"
			}
		}
	}
	t.fail(e, "expression `%s` is outside the translated fragment", src(e))
	return ""
}

func (t *gpt) isEntry(e ast.Expr) bool {
	id, ok := e.(*ast.Ident)
	return ok && t.lookup(id.Name) == "entry"
}

func (t *gpt) exprOf(e ast.Expr, want string) string {
	if k := t.kindOf(e); k != want {
		t.fail(e, "`%s` is a %s where a %s is needed", src(e), k, want)
	}
	return t.expr(e)
}

func (t *gpt) list(es []ast.Expr) string {
	var xs []string
	for _, e := range es {
		xs = append(xs, t.exprOf(e, "str"))
	}
	return "[" + strings.Join(xs, ", ") + "]"
}

func (t *gpt) expr(e ast.Expr) string {
	switch x := e.(type) {
	case *ast.ParenExpr:
		return t.expr(x.X)
	case *ast.Ident:
		if x.Name == "true" || x.Name == "false" {
			return x.Name
		}
		switch t.lookup(x.Name) {
		case "str", "bool", "strs":
			return name(x.Name)
		}
	case *ast.BasicLit:
		if x.Kind == token.STRING {
			return "(env.lit " + t.strLit(x) + ")"
		}
	case *ast.SelectorExpr:
		if id, ok := x.X.(*ast.Ident); ok && t.recv != "" && id.Name == t.recv {
			if _, ok := t.fields[x.Sel.Name]; ok {
				return name(t.recv) + "." + x.Sel.Name
			}
		}
	case *ast.UnaryExpr:
		if x.Op == token.NOT {
			return "(!" + t.exprOf(x.X, "bool") + ")"
		}
	case *ast.BinaryExpr:
		kx := t.kindOf(x.X)
		switch {
		case x.Op == token.ADD && kx == "str":
			return "(env.cat " + t.exprOf(x.X, "str") + " " + t.exprOf(x.Y, "str") + ")"
		case x.Op == token.EQL && kx == "str":
			return "(env.eq " + t.exprOf(x.X, "str") + " " + t.exprOf(x.Y, "str") + ")"
		case x.Op == token.NEQ && kx == "str":
			return "(!(env.eq " + t.exprOf(x.X, "str") + " " + t.exprOf(x.Y, "str") + "))"
		case x.Op == token.NEQ && kx == "err" && src(x.Y) == "nil":
			if id, ok := x.X.(*ast.Ident); ok {
				return name(id.Name) + ".isSome"
			}
		case x.Op == token.LAND && kx == "bool":
			return "(" + t.exprOf(x.X, "bool") + " && " + t.exprOf(x.Y, "bool") + ")"
		case x.Op == token.LOR && kx == "bool":
			return "(" + t.exprOf(x.X, "bool") + " || " + t.exprOf(x.Y, "bool") + ")"
		}
	case *ast.CompositeLit:
		if x.Type != nil && src(x.Type) == "[]string" {
			return t.list(x.Elts)
		}
	case *ast.CallExpr:
		switch src(x.Fun) {
		case "append":
			if len(x.Args) >= 2 {
				if x.Ellipsis.IsValid() {
					if len(x.Args) == 2 {
						return "(" + t.exprOf(x.Args[0], "strs") + " ++ " + t.exprOf(x.Args[1], "strs") + ")"
					}
				} else {
					return "(" + t.exprOf(x.Args[0], "strs") + " ++ " + t.list(x.Args[1:]) + ")"
				}
			}
		case "strings.Contains":
			if len(x.Args) == 2 {
				return "(env.stringsContains " + t.exprOf(x.Args[0], "str") + " " + t.exprOf(x.Args[1], "str") + ")"
			}
		case "filepath.Dir":
			if len(x.Args) == 1 {
				return "(env.filepathDir " + t.exprOf(x.Args[0], "str") + ")"
			}
		case "filepath.Ext":
			if len(x.Args) == 1 {
				return "(env.filepathExt " + t.exprOf(x.Args[0], "str") + ")"
			}
		case "filepath.Join":
			if len(x.Args) >= 1 && !x.Ellipsis.IsValid() {
				return "(env.filepathJoin " + t.list(x.Args) + ")"
			}
		}
		if sel, ok := x.Fun.(*ast.SelectorExpr); ok && len(x.Args) == 0 {
			k := t.kindOf(e) // fails unless it is one of the forms below
			_ = k
			switch sel.Sel.Name {
			case "IsDir":
				return name(src(sel.X)) + ".isDir"
			case "Name":
				return name(src(sel.X)) + ".name"
			case "IsRegular":
				return name(src(sel.X.(*ast.CallExpr).Fun.(*ast.SelectorExpr).X)) + ".isRegular"
			case "Text":
				return t.lineVar
			}
		}
	}
	t.fail(e, "expression `%s` is outside the translated fragment", src(e))
	return ""
}

// the external / translated functions that return (value, error)
func (t *gpt) fallible(call *ast.CallExpr) (lean string, kind string) {
	f := src(call.Fun)
	arg := func(i int, k string) string { return t.exprOf(call.Args[i], k) }
	switch {
	case f == "filepath.Abs" && len(call.Args) == 1:
		return "env.filepathAbs " + arg(0, "str"), "str"
	case f == "filepath.Rel" && len(call.Args) == 2:
		return "env.filepathRel " + arg(0, "str") + " " + arg(1, "str"), "str"
	case f == "gencommon.PackageNameFromPath" && len(call.Args) == 1:
		return "env.packageNameFromPath " + arg(0, "str"), "str"
	case t.recv != "" && f == t.recv+".findProtos" && len(call.Args) == 2:
		return "findProtos env " + name(t.recv) + " " + arg(0, "str") + " " + arg(1, "bool"), "strs"
	case f == "protoFileHasGoPackage" && len(call.Args) == 1:
		return "protoFileHasGoPackage env " + arg(0, "str"), "bool"
	case f == "os.Open" && len(call.Args) == 1 && t.mode == "scan":
		return "env.scanLines " + arg(0, "str"), "file"
	}
	t.fail(call, "call `%s` is outside the translated fragment", src(call))
	return "", ""
}

// `if err != nil { return <zero values>, err }`
func (t *gpt) isErrCheck(s ast.Stmt) bool {
	x, ok := s.(*ast.IfStmt)
	if !ok || x.Init != nil || x.Else != nil || src(x.Cond) != "err != nil" || len(x.Body.List) != 1 {
		return false
	}
	r, ok := x.Body.List[0].(*ast.ReturnStmt)
	if !ok || len(r.Results) != len(t.zeros)+1 || src(r.Results[len(r.Results)-1]) != "err" {
		return false
	}
	for i, k := range t.zeros {
		z := map[string]string{"bool": "false", "str": `""`, "strs": "nil"}[k]
		if src(r.Results[i]) != z {
			return false
		}
	}
	return true
}

func (t *gpt) isMut(id *ast.Ident) bool { return id.Obj != nil && t.mutObj[id.Obj] }

func (t *gpt) decl(ind int, id *ast.Ident, k, rhs string) {
	t.bind(id.Name, k)
	kw := "let "
	if t.isMut(id) {
		kw = "let mut "
	}
	t.line(ind, kw+name(id.Name)+" : "+gpLeanType(k)+" := "+rhs)
}

func (t *gpt) stmts(ind int, list []ast.Stmt) {
	if len(list) == 0 {
		fail("gogenproto: an empty block is outside the translated fragment")
	}
	for i := 0; i < len(list); i++ {
		s := list[i]
		// x, err := F(…) ; if err != nil { return …, err }
		if as, ok := s.(*ast.AssignStmt); ok && len(as.Lhs) == 2 && len(as.Rhs) == 1 && src(as.Lhs[1]) == "err" && t.mode != "walkfn" {
			if call, ok := as.Rhs[0].(*ast.CallExpr); ok {
				lean, k := t.fallible(call)
				if i+1 >= len(list) || !t.isErrCheck(list[i+1]) {
					t.fail(s, "`%s` is not followed by `if err != nil { return …, err }`", src(s))
				}
				id, ok := as.Lhs[0].(*ast.Ident)
				if !ok {
					t.fail(s, "`%s`", src(s))
				}
				switch {
				case as.Tok == token.DEFINE && k == "file":
					t.n++
					lv := fmt.Sprintf("lines%d", t.n)
					t.bind(id.Name, "file")
					t.lines[id.Name] = lv
					t.line(ind, "let "+lv+" ← "+lean)
				case as.Tok == token.DEFINE:
					if t.isMut(id) {
						t.fail(s, "`%s` is assigned again later", id.Name)
					}
					t.bind(id.Name, k)
					t.line(ind, "let "+name(id.Name)+" ← "+lean)
				case as.Tok == token.ASSIGN && t.lookup(id.Name) == k && k != "file":
					t.line(ind, name(id.Name)+" ← "+lean)
				default:
					t.fail(s, "`%s`", src(s))
				}
				t.bind("err", "errnil")
				i++
				continue
			}
		}
		if t.isErrCheck(s) && t.lookup("err") == "errnil" {
			t.line(ind, "-- `"+src(s)+"`: dead, err is nil here (checked above, not assigned since)")
			continue
		}
		t.stmt(ind, s, i == len(list)-1)
	}
}

func (t *gpt) stmt(ind int, s ast.Stmt, last bool) {
	switch x := s.(type) {
	case *ast.DeclStmt:
		if gd, ok := x.Decl.(*ast.GenDecl); ok && gd.Tok == token.VAR && len(gd.Specs) == 1 {
			vs := gd.Specs[0].(*ast.ValueSpec)
			if len(vs.Names) == 1 && len(vs.Values) == 0 && vs.Type != nil && src(vs.Type) == "string" {
				t.decl(ind, vs.Names[0], "str", `(env.lit "")`)
				return
			}
		}
	case *ast.AssignStmt:
		// a, b, c := strings.Cut(s, "lit")
		if x.Tok == token.DEFINE && len(x.Lhs) == 3 && len(x.Rhs) == 1 {
			if call, ok := x.Rhs[0].(*ast.CallExpr); ok && src(call.Fun) == "strings.Cut" && len(call.Args) == 2 {
				t.n++
				c := fmt.Sprintf("c%d", t.n)
				t.line(ind, "let "+c+" := env.stringsCut "+t.exprOf(call.Args[0], "str")+" "+t.exprOf(call.Args[1], "str"))
				for j, proj := range []string{".1", ".2.1", ".2.2"} {
					id, ok := x.Lhs[j].(*ast.Ident)
					if !ok {
						t.fail(s, "`%s`", src(s))
					}
					if id.Name == "_" {
						continue
					}
					t.decl(ind, id, []string{"str", "str", "bool"}[j], c+proj)
				}
				return
			}
		}
		if len(x.Lhs) == 1 && len(x.Rhs) == 1 {
			id, ok := x.Lhs[0].(*ast.Ident)
			if !ok {
				break
			}
			// `scanner := bufio.NewScanner(f)`: the scanner yields the lines of f
			if call, ok := x.Rhs[0].(*ast.CallExpr); ok && x.Tok == token.DEFINE && t.mode == "scan" && src(call.Fun) == "bufio.NewScanner" && len(call.Args) == 1 {
				if fid, ok := call.Args[0].(*ast.Ident); ok && t.lookup(fid.Name) == "file" {
					t.bind(id.Name, "scanner")
					t.lines[id.Name] = t.lines[fid.Name]
					return
				}
			}
			switch x.Tok {
			case token.DEFINE:
				k := t.kindOf(x.Rhs[0])
				r := t.expr(x.Rhs[0])
				t.decl(ind, id, k, r)
				return
			case token.ASSIGN:
				k := t.lookup(id.Name)
				if (k == "str" || k == "bool" || k == "strs") && t.isMut(id) {
					t.line(ind, name(id.Name)+" := "+t.exprOf(x.Rhs[0], k))
					return
				}
			}
		}
	case *ast.IfStmt:
		if x.Init != nil {
			break
		}
		t.line(ind, "if "+t.exprOf(x.Cond, "bool")+" then")
		t.push()
		t.stmts(ind+1, x.Body.List)
		t.pop()
		switch e := x.Else.(type) {
		case nil:
		case *ast.BlockStmt:
			t.line(ind, "else")
			t.push()
			t.stmts(ind+1, e.List)
			t.pop()
		case *ast.IfStmt:
			t.line(ind, "else")
			t.stmt(ind+1, e, false)
		default:
			t.fail(s, "else branch")
		}
		return
	case *ast.RangeStmt:
		key, okk := x.Key.(*ast.Ident)
		val, okv := x.Value.(*ast.Ident)
		if okk && okv && key.Name == "_" && val.Name != "_" && x.Tok == token.DEFINE && t.kindOf(x.X) == "strs" && t.mode == "run" {
			if t.isMut(val) {
				t.fail(s, "the loop variable is assigned in the body")
			}
			t.line(ind, "for "+name(val.Name)+" in "+t.expr(x.X)+" do")
			t.push()
			t.bind(val.Name, "str")
			t.loops++
			t.stmts(ind+1, x.Body.List)
			t.loops--
			t.pop()
			return
		}
	case *ast.ForStmt:
		// for scanner.Scan() { … }
		if x.Init == nil && x.Post == nil && x.Cond != nil && t.mode == "scan" && t.loops == 0 {
			if call, ok := x.Cond.(*ast.CallExpr); ok && len(call.Args) == 0 {
				if sel, ok := call.Fun.(*ast.SelectorExpr); ok && sel.Sel.Name == "Scan" {
					if id, ok := sel.X.(*ast.Ident); ok && t.lookup(id.Name) == "scanner" {
						t.lineVar = "line"
						t.line(ind, "for line in "+t.lines[id.Name]+" do")
						t.push()
						t.loops++
						t.stmts(ind+1, x.Body.List)
						t.loops--
						t.pop()
						t.lineVar = ""
						return
					}
				}
			}
		}
	case *ast.BranchStmt:
		if x.Tok == token.CONTINUE && x.Label == nil && t.loops > 0 {
			t.line(ind, "continue")
			return
		}
	case *ast.DeferStmt:
		// defer f.Close() on the opened file: nothing the translated function observes
		if sel, ok := x.Call.Fun.(*ast.SelectorExpr); ok && sel.Sel.Name == "Close" && len(x.Call.Args) == 0 {
			if id, ok := sel.X.(*ast.Ident); ok && t.lookup(id.Name) == "file" {
				return
			}
		}
	case *ast.ReturnStmt:
		switch t.mode {
		case "scan":
			if len(x.Results) == 2 && src(x.Results[1]) == "nil" && t.kindOf(x.Results[0]) == "bool" {
				t.line(ind, "return "+t.expr(x.Results[0]))
				return
			}
		case "walkfn":
			if len(x.Results) == 1 {
				switch src(x.Results[0]) {
				case "nil":
					t.line(ind, "return (protoList, WalkRet.nil)")
					return
				case "fs.SkipDir":
					t.line(ind, "return (protoList, WalkRet.skipDir)")
					return
				case "err":
					if t.lookup("err") == "err" {
						t.line(ind, "return (protoList, WalkRet.ofErr err)")
						return
					}
				}
			}
		}
	}
	t.fail(s, "statement `%s` is outside the translated fragment", src(s))
}

func gpParams(fd *ast.FuncType) string {
	var ps []string
	for _, p := range fd.Params.List {
		for _, n := range p.Names {
			ps = append(ps, n.Name+" "+src(p.Type))
		}
	}
	r := ""
	if fd.Results != nil {
		var rs []string
		for _, p := range fd.Results.List {
			if len(p.Names) > 0 {
				return "named results"
			}
			rs = append(rs, src(p.Type))
		}
		r = " -> " + strings.Join(rs, ", ")
	}
	return strings.Join(ps, ", ") + r
}

func endsInReturnOrFail(list []ast.Stmt) bool {
	return len(list) > 0 && endsInReturn(list[len(list)-1])
}

func runGogenproto(repo, out string) {
	file, err := parser.ParseFile(fset, filepath.Join(repo, "gogenproto/gen/generate.go"), nil, 0)
	if err != nil {
		fail("%v", err)
	}
	t := &gpt{fields: map[string]string{}, mutObj: map[*ast.Object]bool{}, lines: map[string]string{}}
	decls := map[string]*ast.FuncDecl{}
	var fieldOrder []string
	for _, d := range file.Decls {
		switch x := d.(type) {
		case *ast.GenDecl:
			if x.Tok != token.TYPE {
				continue
			}
			for _, sp := range x.Specs {
				ts := sp.(*ast.TypeSpec)
				st, ok := ts.Type.(*ast.StructType)
				if ts.Name.Name != "Generate" || !ok {
					continue
				}
				for _, f := range st.Fields.List {
					k := gpKindOfType(f.Type)
					if k != "str" && k != "bool" && k != "strs" {
						fail("gogenproto: field of Generate of type `%s`", src(f.Type))
					}
					for _, n := range f.Names {
						t.fields[n.Name] = k
						fieldOrder = append(fieldOrder, n.Name)
					}
				}
			}
		case *ast.FuncDecl:
			key := x.Name.Name
			if x.Recv != nil && len(x.Recv.List) == 1 {
				key = recvTypeName(x.Recv.List[0].Type) + "." + key
			}
			decls[key] = x
		}
	}
	if len(t.fields) == 0 {
		fail("gogenproto: struct Generate not found")
	}
	need := func(key, sig string) *ast.FuncDecl {
		fd := decls[key]
		if fd == nil || fd.Body == nil {
			fail("gogenproto: func %s not found", key)
		}
		if got := gpParams(fd.Type); got != sig {
			fail("gogenproto: %s has signature (%s), the translation assumes (%s)", key, got, sig)
		}
		if fd.Recv != nil {
			r := fd.Recv.List[0]
			if len(r.Names) != 1 || src(r.Type) != "Generate" {
				fail("gogenproto: %s: receiver `%s`", key, src(r.Type))
			}
		}
		// which declarations are assigned again
		ast.Inspect(fd.Body, func(n ast.Node) bool {
			if as, ok := n.(*ast.AssignStmt); ok && as.Tok != token.DEFINE {
				for _, l := range as.Lhs {
					if id, ok := l.(*ast.Ident); ok && id.Obj != nil {
						t.mutObj[id.Obj] = true
					}
				}
			}
			if as, ok := n.(*ast.AssignStmt); ok && as.Tok == token.DEFINE {
				// `x, err := …` re-using a variable of the same scope assigns it
				for _, l := range as.Lhs {
					if id, ok := l.(*ast.Ident); ok && id.Obj != nil && id.Obj.Decl != as && id.Name != "err" && id.Name != "_" {
						t.mutObj[id.Obj] = true
					}
				}
			}
			if ids, ok := n.(*ast.IncDecStmt); ok {
				fail("gogenproto: %s: `%s` is outside the translated fragment", at(ids), src(ids))
			}
			return true
		})
		return fd
	}

	var b strings.Builder
	b.WriteString("import Model.GoPrelude\n")
	b.WriteString("/-! REGENERATED on every run by harness/cmd/go2lean -spec gogenproto from gogenproto/gen/generate.go\n(`Generate.Run` up to exec.Command, `Generate.findProtos` with its WalkDir callback, `protoFileHasGoPackage`).\nDo not edit.  Each definition follows the Go function statement by statement.  A Go `string` is a value\nof the type parameter `S`; literals, `+`, `==` and every function taken from outside are fields of `Env S`.\n`x, err := F(…); if err != nil { return …, err }` is a bind in `Go.M` (the error leaves the function).\n`run` RETURNS the (path, args) that the code hands to exec.Command(path, args...).Run(). -/\n")
	b.WriteString("namespace Generated.GoGogenproto\n\n")
	b.WriteString("/-- `fs.DirEntry` as far as the callback looks at it: Name(), IsDir(), Type().IsRegular() -/\nstructure DirEntry (S : Type) where\n  name : S\n  isDir : Bool\n  isRegular : Bool\n\n")
	b.WriteString("/-- what the callback hands back to WalkDir: nil, fs.SkipDir, or an error -/\ninductive WalkRet where\n  | nil\n  | skipDir\n  | err (e : String)\nderiving DecidableEq, Repr\n\n")
	b.WriteString("/-- `return err` for an `err` that may be nil -/\ndef WalkRet.ofErr : Option String → WalkRet\n  | none => .nil\n  | some e => .err e\n\n")
	b.WriteString("/-- `type Generate struct` -/\nstructure Generate (S : Type) where\n")
	for _, f := range fieldOrder {
		fmt.Fprintf(&b, "  %s : %s\n", f, gpLeanType(t.fields[f]))
	}
	b.WriteString("\n/-- string primitives and the functions the code takes from outside -/\nstructure Env (S : Type) where\n" +
		"  lit : String → S\n  cat : S → S → S\n  eq : S → S → Bool\n" +
		"  stringsCut : S → S → S × S × Bool\n  stringsContains : S → S → Bool\n" +
		"  filepathAbs : S → Go.M S\n  filepathRel : S → S → Go.M S\n  filepathDir : S → S\n  filepathJoin : List S → S\n  filepathExt : S → S\n" +
		"  packageNameFromPath : S → Go.M S\n" +
		"  /-- os.Open + bufio.Scanner: the lines of the file -/\n  scanLines : S → Go.M (List S)\n" +
		"  /-- filepath.WalkDir(dir, fn): the callback gets (pathname, entry, incoming error) and the list its\n  closure has collected so far; the result is the final list and WalkDir's error -/\n" +
		"  walkDir : S → (S → DirEntry S → Option String → List S → Go.M (List S × WalkRet)) → List S →\n    Go.M (List S × Option String)\n\n")
	b.WriteString("variable {S : Type}\n\n")

	// ---- findProtos and its callback ----
	fp := need("Generate.findProtos", "dir string, recurse bool -> []string, error")
	recv := fp.Recv.List[0].Names[0].Name
	body := fp.Body.List
	shape := "gogenproto: findProtos is not `protoList := []string{}; err := filepath.WalkDir(dir, func…); return protoList, err`"
	if len(body) != 3 {
		fail(shape)
	}
	a0, ok0 := body[0].(*ast.AssignStmt)
	a1, ok1 := body[1].(*ast.AssignStmt)
	r2, ok2 := body[2].(*ast.ReturnStmt)
	if !ok0 || !ok1 || !ok2 || a0.Tok != token.DEFINE || len(a0.Lhs) != 1 || src(a0.Rhs[0]) != "[]string{}" ||
		a1.Tok != token.DEFINE || len(a1.Lhs) != 1 || src(a1.Lhs[0]) != "err" || len(a1.Rhs) != 1 || len(r2.Results) != 2 ||
		src(r2.Results[0]) != src(a0.Lhs[0]) || src(r2.Results[1]) != "err" {
		fail(shape)
	}
	acc := src(a0.Lhs[0])
	wcall, okc := a1.Rhs[0].(*ast.CallExpr)
	if !okc || src(wcall.Fun) != "filepath.WalkDir" || len(wcall.Args) != 2 || src(wcall.Args[0]) != "dir" {
		fail(shape)
	}
	cb, okf := wcall.Args[1].(*ast.FuncLit)
	if !okf || gpParams(cb.Type) != "pathname string, d fs.DirEntry, err error -> error" {
		fail("gogenproto: the WalkDir callback is not `func(pathname string, d fs.DirEntry, err error) error`")
	}
	if acc != "protoList" {
		fail("gogenproto: the collected list is called `%s`, the translation assumes `protoList`", acc)
	}
	// the callback may assign protoList only
	ast.Inspect(cb.Body, func(n ast.Node) bool {
		if as, ok := n.(*ast.AssignStmt); ok && as.Tok != token.DEFINE {
			for _, l := range as.Lhs {
				if src(l) != acc {
					fail("gogenproto: %s: the callback assigns `%s`", at(as), src(l))
				}
			}
		}
		if id, ok := n.(*ast.Ident); ok && id.Name == "dir" {
			fail("gogenproto: %s: the callback reads `dir`", at(id))
		}
		return true
	})
	if !endsInReturnOrFail(cb.Body.List) {
		fail("gogenproto: the WalkDir callback can fall off its end")
	}
	t.mode, t.recv, t.zeros = "walkfn", recv, nil
	t.env = nil
	t.push()
	t.bind("recurse", "bool")
	t.bind("pathname", "str")
	t.bind("d", "entry")
	t.bind("err", "err")
	t.bind(acc, "strs")
	t.out.Reset()
	t.line(1, "let mut protoList := protoList")
	t.stmts(1, cb.Body.List)
	fmt.Fprintf(&b, "/-- the callback `%s` of findProtos; `protoList` is the variable of the enclosing function it appends to -/\n", src(cb.Type))
	fmt.Fprintf(&b, "def findProtos_fn (env : Env S) (%s : Generate S) (recurse : Bool) (pathname : S) (d : DirEntry S)\n    (err : Option String) (protoList : List S) : Go.M (List S × WalkRet) := do\n%s\n", name(recv), t.out.String())
	fmt.Fprintf(&b, "/-- `%s` -/\n", src(&ast.FuncDecl{Recv: fp.Recv, Name: fp.Name, Type: fp.Type}))
	fmt.Fprintf(&b, "def findProtos (env : Env S) (%s : Generate S) (dir : S) (recurse : Bool) : Go.M (List S) := do\n", name(recv))
	b.WriteString("  let mut protoList : List S := []\n")
	fmt.Fprintf(&b, "  let w1 ← env.walkDir dir (findProtos_fn env %s recurse) protoList\n", name(recv))
	b.WriteString("  protoList := w1.1\n  let err : Option String := w1.2\n  match err with\n  | none => return protoList\n  | some e => throw e\n\n")

	// ---- protoFileHasGoPackage ----
	sc := need("protoFileHasGoPackage", "path string -> bool, error")
	t.mode, t.recv, t.zeros = "scan", "", []string{"bool"}
	t.env = nil
	t.push()
	t.bind("path", "str")
	t.out.Reset()
	if !endsInReturnOrFail(sc.Body.List) {
		fail("gogenproto: protoFileHasGoPackage can fall off its end")
	}
	t.stmts(1, sc.Body.List)
	fmt.Fprintf(&b, "/-- `%s` -/\n", src(&ast.FuncDecl{Name: sc.Name, Type: sc.Type}))
	fmt.Fprintf(&b, "def protoFileHasGoPackage (env : Env S) (path : S) : Go.M Bool := do\n%s\n", t.out.String())

	// ---- Run ----
	rn := need("Generate.Run", " -> error")
	recv = rn.Recv.List[0].Names[0].Name
	list := rn.Body.List
	// the tail: cmd := exec.Command(P, A...); cmd.X = …; return cmd.Run()
	k := -1
	for i, s := range list {
		if as, ok := s.(*ast.AssignStmt); ok && as.Tok == token.DEFINE && len(as.Lhs) == 1 && len(as.Rhs) == 1 {
			if call, ok := as.Rhs[0].(*ast.CallExpr); ok && src(call.Fun) == "exec.Command" {
				k = i
				break
			}
		}
	}
	if k < 0 {
		fail("gogenproto: Run has no top-level `cmd := exec.Command(path, args...)`")
	}
	cmdAs := list[k].(*ast.AssignStmt)
	cmdCall := cmdAs.Rhs[0].(*ast.CallExpr)
	cmdName := src(cmdAs.Lhs[0])
	if len(cmdCall.Args) != 2 || !cmdCall.Ellipsis.IsValid() {
		fail("gogenproto: %s: exec.Command is not called as (path, args...)", at(cmdCall))
	}
	for i := k + 1; i < len(list); i++ {
		s := list[i]
		if i == len(list)-1 {
			if r, ok := s.(*ast.ReturnStmt); ok && len(r.Results) == 1 && src(r.Results[0]) == cmdName+".Run()" {
				continue
			}
		} else if as, ok := s.(*ast.AssignStmt); ok && as.Tok == token.ASSIGN && len(as.Lhs) == 1 && len(as.Rhs) == 1 {
			l := src(as.Lhs[0])
			if (l == cmdName+".Stdout" || l == cmdName+".Stderr") && src(as.Rhs[0]) == "logPipe{}" {
				continue
			}
		}
		fail("gogenproto: %s: after exec.Command only `cmd.Stdout/Stderr = logPipe{}` and `return cmd.Run()` are translated: `%s`", at(s), src(s))
	}
	t.mode, t.recv, t.zeros = "run", recv, nil
	t.env = nil
	t.push()
	t.out.Reset()
	t.stmts(1, list[:k])
	t.line(1, "-- `"+src(list[k])+"` … `return "+cmdName+".Run()`")
	t.line(1, "return ("+t.exprOf(cmdCall.Args[0], "str")+", "+t.exprOf(cmdCall.Args[1], "strs")+")")
	fmt.Fprintf(&b, "/-- `%s`: the (path, args) of its exec.Command -/\n", src(&ast.FuncDecl{Recv: rn.Recv, Name: rn.Name, Type: rn.Type}))
	fmt.Fprintf(&b, "def run (env : Env S) (%s : Generate S) : Go.M (S × List S) := do\n%s\n", name(recv), t.out.String())

	b.WriteString("end Generated.GoGogenproto\n")
	if err := os.WriteFile(out, []byte(b.String()), 0o644); err != nil {
		fail("%v", err)
	}
	fmt.Printf("go2lean gogenproto: Run, findProtos (+ callback), protoFileHasGoPackage -> %s\n", out)
}

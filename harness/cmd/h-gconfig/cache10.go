package main

import "verif/harness/internal/hx"

type cacheState struct{}

func (g *gcImpl) execCache(ws []string) (string, bool) { return "", false }

func runC10(f *hx.Flags) {}

import Model.GoPrelude
import Model.Log
/-!
# Semantics of the Go fragment of `log/context_utils.go` / `log/custom_level.go` that
`harness/cmd/go2lean -spec log` translates (core Lean only)

Part of the trusted base of the obligations in `Properties/C18Tie.lean` ("translated definition =
hand-written model"): the translator (`harness/cmd/go2lean/log.go`) and these definitions stand
between the Go source and Lean.  What the package gets from outside is fixed here by the contract
`Model/Log.lean` already assumes:

* a `*zap.Logger` is its `zapcore.Core` (`Logger = Log.Core`); `zap.L()` reads `St.global`;
  `Logger.With`, `Logger.WithOptions(zap.WrapCore f)` and `Core.With` (the dynamic call on the core
  embedded in the wrapper) are the fields of the parameter `Zap`;
* a `context.Context`, as far as this package can tell, is what `ctx.Value(logHolderKey)` finds in
  it: `Ctx = Option Nat`, the address of a holder or nothing.  `context.WithValue(ctx, logHolderKey,
  lh)` is the context that finds `lh`; a `WithValue` with any other key finds what its parent finds;
* a `*logHolder` is `nil`, the address of a holder that some context can reach (`St.holders`), or a
  holder that was allocated (`&logHolder{}`) and is not reachable from any context yet (`tmp`).
  `context.WithValue(…, logHolderKey, lh)` makes `lh` reachable: the cell moves to `St.holders`
  and leaves a forwarding address behind, so that addresses in `St.holders` are exactly the model's.
  Unreachable holders are garbage; the obligations hold for every `tmp` and ignore it afterwards.
* `M = StateT State Go.M`: a nil dereference is an error value, so "the translated function equals
  `pure …`" also says that it does not panic.

Part 2 fixes the meaning of the per-goroutine step program into which `(*logHolder).update` is
translated: the `atomic.Pointer` operations are the visible operations, everything between two of
them is local to the goroutine.
-/
namespace LogRt
open Log

abbrev Logger := Core
abbrev Ctx := Option Nat
/-- `zapcore.Core`, `zapcore.Level`, `zap.Field` / `zapcore.Field` under names that cannot collide with a Go identifier -/
abbrev ZCore := Core
abbrev ZLevel := Level
abbrev ZField := Field

/-- `&customLevelCoreWrapper{Core: …, minLevel: …}` (the translator checks the struct declaration) -/
def mkWrapper (Core : ZCore) (minLevel : ZLevel) : ZCore := .custom Core minLevel

inductive Holder where
  | nil
  | addr (h : Nat)
  | tmp (k : Nat)
  deriving DecidableEq, Repr

inductive Cell where
  | empty                 -- `&logHolder{}`: nothing stored yet
  | holds (c : Core)
  | moved (h : Nat)       -- stored in a context since: lives at `St.holders[h]`
  deriving DecidableEq, Repr

structure State where
  st : St
  tmp : List Cell := []
  deriving DecidableEq, Repr

abbrev M := StateT State Go.M

/-- what this package uses of zap -/
structure Zap where
  /-- `logger.With(fields...)` -/
  loggerWith : Logger → List Field → Logger
  /-- `logger.WithOptions(zap.WrapCore(f))` -/
  withWrapCore : Logger → (Core → Core) → Logger
  /-- `core.With(fields)` on a `zapcore.Core` interface value (dynamic dispatch) -/
  coreWith : Core → List Field → Core

/-- the contract of `Model/Log.lean`; `F` as there -/
def zapModel (F : Bool) : Zap :=
  { loggerWith := Log.loggerWith F, withWrapCore := fun c f => f c, coreWith := Core.withC F }

/-- `zapcore.DebugLevel` -/
def DebugLevel : Level := debugLevel

/-- `zapcore.Entry` (only its level is read) -/
structure Entry where
  Level : Level

/-- `zap.L()` -/
def globalLogger : M Logger := fun s => pure (s.st.global, s)

/-- `&logHolder{}` -/
def newHolder : M Holder := fun s => pure (.tmp s.tmp.length, { s with tmp := s.tmp ++ [.empty] })

/-- the logger at a reachable holder (an address outside `holders` does not occur in a well-formed
state, `Log.WF`; the value is the model's choice) -/
def heapLoad (st : St) (h : Nat) : Logger := (st.holders[h]?).getD st.global

/-- `lh.Load()`; a holder nothing was stored in yields the nil logger, which every use in this
package dereferences or hands to the caller: failure -/
def load : Holder → M Logger
  | .nil => fun _ => throw "nil pointer dereference"
  | .addr h => fun s => pure (heapLoad s.st h, s)
  | .tmp k => fun s =>
    match s.tmp[k]? with
    | some (.holds c) => pure (c, s)
    | some (.moved h) => pure (heapLoad s.st h, s)
    | _ => throw "nil logger"

def heapStore (s : State) (h : Nat) (c : Logger) : State :=
  { s with st := { s.st with holders := s.st.holders.set h c } }

/-- `lh.Store(logger)` -/
def store : Holder → Logger → M Unit
  | .nil, _ => fun _ => throw "nil pointer dereference"
  | .addr h, c => fun s => pure ((), heapStore s h c)
  | .tmp k, c => fun s =>
    match s.tmp[k]? with
    | some (.moved h) => pure ((), heapStore s h c)
    | some _ => pure ((), { s with tmp := s.tmp.set k (.holds c) })
    | none => throw "dangling holder"

/-- `lh.CompareAndSwap(old, new)` in a sequential run: nothing happens between this goroutine's
`Load` and its `CompareAndSwap`; the comparison of the two pointers is the comparison of the
loggers they point to (equal whenever the pointers are).  Pointer identity proper is the subject
of part 2. -/
def cas (lh : Holder) (old new : Logger) : M Bool := do
  let cur ← load lh
  if cur == old then
    store lh new
    pure true
  else
    pure false

/-- `ctx.Value(logHolderKey).(*logHolder)` in its comma-ok form -/
def ctxHolder : Ctx → Holder × Bool
  | some h => (.addr h, true)
  | none => (.nil, false)

/-- `context.WithValue(ctx, logHolderKey, lh)` -/
def withHolder (_ctx : Ctx) : Holder → M Ctx
  | .nil => fun _ => throw "unmodelled: nil holder stored in a context"
  | .addr h => fun s => pure (some h, s)
  | .tmp k => fun s =>
    match s.tmp[k]? with
    | some (.holds c) =>
      pure (some s.st.holders.length,
        { st := { s.st with holders := s.st.holders ++ [c] }, tmp := s.tmp.set k (.moved s.st.holders.length) })
    | some (.moved h) => pure (some h, s)
    | _ => throw "unmodelled: holder without logger stored in a context"

/-- `for { body }`: the body yields `some r` when it executes `return r`, `none` when it reaches its
end (next iteration).  Lean needs a bound; the obligations hold for every bound ≥ 1. -/
def loop {ρ : Type} : Nat → M (Option ρ) → M ρ
  | 0, _ => throw "for {}: out of fuel"
  | n + 1, body => do
    match ← body with
    | some r => pure r
    | none => loop n body

/-! ## Part 2: step programs -/

/-- the body of a method on `*logHolder` in continuation form; `derive` is the function parameter
of `update`, loggers are heap addresses -/
inductive Prog where
  | fall                                    -- the end of the block is reached
  | ret                                     -- `return`
  | load (k : Nat → Prog)                   -- `lh.Load()`                      (visible)
  | cas (old new : Nat) (k : Bool → Prog)   -- `lh.CompareAndSwap(old, new)`    (visible)
  | store (new : Nat) (k : Prog)            -- `lh.Store(new)`                  (visible)
  | derive (p : Nat) (k : Nat → Prog)       -- `derive(p)`: local, may allocate a logger

/-- a function body: `for { body }` (`loop = true`) or `body` itself -/
structure StepProg where
  loop : Bool
  body : Prog

/-- what `derive` does for call `c` at the level of logger addresses: the contract's `Call.apply`,
allocating unless zap hands back the receiver (`Call.fresh`) -/
def deriveOf (F : Bool) (c : Call) (heap : List Core) (p : Nat) : List Core × Nat :=
  if c.fresh then (heap ++ [c.apply F ((heap[p]?).getD default)], heap.length) else (heap, p)

/-- local code up to the next visible operation -/
def advance (d : List Core → Nat → List Core × Nat) (heap : List Core) : Prog → List Core × Prog
  | .derive p k => advance d (d heap p).1 (k (d heap p).2)
  | q => (heap, q)

/-- … where the end of a loop body continues at its beginning, the end of a function body returns -/
def settle (P : StepProg) (d : List Core → Nat → List Core × Nat) (heap : List Core) (q : Prog) :
    List Core × Prog :=
  match advance d heap q with
  | (heap', .fall) => if P.loop then advance d heap' P.body else (heap', .ret)
  | r => r

structure GThread where
  cur : Option (Call × Prog) := none   -- the call in progress and what is left of it
  prog : List Call := []
  done : List Call := []

/-- local: begin the next call (or become idle).  The programs this is used for begin with a
visible operation. -/
def genter (P : StepProg) (t : GThread) : GThread :=
  match t.prog with
  | [] => { t with cur := none }
  | c :: p => { t with cur := some (c, P.body), prog := p }

/-- after the visible operation: local code; a `return` ends the call, which is recorded (ghost
`hist`, `done`) and followed by the entry into the next call -/
def after (P : StepProg) (F : Bool) (sh : Shared) (i : Nat) (t : GThread) (c : Call) (q : Prog)
    (l : Label) : Shared × GThread × Label :=
  match settle P (deriveOf F c) sh.heap q with
  | (heap', .ret) =>
    ({ sh with heap := heap', hist := sh.hist ++ [(i, c)] }, genter P { t with done := t.done ++ [c] }, l)
  | (heap', q') => ({ sh with heap := heap' }, { t with cur := some (c, q') }, l)

/-- one visible operation of goroutine `i`, then local code up to the next one -/
def gtstep (P : StepProg) (F : Bool) (sh : Shared) (i : Nat) (t : GThread) : Shared × GThread × Label :=
  match t.cur with
  | none => (sh, t, .none)
  | some (c, q) =>
    match q with
    | .load k => after P F sh i t c (k sh.ptr) .ptrRead
    | .cas old new k =>
      if sh.ptr == old then after P F { sh with ptr := new } i t c (k true) .ptrUpdate
      else after P F sh i t c (k false) .ptrUpdate
    | .store new k => after P F { sh with ptr := new } i t c k .ptrUpdate
    | _ => (sh, t, .none)

structure GCSt where
  sh : Shared
  threads : List GThread := []

def gcstep (P : StepProg) (F : Bool) (s : GCSt) (i : Nat) : GCSt :=
  match s.threads[i]? with
  | none => s
  | some t =>
    let r := gtstep P F s.sh i t
    { sh := r.1, threads := s.threads.set i r.2.1 }

def gcrun (P : StepProg) (F : Bool) (s : GCSt) (sched : List Nat) : GCSt := sched.foldl (gcstep P F) s

def gcinit (P : StepProg) (c0 : Core) (progs : List (List Call)) : GCSt :=
  { sh := { heap := [c0] }, threads := progs.map (fun p => genter P { prog := p }) }

end LogRt

import Model.GoPrelude
/-! REGENERATED on every run by harness/cmd/go2lean -spec gogenproto from gogenproto/gen/generate.go
(`Generate.Run` up to exec.Command, `Generate.findProtos` with its WalkDir callback, `protoFileHasGoPackage`).
Do not edit.  Each definition follows the Go function statement by statement.  A Go `string` is a value
of the type parameter `S`; literals, `+`, `==` and every function taken from outside are fields of `Env S`.
`x, err := F(…); if err != nil { return …, err }` is a bind in `Go.M` (the error leaves the function).
`run` RETURNS the (path, args) that the code hands to exec.Command(path, args...).Run(). -/
namespace Generated.GoGogenproto

/-- `fs.DirEntry` as far as the callback looks at it: Name(), IsDir(), Type().IsRegular() -/
structure DirEntry (S : Type) where
  name : S
  isDir : Bool
  isRegular : Bool

/-- what the callback hands back to WalkDir: nil, fs.SkipDir, or an error -/
inductive WalkRet where
  | nil
  | skipDir
  | err (e : String)
deriving DecidableEq, Repr

/-- `return err` for an `err` that may be nil -/
def WalkRet.ofErr : Option String → WalkRet
  | none => .nil
  | some e => .err e

/-- `type Generate struct` -/
structure Generate (S : Type) where
  InputDir : S
  ProtocPath : S
  Recurse : Bool
  VTProto : Bool
  GRPC : Bool
  Include : List S

/-- string primitives and the functions the code takes from outside -/
structure Env (S : Type) where
  lit : String → S
  cat : S → S → S
  eq : S → S → Bool
  stringsCut : S → S → S × S × Bool
  stringsContains : S → S → Bool
  filepathAbs : S → Go.M S
  filepathRel : S → S → Go.M S
  filepathDir : S → S
  filepathJoin : List S → S
  filepathExt : S → S
  packageNameFromPath : S → Go.M S
  /-- os.Open + bufio.Scanner: the lines of the file -/
  scanLines : S → Go.M (List S)
  /-- filepath.WalkDir(dir, fn): the callback gets (pathname, entry, incoming error) and the list its
  closure has collected so far; the result is the final list and WalkDir's error -/
  walkDir : S → (S → DirEntry S → Option String → List S → Go.M (List S × WalkRet)) → List S →
    Go.M (List S × Option String)

variable {S : Type}

/-- the callback `func(pathname string, d fs.DirEntry, err error) error` of findProtos; `protoList` is the variable of the enclosing function it appends to -/
def findProtos_fn (env : Env S) (g : Generate S) (recurse : Bool) (pathname : S) (d : DirEntry S)
    (err : Option String) (protoList : List S) : Go.M (List S × WalkRet) := do
  let mut protoList := protoList
  if ((err.isSome || (env.eq pathname (env.lit "."))) || (env.eq pathname g.InputDir)) then
    return (protoList, WalkRet.ofErr err)
  else
    if (d.isDir && (!recurse)) then
      return (protoList, WalkRet.skipDir)
  if d.isRegular then
    if (env.eq (env.filepathExt d.name) (env.lit ".proto")) then
      protoList := (protoList ++ [pathname])
  return (protoList, WalkRet.nil)

/-- `func (g Generate) findProtos(dir string, recurse bool) ([]string, error)` -/
def findProtos (env : Env S) (g : Generate S) (dir : S) (recurse : Bool) : Go.M (List S) := do
  let mut protoList : List S := []
  let w1 ← env.walkDir dir (findProtos_fn env g recurse) protoList
  protoList := w1.1
  let err : Option String := w1.2
  match err with
  | none => return protoList
  | some e => throw e

/-- `func protoFileHasGoPackage(path string) (bool, error)` -/
def protoFileHasGoPackage (env : Env S) (path : S) : Go.M Bool := do
  let lines1 ← env.scanLines path
  -- `if err != nil { return false, err }`: dead, err is nil here (checked above, not assigned since)
  for line in lines1 do
    if (env.stringsContains line (env.lit "option go_package =")) then
      return true
  return false

/-- `func (g Generate) Run() error`: the (path, args) of its exec.Command -/
def run (env : Env S) (g : Generate S) : Go.M (S × List S) := do
  let paths ← findProtos env g g.InputDir g.Recurse
  let mut args : List S := [(env.lit "--go_out=."), (env.lit "--go_opt=paths=source_relative"), (env.lit "--fatal_warnings")]
  if g.VTProto then
    args := (args ++ [(env.lit "--go-vtproto_out=."), (env.lit "--go-vtproto_opt=paths=source_relative,features=marshal+unmarshal+size+equal+clone+pool")])
  if g.GRPC then
    args := (args ++ [(env.lit "--go-grpc_out=."), (env.lit "--go-grpc_opt=paths=source_relative")])
  let includePaths : List S := ([g.InputDir] ++ g.Include)
  for pathAndMaybePkg in includePaths do
    let c2 := env.stringsCut pathAndMaybePkg (env.lit "=")
    let path : S := c2.1
    let pkgPrefix : S := c2.2.1
    let hasPkgPrefix : Bool := c2.2.2
    let includePath ← env.filepathAbs path
    args := (args ++ [(env.cat (env.lit "-I=") includePath)])
    let protoImportPaths ← findProtos env g includePath true
    for path in protoImportPaths do
      let hasGoPackage ← protoFileHasGoPackage env path
      if hasGoPackage then
        continue
      let relPath ← env.filepathRel includePath path
      let mut pkg : S := (env.lit "")
      if hasPkgPrefix then
        pkg := (env.filepathJoin [pkgPrefix, (env.filepathDir relPath)])
      else
        pkg ← env.packageNameFromPath (env.filepathDir path)
      let mapping : S := (env.cat (env.cat relPath (env.lit "=")) pkg)
      args := (args ++ [(env.cat (env.lit "--go_opt=M") mapping)])
      if g.VTProto then
        args := (args ++ [(env.cat (env.lit "--go-vtproto_opt=M") mapping)])
      if g.GRPC then
        args := (args ++ [(env.cat (env.lit "--go-grpc_opt=M") mapping)])
  args := (args ++ paths)
  let mut path : S := (env.lit "protoc")
  if (!(env.eq g.ProtocPath (env.lit ""))) then
    path := g.ProtocPath
  -- `cmd := exec.Command(path, args...)` … `return cmd.Run()`
  return (path, args)

end Generated.GoGogenproto

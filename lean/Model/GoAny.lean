import Model.GoPrelude
import Model.GConfig
/-!
# Dynamic values for translated gconfig code (`harness/cmd/go2lean -spec gconfigextract`)

In the translated code a Go `any` holding part of a loaded document is the model's document type
`GConfig.Y` (the nil interface is `Y.null`: yaml.v3 decodes a null to nil), and a `map[string]any`
is an association list (the nil map has no keys).  The two comma-ok forms:
-/
namespace GoAny
open GConfig

/-- `v, ok = m[k]` on a `map[string]any` -/
def amapGet (m : List (String × Y)) (k : String) : Y × Bool :=
  match lookupKey m k with
  | some y => (y, true)
  | none => (Y.null, false)

/-- `m, ok = v.(map[string]any)`: on failure the zero value, the nil map -/
def asMap : Y → List (String × Y) × Bool
  | .map kvs => (kvs, true)
  | _ => ([], false)

/-- `m[k] = v` on a `map[string]any`: the entry of an existing key is replaced in place (the walk
order of the other entries is untouched), a new key is added (at the end: any position would do, the
theorems quantify over all orders) -/
def amapSet (m : List (String × Y)) (k : String) (v : Y) : List (String × Y) :=
  match m with
  | [] => [(k, v)]
  | (k', v') :: rest => if k' == k then (k', v) :: rest else (k', v') :: amapSet rest k v

/-- Go `error` in translated gconfig code: `nil` is `none`, any error value is `some ()` - WHICH
error it is (type, message, arguments) is not modelled; the translated fragment only ever tests
`err != nil` / `err == nil` and hands errors on -/
abbrev Err := Option Unit

end GoAny

package xt

import (
	"github.com/drshriveer/gtools/gerror"
)

// NumTypes is the number of extension types (type numbers 0..NumTypes-1 of the protocol).
const NumTypes = 3

// Value is what every gerror error value is: an Error that is also a Factory.
type Value interface {
	gerror.Error
	gerror.Factory
}

// NewRoot builds a root error of extension type ty; marked = wrapped in gerror.FactoryOf.
func NewRoot(ty int, name string, marked bool) Value {
	switch ty {
	case 0:
		e := &PlainErr{GError: gerror.GError{Name: name, Message: "plain " + name}}
		if marked {
			gerror.FactoryOf(e)
		}
		return e
	case 1:
		e := &FieldErr{GError: gerror.GError{Name: name, Message: "field " + name}, Code: 7, Note: "n", Tenant: "t", hidden: []string{"h"}}
		if marked {
			gerror.FactoryOf(e)
		}
		return e
	case 2:
		e := &CustomErr{GError: gerror.GError{Name: name}, Status: 3}
		if marked {
			gerror.FactoryOf(e)
		}
		return e
	}
	return nil
}

// TypeOf returns the protocol's type number of an extension value, -1 for *gerror.GError, -2 otherwise.
func TypeOf(err error) int {
	switch err.(type) {
	case *gerror.GError:
		return -1
	case *PlainErr:
		return 0
	case *FieldErr:
		return 1
	case *CustomErr:
		return 2
	}
	return -2
}

// Embedded returns the (embedded) *GError of a gerror value, nil for anything else.
func Embedded(err error) *gerror.GError {
	switch e := err.(type) {
	case *gerror.GError:
		return e
	case *PlainErr:
		return &e.GError
	case *FieldErr:
		return &e.GError
	case *CustomErr:
		return &e.GError
	}
	return nil
}

import Model.GenOrder
import Driver.Util
/-! Line protocol for `Model/GenOrder` (area prefix `go_`, stateless).

  go_ reuse <definition>                 -> same      (Parse+Write repeated on ONE generator value, also after a
                                                      failed Parse, writes what a separate process writes)
  go_ repeat <k>                         -> same      (k generations write identical bytes)
  go_ inproc <definition>                -> same      (generated inside a process that generated other
                                                      definitions before = generated in a process of its own)
  go_ gsort order <Type/rawSorter>*      -> sorter type names in output order (sorted by (type, raw name), `*` stripped)
  go_ gerror fields <Name:flags>*        -> clone=<names in output order> print=<…>   (flags: letters c, p or -)
  go_ genum values <value:Name>*         -> names in output order (sorted by (value, name))
-/
namespace Drv.GO
open GenOrder

def pairLe (a b : String × String) : Bool := a.1 < b.1 || (a.1 == b.1 && a.2 ≤ b.2)
def natStrLe (a b : Nat × String) : Bool := a.1 < b.1 || (a.1 == b.1 && a.2 ≤ b.2)

def split2 (sep : String) (s : String) : Option (String × String) :=
  match s.splitOn sep with
  | [a, b] => some (a, b)
  | _ => none

def stripStar (s : String) : String := if s.startsWith "*" then (s.drop 1).toString else s

def show' (xs : List String) : String := if xs.isEmpty then "-" else joinSp xs
def commas (xs : List String) : String := if xs.isEmpty then "-" else ",".intercalate xs

def handle (ws : List String) : String :=
  match ws with
  | ["repeat", _] => "same"
  | "inproc" :: _ => "same"
  | "reuse" :: _ => "same"
  | "gsort" :: "order" :: rest =>
    match rest.mapM (split2 "/") with
    | some ps =>
      let descs : List SorterDesc := ps.map fun p => ⟨p.1, p.2, []⟩
      let out := gsortOutput (fun l => l.mergeSort (fun a b => pairLe a.key b.key)) [descs]
      show' (out.map fun d => stripStar d.sortTypeName)
    | none => "bad-op"
  | "gerror" :: "fields" :: rest =>
    match rest.mapM (split2 ":") with
    | some fs =>
      let sorted := sortedBy (fun l => l.mergeSort (fun a b : String × String => decide (a.1 ≤ b.1))) fs
      let pick (c : Char) := (sorted.filter fun f => f.2.toList.contains c).map (·.1)
      s!"clone={commas (pick 'c')} print={commas (pick 'p')}"
    | none => "bad-op"
  | "genum" :: "values" :: rest =>
    match rest.mapM (fun w => (split2 ":" w).bind fun p => p.1.toNat?.map (·, p.2)) with
    | some vs => show' ((sortedBy (fun l => l.mergeSort natStrLe) vs).map (·.2))
    | none => "bad-op"
  | _ => "bad-op"

end Drv.GO

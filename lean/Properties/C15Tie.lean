import Lemmas.GoCloneBase
import Model.GErrClone
import Properties.C15
/-!
# C15 (and C09), tie A by translation: `gerror.CloneBase` as translated on this run = the model

For every base error, every stack type, all string arguments and all call-site frames, the
translated `CloneBase` returns - on the five fields the property talks about (name, message,
source, detail tag, stack) - exactly what the hand-written model `GErrClone.cloneBase` returns, and
it does not panic.  The stack capture and `strings.TrimSpace` are parameters of the translation
(`Env`); they are instantiated with the model's own definitions (`envOf`), i.e. this theorem ties
the CONTROL FLOW and field updates of `CloneBase` to the model, not the runtime's stack walk.
A change to `CloneBase`, to the fields of `GError` or to the `StackType` constants changes the
generated definitions, and these proofs are re-checked against it.
-/
set_option linter.unusedSectionVars false
namespace C15Tie
open Generated.GoCloneBase GoCloneBase

variable {ι : Type} [DecidableEq ι]

open GErrClone

/-- the stack capture as the model sees it: the frames at the call site -/
def envOf (fr : Frames) : Env (List Str) where
  trimSpace := trimSpace
  makeStack := fun n => fr.toList.take n
  stackLen := List.length
  nilStack := []
  nearestExternalMetric := fun s => metric (nearestExternal s)

/-- the five fields C15/C09 talk about -/
def proj (g : GError ι (List Str)) : E :=
  { name := g.Name, msg := g.Message, src := g.Source, dtag := g.detailTag, stack := g.stack }

theorem proj_phSource (c : GError ι (List Str)) (s : Str) : proj (phSource c s) = withSource (proj c) s := by
  unfold phSource withSource
  by_cases h1 : s = [] <;> by_cases h2 : c.Source = [] <;> simp [h1, h2, proj, Go.str]

theorem proj_phDTag (c : GError ι (List Str)) (d : Str) : proj (phDTag c d) = withDTag (proj c) d := by
  unfold phDTag withDTag
  by_cases h1 : d = [] <;> by_cases h2 : c.detailTag = [] <;> simp [h1, h2, proj, Go.str]

theorem proj_phMsg (c : GError ι (List Str)) (e : Str) : proj (phMsg c (trimSpace e)) = withMsg (proj c) e := by
  unfold phMsg withMsg
  by_cases h1 : trimSpace e = [] <;> by_cases h2 : c.Message = [] <;> simp [h1, h2, proj, Go.str]

theorem proj_phRef (inil err : ι) (base c : GError ι (List Str)) : proj (phRef inil err base c) = proj c := by
  unfold phRef; split <;> rfl

theorem proj_phSrcErr (inil e : ι) (base c : GError ι (List Str)) : proj (phSrcErr inil e base c) = proj c := by
  unfold phSrcErr; split <;> rfl

theorem proj_stack (fr : Frames) (c : GError ι (List Str)) (st : StackType) :
    proj (if skipStack (envOf fr) c st.depth then c else phStack (envOf fr) c st.depth) = withStack (proj c) st fr := by
  unfold skipStack phStack withStack
  rcases h1 : c.stack with _ | ⟨x, xs⟩ <;> by_cases h2 : c.Source = [] <;> cases st <;>
    simp [h1, h2, proj, Go.str, envOf, makeStack, NoStack, SourceStack, StackType.depth]

theorem go_cloneBase_strings (inil err baseRef srcError : ι) (base : GError ι (List Str))
    (st : StackType) (dTag source extMsg : Str) (fr : Frames) :
    proj <$> CloneBase (envOf fr) inil err base baseRef st.depth dTag source extMsg srcError
      = pure (cloneBase (proj base) st dTag source extMsg fr) := by
  rw [go_cloneBase_pure]
  simp only [map_pure]
  congr 1
  unfold pureCB cloneBase
  simp only []
  rw [proj_stack, proj_phSrcErr, proj_phRef]
  show withStack (proj (phMsg _ (trimSpace extMsg))) st fr = _
  rw [proj_phMsg, proj_phDTag, proj_phSource]
  rfl

/-- the constants the model's `StackType.depth` uses are the ones declared in stack.go -/
theorem go_stackType_constants :
    StackType.noStack.depth = NoStack ∧ StackType.sourceStack.depth = SourceStack ∧
    StackType.shortStack.depth = ShortStack ∧ StackType.defaultStack.depth = DefaultStack := by
  decide

end C15Tie

import Model.GoXsync
import Generated.GoGConfigExtract
/-! REGENERATED on every run by harness/cmd/go2lean -spec gconfigget from gconfig/config.go (extractAndConvert,
getFromCache, Get, MustGet, GetOrDefault).  Do not edit.  One Lean statement per Go statement.  A value of type T or
`any` is a `GConfigCache.TV`, an `error` is the Bool "is not nil", the type parameter T is a `GoXsync.TyDesc`, the
memo table `cfg.cached` is threaded through as `cached` (returned first), `cfg.data` is `data`.  `extract` is the
TRANSLATED one (Generated/GoGConfigExtract.lean).  xsync's Compute and `v.(T)`: Model/GoXsync.lean. -/
namespace Generated.GoGConfigGet
open GConfigCache GoXsync

/-- what the translated functions take from outside: strings.Split(·, "."), yaml.Marshal (bytes, error),
yaml.Unmarshal(bytes, &result) (the new contents of result, error), the zero value of T -/
structure Env where
  split : String → List String
  marshal : GConfig.Y → String × Bool
  unmarshal : TyDesc → String → TV → TV × Bool
  zero : TyDesc → TV

/-- `func extractAndConvert[T any](m map[string]any, key string) (T, error)` -/
def extractAndConvert (env : Env) (T : TyDesc) (m : List (String × GConfig.Y)) (key : String) : Go.M (TV × Bool) := do
  let paths : List String := env.split key
  let mut result : TV := (env.zero T)
  let p1 ← Generated.GoGConfigExtract.extract m paths
  let mut v : GConfig.Y := p1.1
  let mut ok : Bool := p1.2
  if (!ok) then
    return (result, true)
  let p2 := env.marshal v
  let mut bytes : String := p2.1
  let mut err : Bool := p2.2
  if err then
    return (result, true)
  let p3 := env.unmarshal T bytes result
  result := p3.1
  err := p3.2
  if err then
    return (result, true)
  return (result, false)

/-- `func getFromCache[T any](cfg *Config, key string) (T, error)` -/
def getFromCache (env : Env) (T : TyDesc) (data : List (String × GConfig.Y)) (cached : Cache (String × String)) (key : String) : Go.M (Cache (String × String) × (TV × Bool)) := do
  let mut cached := cached
  let mut err : Bool := false
  let mut r : TV := env.zero T
  let mut k : String × String := (key, T.name)
  let c1 ← GoXsync.compute cached k err (fun oldValue0 loaded st0 => do
    let mut oldValue : TV := oldValue0
    let mut err : Bool := st0
    if loaded then
      return ((oldValue, false), err)
    let p2 ← extractAndConvert env T data key
    oldValue := p2.1
    err := p2.2
    if err then
      return ((oldValue, true), err)
    return ((oldValue, false), err)
    )
  cached := c1.1
  let mut v : TV := c1.2.1.1
  err := c1.2.2
  if err then
    return (cached, (r, true))
  if (GoXsync.isNil v) then
    return (cached, (r, false))
  let a3 ← GoXsync.assertTo T v
  return (cached, (a3, false))

/-- `func Get[T any](cfg *Config, key string) (T, error)` -/
def Get (env : Env) (T : TyDesc) (data : List (String × GConfig.Y)) (cached : Cache (String × String)) (key : String) : Go.M (Cache (String × String) × (TV × Bool)) := do
  let mut cached := cached
  getFromCache env T data cached key

/-- `func MustGet[T any](cfg *Config, key string) T` -/
def MustGet (env : Env) (T : TyDesc) (data : List (String × GConfig.Y)) (cached : Cache (String × String)) (key : String) : Go.M (Cache (String × String) × TV) := do
  let mut cached := cached
  let p1 ← getFromCache env T data cached key
  cached := p1.1
  let mut v : TV := p1.2.1
  let mut err : Bool := p1.2.2
  if err then
    throw "panic(err)"
  return (cached, v)

/-- `func GetOrDefault[T any](cfg *Config, key string, defaultV T) T` -/
def GetOrDefault (env : Env) (T : TyDesc) (data : List (String × GConfig.Y)) (cached : Cache (String × String)) (key : String) (defaultV : TV) : Go.M (Cache (String × String) × TV) := do
  let mut cached := cached
  let p1 ← getFromCache env T data cached key
  cached := p1.1
  let mut v : TV := p1.2.1
  let mut err : Bool := p1.2.2
  if err then
    return (cached, defaultV)
  return (cached, v)

end Generated.GoGConfigGet

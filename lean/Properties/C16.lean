import Model.EnvTmpl
/-!
# C16 — gconfig: env templates resolve exactly and only on selected branches

Part 1 (strings): the hand-written matcher that denotes the anchored pattern accepts exactly the
documented grammar, with exactly the documented captures — for ALL strings (`match_iff_grammar`);
hence `MatchAndResolve` does what the property says in each of its four cases.
Part 2 (documents): `parseTemplatedElements` is the pointwise lift of `MatchAndResolve`, and its
composition with the dimension reduction looks only at the selected branches.
-/
namespace EnvTmpl

/-! ### list lemmas -/

theorem stripPrefix_eq_some (p s r : Str) : stripPrefix p s = some r ↔ s = p ++ r := by
  induction p generalizing s with
  | nil => simp [stripPrefix, eq_comm]
  | cons a p ih =>
    cases s with
    | nil => simp [stripPrefix]
    | cons c cs =>
      by_cases h : a = c
      · subst h; simp [stripPrefix, ih]
      · simp [stripPrefix, h]; intro e; exact absurd e.symm h

theorem stripSuffix_eq_some (suf l body : Str) : stripSuffix suf l = some body ↔ l = body ++ suf := by
  unfold stripSuffix
  constructor
  · intro h
    cases hs : stripPrefix suf.reverse l.reverse with
    | none => simp [hs] at h
    | some r =>
      simp [hs] at h
      have := (stripPrefix_eq_some _ _ _).1 hs
      have h2 := congrArg List.reverse this
      simp at h2
      rw [h2, h]
  · intro h
    have : stripPrefix suf.reverse l.reverse = some body.reverse := by
      rw [stripPrefix_eq_some, h]; simp
    simp [this]

/-- a run of `p`-characters followed by a text that does not start with one is split uniquely -/
theorem span_append (p : Char → Bool) (a b : Str) (ha : ∀ c ∈ a, p c = true)
    (hb : ∀ c, b.head? = some c → p c = false) :
    (a ++ b).dropWhile p = b ∧ (a ++ b).takeWhile p = a := by
  induction a with
  | nil =>
    cases b with
    | nil => simp
    | cons c t => have := hb c rfl; simp [this]
  | cons x a ih =>
    have hx : p x = true := ha x (by simp)
    have := ih (fun c hc => ha c (by simp [hc]))
    simp [hx, this]

theorem span_self (p : Char → Bool) (l : Str) :
    (∀ c ∈ l.takeWhile p, p c = true) ∧ l = l.takeWhile p ++ l.dropWhile p ∧
      (∀ c, (l.dropWhile p).head? = some c → p c = false) := by
  refine ⟨?_, (List.takeWhile_append_dropWhile).symm, ?_⟩
  · induction l with
    | nil => simp
    | cons x l ih =>
      by_cases hx : p x = true
      · intro c hc; simp [List.takeWhile, hx] at hc
        rcases hc with hc | hc
        · subst hc; exact hx
        · exact ih c hc
      · simp [List.takeWhile, hx]
  · induction l with
    | nil => simp
    | cons x l ih =>
      by_cases hx : p x = true
      · simpa [List.dropWhile, hx] using ih
      · intro c; simp [List.dropWhile, hx]; intro e; subst e; simpa using hx

theorem trimRight_spec (p : Char → Bool) (l : Str) :
    ∃ t, (∀ c ∈ t, p c = true) ∧ l = trimRight p l ++ t ∧
      (∀ c, (trimRight p l).getLast? = some c → p c = false) := by
  obtain ⟨h1, h2, h3⟩ := span_self p l.reverse
  refine ⟨(l.reverse.takeWhile p).reverse, ?_, ?_, ?_⟩
  · intro c hc; exact h1 c (by simpa using hc)
  · have : l.reverse.reverse = (l.reverse.takeWhile p ++ l.reverse.dropWhile p).reverse := by
      rw [List.takeWhile_append_dropWhile]
    rw [List.reverse_reverse, List.reverse_append] at this
    exact this
  · intro c hc
    apply h3 c
    simpa [trimRight, List.getLast?_reverse] using hc

theorem trimRight_unique (p : Char → Bool) (d t : Str) (ht : ∀ c ∈ t, p c = true)
    (hd : ∀ c, d.getLast? = some c → p c = false) : trimRight p (d ++ t) = d := by
  unfold trimRight
  have := (span_append p t.reverse d.reverse (by intro c hc; exact ht c (by simpa using hc))
    (by intro c hc; exact hd c (by simpa [List.head?_reverse] using hc))).1
  simp [this]

/-! ### character facts -/

theorem ws_not_word (c : Char) (h : isWs c = true) : isWord c = false := by
  simp [isWs] at h
  rcases h with (((h | h) | h) | h) | h <;> subst h <;> decide

theorem allWs_head_not_word (w rest : Str) (hw : AllWs w)
    (hr : ∀ c, rest.head? = some c → isWord c = false) :
    ∀ c, (w ++ rest).head? = some c → isWord c = false := by
  intro c hc
  cases w with
  | nil => exact hr c (by simpa using hc)
  | cons x w => simp at hc; subst hc; exact ws_not_word _ (hw _ (by simp))

theorem head?_append_of_ne_nil (d rest : Str) (h : d ≠ []) : (d ++ rest).head? = d.head? := by
  cases d with
  | nil => exact absurd rfl h
  | cons x d => rfl

/-! ### the tail of the pattern -/

theorem matchTail_none_iff (r5 : Str) :
    matchTail r5 = some none ↔ ∃ w3, AllWs w3 ∧ r5 = w3 ++ closeB := by
  constructor
  · intro h
    unfold matchTail at h
    split at h
    · split at h
      · simp at h
      · dsimp only at h
        split at h <;> simp at h
    · rename_i r6 _
      split at h
      · rename_i hc
        obtain ⟨h1, h2, _⟩ := span_self isWs r5
        exact ⟨r5.takeWhile isWs, h1, by rw [← hc]; exact h2⟩
      · simp at h
  · rintro ⟨w3, hw, rfl⟩
    have := (span_append isWs w3 closeB hw (by intro c hc; simp [closeB] at hc; subst hc; decide)).1
    unfold matchTail
    rw [this]
    simp [closeB]

theorem matchTail_some_iff (r5 d : Str) :
    matchTail r5 = some (some d) ↔ IsDefault d ∧ ∃ w3 w4 w5, AllWs w3 ∧ AllWs w4 ∧ AllWs w5 ∧
      r5 = w3 ++ '|' :: (w4 ++ (d ++ (w5 ++ closeB))) := by
  constructor
  · intro h
    unfold matchTail at h
    split at h
    · rename_i r7 hr
      split at h
      · simp at h
      · rename_i body hb
        rw [stripSuffix_eq_some] at hb
        dsimp only at h
        split at h
        · simp at h
        · rename_i hcond
          simp at h
          simp at hcond
          obtain ⟨hne, hnl⟩ := hcond
          obtain ⟨t, ht, hbody, hlast⟩ := trimRight_spec isWs body
          obtain ⟨h1, h2, _⟩ := span_self isWs r5
          obtain ⟨k1, k2, k3⟩ := span_self isWs r7
          rw [h] at hne hnl hbody hlast
          refine ⟨⟨hne, ?_, ?_, hlast⟩, r5.takeWhile isWs, r7.takeWhile isWs, t, h1, k1, ht, ?_⟩
          · intro c hc e; subst e; exact hnl hc
          · intro c hc
            apply k3 c
            rw [hb, hbody, List.append_assoc, head?_append_of_ne_nil _ _ hne]; exact hc
          · rw [hr] at h2
            rw [h2]
            congr 2
            rw [← List.append_assoc d, ← hbody, ← hb]
            exact k2
    · split at h <;> simp at h
  · rintro ⟨⟨hne, hnl, hhead, hlast⟩, w3, w4, w5, h3, h4, h5, rfl⟩
    have e1 := (span_append isWs w3 ('|' :: (w4 ++ (d ++ (w5 ++ closeB)))) h3
      (by intro c hc; simp at hc; subst hc; decide)).1
    have e2 := (span_append isWs w4 (d ++ (w5 ++ closeB)) h4
      (by intro c hc
          rw [head?_append_of_ne_nil _ _ hne] at hc; exact hhead c hc)).1
    have e3 : stripSuffix closeB (d ++ (w5 ++ closeB)) = some (d ++ w5) := by
      rw [stripSuffix_eq_some, List.append_assoc]
    have e4 := trimRight_unique isWs d w5 h5 hlast
    have e5 : (d.isEmpty || d.contains '\n') = false := by
      simp [hne]; intro hc; exact hnl _ hc rfl
    unfold matchTail
    rw [e1]
    simp only [e2, e3, e4, e5]
    simp

/-! ### the head of the pattern -/

theorem word_not_ws (c : Char) (h : isWord c = true) : isWs c = false := by
  cases hw : isWs c with
  | false => rfl
  | true => rw [ws_not_word c hw] at h; exact absurd h (by simp)

theorem matchWith_eq_some_iff (tail : Str → Option (Option Str)) (s n : Str) (d : Option Str) :
    matchWith tail s = some (n, d) ↔
      IsName n ∧ ∃ w1 w2 r5, AllWs w1 ∧ AllWs w2 ∧ (∀ c, r5.head? = some c → isWord c = false) ∧
        s = openB ++ (w1 ++ (envKw ++ (w2 ++ (n ++ r5)))) ∧ tail r5 = some d := by
  constructor
  · intro h
    unfold matchWith at h
    split at h
    · simp at h
    · rename_i r1 h1
      rw [stripPrefix_eq_some] at h1
      split at h
      · simp at h
      · rename_i r3 h3
        rw [stripPrefix_eq_some] at h3
        dsimp only at h
        split at h
        · simp at h
        · rename_i hne
          split at h
          · simp at h
          · rename_i d' ht
            simp at h
            obtain ⟨hn, hd⟩ := h
            obtain ⟨a1, a2, _⟩ := span_self isWs r1
            obtain ⟨b1, b2, _⟩ := span_self isWs r3
            obtain ⟨c1, c2, c3⟩ := span_self isWord (r3.dropWhile isWs)
            rw [hn] at c1 c2 hne
            subst hd
            refine ⟨⟨by simpa using hne, c1⟩, r1.takeWhile isWs, r3.takeWhile isWs,
              (r3.dropWhile isWs).dropWhile isWord, a1, b1, c3, ?_, ht⟩
            rw [h1]; congr 1
            rw [← c2, ← b2, ← h3]; exact a2
  · rintro ⟨⟨hne, hword⟩, w1, w2, r5, h1, h2, h5, rfl, ht⟩
    have e1 : stripPrefix openB (openB ++ (w1 ++ (envKw ++ (w2 ++ (n ++ r5))))) =
        some (w1 ++ (envKw ++ (w2 ++ (n ++ r5)))) := by rw [stripPrefix_eq_some]
    have e2 := (span_append isWs w1 (envKw ++ (w2 ++ (n ++ r5))) h1
      (by intro c hc; simp [envKw] at hc; subst hc; decide)).1
    have e3 : stripPrefix envKw (envKw ++ (w2 ++ (n ++ r5))) = some (w2 ++ (n ++ r5)) := by
      rw [stripPrefix_eq_some]
    have e4 := (span_append isWs w2 (n ++ r5) h2
      (by intro c hc
          rw [head?_append_of_ne_nil _ _ hne] at hc
          exact word_not_ws c (hword c (List.mem_of_mem_head? hc)))).1
    have e5 := span_append isWord n r5 hword h5
    have e6 : n.isEmpty = false := by simpa using hne
    unfold matchWith
    simp only [e1, e2, e3, e4, e5.1, e5.2, e6, ht]
    simp

/-! ### main theorem: the matcher is sound and complete for the documented grammar -/

theorem isWord_pipe : isWord '|' = false := by decide
theorem isWord_close : isWord '}' = false := by decide

/-- **C16, matcher.** For every string: the matcher captures `(n, d)` exactly when the string is
`${{env:n}}` (`d = none`) resp. `${{env:n | d}}` with optional inner whitespace. In particular a
string that is not of one of these two forms is not matched (completeness), which is the direction
an optional `|` in the pattern violates (`legacy_matcher_violates_grammar`). -/
theorem match_iff_grammar (s n : Str) (d : Option Str) :
    matchTemplate s = some (n, d) ↔ IsTemplate s n d := by
  unfold matchTemplate
  rw [matchWith_eq_some_iff]
  unfold IsTemplate
  constructor
  · rintro ⟨hn, w1, w2, r5, h1, h2, _, rfl, ht⟩
    refine ⟨hn, ?_⟩
    cases d with
    | none =>
      obtain ⟨w3, h3, rfl⟩ := (matchTail_none_iff r5).1 ht
      exact ⟨w1, w2, w3, h1, h2, h3, by simp [List.append_assoc]⟩
    | some d =>
      obtain ⟨hd, w3, w4, w5, h3, h4, h5, rfl⟩ := (matchTail_some_iff r5 d).1 ht
      exact ⟨hd, w1, w2, w3, w4, w5, h1, h2, h3, h4, h5, by simp [List.append_assoc]⟩
  · rintro ⟨hn, h⟩
    refine ⟨hn, ?_⟩
    cases d with
    | none =>
      obtain ⟨w1, w2, w3, h1, h2, h3, rfl⟩ := h
      refine ⟨w1, w2, w3 ++ closeB, h1, h2, ?_, by simp [List.append_assoc],
        (matchTail_none_iff _).2 ⟨w3, h3, rfl⟩⟩
      exact allWs_head_not_word w3 closeB h3 (by intro c hc; simp [closeB] at hc; subst hc; decide)
    | some d =>
      obtain ⟨hd, w1, w2, w3, w4, w5, h1, h2, h3, h4, h5, rfl⟩ := h
      refine ⟨w1, w2, w3 ++ '|' :: (w4 ++ (d ++ (w5 ++ closeB))), h1, h2, ?_,
        by simp [List.append_assoc], (matchTail_some_iff _ d).2 ⟨hd, w3, w4, w5, h3, h4, h5, rfl⟩⟩
      exact allWs_head_not_word w3 _ h3 (by intro c hc; simp at hc; subst hc; decide)

/-- the two documented forms are unambiguous: a string is a template in at most one way -/
theorem grammar_unambiguous (s n n' : Str) (d d' : Option Str)
    (h : IsTemplate s n d) (h' : IsTemplate s n' d') : n = n' ∧ d = d' := by
  have e := (match_iff_grammar s n d).2 h
  have e' := (match_iff_grammar s n' d').2 h'
  rw [e] at e'
  simp at e'
  exact e'

/-- "every other string": not matched -/
theorem match_none_iff (s : Str) : matchTemplate s = none ↔ ¬ ∃ n d, IsTemplate s n d := by
  constructor
  · rintro h ⟨n, d, ht⟩
    rw [(match_iff_grammar s n d).2 ht] at h; simp at h
  · intro h
    cases hm : matchTemplate s with
    | none => rfl
    | some p => exact absurd ⟨p.1, p.2, (match_iff_grammar s p.1 p.2).1 hm⟩ h

/-! ### `MatchAndResolve` meets the property, case by case -/

/-- replaced by the value of the variable if it is set (also when set to the empty string) -/
theorem resolve_set (env : Env) (s n v : Str) (d : Option Str)
    (ht : IsTemplate s n d) (hv : env n = some v) : resolveStr env s = .replaced v := by
  simp [resolveStr, resolveWith, (match_iff_grammar s n d).2 ht, hv]

/-- otherwise by the default (see `resolve_default_strips_quotes`) … -/
theorem resolve_default (env : Env) (s n d : Str)
    (ht : IsTemplate s n (some d)) (hv : env n = none) :
    resolveStr env s = .replaced (trimQuotes d) := by
  simp [resolveStr, resolveWith, (match_iff_grammar s n (some d)).2 ht, hv]

/-- … otherwise loading fails -/
theorem resolve_unset_errors (env : Env) (s n : Str)
    (ht : IsTemplate s n none) (hv : env n = none) : resolveStr env s = .error := by
  simp [resolveStr, resolveWith, (match_iff_grammar s n none).2 ht, hv]

/-- every other string is left untouched -/
theorem nontemplate_untouched (env : Env) (s : Str) (h : ¬ ∃ n d, IsTemplate s n d) :
    resolveStr env s = .untouched := by
  simp [resolveStr, resolveWith, (match_none_iff s).2 h]

theorem dropWhile_all (p : Char → Bool) (a : Str) (ha : ∀ c ∈ a, p c = true) : a.dropWhile p = [] := by
  have := (span_append p a [] ha (by simp)).1
  simpa using this

/-- … with surrounding double quotes stripped: `trimQuotes d` is `d` without its leading and
trailing `"` characters -/
theorem trimQuotes_strips (d : Str) : StripsQuotes d (trimQuotes d) := by
  obtain ⟨a1, a2, a3⟩ := span_self (· == '"') d
  obtain ⟨b, b1, b2, b3⟩ := trimRight_spec (· == '"') (d.dropWhile (· == '"'))
  refine ⟨d.takeWhile (· == '"'), b, ?_, ?_, ?_, ?_, ?_, ?_⟩
  · unfold trimQuotes; rw [List.append_assoc, ← b2]; exact a2
  · intro c hc; simpa using a1 c hc
  · intro c hc; simpa using b1 c hc
  · intro ht
    unfold trimQuotes at ht
    rw [ht] at b2
    simp at b2
    cases b with
    | nil => rfl
    | cons x b =>
      have := a3 x (by rw [b2]; rfl)
      have hx := b1 x (by simp)
      rw [hx] at this; exact absurd this (by simp)
  · intro c hc e
    subst e
    have hne : trimQuotes d ≠ [] := by intro e; rw [e] at hc; simp at hc
    unfold trimQuotes at hc hne
    have := a3 '"' (by rw [b2, head?_append_of_ne_nil _ _ hne]; exact hc)
    simp at this
  · intro c hc e
    subst e
    have := b3 '"' hc
    simp at this

/-- otherwise by the default with surrounding double quotes stripped -/
theorem resolve_default_strips_quotes (env : Env) (s n d : Str)
    (ht : IsTemplate s n (some d)) (hv : env n = none) :
    ∃ t, resolveStr env s = .replaced t ∧ StripsQuotes d t :=
  ⟨trimQuotes d, resolve_default env s n d ht hv, trimQuotes_strips d⟩

/-- and `StripsQuotes` determines the result -/
theorem stripsQuotes_unique (d t : Str) (h : StripsQuotes d t) : t = trimQuotes d := by
  obtain ⟨a, b, rfl, ha, hb, hnil, hhead, hlast⟩ := h
  have ha' : ∀ c ∈ a, (c == '"') = true := by intro c hc; simp [ha c hc]
  have hb' : ∀ c ∈ b, (c == '"') = true := by intro c hc; simp [hb c hc]
  unfold trimQuotes
  by_cases ht : t = []
  · subst ht
    rw [hnil rfl]
    simp [dropWhile_all _ a ha', trimRight]
  · have e1 := (span_append (· == '"') a (t ++ b) ha' (by
      intro c hc
      rw [head?_append_of_ne_nil _ _ ht] at hc
      simpa using hhead c hc)).1
    rw [List.append_assoc, e1]
    exact (trimRight_unique _ t b hb' (by intro c hc; simpa using hlast c hc)).symm

/-- **C16, strings.** `MatchAndResolve` produces an outcome the property allows … -/
theorem resolveStr_meets_spec (env : Env) (s : Str) : SpecResolve env s (resolveStr env s) := by
  cases hm : matchTemplate s with
  | none =>
    have h := (match_none_iff s).1 hm
    rw [nontemplate_untouched env s h]; exact .other h
  | some p =>
    obtain ⟨n, d⟩ := p
    have ht := (match_iff_grammar s n d).1 hm
    cases hv : env n with
    | some v => rw [resolve_set env s n v d ht hv]; exact .set n d v ht hv
    | none =>
      cases d with
      | none => rw [resolve_unset_errors env s n ht hv]; exact .unset n ht hv
      | some d =>
        rw [resolve_default env s n d ht hv]
        exact .dflt n d _ ht hv (trimQuotes_strips d)

/-- … and the property allows no other outcome (it determines the result for every string and
every environment). -/
theorem spec_determines_resolveStr (env : Env) (s : Str) (r : Res) (h : SpecResolve env s r) :
    r = resolveStr env s := by
  cases h with
  | set n d v ht hv => exact (resolve_set env s n v d ht hv).symm
  | dflt n d t ht hv hq =>
    rw [resolve_default env s n d ht hv, stripsQuotes_unique d t hq]
  | unset n ht hv => exact (resolve_unset_errors env s n ht hv).symm
  | other h => exact (nontemplate_untouched env s h).symm

/-! ### the pinned commit violates the property (kept as regression witnesses) -/

/-- `${{env:A B}}`: the pinned-commit pattern captures name `A` and default `B` although no `|`
precedes the default — the string is not of either documented form. -/
theorem legacy_matcher_violates_grammar :
    matchTemplateLegacy "${{env:A B}}".toList = some ("A".toList, some "B".toList) ∧
      ¬ ∃ n d, IsTemplate "${{env:A B}}".toList n d := by
  refine ⟨by decide, (match_none_iff _).1 (by decide)⟩

/-- with `A` unset the pinned commit replaces `${{env:A B}}` by `B`; the property demands the
string be left untouched, which is what the current matcher does. -/
theorem legacy_resolve_violates :
    resolveStrLegacy (fun _ => none) "${{env:A B}}".toList = .replaced "B".toList ∧
      ¬ SpecResolve (fun _ => none) "${{env:A B}}".toList (.replaced "B".toList) ∧
      resolveStr (fun _ => none) "${{env:A B}}".toList = .untouched := by
  refine ⟨by decide, ?_, by decide⟩
  intro h
  have := spec_determines_resolveStr _ _ _ h
  revert this
  decide

/-- `${{env:A|}}` (a `|` without a default): the pinned commit fails loading when `A` is unset and
substitutes when it is set; the string is not of either documented form. -/
theorem legacy_pipe_without_default_violates :
    resolveStrLegacy (fun _ => none) "${{env:A|}}".toList = .error ∧
      resolveStr (fun _ => none) "${{env:A|}}".toList = .untouched ∧
      ¬ ∃ n d, IsTemplate "${{env:A|}}".toList n d := by
  refine ⟨by decide, by decide, (match_none_iff _).1 (by decide)⟩

/-- outside these two input classes the pinned-commit matcher agrees with the grammar as well:
whenever the current matcher accepts, the legacy one accepted with the same captures. -/
theorem legacy_accepts_templates (s n : Str) (d : Option Str) (h : IsTemplate s n d) :
    matchTemplateLegacy s = some (n, d) := by
  have hm := (match_iff_grammar s n d).2 h
  unfold matchTemplate at hm
  rw [matchWith_eq_some_iff] at hm
  unfold matchTemplateLegacy
  rw [matchWith_eq_some_iff]
  obtain ⟨hn, w1, w2, r5, h1, h2, h5, hs, ht⟩ := hm
  refine ⟨hn, w1, w2, r5, h1, h2, h5, hs, ?_⟩
  cases d with
  | none =>
    obtain ⟨w3, h3, rfl⟩ := (matchTail_none_iff r5).1 ht
    have e1 := (span_append isWs w3 closeB h3 (by intro c hc; simp [closeB] at hc; subst hc; decide)).1
    unfold matchTailLegacy
    simp only [e1]
    decide
  | some d =>
    obtain ⟨⟨hne, hnl, hhead, hlast⟩, w3, w4, w5, h3, h4, h5', rfl⟩ := (matchTail_some_iff r5 d).1 ht
    have e1 := (span_append isWs w3 ('|' :: (w4 ++ (d ++ (w5 ++ closeB)))) h3
      (by intro c hc; simp at hc; subst hc; decide)).1
    have e2 := (span_append isWs w4 (d ++ (w5 ++ closeB)) h4
      (by intro c hc
          rw [head?_append_of_ne_nil _ _ hne] at hc; exact hhead c hc)).1
    have e3 : stripSuffix closeB (d ++ (w5 ++ closeB)) = some (d ++ w5) := by
      rw [stripSuffix_eq_some, List.append_assoc]
    have e4 := trimRight_unique isWs d w5 h5' hlast
    have e5 : d.contains '\n' = false := by
      simp; intro hc; exact hnl _ hc rfl
    have e6 : d.isEmpty = false := by simpa using hne
    unfold matchTailLegacy
    simp only [e1, e2, e3, e4, e5, e6]
    simp

/-! ### non-vacuity -/

example : IsTemplate "${{  env:MY_ENV_VAR  |  some-default  }}".toList "MY_ENV_VAR".toList
    (some "some-default".toList) := (match_iff_grammar _ _ _).1 (by decide)
example : IsTemplate "${{env: MY_ENV_VAR}}".toList "MY_ENV_VAR".toList none :=
  (match_iff_grammar _ _ _).1 (by decide)
example : resolveStr (fun _ => none) "${{env:X|\"\"}}".toList = .replaced [] := by decide
example : ¬ ∃ n d, IsTemplate "4m3s2ms".toList n d := (match_none_iff _).1 (by decide)

/-! ## Part 2 — documents -/


mutual
theorem select_tmpls (sel : Nat) : ∀ (d y : Doc), select sel d = .ok y → allTmpls y = tmplsOnSelected sel d
  | .str s, y, h => by
    simp [select] at h; subst h; simp [allTmpls, tmplsOnSelected]
  | .num n, y, h => by
    simp [select] at h; subst h; simp [allTmpls, tmplsOnSelected]
  | .list xs, y, h => by
    simp only [select] at h
    cases hl : selectList sel xs with
    | error e => simp [hl] at h
    | ok ys =>
      simp [hl] at h; subst h
      simp only [allTmpls, tmplsOnSelected]
      exact selectList_tmpls sel xs ys hl
  | .map kvs, y, h => by
    simp only [select] at h
    cases hl : selectKvs sel kvs with
    | error e => simp [hl] at h
    | ok ys =>
      simp [hl] at h; subst h
      simp only [allTmpls, tmplsOnSelected]
      exact selectKvs_tmpls sel kvs ys hl
  | .switch bs, y, h => by
    simp only [select] at h
    simp only [tmplsOnSelected]
    rcases pickSel_tmpls sel bs with ⟨h1, h2⟩ | ⟨r, h1, t, h2, h3⟩
    · rw [h1] at h; rw [h2]
      simp only at h ⊢
      rcases pickDefault_tmpls sel bs with ⟨k1, k2⟩ | ⟨r, k1, t, k2, k3⟩
      · rw [k1] at h; simp at h
      · rw [k1] at h; rw [k2]; simp only at h ⊢; exact k3 y h
    · rw [h1] at h; rw [h2]; simp only at h ⊢; exact h3 y h
theorem selectList_tmpls (sel : Nat) : ∀ (xs ys : List Doc), selectList sel xs = .ok ys →
    allTmplsList ys = tmplsList sel xs
  | [], ys, h => by simp [selectList] at h; subst h; simp [allTmplsList, tmplsList]
  | x :: xs, ys, h => by
    simp only [selectList] at h
    cases hx : select sel x with
    | error e => simp [hx] at h
    | ok y =>
      cases hl : selectList sel xs with
      | error e => simp [hx, hl] at h
      | ok ys' =>
        simp [hx, hl] at h; subst h
        simp only [allTmplsList, tmplsList]
        rw [select_tmpls sel x y hx, selectList_tmpls sel xs ys' hl]
theorem selectKvs_tmpls (sel : Nat) : ∀ (xs ys : List (String × Doc)), selectKvs sel xs = .ok ys →
    allTmplsKvs ys = tmplsKvs sel xs
  | [], ys, h => by simp [selectKvs] at h; subst h; simp [allTmplsKvs, tmplsKvs]
  | (k, x) :: xs, ys, h => by
    simp only [selectKvs] at h
    cases hx : select sel x with
    | error e => simp [hx] at h
    | ok y =>
      cases hl : selectKvs sel xs with
      | error e => simp [hx, hl] at h
      | ok ys' =>
        simp [hx, hl] at h; subst h
        simp only [allTmplsKvs, tmplsKvs]
        rw [select_tmpls sel x y hx, selectKvs_tmpls sel xs ys' hl]
theorem pickSel_tmpls (sel : Nat) : ∀ (bs : List (Option Nat × Doc)),
    (pickSel sel bs = none ∧ tmplsPickSel sel bs = none) ∨
    (∃ r, pickSel sel bs = some r ∧ ∃ t, tmplsPickSel sel bs = some t ∧ ∀ y, r = .ok y → allTmpls y = t)
  | [] => by simp [pickSel, tmplsPickSel]
  | (k, x) :: bs => by
    simp only [pickSel, tmplsPickSel]
    by_cases hk : k = some sel
    · simp only [hk, if_true]
      exact Or.inr ⟨_, rfl, _, rfl, fun y hy => select_tmpls sel x y hy⟩
    · simp only [hk, if_false]
      exact pickSel_tmpls sel bs
theorem pickDefault_tmpls (sel : Nat) : ∀ (bs : List (Option Nat × Doc)),
    (pickDefault sel bs = none ∧ tmplsPickDefault sel bs = none) ∨
    (∃ r, pickDefault sel bs = some r ∧ ∃ t, tmplsPickDefault sel bs = some t ∧ ∀ y, r = .ok y → allTmpls y = t)
  | [] => by simp [pickDefault, tmplsPickDefault]
  | (k, x) :: bs => by
    simp only [pickDefault, tmplsPickDefault]
    by_cases hk : k = none
    · simp only [hk, if_true]
      exact Or.inr ⟨_, rfl, _, rfl, fun y hy => select_tmpls sel x y hy⟩
    · simp only [hk, if_false]
      exact pickDefault_tmpls sel bs
end

/-! ### `parseTemplatedElements` -/

theorem resolveStr_congr (env env' : Env) (s : Str) (h : ∀ p ∈ tmplOf s, env p.1 = env' p.1) :
    resolveStr env s = resolveStr env' s := by
  unfold tmplOf at h
  unfold resolveStr resolveWith
  cases hm : matchTemplate s with
  | none => rfl
  | some p =>
    obtain ⟨n, d⟩ := p
    rw [hm] at h
    have := h (n, d.isSome) (by simp)
    simp only at this ⊢
    rw [this]

theorem resolveStr_error_iff (env : Env) (s : Str) :
    resolveStr env s = .error ↔ ∃ n, (n, false) ∈ tmplOf s ∧ env n = none := by
  unfold tmplOf resolveStr resolveWith
  cases hm : matchTemplate s with
  | none => simp
  | some p =>
    obtain ⟨n, d⟩ := p
    cases hv : env n with
    | some v =>
      simp only [hv]
      constructor
      · intro h; cases h
      · rintro ⟨n', hmem, hn'⟩
        simp at hmem
        rw [hmem.1, hv] at hn'; cases hn'
    | none =>
      cases d with
      | none => simp [hv]
      | some d => simp [hv]

theorem resolveStr_not_error_untouched_or_replaced (env : Env) (s : Str)
    (h : resolveStr env s ≠ .error) :
    resolveStr env s = .untouched ∨ ∃ v, resolveStr env s = .replaced v := by
  cases hr : resolveStr env s with
  | untouched => exact Or.inl rfl
  | replaced v => exact Or.inr ⟨v, rfl⟩
  | error => exact absurd hr h

mutual
theorem resolve_congr (env env' : Env) : ∀ (y : Doc), (∀ p ∈ allTmpls y, env p.1 = env' p.1) →
    resolveTemplatesWith (resolveStr env) y = resolveTemplatesWith (resolveStr env') y
  | .str s, h => by
    simp only [resolveTemplatesWith]
    rw [resolveStr_congr env env' s (by simpa [allTmpls] using h)]
  | .num n, _ => by simp [resolveTemplatesWith]
  | .list xs, h => by
    simp only [resolveTemplatesWith]
    rw [resolveList_congr env env' xs (by simpa [allTmpls] using h)]
  | .map kvs, h => by
    simp only [resolveTemplatesWith]
    rw [resolveKvs_congr env env' kvs (by simpa [allTmpls] using h)]
  | .switch bs, h => by
    simp only [resolveTemplatesWith]
    rw [resolveBs_congr env env' bs (by simpa [allTmpls] using h)]
theorem resolveList_congr (env env' : Env) : ∀ (xs : List Doc),
    (∀ p ∈ allTmplsList xs, env p.1 = env' p.1) →
    resolveListWith (resolveStr env) xs = resolveListWith (resolveStr env') xs
  | [], _ => by simp [resolveListWith]
  | x :: xs, h => by
    simp only [resolveListWith]
    simp only [allTmplsList, List.mem_append] at h
    rw [resolve_congr env env' x (fun p hp => h p (Or.inl hp)),
      resolveList_congr env env' xs (fun p hp => h p (Or.inr hp))]
theorem resolveKvs_congr (env env' : Env) : ∀ (xs : List (String × Doc)),
    (∀ p ∈ allTmplsKvs xs, env p.1 = env' p.1) →
    resolveKvsWith (resolveStr env) xs = resolveKvsWith (resolveStr env') xs
  | [], _ => by simp [resolveKvsWith]
  | (k, x) :: xs, h => by
    simp only [resolveKvsWith]
    simp only [allTmplsKvs, List.mem_append] at h
    rw [resolve_congr env env' x (fun p hp => h p (Or.inl hp)),
      resolveKvs_congr env env' xs (fun p hp => h p (Or.inr hp))]
theorem resolveBs_congr (env env' : Env) : ∀ (xs : List (Option Nat × Doc)),
    (∀ p ∈ allTmplsBs xs, env p.1 = env' p.1) →
    resolveBsWith (resolveStr env) xs = resolveBsWith (resolveStr env') xs
  | [], _ => by simp [resolveBsWith]
  | (k, x) :: xs, h => by
    simp only [resolveBsWith]
    simp only [allTmplsBs, List.mem_append] at h
    rw [resolve_congr env env' x (fun p hp => h p (Or.inl hp)),
      resolveBs_congr env env' xs (fun p hp => h p (Or.inr hp))]
end


theorem ok_append (env : Env) (tx txs : List (Str × Bool))
    (hx : ∀ n, (n, false) ∈ tx → env n ≠ none) (hxs : ∀ n, (n, false) ∈ txs → env n ≠ none) :
    ∀ n, (n, false) ∈ tx ++ txs → env n ≠ none := by
  intro n hn
  rcases List.mem_append.1 hn with h | h
  · exact hx n h
  · exact hxs n h

mutual
theorem resolve_outcome (env : Env) : ∀ (y : Doc),
    Outcome env (resolveTemplatesWith (resolveStr env) y) (allTmpls y)
  | .str s => by
    simp only [resolveTemplatesWith, allTmpls]
    by_cases he : resolveStr env s = .error
    · rw [he]
      exact Or.inr ⟨rfl, (resolveStr_error_iff env s).1 he⟩
    · have hn : ∀ n, (n, false) ∈ tmplOf s → env n ≠ none := by
        intro n hn hv; exact he ((resolveStr_error_iff env s).2 ⟨n, hn, hv⟩)
      rcases resolveStr_not_error_untouched_or_replaced env s he with h | ⟨v, h⟩
      · rw [h]; exact Or.inl ⟨⟨_, rfl⟩, hn⟩
      · rw [h]; exact Or.inl ⟨⟨_, rfl⟩, hn⟩
  | .num n => by
    simp only [resolveTemplatesWith, allTmpls]
    exact Or.inl ⟨⟨_, rfl⟩, by simp⟩
  | .list xs => by
    simp only [resolveTemplatesWith, allTmpls]
    rcases resolveList_outcome env xs with ⟨⟨y, hy⟩, hx⟩ | ⟨he, h⟩
    · rw [hy]; exact Or.inl ⟨⟨_, rfl⟩, hx⟩
    · rw [he]; exact Or.inr ⟨rfl, h⟩
  | .map kvs => by
    simp only [resolveTemplatesWith, allTmpls]
    rcases resolveKvs_outcome env kvs with ⟨⟨y, hy⟩, hx⟩ | ⟨he, h⟩
    · rw [hy]; exact Or.inl ⟨⟨_, rfl⟩, hx⟩
    · rw [he]; exact Or.inr ⟨rfl, h⟩
  | .switch bs => by
    simp only [resolveTemplatesWith, allTmpls]
    rcases resolveBs_outcome env bs with ⟨⟨y, hy⟩, hx⟩ | ⟨he, h⟩
    · rw [hy]; exact Or.inl ⟨⟨_, rfl⟩, hx⟩
    · rw [he]; exact Or.inr ⟨rfl, h⟩
theorem resolveList_outcome (env : Env) : ∀ (xs : List Doc),
    Outcome env (resolveListWith (resolveStr env) xs) (allTmplsList xs)
  | [] => by
    simp only [resolveListWith, allTmplsList]
    exact Or.inl ⟨⟨_, rfl⟩, by simp⟩
  | x :: xs => by
    simp only [resolveListWith, allTmplsList]
    rcases resolve_outcome env x with ⟨⟨y, hy⟩, hx⟩ | ⟨he, n, hn, hv⟩
    · rw [hy]
      rcases resolveList_outcome env xs with ⟨⟨ys, hys⟩, hxs⟩ | ⟨he, n, hn, hv⟩
      · rw [hys]; exact Or.inl ⟨⟨_, rfl⟩, ok_append env _ _ hx hxs⟩
      · rw [he]; exact Or.inr ⟨rfl, n, List.mem_append.2 (Or.inr hn), hv⟩
    · rw [he]; exact Or.inr ⟨rfl, n, List.mem_append.2 (Or.inl hn), hv⟩
theorem resolveKvs_outcome (env : Env) : ∀ (xs : List (String × Doc)),
    Outcome env (resolveKvsWith (resolveStr env) xs) (allTmplsKvs xs)
  | [] => by
    simp only [resolveKvsWith, allTmplsKvs]
    exact Or.inl ⟨⟨_, rfl⟩, by simp⟩
  | (k, x) :: xs => by
    simp only [resolveKvsWith, allTmplsKvs]
    rcases resolve_outcome env x with ⟨⟨y, hy⟩, hx⟩ | ⟨he, n, hn, hv⟩
    · rw [hy]
      rcases resolveKvs_outcome env xs with ⟨⟨ys, hys⟩, hxs⟩ | ⟨he, n, hn, hv⟩
      · rw [hys]; exact Or.inl ⟨⟨_, rfl⟩, ok_append env _ _ hx hxs⟩
      · rw [he]; exact Or.inr ⟨rfl, n, List.mem_append.2 (Or.inr hn), hv⟩
    · rw [he]; exact Or.inr ⟨rfl, n, List.mem_append.2 (Or.inl hn), hv⟩
theorem resolveBs_outcome (env : Env) : ∀ (xs : List (Option Nat × Doc)),
    Outcome env (resolveBsWith (resolveStr env) xs) (allTmplsBs xs)
  | [] => by
    simp only [resolveBsWith, allTmplsBs]
    exact Or.inl ⟨⟨_, rfl⟩, by simp⟩
  | (k, x) :: xs => by
    simp only [resolveBsWith, allTmplsBs]
    rcases resolve_outcome env x with ⟨⟨y, hy⟩, hx⟩ | ⟨he, n, hn, hv⟩
    · rw [hy]
      rcases resolveBs_outcome env xs with ⟨⟨ys, hys⟩, hxs⟩ | ⟨he, n, hn, hv⟩
      · rw [hys]; exact Or.inl ⟨⟨_, rfl⟩, ok_append env _ _ hx hxs⟩
      · rw [he]; exact Or.inr ⟨rfl, n, List.mem_append.2 (Or.inr hn), hv⟩
    · rw [he]; exact Or.inr ⟨rfl, n, List.mem_append.2 (Or.inl hn), hv⟩
end



mutual
theorem resolve_ok_eq_lift (rs : Str → Res) : ∀ (y y' : Doc),
    resolveTemplatesWith rs y = .ok y' → y' = liftStrs (outOf rs) y
  | .str s, y', h => by
    simp only [resolveTemplatesWith] at h
    simp only [liftStrs, outOf]
    cases hr : rs s with
    | untouched => rw [hr] at h; simp at h; exact h.symm
    | replaced v => rw [hr] at h; simp at h; exact h.symm
    | error => rw [hr] at h; simp at h
  | .num n, y', h => by
    simp [resolveTemplatesWith] at h; subst h; simp [liftStrs]
  | .list xs, y', h => by
    simp only [resolveTemplatesWith] at h
    cases hl : resolveListWith rs xs with
    | error e => rw [hl] at h; simp at h
    | ok ys =>
      rw [hl] at h; simp at h; subst h
      simp only [liftStrs]
      rw [resolveList_ok_eq_lift rs xs ys hl]
  | .map kvs, y', h => by
    simp only [resolveTemplatesWith] at h
    cases hl : resolveKvsWith rs kvs with
    | error e => rw [hl] at h; simp at h
    | ok ys =>
      rw [hl] at h; simp at h; subst h
      simp only [liftStrs]
      rw [resolveKvs_ok_eq_lift rs kvs ys hl]
  | .switch bs, y', h => by
    simp only [resolveTemplatesWith] at h
    cases hl : resolveBsWith rs bs with
    | error e => rw [hl] at h; simp at h
    | ok ys =>
      rw [hl] at h; simp at h; subst h
      simp only [liftStrs]
      rw [resolveBs_ok_eq_lift rs bs ys hl]
theorem resolveList_ok_eq_lift (rs : Str → Res) : ∀ (xs ys : List Doc),
    resolveListWith rs xs = .ok ys → ys = liftList (outOf rs) xs
  | [], ys, h => by simp [resolveListWith] at h; subst h; simp [liftList]
  | x :: xs, ys, h => by
    simp only [resolveListWith] at h
    cases hx : resolveTemplatesWith rs x with
    | error e => rw [hx] at h; simp at h
    | ok y =>
      cases hl : resolveListWith rs xs with
      | error e => rw [hx, hl] at h; simp at h
      | ok ys' =>
        rw [hx, hl] at h; simp at h; subst h
        simp only [liftList]
        rw [resolve_ok_eq_lift rs x y hx, resolveList_ok_eq_lift rs xs ys' hl]
theorem resolveKvs_ok_eq_lift (rs : Str → Res) : ∀ (xs ys : List (String × Doc)),
    resolveKvsWith rs xs = .ok ys → ys = liftKvs (outOf rs) xs
  | [], ys, h => by simp [resolveKvsWith] at h; subst h; simp [liftKvs]
  | (k, x) :: xs, ys, h => by
    simp only [resolveKvsWith] at h
    cases hx : resolveTemplatesWith rs x with
    | error e => rw [hx] at h; simp at h
    | ok y =>
      cases hl : resolveKvsWith rs xs with
      | error e => rw [hx, hl] at h; simp at h
      | ok ys' =>
        rw [hx, hl] at h; simp at h; subst h
        simp only [liftKvs]
        rw [resolve_ok_eq_lift rs x y hx, resolveKvs_ok_eq_lift rs xs ys' hl]
theorem resolveBs_ok_eq_lift (rs : Str → Res) : ∀ (xs ys : List (Option Nat × Doc)),
    resolveBsWith rs xs = .ok ys → ys = liftBs (outOf rs) xs
  | [], ys, h => by simp [resolveBsWith] at h; subst h; simp [liftBs]
  | (k, x) :: xs, ys, h => by
    simp only [resolveBsWith] at h
    cases hx : resolveTemplatesWith rs x with
    | error e => rw [hx] at h; simp at h
    | ok y =>
      cases hl : resolveBsWith rs xs with
      | error e => rw [hx, hl] at h; simp at h
      | ok ys' =>
        rw [hx, hl] at h; simp at h; subst h
        simp only [liftBs]
        rw [resolve_ok_eq_lift rs x y hx, resolveBs_ok_eq_lift rs xs ys' hl]
end

/-! ### Go ranges over the map in an unspecified order -/

theorem mem_allTmplsKvs (kvs : List (String × Doc)) (p : Str × Bool) :
    p ∈ allTmplsKvs kvs ↔ ∃ kv ∈ kvs, p ∈ allTmpls kv.2 := by
  induction kvs with
  | nil => simp [allTmplsKvs]
  | cons kv kvs ih => obtain ⟨k, x⟩ := kv; simp [allTmplsKvs, ih]

theorem liftKvs_eq_map (f : Str → Str) (kvs : List (String × Doc)) :
    liftKvs f kvs = kvs.map (fun kv => (kv.1, liftStrs f kv.2)) := by
  induction kvs with
  | nil => simp [liftKvs]
  | cons kv kvs ih => obtain ⟨k, x⟩ := kv; simp [liftKvs, ih]

/-- `parseTemplatedElements` visits the entries of a map in Go's (random) iteration order and
stops at the first error. Whether it fails, and the entries it produces, do not depend on that
order (the model takes the order as an arbitrary permutation of the entries). -/
theorem resolveKvs_order_independent (env : Env) (kvs kvs' : List (String × Doc))
    (h : kvs.Perm kvs') :
    (∀ e, resolveKvsWith (resolveStr env) kvs = .error e ↔
      resolveKvsWith (resolveStr env) kvs' = .error e) ∧
    (∀ ys, resolveKvsWith (resolveStr env) kvs = .ok ys →
      ∃ ys', resolveKvsWith (resolveStr env) kvs' = .ok ys' ∧ ys.Perm ys') := by
  have hmem : ∀ p, p ∈ allTmplsKvs kvs ↔ p ∈ allTmplsKvs kvs' := by
    intro p
    rw [mem_allTmplsKvs, mem_allTmplsKvs]
    constructor
    · rintro ⟨kv, hk, hp⟩; exact ⟨kv, h.mem_iff.1 hk, hp⟩
    · rintro ⟨kv, hk, hp⟩; exact ⟨kv, h.mem_iff.2 hk, hp⟩
  rcases resolveKvs_outcome env kvs with ⟨⟨ys, hy⟩, hok⟩ | ⟨he, n, hn, hv⟩
  · rcases resolveKvs_outcome env kvs' with ⟨⟨ys', hy'⟩, _⟩ | ⟨_, n, hn, hv⟩
    · rw [hy, hy']
      refine ⟨by intro e; simp, ?_⟩
      intro zs hz
      cases hz
      refine ⟨ys', rfl, ?_⟩
      rw [resolveKvs_ok_eq_lift _ kvs ys hy, resolveKvs_ok_eq_lift _ kvs' ys' hy',
        liftKvs_eq_map, liftKvs_eq_map]
      exact h.map _
    · exact absurd hv (hok n ((hmem _).2 hn))
  · rcases resolveKvs_outcome env kvs' with ⟨_, hok⟩ | ⟨he', _⟩
    · exact absurd hv (hok n ((hmem _).1 hn))
    · rw [he, he']
      exact ⟨by intro e; simp, by intro ys hys; cases hys⟩

/-! ### `FromBytes`: reduce, then substitute -/

/-- **C16, documents (1).** When loading succeeds, the result is the selected tree with every
string value — at map values and list items, at any depth — replaced as `MatchAndResolve` says
(`resolveStr_meets_spec`); nothing else changes. -/
theorem load_ok_pointwise (sel : Nat) (env : Env) (d r : Doc) (h : load sel env d = .ok r) :
    ∃ y, select sel d = .ok y ∧ r = liftStrs (outOf (resolveStr env)) y := by
  unfold load at h
  cases hs : select sel d with
  | error e => rw [hs] at h; simp at h
  | ok y =>
    rw [hs] at h
    exact ⟨y, rfl, resolve_ok_eq_lift _ y r h⟩

/-- **C16, documents (2): only the selected branches.** Two environments that agree on the
variables of the templates sitting on the branches selected by the dimension give the same load
result (value or failure) — variables referenced only on unselected branches are never looked at. -/
theorem load_only_selected_branches (sel : Nat) (env env' : Env) (d : Doc)
    (h : ∀ n ∈ varsOnSelected sel d, env n = env' n) : load sel env d = load sel env' d := by
  unfold load
  cases hs : select sel d with
  | error e => rfl
  | ok y =>
    simp only
    unfold resolveTemplates
    apply resolve_congr
    rw [select_tmpls sel d y hs]
    intro p hp
    exact h p.1 (by unfold varsOnSelected; exact List.mem_map_of_mem hp)

/-- **C16, documents (3).** Loading fails exactly when the reduction fails (C03's business) or a
template WITHOUT default on a SELECTED branch names an unset variable. -/
theorem load_fails_iff (sel : Nat) (env : Env) (d : Doc) :
    (∃ e, load sel env d = .error e) ↔
      (∃ e, select sel d = .error e) ∨ (∃ n, (n, false) ∈ tmplsOnSelected sel d ∧ env n = none) := by
  unfold load
  cases hs : select sel d with
  | error e => simp
  | ok y =>
    simp only
    unfold resolveTemplates
    rw [← select_tmpls sel d y hs]
    rcases resolve_outcome env y with ⟨⟨r, hr⟩, hok⟩ | ⟨he, n, hn, hv⟩
    · rw [hr]
      constructor
      · rintro ⟨e, h⟩; cases h
      · rintro (⟨e, h⟩ | ⟨n, hn, hv⟩)
        · cases h
        · exact absurd hv (hok n hn)
    · rw [he]
      exact ⟨fun _ => Or.inr ⟨n, hn, hv⟩, fun _ => ⟨_, rfl⟩⟩

/-- the sentence of the property: an unset variable referenced in an unselected branch does not
fail loading — if the reduction succeeds and every template on the selected branches has a default
or a set variable, loading succeeds whatever the unselected branches mention. -/
theorem unset_on_unselected_branch_does_not_fail (sel : Nat) (env : Env) (d y : Doc)
    (hs : select sel d = .ok y)
    (hsel : ∀ p ∈ tmplsOnSelected sel d, p.2 = true ∨ env p.1 ≠ none) :
    ∃ r, load sel env d = .ok r := by
  cases hl : load sel env d with
  | ok r => exact ⟨r, rfl⟩
  | error e =>
    rcases (load_fails_iff sel env d).1 ⟨e, hl⟩ with ⟨e', he'⟩ | ⟨n, hn, hv⟩
    · rw [hs] at he'; cases he'
    · rcases hsel (n, false) hn with h | h
      · cases h
      · exact absurd hv h

/-- non-vacuity: `a: {D1a: ${{env:SET}}, default: ${{env:UNSET}}}, b: [${{env:UNSET|"d"}}, 7]`
with dimension value 0 and only `SET` set loads, although `${{env:UNSET}}` has no default … -/
def exDoc : Doc :=
  .map [("a", .switch [(some 0, .str "${{env:SET}}".toList), (none, .str "${{env:UNSET}}".toList)]),
        ("b", .list [.str "${{ env: UNSET | \"d\" }}".toList, .num 7])]
def exEnv : Env := fun n => if n = "SET".toList then some "v".toList else none

example : load 0 exEnv exDoc =
    .ok (.map [("a", .str "v".toList), ("b", .list [.str "d".toList, .num 7])]) := by rfl
/-- … and fails for dimension value 1, where `default` is the selected branch. -/
example : load 1 exEnv exDoc = .error .unsetVar := by rfl
example : tmplsOnSelected 0 exDoc = [("SET".toList, false), ("UNSET".toList, true)] := by decide

end EnvTmpl

import Model.Log
/-!
# Sequential part of C18: the heap model refines the per-logger specification

`absSt` maps the model's state (cores in holders) to the specification's state (fields and level
per logger).  For the current wrapper (`F = true`) every call commutes with it.
-/
namespace Log

theorem enabled_eq_level (c : Core) (lvl : Level) : c.enabled lvl = decide (c.level ≤ lvl) := by
  cases c <;> rfl

/-- `With` on the current wrapper keeps the level and appends the fields. -/
theorem abs_withC (c : Core) (g : List Field) :
    abs (c.withC true g) = ⟨(abs c).fields ++ g, (abs c).level⟩ := by
  induction c with
  | base l fs => rfl
  | custom c m ih =>
    simp only [abs, Core.withC, Core.written, Core.level, if_true, LSpec.mk.injEq] at ih ⊢
    exact ⟨ih.1, trivial⟩

theorem abs_loggerWith (c : Core) (fs : List Field) :
    abs (loggerWith true c fs) = ⟨(abs c).fields ++ fs, (abs c).level⟩ := by
  unfold loggerWith
  split
  · rename_i h
    have : fs = [] := by simpa using h
    subst this
    simp [abs]
  · exact abs_withC c fs

theorem abs_custom (c : Core) (l : Level) : abs (customLevelLogger c l) = ⟨(abs c).fields, l⟩ := rfl

/-! ### `absSt` commutes with the building blocks -/

theorem getOrDefault_snd (s : St) (c : Nat) : (getOrDefault s c).2 = holderOf s.ctxs c := by
  unfold getOrDefault; split <;> simp_all

theorem abs_getOrDefault (s : St) (c : Nat) : abs (getOrDefault s c).1 = (absSt s).loggerOf c := by
  unfold getOrDefault Spec.loggerOf
  simp only [absSt]
  split
  · rename_i h hh
    simp only [List.getElem?_map]
    cases s.holders[h]? <;> rfl
  · rfl

theorem abs_logOf (s : St) (c : Nat) : abs (logOf s c) = (absSt s).loggerOf c := abs_getOrDefault s c

theorem absSt_newCtx (s : St) (core : Core) : absSt (newCtx s core) = (absSt s).create (abs core) := by
  simp [absSt, newCtx, Spec.create]

theorem absSt_update (s : St) (c : Nat) (f : Core → Core) (g : LSpec → LSpec)
    (hfg : ∀ core, abs (f core) = g (abs core)) : absSt (update s c f) = (absSt s).modify c g := by
  have h1 := getOrDefault_snd s c
  have h2 := abs_getOrDefault s c
  unfold update Spec.modify
  cases hgd : getOrDefault s c with
  | mk core o =>
    rw [hgd] at h1 h2
    simp only at h1 h2
    cases o with
    | some h =>
      have hh : holderOf (absSt s).ctxs c = some h := by simpa [absSt] using h1.symm
      simp only [hh]
      simp only [absSt, List.map_set, hfg, h2]
    | none =>
      have hh : holderOf (absSt s).ctxs c = none := by simpa [absSt] using h1.symm
      simp only [hh]
      rw [absSt_newCtx, hfg]
      have : abs core = (absSt s).global := by
        have := h2
        simp only [Spec.loggerOf, hh] at this
        exact this
      rw [this]

/-- every call commutes with the abstraction -/
theorem absSt_step (s : St) (op : Op) : absSt (step true s op) = (absSt s).step op := by
  cases op with
  | init c fs =>
    simp only [step, Spec.step, absSt_newCtx, abs_loggerWith]; rfl
  | child c fs =>
    simp only [step, Spec.step, absSt_newCtx, abs_loggerWith, abs_getOrDefault]
  | derive c => simp [step, Spec.step, absSt]
  | withFields c fs =>
    exact absSt_update s c (fun core => loggerWith true core fs) (fun l => { l with fields := l.fields ++ fs })
      (fun core => abs_loggerWith core fs)
  | setLevel c l =>
    exact absSt_update s c (fun core => customLevelLogger core l) (fun x => { x with level := l })
      (fun core => abs_custom core l)
  | enableDebug c =>
    exact absSt_update s c (fun core => customLevelLogger core debugLevel) (fun x => { x with level := debugLevel })
      (fun core => abs_custom core debugLevel)

theorem absSt_run (s : St) (ops : List Op) : absSt (run true s ops) = (absSt s).run ops := by
  induction ops generalizing s with
  | nil => rfl
  | cons op ops ih =>
    simp only [run, Spec.run, List.foldl_cons] at ih ⊢
    rw [ih, absSt_step]

/-! ### isolation: a call changes only the logger of its own context -/

/-- every context's holder has been allocated -/
def WF (s : St) : Prop := ∀ c h, holderOf s.ctxs c = some h → h < s.holders.length

/-- the context whose logger a call modifies -/
def Op.target : Op → Option Nat
  | .withFields c _ | .setLevel c _ | .enableDebug c => some c
  | _ => none

/-- the call modifies the logger that context `d` uses -/
def touches (s : St) (op : Op) (d : Nat) : Prop :=
  ∃ t h, op.target = some t ∧ holderOf s.ctxs t = some h ∧ holderOf s.ctxs d = some h

theorem holderOf_append_lt (ctxs : List (Option Nat)) (x : Option Nat) (d : Nat) (hd : d < ctxs.length) :
    holderOf (ctxs ++ [x]) d = holderOf ctxs d := by
  simp [holderOf, List.getElem?_append_left hd]

theorem holderOf_append_eq (ctxs : List (Option Nat)) (x : Option Nat) :
    holderOf (ctxs ++ [x]) ctxs.length = x := by
  simp [holderOf]

theorem holderOf_some_lt (ctxs : List (Option Nat)) (d h : Nat) (hh : holderOf ctxs d = some h) :
    d < ctxs.length := by
  unfold holderOf at hh
  cases hd : ctxs[d]? with
  | none => simp [hd] at hh
  | some _ => exact (List.getElem?_eq_some_iff.1 hd).1

theorem holderOf_ge (ctxs : List (Option Nat)) (d : Nat) (hd : ctxs.length ≤ d) : holderOf ctxs d = none := by
  simp [holderOf, List.getElem?_eq_none hd]

theorem ctxs_newCtx (s : St) (core : Core) : (newCtx s core).ctxs = s.ctxs ++ [some s.holders.length] := rfl

theorem ctxs_update (s : St) (c : Nat) (f : Core → Core) :
    (update s c f).ctxs = s.ctxs ++ [match holderOf s.ctxs c with | some h => some h | none => some s.holders.length] := by
  have h1 := getOrDefault_snd s c
  unfold update
  cases hgd : getOrDefault s c with
  | mk core o =>
    rw [hgd] at h1
    simp only at h1
    cases o with
    | some h => simp [← h1]
    | none => simp [← h1, newCtx]

/-- contexts are never re-bound: a call only appends the context it returns -/
theorem ctxs_step (F : Bool) (s : St) (op : Op) : ∃ x, (step F s op).ctxs = s.ctxs ++ [x] := by
  cases op <;> simp only [step, setLevel, ctxs_update, ctxs_newCtx] <;> exact ⟨_, rfl⟩

theorem holderOf_step (F : Bool) (s : St) (op : Op) (d : Nat) (hd : d < s.ctxs.length) :
    holderOf (step F s op).ctxs d = holderOf s.ctxs d := by
  obtain ⟨x, hx⟩ := ctxs_step F s op
  rw [hx]; exact holderOf_append_lt _ _ _ hd

theorem length_ctxs_step (F : Bool) (s : St) (op : Op) : (step F s op).ctxs.length = s.ctxs.length + 1 := by
  obtain ⟨x, hx⟩ := ctxs_step F s op
  simp [hx]

theorem wf_newCtx (s : St) (core : Core) (h : WF s) : WF (newCtx s core) := by
  intro c k hk
  simp only [newCtx, List.length_append, List.length_singleton] at hk ⊢
  by_cases hc : c < s.ctxs.length
  · rw [holderOf_append_lt _ _ _ hc] at hk
    have := h c k hk; omega
  · by_cases hc2 : c = s.ctxs.length
    · subst hc2
      rw [holderOf_append_eq] at hk
      cases hk; omega
    · have : holderOf (s.ctxs ++ [some s.holders.length]) c = none :=
        holderOf_ge _ _ (by simp; omega)
      rw [this] at hk; cases hk

theorem wf_update (s : St) (c : Nat) (f : Core → Core) (h : WF s) : WF (update s c f) := by
  have h1 := getOrDefault_snd s c
  unfold update
  cases hgd : getOrDefault s c with
  | mk core o =>
    rw [hgd] at h1
    simp only at h1
    cases o with
    | none => exact wf_newCtx s _ h
    | some k =>
      intro d j hj
      simp only [List.length_set] at hj ⊢
      by_cases hc : d < s.ctxs.length
      · rw [holderOf_append_lt _ _ _ hc] at hj
        exact h d j hj
      · by_cases hc2 : d = s.ctxs.length
        · subst hc2
          rw [holderOf_append_eq] at hj
          cases hj
          exact h c k h1.symm
        · have : holderOf (s.ctxs ++ [some k]) d = none := holderOf_ge _ _ (by simp; omega)
          rw [this] at hj; cases hj

theorem wf_step (F : Bool) (s : St) (op : Op) (h : WF s) : WF (step F s op) := by
  cases op with
  | init c fs => exact wf_newCtx s _ h
  | child c fs => exact wf_newCtx s _ h
  | derive c =>
    intro d j hj
    simp only [step] at hj ⊢
    by_cases hc : d < s.ctxs.length
    · rw [holderOf_append_lt _ _ _ hc] at hj
      exact h d j hj
    · by_cases hc2 : d = s.ctxs.length
      · subst hc2
        rw [holderOf_append_eq] at hj
        exact h c j hj
      · have : holderOf (s.ctxs ++ [holderOf s.ctxs c]) d = none := holderOf_ge _ _ (by simp; omega)
        rw [this] at hj; cases hj
  | withFields c fs => exact wf_update s c _ h
  | setLevel c l => exact wf_update s c _ h
  | enableDebug c => exact wf_update s c _ h

theorem wf_run (F : Bool) (s : St) (ops : List Op) (h : WF s) : WF (run F s ops) := by
  induction ops generalizing s with
  | nil => exact h
  | cons op ops ih => exact ih _ (wf_step F s op h)

theorem wf_init (g : Core) : WF (initSt g) := by
  intro c h hh
  simp only [initSt, holderOf] at hh
  cases c with
  | zero => simp at hh
  | succ n => simp at hh

theorem logOf_eq (s : St) (d : Nat) :
    logOf s d = match holderOf s.ctxs d with
      | some h => (s.holders[h]?).getD s.global
      | none => s.global := by
  unfold logOf getOrDefault; split <;> simp_all

theorem global_step (F : Bool) (s : St) (op : Op) : (step F s op).global = s.global := by
  cases op <;> simp only [step, setLevel, update, newCtx] <;> (try rfl) <;> (split <;> rfl)

theorem logOf_newCtx (s : St) (core : Core) (hs : WF s) (d : Nat) (hd : d < s.ctxs.length) :
    logOf (newCtx s core) d = logOf s d := by
  rw [logOf_eq, logOf_eq, ctxs_newCtx, holderOf_append_lt _ _ _ hd]
  cases hh : holderOf s.ctxs d with
  | none => rfl
  | some h =>
    have := hs d h hh
    simp [newCtx, List.getElem?_append_left this]

/-- a call that does not modify the logger of context `d` leaves `Log(ctx_d)` as it was -/
theorem logOf_step_of_not_touches (F : Bool) (s : St) (hs : WF s) (op : Op) (d : Nat)
    (hd : d < s.ctxs.length) (hn : ¬ touches s op d) : logOf (step F s op) d = logOf s d := by
  have upd : ∀ c f, op.target = some c → logOf (update s c f) d = logOf s d := by
    intro c f htc
    have h1 := getOrDefault_snd s c
    unfold update
    cases hgd : getOrDefault s c with
    | mk core o =>
      rw [hgd] at h1
      simp only at h1
      cases o with
      | none => exact logOf_newCtx s _ hs d hd
      | some k =>
        simp only
        rw [logOf_eq, logOf_eq]
        simp only
        rw [holderOf_append_lt _ _ _ hd]
        cases hh : holderOf s.ctxs d with
        | none => rfl
        | some h =>
          have hne : k ≠ h := by
            intro e; subst e
            exact hn ⟨c, k, htc, h1.symm, hh⟩
          simp [List.getElem?_set_ne hne]
  cases op with
  | init c fs => exact logOf_newCtx s _ hs d hd
  | child c fs => exact logOf_newCtx s _ hs d hd
  | derive c =>
    rw [logOf_eq, logOf_eq]
    simp only [step]
    rw [holderOf_append_lt _ _ _ hd]
  | withFields c fs => exact upd c _ rfl
  | setLevel c l => exact upd c _ rfl
  | enableDebug c => exact upd c _ rfl

/-- no call of the sequence, at the moment it is made, modifies the logger context `d` uses -/
def Untouched (F : Bool) : St → List Op → Nat → Prop
  | _, [], _ => True
  | s, op :: ops, d => ¬ touches s op d ∧ Untouched F (step F s op) ops d

theorem logOf_run_of_untouched (F : Bool) (s : St) (hs : WF s) (ops : List Op) (d : Nat)
    (hd : d < s.ctxs.length) (hu : Untouched F s ops d) : logOf (run F s ops) d = logOf s d := by
  induction ops generalizing s with
  | nil => rfl
  | cons op ops ih =>
    simp only [run, List.foldl_cons]
    have := ih (step F s op) (wf_step F s op hs) (by rw [length_ctxs_step]; omega) hu.2
    simp only [run] at this
    rw [this]
    exact logOf_step_of_not_touches F s hs op d hd hu.1

/-! ### closed form: what a context logs = what its logger had + what was added through sharers -/

/-- context `c` has a logger and it is the logger context `d` uses -/
def shares (s : St) (c d : Nat) : Bool :=
  match holderOf s.ctxs c, holderOf s.ctxs d with
  | some h, some k => h == k
  | _, _ => false

/-- the fields a call adds to the logger of context `d` -/
def fieldsAdded (s : St) (op : Op) (d : Nat) : List Field :=
  match op with
  | .withFields c fs => if shares s c d then fs else []
  | _ => []

/-- the level a call sets on the logger of context `d` -/
def levelSet (s : St) (op : Op) (d : Nat) : Option Level :=
  match op with
  | .setLevel c l => if shares s c d then some l else none
  | .enableDebug c => if shares s c d then some debugLevel else none
  | _ => none

/-- all fields added to the logger of `d` by a call sequence, through any context sharing it -/
def addedSince (F : Bool) : St → List Op → Nat → List Field
  | _, [], _ => []
  | s, op :: ops, d => fieldsAdded s op d ++ addedSince F (step F s op) ops d

/-- the level most recently set on the logger of `d` by a call sequence, if any -/
def lastLevelSince (F : Bool) : St → List Op → Nat → Option Level
  | _, [], _ => none
  | s, op :: ops, d => (lastLevelSince F (step F s op) ops d).orElse (fun _ => levelSet s op d)

theorem shares_iff (s : St) (c d : Nat) :
    shares s c d = true ↔ ∃ h, holderOf s.ctxs c = some h ∧ holderOf s.ctxs d = some h := by
  unfold shares
  cases holderOf s.ctxs c <;> cases holderOf s.ctxs d <;> simp
  exact eq_comm

theorem not_touches_of_not_shares (s : St) (op : Op) (c d : Nat) (ht : op.target = some c)
    (h : shares s c d = false) : ¬ touches s op d := by
  rintro ⟨t, k, h1, h2, h3⟩
  rw [ht] at h1; cases h1
  have := (shares_iff s c d).2 ⟨k, h2, h3⟩
  rw [h] at this; cases this

/-- a modifying call made through a context that shares `d`'s logger changes what `d` logs by `f` -/
theorem logOf_update_shares (s : St) (hs : WF s) (c d : Nat) (f : Core → Core) (hd : d < s.ctxs.length)
    (h : shares s c d = true) : logOf (update s c f) d = f (logOf s d) := by
  obtain ⟨k, hc, hdk⟩ := (shares_iff s c d).1 h
  have hk := hs d k hdk
  have hgd : getOrDefault s c = ((s.holders[k]?).getD s.global, some k) := by
    unfold getOrDefault; simp [hc]
  unfold update
  rw [hgd]
  simp only
  rw [logOf_eq, logOf_eq]
  simp only
  rw [holderOf_append_lt _ _ _ hd, hdk]
  simp [hk]

theorem written_loggerWith (c : Core) (fs : List Field) : (loggerWith true c fs).written = c.written ++ fs :=
  congrArg LSpec.fields (abs_loggerWith c fs)

theorem level_loggerWith (c : Core) (fs : List Field) : (loggerWith true c fs).level = c.level :=
  congrArg LSpec.level (abs_loggerWith c fs)

/-- one call: fields -/
theorem written_step (s : St) (hs : WF s) (op : Op) (d : Nat) (hd : d < s.ctxs.length) :
    (logOf (step true s op) d).written = (logOf s d).written ++ fieldsAdded s op d := by
  cases op with
  | withFields c fs =>
    simp only [fieldsAdded]
    by_cases h : shares s c d = true
    · simp only [h, if_true, step]
      rw [logOf_update_shares s hs c d _ hd h, written_loggerWith]
    · have h' : shares s c d = false := by simpa using h
      simp only [h', Bool.false_eq_true, if_false, List.append_nil]
      rw [logOf_step_of_not_touches true s hs _ d hd (not_touches_of_not_shares s _ c d rfl h')]
  | setLevel c l =>
    simp only [fieldsAdded, List.append_nil]
    by_cases h : shares s c d = true
    · simp only [step, setLevel]
      rw [logOf_update_shares s hs c d _ hd h]; rfl
    · have h' : shares s c d = false := by simpa using h
      rw [logOf_step_of_not_touches true s hs _ d hd (not_touches_of_not_shares s _ c d rfl h')]
  | enableDebug c =>
    simp only [fieldsAdded, List.append_nil]
    by_cases h : shares s c d = true
    · simp only [step, setLevel]
      rw [logOf_update_shares s hs c d _ hd h]; rfl
    · have h' : shares s c d = false := by simpa using h
      rw [logOf_step_of_not_touches true s hs _ d hd (not_touches_of_not_shares s _ c d rfl h')]
  | init c fs =>
    simp only [fieldsAdded, List.append_nil]
    rw [logOf_step_of_not_touches true s hs _ d hd (by rintro ⟨t, k, h1, _⟩; simp [Op.target] at h1)]
  | child c fs =>
    simp only [fieldsAdded, List.append_nil]
    rw [logOf_step_of_not_touches true s hs _ d hd (by rintro ⟨t, k, h1, _⟩; simp [Op.target] at h1)]
  | derive c =>
    simp only [fieldsAdded, List.append_nil]
    rw [logOf_step_of_not_touches true s hs _ d hd (by rintro ⟨t, k, h1, _⟩; simp [Op.target] at h1)]

/-- one call: level -/
theorem level_step (s : St) (hs : WF s) (op : Op) (d : Nat) (hd : d < s.ctxs.length) :
    (logOf (step true s op) d).level = (levelSet s op d).getD (logOf s d).level := by
  cases op with
  | withFields c fs =>
    simp only [levelSet, Option.getD_none]
    by_cases h : shares s c d = true
    · simp only [step]
      rw [logOf_update_shares s hs c d _ hd h, level_loggerWith]
    · have h' : shares s c d = false := by simpa using h
      rw [logOf_step_of_not_touches true s hs _ d hd (not_touches_of_not_shares s _ c d rfl h')]
  | setLevel c l =>
    simp only [levelSet]
    by_cases h : shares s c d = true
    · simp only [h, if_true, step, setLevel, Option.getD_some]
      rw [logOf_update_shares s hs c d _ hd h]; rfl
    · have h' : shares s c d = false := by simpa using h
      simp only [h', Bool.false_eq_true, if_false, Option.getD_none]
      rw [logOf_step_of_not_touches true s hs _ d hd (not_touches_of_not_shares s _ c d rfl h')]
  | enableDebug c =>
    simp only [levelSet]
    by_cases h : shares s c d = true
    · simp only [h, if_true, step, setLevel, Option.getD_some]
      rw [logOf_update_shares s hs c d _ hd h]; rfl
    · have h' : shares s c d = false := by simpa using h
      simp only [h', Bool.false_eq_true, if_false, Option.getD_none]
      rw [logOf_step_of_not_touches true s hs _ d hd (not_touches_of_not_shares s _ c d rfl h')]
  | init c fs =>
    simp only [levelSet, Option.getD_none]
    rw [logOf_step_of_not_touches true s hs _ d hd (by rintro ⟨t, k, h1, _⟩; simp [Op.target] at h1)]
  | child c fs =>
    simp only [levelSet, Option.getD_none]
    rw [logOf_step_of_not_touches true s hs _ d hd (by rintro ⟨t, k, h1, _⟩; simp [Op.target] at h1)]
  | derive c =>
    simp only [levelSet, Option.getD_none]
    rw [logOf_step_of_not_touches true s hs _ d hd (by rintro ⟨t, k, h1, _⟩; simp [Op.target] at h1)]

end Log

import Model.GenOrder
import Generated.MapRanges
/-! # C14 — generators: output is a deterministic function of source and options

Property text: "Generation is a pure function of the source file and the options: repeated runs
in one process, runs in separate processes, and runs made while a previous output file already
sits in the package all write byte-identical files. The order of types, methods, imports, values
and switch cases in the output never depends on map iteration order."

What is proved: the second sentence, for every pipeline of the three generators that is fed from
a Go map.  A map walk is modelled as an arbitrary permutation of the map's entries; each theorem
says that what reaches the template is the same list for every permutation - for any number of
types / sorters / imports / values / fields.  `sort.Sort` and `sort.Slice` enter through their
contract (`SortContract`), the key order through antisymmetry (Go's `<` on strings and integers
is a strict total order).  Tie A: the list of ALL map walks in the generator packages is
regenerated on every run (`Generated/MapRanges.lean`) and `every_map_range_site_is_matched`
demands that each of them - with the fingerprint of what its loop body does - is matched below to one of these theorems or to a stated reason why
its order cannot reach the file; a new, unmatched walk breaks that obligation.

The first sentence (byte-identical files across runs) additionally depends on packages.Load,
text/template, go/format and goimports being deterministic; that is observed by the repeated
generation runs of `h-gensweep` (same process, separate processes, previous output present), not
proved. -/
namespace C14
open GenOrder

/-! ## Collect in any order, then sort by a unique key -/

/-- If the elements carry pairwise distinct keys and the key order is antisymmetric, then any two
sort results of any two arrangements of the same entries are the same list. -/
theorem collect_then_sort_perm_invariant {α κ : Type} (key : α → κ) (le : κ → κ → Prop)
    (antisymm : ∀ x y, le x y → le y x → x = y)
    (srt srt' : List α → List α)
    (hs : SortContract (fun a b => le (key a) (key b)) srt)
    (hs' : SortContract (fun a b => le (key a) (key b)) srt')
    (l₁ l₂ : List α) (hp : l₁.Perm l₂)
    (huniq : ∀ a ∈ l₁, ∀ b ∈ l₁, key a = key b → a = b) :
    sortedBy srt l₁ = sortedBy srt' l₂ := by
  unfold sortedBy
  apply List.Perm.eq_of_pairwise (le := fun a b => le (key a) (key b))
  · intro a b ha hb hab hba
    have ha' : a ∈ l₁ := (hs.perm l₁).mem_iff.mp ha
    have hb' : b ∈ l₁ := hp.mem_iff.mpr ((hs'.perm l₂).mem_iff.mp hb)
    exact huniq a ha' b hb' (antisymm _ _ hab hba)
  · exact hs.sorted l₁
  · exact hs'.sorted l₂
  · exact (hs.perm l₁).trans (hp.trans (hs'.perm l₂).symm)

/-- Concatenating per-type collections that are each permuted gives a permutation. -/
theorem flatten_perm {α : Type} {l₁ l₂ : List (List α)} (h : PermEach l₁ l₂) :
    l₁.flatten.Perm l₂.flatten := by
  induction h with
  | nil => exact List.Perm.refl _
  | cons hab _ ih =>
    rw [List.flatten_cons, List.flatten_cons]
    exact List.Perm.append hab ih

/-- gsort: whatever order the `descs` map of each requested type is walked in, the sorter
descriptions handed to the template are the same list (types and sorters in (TypeName, sorter
name) order), provided (type, sorter) pairs are distinct - which they are: one map entry per
sorter name per type. -/
theorem gsort_output_perm_invariant (le : String × String → String × String → Prop)
    (antisymm : ∀ x y, le x y → le y x → x = y)
    (srt : List SorterDesc → List SorterDesc)
    (hs : SortContract (fun a b => le a.key b.key) srt)
    (perType perType' : List (List SorterDesc)) (hp : PermEach perType perType')
    (huniq : ∀ a ∈ perType.flatten, ∀ b ∈ perType.flatten, a.key = b.key → a = b) :
    gsortOutput srt perType = gsortOutput srt perType' :=
  collect_then_sort_perm_invariant SorterDesc.key le antisymm srt srt hs hs _ _ (flatten_perm hp) huniq

/-- gencommon: `GetActive` returns the same import list for every walk of the `imports` map
(keys of that map are the package paths, hence distinct). -/
theorem imports_perm_invariant (le : String → String → Prop)
    (antisymm : ∀ x y, le x y → le y x → x = y)
    (srt : List ImportDesc → List ImportDesc)
    (hs : SortContract (fun a b => le a.pkgPath b.pkgPath) srt)
    (m₁ m₂ : List ImportDesc) (hp : m₁.Perm m₂)
    (huniq : ∀ a ∈ m₁, ∀ b ∈ m₁, a.pkgPath = b.pkgPath → a = b) :
    getActive srt m₁ = getActive srt m₂ := by
  unfold getActive
  apply collect_then_sort_perm_invariant (·.pkgPath) le antisymm srt srt hs hs _ _ (hp.filter _)
  intro a ha b hb
  exact huniq a (List.mem_filter.mp ha).1 b (List.mem_filter.mp hb).1

/-- genum values (sorted by (value, name); names are distinct Go identifiers) and gerror fields
(sorted by name; field names of a struct are distinct): the sorted list does not depend on the
order they were collected in, nor on which conforming sort routine is used. -/
theorem genum_values_perm_invariant {α κ : Type} (key : α → κ) (le : κ → κ → Prop)
    (antisymm : ∀ x y, le x y → le y x → x = y) (srt srt' : List α → List α)
    (hs : SortContract (fun a b => le (key a) (key b)) srt)
    (hs' : SortContract (fun a b => le (key a) (key b)) srt')
    (vs vs' : List α) (hp : vs.Perm vs')
    (huniq : ∀ a ∈ vs, ∀ b ∈ vs, key a = key b → a = b) :
    sortedBy srt vs = sortedBy srt' vs' :=
  collect_then_sort_perm_invariant key le antisymm srt srt' hs hs' vs vs' hp huniq

theorem gerror_fields_perm_invariant {α : Type} (name : α → String) (le : String → String → Prop)
    (antisymm : ∀ x y, le x y → le y x → x = y) (srt : List α → List α)
    (hs : SortContract (fun a b => le (name a) (name b)) srt)
    (fs fs' : List α) (hp : fs.Perm fs')
    (huniq : ∀ a ∈ fs, ∀ b ∈ fs, name a = name b → a = b) :
    sortedBy srt fs = sortedBy srt fs' :=
  collect_then_sort_perm_invariant name le antisymm srt srt hs hs fs fs' hp huniq

/-! ## genum: visiting the duplicate groups in any order -/

theorem dropSecondary_eq_filter (groups : List DupGroup) (traits : List TraitInstance) :
    dropSecondary groups traits = traits.filter (fun t => groups.all (fun g => keeps g t)) := by
  unfold dropSecondary
  induction groups generalizing traits with
  | nil => exact (List.filter_eq_self.mpr (by simp)).symm
  | cons g gs ih =>
    rw [List.foldl_cons, ih, List.filter_filter]
    congr 1
    funext t
    simp [List.all_cons, Bool.and_comm]

/-- genum: the trait instances left after `processDuplicates` are the same for every order in
which the `data` map yields the duplicate groups (the deletions commute), and they stay in their
original relative order. -/
theorem genum_dup_processing_commutes (g₁ g₂ : List DupGroup) (hp : g₁.Perm g₂)
    (traits : List TraitInstance) : dropSecondary g₁ traits = dropSecondary g₂ traits := by
  rw [dropSecondary_eq_filter, dropSecondary_eq_filter]
  congr 1
  funext t
  exact hp.all_eq

/-! ## Tie A: every map walk of the generator packages is accounted for -/

/-- The map walks known to this file, each with the reason its order cannot reach the output. -/
def matched : List (Site × Reason) := [
  (⟨"gsort/gen/sorter_desc.go", "createSorterDesc", "range descs",
      ["assign=:result", "append:result"]⟩,
    .sortedAfter "gsort_output_perm_invariant"),
  (⟨"gsort/gen/sorter_desc.go", "createSorterDesc", "range descs",
      ["if", "define:err", "call:desc.Fields.Validate", "return/2"]⟩,
    .noOutput "validates only; returns the same constant error text whichever invalid sorter it meets first, and then nothing is written"),
  (⟨"genum/gen/generate.go", "processDuplicates", "range data",
      ["define:primary", "define:safe", "call:duplicates.getPrimary", "if", "call:len", "range:traits",
       "assign=:traits[·].Traits", "call:slices.DeleteFunc", "return/1", "if", "continue", "call:log.Printf",
       "call:duplicates.stringList"]⟩,
    .commutes "genum_dup_processing_commutes (the only write is the in-place deletion of non-primary rows; the warnings go to stderr, not to the file)"),
  (⟨"gencommon/imports.go", "*ImportHandler.GetActive", "range ih.imports",
      ["if", "assign=:result", "append:result"]⟩,
    .sortedAfter "imports_perm_invariant"),
  (⟨"gencommon/comments.go", "CommentsFromObj", "range cmap",
      ["if", "define:v", "define:ok", "call:len", "call:len", "return/1", "call:FromCommentGroup", "call:len"]⟩,
    .noOutput "returns at the single key whose GenDecl holds the type spec (a spec belongs to one declaration); only the type-level comment of gerror.Factory, which gerror's template does not use"),
  (⟨"gencommon/interface.go", "allpkgs.findPKgByName", "range pkg.Imports",
      ["if", "return/2"]⟩,
    .noOutput "looks for the single key equal to the wanted package path (map keys are distinct)"),
  (⟨"gencommon/interface.go", "allpkgs.namedTypeToInterface", "range embeddedIface.ambiguous",
      ["if", "call:ignoreEmbeddedMethodsNamed.Has", "continue", "call:ignoreEmbeddedMethodsNamed.Add",
       "call:result.ambiguous.Add", "delete:methodsToAdd"]⟩,
    .noOutput "struct branch only; genum/gerror/gsort resolve the interface type gerror.Factory and index its methods by name (subject of C19)"),
  (⟨"gencommon/interface.go", "allpkgs.namedTypeToInterface", "range methodsToAdd",
      ["assign=:result.Methods", "append:result.Methods"]⟩,
    .noOutput "struct branch only; genum/gerror/gsort resolve the interface type gerror.Factory and index its methods by name (subject of C19)")
]

/-- Obligation re-checked against /repo on every run: no map walk in the generator packages is
unaccounted for. -/
theorem every_map_range_site_is_matched :
    ∀ s ∈ Generated.MapRanges.sites, s ∈ matched.map (·.1) := by
  decide

/-- ... and no entry of the table is stale: each names a walk that still exists AND whose loop body
still does what the reason was written for (same effect fingerprint). -/
theorem no_stale_match : ∀ s ∈ matched.map (·.1), s ∈ Generated.MapRanges.sites := by
  decide

/-! ## Non-vacuity -/

/-- A concrete sort routine meets the contract (merge sort on natural-number keys), ... -/
theorem mergeSort_meets_contract :
    SortContract (fun a b : Nat × String => a.1 ≤ b.1) (fun l => l.mergeSort (fun a b => decide (a.1 ≤ b.1))) where
  perm l := List.mergeSort_perm l _
  sorted l := by
    have h := List.pairwise_mergeSort (le := fun a b : Nat × String => decide (a.1 ≤ b.1))
      (by intro a b c hab hbc; simp at *; omega) (by intro a b; simp; omega) l
    exact h.imp (by intro a b hab; simpa using hab)

/-- ... so the hypotheses of `collect_then_sort_perm_invariant` are satisfiable: two different
walks of a three-entry map, one output. -/
example :
    sortedBy (fun l => l.mergeSort (fun a b : Nat × String => decide (a.1 ≤ b.1))) [(2, "b"), (1, "a"), (3, "c")]
    = sortedBy (fun l => l.mergeSort (fun a b : Nat × String => decide (a.1 ≤ b.1))) [(3, "c"), (2, "b"), (1, "a")] :=
  collect_then_sort_perm_invariant (·.1) (· ≤ ·) (fun _ _ h1 h2 => Nat.le_antisymm h1 h2) _ _
    mergeSort_meets_contract mergeSort_meets_contract _ _ (by decide) (by decide)

example : dropSecondary [⟨1, "A"⟩, ⟨2, "C"⟩] [⟨1, "A", "x"⟩, ⟨1, "B", "y"⟩, ⟨2, "D", "z"⟩]
    = dropSecondary [⟨2, "C"⟩, ⟨1, "A"⟩] [⟨1, "A", "x"⟩, ⟨1, "B", "y"⟩, ⟨2, "D", "z"⟩] := by
  decide

end C14

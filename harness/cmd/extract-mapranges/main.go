// extract-mapranges: tie A for C14 (DESIGN.md section 3). Lists, with go/types, every `range`
// over a map-typed expression (set.Set is a map type) and every call of an order-exposing method
// of set.Set (Slice) in the generator packages of /repo, as file / function / ranged expression,
// into lean/Generated/MapRanges.lean.  It only extracts; Properties/C14.lean has to match every
// listed site to an order-independence theorem or to a stated reason (obligation
// `every_map_range_site_is_matched`), so a NEW site is an open obligation.
package main

import (
	"flag"
	"fmt"
	"go/ast"
	"go/types"
	"os"
	"path/filepath"
	"sort"
	"strings"

	"golang.org/x/tools/go/packages"
)

var generatorPkgs = []string{
	"github.com/drshriveer/gtools/gencommon",
	"github.com/drshriveer/gtools/genum/gen",
	"github.com/drshriveer/gtools/genum/cmd/genum",
	"github.com/drshriveer/gtools/gerror/gen",
	"github.com/drshriveer/gtools/gerror/cmd/gerror",
	"github.com/drshriveer/gtools/gsort/gen",
	"github.com/drshriveer/gtools/gsort/cmd/gsort",
}

type site struct{ file, fn, expr string }

func leanStr(s string) string {
	s = strings.ReplaceAll(s, `\`, `\\`)
	s = strings.ReplaceAll(s, `"`, `\"`)
	s = strings.ReplaceAll(s, "\n", " ")
	return `"` + s + `"`
}

func repoFromWorkspace(goWork string) string {
	b, err := os.ReadFile(goWork)
	if err != nil {
		fail(err.Error())
	}
	for _, l := range strings.Split(string(b), "\n") {
		l = strings.TrimSpace(strings.TrimPrefix(strings.TrimSpace(l), "use "))
		if strings.HasSuffix(l, "/genum") {
			return strings.TrimSuffix(l, "/genum")
		}
	}
	fail("no genum module in " + goWork)
	return ""
}

func main() {
	out := flag.String("out", "../lean/Generated/MapRanges.lean", "output file (relative to the harness directory)")
	flag.Parse()
	repo := repoFromWorkspace("go.work")
	cfg := &packages.Config{Mode: packages.NeedName | packages.NeedFiles | packages.NeedCompiledGoFiles | packages.NeedSyntax | packages.NeedTypes | packages.NeedTypesInfo | packages.NeedImports | packages.NeedDeps,
		Env: append(os.Environ(), "GOPROXY=off", "GOSUMDB=off", "GOTOOLCHAIN=local", "GOFLAGS=")}
	pkgs, err := packages.Load(cfg, generatorPkgs...)
	if err != nil {
		fail(err.Error())
	}
	if len(pkgs) != len(generatorPkgs) {
		fail(fmt.Sprintf("loaded %d of %d generator packages", len(pkgs), len(generatorPkgs)))
	}
	var sites []site
	for _, p := range pkgs {
		if len(p.Errors) > 0 {
			fail(fmt.Sprintf("package %s: %v", p.PkgPath, p.Errors[0]))
		}
		for i, f := range p.Syntax {
			name := p.CompiledGoFiles[i]
			if strings.HasSuffix(name, "_test.go") {
				continue
			}
			rel, err := filepath.Rel(repo, name)
			if err != nil || strings.HasPrefix(rel, "..") {
				fail("file outside the checkout: " + name)
			}
			for _, d := range f.Decls {
				fd, ok := d.(*ast.FuncDecl)
				if !ok || fd.Body == nil {
					continue
				}
				fn := fd.Name.Name
				if fd.Recv != nil && len(fd.Recv.List) == 1 {
					fn = types.ExprString(fd.Recv.List[0].Type) + "." + fn
				}
				ast.Inspect(fd.Body, func(n ast.Node) bool {
					switch x := n.(type) {
					case *ast.RangeStmt:
						if t := p.TypesInfo.TypeOf(x.X); t != nil {
							if _, ok := t.Underlying().(*types.Map); ok {
								sites = append(sites, site{rel, fn, "range " + types.ExprString(x.X)})
							}
						}
					case *ast.CallExpr:
						if s, ok := x.Fun.(*ast.SelectorExpr); ok {
							if t := p.TypesInfo.TypeOf(s.X); t != nil {
								if nt, ok := t.(*types.Named); ok && nt.Obj().Pkg() != nil &&
									nt.Obj().Pkg().Path() == "github.com/drshriveer/gtools/set" && s.Sel.Name == "Slice" {
									sites = append(sites, site{rel, fn, "call " + types.ExprString(x.Fun)})
								}
							}
						}
					}
					return true
				})
			}
		}
	}
	sort.Slice(sites, func(i, j int) bool {
		a, b := sites[i], sites[j]
		if a.file != b.file {
			return a.file < b.file
		}
		if a.fn != b.fn {
			return a.fn < b.fn
		}
		return a.expr < b.expr
	})
	var b strings.Builder
	b.WriteString("import Model.GenOrder\n/-! REGENERATED on every run by harness/cmd/extract-mapranges (go/types) from the generator packages\n")
	b.WriteString(strings.Join(generatorPkgs, ", "))
	b.WriteString(".\nEvery `range` over a map-typed expression and every set.Set.Slice call, as ⟨file, function, expression⟩.\nA site occurring twice in one function is listed twice. Do not edit. -/\nnamespace Generated.MapRanges\nopen GenOrder\n\ndef sites : List Site := [\n")
	for i, s := range sites {
		sep := ","
		if i == len(sites)-1 {
			sep = ""
		}
		fmt.Fprintf(&b, "  ⟨%s, %s, %s⟩%s\n", leanStr(s.file), leanStr(s.fn), leanStr(s.expr), sep)
	}
	b.WriteString("]\n\nend Generated.MapRanges\n")
	old, _ := os.ReadFile(*out)
	if string(old) != b.String() {
		if err := os.WriteFile(*out, []byte(b.String()), 0o644); err != nil {
			fail(err.Error())
		}
	}
	fmt.Printf("map-range sites: %d\n", len(sites))
}

func fail(msg string) {
	fmt.Fprintln(os.Stderr, "extract-mapranges:", msg)
	os.Exit(1)
}

import Model.GoKV
import Generated.GoSet
import Generated.GoBitSet
/-! REGENERATED on every run by harness/cmd/go2lean -spec gencommoniface from gencommon/interface.go
(namedTypeToInterface; the structs Interface and Method (gencommon/method.go), the option constants and the
interface hasMethods are checked against what the translation assumes).  Do not edit.  One Lean statement per
Go statement.

* go/types is a TYPE GRAPH handed in as data: a `*types.Named` is a number `t`, `g t` answers
  `Obj().Name()`, `Obj().Pkg().Path()`, `NumMethods()/Method(i)`, `Underlying()`; a `hasMethods` value is the
  list of its methods; `s.NumFields()/s.Field(i)` are the list of fields; `x.(*types.T)` is a match on the
  constructor.  `mInfo.Type().(*types.Signature)` is `mInfo.sig` (the type of a *types.Func is a signature).
* Recursion goes through a FUEL argument (out of fuel is a panic of `Go.M`); the theorems hold for every fuel
  above the height of the embedding tree.
* `*Interface`, `*Method` are values (fresh pointers, not shared while written); a `*Interface` variable that may
  be nil is an `Option`, reading through it is `Go.deref` (nil dereference = panic).  `Method.rest` stands for
  the fields the function does not touch (Input, Output).
* Parameters (`Env`): pkgs.findPKgByName, ih.ExtractTypeRef and MethodFromSignature (they thread the import
  handler state `ih`, returned next to the result), CommentsFromObj, CommentsFromMethod.
  `set.Set[string]` methods are the translated ones of Generated/GoSet.lean, `opts.Has` that of
  Generated/GoBitSet.lean; `map[string]*Method` is a `Go.KV` (walk order = insertion order, see Model/GoKV.lean). -/
namespace Generated.GoGencommonIface

/-- `*types.Func`: Name(), Exported(), Type().(*types.Signature) -/
structure Func (σ : Type) where
  name : Go.Str
  exported : Bool
  sig : σ
  deriving Inhabited

/-- `v.Elem()` of a `*types.Pointer`: a `*types.Named` or anything else -/
inductive Elem where
  | named (id : Nat)
  | other
  deriving Inhabited

/-- `field.Type()` -/
inductive FType where
  | pointer (elem : Elem)
  | named (id : Nat)
  | other
  deriving Inhabited

/-- `*types.Var` of a struct field: Embedded(), Type() -/
structure Field where
  embedded : Bool
  typ : FType
  deriving Inhabited

/-- `t.Underlying()` -/
inductive Under (σ : Type) where
  | struct (fields : List Field)
  | iface (methods : List (Func σ))
  | other
  deriving Inhabited

/-- `*types.Named` -/
structure Named (σ : Type) where
  name : Go.Str
  pkgPath : Go.Str
  methods : List (Func σ)
  underlying : Under σ
  deriving Inhabited

abbrev Graph (σ : Type) := Nat → Named σ

/-- `Method` (gencommon/method.go): the fields namedTypeToInterface writes, `rest` = Input, Output -/
structure Method (τ κ : Type) where
  Name : Go.Str
  Comments : κ
  IsExported : Bool
  rest : τ
  deriving Inhabited

/-- `Interface` -/
structure Interface (τ κ ρ : Type) where
  IsInterface : Bool
  Comments : κ
  Name : Go.Str
  TypeRef : ρ
  Methods : List (Method τ κ)
  ambiguous : Go.GMap Go.Str
  deriving Inhabited

/-- the external functions -/
structure Env (S σ τ κ ρ π : Type) where
  findPKgByName : Go.Str → π × Bool
  extractTypeRef : S → Nat → S × ρ
  methodFromSignature : S → σ → S × Method τ κ
  commentsFromObj : π → Go.Str → κ
  commentsFromMethod : π → Go.Str → Go.Str → κ

def IncludePrivate : Go.U64 := 1 <<< 0
def IncludeEmbedded : Go.U64 := 1 <<< 1

variable {S σ τ κ ρ π : Type} [Inhabited σ] [Inhabited κ]

/-- `func (pkgs allpkgs) namedTypeToInterface(ih *ImportHandler, t *types.Named, opts set.BitSet[ParseIFaceOption]) *Interface` -/
def namedTypeToInterface (env : Env S σ τ κ ρ π) (g : Graph σ) :
    Nat → S → Nat → Go.U64 → Go.M (S × Interface τ κ ρ)
  | 0, _, _, _ => throw "out of fuel"
  | fuel + 1, ih, t, opts => do
    let mut ih := ih
    let p1 := env.findPKgByName (g t).pkgPath
    let pkg := p1.1
    let hasPkg := p1.2
    let mut methodz : List (Func σ) := (g t).methods
    if ((List.length methodz) == 0) then
      match (g t).underlying with
      | Under.iface iface =>
        methodz := iface
      | _ => pure ()
    let r2 := env.extractTypeRef ih t
    ih := r2.1
    let mut result : Interface τ κ ρ := { Name := (g t).name, IsInterface := false, TypeRef := r2.2, Methods := [], ambiguous := Go.mapMake 0, Comments := default }
    if hasPkg then
      result := { result with Comments := env.commentsFromObj pkg (g t).name }
    for i in List.range' 0 ((List.length methodz) - 0) do
      let mInfo ← Go.listGet methodz i
      let c3 ← Generated.GoBitSet.BitSet.Has opts IncludePrivate
      if (c3 || mInfo.exported) then
        let r4 := env.methodFromSignature ih mInfo.sig
        ih := r4.1
        let mut method : Method τ κ := r4.2
        method := { method with Name := mInfo.name }
        method := { method with IsExported := mInfo.exported }
        method := { method with Comments := env.commentsFromMethod pkg (g t).name mInfo.name }
        result := { result with Methods := result.Methods ++ [method] }
    let c5 ← Generated.GoBitSet.BitSet.Has opts IncludeEmbedded
    if (!c5) then
      return (ih, result)
    let Under.struct s := (g t).underlying | return (ih, result)
    let mut methodsToAdd : Go.KV Go.Str (Method τ κ) := Go.kvMake
    let mut ignoreEmbeddedMethodsNamed : Go.GMap Go.Str := Go.mapMake (List.length result.Methods)
    for m in result.Methods do
      let r6 ← Generated.GoSet.Set.Add ignoreEmbeddedMethodsNamed [m.Name]
      ignoreEmbeddedMethodsNamed := r6.1
    for i in List.range' 0 ((List.length s) - 0) do
      let field ← Go.listGet s i
      if (!field.embedded) then
        continue
      let mut embeddedIface : Option (Interface τ κ ρ) := none
      match field.typ with
      | FType.pointer v_Elem =>
        match v_Elem with
        | Elem.named named =>
          let r7 ← namedTypeToInterface env g fuel ih named opts
          ih := r7.1
          embeddedIface := some r7.2
        | _ => pure ()
      | FType.named v =>
        let r8 ← namedTypeToInterface env g fuel ih v opts
        ih := r8.1
        embeddedIface := some r8.2
      | _ =>
        continue
      for m in (← Go.deref embeddedIface).Methods do
        let c9 ← Generated.GoSet.Set.Has ignoreEmbeddedMethodsNamed [m.Name]
        if c9 then
          continue
        if (Go.kvHas methodsToAdd m.Name) then
          let r10 ← Generated.GoSet.Set.Add ignoreEmbeddedMethodsNamed [m.Name]
          ignoreEmbeddedMethodsNamed := r10.1
          let r11 ← Generated.GoSet.Set.Add result.ambiguous [m.Name]
          result := { result with ambiguous := r11.1 }
          methodsToAdd := Go.kvDelete methodsToAdd m.Name
        else
          methodsToAdd := Go.kvSet methodsToAdd m.Name m
      for name in Go.mapKeys (← Go.deref embeddedIface).ambiguous do
        let c12 ← Generated.GoSet.Set.Has ignoreEmbeddedMethodsNamed [name]
        if c12 then
          continue
        let r13 ← Generated.GoSet.Set.Add ignoreEmbeddedMethodsNamed [name]
        ignoreEmbeddedMethodsNamed := r13.1
        let r14 ← Generated.GoSet.Set.Add result.ambiguous [name]
        result := { result with ambiguous := r14.1 }
        methodsToAdd := Go.kvDelete methodsToAdd name
    for m in Go.kvValues methodsToAdd do
      result := { result with Methods := result.Methods ++ [m] }
    return (ih, result)

/-- the translated functions -/
def translated : List String := ["allpkgs.namedTypeToInterface"]

end Generated.GoGencommonIface

package main

import (
	"fmt"
	"strconv"
	"strings"
)

// impl interprets the `gs …` protocol on the real generator and on the code it generated.
type impl struct {
	w   *world
	cur *built
}

func (m *impl) Reset() { m.cur = nil }

func (m *impl) Exec(line string) string {
	ws := strings.Fields(line)
	if len(ws) == 0 {
		return "bad-op"
	}
	switch ws[0] {
	case "case":
		return strings.Join(ws, " ")
	case "echo":
		return strings.Join(ws[1:], " ")
	case "gso":
	default:
		return "bad-op"
	}
	if len(ws) < 2 {
		return "bad-op"
	}
	if ws[1] == "def" {
		d, err := parseDefLine(line)
		if err != nil {
			m.cur = nil
			return "bad-op"
		}
		m.cur = m.w.get(d)
		if m.cur.status != "ok" {
			return m.cur.status
		}
		return strings.Join(append([]string{"ok"}, m.cur.names...), " ")
	}
	if len(ws) < 3 {
		return "bad-op"
	}
	op, raw, rest := ws[1], ws[2], ws[3:]
	if m.cur == nil || m.cur.status != "ok" {
		return "no-sorter"
	}
	chain, ok := m.cur.chains[raw]
	if !ok {
		return "no-sorter"
	}
	key := fmt.Sprintf("%d/%s", m.cur.idx, raw)
	d := m.cur.def
	switch {
	case op == "chain" && len(rest) == 0:
		return chain
	case op == "lessall" && len(rest) == 1:
		return m.cur.probe.ask(key + " lessall " + rest[0])
	case op == "stable" && len(rest) == 1:
		return m.cur.probe.ask(key + " stable " + rest[0])
	case op == "sort" && len(rest) == 1:
		ans := m.cur.probe.ask(key + " sort " + rest[0])
		recs, ok := parseRecs(rest[0])
		if !ok {
			return "bad-op"
		}
		if len(recs) == 0 {
			if ans == "" {
				return "perm:t "
			}
			return ans
		}
		ids, ok := parseInts(ans)
		if !ok {
			return ans
		}
		perm := isPerm(ids, len(recs))
		if !perm {
			return "perm:f"
		}
		idx := d.TaggedIdx(raw)
		proj := make([]string, len(ids))
		for i, id := range ids {
			t := make([]string, len(idx))
			for k, fi := range idx {
				if fi < len(recs[id]) {
					t[k] = strconv.Itoa(recs[id][fi])
				} else {
					t[k] = "0"
				}
			}
			proj[i] = strings.Join(t, ",")
		}
		return "perm:t " + strings.Join(proj, ";")
	case op == "swap" && len(rest) == 3:
		i, e1 := strconv.Atoi(rest[0])
		j, e2 := strconv.Atoi(rest[1])
		n, e3 := strconv.Atoi(rest[2])
		if e1 != nil || e2 != nil || e3 != nil || n < 0 || n > 100000 {
			return "bad-op"
		}
		zero := strings.TrimSuffix(strings.Repeat("0,", len(d.Fields)), ",")
		recs := "-"
		if n > 0 {
			recs = strings.TrimSuffix(strings.Repeat(zero+";", n), ";")
		}
		return m.cur.probe.ask(fmt.Sprintf("%s swap %d %d %s", key, i, j, recs))
	}
	return "bad-op"
}

func parseInts(s string) ([]int, bool) {
	if s == "" {
		return nil, true
	}
	var r []int
	for _, x := range strings.Split(s, ",") {
		n, err := strconv.Atoi(x)
		if err != nil {
			return nil, false
		}
		r = append(r, n)
	}
	return r, true
}

func parseRecs(w string) ([][]int, bool) {
	if w == "-" {
		return nil, true
	}
	var recs [][]int
	for _, r := range strings.Split(w, ";") {
		rec, ok := parseInts(r)
		if !ok {
			return nil, false
		}
		recs = append(recs, rec)
	}
	return recs, true
}

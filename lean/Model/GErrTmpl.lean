import Model.GErrClone
/-!
# The bodies of the generated `Error()` and `toPrimaryType` as DATA, and what they mean

`harness/cmd/extract-gerrtmpl` reads `gerror/gen/gerror.gotmpl` with text/template/parse + go/parser and
writes the two method bodies into `lean/Generated/GerrorTmplBody.lean` as values of the small syntax
below (it refuses anything the syntax cannot say).  This file gives that syntax its meaning on the
model's extension values (`GErrClone.X`); it is core Lean only.  `Properties/C09Tie.lean` proves that
the extracted bodies mean `GErrClone.extErrorFull` / `GErrClone.toPrimary` for EVERY extension
definition, receiver and base error.

A selector keeps HOW the template reaches a member: `e.GError.Name` (`base`) goes through the embedded
field and always means the base error's member; `e.Name` (`own`) is resolved by Go on the extension
struct first, so an extension field of that name captures it (the defect class repaired by /repo
commit 3087b5b).  `own` is given exactly that meaning here, so a template that reads a GError member
without going through `e.GError.` does not satisfy the theorem.
-/
namespace GErrTmpl
open GErrClone

/-- a value of the method body: a string, or a `gerror.Stack` (its frames) -/
inductive Val where
  | str (s : Str)
  | stack (frames : List Str)
  deriving DecidableEq, Repr

/-- how a value is reached -/
inductive Sel where
  /-- `e.GError.<member>` / `e.GError.<member>()` -/
  | base (member : String) (call : Bool)
  /-- `e.<member>` / `e.<member>()`: the extension struct's own field of that name if there is one -/
  | own (member : String) (call : Bool)
  /-- a local variable or constant of the method -/
  | loc (name : String)
  deriving DecidableEq, Repr

/-- a piece of a `fmt.Sprintf` format: literal text, `{{$field.PrintAs}}`, or the verb `%v` -/
inductive FmtPiece where
  | text (s : String) | printAs | verbV
  deriving DecidableEq, Repr

inductive Expr where
  | lit (s : String)
  | sel (s : Sel)
  | cat (a b : Expr)
  /-- `fmt.Sprintf(<format>, e.{{$field.Name}})` inside a range over fields -/
  | sprintfField (format : List FmtPiece)
  /-- `<v>.String()` of a stack-valued local -/
  | stackString (s : Sel)
  deriving DecidableEq, Repr

/-- which list of the ErrorDesc a `{{range}}` walks -/
inductive Which where
  | print | clone
  deriving DecidableEq, Repr

inductive Stmt where
  | skip
  | seq (a b : Stmt)
  /-- `name := e` / `const name = e` -/
  | decl (name : String) (e : Expr)
  /-- `name += e` -/
  | append (name : String) (e : Expr)
  /-- `if name := v; len(name) > 0 { body }` -/
  | ifLen (name : String) (v : Sel) (body : Stmt)
  /-- `{{range $field := $desc.<Which>}} body {{end}}` -/
  | range (w : Which) (body : Stmt)
  /-- `return name` -/
  | ret (name : String)
  deriving DecidableEq, Repr

abbrev Locals := List (String × Val)

def Locals.get (l : Locals) (n : String) : Option Val := (l.find? (fun p => p.1 == n)).map (·.2)
def Locals.set (l : Locals) (n : String) (v : Val) : Locals := (n, v) :: l.filter (fun p => p.1 != n)

/-- what the evaluation needs to know: the accessor methods of `*GError` (`ErrDetailTag` ↦ `detailTag`,
regenerated from gerror.go), the extension definition and receiver, and how a stack prints -/
structure Ctx where
  accessors : List (String × String)
  d : ExtDef
  x : X
  stackText : List Str → Str

/-- a field of `GError` -/
def baseField (e : E) : String → Option Val
  | "Name" => some (.str e.name)
  | "Message" => some (.str e.msg)
  | "Source" => some (.str e.src)
  | "detailTag" => some (.str e.dtag)
  | "stack" => some (.stack e.stack)
  | _ => none

/-- a member of the embedded `GError`: a field, or an accessor method returning a field -/
def baseMember (c : Ctx) (m : String) (call : Bool) : Option Val :=
  if call then
    match c.accessors.find? (fun p => p.1 == m) with
    | some p => baseField c.x.base p.2
    | none => none
  else baseField c.x.base m

def evalSel (c : Ctx) (l : Locals) : Sel → Option Val
  | .base m call => baseMember c m call
  | .own m call =>
    -- Go's selector rule: the shallowest member wins, i.e. the extension struct's own field
    match c.x.vals.find? (fun p => p.1 = m.toList) with
    | some p => some (.str p.2)
    | none => baseMember c m call
  | .loc n => l.get n

def evalFmt (f : FieldDef) (arg : Str) : List FmtPiece → Str
  | [] => []
  | .text s :: r => s.toList ++ evalFmt f arg r
  | .printAs :: r => f.printAs ++ evalFmt f arg r
  | .verbV :: r => arg ++ evalFmt f arg r

/-- a string-valued expression; `fld` is the field of the enclosing `{{range}}` -/
def evalExpr (c : Ctx) (l : Locals) (fld : Option FieldDef) : Expr → Option Str
  | .lit s => some s.toList
  | .sel s => match evalSel c l s with | some (.str v) => some v | _ => none
  | .cat a b =>
    match evalExpr c l fld a, evalExpr c l fld b with
    | some x, some y => some (x ++ y)
    | _, _ => none
  | .sprintfField format =>
    match fld with
    | some f => some (evalFmt f (c.x.val f.name) format)
    | none => none
  | .stackString s => match evalSel c l s with | some (.stack fr) => some (c.stackText fr) | _ => none

def whichFields (d : ExtDef) : Which → List FieldDef
  | .print => fieldsToPrint d
  | .clone => fieldsToClone d

/-- outcome of a statement: the locals, and the returned value once a `return` was executed -/
abbrev Outcome := Option (Locals × Option Val)

def rangeLoop (step : Locals → FieldDef → Outcome) : List FieldDef → Locals → Outcome
  | [], l => some (l, none)
  | f :: fs, l =>
    match step l f with
    | some (l', none) => rangeLoop step fs l'
    | r => r

def exec (c : Ctx) : Stmt → Locals → Option FieldDef → Outcome
  | .skip, l, _ => some (l, none)
  | .seq a b, l, fld =>
    match exec c a l fld with
    | some (l', none) => exec c b l' fld
    | r => r
  | .decl n e, l, fld => (evalExpr c l fld e).map (fun v => (l.set n (.str v), none))
  | .append n e, l, fld =>
    match l.get n, evalExpr c l fld e with
    | some (.str cur), some v => some (l.set n (.str (cur ++ v)), none)
    | _, _ => none
  | .ifLen n v body, l, fld =>
    match evalSel c l v with
    | some val =>
      let nonEmpty := match val with | .str s => decide (s.length > 0) | .stack fr => decide (fr.length > 0)
      if nonEmpty then
        -- the body sees `n`; assignments to outer variables stay, `n` itself goes out of scope
        match exec c body (l.set n val) fld with
        | some (l', r) => some (match l.get n with | some old => l'.set n old | none => l'.filter (fun p => p.1 != n), r)
        | none => none
      else some (l, none)
    | none => none
  | .range w body, l, _ => rangeLoop (fun l f => exec c body l (some f)) (whichFields c.d w) l
  | .ret n, l, _ => (l.get n).map (fun v => (l, some v))

/-- the method body run on a receiver: the string it returns -/
def run (c : Ctx) (body : Stmt) : Option Str :=
  match exec c body [] none with
  | some (_, some (.str s)) => some s
  | _ => none

/-- does the statement read every member through the embedded field (`e.GError.…`)? -/
def Sel.viaEmbedded : Sel → Bool
  | .own _ _ => false
  | _ => true

def Expr.viaEmbedded : Expr → Bool
  | .sel s => s.viaEmbedded
  | .cat a b => a.viaEmbedded && b.viaEmbedded
  | .stackString s => s.viaEmbedded
  | _ => true

def Stmt.viaEmbedded : Stmt → Bool
  | .seq a b => a.viaEmbedded && b.viaEmbedded
  | .decl _ e => e.viaEmbedded
  | .append _ e => e.viaEmbedded
  | .ifLen _ v body => v.viaEmbedded && body.viaEmbedded
  | .range _ body => body.viaEmbedded
  | _ => true

/-! ## `toPrimaryType` -/

/-- an element of the composite literal `&T{…}` -/
inductive PElem where
  /-- `GError: *<param>` -/
  | gerrorFromParam
  /-- `{{range $field := $desc.<Which>}} {{$field.Name}}: e.{{$field.Name}}, {{end}}` -/
  | fieldsFromRecv (w : Which)
  deriving DecidableEq, Repr

/-- the literal evaluated: unnamed fields keep their zero value (and an unset `GError` its zero value) -/
def evalPrimary (elems : List PElem) (d : ExtDef) (x : X) (gerr : E) : X :=
  let copied : List FieldDef := elems.flatMap (fun e => match e with | .fieldsFromRecv w => whichFields d w | _ => [])
  { base := if PElem.gerrorFromParam ∈ elems then gerr else ⟨[], [], [], [], []⟩,
    vals := d.map (fun f => (f.name, if f ∈ copied then x.val f.name else f.zero)) }

end GErrTmpl

import Model.EnvTmpl
import Driver.Util
/-! Line protocol for `Model/EnvTmpl` (stateful: environment + loaded document).

Strings travel as `S<hex of UTF-8>` (`S` alone = empty string), map keys as `K<hex>`.
Trees in prefix notation: `S<hex>` | `N<nat>` | `L<n> t…` | `M<n> (K<hex> t)…` |
`W<n> (B<i>|D t)…` (switch: branch of value `i` / `default`).

    tmpl re S..            -> none | some S<name> - | some S<name> S<default>      (current matcher)
    tmpl relegacy S..      -> the same for the pinned-commit matcher
    tmpl env S<name> unset | tmpl env S<name> set S<value>      -> ok
    tmpl resolve S..       -> ok S<resulting string> | error        (MatchAndResolve via FromBytes+Get[string])
    tmpl resolvelegacy S..
    tmpl load <sel> <tree> -> ok | err                                              (FromBytes)
    tmpl loadlegacy <sel> <tree>
    tmpl get <dotted.path> -> <tree> | missing | nocfg                              (Get[any] / Get[string])
    tmpl dump              -> <tree> | nocfg
-/
namespace Drv.EnvTmpl
open _root_.EnvTmpl

structure St where
  env : List (Str × Str) := []
  cfg : Option Doc := none

def envOf (e : List (Str × Str)) : Env := fun n => e.lookup n

def hexVal (c : Char) : Option Nat :=
  if '0' ≤ c ∧ c ≤ '9' then some (c.toNat - '0'.toNat)
  else if 'a' ≤ c ∧ c ≤ 'f' then some (c.toNat - 'a'.toNat + 10)
  else none

def hexBytes : List Char → ByteArray → Option ByteArray
  | [], acc => some acc
  | [_], _ => none
  | a :: b :: rest, acc =>
    match hexVal a, hexVal b with
    | some x, some y => hexBytes rest (acc.push (UInt8.ofNat (x * 16 + y)))
    | _, _ => none

def unhex (s : String) : Option String :=
  match hexBytes s.toList ByteArray.empty with
  | some b => String.fromUTF8? b
  | none => none

def hexDigit (n : Nat) : Char := if n < 10 then Char.ofNat (48 + n) else Char.ofNat (87 + n)

def hex (s : String) : String :=
  String.ofList (s.toUTF8.toList.flatMap (fun b => [hexDigit (b.toNat / 16), hexDigit (b.toNat % 16)]))

/-- token `<tag><hex>` -/
def untok (tag : Char) (w : String) : Option String :=
  match w.toList with
  | c :: rest => if c = tag then unhex (String.ofList rest) else none
  | [] => none

def strTok (s : Str) : String := "S" ++ hex (String.ofList s)

def showMatch : Option (Str × Option Str) → String
  | none => "none"
  | some (n, none) => "some " ++ strTok n ++ " -"
  | some (n, some d) => "some " ++ strTok n ++ " " ++ strTok d

/-- what `FromBytes` + `Get[string]` can observe of `MatchAndResolve`: the resulting string -/
def showRes (s : Str) : Res → String
  | .untouched => "ok " ++ strTok s
  | .replaced v => "ok " ++ strTok v
  | .error => "error"

/-- parse one tree from a token list (fuel = number of tokens) -/
def parseTree : Nat → List String → Option (Doc × List String)
  | 0, _ => none
  | _, [] => none
  | fuel + 1, w :: ws =>
    match w.toList with
    | 'S' :: r => (unhex (String.ofList r)).map (fun s => (Doc.str s.toList, ws))
    | 'N' :: r => (String.ofList r).toNat?.map (fun n => (Doc.num n, ws))
    | 'L' :: r => match (String.ofList r).toNat? with
      | none => none
      | some n =>
        let rec items (k : Nat) (ws : List String) (acc : List Doc) : Option (List Doc × List String) :=
          match k with
          | 0 => some (acc.reverse, ws)
          | k + 1 => match parseTree fuel ws with
            | none => none
            | some (d, ws') => items k ws' (d :: acc)
        (items n ws []).map (fun p => (Doc.list p.1, p.2))
    | 'M' :: r => match (String.ofList r).toNat? with
      | none => none
      | some n =>
        let rec kvs (k : Nat) (ws : List String) (acc : List (String × Doc)) : Option (List (String × Doc) × List String) :=
          match k with
          | 0 => some (acc.reverse, ws)
          | k + 1 => match ws with
            | kw :: ws1 => match untok 'K' kw, parseTree fuel ws1 with
              | some key, some (d, ws') => kvs k ws' ((key, d) :: acc)
              | _, _ => none
            | [] => none
        (kvs n ws []).map (fun p => (Doc.map p.1, p.2))
    | 'W' :: r => match (String.ofList r).toNat? with
      | none => none
      | some n =>
        let rec bs (k : Nat) (ws : List String) (acc : List (Option Nat × Doc)) : Option (List (Option Nat × Doc) × List String) :=
          match k with
          | 0 => some (acc.reverse, ws)
          | k + 1 => match ws with
            | bw :: ws1 =>
              let key : Option (Option Nat) := match bw.toList with
                | ['D'] => some none
                | 'B' :: r => (String.ofList r).toNat?.map some
                | _ => none
              match key, parseTree fuel ws1 with
              | some key, some (d, ws') => bs k ws' ((key, d) :: acc)
              | _, _ => none
            | [] => none
        (bs n ws []).map (fun p => (Doc.switch p.1, p.2))
    | _ => none

partial def showTree : Doc → String
  | .str s => strTok s
  | .num n => "N" ++ toString n
  | .list xs => joinSp (("L" ++ toString xs.length) :: xs.map showTree)
  | .map kvs =>
    let sorted := kvs.toArray.qsort (fun a b => a.1 < b.1) |>.toList
    joinSp (("M" ++ toString kvs.length) :: sorted.map (fun kv => "K" ++ hex kv.1 ++ " " ++ showTree kv.2))
  | .switch bs =>
    joinSp (("W" ++ toString bs.length) :: bs.map (fun kv =>
      (match kv.1 with | none => "D" | some i => "B" ++ toString i) ++ " " ++ showTree kv.2))

def handle (st : St) (ws : List String) : St × String :=
  match ws with
  | ["re", s] => match untok 'S' s with
    | some s => (st, showMatch (matchTemplate s.toList))
    | none => (st, "bad-op")
  | ["relegacy", s] => match untok 'S' s with
    | some s => (st, showMatch (matchTemplateLegacy s.toList))
    | none => (st, "bad-op")
  | ["env", n, "unset"] => match untok 'S' n with
    | some n => ({ st with env := st.env.filter (fun kv => kv.1 ≠ n.toList) }, "ok")
    | none => (st, "bad-op")
  | ["env", n, "set", v] => match untok 'S' n, untok 'S' v with
    | some n, some v => ({ st with env := (n.toList, v.toList) :: st.env.filter (fun kv => kv.1 ≠ n.toList) }, "ok")
    | _, _ => (st, "bad-op")
  | ["resolve", s] => match untok 'S' s with
    | some s => (st, showRes s.toList (resolveStr (envOf st.env) s.toList))
    | none => (st, "bad-op")
  | ["resolvelegacy", s] => match untok 'S' s with
    | some s => (st, showRes s.toList (resolveStrLegacy (envOf st.env) s.toList))
    | none => (st, "bad-op")
  | op :: sel :: tree =>
    if op = "load" ∨ op = "loadlegacy" then
      match sel.toNat?, parseTree (tree.length + 1) tree with
      | some sel, some (d, []) =>
        let r := if op = "load" then load sel (envOf st.env) d else loadLegacy sel (envOf st.env) d
        match r with
        | .ok y => ({ st with cfg := some y }, "ok")
        | .error _ => ({ st with cfg := none }, "err")
      | _, _ => (st, "bad-op")
    else if op = "get" ∧ tree = [] then
      match st.cfg with
      | none => (st, "nocfg")
      | some y => match extract y (sel.splitOn ".") with
        | some v => (st, showTree v)
        | none => (st, "missing")
    else (st, "bad-op")
  | ["dump"] => match st.cfg with
    | none => (st, "nocfg")
    | some y => (st, showTree y)
  | _ => (st, "bad-op")

end Drv.EnvTmpl

import Model.Gencommon
import Lemmas.GencommonMerge
/-!
# Lemmas for C19 (c): the import line printed for an entry binds the alias the references use

`ImportString()` prints an import declaration with or without an explicit name
(`aliasIsPackageName`).  A declaration without a name binds the name in the package clause of the
imported package (`decl path`), which is not a function of the path (`m/pkg/v2`, `package pkg`).
`Binds decl ih`: for every entry of the handler the printed declaration binds exactly `Alias`, the
qualifier `addNamed` prints.  It holds for the handler `calcImports` builds from a type-checked file
whatever the explicit names are - equal to the directory name, to the declared name or to neither -
and it is preserved by `addNamed` / `ExtractTypeRef` / `MethodFromSignature` /
`namedTypeToInterface` on terms whose package names are the declared ones (what `go/types` reports).
-/
namespace Gencommon

theorem bound_eq (decl : Name → Name) (i : ImportDesc) :
    i.bound decl = if i.aliasIsPkgName then decl i.path else i.alias := by
  cases h : i.aliasIsPkgName <;> simp [ImportDesc.bound, ImportDesc.importSpec, boundName, h]

mutual
/-- every package a type term mentions, with the package name the term carries for it
(`(*types.Package).Name()`) -/
def pkgsOf : GoType → List (Name × Name)
  | .basic _ => []
  | .other _ => []
  | .ptr e => pkgsOf e
  | .slice e => pkgsOf e
  | .array _ e => pkgsOf e
  | .map k v => pkgsOf k ++ pkgsOf v
  | .named path pk _ targs => (path, pk) :: pkgsOfL targs
  | .func ps _ rs => pkgsOfPs ps ++ pkgsOfPs rs
def pkgsOfL : List GoType → List (Name × Name)
  | [] => []
  | t :: ts => pkgsOf t ++ pkgsOfL ts
def pkgsOfPs : List (Name × GoType) → List (Name × Name)
  | [] => []
  | p :: ps => pkgsOf p.2 ++ pkgsOfPs ps
end

/-- the package names in a list of (path, name) pairs are the declared ones -/
def NamedBy (decl : Name → Name) (l : List (Name × Name)) : Prop := ∀ e ∈ l, e.2 = decl e.1

theorem NamedBy.left {decl : Name → Name} {a b : List (Name × Name)} (h : NamedBy decl (a ++ b)) :
    NamedBy decl a := fun e he => h e (List.mem_append_left _ he)

theorem NamedBy.right {decl : Name → Name} {a b : List (Name × Name)} (h : NamedBy decl (a ++ b)) :
    NamedBy decl b := fun e he => h e (List.mem_append_right _ he)

/-- handler invariant: `PInfo.Imports` carries declared names, and the import declaration printed
for every entry binds that entry's `Alias` -/
structure Binds (decl : Name → Name) (ih : IH) : Prop where
  pinfo : ∀ e ∈ ih.pinfoImports, e.2 = decl e.1
  imports : ∀ i ∈ ih.imports, i.bound decl = i.alias

theorem markUsed_orig {p : Name} : ∀ (is : List ImportDesc) (j : ImportDesc), j ∈ markUsed p is →
    ∃ i ∈ is, j.alias = i.alias ∧ j.path = i.path ∧ j.aliasIsPkgName = i.aliasIsPkgName := by
  intro is
  induction is with
  | nil => intro j h; simp [markUsed] at h
  | cons x xs ih =>
    intro j h
    simp only [markUsed] at h
    by_cases hp : x.path = p
    · simp only [hp, if_true] at h
      rcases List.mem_cons.1 h with rfl | h
      · exact ⟨x, List.mem_cons_self, rfl, hp.symm, rfl⟩
      · exact ⟨j, List.mem_cons_of_mem _ h, rfl, rfl, rfl⟩
    · simp only [hp, if_false] at h
      rcases List.mem_cons.1 h with rfl | h
      · exact ⟨j, List.mem_cons_self, rfl, rfl, rfl⟩
      · obtain ⟨i, hi, h1⟩ := ih j h
        exact ⟨i, List.mem_cons_of_mem _ hi, h1⟩

/-- `addNamed`'s import step keeps the invariant when the package name it is given is the declared
one (the entry it may create has `Alias` = that name, printed with or without it) -/
theorem addImport_binds (decl : Name → Name) (ih : IH) (q nm : Name) (hb : Binds decl ih)
    (hnm : nm = decl q) : Binds decl (addImport ih q nm).1 := by
  unfold addImport
  split
  · exact hb
  · split
    · refine ⟨hb.pinfo, ?_⟩
      intro j hj
      obtain ⟨i, hi, h1, h2, h3⟩ := markUsed_orig ih.imports j hj
      have := hb.imports i hi
      rw [bound_eq] at this ⊢
      rw [h1, h2, h3]; exact this
    · refine ⟨hb.pinfo, ?_⟩
      intro j hj
      rcases List.mem_append.1 hj with hj | hj
      · exact hb.imports j hj
      · have hj' := List.mem_singleton.1 hj
        subst hj'
        split
        · rename_i e _ heq _
          -- entry taken from PInfo.Imports: its name is the declared one
          cases hf : ih.pinfoImports.find? (fun e => e.1 = q) with
          | none => simp [hf] at heq
          | some e' =>
            have hmem := List.mem_of_find?_eq_some hf
            have hq : e'.1 = q := by simpa using List.find?_some hf
            simp only [hf, Option.map_some, Option.some.injEq] at heq
            rw [bound_eq]
            simp only [if_true]
            rw [← heq, hb.pinfo e' hmem, hq]
        · rw [bound_eq]
          split
          · exact hnm.symm
          · rfl

mutual
theorem extract_binds (decl : Name → Name) (gs : List P → List P → List P × List P) :
    ∀ (t : GoType) (ih : IH), Binds decl ih → NamedBy decl (pkgsOf t) →
    Binds decl (extract gs ih t).1
  | .basic _, ih => by intro hb _; simpa only [extract] using hb
  | .other _, ih => by intro hb _; simpa only [extract] using hb
  | .ptr e, ih => by
    intro hb hn; simp only [extract]; exact extract_binds decl gs e ih hb (by simpa only [pkgsOf] using hn)
  | .slice e, ih => by
    intro hb hn; simp only [extract]; exact extract_binds decl gs e ih hb (by simpa only [pkgsOf] using hn)
  | .array _ e, ih => by
    intro hb hn; simp only [extract]; exact extract_binds decl gs e ih hb (by simpa only [pkgsOf] using hn)
  | .map k v, ih => by
    intro hb hn
    rw [pkgsOf] at hn
    simp only [extract]
    exact extract_binds decl gs v _ (extract_binds decl gs k ih hb hn.left) hn.right
  | .named path pk n targs, ih => by
    intro hb hn
    rw [pkgsOf] at hn
    simp only [extract]
    exact extractL_binds decl gs targs _
      (addImport_binds decl ih path pk hb (hn (path, pk) List.mem_cons_self))
      (fun e he => hn e (List.mem_cons_of_mem _ he))
  | .func ps _ rs, ih => by
    intro hb hn
    rw [pkgsOf] at hn
    simp only [extract]
    exact extractPs_binds decl gs rs _ (extractPs_binds decl gs ps ih hb hn.left) hn.right
theorem extractL_binds (decl : Name → Name) (gs : List P → List P → List P × List P) :
    ∀ (ts : List GoType) (ih : IH), Binds decl ih → NamedBy decl (pkgsOfL ts) →
    Binds decl (extractL gs ih ts).1
  | [], ih => by intro hb _; simpa only [extractL] using hb
  | t :: ts, ih => by
    intro hb hn
    rw [pkgsOfL] at hn
    simp only [extractL]
    exact extractL_binds decl gs ts _ (extract_binds decl gs t ih hb hn.left) hn.right
theorem extractPs_binds (decl : Name → Name) (gs : List P → List P → List P × List P) :
    ∀ (ps : List (Name × GoType)) (ih : IH), Binds decl ih → NamedBy decl (pkgsOfPs ps) →
    Binds decl (extractPs gs ih ps).1
  | [], ih => by intro hb _; simpa only [extractPs] using hb
  | p :: ps, ih => by
    intro hb hn
    rw [pkgsOfPs] at hn
    simp only [extractPs]
    exact extractPs_binds decl gs ps _ (extract_binds decl gs p.2 ih hb hn.left) hn.right
end

/-- the package names a signature carries are the declared ones -/
def SigNamedBy (decl : Name → Name) (s : Sig) : Prop :=
  NamedBy decl (pkgsOfPs s.params) ∧ NamedBy decl (pkgsOfPs s.results)

theorem methodFromSignature_binds (decl : Name → Name) (gs : List P → List P → List P × List P)
    (ih : IH) (s : Sig) (hb : Binds decl ih) (hn : SigNamedBy decl s) :
    Binds decl (methodFromSignature gs ih s).1 := by
  simp only [methodFromSignature]
  exact extractPs_binds decl gs s.results _ (extractPs_binds decl gs s.params ih hb hn.1) hn.2

/-! ### a state invariant through `namedTypeToInterface`, for trees whose nodes satisfy a predicate -/

mutual
/-- every `self` term of the tree satisfies `Pρ`, every method signature `Pσ` -/
def TreeAll {ρ σ : Type} (Pρ : ρ → Prop) (Pσ : σ → Prop) : Ty ρ σ → Prop
  | .mk self own emb => Pρ self ∧ (∀ m ∈ own, Pσ m.2) ∧ TreeAllL Pρ Pσ emb
def TreeAllL {ρ σ : Type} (Pρ : ρ → Prop) (Pσ : σ → Prop) : List (Ty ρ σ) → Prop
  | [] => True
  | t :: ts => TreeAll Pρ Pσ t ∧ TreeAllL Pρ Pσ ts
end

theorem visitOwn_pres {σ τ S : Type} (I : S → Prop) (Pσ : σ → Prop) (visit : S → σ → S × τ)
    (hvisit : ∀ s x, Pσ x → I s → I (visit s x).1) (o : Opts) : ∀ (own : List (Name × σ)) (s : S),
    (∀ m ∈ own, Pσ m.2) → I s → I (visitOwn visit o s own).1 := by
  intro own
  induction own with
  | nil => intro s _ hs; exact hs
  | cons m ms ih =>
    intro s hm hs
    have hms : ∀ m' ∈ ms, Pσ m'.2 := fun m' h' => hm m' (List.mem_cons_of_mem _ h')
    simp only [visitOwn]
    split
    · exact ih _ hms (hvisit s m.2 (hm m List.mem_cons_self) hs)
    · exact ih s hms hs

mutual
theorem nti_pres {ρ σ τ S : Type} (I : S → Prop) (Pρ : ρ → Prop) (Pσ : σ → Prop)
    (enter : S → ρ → S) (visit : S → σ → S × τ)
    (henter : ∀ s r, Pρ r → I s → I (enter s r)) (hvisit : ∀ s x, Pσ x → I s → I (visit s x).1)
    (propagate : Bool) (o : Opts) : ∀ (t : Ty ρ σ) (s : S),
    TreeAll Pρ Pσ t → I s → I (nti enter visit propagate o s t).1
  | .mk self own emb, s => by
    intro ht hs
    rw [TreeAll] at ht
    have h1 := visitOwn_pres I Pσ visit hvisit o own (enter s self) ht.2.1 (henter s self ht.1 hs)
    rw [nti]
    by_cases ho : o.embedded = true
    · simp only [ho, Bool.not_true, Bool.false_eq_true, if_false]
      exact ntiEmb_pres I Pρ Pσ enter visit henter hvisit propagate o emb _ _ ht.2.2 h1
    · have ho' : o.embedded = false := by simpa using ho
      simp only [ho', Bool.not_false, if_true]
      exact h1
theorem ntiEmb_pres {ρ σ τ S : Type} (I : S → Prop) (Pρ : ρ → Prop) (Pσ : σ → Prop)
    (enter : S → ρ → S) (visit : S → σ → S × τ)
    (henter : ∀ s r, Pρ r → I s → I (enter s r)) (hvisit : ∀ s x, Pσ x → I s → I (visit s x).1)
    (propagate : Bool) (o : Opts) : ∀ (ts : List (Ty ρ σ)) (s : S) (st : Merge τ),
    TreeAllL Pρ Pσ ts → I s → I (ntiEmb enter visit propagate o s ts st).1
  | [], s, st => by
    intro _ hs
    rw [ntiEmb]
    exact hs
  | t :: ts, s, st => by
    intro ht hs
    rw [TreeAllL] at ht
    rw [ntiEmb]
    exact ntiEmb_pres I Pρ Pσ enter visit henter hvisit propagate o ts _ _ ht.2
      (nti_pres I Pρ Pσ enter visit henter hvisit propagate o t s ht.1 hs)
end

/-- a declared embedding tree all of whose type terms carry declared package names -/
def TreeNamedBy (decl : Name → Name) (t : Ty GoType Sig) : Prop :=
  TreeAll (fun r => NamedBy decl (pkgsOf r)) (SigNamedBy decl) t

theorem nti_binds (decl : Name → Name) (gs : List P → List P → List P × List P) (propagate : Bool)
    (o : Opts) (ih : IH) (t : Ty GoType Sig) (hb : Binds decl ih) (ht : TreeNamedBy decl t) :
    Binds decl (nti (fun ih self => (extract gs ih self).1) (methodFromSignature gs) propagate o ih t).1 :=
  nti_pres (Binds decl) (fun r => NamedBy decl (pkgsOf r)) (SigNamedBy decl) _ _
    (fun s r hr hs => extract_binds decl gs r s hs hr)
    (fun s x hx hs => methodFromSignature_binds decl gs s x hs hx) propagate o t ih ht hb

/-- when every printed declaration binds its entry's `Alias`, resolving a qualifier against the
printed import block is resolving it against the `Alias` fields -/
theorem resolveBound_eq_resolveAlias (decl : Name → Name) (act : List ImportDesc)
    (h : ∀ i ∈ act, i.bound decl = i.alias) (a : Name) :
    resolveBound decl act a = resolveAlias act a := by
  unfold resolveBound resolveAlias
  rw [List.filter_congr (q := fun i => decide (i.alias = a))]
  intro i hi
  rw [h i hi]

end Gencommon

package main

import (
	"fmt"
	"math/rand"
	"os"
	"os/exec"
	"path/filepath"
	"strconv"
	"strings"
	"sync"

	"github.com/drshriveer/gtools/gerror"
	"verif/harness/cmd/h-gerrclone/sites"
)

// Shared package-level factories, as a program using gerror would declare them.
var (
	ErrRaceA = gerror.FactoryOf(&gerror.GError{Name: "ErrRaceA"})
	ErrRaceB = gerror.FactoryOf(&gerror.GError{Name: "ErrRaceB", Message: "preset message"})
	ErrRaceC = gerror.FactoryOf(&gerror.GError{Name: "ErrRaceC", Message: "m", Source: "preset:Source"})
	// bare roots, declared without FactoryOf - the way gsync.ErrWGTimeout and gconfig.ErrFailedParsing are
	ErrRaceD gerror.Factory = &gerror.GError{Name: "ErrRaceD", Message: "bare root"}
	ErrRaceE gerror.Factory = &gerror.GError{Name: "ErrRaceE"}
	raceFacs                = []gerror.Factory{ErrRaceA, ErrRaceB, ErrRaceC, ErrRaceD, ErrRaceE}
)

type raceStep struct {
	site string
	call sites.Call
}

type raceChain struct {
	fac   int
	steps []raceStep
}

func genRaceChains(seed int64, n int) []raceChain {
	rng := rand.New(rand.NewSource(seed))
	g := &c15gen{rng: rng}
	out := make([]raceChain, n)
	for i := range out {
		ch := raceChain{fac: rng.Intn(len(raceFacs))}
		for k := rng.Intn(9); k > 0; k-- {
			m := methodNames[rng.Intn(len(methodNames))]
			switch rng.Intn(10) {
			case 0:
				m = "ExtMsgf"
			case 1:
				m = "ExtMsgfForeign" // all goroutines derive from the package's own ErrUnknown
			}
			st := raceStep{site: g.randSite(), call: sites.Call{Method: m, Src: randArg(rng), DTag: randArg(rng), Format: randArg(rng)}}
			for _, e := range randElems(rng) {
				st.call.Elems = append(st.call.Elems, e.Value())
			}
			st.call.Err = elemSpec{Kind: []string{"N", "W", "Z", "C", "P"}[rng.Intn(5)], Val: randArg(rng)}.ErrValue()
			ch.steps = append(ch.steps, st)
		}
		out[i] = ch
	}
	return out
}

// runChains is the body of every goroutine: derive along each chain, observing every result.
func runChains(chains []raceChain, t *sites.T, g *sites.G[int]) []string {
	var obs []string
	for _, ch := range chains {
		var cur gerror.Factory = raceFacs[ch.fac]
		for i := range ch.steps {
			res, _ := dispatchSite(t, g, ch.steps[i].site, cur, &ch.steps[i].call)
			obs = append(obs, obsOf(res))
			cur = res.(gerror.Factory)
		}
	}
	return obs
}

func facObs() string {
	var p []string
	for _, f := range raceFacs {
		p = append(p, obsOf(f.(gerror.Error)))
	}
	return strings.Join(p, " | ")
}

// raceChild is what the -race build of this binary runs: args = seed, n.
func raceChild(args []string) int {
	if len(args) != 2 {
		return 2
	}
	seed, _ := strconv.ParseInt(args[0], 10, 64)
	n, _ := strconv.Atoi(args[1])
	chains := genRaceChains(seed, n)
	t, g := &sites.T{}, &sites.G[int]{}
	before := facObs()
	var ref []string
	var wg sync.WaitGroup
	// the concurrent derivations come FIRST, on factories nothing has derived from yet (a write that
	// only the first derivation from a factory performs is then made by racing goroutines); the
	// sequential reference run follows
	const workers = 16
	results := make([][]string, workers)
	start := make(chan struct{})
	for w := 0; w < workers; w++ {
		wg.Add(1)
		go func(w int) {
			defer wg.Done()
			<-start
			results[w] = runChains(chains, t, g)
		}(w)
	}
	close(start)
	wg.Wait()
	wg.Add(1)
	go func() { defer wg.Done(); ref = runChains(chains, t, g) }()
	wg.Wait()
	verdict := "results-equal"
	for w := range results {
		if len(results[w]) != len(ref) {
			verdict = "results-differ"
			break
		}
		for i := range ref {
			if results[w][i] != ref[i] {
				verdict = "results-differ"
				fmt.Fprintf(os.Stderr, "worker %d obs %d: %s vs %s\n", w, i, results[w][i], ref[i])
				break
			}
		}
	}
	if facObs() != before {
		verdict = "factory-changed"
	}
	fmt.Println(verdict, len(ref))
	return 0
}

func harnessDir() string {
	if d := os.Getenv("VERIF_HARNESS_DIR"); d != "" {
		return d
	}
	if wd, err := os.Getwd(); err == nil {
		if _, err := os.Stat(filepath.Join(wd, "cmd", "h-gerrclone")); err == nil {
			return wd
		}
	}
	if exe, err := os.Executable(); err == nil {
		d := filepath.Join(filepath.Dir(exe), "..", "harness")
		if _, err := os.Stat(filepath.Join(d, "cmd", "h-gerrclone")); err == nil {
			return d
		}
	}
	return ""
}

// execRace: `ge race <seed> <n>` — build this command with -race into a scratch dir, run the child.
func (im *geImpl) execRace(ws []string) string {
	if len(ws) != 2 {
		return "bad-op"
	}
	hd := harnessDir()
	if hd == "" {
		return "race-build-failed no-harness-dir"
	}
	tmp, err := os.MkdirTemp("", "verif-c15-race-")
	if err != nil {
		return "race-build-failed tmp"
	}
	defer os.RemoveAll(tmp)
	bin := filepath.Join(tmp, "h-race")
	b := exec.Command("go", "build", "-race", "-o", bin, "./cmd/h-gerrclone")
	b.Dir = hd
	if out, err := b.CombinedOutput(); err != nil {
		fmt.Fprintln(os.Stderr, string(out))
		return "race-build-failed"
	}
	c := exec.Command(bin, "-racechild", ws[0], ws[1])
	c.Env = append(os.Environ(), "GORACE=exitcode=66 halt_on_error=0")
	var so, se strings.Builder
	c.Stdout, c.Stderr = &so, &se
	err = c.Run()
	race := "race-free"
	if strings.Contains(se.String(), "DATA RACE") {
		race = "race-detected"
		fmt.Fprintln(os.Stderr, se.String()[:min(len(se.String()), 3000)])
	} else if err != nil {
		fmt.Fprintln(os.Stderr, se.String()[:min(len(se.String()), 3000)])
		return "race-child-failed"
	}
	f := strings.Fields(so.String())
	if len(f) == 0 {
		return race + " no-verdict"
	}
	return race + " " + f[0]
}

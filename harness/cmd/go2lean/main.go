// go2lean: tie A by translation.  Reads a Go source file of /repo and writes, for each selected
// function, a Lean definition that follows the Go body statement by statement (a `do` block in the
// monad Go.M of lean/Model/GoPrelude.lean).  Theorems in lean/Properties then prove "generated
// definition = hand-written model" for ALL inputs, so the hand-written model (about which the
// property theorems are proved) is re-tied to what the code says now on every run.
//
// The fragment is deliberately small: parameters and locals, `:=`, `=`, `op=`, `x++`, `var x []T`,
// `for _, v := range <slice>`, `for k := range <map>`, `if [init;] cond {} else {}`, early `return`,
// map-as-set primitives (`m[k] = setVal`, `_, ok := m[k]`, `delete`, `len`, `make`), slice
// primitives (`make([]T, n)`, `s[i] = v`, `len`, nil), uint64 bit operators, boolean operators,
// conversions to the bit-set type, calls of other translated functions.  Anything else makes the
// translator FAIL (exit 1): the code has left the fragment, the tie is broken, `check` reports it.
//
// The translator does not type-check; it tracks a coarse kind per variable (u64, bool, int, elem,
// list, slice, map) from the declared parameter types and from initialisers, which is all the
// fragment needs to pick the right primitive.
package main

import (
	"bytes"
	"flag"
	"fmt"
	"go/ast"
	"go/parser"
	"go/printer"
	"go/token"
	"os"
	"path/filepath"
	"sort"
	"strings"
)

type spec struct {
	file   string            // relative to the repository root
	module string            // Lean module / namespace
	out    string            // relative to the harness directory
	types  map[string]string // Go type name -> kind (generic parameter and named types of the file)
	recvNS map[string]string // receiver type name -> prefix of the Lean name
	funcs  []string          // functions to translate: `Name` or `Recv.Name`, in output order
	header string
	elem   bool // the definitions are generic in an element type α
	// decls: type declarations the kinds above rely on, as `go/printer` renders their right-hand sides
	decls map[string]string
}

var specs = map[string]*spec{
	"bitset": {
		file: "set/bit_set.go", module: "Generated.GoBitSet", out: "../lean/Generated/GoBitSet.lean",
		types:  map[string]string{"T": "u64", "BitSet": "u64", "bool": "bool"},
		recvNS: map[string]string{"BitSet": "BitSet"},
		funcs:  []string{"MakeBitSet", "BitSet.Add", "BitSet.Remove", "BitSet.MaskOf", "BitSet.Has", "BitSet.HasAny"},
		decls:  map[string]string{"BitSet": "uint64", "anyUint": "interface { ~uint64 | ~uint32 | ~uint16 | ~uint8 | ~uint }"},
		header: "`BitSet[T]` and the flag type `T` (any unsigned integer type, converted with `BitSet[T](x)`, i.e. zero\nextended) are both `Go.U64`.",
	},
	"set": {
		file: "set/set.go", module: "Generated.GoSet", out: "../lean/Generated/GoSet.lean",
		types:  map[string]string{"T": "elem", "Set": "map", "bool": "bool", "int": "int"},
		recvNS: map[string]string{"Set": "Set"},
		funcs:  []string{"Make", "Set.Slice", "Set.Add", "Set.AddSet", "Set.Remove", "Set.RemoveSet", "Set.Has", "Set.HasAny"},
		decls:  map[string]string{"Set": "map[T]struct{}"},
		header: "`Set[T]` is `Go.GMap α` (nil or allocated, keys in walk order), `[]T` is `Go.Slice α`, a variadic\n`...T` is a `List α`.  A method that writes through its receiver (pointer receiver, or a map receiver\nit inserts into / deletes from) returns the receiver's new value next to its result.\nNot translated: the four Marshal/Unmarshal methods (they call encoding/json and yaml.v3; modelled in\n`SetM.Codec` with the codec as a parameter).",
		elem:   true,
	},
}

// runners: the special-purpose translations; each lives in its own file and registers itself in an
// init function (`register("name", "../lean/Generated/X.lean", runX)`), so adding one touches no shared code.
type runner struct {
	out string
	run func(repo, out string)
}

var runners = map[string]runner{}

func register(name, out string, run func(repo, out string)) { runners[name] = runner{out, run} }

func init() {
	register("clonebase", "../lean/Generated/GoCloneBase.lean", runCloneBase)
	register("gconfigbuilder", "../lean/Generated/GoGConfigBuilder.lean", runGConfigBuilder)
	register("gconfigextract", "../lean/Generated/GoGConfigExtract.lean", runGConfigExtract)
	register("genumvalues", "../lean/Generated/GoGenumValues.lean", runGenumValues)
}

var fset = token.NewFileSet()

func fail(format string, a ...any) {
	fmt.Fprintf(os.Stderr, "go2lean: "+format+"\n", a...)
	os.Exit(1)
}

func src(n ast.Node) string {
	var b bytes.Buffer
	printer.Fprint(&b, fset, n)
	return strings.Join(strings.Fields(b.String()), " ")
}

func at(n ast.Node) string { p := fset.Position(n.Pos()); return fmt.Sprintf("%s:%d", filepath.Base(p.Filename), p.Line) }

// ---- kinds ----

type fnInfo struct {
	decl     *ast.FuncDecl
	lean     string // Lean name
	recv     string // receiver variable ("" for a plain function)
	recvKind string
	mutRecv  bool   // writes through the receiver
	retKind  string // kind of the single result ("" = none)
	params   []param
}

type param struct {
	name, kind string
}

type tr struct {
	sp    *spec
	fns   map[string]*fnInfo // key: `Name` or `RecvType.Name`
	cur   *fnInfo
	env   []map[string]string
	out   *strings.Builder
	tmpN  int
}

func (t *tr) kindOfType(e ast.Expr) string {
	switch x := e.(type) {
	case *ast.Ident:
		if k, ok := t.sp.types[x.Name]; ok {
			return k
		}
	case *ast.IndexExpr: // BitSet[T], Set[T]
		return t.kindOfType(x.X)
	case *ast.StarExpr:
		return t.kindOfType(x.X)
	case *ast.ArrayType:
		if x.Len == nil {
			return "slice:" + t.kindOfType(x.Elt)
		}
	case *ast.Ellipsis:
		return "list:" + t.kindOfType(x.Elt)
	}
	fail("%s: type `%s` is outside the translated fragment", at(e), src(e))
	return ""
}

func (t *tr) leanType(kind string) string {
	switch {
	case kind == "u64":
		return "Go.U64"
	case kind == "bool":
		return "Bool"
	case kind == "int":
		return "Nat"
	case kind == "elem":
		return "α"
	case kind == "map":
		return "Go.GMap α"
	case strings.HasPrefix(kind, "slice:"):
		return "Go.Slice " + t.leanType(kind[6:])
	case strings.HasPrefix(kind, "list:"):
		return "List " + t.leanType(kind[5:])
	}
	fail("no Lean type for kind %q", kind)
	return ""
}

func (t *tr) push()                  { t.env = append(t.env, map[string]string{}) }
func (t *tr) pop()                   { t.env = t.env[:len(t.env)-1] }
func (t *tr) bind(name, kind string) { t.env[len(t.env)-1][name] = kind }
func (t *tr) lookup(name string) (string, bool) {
	for i := len(t.env) - 1; i >= 0; i-- {
		if k, ok := t.env[i][name]; ok {
			return k, true
		}
	}
	return "", false
}

var leanKeywords = map[string]bool{"end": true, "at": true, "from": true, "in": true, "do": true, "then": true, "fun": true, "let": true,
	"have": true, "show": true, "open": true, "by": true, "with": true, "match": true, "where": true, "def": true, "instance": true,
	"variable": true, "namespace": true, "section": true, "import": true, "if": true, "else": true, "for": true, "return": true,
	"mut": true, "unless": true, "try": true, "catch": true, "finally": true, "theorem": true, "example": true, "structure": true,
	"class": true, "inductive": true, "Type": true, "Prop": true, "Sort": true, "local": true, "private": true, "using": true, "calc": true, "nomatch": true, "set_option": true}

func name(n string) string {
	if leanKeywords[n] {
		return "«" + n + "»"
	}
	return n
}

// ---- expressions ----

// recvBase: `s`, `*s`, `(*s)` -> s
func recvBase(e ast.Expr) (string, bool) {
	for {
		switch x := e.(type) {
		case *ast.ParenExpr:
			e = x.X
		case *ast.StarExpr:
			e = x.X
		case *ast.Ident:
			return x.Name, true
		default:
			return "", false
		}
	}
}

func (t *tr) kindOf(e ast.Expr) string {
	switch x := e.(type) {
	case *ast.ParenExpr:
		return t.kindOf(x.X)
	case *ast.StarExpr:
		return t.kindOf(x.X)
	case *ast.Ident:
		switch x.Name {
		case "true", "false":
			return "bool"
		case "nil":
			return "nil"
		}
		if k, ok := t.lookup(x.Name); ok {
			return k
		}
		fail("%s: identifier `%s` is not a parameter or local of the translated function", at(e), x.Name)
	case *ast.BasicLit:
		if x.Kind == token.INT {
			return "int"
		}
	case *ast.UnaryExpr:
		if x.Op == token.NOT {
			return "bool"
		}
		return t.kindOf(x.X)
	case *ast.BinaryExpr:
		switch x.Op {
		case token.EQL, token.NEQ, token.LSS, token.GTR, token.LEQ, token.GEQ, token.LAND, token.LOR:
			return "bool"
		}
		k := t.kindOf(x.X)
		if k == "int" {
			if k2 := t.kindOf(x.Y); k2 != "int" {
				return k2
			}
		}
		return k
	case *ast.CallExpr:
		if id, ok := x.Fun.(*ast.Ident); ok {
			switch id.Name {
			case "len":
				return "int"
			case "make":
				return t.kindOfType(x.Args[0])
			}
			if f, ok := t.fns[id.Name]; ok {
				return f.retKind
			}
		}
		if ix, ok := x.Fun.(*ast.IndexExpr); ok { // conversion BitSet[T](x) or generic call F[T](…)
			if id, ok := ix.X.(*ast.Ident); ok {
				if f, ok := t.fns[id.Name]; ok {
					return f.retKind
				}
				if k, ok := t.sp.types[id.Name]; ok {
					return k
				}
			}
		}
		if sel, ok := x.Fun.(*ast.SelectorExpr); ok {
			if f := t.method(sel); f != nil {
				return f.retKind
			}
		}
	}
	fail("%s: expression `%s` is outside the translated fragment", at(e), src(e))
	return ""
}

// method: the translated method a selector call refers to (by the kind of its receiver expression)
func (t *tr) method(sel *ast.SelectorExpr) *fnInfo {
	rk := t.kindOf(sel.X)
	for key, f := range t.fns {
		if f.recv != "" && f.recvKind == rk && strings.HasSuffix(key, "."+sel.Sel.Name) {
			return f
		}
	}
	return nil
}

func (t *tr) args(call *ast.CallExpr) string {
	var as []string
	for i, a := range call.Args {
		s := t.expr(a)
		if call.Ellipsis.IsValid() && i == len(call.Args)-1 {
			if strings.HasPrefix(t.kindOf(a), "slice:") {
				s = "(Go.sliceElems " + s + ")"
			}
		}
		as = append(as, s)
	}
	return strings.Join(as, " ")
}

func (t *tr) expr(e ast.Expr) string {
	switch x := e.(type) {
	case *ast.ParenExpr:
		return t.expr(x.X)
	case *ast.StarExpr:
		return t.expr(x.X)
	case *ast.Ident:
		switch x.Name {
		case "true", "false":
			return x.Name
		}
		if _, ok := t.lookup(x.Name); ok {
			return name(x.Name)
		}
		fail("%s: identifier `%s` is not a parameter or local of the translated function", at(e), x.Name)
	case *ast.BasicLit:
		if x.Kind == token.INT {
			return x.Value
		}
	case *ast.UnaryExpr:
		switch x.Op {
		case token.NOT:
			return "(!" + t.expr(x.X) + ")"
		case token.XOR:
			if t.kindOf(x.X) == "u64" {
				return "(~~~" + t.expr(x.X) + ")"
			}
		}
	case *ast.BinaryExpr:
		kx, ky := t.kindOf(x.X), t.kindOf(x.Y)
		if (x.Op == token.EQL || x.Op == token.NEQ) && (kx == "nil" || ky == "nil") {
			o, k := x.X, kx
			if kx == "nil" {
				o, k = x.Y, ky
			}
			var s string
			switch {
			case k == "map":
				s = "(Go.mapIsNil " + t.expr(o) + ")"
			case strings.HasPrefix(k, "slice:"):
				s = "(Option.isNone " + t.expr(o) + ")"
			default:
				fail("%s: comparison of a %s with nil", at(e), k)
			}
			if x.Op == token.NEQ {
				s = "(!" + s + ")"
			}
			return s
		}
		a, b := t.expr(x.X), t.expr(x.Y)
		bits := kx == "u64" || ky == "u64"
		switch x.Op {
		case token.OR:
			if bits {
				return "(" + a + " ||| " + b + ")"
			}
		case token.AND:
			if bits {
				return "(" + a + " &&& " + b + ")"
			}
		case token.AND_NOT:
			if bits {
				return "(" + a + " &&& ~~~" + b + ")"
			}
		case token.XOR:
			if bits {
				return "(" + a + " ^^^ " + b + ")"
			}
		case token.EQL:
			return "(" + a + " == " + b + ")"
		case token.NEQ:
			return "(" + a + " != " + b + ")"
		case token.LOR:
			return "(" + a + " || " + b + ")"
		case token.LAND:
			return "(" + a + " && " + b + ")"
		case token.LSS:
			if kx == "int" && ky == "int" {
				return "(decide (" + a + " < " + b + "))"
			}
		case token.GTR:
			if kx == "int" && ky == "int" {
				return "(decide (" + a + " > " + b + "))"
			}
		case token.ADD:
			if kx == "int" && ky == "int" {
				return "(" + a + " + " + b + ")"
			}
		}
	case *ast.CallExpr:
		if id, ok := x.Fun.(*ast.Ident); ok {
			switch id.Name {
			case "len":
				k := t.kindOf(x.Args[0])
				switch {
				case k == "map":
					return "(Go.mapLen " + t.expr(x.Args[0]) + ")"
				case strings.HasPrefix(k, "list:"):
					return "(List.length " + t.expr(x.Args[0]) + ")"
				case strings.HasPrefix(k, "slice:"):
					return "(Go.sliceLen " + t.expr(x.Args[0]) + ")"
				}
			case "make":
				k := t.kindOfType(x.Args[0])
				n := "0"
				if len(x.Args) >= 2 {
					n = t.expr(x.Args[1])
				}
				switch {
				case k == "map":
					return "(Go.mapMake " + n + ")"
				case strings.HasPrefix(k, "slice:") && len(x.Args) == 2:
					return "(Go.sliceMake " + n + ")"
				}
			}
			if f, ok := t.fns[id.Name]; ok && f.recv == "" {
				return "(← " + f.lean + " " + t.args(x) + ")"
			}
		}
		if ix, ok := x.Fun.(*ast.IndexExpr); ok {
			if id, ok := ix.X.(*ast.Ident); ok {
				if f, ok := t.fns[id.Name]; ok && f.recv == "" {
					return "(← " + f.lean + " " + t.args(x) + ")"
				}
				if k, ok := t.sp.types[id.Name]; ok && k == "u64" && len(x.Args) == 1 { // conversion
					if lit, ok := x.Args[0].(*ast.BasicLit); ok && lit.Kind == token.INT {
						return "(" + lit.Value + " : Go.U64)"
					}
					if t.kindOf(x.Args[0]) == "u64" {
						return t.expr(x.Args[0])
					}
				}
			}
		}
		if sel, ok := x.Fun.(*ast.SelectorExpr); ok {
			if f := t.method(sel); f != nil {
				if f.mutRecv {
					fail("%s: call of `%s`, which writes through its receiver, inside an expression", at(e), src(x.Fun))
				}
				return strings.TrimSpace("(← " + f.lean + " " + t.expr(sel.X) + " " + t.args(x)) + ")"
			}
		}
	}
	fail("%s: expression `%s` is outside the translated fragment", at(e), src(e))
	return ""
}

// ---- statements ----

func (t *tr) line(ind int, s string) { t.out.WriteString(strings.Repeat("  ", ind) + s + "\n") }

// unitVars: package-level variables initialised with the empty struct value `struct{}{}`
var unitVars = map[string]bool{}

func isSetVal(e ast.Expr) bool {
	if id, ok := e.(*ast.Ident); ok && unitVars[id.Name] {
		return true
	}
	if cl, ok := e.(*ast.CompositeLit); ok && len(cl.Elts) == 0 {
		if st, ok := cl.Type.(*ast.StructType); ok && len(st.Fields.List) == 0 {
			return true
		}
	}
	return false
}

func (t *tr) assignTo(ind int, lhs ast.Expr, rhs string, lazy bool) {
	if v, ok := recvBase(lhs); ok {
		if _, known := t.lookup(v); !known {
			fail("%s: assignment to `%s`, which is not a parameter or local", at(lhs), v)
		}
		if lazy {
			t.line(ind, name(v)+" ← "+rhs)
		} else {
			t.line(ind, name(v)+" := "+rhs)
		}
		return
	}
	fail("%s: assignment target `%s` is outside the translated fragment", at(lhs), src(lhs))
}

func (t *tr) stmt(ind int, s ast.Stmt) {
	switch x := s.(type) {
	case *ast.BlockStmt:
		t.block(ind, x)
	case *ast.DeclStmt:
		gd, ok := x.Decl.(*ast.GenDecl)
		if ok && gd.Tok == token.VAR && len(gd.Specs) == 1 {
			vs := gd.Specs[0].(*ast.ValueSpec)
			if len(vs.Names) == 1 && len(vs.Values) == 0 && vs.Type != nil {
				k := t.kindOfType(vs.Type)
				zero := ""
				switch {
				case strings.HasPrefix(k, "slice:"):
					zero = "Go.sliceNil"
				case k == "bool":
					zero = "false"
				case k == "int":
					zero = "0"
				case k == "u64":
					zero = "0"
				case k == "map":
					zero = "none"
				default:
					fail("%s: zero value of `%s`", at(s), src(vs.Type))
				}
				t.bind(vs.Names[0].Name, k)
				t.line(ind, "let mut "+name(vs.Names[0].Name)+" : "+t.leanType(k)+" := "+zero)
				return
			}
		}
		fail("%s: declaration `%s` is outside the translated fragment", at(s), src(s))
	case *ast.AssignStmt:
		t.assign(ind, x)
	case *ast.IncDecStmt:
		if t.kindOf(x.X) != "int" {
			fail("%s: `%s` on a non-int", at(s), src(s))
		}
		op := " + 1"
		if x.Tok == token.DEC {
			op = " - 1"
		}
		t.assignTo(ind, x.X, t.expr(x.X)+op, false)
	case *ast.ExprStmt:
		call, ok := x.X.(*ast.CallExpr)
		if !ok {
			fail("%s: statement `%s` is outside the translated fragment", at(s), src(s))
		}
		if id, ok := call.Fun.(*ast.Ident); ok && id.Name == "delete" && len(call.Args) == 2 {
			if t.kindOf(call.Args[0]) != "map" {
				fail("%s: delete on a non-map", at(s))
			}
			t.assignTo(ind, call.Args[0], "Go.mapDelete "+t.expr(call.Args[0])+" "+t.expr(call.Args[1]), false)
			return
		}
		if sel, ok := call.Fun.(*ast.SelectorExpr); ok {
			if f := t.method(sel); f != nil && f.mutRecv {
				t.tmpN++
				tmp := fmt.Sprintf("r%d", t.tmpN)
				t.line(ind, strings.TrimSpace("let "+tmp+" ← "+f.lean+" "+t.expr(sel.X)+" "+t.args(call)))
				t.assignTo(ind, sel.X, tmp+".1", false)
				return
			}
		}
		fail("%s: statement `%s` is outside the translated fragment", at(s), src(s))
	case *ast.IfStmt:
		t.ifStmt(ind, x)
	case *ast.RangeStmt:
		t.rangeStmt(ind, x)
	case *ast.ReturnStmt:
		t.ret(ind, x)
	default:
		fail("%s: statement `%s` is outside the translated fragment", at(s), src(s))
	}
}

func (t *tr) block(ind int, b *ast.BlockStmt) {
	t.push()
	if len(b.List) == 0 {
		t.line(ind, "pure ()")
	}
	for _, s := range b.List {
		t.stmt(ind, s)
	}
	t.pop()
}

func (t *tr) assign(ind int, x *ast.AssignStmt) {
	// comma-ok map lookup
	if len(x.Lhs) == 2 && len(x.Rhs) == 1 {
		ix, isIx := x.Rhs[0].(*ast.IndexExpr)
		blank, isBlank := x.Lhs[0].(*ast.Ident)
		okv, isID := x.Lhs[1].(*ast.Ident)
		if isIx && isBlank && blank.Name == "_" && isID && t.kindOf(ix.X) == "map" {
			rhs := "Go.mapHas " + t.expr(ix.X) + " " + t.expr(ix.Index)
			if x.Tok == token.DEFINE {
				t.bind(okv.Name, "bool")
				t.line(ind, "let mut "+name(okv.Name)+" := "+rhs)
			} else {
				t.assignTo(ind, okv, rhs, false)
			}
			return
		}
	}
	if len(x.Lhs) != 1 || len(x.Rhs) != 1 {
		fail("%s: assignment `%s` is outside the translated fragment", at(x), src(x))
	}
	lhs, rhs := x.Lhs[0], x.Rhs[0]
	switch x.Tok {
	case token.DEFINE:
		id, ok := lhs.(*ast.Ident)
		if !ok {
			fail("%s: `%s`", at(x), src(x))
		}
		k := t.kindOf(rhs)
		if k == "int" {
			// an untyped constant initialiser: int
		}
		r := t.expr(rhs)
		t.bind(id.Name, k)
		ty := ""
		if k != "nil" {
			ty = " : " + t.leanType(k)
		}
		t.line(ind, "let mut "+name(id.Name)+ty+" := "+r)
	case token.ASSIGN:
		if ix, ok := lhs.(*ast.IndexExpr); ok {
			base, okb := recvBase(ix.X)
			if !okb {
				fail("%s: `%s`", at(x), src(x))
			}
			k := t.kindOf(ix.X)
			switch {
			case k == "map":
				if !isSetVal(rhs) {
					fail("%s: a map is written with a value other than the empty struct: `%s`", at(x), src(x))
				}
				t.line(ind, name(base)+" ← Go.mapSet "+name(base)+" "+t.expr(ix.Index))
			case strings.HasPrefix(k, "slice:"):
				t.line(ind, name(base)+" ← Go.sliceSet "+name(base)+" "+t.expr(ix.Index)+" "+t.expr(rhs))
			default:
				fail("%s: indexed assignment into a %s", at(x), k)
			}
			return
		}
		t.assignTo(ind, lhs, t.expr(rhs), false)
	case token.OR_ASSIGN, token.AND_ASSIGN, token.AND_NOT_ASSIGN, token.XOR_ASSIGN, token.ADD_ASSIGN:
		op := map[token.Token]token.Token{token.OR_ASSIGN: token.OR, token.AND_ASSIGN: token.AND, token.AND_NOT_ASSIGN: token.AND_NOT,
			token.XOR_ASSIGN: token.XOR, token.ADD_ASSIGN: token.ADD}[x.Tok]
		t.assignTo(ind, lhs, t.expr(&ast.BinaryExpr{X: lhs, Op: op, Y: rhs, OpPos: x.TokPos}), false)
	default:
		fail("%s: assignment `%s` is outside the translated fragment", at(x), src(x))
	}
}

func (t *tr) ifStmt(ind int, x *ast.IfStmt) {
	t.push()
	if x.Init != nil {
		t.stmt(ind, x.Init)
	}
	t.line(ind, "if "+t.expr(x.Cond)+" then")
	t.block(ind+1, x.Body)
	switch e := x.Else.(type) {
	case nil:
	case *ast.BlockStmt:
		t.line(ind, "else")
		t.block(ind+1, e)
	case *ast.IfStmt:
		t.line(ind, "else")
		t.ifStmt(ind+1, e)
	}
	t.pop()
}

func (t *tr) rangeStmt(ind int, x *ast.RangeStmt) {
	if x.Tok != token.DEFINE {
		fail("%s: range without `:=`", at(x))
	}
	k := t.kindOf(x.X)
	var v *ast.Ident
	var over, ek string
	switch {
	case strings.HasPrefix(k, "list:"), strings.HasPrefix(k, "slice:"):
		key, okk := x.Key.(*ast.Ident)
		val, okv := x.Value.(*ast.Ident)
		if !okk || key.Name != "_" || !okv {
			fail("%s: only `for _, v := range` over a slice is translated: `%s`", at(x), src(x.Key))
		}
		v = val
		over = t.expr(x.X)
		ek = k[strings.Index(k, ":")+1:]
		if strings.HasPrefix(k, "slice:") {
			over = "Go.sliceElems " + over
		}
	case k == "map":
		key, okk := x.Key.(*ast.Ident)
		if !okk || x.Value != nil {
			fail("%s: only `for k := range` over a map is translated", at(x))
		}
		v = key
		over = "Go.mapKeys " + t.expr(x.X)
		ek = "elem"
	default:
		fail("%s: range over a %s", at(x), k)
	}
	t.push()
	t.bind(v.Name, ek)
	t.line(ind, "for "+name(v.Name)+" in "+over+" do")
	t.block(ind+1, x.Body)
	t.pop()
}

func (t *tr) ret(ind int, x *ast.ReturnStmt) {
	f := t.cur
	var val string
	switch {
	case len(x.Results) == 0 && f.retKind == "":
		val = "()"
	case len(x.Results) == 1 && f.retKind != "":
		if id, ok := x.Results[0].(*ast.Ident); ok && id.Name == "nil" {
			switch {
			case strings.HasPrefix(f.retKind, "slice:"):
				val = "Go.sliceNil"
			case f.retKind == "map":
				val = "none"
			default:
				fail("%s: return nil from a function returning %s", at(x), f.retKind)
			}
		} else {
			val = t.expr(x.Results[0])
		}
	default:
		fail("%s: `%s` does not fit the function's result", at(x), src(x))
	}
	if f.mutRecv {
		val = "(" + name(f.recv) + ", " + val + ")"
	}
	t.line(ind, "return "+val)
}

// ---- functions ----

func recvTypeName(e ast.Expr) string {
	for {
		switch x := e.(type) {
		case *ast.StarExpr:
			e = x.X
		case *ast.IndexExpr:
			e = x.X
		case *ast.Ident:
			return x.Name
		default:
			return ""
		}
	}
}

// writesThrough: does the body write through variable v (`*v = …`, `v[k] = …`, `(*v)[k] = …`, delete(v, …),
// or call a receiver-writing method on it)?
func (t *tr) writesThrough(fd *ast.FuncDecl, v string, ptr bool) bool {
	w := false
	ast.Inspect(fd.Body, func(n ast.Node) bool {
		switch x := n.(type) {
		case *ast.AssignStmt:
			for _, l := range x.Lhs {
				if ix, ok := l.(*ast.IndexExpr); ok {
					if b, ok := recvBase(ix.X); ok && b == v {
						w = true
					}
				}
				if st, ok := l.(*ast.StarExpr); ok {
					if b, ok := recvBase(st); ok && b == v {
						w = true
					}
				}
			}
		case *ast.CallExpr:
			if id, ok := x.Fun.(*ast.Ident); ok && id.Name == "delete" && len(x.Args) == 2 {
				if b, ok := recvBase(x.Args[0]); ok && b == v {
					w = true
				}
			}
		}
		return true
	})
	_ = ptr
	return w
}

func assigned(fd *ast.FuncDecl) map[string]bool {
	r := map[string]bool{}
	ast.Inspect(fd.Body, func(n ast.Node) bool {
		switch x := n.(type) {
		case *ast.AssignStmt:
			if x.Tok == token.DEFINE {
				return true
			}
			for _, l := range x.Lhs {
				e := l
				if ix, ok := l.(*ast.IndexExpr); ok {
					e = ix.X
				}
				if b, ok := recvBase(e); ok {
					r[b] = true
				}
			}
		case *ast.IncDecStmt:
			if b, ok := recvBase(x.X); ok {
				r[b] = true
			}
		case *ast.CallExpr:
			if id, ok := x.Fun.(*ast.Ident); ok && id.Name == "delete" && len(x.Args) == 2 {
				if b, ok := recvBase(x.Args[0]); ok {
					r[b] = true
				}
			}
			if sel, ok := x.Fun.(*ast.SelectorExpr); ok {
				if b, ok := recvBase(sel.X); ok {
					r[b] = true // conservatively: a method call may write through its receiver
				}
			}
		}
		return true
	})
	return r
}

func main() {
	which := flag.String("spec", "", "bitset | set")
	repo := flag.String("repo", "", "root of the gtools checkout (default: where harness/go.work takes the set module from)")
	out := flag.String("out", "", "output file (default: the spec's, relative to the harness directory)")
	flag.Parse()
	if *repo == "" {
		*repo = repoFromWorkspace("go.work")
	}
	if r, ok := runners[*which]; ok {
		if *out == "" {
			*out = r.out
		}
		r.run(*repo, *out)
		return
	}
	sp := specs[*which]
	if sp == nil {
		fail("unknown -spec %q", *which)
	}
	if *out == "" {
		*out = sp.out
	}
	file, err := parser.ParseFile(fset, filepath.Join(*repo, sp.file), nil, 0)
	if err != nil {
		fail("%v", err)
	}
	t := &tr{sp: sp, fns: map[string]*fnInfo{}, out: &strings.Builder{}}
	decls := map[string]*ast.FuncDecl{}
	for _, d := range file.Decls {
		if gd, ok := d.(*ast.GenDecl); ok && gd.Tok == token.VAR {
			for _, sp := range gd.Specs {
				if vs, ok := sp.(*ast.ValueSpec); ok && len(vs.Names) == 1 && len(vs.Values) == 1 && isSetVal(vs.Values[0]) {
					unitVars[vs.Names[0].Name] = true
				}
			}
		}
	}
	for _, d := range file.Decls {
		fd, ok := d.(*ast.FuncDecl)
		if !ok || fd.Body == nil {
			continue
		}
		key := fd.Name.Name
		if fd.Recv != nil && len(fd.Recv.List) == 1 {
			key = recvTypeName(fd.Recv.List[0].Type) + "." + key
		}
		decls[key] = fd
	}
	// the type declarations the kinds rely on
	found := map[string]string{}
	for _, d := range file.Decls {
		if gd, ok := d.(*ast.GenDecl); ok && gd.Tok == token.TYPE {
			for _, sp := range gd.Specs {
				ts := sp.(*ast.TypeSpec)
				found[ts.Name.Name] = src(ts.Type)
			}
		}
	}
	for n, want := range sp.decls {
		if found[n] != want {
			fail("%s: type %s is declared as `%s`; the translation assumes `%s`", sp.file, n, found[n], want)
		}
	}
	// pass 1: signatures
	for _, key := range sp.funcs {
		fd := decls[key]
		if fd == nil {
			fail("%s: function %s not found", sp.file, key)
		}
		f := &fnInfo{decl: fd, lean: key}
		if fd.Recv != nil {
			r := fd.Recv.List[0]
			if len(r.Names) != 1 {
				fail("%s: receiver of %s has no name", at(fd), key)
			}
			f.recv = r.Names[0].Name
			f.recvKind = t.kindOfType(r.Type)
			_, ptr := r.Type.(*ast.StarExpr)
			f.mutRecv = t.writesThrough(fd, f.recv, ptr)
			if !f.mutRecv && ptr {
				// a pointer receiver that is only read
			}
			f.lean = sp.recvNS[recvTypeName(r.Type)] + "." + fd.Name.Name
		}
		for _, p := range fd.Type.Params.List {
			k := t.kindOfType(p.Type)
			for _, n := range p.Names {
				f.params = append(f.params, param{n.Name, k})
			}
		}
		if fd.Type.Results != nil {
			if len(fd.Type.Results.List) != 1 || len(fd.Type.Results.List[0].Names) > 1 {
				fail("%s: %s: only single unnamed results are translated", at(fd), key)
			}
			if len(fd.Type.Results.List[0].Names) == 1 {
				fail("%s: %s: named results are not translated", at(fd), key)
			}
			f.retKind = t.kindOfType(fd.Type.Results.List[0].Type)
		}
		t.fns[key] = f
	}
	// a receiver-writing method called on the receiver makes the caller receiver-writing too
	for changed := true; changed; {
		changed = false
		for _, f := range t.fns {
			if f.recv == "" || f.mutRecv {
				continue
			}
			ast.Inspect(f.decl.Body, func(n ast.Node) bool {
				if c, ok := n.(*ast.CallExpr); ok {
					if sel, ok := c.Fun.(*ast.SelectorExpr); ok {
						if b, ok := recvBase(sel.X); ok && b == f.recv {
							for key, g := range t.fns {
								if g.recv != "" && g.mutRecv && g.recvKind == f.recvKind && strings.HasSuffix(key, "."+sel.Sel.Name) {
									f.mutRecv, changed = true, true
								}
							}
						}
					}
				}
				return true
			})
		}
	}
	// pass 2: bodies
	var b strings.Builder
	b.WriteString("import Model.GoPrelude\n")
	fmt.Fprintf(&b, "/-! REGENERATED on every run by harness/cmd/go2lean -spec %s from %s. Do not edit.\nEach definition follows the Go function of the same name statement by statement (see Model/GoPrelude.lean\nfor the meaning of the primitives).\n%s -/\n", *which, sp.file, sp.header)
	fmt.Fprintf(&b, "namespace %s\n\n", sp.module)
	if sp.elem {
		b.WriteString("variable {α : Type} [DecidableEq α] [Inhabited α]\n\n")
	}
	var names []string
	for _, key := range sp.funcs {
		f := t.fns[key]
		t.cur = f
		t.env = nil
		t.push()
		t.out = &strings.Builder{}
		sig := "def " + f.lean
		as := assigned(f.decl)
		var muts []string
		if f.recv != "" {
			t.bind(f.recv, f.recvKind)
			sig += " (" + name(f.recv) + " : " + t.leanType(f.recvKind) + ")"
			if as[f.recv] || f.mutRecv {
				muts = append(muts, f.recv)
			}
		}
		for _, p := range f.params {
			t.bind(p.name, p.kind)
			sig += " (" + name(p.name) + " : " + t.leanType(p.kind) + ")"
			if as[p.name] {
				muts = append(muts, p.name)
			}
		}
		ret := "Unit"
		if f.retKind != "" {
			ret = t.leanType(f.retKind)
		}
		if f.mutRecv {
			ret = t.leanType(f.recvKind) + " × " + ret
		}
		sig += " : Go.M (" + ret + ") := do"
		fmt.Fprintf(&b, "/-- `%s` -/\n%s\n", src(&ast.FuncDecl{Recv: f.decl.Recv, Name: f.decl.Name, Type: f.decl.Type}), sig)
		for _, m := range muts {
			t.line(1, "let mut "+name(m)+" := "+name(m))
		}
		for _, s := range f.decl.Body.List {
			t.stmt(1, s)
		}
		// a body whose last statement is not a return (no result): fall off the end
		if n := len(f.decl.Body.List); n == 0 || !endsInReturn(f.decl.Body.List[n-1]) {
			if f.retKind != "" {
				fail("%s: %s can fall off its end", at(f.decl), key)
			}
			if f.mutRecv {
				t.line(1, "return ("+name(f.recv)+", ())")
			} else {
				t.line(1, "return ()")
			}
		}
		b.WriteString(t.out.String())
		b.WriteString("\n")
		names = append(names, f.lean)
	}
	sort.Strings(names)
	fmt.Fprintf(&b, "/-- the translated functions -/\ndef translated : List String := [%s]\n\n", `"`+strings.Join(names, `", "`)+`"`)
	fmt.Fprintf(&b, "end %s\n", sp.module)
	if err := os.WriteFile(*out, []byte(b.String()), 0o644); err != nil {
		fail("%v", err)
	}
	fmt.Printf("go2lean %s: %d functions of %s -> %s\n", *which, len(names), sp.file, *out)
}

func endsInReturn(s ast.Stmt) bool {
	_, ok := s.(*ast.ReturnStmt)
	return ok
}

func repoFromWorkspace(goWork string) string {
	b, err := os.ReadFile(goWork)
	if err != nil {
		fail("cannot read %s (run from the harness directory or pass -repo): %v", goWork, err)
	}
	for _, l := range strings.Split(string(b), "\n") {
		l = strings.TrimSpace(strings.TrimPrefix(strings.TrimSpace(l), "use "))
		if strings.HasSuffix(l, "/set") {
			return strings.TrimSuffix(l, "/set")
		}
	}
	fail("no set module in %s", goWork)
	return ""
}

import Generated.GoSetCodec
import Properties.C07Tie
import Properties.C17
/-!
# C17, tie A by translation: the four codec methods of `set/set.go`

`Generated/GoSetCodec.lean` is rewritten from /repo's `set/set.go` by `harness/cmd/go2lean -spec setcodec`
on every run (MarshalJSON, UnmarshalJSON, MarshalYAML, UnmarshalYAML; their calls of `Slice` and `Add`
go through the translated methods of `Generated/GoSet.lean`).  The theorems prove for every element
type, receiver, document and EVERY behaviour of the external codecs (`Env`: arbitrary functions) that
the translated methods are the model's `SetM.marshal` / `SetM.unmarshal` for the list codec the
environment induces (`go_*_eq`), cannot panic, leave the receiver untouched on a decoder error, and
restate the round-trip theorems of `Properties/C17.lean` for the translated code (`go_json_roundtrip`,
`go_yaml_roundtrip`).  The codec's round-trip law stays a hypothesis, as in C17.
-/
set_option linter.unusedSectionVars false
set_option linter.unusedSimpArgs false
namespace C17Tie
open Generated.GoSetCodec SetM

variable {α β ν : Type} [DecidableEq α] [Inhabited α]

/-- the list codec that encoding/json is for this element type, as the methods use it: encode the
slice; decode into a nil slice variable -/
def jsonCodec (env : Env α β ν) : Codec α β :=
  ⟨fun l => (env.jsonMarshal l).1,
   fun d => if (env.jsonUnmarshal d Go.sliceNil).2 then none
            else some (Go.sliceElems (env.jsonUnmarshal d Go.sliceNil).1)⟩

/-- yaml.v3 encodes the slice `MarshalYAML` hands it (`encode`, outside the method) and `Decode`
fills an empty non-nil slice variable -/
def yamlCodec (env : Env α β ν) (encode : Option (List α) → ν) : Codec α ν :=
  ⟨encode,
   fun d => if (env.yamlDecode d (some [])).2 then none
            else some (Go.sliceElems (env.yamlDecode d (some [])).1)⟩

/-- what an Unmarshal method returns for the model's answer: (receiver afterwards, err != nil) -/
def ofUnmarshal (s : S α) : Option (S α) → S α × Bool
  | none => (s, true)
  | some r => (r, false)

/-- `MarshalJSON` hands `Slice()` to json.Marshal and returns its bytes and error unchanged -/
theorem go_marshalJSON_eq (env : Env α β ν) (s : S α) :
    MarshalJSON env s = pure (marshal (jsonCodec env) s, (env.jsonMarshal (slice s)).2) := by
  unfold MarshalJSON
  simp [C07Tie.go_slice_eq, marshal, jsonCodec]

theorem go_unmarshalJSON_eq (env : Env α β ν) (s : S α) (data : β) :
    UnmarshalJSON env s data = pure (ofUnmarshal s (unmarshal (jsonCodec env) s data)) := by
  unfold UnmarshalJSON unmarshal jsonCodec
  by_cases h : (env.jsonUnmarshal data Go.sliceNil).2 = true
  · simp [h, ofUnmarshal]
  · simp [h, ofUnmarshal, C07Tie.go_add_eq]

/-- `MarshalYAML` returns `Slice()` and no error -/
theorem go_marshalYAML_eq (s : S α) : MarshalYAML s = pure (slice s, false) := by
  unfold MarshalYAML
  simp [C07Tie.go_slice_eq]

theorem go_unmarshalYAML_eq (env : Env α β ν) (encode : Option (List α) → ν) (s : S α) (value : ν) :
    UnmarshalYAML env s value = pure (ofUnmarshal s (unmarshal (yamlCodec env encode) s value)) := by
  unfold UnmarshalYAML unmarshal yamlCodec
  by_cases h : (env.yamlDecode value (some [])).2 = true
  · simp [h, ofUnmarshal]
  · simp [h, ofUnmarshal, C07Tie.go_add_eq]

/-- **C17 for the translated code (JSON).** If encoding/json round-trips element lists of this type
(the hypothesis of C17), then decoding what the translated `MarshalJSON` of `s` produced with the
translated `UnmarshalJSON` into ANY target (nil, empty, pre-filled) returns no error and leaves the
target holding exactly its old members plus the members of `s`. -/
theorem go_json_roundtrip (env : Env α β ν) (hc : (jsonCodec env).RoundTrips) (s tgt : S α) :
    ∃ doc e r, MarshalJSON env s = pure (doc, e) ∧ UnmarshalJSON env tgt doc = pure (r, false) ∧
      ∀ x, x ∈ elems r ↔ x ∈ elems tgt ∨ x ∈ elems s := by
  obtain ⟨r, hr, hm⟩ := decode_into_prefilled_is_union (jsonCodec env) hc s tgt
  exact ⟨_, _, r, go_marshalJSON_eq env s, by rw [go_unmarshalJSON_eq, hr]; rfl, hm⟩

/-- **C17 for the translated code (YAML)**, for whatever yaml.v3 makes of the returned slice -/
theorem go_yaml_roundtrip (env : Env α β ν) (encode : Option (List α) → ν)
    (hc : (yamlCodec env encode).RoundTrips) (s tgt : S α) :
    ∃ v r, MarshalYAML s = pure (v, false) ∧ UnmarshalYAML env tgt (encode v) = pure (r, false) ∧
      ∀ x, x ∈ elems r ↔ x ∈ elems tgt ∨ x ∈ elems s := by
  obtain ⟨r, hr, hm⟩ := decode_into_prefilled_is_union (yamlCodec env encode) hc s tgt
  refine ⟨slice s, r, go_marshalYAML_eq s, ?_, hm⟩
  rw [go_unmarshalYAML_eq env encode]
  have : unmarshal (yamlCodec env encode) tgt (encode (slice s)) = some r := hr
  rw [this]; rfl

/-- a decoder error leaves the receiver as it was, and is reported -/
theorem go_unmarshal_error_no_change (env : Env α β ν) (s : S α) (data : β)
    (h : (env.jsonUnmarshal data Go.sliceNil).2 = true) : UnmarshalJSON env s data = pure (s, true) := by
  rw [go_unmarshalJSON_eq]; simp [unmarshal, jsonCodec, h, ofUnmarshal]

/-- non-vacuity: the identity environment on `Option (List Nat)` round-trips, and a concrete
pre-filled decode is the union -/
def idEnv : Env Nat (Option (List Nat)) (Option (List Nat)) :=
  ⟨fun l => (l, false), fun d _ => (some (d.getD []), false), fun d _ => (some (d.getD []), false)⟩
example : (jsonCodec idEnv).RoundTrips := fun _ => rfl
example : (UnmarshalJSON idEnv (make [5, 1]) (some [1, 2])).toOption.map (fun p => (elems p.1, p.2)) = some ([5, 1, 2], false) := by
  decide

end C17Tie

import Model.GoAny
import Generated.GoSet
/-! REGENERATED on every run by harness/cmd/go2lean -spec gconfigbuilder from gconfig/builder.go (keySet,
lookupEnv).  Do not edit.  `keySet` calls the TRANSLATED `set.Set.Add` (Generated/GoSet.lean); os.LookupEnv,
strings.ToUpper and strings.ToLower are parameters (`Env`). -/
namespace Generated.GoGConfigBuilder

/-- the process environment and the two case mappings -/
structure Env where
  lookupEnv : String → String × Bool
  toUpper : String → String
  toLower : String → String

def defaultKey : String := "default"

/-- `func keySet(in map[string]any) (set.Set[string], bool)` -/
def keySet («in» : List (String × GConfig.Y)) : Go.M (Go.GMap String × Bool) := do
  let mut hasDefault : Bool := false
  let mut result : Go.GMap String := (Go.mapMake (List.length «in»))
  for k in List.map Prod.fst «in» do
    if (k == defaultKey) then
      hasDefault := true
    else
      let r1 ← Generated.GoSet.Set.Add result [k]
      result := r1.1
  return (result, hasDefault)

/-- `func lookupEnv(key string) (string, bool)` -/
def lookupEnv (env : Env) (key : String) : Go.M (String × Bool) := do
  let p1 := env.lookupEnv key
  let s : String := p1.1
  let ok : Bool := p1.2
  if ok then
    return (s, ok)
  let p2 := env.lookupEnv (env.toUpper key)
  let s : String := p2.1
  let ok : Bool := p2.2
  if ok then
    return (s, ok)
  let p3 := env.lookupEnv (env.toLower key)
  let s : String := p3.1
  let ok : Bool := p3.2
  if ok then
    return (s, ok)
  return ("", false)

end Generated.GoGConfigBuilder

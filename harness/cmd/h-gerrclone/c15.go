package main

import (
	"fmt"
	"math/rand"
	"strconv"
	"strings"
	"unicode/utf8"

	"github.com/drshriveer/gtools/gerror"
	"verif/harness/cmd/h-gerrclone/sites"
	"verif/harness/cmd/h-gerrclone/wire"
	"verif/harness/internal/hx"
)

// aliases into the shared wire package
type elemSpec = wire.ElemSpec

var (
	enc         = wire.Enc
	dec         = wire.Dec
	encFrames   = wire.EncFrames
	encElems    = wire.EncElems
	obsOf       = wire.ObsWithError
	paramRoles  = wire.ParamRoles
	methodNames = wire.MethodNames
	hasRole     = wire.HasRole
)

type geImpl struct {
	regs map[int]gerror.Error
	t    *sites.T
	g    *sites.G[int]
}

func newGeImpl() *geImpl {
	return &geImpl{regs: map[int]gerror.Error{}, t: &sites.T{}, g: &sites.G[int]{}}
}

func (im *geImpl) Reset() { im.regs = map[int]gerror.Error{} }

// callSite performs the call from the named site in a fresh goroutine (so that the stack above the
// site does not depend on how the harness got here) and returns the result and the site's frames.
func callSite(t *sites.T, g *sites.G[int], site string, f gerror.Factory, c *sites.Call) (res gerror.Error, fr []string, panicked bool) {
	done := make(chan struct{})
	go func() {
		defer close(done)
		defer func() {
			if r := recover(); r != nil {
				panicked = true
			}
		}()
		res, fr = dispatchSite(t, g, site, f, c)
	}()
	<-done
	return
}

func dispatchSite(t *sites.T, g *sites.G[int], site string, f gerror.Factory, c *sites.Call) (gerror.Error, []string) {
	switch {
	case site == "plain":
		return sites.Plain(f, c)
	case site == "ptr":
		return t.PtrMethod(f, c)
	case site == "val":
		return t.ValMethod(f, c)
	case site == "closure":
		return sites.Closure(f, c)
	case site == "nested":
		return t.Nested(f, c)
	case site == "generic":
		return sites.Generic("x", f, c)
	case site == "genmethod":
		return g.GenMethod(f, c)
	case strings.HasPrefix(site, "deep:"):
		n, _ := strconv.Atoi(site[5:])
		if n > 100 {
			n = 100
		}
		return sites.Deep(n, f, c)
	}
	return nil, nil
}

func (im *geImpl) Exec(line string) string {
	ws := strings.Fields(line)
	if len(ws) >= 2 && ws[0] == "case" && ws[1] == "ge" {
		im.Reset()
		return line
	}
	if len(ws) < 2 || ws[0] != "ge" {
		return "bad-op"
	}
	switch ws[1] {
	case "new":
		if len(ws) != 6 {
			return "bad-op"
		}
		r, err := strconv.Atoi(ws[2])
		n, ok1 := dec(ws[3])
		m, ok2 := dec(ws[4])
		s, ok3 := dec(ws[5])
		if err != nil || !ok1 || !ok2 || !ok3 {
			return "bad-op"
		}
		im.regs[r] = gerror.FactoryOf(&gerror.GError{Name: n, Message: m, Source: s}).(gerror.Error)
		return "ok"
	case "obs":
		if len(ws) != 3 {
			return "bad-op"
		}
		r, err := strconv.Atoi(ws[2])
		if err != nil {
			return "bad-op"
		}
		e, ok := im.regs[r]
		if !ok {
			return "bad-reg"
		}
		return obsOf(e)
	case "conv":
		if len(ws) != 6 {
			return "bad-op"
		}
		d, e1 := strconv.Atoi(ws[2])
		r, e2 := strconv.Atoi(ws[3])
		a, e3 := strconv.Atoi(ws[5])
		if e1 != nil || e2 != nil || e3 != nil {
			return "bad-op"
		}
		fe, ok1 := im.regs[r]
		ae, ok2 := im.regs[a]
		if !ok1 || !ok2 {
			return "bad-reg"
		}
		var res gerror.Error
		switch ws[4] {
		case "Convert":
			res = fe.(gerror.Factory).Convert(ae)
		case "ConvertS":
			res = fe.(gerror.Factory).ConvertS(ae)
		default:
			return "bad-op"
		}
		im.regs[d] = res
		return obsOf(res)
	case "metric":
		if len(ws) != 3 {
			return "bad-op"
		}
		s, ok := dec(ws[2])
		if !ok {
			return "bad-op"
		}
		return enc(gerror.StackElem{Name: s}.Metric())
	case "trim":
		if len(ws) != 3 {
			return "bad-op"
		}
		s, ok := dec(ws[2])
		if !ok {
			return "bad-op"
		}
		return enc(strings.TrimSpace(s))
	case "race":
		return im.execRace(ws[2:])
	case "call":
		return im.execCall(ws[2:])
	}
	return "bad-op"
}

// ge call <dst> <reg> <Method> <site> F:<s> P:<s>,.. S:<frames> E:<elems>
func (im *geImpl) execCall(ws []string) string {
	if len(ws) != 8 {
		return "bad-op"
	}
	d, e1 := strconv.Atoi(ws[0])
	r, e2 := strconv.Atoi(ws[1])
	if e1 != nil || e2 != nil {
		return "bad-op"
	}
	c, site, frames, problem := wire.ParseCallR(ws[2:], func(kind string, reg int) (error, bool) {
		e, ok := im.regs[reg]
		return e, ok
	})
	if problem != "" {
		return problem
	}
	base, ok := im.regs[r]
	if !ok {
		return "bad-reg"
	}
	res, fr, panicked := callSite(im.t, im.g, site, base.(gerror.Factory), c)
	if panicked {
		return "panic"
	}
	if res == nil {
		return "bad-op"
	}
	if encFrames(fr) != frames {
		return "frames-mismatch"
	}
	im.regs[d] = res
	return obsOf(res)
}

// ---- generator -----------------------------------------------------------------------------

var spaceAtoms = []string{" ", "  ", "\t", "\n", "\r\n", "\v", "\f", "\u0085", "\u00a0", "\u1680", "\u2000", "\u2003", "\u200a", "\u2028", "\u2029", "\u202f", "\u205f", "\u3000"}
var nonSpaceAtoms = []string{"a", "B", "msg", "h\u00e9llo", "\u65e5\u672c", "\U0001F600", "\u200b", "\u180e", "\ufeff", "\u0000", "\u001f", "\u001c", "\u2060", "-", "x-y", ":", ".", "/", "%", "%%", "%d", "%s", "%v", "%+v", "%q", "%5.2f", "%!", "%z", "%[2]d", "originalError:", "0"}

func randText(rng *rand.Rand, maxAtoms int) string {
	n := rng.Intn(maxAtoms + 1)
	var b strings.Builder
	for i := 0; i < n; i++ {
		if rng.Intn(3) == 0 {
			b.WriteString(spaceAtoms[rng.Intn(len(spaceAtoms))])
		} else {
			b.WriteString(nonSpaceAtoms[rng.Intn(len(nonSpaceAtoms))])
		}
	}
	return b.String()
}

// randArg: empty / blank / padded / plain, so that every branch of the message and tag rules is hit
func randArg(rng *rand.Rand) string {
	switch rng.Intn(8) {
	case 0:
		return ""
	case 1:
		s := ""
		for i := rng.Intn(3) + 1; i > 0; i-- {
			s += spaceAtoms[rng.Intn(len(spaceAtoms))]
		}
		return s
	case 2:
		return spaceAtoms[rng.Intn(len(spaceAtoms))] + randText(rng, 3) + spaceAtoms[rng.Intn(len(spaceAtoms))]
	default:
		return randText(rng, 4)
	}
}

func randElems(rng *rand.Rand) []elemSpec {
	n := rng.Intn(4)
	var es []elemSpec
	for i := 0; i < n; i++ {
		switch rng.Intn(6) {
		case 0:
			es = append(es, elemSpec{Kind: "i", Val: strconv.Itoa(rng.Intn(2000) - 1000)})
		case 1:
			es = append(es, elemSpec{Kind: "s", Val: randArg(rng)})
		case 2:
			es = append(es, elemSpec{Kind: "f", Val: []string{"1.5", "-0.25", "1e21", "3"}[rng.Intn(4)]})
		case 3:
			es = append(es, elemSpec{Kind: "n"})
		case 4:
			es = append(es, elemSpec{Kind: "e", Val: randText(rng, 2)})
		default:
			es = append(es, elemSpec{Kind: "l", Val: randText(rng, 2)})
		}
	}
	return es
}

var siteNames = []string{"plain", "ptr", "val", "closure", "nested", "generic", "genmethod"}

type c15gen struct {
	rng    *rand.Rand
	impl   *geImpl
	frames map[string][]string
}

// framesOf calibrates a site: one throw-away Base() call on a throw-away factory.
func (g *c15gen) framesOf(site string) []string {
	if fr, ok := g.frames[site]; ok {
		return fr
	}
	f := gerror.FactoryOf(&gerror.GError{Name: "calibrate"})
	_, fr, _ := callSite(g.impl.t, g.impl.g, site, f, &sites.Call{Method: "Base"})
	g.frames[site] = fr
	return fr
}

func (g *c15gen) randSite() string {
	if g.rng.Intn(6) == 0 {
		return "deep:" + strconv.Itoa([]int{0, 1, 2, 3, 4, 13, 14, 15, 16, 28, 29, 30, 31, 32, 33, 40}[g.rng.Intn(16)])
	}
	return siteNames[g.rng.Intn(len(siteNames))]
}

// callLine builds `ge call` for method m from register r into d.
func (g *c15gen) callLine(d, r int, m string, corrupt bool, wrapRegs []int) (line string, nonblank bool) {
	rng := g.rng
	site := g.randSite()
	var params []string
	formatted := ""
	var elems []elemSpec
	format := ""
	for _, role := range paramRoles[m] {
		switch role {
		case "src":
			s := randArg(rng)
			if rng.Intn(3) == 0 {
				s = ""
			}
			params = append(params, s)
		case "dtag":
			t := randArg(rng)
			params = append(params, t)
			if t != "" {
				nonblank = true
			}
		case "fmt":
			format = randArg(rng)
			params = append(params, format)
		}
	}
	if hasRole(m, "fmt") {
		elems = randElems(rng)
		vals := make([]any, len(elems))
		for i, e := range elems {
			vals[i] = e.Value()
		}
		formatted = fmt.Sprintf(format, vals...)
		if strings.TrimSpace(formatted) != "" {
			nonblank = true
		}
	}
	if m == "Convert" || m == "ConvertS" || m == "ExtMsgfForeign" {
		e := elemSpec{Kind: []string{"N", "W", "Z", "C", "P"}[rng.Intn(5)], Val: randArg(rng)}
		if e.Kind == "Z" {
			e.Val = ""
		}
		if m == "ExtMsgfForeign" {
			elems = append([]elemSpec{e}, elems...) // the format and its operands are dropped by the code
		} else {
			elems = []elemSpec{e}
		}
		formatted = fmt.Sprintf("%+v", e.ErrValue())
		nonblank = true
		if m != "ExtMsgfForeign" && len(wrapRegs) > 0 && rng.Intn(4) == 0 {
			// a foreign error that wraps (%w / errors.Join) an earlier, stack-free gerror value: not a
			// gerror itself, so Convert* builds a new error; the model predicts the wrapped text
			k := []string{"v", "k"}[rng.Intn(2)]
			elems = []elemSpec{{Kind: k, Val: strconv.Itoa(wrapRegs[rng.Intn(len(wrapRegs))])}}
			formatted = ""
		}
	}
	if corrupt && m == "ExtMsgfForeign" {
		corrupt = false
	}
	if corrupt && len(params) > 0 {
		params[rng.Intn(len(params))] += "\xff\xfe"
		if hasRole(m, "fmt") {
			vals := make([]any, len(elems))
			for i, e := range elems {
				vals[i] = e.Value()
			}
			for i, role := range paramRoles[m] {
				if role == "fmt" {
					formatted = fmt.Sprintf(params[i], vals...)
				}
			}
		}
	}
	ps := make([]string, len(params))
	for i, p := range params {
		ps[i] = enc(p)
	}
	return fmt.Sprintf("ge call %d %d %s %s F:%s P:%s S:%s %s", d, r, m, site, enc(formatted), strings.Join(ps, ","), encFrames(g.framesOf(site)), encElems(elems)), nonblank
}

func (g *c15gen) chainCase() hx.Case {
	rng := g.rng
	domain := rng.Intn(25) != 0
	name := []string{"ErrA", "", "Err \u00dcn\u00ef", "E"}[rng.Intn(4)]
	msg := ""
	switch rng.Intn(4) {
	case 0:
	case 1:
		msg = "base message"
	default:
		msg = randArg(rng)
	}
	src := ""
	if rng.Intn(3) == 0 {
		src = []string{"preset:Source", " ", "pkg:Type:fn", "\u65e5\u672c"}[rng.Intn(4)]
	}
	tags := []string{}
	if msg == "" {
		tags = append(tags, "fac-msg-empty")
	} else {
		tags = append(tags, "fac-msg-preset")
	}
	if src == "" {
		tags = append(tags, "fac-src-empty")
	} else {
		tags = append(tags, "fac-src-preset")
	}
	lines := []string{"case ge chain", fmt.Sprintf("ge new 0 %s %s %s", enc(name), enc(msg), enc(src))}
	L := rng.Intn(9)
	tags = append(tags, "len-"+strconv.Itoa(L))
	nonblank := 0
	branched := false
	stackless := map[int]bool{0: true} // registers whose value has no stack (Error() fully predictable)
	for i := 0; i < L; i++ {
		from := i
		if i > 0 && rng.Intn(6) == 0 {
			from = rng.Intn(i + 1)
			branched = true
		}
		m := methodNames[rng.Intn(len(methodNames))]
		switch rng.Intn(12) {
		case 0:
			m = "ExtMsgf"
		case 1:
			if rng.Intn(3) == 0 {
				m = "ExtMsgfForeign"
			}
		}
		if (m == "Convert" || m == "ConvertS") && i > 0 && rng.Intn(3) == 0 {
			// Convert of a value that already is a gerror: returned as it is
			arg := rng.Intn(i + 1)
			lines = append(lines, fmt.Sprintf("ge conv %d %d %s %d", i+1, from, m, arg))
			stackless[i+1] = stackless[arg]
			continue
		}
		var wrapRegs []int
		for k := 0; k <= i; k++ {
			if stackless[k] {
				wrapRegs = append(wrapRegs, k)
			}
		}
		l, nb := g.callLine(i+1, from, m, !domain && rng.Intn(2) == 0, wrapRegs)
		switch m {
		case "ExtMsgf":
			stackless[i+1] = stackless[from]
		case "ExtMsgfForeign":
			stackless[i+1] = true
		default:
			stackless[i+1] = stackless[from] && !takesStack(m)
		}
		if nb {
			nonblank++
		}
		lines = append(lines, l)
	}
	if branched {
		tags = append(tags, "branched")
	}
	for _, l := range lines {
		if strings.Contains(l, " ExtMsgfForeign ") {
			tags = append(tags, "extmsgf-foreign")
			break
		}
	}
	for _, l := range lines {
		if strings.Contains(l, " ExtMsgf ") {
			tags = append(tags, "extmsgf-gerror")
			break
		}
	}
	// every object made along the way, the factory first, must still be what it was
	for i := 0; i <= L; i++ {
		lines = append(lines, fmt.Sprintf("ge obs %d", i))
	}
	if !domain {
		tags = append(tags, "invalid-utf8-stream")
		bad := false
		for _, l := range lines {
			for _, w := range strings.Fields(l) {
				for _, p := range strings.FieldsFunc(strings.TrimLeft(w, "FPSE:"), func(r rune) bool { return r == ',' || r == '*' }) {
					if s, ok := dec(p); ok && !utf8.ValidString(s) {
						bad = true
					}
				}
			}
		}
		if !bad {
			domain = true // nothing was corrupted after all: an ordinary in-domain chain
			tags = tags[:len(tags)-1]
		}
	}
	return hx.Case{Domain: domain, Nontrivial: L >= 2 && nonblank >= 1, Tags: tags, Lines: lines}
}

// goLikeName: a function name of the shape the Go runtime reports
func goLikeName(rng *rand.Rand) string {
	segs := []string{"github.com", "drshriveer", "gtools", "gerror", "gerror_test", "internal", "x", "my-pkg", "v2", "yaml.v3", "main", "sites"}
	idents := []string{"Fn", "AType", "(*AType)", "Method", "func1", "func2", "1", "2", "init", "glob", "", "T", "(*G[...])", "Inline", "funcy", "Func", "fun"}
	var b strings.Builder
	for i := rng.Intn(5); i > 0; i-- {
		b.WriteString(segs[rng.Intn(len(segs))] + "/")
	}
	b.WriteString(segs[rng.Intn(len(segs))])
	for i := rng.Intn(6); i > 0; i-- {
		b.WriteString("." + idents[rng.Intn(len(idents))])
	}
	if rng.Intn(6) == 0 {
		b.WriteString("[...]")
	}
	return b.String()
}

func runC15(f *hx.Flags) {
	impl := newGeImpl()
	r := hx.NewRunner(f, "h-gerrclone", impl, "chains of 0-8 of the 19 Factory methods and gerror.ExtMsgf (on the value itself, or on a foreign error / nil) (linear, sometimes branching off an earlier result) from factories with empty/preset Message and Source; arguments from Unicode white space, blanks, padded text, format verbs with 0-3 operands (fmt.Sprintf applied by the harness and handed to the model), foreign errors for Convert*; calls made from 8 kinds of call site (function, pointer/value method, closures, generic function/method, recursion 0-40 deep) whose frame names the harness records itself with runtime.CallersFrames; every intermediate error and, at the end, every object incl. the factory is observed (name, message, source, detail tag, stack length, Error() without the stack text). Plus StackElem.Metric on runtime-shaped names, strings.TrimSpace on Unicode blanks, and one 16-goroutine -race execution of the chains against shared package-level factories. non-trivial: chain of >=2 calls with >=1 non-blank tag/message extension; distinct by request lines")
	r.KeyOf = func(d *hx.Disagreement) string {
		ws := strings.Fields(d.Request)
		switch {
		case len(ws) >= 5 && ws[1] == "call":
			return "C15:call:" + ws[4]
		case len(ws) >= 2:
			return "C15:" + ws[1]
		}
		return "C15:?"
	}
	if r.HandleReplay() {
		return
	}
	r.RunCorpus()
	// concurrent variant under the race detector (supporting evidence for derivations_write_only_fresh)
	// (run first: the runner keeps a bounded number of disagreements)
	nr := 300
	if f.Tier == "thorough" {
		nr = 5000
	}
	r.Add(hx.Case{Domain: true, Nontrivial: true, Tags: []string{"race-run"}, Key: "C15:race",
		Lines: []string{"case ge race", fmt.Sprintf("ge race %d %d", f.Seed, nr)}})
	g := &c15gen{rng: r.Rng, impl: impl, frames: map[string][]string{}}
	n := r.N(20000)
	if f.Tier == "thorough" {
		n = r.N(1000000)
	}
	for i := 0; i < n; i++ {
		r.Add(g.chainCase())
	}
	// pure string functions the model re-implements
	m := r.N(4000)
	if f.Tier == "thorough" {
		m = r.N(200000)
	}
	for i := 0; i < m; i++ {
		lines := []string{"case ge strings"}
		for j := 0; j < 5; j++ {
			lines = append(lines, "ge metric "+enc(goLikeName(r.Rng)))
			lines = append(lines, "ge trim "+enc(randArg(r.Rng)+randText(r.Rng, 3)+randArg(r.Rng)))
		}
		r.Add(hx.Case{Domain: true, Nontrivial: true, Tags: []string{"strings"}, Lines: lines})
	}
	for i := 0; i < m/10; i++ {
		// arbitrary text as a frame name: nothing the runtime produces; drift only
		r.Add(hx.Case{Domain: false, Tags: []string{"metric-junk"}, Lines: []string{"case ge junk", "ge metric " + enc(randText(r.Rng, 6))}})
	}
	r.Finish()
}

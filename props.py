"""Per-property configuration of ./check (which Lean modules hold the obligations, which
harness binaries run the correspondence, what is trusted)."""

GO_TRUST = "Go compiler/runtime; the harness (cmd/%s) and the Lean line-protocol driver, incl. their canonicalisation"

PROPS = {
    "C11": dict(
        title="set: BitSet is exact bit-set algebra and reports changes truthfully",
        lean_modules=["Properties.C11"],
        harness=[dict(bin="h-set")],
        trusted=[GO_TRUST % "h-set", "Go's conversion BitSet[T](item) zero-extends (language spec)"],
        assumptions=["flags enter the model already zero-extended to 64 bits (theorem mem_ofFlag covers every width <= 64)"],
        level_text="Machine-checked Lean 4 theorems (kernel-only axioms) over a BitVec 64 model that mirrors bit_set.go statement by statement: union/difference/intersection/subset characterisations, change flag <-> value changed, multi-argument = sequential, for every set, every flag list and every flag width. The model is tied to /repo by executing model and implementation on all 65536 (set,flag) pairs of an 8-bit flag type (all triples in the thorough tier) plus random wide calls and sequences.",
        level_note="Trusted: Lean kernel + propext/Quot.sound/Classical.choice as reported by #print axioms; the Go harness and Lean driver; Go's integer conversion semantics. The theorem is about the model; the exhaustive 8-bit correspondence and random 16/32/64-bit runs are what tie it to the code.",
        technique="Lean 4 proof (induction over flag lists, bitwise extensionality) + exhaustive model/implementation correspondence",
        explanation="theorems over all BitVec 64 sets and all flag lists; correspondence exhaustive on the 8-bit flag type",
    ),
    "C07": dict(
        title="set: Set is a mathematical set under every operation sequence",
        lean_modules=["Properties.C07"],
        harness=[dict(bin="h-set")],
        trusted=[GO_TRUST % "h-set", "Go's built-in map is a finite map (insert/delete/lookup/len/range)"],
        assumptions=["Has/HasAny are called with at least one argument (the quantifier); zero-argument calls are compared only in the out-of-domain stream"],
        level_text="Machine-checked Lean 4 refinement: the model of set.go (nil/allocated map as Option (List), every early return and changed-flag guard mirrored) refines the mathematical set for EVERY operation sequence of any length over any element type (refines_math_set, by induction over the op list from the no-duplicates invariant), with Has/HasAny/Slice characterisations, change-flag <-> membership-changed, and order independence of AddSet/RemoveSet over Go's map iteration order. Tied to /repo by differential execution of random op sequences on int/string/struct sets with a full membership probe after every mutation.",
        level_note="Trusted: Lean kernel + standard axioms; Go's built-in map; the Go harness and the Lean driver. The theorem is about the model; the correspondence (20k sequences quick, 600k thorough) ties it to set.go.",
        technique="Lean 4 proof (refinement to a mathematical set by induction over operation sequences) + differential correspondence on op histories",
        explanation="refinement theorem for all op sequences; correspondence on random histories",
    ),
    "C17": dict(
        title="set: JSON and YAML encodings of Set round-trip membership",
        lean_modules=["Properties.C17"],
        harness=[dict(bin="h-set")],
        trusted=[GO_TRUST % "h-set", "encoding/json and gopkg.in/yaml.v3 round-trip lists of the element types (hypothesis Codec.RoundTrips; observed by the correspondence run, not proved)"],
        assumptions=["the list codec round-trips the element type (no NaN floats); a literal YAML null decoded into a pre-filled set is yaml.v3 behaviour and out of domain"],
        level_text="Machine-checked Lean 4 theorems, parametric in the element list codec: Unmarshal(Marshal(s)) into any target is exactly target ∪ s (hence exact round trip into nil/empty targets, nil and empty sets included), the encoding is Slice() = each member once, nil exactly when empty. PARTIAL: the codec's own round-trip law is a hypothesis of the theorems, validated differentially (json and yaml.v3, standalone and as struct field, 7 element types incl. YAML-significant strings) rather than proved.",
        level_note="Trusted: Lean kernel + standard axioms; encoding/json and yaml.v3 (not modelled; their list round trip is the hypothesis RoundTrips); the Go harness and Lean driver.",
        technique="Lean 4 proof parametric in a codec law (reusing the C07 refinement lemmas) + differential correspondence through the real codecs",
        explanation="partial: codec law is a hypothesis; everything Set itself contributes is proved",
    ),
    "C19": dict(
        title="gencommon: interface rendered from FindInterface compiles and fits",
        lean_modules=["Properties.C19"],
        harness=[dict(bin="h-gencommon")],
        trusted=[GO_TRUST % "h-gencommon",
                 "Go's type checker / go build accepting the rendered interface and `var _ Rendered = (*Original)(nil)` (observed on every generated module, not proved)",
                 "go/types method sets (compared with the Lean selector rule GoPromotes on every generated struct)",
                 "golang.org/x/tools/go/packages loading the generated module; strconv.FormatInt = Nat.toDigits 10 on non-negative ints"],
        assumptions=["non-blank parameter and result names of one signature are pairwise distinct (Go spec; hypothesis of names_distinct / user_names_kept)",
                     "embedding graphs are finite trees (no cyclic embedding through pointers) and method names do not clash with field names",
                     "type forms are those of the quantifier; chan / struct / interface literals, packages the target file does not import and three embedding levels run in the out-of-domain stream only",
                     "an unused active import is pruned by goimports before compiling (GetActive is cumulative per ImportHandler)"],
        level_text="Machine-checked Lean 4 theorems (kernel-only axioms) over a model that mirrors gencommon statement by statement. PROVED FOR ALL INPUTS: (a) getSafeParamName/ensureNames/ensureParamNames (repaired algorithm) - for EVERY signature whose user-chosen names are pairwise distinct, the resulting parameter and result names are pairwise distinct (names_distinct), valid non-blank identifiers (names_valid), and every user-chosen name stays at its position (user_names_kept); the candidate loop provably terminates on a free name. (b) namedTypeToInterface over embedding trees of any depth - without IncludeEmbedded the interface is exactly the filtered own methods (without_embedded, private_filter_own), no method failing the private filter is ever rendered at any depth (nti_keep), own methods always win (own_methods_present). (c) addNamed's import step - a referenced package is active afterwards under exactly the qualifier printed and active entries are never lost or re-aliased (addImport_active, addImport_mono). PARTIAL (full statements kept in Properties/C19.lean): exactness of the embedded merge against the property text and against Go's selector rule (embedded_methods_exact, rendered_methods_promoted) and the type-reference round trip through extract (typeRef_denotes_same, needed_imports_active) are proved only on evaluated sample trees/terms (…_partial) and otherwise checked by the correspondence run; acceptance of the rendered file by the Go compiler and `implemented by the original type` are observed (go build of every generated module), not proved. Legacy algorithms are kept with kernel-checked violation witnesses (legacy_names_violate, legacy_merge_violates). Tied to /repo by differential execution on generated Go modules (all four option sets per struct).",
        level_note="Trusted: Lean kernel + propext/Quot.sound/Classical.choice; the Go harness (module generator, go/packages, go build) and the Lean driver; Go's type checker for the compile/implements clause; go/types method sets as the reference for the Lean selector rule. The model mirrors the repaired code (fix-C19.diff); on the unrepaired tree the check reports C19:find:param-names, C19:find:method-set, C19:build:dup-param, C19:build:not-implemented with replays.",
        technique="Lean 4 proof (invariant over the name-generation loop, mutual structural induction over embedding trees and type terms) + differential correspondence on generated programs + go build of the rendered interfaces",
        explanation="partial: naming theorems for all signatures; merge: filter/own-method/no-embedded theorems for all trees, exactness only evaluated on samples; type refs: import step for all handler states, round trip only evaluated on a sample; compiler acceptance observed",
    ),
}

# properties not claimed, with the reason (kept current; see DESIGN.md)
NOT_CLAIMED = {}

// h-gerroris: correspondence runner for the identity part of /repo/gerror (property C06):
// errors.Is, ExtractFactoryReference and Convert/ConvertS over pools of base and generated
// extension-type factories.  The extension types live in ./xt; their *.gerror.go files are
// regenerated from /repo's current template before every build (cmd/regen-gerroris).
package main

import (
	"fmt"
	"os"

	"verif/harness/internal/hx"
)

func main() {
	f := hx.ParseFlags()
	switch f.Prop {
	case "C06":
		runC06(f)
	default:
		fmt.Fprintln(os.Stderr, "h-gerroris: unknown property", f.Prop)
		os.Exit(2)
	}
}

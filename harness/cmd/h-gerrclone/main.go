// h-gerrclone: correspondence runner for /repo/gerror's CloneBase-based factory methods
// (properties C15 and C09).
package main

import (
	"fmt"
	"os"

	"verif/harness/internal/hx"
)

func main() {
	if len(os.Args) > 1 && os.Args[1] == "-racechild" {
		os.Exit(raceChild(os.Args[2:]))
	}
	f := hx.ParseFlags()
	switch f.Prop {
	case "C15":
		runC15(f)
	case "C09":
		runC09(f)
	default:
		fmt.Fprintln(os.Stderr, "h-gerrclone: unknown property", f.Prop)
		os.Exit(2)
	}
}

package main

import (
	"bufio"
	"bytes"
	"fmt"
	"io"
	"os"
	"os/exec"
	"path/filepath"
	"sort"
	"strings"
)

// built is what the implementation side knows about one definition after the real generator ran.
type built struct {
	def    *Def
	status string            // "ok" or an error class
	chains map[string]string // raw sorter name -> "value|ptr <TypeName> <S-expr of the Less body>"
	probe  *probeProc
	idx    int      // type index inside the probe
	names  []string // raw sorter names (`*` = pointer form) found in the generated file, sorted
}

type probeProc struct {
	cmd *exec.Cmd
	in  io.WriteCloser
	out *bufio.Reader
}

func (p *probeProc) ask(line string) string {
	if _, err := io.WriteString(p.in, line+"\n"); err != nil {
		return "probe-dead"
	}
	s, err := p.out.ReadString('\n')
	if err != nil {
		return "probe-dead"
	}
	return strings.TrimRight(s, "\n")
}

// world owns the scratch directory, the generator binary and the cache of built definitions.
type world struct {
	root       string // scratch root (os.MkdirTemp)
	gsortBin   string
	harnessDir string
	cache      map[string]*built
	hcache     map[string]*built // regeneration histories: layout + previous + current definition
	g0cache    map[string]*gen0  // first generation of a history: layout + definition
	procs      []*probeProc
	nPkg       int
	genRuns    int
	goBuilds   int
	env        []string
	closed     bool
}

func newWorld(harnessDir string) (*world, error) {
	root, err := os.MkdirTemp("", "verif-c08-")
	if err != nil {
		return nil, err
	}
	w := &world{root: root, harnessDir: harnessDir, cache: map[string]*built{}, hcache: map[string]*built{}, g0cache: map[string]*gen0{}}
	w.env = append(os.Environ(), "GOPROXY=off", "GOSUMDB=off", "GOTOOLCHAIN=local", "GOFLAGS=", "GOWORK=off", "GO111MODULE=on")
	w.gsortBin = filepath.Join(root, "gsort")
	// the real CLI, built from /repo's current tree through the harness workspace
	cmd := exec.Command("go", "build", "-o", w.gsortBin, "github.com/drshriveer/gtools/gsort/cmd/gsort")
	cmd.Dir = harnessDir
	cmd.Env = append(os.Environ(), "GOPROXY=off", "GOSUMDB=off", "GOTOOLCHAIN=local", "GOFLAGS=")
	if out, err := cmd.CombinedOutput(); err != nil {
		os.RemoveAll(root)
		return nil, fmt.Errorf("building /repo/gsort/cmd/gsort: %v\n%s", err, out)
	}
	return w, nil
}

func (w *world) close() {
	if w.closed {
		return
	}
	w.closed = true
	for _, p := range w.procs {
		p.in.Close()
		p.cmd.Process.Kill()
		p.cmd.Wait()
	}
	os.RemoveAll(w.root)
}

func structName(k int) string { return fmt.Sprintf("D%d", k) }

func goFieldType(k, fi int, f FieldDef) string {
	if f.Ty == "named" {
		return fmt.Sprintf("D%dN%d", k, fi)
	}
	return f.Ty
}

// defsSource renders the definition file the generator reads.
func defsSource(defs []*Def) string {
	var b strings.Builder
	b.WriteString("package main\n\n")
	for k, d := range defs {
		for fi, f := range d.Fields {
			if f.Ty != "named" {
				continue
			}
			tn := goFieldType(k, fi, f)
			names := make([]string, len(f.View))
			for v, r := range f.View {
				names[v] = fmt.Sprintf("%q", rankNames[r])
			}
			fmt.Fprintf(&b, "type %s int\n\nvar names%s = [...]string{%s}\n\nfunc (v %s) String() string { return names%s[v] }\n\n",
				tn, tn, strings.Join(names, ", "), tn, tn)
		}
		fmt.Fprintf(&b, "type %s struct {\n", structName(k))
		for fi, f := range d.Fields {
			tag := ""
			if len(f.Tags) > 0 {
				parts := make([]string, len(f.Tags))
				for i, t := range f.Tags {
					parts[i] = `gsort:"` + t + `"`
				}
				tag = " `" + strings.Join(parts, " ") + "`"
			}
			fmt.Fprintf(&b, "\t%s %s%s\n", f.Name, goFieldType(k, fi, f), tag)
		}
		b.WriteString("\tVerifID int\n}\n\n")
	}
	return b.String()
}

// probeSource renders the probe main: builds slices of the generated sorter types from value
// indices and answers Less / sort.Sort / sort.Stable / Swap / Len queries on stdin.
// found[k] = the raw sorter names (`*` = pointer elements) the GENERATED file declares over struct
// k: the probe talks to what is there (a sorter the definition asks for and the file lacks shows
// up in the answer to `def` / `regen` and as `no-sorter`, not as a probe that does not compile).
func probeSource(defs []*Def, found [][]string) string {
	var b strings.Builder
	b.WriteString(`package main

import (
	"bufio"
	"fmt"
	"math"
	"os"
	"sort"
	"strconv"
	"strings"
)

var _ = math.Inf

type probe struct {
	mk  func(recs [][]int) sort.Interface
	ids func(x sort.Interface) []int
}

`)
	for ty, vals := range valueTables {
		if ty == "named" {
			continue
		}
		fmt.Fprintf(&b, "var tbl_%s = []%s{%s}\n", ty, ty, strings.Join(vals, ", "))
	}
	// iteration order of the map above does not matter: declarations only
	b.WriteString("\nfunc asc[T int | int8 | int16 | int32 | int64 | uint | uint8 | uint16 | uint32 | uint64 | float32 | float64 | string](t []T) bool {\n\tfor i := 0; i+1 < len(t); i++ {\n\t\tif !(t[i] < t[i+1]) || t[i] == t[i+1] {\n\t\t\treturn false\n\t\t}\n\t}\n\treturn true\n}\n\n")
	b.WriteString("func signedZero[T float32 | float64](v T, i int) T {\n\tif v == 0 && i%2 == 1 {\n\t\treturn T(math.Copysign(0, -1))\n\t}\n\treturn v\n}\n\n")
	b.WriteString("func tablesOK() bool {\n\tok := !tbl_bool[0] && tbl_bool[1]\n")
	for _, ty := range basicTypes {
		if ty == "named" || ty == "bool" {
			continue
		}
		fmt.Fprintf(&b, "\tok = ok && asc(tbl_%s)\n", ty)
	}
	// named types: String() order must be the view the model was given
	for k, d := range defs {
		for fi, f := range d.Fields {
			if f.Ty != "named" {
				continue
			}
			tn := goFieldType(k, fi, f)
			view := make([]string, len(f.View))
			for i, x := range f.View {
				view[i] = fmt.Sprint(x)
			}
			fmt.Fprintf(&b, "\t{\n\t\tview := []int{%s}\n\t\tfor v := range view {\n\t\t\tfor w := range view {\n\t\t\t\tif (%s(v).String() < %s(w).String()) != (view[v] < view[w]) {\n\t\t\t\t\tok = false\n\t\t\t\t}\n\t\t\t}\n\t\t}\n\t}\n", strings.Join(view, ", "), tn, tn)
		}
	}
	b.WriteString("\treturn ok\n}\n\nvar probes = map[string]probe{\n")
	for k, d := range defs {
		for _, raw := range found[k] {
			tn := typeTrim(raw)
			ptr := strings.HasPrefix(raw, "*")
			fmt.Fprintf(&b, "\t%q: {\n\t\tmk: func(recs [][]int) sort.Interface {\n\t\t\ts := make(%s, len(recs))\n\t\t\tfor i, r := range recs {\n\t\t\t\tv := %s{", fmt.Sprintf("%d/%s", k, raw), tn, structName(k))
			for fi, f := range d.Fields {
				switch f.Ty {
				case "named":
					fmt.Fprintf(&b, "%s: %s(r[%d]), ", f.Name, goFieldType(k, fi, f), fi)
				case "float32", "float64":
					// the zero of the table is given as -0.0 at odd positions: equal under < and ==, different bits
					fmt.Fprintf(&b, "%s: signedZero(tbl_%s[r[%d]], i), ", f.Name, f.Ty, fi)
				default:
					fmt.Fprintf(&b, "%s: tbl_%s[r[%d]], ", f.Name, f.Ty, fi)
				}
			}
			b.WriteString("VerifID: i}\n")
			if ptr {
				b.WriteString("\t\t\t\ts[i] = &v\n")
			} else {
				b.WriteString("\t\t\t\ts[i] = v\n")
			}
			fmt.Fprintf(&b, "\t\t\t}\n\t\t\treturn s\n\t\t},\n\t\tids: func(x sort.Interface) []int {\n\t\t\ts := x.(%s)\n\t\t\tr := make([]int, len(s))\n\t\t\tfor i := range s {\n\t\t\t\tr[i] = s[i].VerifID\n\t\t\t}\n\t\t\treturn r\n\t\t},\n\t},\n", tn)
		}
	}
	b.WriteString(`}

var nFields = map[string]int{
`)
	for k, d := range defs {
		fmt.Fprintf(&b, "\t%q: %d,\n", fmt.Sprint(k), len(d.Fields))
	}
	b.WriteString(`}

func parseRecs(key, w string) ([][]int, bool) {
	if w == "-" {
		return nil, true
	}
	nf := nFields[strings.SplitN(key, "/", 2)[0]]
	var recs [][]int
	for _, r := range strings.Split(w, ";") {
		var rec []int
		for _, x := range strings.Split(r, ",") {
			n, err := strconv.Atoi(x)
			if err != nil || n < 0 {
				return nil, false
			}
			rec = append(rec, n)
		}
		if len(rec) != nf {
			return nil, false
		}
		recs = append(recs, rec)
	}
	return recs, true
}

func joinInts(v []int) string {
	s := make([]string, len(v))
	for i, x := range v {
		s[i] = strconv.Itoa(x)
	}
	return strings.Join(s, ",")
}

func answer(line string) (out string) {
	defer func() {
		if r := recover(); r != nil {
			out = "panic"
		}
	}()
	w := strings.Fields(line)
	if len(w) < 3 {
		return "bad-op"
	}
	p, ok := probes[w[0]]
	if !ok {
		return "no-sorter"
	}
	recs, ok := parseRecs(w[0], w[len(w)-1])
	if !ok {
		return "bad-op"
	}
	s := p.mk(recs)
	switch w[1] {
	case "lessall":
		n := s.Len()
		buf := make([]byte, 0, n*n)
		for i := 0; i < n; i++ {
			for j := 0; j < n; j++ {
				if s.Less(i, j) {
					buf = append(buf, 't')
				} else {
					buf = append(buf, 'f')
				}
			}
		}
		return string(buf)
	case "sort":
		sort.Sort(s)
		return joinInts(p.ids(s))
	case "stable":
		sort.Stable(s)
		return joinInts(p.ids(s))
	case "swap":
		i, _ := strconv.Atoi(w[2])
		j, _ := strconv.Atoi(w[3])
		s.Swap(i, j)
		return fmt.Sprintf("len:%d %s", s.Len(), joinInts(p.ids(s)))
	}
	return "bad-op"
}

func main() {
	out := bufio.NewWriter(os.Stdout)
	if tablesOK() {
		fmt.Fprintln(out, "ready")
	} else {
		fmt.Fprintln(out, "bad-table")
	}
	out.Flush()
	sc := bufio.NewScanner(os.Stdin)
	sc.Buffer(make([]byte, 1<<20), 1<<28)
	for sc.Scan() {
		fmt.Fprintln(out, answer(sc.Text()))
		out.Flush()
	}
}
`)
	return b.String()
}

func classifyGenError(out string) string {
	switch {
	case strings.Contains(out, "multiple fields have same sort priority"):
		return "err:dup-priority"
	case strings.Contains(out, "maximum three tag options allowed"):
		return "err:tag-arity"
	case strings.Contains(out, "second option must be an int"):
		return "err:priority-not-int"
	case strings.Contains(out, "no sort attributes defined"):
		return "err:no-sort-attrs"
	}
	return "err:other"
}

// tryBuild runs the real generator on one definition file holding all defs and compiles the
// output with the probe.  It returns a non-empty failure class when any step failed.
func (w *world) tryBuild(defs []*Def) ([]*built, string) {
	dir := filepath.Join(w.root, fmt.Sprintf("p%d", w.nPkg))
	w.nPkg++
	if err := os.MkdirAll(dir, 0o755); err != nil {
		return nil, "err:io"
	}
	os.WriteFile(filepath.Join(dir, "go.mod"), []byte("module scratch\n\ngo 1.23\n"), 0o644)
	inFile := filepath.Join(dir, "defs.go")
	os.WriteFile(inFile, []byte(defsSource(defs)), 0o644)
	types := make([]string, len(defs))
	for k := range defs {
		types[k] = structName(k)
	}
	gen := exec.Command(w.gsortBin, "-in-file", inFile, "-types", strings.Join(types, ","))
	gen.Dir = dir
	gen.Env = append(append([]string{}, w.env...), "PWD="+dir)
	w.genRuns++
	out, err := gen.CombinedOutput()
	if err != nil {
		return nil, classifyGenError(string(out))
	}
	return w.buildProbe(dir, filepath.Join(dir, "defs.gsort.go"), defs)
}

// sortersOfGenerated reads a generated file: per struct name the raw sorter names found (sorted)
// and their chains.
func sortersOfGenerated(src []byte, nDefs int) (names [][]string, chains []map[string]string, err error) {
	ch, elemOf, err := chainsOfSource(src)
	if err != nil {
		return nil, nil, err
	}
	names = make([][]string, nDefs)
	chains = make([]map[string]string, nDefs)
	for k := 0; k < nDefs; k++ {
		chains[k] = map[string]string{}
		// every slice type whose element is this struct, with its element form
		for tn, el := range elemOf {
			if el != structName(k) {
				continue
			}
			raw := tn
			if strings.HasPrefix(ch[tn], "ptr ") {
				raw = "*" + tn
			}
			chains[k][raw] = ch[tn]
			names[k] = append(names[k], raw)
		}
		sort.Strings(names[k])
	}
	return names, chains, nil
}

// buildProbe reads the generated file of a scratch package whose definition files are already
// in place, compiles it with the probe and starts the probe.
func (w *world) buildProbe(dir, genFile string, defs []*Def) ([]*built, string) {
	anySorter := false
	for _, d := range defs {
		if len(d.Sorters()) > 0 {
			anySorter = true
		}
	}
	names := make([][]string, len(defs))
	chains := make([]map[string]string, len(defs))
	if anySorter {
		src, err := os.ReadFile(genFile)
		if err != nil {
			return nil, "err:no-output"
		}
		names, chains, err = sortersOfGenerated(src, len(defs))
		if err != nil {
			return nil, "err:unparsable-output"
		}
	}
	os.WriteFile(filepath.Join(dir, "main.go"), []byte(probeSource(defs, names)), 0o644)
	bin := filepath.Join(dir, "probe")
	bld := exec.Command("go", "build", "-o", bin, ".")
	bld.Dir = dir
	bld.Env = w.env
	w.goBuilds++
	if out, err := bld.CombinedOutput(); err != nil {
		if os.Getenv("VERIF_DEBUG") != "" {
			fmt.Fprintf(os.Stderr, "probe build failed in %s:\n%s\n", dir, out)
		}
		return nil, "err:compile"
	}
	cmd := exec.Command(bin)
	in, _ := cmd.StdinPipe()
	po, _ := cmd.StdoutPipe()
	cmd.Stderr = os.Stderr
	if err := cmd.Start(); err != nil {
		return nil, "err:probe-start"
	}
	p := &probeProc{cmd: cmd, in: in, out: bufio.NewReaderSize(po, 1<<20)}
	w.procs = append(w.procs, p)
	hello, _ := p.out.ReadString('\n')
	if strings.TrimSpace(hello) != "ready" {
		return nil, "err:harness-value-tables"
	}
	res := make([]*built, len(defs))
	for k, d := range defs {
		// the sorters of this definition are read off the GENERATED file
		b := &built{def: d, status: "ok", chains: chains[k], probe: p, idx: k, names: names[k]}
		if b.chains == nil {
			b.chains = map[string]string{}
		}
		res[k] = b
	}
	return res, ""
}

// prepare makes sure every definition is in the cache: one generator run and one `go build` for
// the whole batch; if anything fails, each definition on its own (so that a failure is
// attributed to the definition that causes it).
func (w *world) prepare(defs []*Def) {
	var todo []*Def
	names := map[string]bool{}
	var later []*Def
	for _, d := range defs {
		if _, ok := w.cache[d.Line()]; ok {
			continue
		}
		clash := false
		for _, s := range d.Sorters() {
			if names[typeTrim(s)] {
				clash = true
			}
		}
		dup := false
		for _, t := range todo {
			if t.Line() == d.Line() {
				dup = true
			}
		}
		if dup {
			continue
		}
		if clash {
			later = append(later, d)
			continue
		}
		for _, s := range d.Sorters() {
			names[typeTrim(s)] = true
		}
		todo = append(todo, d)
	}
	if len(todo) > 0 {
		res, fail := w.tryBuild(todo)
		if fail == "" {
			for _, b := range res {
				w.cache[b.def.Line()] = b
			}
		} else if len(todo) == 1 {
			w.cache[todo[0].Line()] = &built{def: todo[0], status: fail}
		} else {
			for _, d := range todo {
				w.prepare([]*Def{d})
			}
		}
	}
	if len(later) > 0 {
		w.prepare(later)
	}
}

func (w *world) get(d *Def) *built {
	if b, ok := w.cache[d.Line()]; ok {
		return b
	}
	w.prepare([]*Def{d})
	return w.cache[d.Line()]
}

var _ = bytes.MinRead

"""Per-property configuration of ./check (which Lean modules hold the obligations, which
harness binaries run the correspondence, what is trusted)."""

GO_TRUST = "Go compiler/runtime; the harness (cmd/%s) and the Lean line-protocol driver, incl. their canonicalisation"

PROPS = {
    "C11": dict(
        title="set: BitSet is exact bit-set algebra and reports changes truthfully",
        lean_modules=["Properties.C11"],
        harness=[dict(bin="h-set")],
        trusted=[GO_TRUST % "h-set", "Go's conversion BitSet[T](item) zero-extends (language spec)"],
        assumptions=["flags enter the model already zero-extended to 64 bits (theorem mem_ofFlag covers every width <= 64)"],
        level_text="Machine-checked Lean 4 theorems (kernel-only axioms) over a BitVec 64 model that mirrors bit_set.go statement by statement: union/difference/intersection/subset characterisations, change flag <-> value changed, multi-argument = sequential, for every set, every flag list and every flag width. The model is tied to /repo by executing model and implementation on all 65536 (set,flag) pairs of an 8-bit flag type (all triples in the thorough tier) plus random wide calls and sequences.",
        level_note="Trusted: Lean kernel + propext/Quot.sound/Classical.choice as reported by #print axioms; the Go harness and Lean driver; Go's integer conversion semantics. The theorem is about the model; the exhaustive 8-bit correspondence and random 16/32/64-bit runs are what tie it to the code.",
        technique="Lean 4 proof (induction over flag lists, bitwise extensionality) + exhaustive model/implementation correspondence",
        explanation="theorems over all BitVec 64 sets and all flag lists; correspondence exhaustive on the 8-bit flag type",
    ),
    "C07": dict(
        title="set: Set is a mathematical set under every operation sequence",
        lean_modules=["Properties.C07"],
        harness=[dict(bin="h-set")],
        trusted=[GO_TRUST % "h-set", "Go's built-in map is a finite map (insert/delete/lookup/len/range)"],
        assumptions=["Has/HasAny are called with at least one argument (the quantifier); zero-argument calls are compared only in the out-of-domain stream"],
        level_text="Machine-checked Lean 4 refinement: the model of set.go (nil/allocated map as Option (List), every early return and changed-flag guard mirrored) refines the mathematical set for EVERY operation sequence of any length over any element type (refines_math_set, by induction over the op list from the no-duplicates invariant), with Has/HasAny/Slice characterisations, change-flag <-> membership-changed, and order independence of AddSet/RemoveSet over Go's map iteration order. Tied to /repo by differential execution of random op sequences on int/string/struct sets with a full membership probe after every mutation.",
        level_note="Trusted: Lean kernel + standard axioms; Go's built-in map; the Go harness and the Lean driver. The theorem is about the model; the correspondence (20k sequences quick, 600k thorough) ties it to set.go.",
        technique="Lean 4 proof (refinement to a mathematical set by induction over operation sequences) + differential correspondence on op histories",
        explanation="refinement theorem for all op sequences; correspondence on random histories",
    ),
    "C08": dict(
        title="gsort: generated Less is the lexicographic strict weak order",
        lean_modules=["Properties.C08"],
        harness=[dict(bin="h-gsort")],
        trusted=[GO_TRUST % "h-gsort",
                 "sort.Sort / sort.Stable beyond insertion-sort size (Len > 12 resp. > 20): return an ascending (resp. ascending and tie-preserving) permutation when Less is a strict weak order (contract; observed on every sampled slice up to length 200, not proved)",
                 "Go's == and < on strings, integers and non-NaN floats are equality and a strict total order; the Go type checker (a bool key holds a bool); go/parser + go/printer (used to read the generated Less bodies)"],
        assumptions=["field values are compared through an abstract strict total order per key (hypothesis StrictTotal; floats without NaN); bool keys are Go bools",
                     "records are well typed for the key list (WellTyped: a bool key holds a bool, every other key a value of its ordered type), as the Go type checker enforces",
                     "duplicate priorities, malformed tags and omitted priorities are outside the quantifier: the model mirrors them (dup_priority_rejected, tag_error_reported) but they are compared in the out-of-domain stream only"],
        level_text="Machine-checked Lean 4 theorems (kernel-only axioms) over a model that mirrors gsort/gen statement by statement: sfdFromLine (split, 1-3 options, strconv.Atoi), createSorterDesc (grouping per sorter name with a re-sort after every insertion, Validate), PriorityTree, the template's PriorityBlock and CompareLine.String, and the meaning of the generated Less body. For EVERY struct definition with distinct priorities per sorter, every sorter name and every pair of well-typed elements, the generated Less equals lexicographic comparison of the tagged fields / accessor results in ascending priority with false < true (eval_generate_eq_lex; the spec lex is proved equal to the declarative 'first differing key decides' LexLess); it is irreflexive, asymmetric, transitive with transitive incomparability (generated_less_strictWeakOrder); the result does not depend on the sort algorithm used for the priorities (sorted_unique); Go's insertionSort (= sort.Sort for Len <= 12, sort.Stable for Len <= 20) and a stable merge sort driven by it return an ascending, tie-preserving permutation. Tied to /repo twice: the body of every generated Less (real CLI built from the working tree) is parsed and compared with the model's chain for that definition, and the compiled code's Less (all pairs of the value space), sort.Sort, sort.Stable, Swap, Len are compared with the model.",
        level_note="Trusted: Lean kernel + propext/Quot.sound/Classical.choice; sort.Sort/sort.Stable for slices longer than 12/20 (contract, observed only); Go's comparison operators and type checker; the Go harness (definition generator, go/parser reader of the generated code, probe program) and the Lean driver. The theorems are about the model; the program-text comparison covers every generated definition, the execution comparison is exhaustive on pairs over 2-3 values per field.",
        technique="Lean 4 proof (structural induction over the generated comparison chain, for all struct definitions) + correspondence on the generated program text (go/parser) and on the compiled code (exhaustive Less, sort.Sort/sort.Stable)",
        explanation="theorems for all struct definitions x all element pairs; correspondence: ~300 generated definitions per quick run (every field type alone, all type pairs, random 1-5 keys, 1-3 sorters, value/pointer form), Less on all pairs, sort/stable on all slices <= 4 for small value spaces and random slices <= 200",
    ),
    "C17": dict(
        title="set: JSON and YAML encodings of Set round-trip membership",
        lean_modules=["Properties.C17"],
        harness=[dict(bin="h-set")],
        trusted=[GO_TRUST % "h-set", "encoding/json and gopkg.in/yaml.v3 round-trip lists of the element types (hypothesis Codec.RoundTrips; observed by the correspondence run, not proved)"],
        assumptions=["the list codec round-trips the element type (no NaN floats); a literal YAML null decoded into a pre-filled set is yaml.v3 behaviour and out of domain"],
        level_text="Machine-checked Lean 4 theorems, parametric in the element list codec: Unmarshal(Marshal(s)) into any target is exactly target ∪ s (hence exact round trip into nil/empty targets, nil and empty sets included), the encoding is Slice() = each member once, nil exactly when empty. PARTIAL: the codec's own round-trip law is a hypothesis of the theorems, validated differentially (json and yaml.v3, standalone and as struct field, 7 element types incl. YAML-significant strings) rather than proved.",
        level_note="Trusted: Lean kernel + standard axioms; encoding/json and yaml.v3 (not modelled; their list round trip is the hypothesis RoundTrips); the Go harness and Lean driver.",
        technique="Lean 4 proof parametric in a codec law (reusing the C07 refinement lemmas) + differential correspondence through the real codecs",
        explanation="partial: codec law is a hypothesis; everything Set itself contributes is proved",
    ),
}

# properties not claimed, with the reason (kept current; see DESIGN.md)
NOT_CLAIMED = {}

import Properties.C12Tie
/-!
# C12, tie A by translation: `validateParsableTraits` as translated on this run = the model's `parsableUnique`

The Go function walks the parsable traits and their instances with two nested index loops, remembers in a
`map[string]string` which enum value every constant TEXT belongs to, returns an error when a text turns up under
another value, and marks (through the range copy, i.e. in the caller's slice) an instance whose text was already
seen under the SAME value.  `go_validateParsable_closed` is its closed form for every input (`vpDescs`: no panic,
which descriptors come back with which marks, whether the error is returned); `go_validateParsable_eq` ties it to
the model: on descriptors related to the model's (`DescRel`), the error is returned exactly when the model's
`parsableUnique` is false.
-/
set_option linter.unusedSimpArgs false
set_option linter.unusedVariables false
namespace C12Tie
open Generated.GoGenumValues Generated.GoGenumGen Genum GoLoop

abbrev SMap := Go.KV String String

/-- one instance: `none` = the error return; else the new map and the instance (marked when its text was already
recorded for its own value) -/
def vpStep (m : SMap) (x : GTraitInstance) : Option (SMap × GTraitInstance) :=
  match Go.kvGet m x.value with
  | some o =>
    if o != x.OwningValue.Name then none
    else some (Go.kvSet m x.value x.OwningValue.Name, { x with repeatsParseKey := true })
  | none => some (Go.kvSet m x.value x.OwningValue.Name, x)

/-- the instances of one trait: (map, instances as they are left behind, no error) -/
def vpInsts (m : SMap) : List GTraitInstance → SMap × List GTraitInstance × Bool
  | [] => (m, [], true)
  | x :: xs =>
    match vpStep m x with
    | none => (m, x :: xs, false)
    | some (m', x') => let r := vpInsts m' xs; (r.1, x' :: r.2.1, r.2.2)

/-- the traits: (descriptors as they are left behind, map, no error) -/
def vpDescs (m : SMap) : List GTraitDesc → List GTraitDesc × SMap × Bool
  | [] => ([], m, true)
  | t :: ts =>
    if t.Parsable then
      let r := vpInsts m t.Traits
      if r.2.2 then let q := vpDescs r.1 ts; ({ t with Traits := r.2.1 } :: q.1, q.2.1, q.2.2)
      else ({ t with Traits := r.2.1 } :: ts, r.1, false)
    else let q := vpDescs m ts; (t :: q.1, q.2.1, q.2.2)

abbrev InnerSt := Option (List GTraitDesc × Option String) × List GTraitDesc × SMap × GTraitDesc
abbrev OuterSt := Option (List GTraitDesc × Option String) × List GTraitDesc × SMap

theorem set_self {α : Type} (l : List α) (k : Nat) (x : α) (h : l[k]? = some x) : l.set k x = l := by
  induction l generalizing k with
  | nil => rfl
  | cons a l ih =>
    cases k with
    | zero => simp at h; simp [h]
    | succ k => simp at h; simp [ih k h]

theorem vp_inner (body : Nat → InnerSt → Go.M (ForInStep InnerSt)) (msg : String) (k3 : Nat)
    (h : ∀ (i : Nat) (traits : List GTraitDesc) (m : SMap) (tr : GTraitDesc) (hi : i < tr.Traits.length),
      k3 < traits.length → traits[k3]? = some tr → body i (none, traits, m, tr) = pure (match vpStep m tr.Traits[i] with
        | none => ForInStep.done (some (traits, some msg), traits, m, tr)
        | some (m', x') => ForInStep.yield (none, traits.set k3 { tr with Traits := tr.Traits.set i x' }, m',
            { tr with Traits := tr.Traits.set i x' })))
    (suf : List GTraitInstance) :
    ∀ (pre : List GTraitInstance) (m : SMap) (traits : List GTraitDesc) (tr : GTraitDesc),
      k3 < traits.length → tr.Traits = pre ++ suf → traits[k3]? = some tr →
      forIn (List.range' pre.length suf.length) ((none, traits, m, tr) : InnerSt) body = pure (
        let r := vpInsts m suf
        let tr' : GTraitDesc := { tr with Traits := pre ++ r.2.1 }
        ((if r.2.2 then none else some (traits.set k3 tr', some msg)), traits.set k3 tr', r.1, tr')) := by
  induction suf with
  | nil =>
    intro pre m traits tr hk htr hinv
    have e1 : ({ tr with Traits := pre ++ [] } : GTraitDesc) = tr := by
      cases tr; simp at htr; simp [htr]
    simp only [List.length_nil, List.range'_zero, List.forIn_nil, vpInsts, e1, set_self _ _ _ hinv]
    rfl
  | cons x suf ih =>
    intro pre m traits tr hk htr hinv
    have hi : pre.length < tr.Traits.length := by rw [htr]; simp
    have hx : tr.Traits[pre.length] = x := by simp [htr]
    rw [List.length_cons, List.range'_succ, List.forIn_cons, h pre.length traits m tr hi hk hinv, hx]
    obtain hs | ⟨p, hs⟩ : vpStep m x = none ∨ ∃ p, vpStep m x = some p := by
      cases vpStep m x <;> simp
    · have hv : vpInsts m (x :: suf) = (m, x :: suf, false) := by simp [vpInsts, hs]
      simp only [hs, hv]
      have e1 : ({ tr with Traits := pre ++ x :: suf } : GTraitDesc) = tr := by
        cases tr; simp at htr; simp [htr]
      simp only [pure_bind, e1, set_self _ _ _ hinv]
      rfl
    · obtain ⟨m', x'⟩ := p
      have hv : vpInsts m (x :: suf) = ((vpInsts m' suf).1, x' :: (vpInsts m' suf).2.1, (vpInsts m' suf).2.2) := by
        simp [vpInsts, hs]
      simp only [hs, hv, pure_bind]
      have hset : tr.Traits.set pre.length x' = (pre ++ [x']) ++ suf := by
        rw [htr]; simp [List.set_append]
      have := ih (pre ++ [x']) m' (traits.set k3 { tr with Traits := tr.Traits.set pre.length x' })
        { tr with Traits := tr.Traits.set pre.length x' } (by simpa using hk) hset (by simp [hk])
      simp only [List.length_append, List.length_singleton] at this
      rw [this]
      simp [List.set_set, List.append_assoc]


theorem vp_outer (body : Nat → OuterSt → Go.M (ForInStep OuterSt)) (msg : String)
    (h : ∀ (k : Nat) (traits : List GTraitDesc) (m : SMap) (hk : k < traits.length),
      body k (none, traits, m) = pure (
        if traits[k].Parsable then
          (if (vpInsts m traits[k].Traits).2.2 then
            ForInStep.yield (none, traits.set k { traits[k] with Traits := (vpInsts m traits[k].Traits).2.1 },
              (vpInsts m traits[k].Traits).1)
          else ForInStep.done (some (traits.set k { traits[k] with Traits := (vpInsts m traits[k].Traits).2.1 }, some msg),
              traits.set k { traits[k] with Traits := (vpInsts m traits[k].Traits).2.1 }, (vpInsts m traits[k].Traits).1))
        else ForInStep.yield (none, traits, m)))
    (suf : List GTraitDesc) :
    ∀ (pre : List GTraitDesc) (m : SMap),
      forIn (List.range' pre.length suf.length) ((none, pre ++ suf, m) : OuterSt) body = pure (
        ((if (vpDescs m suf).2.2 then none else some (pre ++ (vpDescs m suf).1, some msg)),
          pre ++ (vpDescs m suf).1, (vpDescs m suf).2.1)) := by
  induction suf with
  | nil => intro pre m; simp [vpDescs]
  | cons t suf ih =>
    intro pre m
    have hk : pre.length < (pre ++ t :: suf).length := by simp
    have ht : (pre ++ t :: suf)[pre.length] = t := by simp
    rw [List.length_cons, List.range'_succ, List.forIn_cons, h pre.length (pre ++ t :: suf) m hk]
    simp only [ht]
    by_cases hp : t.Parsable = true
    · by_cases hok : (vpInsts m t.Traits).2.2 = true
      · have hv : vpDescs m (t :: suf) = ({ t with Traits := (vpInsts m t.Traits).2.1 } :: (vpDescs (vpInsts m t.Traits).1 suf).1,
            (vpDescs (vpInsts m t.Traits).1 suf).2.1, (vpDescs (vpInsts m t.Traits).1 suf).2.2) := by
          simp [vpDescs, hp, hok]
        have hset : (pre ++ t :: suf).set pre.length { t with Traits := (vpInsts m t.Traits).2.1 }
            = (pre ++ [{ t with Traits := (vpInsts m t.Traits).2.1 }]) ++ suf := by simp [List.set_append]
        have := ih (pre ++ [{ t with Traits := (vpInsts m t.Traits).2.1 }]) (vpInsts m t.Traits).1
        simp only [List.length_append, List.length_singleton] at this
        rw [if_pos hp, if_pos hok]
        simp only [pure_bind, hset]
        rw [this]
        simp only [hv, List.append_assoc, List.singleton_append]
      · have hv : vpDescs m (t :: suf) = ({ t with Traits := (vpInsts m t.Traits).2.1 } :: suf, (vpInsts m t.Traits).1, false) := by
          simp [vpDescs, hp, hok]
        have hset : (pre ++ t :: suf).set pre.length { t with Traits := (vpInsts m t.Traits).2.1 }
            = pre ++ { t with Traits := (vpInsts m t.Traits).2.1 } :: suf := by simp [List.set_append]
        rw [if_pos hp, if_neg hok]
        simp only [pure_bind, hset, hv, Bool.false_eq_true, if_false]
    · have hv : vpDescs m (t :: suf) = (t :: (vpDescs m suf).1, (vpDescs m suf).2.1, (vpDescs m suf).2.2) := by
        simp [vpDescs, hp]
      have := ih (pre ++ [t]) m
      simp only [List.length_append, List.length_singleton] at this
      rw [if_neg hp]
      simp only [pure_bind]
      rw [show pre ++ t :: suf = pre ++ [t] ++ suf by simp, this]
      simp only [hv, List.append_assoc, List.singleton_append]

theorem vp_outer0 (body : Nat → OuterSt → Go.M (ForInStep OuterSt)) (msg : String) (gs : List GTraitDesc) (m : SMap)
    (h : ∀ (k : Nat) (traits : List GTraitDesc) (m : SMap) (hk : k < traits.length),
      body k (none, traits, m) = pure (
        if traits[k].Parsable then
          (if (vpInsts m traits[k].Traits).2.2 then
            ForInStep.yield (none, traits.set k { traits[k] with Traits := (vpInsts m traits[k].Traits).2.1 },
              (vpInsts m traits[k].Traits).1)
          else ForInStep.done (some (traits.set k { traits[k] with Traits := (vpInsts m traits[k].Traits).2.1 }, some msg),
              traits.set k { traits[k] with Traits := (vpInsts m traits[k].Traits).2.1 }, (vpInsts m traits[k].Traits).1))
        else ForInStep.yield (none, traits, m))) :
    forIn (List.range' 0 gs.length) ((none, gs, m) : OuterSt) body = pure (
      ((if (vpDescs m gs).2.2 then none else some ((vpDescs m gs).1, some msg)), (vpDescs m gs).1, (vpDescs m gs).2.1)) := by
  have := vp_outer body msg h gs [] m
  simpa using this

theorem vp_inner0 (body : Nat → InnerSt → Go.M (ForInStep InnerSt)) (msg : String) (k3 : Nat)
    (m : SMap) (traits : List GTraitDesc) (tr : GTraitDesc) (hk : k3 < traits.length) (hinv : traits[k3]? = some tr)
    (h : ∀ (i : Nat) (traits : List GTraitDesc) (m : SMap) (tr : GTraitDesc) (hi : i < tr.Traits.length),
      k3 < traits.length → traits[k3]? = some tr → body i (none, traits, m, tr) = pure (match vpStep m tr.Traits[i] with
        | none => ForInStep.done (some (traits, some msg), traits, m, tr)
        | some (m', x') => ForInStep.yield (none, traits.set k3 { tr with Traits := tr.Traits.set i x' }, m',
            { tr with Traits := tr.Traits.set i x' }))) :
    forIn (List.range' 0 tr.Traits.length) ((none, traits, m, tr) : InnerSt) body = pure (
      ((if (vpInsts m tr.Traits).2.2 then none else some (traits.set k3 { tr with Traits := (vpInsts m tr.Traits).2.1 }, some msg)),
        traits.set k3 { tr with Traits := (vpInsts m tr.Traits).2.1 }, (vpInsts m tr.Traits).1,
        { tr with Traits := (vpInsts m tr.Traits).2.1 })) := by
  have := vp_inner body msg k3 h tr.Traits [] m traits tr hk (by simp) hinv
  simpa using this

/-- `validateParsableTraits`, for every list of descriptors: no panic; the descriptors come back as `vpDescs`
leaves them (marks on repeated Parse keys); the error is returned exactly when `vpDescs` says so -/
theorem go_validateParsable_closed (e : String) (gs : List GTraitDesc) :
    validateParsableTraits e gs = pure ((vpDescs [] gs).1,
      if (vpDescs [] gs).2.2 then none else some validateParsableTraits_err1) := by
  unfold validateParsableTraits
  simp only []
  rw [vp_outer0 _ validateParsableTraits_err1 gs [] ?h]
  · by_cases hok : (vpDescs [] gs).2.2 = true <;> simp [hok]
  case h =>
    intro k traits m hk
    simp only [listGet_lt _ _ hk, pure_bind]
    by_cases hp : traits[k].Parsable = true
    · rw [if_pos hp, if_pos hp]
      rw [vp_inner0 _ validateParsableTraits_err1 k m traits traits[k] hk (by simp [hk]) ?h2]
      · by_cases hok : (vpInsts m traits[k].Traits).2.2 = true <;> simp [hok]
      case h2 =>
        intro i traits' m' tr hi hk' hinv'
        simp only [listGet_lt _ _ hi, pure_bind, vpStep]
        have e1 : ({ tr with Traits := tr.Traits } : GTraitDesc) = tr := rfl
        cases hg : Go.kvGet m' tr.Traits[i].value with
        | none => simp [hg, e1, set_self _ _ _ hinv']
        | some o =>
          by_cases hne : o = tr.Traits[i].OwningValue.Name
          · simp [hg, hne, Go.listSet, hi, hk']
          · simp [hg, hne]
    · rw [if_neg hp, if_neg hp]

end C12Tie

import Model.GErrorIs
/-! Helper lemmas for C06: evaluation of `ifaceEq`/`gIs`/`errorsIs` on well-formed heaps. -/
set_option linter.unusedSimpArgs false
namespace GErrorIs

@[simp] theorem Res.guard_f (c : Bool) : Res.guard c .f = .f := by cases c <;> rfl
@[simp] theorem Res.guard_true (r : Res) : Res.guard true r = r := rfl
@[simp] theorem Res.guard_false (r : Res) : Res.guard false r = .f := rfl
@[simp] theorem Res.or_t (r : Res) : Res.or .t r = .t := rfl
@[simp] theorem Res.or_f (r : Res) : Res.or .f r = r := rfl
@[simp] theorem Res.ofBool_true : Res.ofBool true = .t := rfl
@[simp] theorem Res.ofBool_false : Res.ofBool false = .f := rfl

theorem Res.ofBool_or (a b : Bool) : (Res.ofBool a).or (Res.ofBool b) = Res.ofBool (a || b) := by
  cases a <;> cases b <;> rfl

theorem Res.ofBool_cases (b : Bool) : Res.ofBool b = .t ∨ Res.ofBool b = .f := by
  cases b <;> simp

@[simp] theorem Res.ofBool_eq_t (b : Bool) : (Res.ofBool b = .t) = (b = true) := by cases b <;> simp
@[simp] theorem Res.ofBool_eq_f (b : Bool) : (Res.ofBool b = .f) = (b = false) := by cases b <;> simp
@[simp] theorem Res.ofBool_ne_panic (b : Bool) : Res.ofBool b ≠ .panic := by cases b <;> simp
@[simp] theorem Res.ofBool_ne_fuel (b : Bool) : Res.ofBool b ≠ .fuel := by cases b <;> simp
theorem Res.ofBool_congr {a b : Bool} (h : a = b) : Res.ofBool a = Res.ofBool b := by rw [h]

def isG (v : Val) : Bool := (embedded v).isSome
def addr (v : Val) : Nat := (embedded v).getD 0
def isForeign : Val → Bool
  | .foreign _ _ _ => true
  | _ => false

/-- `==` with a gerror value on the left never panics and decides equality of the values -/
theorem ifaceEq_of_isG_left (v w : Val) (hv : isG v = true) : ifaceEq v w = .ofBool (decide (v = w)) := by
  cases v with
  | nil => simp [isG, embedded] at hv
  | foreign => simp [isG, embedded] at hv
  | base a => cases w <;> simp [ifaceEq] <;> (apply Res.ofBool_congr; rw [Bool.eq_iff_iff]; simp)
  | ext t a => cases w <;> simp [ifaceEq] <;> (apply Res.ofBool_congr; rw [Bool.eq_iff_iff]; simp)

theorem ifaceEq_of_isG_right (v w : Val) (hw : isG w = true) : ifaceEq v w = .ofBool (decide (v = w)) := by
  cases w with
  | nil => simp [isG, embedded] at hw
  | foreign => simp [isG, embedded] at hw
  | base a =>
    cases v with
    | foreign t _ _ => cases t <;> simp [ifaceEq]
    | _ => simp [ifaceEq] <;> (try (apply Res.ofBool_congr; rw [Bool.eq_iff_iff]; simp))
  | ext t a =>
    cases v with
    | foreign t _ _ => cases t <;> simp [ifaceEq]
    | _ => simp [ifaceEq] <;> (try (apply Res.ofBool_congr; rw [Bool.eq_iff_iff]; simp))

theorem ifaceEq_nil_right_of_ne (v : Val) (hv : v ≠ .nil) : ifaceEq v .nil = .f := by
  cases v with
  | nil => exact absurd rfl hv
  | base => rfl
  | ext => rfl
  | foreign t _ _ => cases t <;> rfl

/-- with a comparable right operand `==` never panics -/
theorem ifaceEq_ne_panic_of_comparable (v w : Val) (hw : isComparable w = true) : ifaceEq v w ≠ .panic := by
  cases v with
  | nil => cases w <;> simp [ifaceEq]
  | base a => rw [ifaceEq_of_isG_left _ _ (by simp [isG, embedded])]; simp
  | ext t a => rw [ifaceEq_of_isG_left _ _ (by simp [isG, embedded])]; simp
  | foreign t i x =>
    cases w with
    | nil => cases t <;> simp [ifaceEq]
    | base => cases t <;> simp [ifaceEq]
    | ext => cases t <;> simp [ifaceEq]
    | foreign u j y =>
      cases u with
      | noncmp => simp [isComparable] at hw
      | cmp u =>
        cases t with
        | noncmp => simp [ifaceEq]
        | cmp t => simp [ifaceEq]


/-! ### well-formed heaps -/

/-- the root an object was derived from (itself for a root) -/
def origin (h : Heap) (a : Nat) : Nat :=
  match (obj h a).factoryRef with
  | .base r => r
  | _ => a

/-- the heap invariant: every back-reference is nil (a root) or points at a root; only roots are
marked as factories; converted errors are foreign errors and only derived objects carry them. -/
structure WF (h : Heap) : Prop where
  ref : ∀ a, (obj h a).factoryRef = .nil ∨
    ∃ r, (obj h a).factoryRef = .base r ∧ r < h.length ∧ (obj h r).factoryRef = .nil ∧
      (obj h a).isFactory = false
  srcs : ∀ a s, s ∈ (obj h a).srcErrors → isForeign s = true
  rootSrcs : ∀ a, (obj h a).factoryRef = .nil → (obj h a).srcErrors = []

theorem origin_root {h : Heap} {a : Nat} (hr : (obj h a).factoryRef = .nil) : origin h a = a := by
  simp [origin, hr]

theorem origin_derived {h : Heap} {a r : Nat} (hr : (obj h a).factoryRef = .base r) : origin h a = r := by
  simp [origin, hr]

theorem WF.origin_is_root {h : Heap} (hwf : WF h) (a : Nat) : (obj h (origin h a)).factoryRef = .nil := by
  rcases hwf.ref a with hr | ⟨r, hr, _, hrr, _⟩
  · rw [origin_root hr]; exact hr
  · rw [origin_derived hr]; exact hrr

theorem WF.origin_idem {h : Heap} (hwf : WF h) (a : Nat) : origin h (origin h a) = origin h a :=
  origin_root (hwf.origin_is_root a)

theorem WF.factory_is_root {h : Heap} (hwf : WF h) {a : Nat} (hf : (obj h a).isFactory = true) :
    (obj h a).factoryRef = .nil := by
  rcases hwf.ref a with hr | ⟨r, _, _, _, hnf⟩
  · exact hr
  · rw [hnf] at hf; cases hf

theorem isForeign_not_isG {s : Val} (hs : isForeign s = true) : isG s = false := by
  cases s <;> simp_all [isForeign, isG, embedded]

/-- a converted (foreign) error is never `==` to a gerror value -/
theorem containsErr_of_isG {srcs : List Val} {w : Val} (hs : ∀ s ∈ srcs, isForeign s = true)
    (hw : isG w = true) : containsErr srcs w = .f := by
  induction srcs with
  | nil => rfl
  | cons s rest ih =>
    have h1 : ifaceEq s w = .f := by
      rw [ifaceEq_of_isG_right _ _ hw]
      have : s ≠ w := by
        intro e; subst e
        have := isForeign_not_isG (hs s (by simp)); rw [hw] at this; cases this
      simp [this]
    simp [containsErr, h1]
    exact ih (fun s hs' => hs s (by simp [hs']))

def Res.isBool (r : Res) : Prop := r = .t ∨ r = .f

theorem Res.isBool_or {a b : Res} (ha : a.isBool) (hb : b.isBool) : (a.or b).isBool := by
  rcases ha with rfl | rfl <;> simp [hb] <;> exact Or.inl rfl

theorem Res.isBool_guard {c : Bool} {b : Res} (hb : b.isBool) : (Res.guard c b).isBool := by
  cases c <;> simp [hb] <;> exact Or.inr rfl

theorem Res.isBool_ofBool (b : Bool) : (Res.ofBool b).isBool := by
  cases b <;> simp [Res.isBool]

theorem ifaceEq_isBool_of_comparable (v w : Val) (hw : isComparable w = true) : (ifaceEq v w).isBool := by
  have h1 := ifaceEq_ne_panic_of_comparable v w hw
  have h2 : ifaceEq v w ≠ .fuel := by
    cases v <;> cases w <;> simp [ifaceEq] <;>
      (rename_i t _ _ u _ _; cases t <;> cases u <;> simp [ifaceEq] <;> split <;> simp)
  revert h1 h2; cases ifaceEq v w <;> simp [Res.isBool]

theorem containsErr_isBool_of_comparable (srcs : List Val) (w : Val) (hw : isComparable w = true) :
    (containsErr srcs w).isBool := by
  induction srcs with
  | nil => exact Or.inr rfl
  | cons s rest ih => exact Res.isBool_or (ifaceEq_isBool_of_comparable s w hw) ih


theorem xref_of_embedded {h : Heap} {w : Val} {b : Nat} (hw : embedded w = some b) :
    extractFactoryRef h w = if (obj h b).isFactory then .base b else (obj h b).factoryRef := by
  simp [extractFactoryRef, hw]

/-- one unfolding of `(*GError).Is` on a gerror target, all comparisons decided -/
theorem gIs_succ_isG {h : Heap} (hwf : WF h) (n e : Nat) {w : Val} {b : Nat} (hw : embedded w = some b) :
    gIs h (n + 1) e w =
      if ((obj h e).isFactory && decide (Val.base e = extractFactoryRef h w)) || decide (Val.base e = w)
          || decide ((obj h e).factoryRef = w) then .t
      else if (obj h b).factoryRef = .nil then .f else gIs h n e (obj h b).factoryRef := by
  have hg : isG w = true := by simp [isG, hw]
  have hwn : w ≠ .nil := by intro e; subst e; simp [embedded] at hw
  have hc : containsErr (obj h e).srcErrors w = .f := containsErr_of_isG (hwf.srcs e) hg
  rw [gIs]
  simp only [hc, Res.guard_f, hw]
  rw [ifaceEq_of_isG_left (.base e) _ (by simp [isG, embedded]),
      ifaceEq_of_isG_left (.base e) w (by simp [isG, embedded]),
      ifaceEq_of_isG_right _ w hg]
  have hN : decide ((obj h e).factoryRef = w) = true → ((obj h e).factoryRef != Val.nil) = true := by
    intro h4; simp at h4; simp [h4, hwn]
  revert hN
  cases hF : (obj h e).isFactory <;> cases hA : decide (Val.base e = extractFactoryRef h w) <;>
    cases hB : decide (Val.base e = w) <;> cases hC : decide ((obj h e).factoryRef = w) <;>
    cases hNn : ((obj h e).factoryRef != Val.nil) <;> intro hN <;>
    simp only [Res.guard, Res.or, Res.ofBool, Bool.false_eq_true, if_false, if_true, Bool.and_true,
      Bool.and_false, Bool.or_false, Bool.or_true, Bool.true_and, Bool.false_and, Bool.false_or, Bool.true_or] <;>
    first | rfl | (exact absurd (hN rfl) (by simp))


/-- the three identity tests of `Is` all fail when receiver and target have different origins -/
theorem cond_false_of_diff {h : Heap} (hwf : WF h) {e b : Nat} {w : Val} (hw : embedded w = some b)
    (hd : origin h e ≠ origin h b) :
    (((obj h e).isFactory && decide (Val.base e = extractFactoryRef h w)) || decide (Val.base e = w)
      || decide ((obj h e).factoryRef = w)) = false := by
  have h1 : ((obj h e).isFactory && decide (Val.base e = extractFactoryRef h w)) = false := by
    cases hF : (obj h e).isFactory with
    | false => rfl
    | true =>
      simp only [Bool.true_and, decide_eq_false_iff_not]
      intro hx
      rw [xref_of_embedded hw] at hx
      have hre := origin_root (hwf.factory_is_root hF)
      split at hx
      · injection hx with hx; subst hx; exact hd rfl
      · exact hd (by rw [hre, origin_derived hx.symm])
  have h2 : decide (Val.base e = w) = false := by
    simp only [decide_eq_false_iff_not]; intro hx; subst hx
    simp [embedded] at hw; subst hw; exact hd rfl
  have h3 : decide ((obj h e).factoryRef = w) = false := by
    simp only [decide_eq_false_iff_not]; intro hx
    rcases hwf.ref e with hr | ⟨r, hr, _, hrr, _⟩
    · rw [hr] at hx; subst hx; simp [embedded] at hw
    · rw [hr] at hx; subst hx; simp [embedded] at hw; subst hw
      exact hd (by rw [origin_derived hr, origin_root hrr])
  simp [h1, h2, h3]

/-- `Is` between values of different origin is false (two levels of fuel suffice) -/
theorem gIs_of_diff {h : Heap} (hwf : WF h) (n : Nat) {e b : Nat} {w : Val} (hw : embedded w = some b)
    (hd : origin h e ≠ origin h b) : gIs h (n + 2) e w = .f := by
  rw [gIs_succ_isG hwf _ _ hw, cond_false_of_diff hwf hw hd]
  simp only [Bool.false_eq_true, if_false]
  rcases hwf.ref b with hr | ⟨r, hr, _, hrr, _⟩
  · simp [hr]
  · have hw' : embedded (Val.base r) = some r := rfl
    have hd' : origin h e ≠ origin h r := by rw [origin_root hrr]; rw [origin_derived hr] at hd; exact hd
    rw [hr]; simp only [reduceCtorEq, if_false]
    rw [gIs_succ_isG hwf _ _ hw', cond_false_of_diff hwf hw' hd']
    simp [hrr]

/-- a root recognises everything derived from it; an extension-type root value only if it is marked -/
theorem gIs_root_same {h : Heap} (hwf : WF h) (n : Nat) {r b : Nat} {w : Val} (hw : embedded w = some b)
    (hr : (obj h r).factoryRef = .nil) (ho : origin h b = r)
    (hm : ∀ t, w = .ext t r → (obj h r).isFactory = true) : gIs h (n + 2) r w = .t := by
  rw [gIs_succ_isG hwf _ _ hw]
  split
  · rfl
  · rename_i hc
    rcases hwf.ref b with hb | ⟨r', hb, _, _, _⟩
    · exfalso; apply hc
      have hbr : b = r := by rw [origin_root hb] at ho; exact ho
      subst hbr
      cases w with
      | nil => simp [embedded] at hw
      | foreign => simp [embedded] at hw
      | base a => simp [embedded] at hw; subst hw; simp
      | ext t a =>
        simp [embedded] at hw; subst hw
        have := hm t rfl
        simp [xref_of_embedded (w := Val.ext t a) rfl, this]
    · have : r' = r := by rw [origin_derived hb] at ho; exact ho
      subst this
      rw [hb]; simp only [reduceCtorEq, if_false]
      rw [gIs_succ_isG hwf _ _ (w := Val.base r') rfl]
      simp

theorem gIs_isBool_isG {h : Heap} (hwf : WF h) (n e : Nat) {w : Val} {b : Nat} (hw : embedded w = some b) :
    (gIs h (n + 2) e w).isBool := by
  rw [gIs_succ_isG hwf _ _ hw]
  split
  · exact Or.inl rfl
  · rcases hwf.ref b with hr | ⟨r, hr, _, hrr, _⟩
    · simp [hr, Res.isBool]
    · rw [hr]; simp only [reduceCtorEq, if_false]
      rw [gIs_succ_isG hwf _ _ (w := Val.base r) rfl]
      split
      · exact Or.inl rfl
      · simp [hrr, Res.isBool]


theorem unwrap_of_embedded {h : Heap} {v : Val} {a : Nat} (hv : embedded v = some a) :
    unwrap h v = (obj h a).factoryRef := by
  cases v <;> simp [embedded] at hv <;> subst hv <;> rfl

/-- one iteration of the `errors.Is` loop on a gerror value `v` against a gerror target -/
theorem loop_succ_isG {h : Heap} (n : Nat) {v w : Val} {a : Nat} (hv : embedded v = some a) :
    errorsIsLoop (gIs h) h (n + 1) v w true =
      if v = w then .t else
      match gIs h (n + 1) a w with
      | .t => .t
      | .f => if (obj h a).factoryRef = .nil then .f else errorsIsLoop (gIs h) h n (obj h a).factoryRef w true
      | x => x := by
  rw [errorsIsLoop, ifaceEq_of_isG_left v w (by simp [isG, hv]), unwrap_of_embedded hv]
  by_cases hvw : v = w
  · simp [hvw]
  · cases hg : gIs h (n + 1) a w <;> simp [hvw, hv, hg]

/-- errors.Is between two gerror values: exactly "same originating factory".
`hm`: an extension-type root used as target is marked by FactoryOf (the domain). -/
theorem errorsIs_isG {h : Heap} (hwf : WF h) (n : Nat) {v w : Val} {a b : Nat}
    (hv : embedded v = some a) (hw : embedded w = some b)
    (hm : ∀ t, w = .ext t b → (obj h b).factoryRef = .nil → (obj h b).isFactory = true) :
    errorsIs h (n + 3) v w = .ofBool (decide (origin h a = origin h b)) := by
  have hvn : v ≠ .nil := by intro e; subst e; simp [embedded] at hv
  have hwn : w ≠ .nil := by intro e; subst e; simp [embedded] at hw
  have hcmp : isComparable w = true := by cases w <;> simp [embedded] at hw <;> rfl
  rw [errorsIs]; simp only [hvn, hwn, or_self, if_false, hcmp]
  rw [loop_succ_isG _ hv]
  by_cases hvw : v = w
  · subst hvw; rw [hv] at hw; injection hw with hw; subst hw; simp
  · simp only [hvw, if_false]
    by_cases ho : origin h a = origin h b
    · -- same origin
      simp only [ho, decide_true, Res.ofBool_true]
      have hroot := hwf.origin_is_root b
      have hm' : ∀ t, w = .ext t (origin h b) → (obj h (origin h b)).isFactory = true := by
        intro t hwt
        have hb : origin h b = b := by rw [hwt] at hw; simpa [embedded] using hw
        rw [hb] at hwt hroot ⊢
        exact hm t hwt hroot
      rcases hwf.ref a with hr | ⟨r, hr, _, hrr, _⟩
      · have : a = origin h b := by rw [← ho, origin_root hr]
        subst this
        rw [gIs_root_same hwf (n + 1) hw hr rfl hm']
      · have hrb : r = origin h b := by rw [← ho, origin_derived hr]
        rcases gIs_isBool_isG hwf (n + 1) a hw with hg | hg
        · rw [hg]
        · rw [hg, hr]; simp only [reduceCtorEq, if_false]
          rw [loop_succ_isG _ (v := Val.base r) rfl]
          split
          · rfl
          · rw [gIs_root_same hwf n hw hrr hrb.symm (by intro t hwt; rw [hrb]; exact hm' t (by rw [← hrb]; exact hwt))]
    · -- different origins
      simp only [ho, decide_false, Res.ofBool_false]
      rw [gIs_of_diff hwf (n + 1) hw ho]
      rcases hwf.ref a with hr | ⟨r, hr, _, hrr, _⟩
      · simp [hr]
      · rw [hr]; simp only [reduceCtorEq, if_false]
        have ho' : origin h r ≠ origin h b := by rw [origin_root hrr]; rw [origin_derived hr] at ho; exact ho
        rw [loop_succ_isG _ (v := Val.base r) rfl]
        have : Val.base r ≠ w := by
          intro e; subst e; simp [embedded] at hw; subst hw; exact ho' rfl
        simp only [this, if_false]
        rw [gIs_of_diff hwf n hw ho']
        simp [hrr]


/-- `Is` against a foreign target only looks at the converted errors, guarded by comparability -/
theorem gIs_foreign {h : Heap} (hwf : WF h) (n e : Nat) {w : Val} (hw : isForeign w = true) :
    gIs h (n + 1) e w = Res.guard (isComparable w) (containsErr (obj h e).srcErrors w) := by
  cases w with
  | nil => simp [isForeign] at hw
  | base => simp [isForeign] at hw
  | ext => simp [isForeign] at hw
  | foreign ty i x =>
    rw [gIs]
    have h1 : extractFactoryRef h (Val.foreign ty i x) = .nil := rfl
    have h2 : ifaceEq (Val.base e) Val.nil = .f := rfl
    have h3 : ifaceEq (Val.base e) (Val.foreign ty i x) = .f := rfl
    have h4 : Res.guard ((obj h e).factoryRef != Val.nil) (ifaceEq (obj h e).factoryRef (Val.foreign ty i x)) = .f := by
      rcases hwf.ref e with hr | ⟨r, hr, _, _, _⟩
      · simp [hr]
      · rw [hr]; simp [ifaceEq]
    have h5 : embedded (Val.foreign ty i x) = none := rfl
    simp only [h1, h2, h3, h4, h5, Res.guard_f, Res.or_f]
    have h6 : (Val.foreign ty i x != Val.nil) = true := by simp
    simp only [h6, Bool.true_and]
    cases Res.guard (isComparable (Val.foreign ty i x)) (containsErr (obj h e).srcErrors (Val.foreign ty i x)) <;> rfl

/-- errors.Is(gerror value, foreign target): exactly the guarded search through the errors
converted on the way to the value (roots carry none) -/
theorem errorsIs_isG_foreign {h : Heap} (hwf : WF h) (n : Nat) {v w : Val} {a : Nat}
    (hv : embedded v = some a) (hw : isForeign w = true) :
    errorsIs h (n + 2) v w = Res.guard (isComparable w) (containsErr (obj h a).srcErrors w) := by
  have hvn : v ≠ .nil := by intro e; subst e; simp [embedded] at hv
  have hwn : w ≠ .nil := by intro e; subst e; simp [isForeign] at hw
  have hne : ∀ u : Val, isG u = true → Res.guard (isComparable w) (ifaceEq u w) = .f := by
    intro u hu
    rw [ifaceEq_of_isG_left u w hu]
    have : u ≠ w := by
      intro e; subst e; have := isForeign_not_isG hw; rw [hu] at this; cases this
    simp [this]
  rw [errorsIs]; simp only [hvn, hwn, or_self, if_false]
  rw [errorsIsLoop, hne v (by simp [isG, hv])]
  simp only [hv, unwrap_of_embedded hv]
  rw [gIs_foreign hwf _ _ hw]
  cases hG : Res.guard (isComparable w) (containsErr (obj h a).srcErrors w) <;> simp only []
  rcases hwf.ref a with hr | ⟨r, hr, _, hrr, _⟩
  · simp [hr]
  · rw [hr]; simp only [reduceCtorEq, if_false]
    rw [errorsIsLoop, hne (Val.base r) rfl]
    have : embedded (Val.base r) = some r := rfl
    simp only [this, unwrap_of_embedded this]
    rw [gIs_foreign hwf _ _ hw, hwf.rootSrcs r hrr]
    simp [containsErr, hrr]

/-- the search through the converted errors decides "the same foreign value" for comparable targets -/
theorem containsErr_cmp {srcs : List Val} (hs : ∀ s ∈ srcs, isForeign s = true) (t i : Nat) (x : Val) :
    containsErr srcs (.foreign (.cmp t) i x) = .ofBool (srcs.any (fun s => sameForeign s (.foreign (.cmp t) i x))) := by
  induction srcs with
  | nil => rfl
  | cons s rest ih =>
    have h1 : ifaceEq s (.foreign (.cmp t) i x) = .ofBool (sameForeign s (.foreign (.cmp t) i x)) := by
      cases s with
      | foreign u j y => cases u <;> simp [ifaceEq, sameForeign]
      | _ => simp [ifaceEq, sameForeign]
    rw [containsErr, h1, ih (fun s hs' => hs s (by simp [hs'])), Res.ofBool_or]
    simp

def depth : Val → Nat
  | .foreign _ _ w => depth w + 1
  | _ => 0

/-- a foreign error (wrapping foreign errors only) never "is" a gerror value -/
theorem loop_pureForeign_left {h : Heap} (is : Nat → Nat → Val → Res) {e w : Val} (he : pureForeign e = true)
    (hw : isG w = true) (c : Bool) : ∀ fuel, depth e ≤ fuel → errorsIsLoop is h fuel e w c = .f := by
  induction e with
  | nil => simp [pureForeign] at he
  | base => simp [pureForeign] at he
  | ext => simp [pureForeign] at he
  | foreign ty i x ih =>
    intro fuel hf
    cases fuel with
    | zero => simp [depth] at hf
    | succ n =>
      have h1 : ifaceEq (Val.foreign ty i x) w = .f := by
        rw [ifaceEq_of_isG_right _ _ hw]
        have : Val.foreign ty i x ≠ w := by intro e; subst e; simp [isG, embedded] at hw
        simp [this]
      rw [errorsIsLoop, h1]
      simp only [Res.guard_f, embedded, unwrap]
      by_cases hx : x = .nil
      · simp [hx]
      · simp only [hx, if_false]
        apply ih
        · cases x <;> simp_all [pureForeign]
        · simp [depth] at hf; omega


/-! ### no panic, for any pair of error values whatsoever -/

theorem gIs_nil {h : Heap} (hwf : WF h) (n e : Nat) : gIs h (n + 1) e .nil = .f := by
  rw [gIs]
  have h1 : extractFactoryRef h Val.nil = .nil := rfl
  have h2 : ifaceEq (Val.base e) Val.nil = .f := rfl
  have h4 : Res.guard ((obj h e).factoryRef != Val.nil) (ifaceEq (obj h e).factoryRef Val.nil) = .f := by
    rcases hwf.ref e with hr | ⟨r, hr, _, _, _⟩
    · simp [hr]
    · rw [hr]; simp [ifaceEq]
  simp [h1, h2, h4, embedded]

theorem gIs_ne_panic {h : Heap} (hwf : WF h) : ∀ n e w, gIs h n e w ≠ .panic := by
  intro n
  induction n with
  | zero => intro e w; simp [gIs]
  | succ n ih =>
    intro e w
    cases hw : embedded w with
    | some b =>
      rw [gIs_succ_isG hwf _ _ hw]
      split
      · simp
      · split
        · simp
        · exact ih _ _
    | none =>
      cases w with
      | nil => rw [gIs_nil hwf]; simp
      | base => simp [embedded] at hw
      | ext => simp [embedded] at hw
      | foreign ty i x =>
        rw [gIs_foreign hwf _ _ (w := Val.foreign ty i x) rfl]
        cases hc : isComparable (Val.foreign ty i x) with
        | false => simp
        | true =>
          rcases containsErr_isBool_of_comparable (obj h e).srcErrors _ hc with h1 | h1 <;> simp [h1]

theorem loop_ne_panic {h : Heap} (hwf : WF h) (y : Val) :
    ∀ fuel x, errorsIsLoop (gIs h) h fuel x y (isComparable y) ≠ .panic := by
  intro fuel
  induction fuel with
  | zero => intro x; simp [errorsIsLoop]
  | succ n ih =>
    intro x
    rw [errorsIsLoop]
    have hA : (Res.guard (isComparable y) (ifaceEq x y)).isBool := by
      cases hc : isComparable y with
      | false => exact Or.inr rfl
      | true => exact Res.isBool_guard (ifaceEq_isBool_of_comparable x y hc)
    rcases hA with hA | hA <;> rw [hA] <;> simp only []
    · simp
    · have tail : (if unwrap h x = Val.nil then Res.f
          else errorsIsLoop (gIs h) h n (unwrap h x) y (isComparable y)) ≠ .panic := by
        split
        · simp
        · exact ih _
      cases hx : embedded x with
      | none => simpa using tail
      | some a =>
        simp only []
        have hB := gIs_ne_panic hwf (n + 1) a y
        cases hg : gIs h (n + 1) a y with
        | t => simp
        | f => simpa using tail
        | panic => exact absurd hg hB
        | fuel => simp

/-- on a well-formed heap `errors.Is` never panics: any source, any target, any fuel -/
theorem errorsIs_ne_panic {h : Heap} (hwf : WF h) (fuel : Nat) (x y : Val) : errorsIs h fuel x y ≠ .panic := by
  rw [errorsIs]
  split
  · simp
  · exact loop_ne_panic hwf y fuel x


/-! ### allocation frames -/

theorem obj_append_lt {h : Heap} (l : List Obj) {a : Nat} (ha : a < h.length) : obj (h ++ l) a = obj h a := by
  simp [obj, List.getElem?_append_left ha]

theorem obj_append_len (h : Heap) (o : Obj) : obj (h ++ [o]) h.length = o := by
  simp [obj]

theorem obj_ge {h : Heap} {a : Nat} (ha : h.length ≤ a) : obj h a = {} := by
  simp [obj, List.getElem?_eq_none ha]

/-- what a freshly allocated object must satisfy to keep the heap well-formed -/
def GoodObj (h : Heap) (o : Obj) : Prop :=
  (o.factoryRef = .nil ∧ o.srcErrors = []) ∨
  (∃ r, o.factoryRef = .base r ∧ r < h.length ∧ (obj h r).factoryRef = .nil ∧ o.isFactory = false ∧
    ∀ s ∈ o.srcErrors, isForeign s = true)

theorem WF.alloc {h : Heap} (hwf : WF h) {o : Obj} (ho : GoodObj h o) : WF (h ++ [o]) := by
  have key : ∀ a, obj (h ++ [o]) a = obj h a ∨ (a = h.length ∧ obj (h ++ [o]) a = o) := by
    intro a
    rcases Nat.lt_trichotomy a h.length with hlt | heq | hgt
    · exact Or.inl (obj_append_lt _ hlt)
    · subst heq; exact Or.inr ⟨rfl, obj_append_len h o⟩
    · left; rw [obj_ge (by simp; omega), obj_ge (by omega)]
  have lift : ∀ r, r < h.length → (obj h r).factoryRef = .nil → (obj (h ++ [o]) r).factoryRef = .nil := by
    intro r hr hn; rw [obj_append_lt _ hr]; exact hn
  constructor
  · intro a
    rcases key a with hk | ⟨_, hk⟩ <;> rw [hk]
    · rcases hwf.ref a with hr | ⟨r, hr, hlt, hrr, hnf⟩
      · exact Or.inl hr
      · exact Or.inr ⟨r, hr, by simp; omega, lift r hlt hrr, hnf⟩
    · rcases ho with ⟨hr, _⟩ | ⟨r, hr, hlt, hrr, hnf, _⟩
      · exact Or.inl hr
      · exact Or.inr ⟨r, hr, by simp; omega, lift r hlt hrr, hnf⟩
  · intro a s
    rcases key a with hk | ⟨_, hk⟩ <;> rw [hk]
    · exact hwf.srcs a s
    · rcases ho with ⟨_, hs⟩ | ⟨r, _, _, _, _, hs⟩
      · simp [hs]
      · exact hs s
  · intro a
    rcases key a with hk | ⟨_, hk⟩ <;> rw [hk]
    · exact hwf.rootSrcs a
    · rcases ho with ⟨_, hs⟩ | ⟨r, hr, _⟩
      · intro _; exact hs
      · intro hn; rw [hr] at hn; cases hn

theorem origin_append_lt {h : Heap} (l : List Obj) {a : Nat} (ha : a < h.length) :
    origin (h ++ l) a = origin h a := by
  simp [origin, obj_append_lt l ha]

theorem WF.origin_lt {h : Heap} (hwf : WF h) {a : Nat} (ha : a < h.length) : origin h a < h.length := by
  rcases hwf.ref a with hr | ⟨r, hr, hlt, _, _⟩
  · rw [origin_root hr]; exact ha
  · rw [origin_derived hr]; exact hlt

/-- marking a freshly allocated root as a factory (`FactoryOf`) -/
theorem factoryOf_fresh (h : Heap) (o : Obj) (v : Val) (hv : embedded v = some h.length) :
    factoryOf (h ++ [o]) v = h ++ [{ o with isFactory := true }] := by
  simp [factoryOf, hv, obj_append_len]

/-- the object `cloneBase` allocates -/
def cloneObj (h : Heap) (a : Nat) (src : Val) : Obj :=
  { extTy := none, isFactory := false,
    factoryRef := if (obj h a).factoryRef != .nil then (obj h a).factoryRef else .base a,
    srcErrors := if src != .nil then (obj h a).srcErrors ++ [src] else (obj h a).srcErrors }

theorem cloneBase_eq (h : Heap) (recv : Val) (a : Nat) (src : Val) :
    cloneBase h recv a src = (h ++ [cloneObj h a src], h.length) := by
  unfold cloneBase cloneObj alloc
  by_cases h1 : (obj h a).factoryRef = .nil <;> by_cases h2 : src = .nil <;> simp [h1, h2]

theorem cloneObj_good {h : Heap} (hwf : WF h) {a : Nat} (ha : a < h.length) {src : Val}
    (hs : src = .nil ∨ isForeign src = true) : GoodObj h (cloneObj h a src) := by
  right
  have hsrcs : ∀ s ∈ (cloneObj h a src).srcErrors, isForeign s = true := by
    intro s hsm
    unfold cloneObj at hsm
    by_cases h2 : src = .nil
    · simp [h2] at hsm; exact hwf.srcs a s hsm
    · simp [h2] at hsm
      rcases hsm with hsm | hsm
      · exact hwf.srcs a s hsm
      · subst hsm; rcases hs with hs | hs
        · exact absurd hs h2
        · exact hs
  rcases hwf.ref a with hr | ⟨r, hr, hlt, hrr, _⟩
  · exact ⟨a, by simp [cloneObj, hr], ha, hr, rfl, hsrcs⟩
  · exact ⟨r, by simp [cloneObj, hr], hlt, hrr, rfl, hsrcs⟩

theorem cloneObj_origin {h : Heap} (hwf : WF h) (a : Nat) (src : Val) (l : List Obj) :
    origin (h ++ cloneObj h a src :: l) h.length = origin h a := by
  have : obj (h ++ cloneObj h a src :: l) h.length = cloneObj h a src := by simp [obj]
  unfold origin; rw [this]
  rcases hwf.ref a with hr | ⟨r, hr, _, _, _⟩ <;> simp [cloneObj, hr]


theorem GoodObj.mono {h : Heap} {o : Obj} (ho : GoodObj h o) (o' : Obj) (p : Obj) 
    (hp : p.factoryRef = o.factoryRef ∧ p.srcErrors = o.srcErrors ∧ p.isFactory = o.isFactory) :
    GoodObj (h ++ [o']) p := by
  rcases ho with ⟨h1, h2⟩ | ⟨r, hr, hlt, hrr, hnf, hs⟩
  · left; exact ⟨by rw [hp.1]; exact h1, by rw [hp.2.1]; exact h2⟩
  · right
    exact ⟨r, by rw [hp.1]; exact hr, by simp; omega, by rw [obj_append_lt _ hlt]; exact hrr,
      by rw [hp.2.2]; exact hnf, by rw [hp.2.1]; exact hs⟩

/-! ### the history invariant: the heap realises the specification's bookkeeping -/

def O (os : List Nat) (i : Nat) : Nat := os[i]?.getD 0
def S (ss : List (List Val)) (i : Nat) : List Val := ss[i]?.getD []

theorem val_append_lt {vals : List Val} {h : Heap} (x : Val) {i : Nat} (hi : i < vals.length) :
    World.val ⟨h, vals ++ [x]⟩ i = World.val ⟨h, vals⟩ i := by
  simp [World.val, List.getElem?_append_left hi]
theorem val_append_len {vals : List Val} {h : Heap} (x : Val) :
    World.val ⟨h, vals ++ [x]⟩ vals.length = x := by
  simp [World.val]
theorem val_heap_irrel (h h' : Heap) (vals : List Val) (i : Nat) :
    World.val ⟨h, vals⟩ i = World.val ⟨h', vals⟩ i := rfl
theorem O_append_lt {os : List Nat} (k : Nat) {i : Nat} (hi : i < os.length) : O (os ++ [k]) i = O os i := by
  simp [O, List.getElem?_append_left hi]
theorem O_append_len (os : List Nat) (k : Nat) : O (os ++ [k]) os.length = k := by simp [O]
theorem S_append_lt {ss : List (List Val)} (t : List Val) {i : Nat} (hi : i < ss.length) : S (ss ++ [t]) i = S ss i := by
  simp [S, List.getElem?_append_left hi]
theorem S_append_len (ss : List (List Val)) (t : List Val) : S (ss ++ [t]) ss.length = t := by simp [S]

structure Good (w : World) (os : List Nat) (ss : List (List Val)) : Prop where
  wf : WF w.h
  lo : os.length = w.vals.length
  ls : ss.length = w.vals.length
  val : ∀ i, i < w.vals.length → ∃ a, embedded (w.val i) = some a ∧ a < w.h.length ∧
    (obj w.h a).srcErrors = S ss i ∧
    (∀ t, w.val i = .ext t a → (obj w.h a).factoryRef = .nil → (obj w.h a).isFactory = true) ∧
    O os i < w.vals.length ∧ embedded (w.val (O os i)) = some (origin w.h a)
  inj : ∀ i j a b, i < w.vals.length → j < w.vals.length → embedded (w.val i) = some a →
    embedded (w.val j) = some b → origin w.h a = origin w.h b → O os i = O os j

/-- adding one value (and possibly fresh objects) to a good world -/
theorem Good.extend {w : World} {os : List Nat} {ss : List (List Val)} (g : Good w os ss)
    (l : List Obj) (x : Val) (k : Nat) (t : List Val) (a' : Nat)
    (hwf : WF (w.h ++ l))
    (hx : embedded x = some a') (ha' : a' < (w.h ++ l).length)
    (hsrc : (obj (w.h ++ l) a').srcErrors = t)
    (hmark : ∀ ty, x = .ext ty a' → (obj (w.h ++ l) a').factoryRef = .nil → (obj (w.h ++ l) a').isFactory = true)
    (hk : k ≤ w.vals.length)
    (hlink : embedded (World.val ⟨w.h ++ l, w.vals ++ [x]⟩ k) = some (origin (w.h ++ l) a'))
    (hinj : ∀ j b, j < w.vals.length → embedded (w.val j) = some b → origin (w.h ++ l) a' = origin w.h b → k = O os j) :
    Good ⟨w.h ++ l, w.vals ++ [x]⟩ (os ++ [k]) (ss ++ [t]) := by
  have hn : (w.vals ++ [x]).length = w.vals.length + 1 := by simp
  have oldv : ∀ i, i < w.vals.length → World.val ⟨w.h ++ l, w.vals ++ [x]⟩ i = w.val i := by
    intro i hi; rw [val_append_lt x hi]; rfl
  have newv : World.val ⟨w.h ++ l, w.vals ++ [x]⟩ w.vals.length = x := val_append_len x
  constructor
  · exact hwf
  · simp [g.lo]
  · simp [g.ls]
  · intro i hi
    simp only [hn] at hi
    by_cases hlt : i < w.vals.length
    · obtain ⟨a, h1, h2, h3, h4, h5, h6⟩ := g.val i hlt
      refine ⟨a, by rw [oldv i hlt]; exact h1, by simp; omega, ?_, ?_, ?_, ?_⟩
      · rw [obj_append_lt _ h2, S_append_lt _ (by rw [g.ls]; exact hlt)]; exact h3
      · rw [oldv i hlt, obj_append_lt _ h2]; exact h4
      · rw [O_append_lt _ (by rw [g.lo]; exact hlt)]; simp only [hn]; omega
      · rw [O_append_lt _ (by rw [g.lo]; exact hlt), oldv _ h5, origin_append_lt _ h2]; exact h6
    · have : i = w.vals.length := by omega
      subst this
      refine ⟨a', by rw [newv]; exact hx, ha', ?_, ?_, ?_, ?_⟩
      · rw [← g.ls, S_append_len]; exact hsrc
      · rw [newv]; exact hmark
      · rw [← g.lo, O_append_len]; simp only [hn]; omega
      · rw [← g.lo, O_append_len]; exact hlink
  · -- injectivity
    have addr_old : ∀ i a, i < w.vals.length → embedded (w.val i) = some a → a < w.h.length := by
      intro i a hi he
      obtain ⟨a0, h1, h2, _⟩ := g.val i hi
      rw [h1] at he; injection he with he; subst he; exact h2
    intro i j a b hi hj hea heb ho
    simp only [hn] at hi hj
    by_cases hil : i < w.vals.length <;> by_cases hjl : j < w.vals.length
    · rw [oldv i hil] at hea; rw [oldv j hjl] at heb
      rw [origin_append_lt _ (addr_old i a hil hea), origin_append_lt _ (addr_old j b hjl heb)] at ho
      rw [O_append_lt (i := i) _ (by rw [g.lo]; exact hil), O_append_lt (i := j) _ (by rw [g.lo]; exact hjl)]
      exact g.inj i j a b hil hjl hea heb ho
    · have : j = w.vals.length := by omega
      subst this
      rw [oldv i hil] at hea; rw [newv, hx] at heb; injection heb with heb; subst heb
      rw [origin_append_lt _ (addr_old i a hil hea)] at ho
      rw [O_append_lt (i := i) _ (by rw [g.lo]; exact hil)]
      have := hinj i a hil hea ho.symm
      rw [← this]; rw [show w.vals.length = os.length from g.lo.symm, O_append_len]
    · have : i = w.vals.length := by omega
      subst this
      rw [oldv j hjl] at heb; rw [newv, hx] at hea; injection hea with hea; subst hea
      rw [origin_append_lt _ (addr_old j b hjl heb)] at ho
      rw [O_append_lt (i := j) _ (by rw [g.lo]; exact hjl)]
      have := hinj j b hjl heb ho
      rw [← this]; rw [show w.vals.length = os.length from g.lo.symm, O_append_len]
    · have h1 : i = w.vals.length := by omega
      have h2 : j = w.vals.length := by omega
      rw [h1, h2]


/-- the cloning branch of a method call, with `cloneBase`/`toPrimaryType` spelled out -/
def derive (h : Heap) (recv : Val) (src : Val) : Heap × Val :=
  match recv with
  | .base a => (h ++ [cloneObj h a src], .base h.length)
  | .ext ty a => (h ++ [cloneObj h a src, { cloneObj h a src with extTy := some ty }], .ext ty (h.length + 1))
  | _ => (h, .nil)

theorem call_eq_derive (h : Heap) (recv : Val) (m : Meth) (argv : Val)
    (hc : (m.isConvert && (embedded argv).isSome) = false) :
    call h recv m argv = derive h recv (m.srcArg argv) := by
  unfold call callWith derive
  cases recv with
  | base a => simp [hc, cloneBase_eq]
  | ext ty a => simp [hc, cloneBase_eq, alloc, obj]
  | _ => rfl

theorem call_convert_gerror (h : Heap) (recv : Val) (m : Meth) (argv : Val) (hr : isG recv = true)
    (hc : (m.isConvert && (embedded argv).isSome) = true) : call h recv m argv = (h, argv) := by
  unfold call callWith
  cases recv with
  | base a => simp [hc]
  | ext ty a => simp [hc]
  | _ => simp [isG, embedded] at hr

theorem Good.deriveStep {w : World} {os : List Nat} {ss : List (List Val)} (g : Good w os ss)
    {i : Nat} (hi : i < w.vals.length) (src : Val) (hs : src = .nil ∨ isForeign src = true) :
    Good ⟨(GErrorIs.derive w.h (w.val i) src).1, w.vals ++ [(GErrorIs.derive w.h (w.val i) src).2]⟩ (os ++ [O os i])
      (ss ++ [if src != .nil then S ss i ++ [src] else S ss i]) := by
  obtain ⟨a, h1, h2, h3, h4, h5, h6⟩ := g.val i hi
  have hgood := cloneObj_good g.wf h2 hs
  have hsrcs : (cloneObj w.h a src).srcErrors = (if src != .nil then S ss i ++ [src] else S ss i) := by
    simp [cloneObj, h3]
  have hnn : (cloneObj w.h a src).factoryRef ≠ .nil := by
    rcases g.wf.ref a with hr | ⟨r, hr, _, _, _⟩ <;> simp [cloneObj, hr]
  have hinj : ∀ j b, j < w.vals.length → embedded (w.val j) = some b → origin w.h a = origin w.h b →
      O os i = O os j := fun j b hj hb ho => g.inj i j a b hi hj h1 hb ho
  cases hv : w.val i with
  | nil => rw [hv] at h1; simp [embedded] at h1
  | foreign => rw [hv] at h1; simp [embedded] at h1
  | base a0 =>
    rw [hv] at h1; simp [embedded] at h1; subst h1
    simp only [GErrorIs.derive]
    have hobj : obj (w.h ++ [cloneObj w.h a0 src]) w.h.length = cloneObj w.h a0 src := obj_append_len _ _
    have horg : origin (w.h ++ [cloneObj w.h a0 src]) w.h.length = origin w.h a0 := cloneObj_origin g.wf a0 src []
    refine g.extend [cloneObj w.h a0 src] (.base w.h.length) (O os i) _ w.h.length
      (g.wf.alloc hgood) rfl (by simp) (by rw [hobj]; exact hsrcs) (by intro ty hx; cases hx) (by omega) ?_ ?_
    · rw [val_append_lt _ h5, horg]; exact h6
    · intro j b hj hb ho; rw [horg] at ho; exact hinj j b hj hb ho
  | ext ty a0 =>
    rw [hv] at h1; simp [embedded] at h1; subst h1
    simp only [GErrorIs.derive]
    let c := cloneObj w.h a0 src
    have hobj : obj (w.h ++ [c, { c with extTy := some ty }]) (w.h.length + 1) = { c with extTy := some ty } := by
      simp [obj]
    have hwf2 : WF (w.h ++ [c, { c with extTy := some ty }]) := by
      have := (g.wf.alloc hgood).alloc (GoodObj.mono hgood c { c with extTy := some ty } ⟨rfl, rfl, rfl⟩)
      simpa using this
    have horg : origin (w.h ++ [c, { c with extTy := some ty }]) (w.h.length + 1) = origin w.h a0 := by
      have h0 : origin (w.h ++ [c, { c with extTy := some ty }]) (w.h.length + 1)
          = origin (w.h ++ [c, { c with extTy := some ty }]) w.h.length := by
        have e1 : obj (w.h ++ [c, { c with extTy := some ty }]) w.h.length = c := by simp [obj]
        have hb : ∃ r, c.factoryRef = .base r := by
          rcases g.wf.ref a0 with hr | ⟨r, hr, _, _, _⟩
          · exact ⟨a0, by simp [c, cloneObj, hr]⟩
          · exact ⟨r, by simp [c, cloneObj, hr]⟩
        obtain ⟨r, hr⟩ := hb
        unfold origin; rw [hobj, e1]; simp [hr]
      rw [h0]; exact cloneObj_origin g.wf a0 src _
    refine g.extend [c, { c with extTy := some ty }] (.ext ty (w.h.length + 1)) (O os i) _ (w.h.length + 1)
      hwf2 rfl (by simp) (by rw [hobj]; exact hsrcs) (by intro _ _ hn; rw [hobj] at hn; exact absurd hn hnn)
      (by omega) ?_ ?_
    · rw [val_append_lt _ h5, horg]; exact h6
    · intro j b hj hb ho; rw [horg] at ho; exact hinj j b hj hb ho


theorem Good.root {w : World} {os : List Nat} {ss : List (List Val)} (g : Good w os ss)
    (o : Obj) (x : Val) (hx : embedded x = some w.h.length) (ho : o.factoryRef = .nil ∧ o.srcErrors = [])
    (hm : ∀ ty, x = .ext ty w.h.length → o.isFactory = true) :
    Good ⟨w.h ++ [o], w.vals ++ [x]⟩ (os ++ [os.length]) (ss ++ [[]]) := by
  have hobj : obj (w.h ++ [o]) w.h.length = o := obj_append_len _ _
  have horg : origin (w.h ++ [o]) w.h.length = w.h.length := origin_root (by rw [hobj]; exact ho.1)
  refine g.extend [o] x os.length [] w.h.length (g.wf.alloc (Or.inl ho)) hx (by simp)
    (by rw [hobj]; exact ho.2) (by intro ty hxe _; rw [hobj]; exact hm ty hxe) (by rw [g.lo]; omega) ?_ ?_
  · rw [g.lo, val_append_len, horg]; exact hx
  · intro j b hj hb hoo
    rw [horg] at hoo
    obtain ⟨a0, h1, h2, _⟩ := g.val j hj
    rw [h1] at hb; injection hb with hb; subst hb
    have := g.wf.origin_lt h2
    omega

theorem pureForeign_isForeign {e : Val} (h : pureForeign e = true) : isForeign e = true := by
  cases e <;> simp_all [pureForeign, isForeign]

/-- one in-domain command keeps the world good, in step with the specification's bookkeeping -/
theorem Good.step {w : World} {os : List Nat} {ss : List (List Val)} (g : Good w os ss) (c : Cmd)
    (hd : c.inDomain w.vals.length = true) :
    Good (exec w c) (specOriginStep os c) (specSourcesStep ss c) := by
  cases c with
  | newBase marked =>
    cases marked
    · exact g.root {} (.base w.h.length) rfl ⟨rfl, rfl⟩ (by intro ty hx; cases hx)
    · have : exec w (.newBase true) = ⟨w.h ++ [{ isFactory := true }], w.vals ++ [.base w.h.length]⟩ := by
        simp [exec, execWith, alloc, factoryOf_fresh (v := Val.base w.h.length) w.h {} rfl]
      rw [this]
      exact g.root { isFactory := true } (.base w.h.length) rfl ⟨rfl, rfl⟩ (by intro ty hx; cases hx)
  | newExt ty marked =>
    simp [Cmd.inDomain] at hd; subst hd
    have : exec w (.newExt ty true) = ⟨w.h ++ [{ extTy := some ty, isFactory := true }], w.vals ++ [.ext ty w.h.length]⟩ := by
      simp [exec, execWith, alloc, factoryOf_fresh (v := Val.ext ty w.h.length) w.h { extTy := some ty } rfl]
    rw [this]
    exact g.root { extTy := some ty, isFactory := true } (.ext ty w.h.length) rfl ⟨rfl, rfl⟩ (by intro _ _; rfl)
  | call i m arg =>
    simp only [Cmd.inDomain, Bool.and_eq_true, decide_eq_true_eq] at hd
    obtain ⟨hi, harg⟩ := hd
    obtain ⟨a, h1, _⟩ := g.val i hi
    have hrecv : isG (w.val i) = true := by simp [isG, h1]
    -- the plain derivation branch
    have plain : ∀ argv, (m.isConvert && (embedded argv).isSome) = false →
        (m.srcArg argv = .nil ∨ isForeign (m.srcArg argv) = true) →
        Good ⟨(call w.h (w.val i) m argv).1, w.vals ++ [(call w.h (w.val i) m argv).2]⟩ (os ++ [O os i])
          (ss ++ [if m.srcArg argv != .nil then S ss i ++ [m.srcArg argv] else S ss i]) := by
      intro argv hc hs
      rw [call_eq_derive _ _ _ _ hc]
      exact g.deriveStep hi _ hs
    cases hm : m.isConvert with
    | false =>
      have := plain (w.argVal arg) (by simp [hm]) (by simp [Meth.srcArg, hm])
      simp only [Meth.srcArg, hm] at this
      simpa [exec, execWith, specOriginStep, specSourcesStep, hm, O, S] using this
    | true =>
      cases arg with
      | none =>
        have := plain .nil (by simp [embedded]) (by simp [Meth.srcArg, hm])
        simp only [Meth.srcArg, hm] at this
        simpa [exec, execWith, specOriginStep, specSourcesStep, hm, O, S, World.argVal] using this
      | foreign e =>
        have hf := pureForeign_isForeign harg
        have hne : e ≠ .nil := by intro h; subst h; simp [isForeign] at hf
        have hng : (embedded e).isSome = false := by
          have := isForeign_not_isG hf; simpa [isG] using this
        have := plain e (by simp [hng]) (by simp [Meth.srcArg, hm, hf])
        simp only [Meth.srcArg, hm] at this
        simpa [exec, execWith, specOriginStep, specSourcesStep, hm, O, S, World.argVal, hne] using this
      | value j =>
        simp only [decide_eq_true_eq] at harg
        obtain ⟨b, hb1, hb2, hb3, hb4, hb5, hb6⟩ := g.val j harg
        have hc : call w.h (w.val i) m (w.val j) = (w.h, w.val j) :=
          call_convert_gerror _ _ _ _ hrecv (by simp [hm, hb1])
        have key := g.extend [] (w.val j) (O os j) (S ss j) b (by simpa using g.wf) hb1 (by simpa using hb2)
          (by simpa using hb3) (by simpa using hb4) (by omega)
          (by rw [val_append_lt _ hb5]; simpa using hb6)
          (by intro j' b' hj' hb' ho; exact g.inj j j' b b' harg hj' hb1 hb' (by simpa using ho))
        simpa [exec, execWith, specOriginStep, specSourcesStep, hm, O, S, World.argVal, hc] using key


theorem exec_vals_length (w : World) (c : Cmd) : (exec w c).vals.length = w.vals.length + 1 := by
  cases c <;> simp [exec, execWith]

theorem Good.empty : Good {} [] [] := by
  have hobj : ∀ a, obj [] a = {} := fun a => by simp [obj]
  refine ⟨⟨?_, ?_, ?_⟩, rfl, rfl, ?_, ?_⟩
  · intro a; left; rw [hobj]
  · intro a s; rw [hobj]; simp
  · intro a _; rw [hobj]
  · intro i hi; simp at hi
  · intro i j a b hi; simp at hi

theorem Good.foldl {cmds : List Cmd} : ∀ {w : World} {os : List Nat} {ss : List (List Val)}, Good w os ss →
    inDomain w.vals.length cmds = true →
    Good (cmds.foldl exec w) (cmds.foldl specOriginStep os) (cmds.foldl specSourcesStep ss) := by
  induction cmds with
  | nil => intro w os ss g _; exact g
  | cons c cs ih =>
    intro w os ss g hd
    simp only [inDomain, Bool.and_eq_true] at hd
    simp only [List.foldl_cons]
    apply ih (g.step c hd.1)
    rw [exec_vals_length]; exact hd.2

/-- every in-domain history leads to a good world -/
theorem good_run {cmds : List Cmd} (hd : inDomain 0 cmds = true) :
    Good (run cmds) (specOrigins cmds) (cmds.foldl specSourcesStep []) :=
  Good.foldl Good.empty hd

theorem Good.O_idem {w : World} {os : List Nat} {ss : List (List Val)} (g : Good w os ss) {i : Nat}
    (hi : i < w.vals.length) : O os (O os i) = O os i := by
  obtain ⟨a, h1, h2, _, _, h5, h6⟩ := g.val i hi
  obtain ⟨a', h1', _⟩ := g.val (O os i) h5
  have : a' = origin w.h a := by rw [h1'] at h6; injection h6
  subst this
  exact g.inj (O os i) i _ a h5 hi h1' h1 (g.wf.origin_idem a)

theorem Good.same_iff {w : World} {os : List Nat} {ss : List (List Val)} (g : Good w os ss) {i j a b : Nat}
    (hi : i < w.vals.length) (hj : j < w.vals.length) (ha : embedded (w.val i) = some a)
    (hb : embedded (w.val j) = some b) : origin w.h a = origin w.h b ↔ O os i = O os j := by
  constructor
  · exact g.inj i j a b hi hj ha hb
  · intro ho
    obtain ⟨a', h1, _, _, _, _, h6⟩ := g.val i hi
    obtain ⟨b', h1', _, _, _, _, h6'⟩ := g.val j hj
    rw [ha] at h1; injection h1 with h1; subst h1
    rw [hb] at h1'; injection h1' with h1'; subst h1'
    rw [ho, h6'] at h6; injection h6 with h6; exact h6.symm

end GErrorIs

// go2lean -spec gerroris: translation of the functions of gerror that decide error identity -
// (*GError).Is, (*GError).Unwrap, isComparable, (*GError)._embededGError, ExtractFactoryReference,
// (*GError).Convert, (*GError).ConvertS (gerror/gerror.go) and FactoryOf (gerror/factory.go) - into
// lean/Generated/GoGErrorIs.lean.  The meaning of the primitives is fixed in lean/Model/GoIface.lean.
//
// Kinds: ptr (a *GError: an address into the memory `m`), iface (a value of type error / Error /
// Factory / factoryOf / a type parameter constrained by factoryOf: a GErrorIs.Val), ifaces ([]error),
// bool.  The fragment:
//
//	p.f                             (m.cell p).f            field read through a *GError
//	p.f = v                         m := m.store p { m.cell p with f := v }
//	x == nil, x != nil              (x == Val.nil), (x != Val.nil)      x an interface value
//	a == b                          Go.ifaceEq a b          a, b interface values or *GError (converted: Val.base p); may panic
//	a && b, a || b, !a              Bool operators when both sides are pure, else Go.land / Go.lor (short circuit)
//	g, ok := x.(Error)              (Go.assertError x).1, .2
//	v.M(…)   v an interface value   Go.method v (fun p => M m p …)   M a translated method of *GError
//	p.M(…)   p a *GError            M m p …
//	f(…)                            f m …                   f a translated function
//	recursive call                  the same with `fuel` (the definition matches on fuel + 1)
//	reflect.TypeOf(x).Comparable()  Go.reflectComparable x
//	slices.Contains(s, x)           Go.slicesContains s x
//	return p   (result an interface type)   Val.base p
//	return CloneBase(e, StackConst, "lit", "lit", "lit" | fmt.Sprintf("lit", x…), x | nil)   with e the receiver:
//	    the TRANSLATED CloneBase of Generated/GoCloneBase.lean, instantiated for T = *GError
//	    (err := Val.base e, base := m.cell (e._embededGError()), baseRef := Val.base of that pointer),
//	    the returned record allocated with m.new; fmt.Sprintf is the opaque env.sprintf
//	if [init;] c { … } [else { … }], x := e, return e
//
// Anything else makes the translator fail.
package main

import (
	"fmt"
	"go/ast"
	"go/parser"
	"go/token"
	"os"
	"path/filepath"
	"strconv"
	"strings"
)

func init() { register("gerroris", "../lean/Generated/GoGErrorIs.lean", runGErrorIs) }

type giFn struct {
	key     string // `Name` or `GError.Name`
	lean    string
	decl    *ast.FuncDecl
	recv    string // receiver variable ("" for a plain function)
	params  []param
	ret     string // kind of the result
	usesMem bool   // reads fields through a pointer (or calls something that does)
	writes  bool   // allocates or stores: takes and returns the memory
	usesEnv bool
	rec     bool // calls itself: runs on fuel
}

type gi struct {
	fkind   map[string]string
	consts  map[string]bool
	fns     map[string]*giFn // by key
	cur     *giFn
	env     map[string]string
	out     strings.Builder
	n       int
	imports map[string]string // local package name -> path, of the file of the current function
}

const giMemT = "Go.Mem (GError Val σ)"

func (g *gi) line(ind int, s string) { g.out.WriteString(strings.Repeat("  ", ind) + s + "\n") }

func (g *gi) tmp(p string) string { g.n++; return fmt.Sprintf("%s%d", p, g.n) }

func giLeanType(k string) string {
	switch k {
	case "ptr":
		return "Nat"
	case "iface":
		return "Val"
	case "ifaces":
		return "List Val"
	case "bool":
		return "Bool"
	}
	fail("gerroris: no Lean type for kind %q", k)
	return ""
}

func (g *gi) kindOfType(e ast.Expr, tparams map[string]bool) string {
	switch s := src(e); {
	case s == "error" || s == "Error" || s == "Factory" || s == "factoryOf":
		return "iface"
	case tparams[s]:
		return "iface"
	case s == "*GError":
		return "ptr"
	case s == "bool":
		return "bool"
	}
	fail("gerroris: %s: type `%s` is outside the translated fragment", at(e), src(e))
	return ""
}

func (g *gi) pkg(e ast.Expr, want string) bool {
	id, ok := e.(*ast.Ident)
	if !ok || id.Name != want {
		return false
	}
	if _, local := g.env[id.Name]; local {
		return false
	}
	return g.imports[id.Name] == want
}

// callee of a call expression: (function, receiver expression or nil)
func (g *gi) callee(x *ast.CallExpr) (*giFn, ast.Expr) {
	switch f := x.Fun.(type) {
	case *ast.Ident:
		if _, local := g.env[f.Name]; local {
			return nil, nil
		}
		if fn := g.fns[f.Name]; fn != nil {
			return fn, nil
		}
	case *ast.SelectorExpr:
		if k := g.kindOfOpt(f.X); k == "ptr" || k == "iface" {
			if fn := g.fns["GError."+f.Sel.Name]; fn != nil {
				return fn, f.X
			}
		}
	}
	return nil, nil
}

func isReflectComparable(x *ast.CallExpr, g *gi) (ast.Expr, bool) {
	sel, ok := x.Fun.(*ast.SelectorExpr)
	if !ok || sel.Sel.Name != "Comparable" || len(x.Args) != 0 {
		return nil, false
	}
	in, ok := sel.X.(*ast.CallExpr)
	if !ok || len(in.Args) != 1 {
		return nil, false
	}
	s2, ok := in.Fun.(*ast.SelectorExpr)
	if !ok || s2.Sel.Name != "TypeOf" || !g.pkg(s2.X, "reflect") {
		return nil, false
	}
	return in.Args[0], true
}

func (g *gi) kindOfOpt(e ast.Expr) string {
	switch x := e.(type) {
	case *ast.ParenExpr:
		return g.kindOfOpt(x.X)
	case *ast.Ident:
		if k, ok := g.env[x.Name]; ok {
			return k
		}
		switch x.Name {
		case "nil":
			return "nil"
		case "true", "false":
			return "bool"
		}
	case *ast.SelectorExpr:
		if g.kindOfOpt(x.X) == "ptr" {
			if k, ok := g.fkind[x.Sel.Name]; ok {
				return k
			}
		}
	case *ast.UnaryExpr:
		if x.Op == token.NOT && g.kindOfOpt(x.X) == "bool" {
			return "bool"
		}
	case *ast.BinaryExpr:
		switch x.Op {
		case token.EQL, token.NEQ, token.LAND, token.LOR:
			return "bool"
		}
	case *ast.CallExpr:
		if _, ok := isReflectComparable(x, g); ok {
			return "bool"
		}
		if sel, ok := x.Fun.(*ast.SelectorExpr); ok && sel.Sel.Name == "Contains" && g.pkg(sel.X, "slices") {
			return "bool"
		}
		if fn, _ := g.callee(x); fn != nil && !fn.writes {
			return fn.ret
		}
	}
	return ""
}

func (g *gi) kindOf(e ast.Expr) string {
	k := g.kindOfOpt(e)
	if k == "" {
		fail("gerroris: %s: expression `%s` is outside the translated fragment", at(e), src(e))
	}
	return k
}

// pure: the expression as a Lean term when it can neither panic nor call translated code
func (g *gi) pure(e ast.Expr) (string, bool) {
	switch x := e.(type) {
	case *ast.ParenExpr:
		return g.pure(x.X)
	case *ast.Ident:
		if _, ok := g.env[x.Name]; ok {
			return name(x.Name), true
		}
		if x.Name == "true" || x.Name == "false" {
			return x.Name, true
		}
	case *ast.SelectorExpr:
		if g.kindOfOpt(x.X) == "ptr" {
			if k, ok := g.fkind[x.Sel.Name]; ok {
				if k != "bool" && k != "iface" && k != "ifaces" {
					fail("gerroris: %s: field %s (%s) is read; the translation knows the fields of kind bool, iface, []error only", at(e), x.Sel.Name, k)
				}
				if p, ok := g.pure(x.X); ok {
					return "(m.cell " + p + ")." + name(x.Sel.Name), true
				}
			}
		}
	case *ast.UnaryExpr:
		if x.Op == token.NOT && g.kindOf(x.X) == "bool" {
			if a, ok := g.pure(x.X); ok {
				return "(!" + a + ")", true
			}
		}
	case *ast.BinaryExpr:
		kx, ky := g.kindOf(x.X), g.kindOf(x.Y)
		switch x.Op {
		case token.EQL, token.NEQ:
			o, k := x.X, kx
			switch {
			case kx == "nil" && ky == "nil":
				return "", false
			case kx == "nil":
				o, k = x.Y, ky
			case ky == "nil":
			default:
				return "", false
			}
			if k != "iface" {
				fail("gerroris: %s: `%s`: comparison of a %s with nil", at(e), src(e), k)
			}
			if a, ok := g.pure(o); ok {
				if x.Op == token.EQL {
					return "(" + a + " == Val.nil)", true
				}
				return "(" + a + " != Val.nil)", true
			}
		case token.LAND, token.LOR:
			if kx != "bool" || ky != "bool" {
				fail("gerroris: %s: `%s`", at(e), src(e))
			}
			a, ok1 := g.pure(x.X)
			b, ok2 := g.pure(x.Y)
			if ok1 && ok2 {
				if x.Op == token.LAND {
					return "(" + a + " && " + b + ")", true
				}
				return "(" + a + " || " + b + ")", true
			}
		}
	}
	return "", false
}

// asIface: a pure term of kind ptr or iface as an interface value
func giAsIface(term, kind string, where ast.Node) string {
	switch kind {
	case "iface":
		return term
	case "ptr":
		return "(Val.base " + term + ")"
	}
	fail("gerroris: %s: a %s is used as an interface value", at(where), kind)
	return ""
}

func (g *gi) pureArgs(x *ast.CallExpr, fn *giFn) string {
	if len(x.Args) != len(fn.params) || x.Ellipsis.IsValid() {
		fail("gerroris: %s: `%s`: %s takes %d argument(s)", at(x), src(x), fn.key, len(fn.params))
	}
	s := ""
	for i, a := range x.Args {
		t, ok := g.pure(a)
		if !ok {
			fail("gerroris: %s: argument `%s` of a call is not a plain value", at(a), src(a))
		}
		k := g.kindOf(a)
		switch {
		case k == fn.params[i].kind:
		case k == "ptr" && fn.params[i].kind == "iface":
			t = giAsIface(t, k, a)
		default:
			fail("gerroris: %s: argument `%s` is a %s, parameter %s of %s is a %s", at(a), src(a), k, fn.params[i].name, fn.key, fn.params[i].kind)
		}
		s += " " + t
	}
	return s
}

// mon: the expression as a Lean term of type Go.M <kind>
func (g *gi) mon(e ast.Expr) string {
	if t, ok := g.pure(e); ok {
		return "(pure " + t + ")"
	}
	switch x := e.(type) {
	case *ast.ParenExpr:
		return g.mon(x.X)
	case *ast.UnaryExpr:
		if x.Op == token.NOT && g.kindOf(x.X) == "bool" {
			t := g.tmp("t")
			return "(do let " + t + " ← " + g.mon(x.X) + "; pure (!" + t + "))"
		}
	case *ast.BinaryExpr:
		kx, ky := g.kindOf(x.X), g.kindOf(x.Y)
		switch x.Op {
		case token.LAND:
			return "(Go.land " + g.mon(x.X) + " " + g.mon(x.Y) + ")"
		case token.LOR:
			return "(Go.lor " + g.mon(x.X) + " " + g.mon(x.Y) + ")"
		case token.EQL, token.NEQ:
			if !((kx == "ptr" || kx == "iface") && (ky == "ptr" || ky == "iface")) || (kx == "ptr" && ky == "ptr") {
				fail("gerroris: %s: `%s`: comparison of a %s with a %s", at(e), src(e), kx, ky)
			}
			binds := ""
			operand := func(o ast.Expr, k string) string {
				if t, ok := g.pure(o); ok {
					return giAsIface(t, k, o)
				}
				t := g.tmp("t")
				binds += "let " + t + " ← " + g.mon(o) + "; "
				return giAsIface(t, k, o)
			}
			a := operand(x.X, kx)
			b := operand(x.Y, ky)
			cmp := "Go.ifaceEq " + a + " " + b
			if x.Op == token.NEQ {
				t := g.tmp("t")
				cmp = "let " + t + " ← " + cmp + "; pure (!" + t + ")"
				if binds == "" {
					return "(do " + cmp + ")"
				}
			}
			if binds == "" {
				return "(" + cmp + ")"
			}
			return "(do " + binds + cmp + ")"
		}
	case *ast.CallExpr:
		if arg, ok := isReflectComparable(x, g); ok {
			if t, ok := g.pure(arg); ok && g.kindOf(arg) == "iface" {
				return "(Go.reflectComparable " + t + ")"
			}
		}
		if sel, ok := x.Fun.(*ast.SelectorExpr); ok && sel.Sel.Name == "Contains" && g.pkg(sel.X, "slices") && len(x.Args) == 2 && !x.Ellipsis.IsValid() {
			a, ok1 := g.pure(x.Args[0])
			b, ok2 := g.pure(x.Args[1])
			if ok1 && ok2 && g.kindOf(x.Args[0]) == "ifaces" && g.kindOf(x.Args[1]) == "iface" {
				return "(Go.slicesContains " + a + " " + b + ")"
			}
		}
		if fn, recv := g.callee(x); fn != nil {
			if fn.writes {
				fail("gerroris: %s: `%s`: %s changes the memory; such a call is only translated as a statement", at(e), src(e), fn.key)
			}
			head := fn.lean
			if fn.usesEnv {
				head += " env"
			}
			if fn.usesMem {
				head += " m"
			}
			if fn.rec {
				if fn != g.cur {
					fail("gerroris: %s: `%s`: %s is recursive and is called from another function", at(e), src(e), fn.key)
				}
				head += " fuel"
			}
			args := g.pureArgs(x, fn)
			if (fn.recv == "") != (recv == nil) {
				fail("gerroris: %s: `%s`", at(e), src(e))
			}
			if recv == nil {
				return "(" + head + args + ")"
			}
			r, ok := g.pure(recv)
			if !ok {
				fail("gerroris: %s: receiver `%s` is not a plain value", at(recv), src(recv))
			}
			if g.kindOf(recv) == "ptr" {
				return "(" + head + " " + r + args + ")"
			}
			return "(Go.method " + r + " (fun p => " + head + " p" + args + "))"
		}
	}
	fail("gerroris: %s: expression `%s` is outside the translated fragment", at(e), src(e))
	return ""
}

// bind: `let x := pure term` or `let x ← action`
func (g *gi) bind(ind int, v, kind string, e ast.Expr) {
	if _, ok := g.env[v]; ok {
		fail("gerroris: %s: `%s` is declared twice (shadowing is outside the translated fragment)", at(e), v)
	}
	if v == "m" || v == "env" || v == "fuel" || v == "p" {
		fail("gerroris: %s: the variable name `%s` is used by the translation", at(e), v)
	}
	if kind == "nil" {
		fail("gerroris: %s: `%s` is bound to an untyped nil", at(e), v)
	}
	if t, ok := g.pure(e); ok {
		g.line(ind, "let "+name(v)+" : "+giLeanType(kind)+" := "+t)
	} else {
		g.line(ind, "let "+name(v)+" ← "+g.mon(e))
	}
	g.env[v] = kind
}

// define: a `:=` statement; returns the variables it declared
func (g *gi) define(ind int, x *ast.AssignStmt) []string {
	if len(x.Rhs) != 1 {
		fail("gerroris: %s: `%s`", at(x), src(x))
	}
	var ids []string
	for _, l := range x.Lhs {
		id, ok := l.(*ast.Ident)
		if !ok || id.Name == "_" {
			fail("gerroris: %s: `%s`", at(x), src(x))
		}
		ids = append(ids, id.Name)
	}
	if ta, ok := x.Rhs[0].(*ast.TypeAssertExpr); ok {
		if len(ids) != 2 || ta.Type == nil || src(ta.Type) != "Error" {
			fail("gerroris: %s: `%s`: only `g, ok := x.(Error)` is translated", at(x), src(x))
		}
		t, ok := g.pure(ta.X)
		if !ok || g.kindOf(ta.X) != "iface" {
			fail("gerroris: %s: `%s`", at(x), src(x))
		}
		for _, v := range ids {
			if _, ok := g.env[v]; ok || v == "m" || v == "env" || v == "fuel" || v == "p" {
				fail("gerroris: %s: `%s` is declared twice or reserved", at(x), v)
			}
		}
		g.line(ind, "let "+name(ids[0])+" : Val := (Go.assertError "+t+").1")
		g.line(ind, "let "+name(ids[1])+" : Bool := (Go.assertError "+t+").2")
		g.env[ids[0]] = "iface"
		g.env[ids[1]] = "bool"
		return ids
	}
	if len(ids) != 1 {
		fail("gerroris: %s: `%s`", at(x), src(x))
	}
	g.bind(ind, ids[0], g.kindOf(x.Rhs[0]), x.Rhs[0])
	return ids
}

func (g *gi) cond(e ast.Expr) string {
	if g.kindOf(e) != "bool" {
		fail("gerroris: %s: condition `%s`", at(e), src(e))
	}
	if t, ok := g.pure(e); ok {
		return t
	}
	return "(← " + g.mon(e) + ")"
}

func (g *gi) result(v string) string {
	if g.cur.writes {
		return "(m, " + v + ")"
	}
	return v
}

func (g *gi) cloneBaseCall(ind int, x *ast.CallExpr) string {
	if !g.cur.writes || g.cur.recv == "" {
		fail("gerroris: %s: CloneBase is called outside a method of *GError", at(x))
	}
	if len(x.Args) != 6 || x.Ellipsis.IsValid() {
		fail("gerroris: %s: `%s`: CloneBase takes 6 arguments", at(x), src(x))
	}
	if id, ok := x.Args[0].(*ast.Ident); !ok || id.Name != g.cur.recv {
		fail("gerroris: %s: the first argument of CloneBase is `%s`, the translation assumes the receiver", at(x), src(x.Args[0]))
	}
	st, ok := x.Args[1].(*ast.Ident)
	if !ok || !g.consts[st.Name] {
		fail("gerroris: %s: the stack type `%s` is not one of the StackType constants", at(x), src(x.Args[1]))
	}
	if _, local := g.env[st.Name]; local {
		fail("gerroris: %s: `%s` is a local variable", at(x), st.Name)
	}
	str := func(e ast.Expr) string {
		lit, ok := e.(*ast.BasicLit)
		if !ok || lit.Kind != token.STRING {
			fail("gerroris: %s: `%s` is not a string literal", at(e), src(e))
		}
		return leanStr(lit.Value)
	}
	dTag, source := str(x.Args[2]), str(x.Args[3])
	msg := ""
	if call, ok := x.Args[4].(*ast.CallExpr); ok {
		sel, ok := call.Fun.(*ast.SelectorExpr)
		if !ok || sel.Sel.Name != "Sprintf" || !g.pkg(sel.X, "fmt") || len(call.Args) < 1 || call.Ellipsis.IsValid() {
			fail("gerroris: %s: message `%s` is neither a literal nor fmt.Sprintf(\"…\", values…)", at(call), src(call))
		}
		var vs []string
		for _, a := range call.Args[1:] {
			t, ok := g.pure(a)
			if !ok || g.kindOf(a) != "iface" {
				fail("gerroris: %s: fmt.Sprintf argument `%s` is not an interface value", at(a), src(a))
			}
			vs = append(vs, t)
		}
		msg = "(env.sprintf " + str(call.Args[0]) + " [" + strings.Join(vs, ", ") + "])"
		g.cur.usesEnv = true
	} else {
		msg = str(x.Args[4])
	}
	srcErr := ""
	switch g.kindOf(x.Args[5]) {
	case "nil":
		srcErr = "Val.nil"
	case "iface":
		t, ok := g.pure(x.Args[5])
		if !ok {
			fail("gerroris: %s: `%s`", at(x.Args[5]), src(x.Args[5]))
		}
		srcErr = t
	default:
		fail("gerroris: %s: source error `%s`", at(x.Args[5]), src(x.Args[5]))
	}
	emb := g.fns["GError._embededGError"]
	if emb == nil || emb.usesMem || emb.writes || emb.ret != "ptr" || len(emb.params) != 0 {
		fail("gerroris: (*GError)._embededGError is not a translated function from *GError to *GError")
	}
	r := name(g.cur.recv)
	b, c, a := g.tmp("b"), g.tmp("c"), g.tmp("a")
	// T = *GError: err is the receiver as an interface value, base = err._embededGError(), baseRef = factoryOf(base)
	g.line(ind, "let "+b+" ← "+emb.lean+" "+r)
	g.line(ind, "let "+c+" ← CloneBase env.clone Val.nil (Val.base "+r+") (m.cell "+b+") (Val.base "+b+") "+st.Name+" "+dTag+" "+source+" "+msg+" "+srcErr)
	g.line(ind, "let "+a+" := m.new "+c)
	g.line(ind, "m := "+a+".1")
	return a + ".2" // the new *GError
}

func (g *gi) ret(ind int, x *ast.ReturnStmt) {
	if len(x.Results) != 1 {
		fail("gerroris: %s: `%s`", at(x), src(x))
	}
	r := x.Results[0]
	if call, ok := r.(*ast.CallExpr); ok {
		if id, ok := call.Fun.(*ast.Ident); ok && id.Name == "CloneBase" {
			if _, local := g.env["CloneBase"]; local {
				fail("gerroris: %s: CloneBase is a local variable", at(x))
			}
			p := g.cloneBaseCall(ind, call)
			if g.cur.ret != "iface" {
				fail("gerroris: %s: the result of CloneBase is returned as a %s", at(x), g.cur.ret)
			}
			g.line(ind, "return "+g.result("Val.base "+p))
			return
		}
	}
	k := g.kindOf(r)
	conv := func(t string) string {
		switch {
		case k == g.cur.ret:
			return t
		case k == "ptr" && g.cur.ret == "iface":
			return "(Val.base " + t + ")"
		}
		fail("gerroris: %s: a %s is returned from a function whose result is a %s", at(x), k, g.cur.ret)
		return ""
	}
	if k == "nil" {
		if g.cur.ret != "iface" {
			fail("gerroris: %s: nil is returned from a function whose result is a %s", at(x), g.cur.ret)
		}
		g.line(ind, "return "+g.result("Val.nil"))
		return
	}
	if t, ok := g.pure(r); ok {
		g.line(ind, "return "+g.result(conv(t)))
		return
	}
	if g.cur.writes {
		t := g.tmp("r")
		g.line(ind, "let "+t+" ← "+g.mon(r))
		g.line(ind, "return "+g.result(conv(t)))
		return
	}
	if k == g.cur.ret {
		g.line(ind, "return (← "+g.mon(r)+")")
		return
	}
	t := g.tmp("r")
	g.line(ind, "let "+t+" ← "+g.mon(r))
	g.line(ind, "return "+conv(t))
}

func (g *gi) block(ind int, b *ast.BlockStmt) {
	if len(b.List) == 0 {
		g.line(ind, "pure ()")
		return
	}
	var declared []string
	for _, s := range b.List {
		declared = append(declared, g.stmt(ind, s)...)
	}
	for _, v := range declared {
		delete(g.env, v)
	}
}

// stmt returns the variables the statement declared in the enclosing block
func (g *gi) stmt(ind int, s ast.Stmt) []string {
	switch x := s.(type) {
	case *ast.ReturnStmt:
		g.ret(ind, x)
		return nil
	case *ast.AssignStmt:
		if x.Tok == token.DEFINE {
			return g.define(ind, x)
		}
		// p.f = v
		if x.Tok == token.ASSIGN && len(x.Lhs) == 1 && len(x.Rhs) == 1 {
			if sel, ok := x.Lhs[0].(*ast.SelectorExpr); ok && g.kindOfOpt(sel.X) == "ptr" {
				fk, ok := g.fkind[sel.Sel.Name]
				if !ok || (fk != "bool" && fk != "iface") {
					fail("gerroris: %s: `%s`: write to field %s", at(x), src(x), sel.Sel.Name)
				}
				if !g.cur.writes {
					fail("gerroris: %s: internal: %s was not classified as writing", at(x), g.cur.key)
				}
				v, ok := g.pure(x.Rhs[0])
				rk := g.kindOf(x.Rhs[0])
				if rk == "nil" && fk == "iface" {
					v, ok = "Val.nil", true
				} else if rk == "ptr" && fk == "iface" && ok {
					v = "(Val.base " + v + ")"
				} else if rk != fk {
					fail("gerroris: %s: a %s is assigned to field %s (%s)", at(x), rk, sel.Sel.Name, fk)
				}
				if !ok {
					fail("gerroris: %s: `%s`: the assigned value is not a plain value", at(x), src(x))
				}
				p, pureP := g.pure(sel.X)
				if !pureP {
					p = g.tmp("p")
					g.line(ind, "let "+p+" ← "+g.mon(sel.X))
				}
				g.line(ind, "m := m.store "+p+" { m.cell "+p+" with "+name(sel.Sel.Name)+" := "+v+" }")
				return nil
			}
		}
	case *ast.IfStmt:
		var scoped []string
		if x.Init != nil {
			as, ok := x.Init.(*ast.AssignStmt)
			if !ok || as.Tok != token.DEFINE {
				fail("gerroris: %s: `if` with the init statement `%s`", at(x), src(x.Init))
			}
			scoped = g.define(ind, as)
		}
		g.line(ind, "if "+g.cond(x.Cond)+" then")
		g.block(ind+1, x.Body)
		switch e := x.Else.(type) {
		case nil:
		case *ast.BlockStmt:
			g.line(ind, "else")
			g.block(ind+1, e)
		default:
			fail("gerroris: %s: `else if` is outside the translated fragment", at(x))
		}
		for _, v := range scoped {
			delete(g.env, v)
		}
		return nil
	}
	fail("gerroris: %s: statement `%s` is outside the translated fragment", at(s), src(s))
	return nil
}

// classify: does the function read the memory, change it, call itself
func (g *gi) classify(fn *giFn) {
	ast.Inspect(fn.decl.Body, func(n ast.Node) bool {
		switch x := n.(type) {
		case *ast.SelectorExpr:
			if _, ok := g.fkind[x.Sel.Name]; ok {
				fn.usesMem = true
			}
		case *ast.AssignStmt:
			if x.Tok != token.DEFINE {
				for _, l := range x.Lhs {
					if _, ok := l.(*ast.SelectorExpr); ok {
						fn.writes = true
					}
				}
			}
		case *ast.CallExpr:
			switch f := x.Fun.(type) {
			case *ast.Ident:
				if f.Name == "CloneBase" {
					fn.writes = true
					fn.usesEnv = true
				}
				if f.Name == fn.decl.Name.Name && fn.recv == "" {
					fn.rec = true
				}
				if c := g.fns[f.Name]; c != nil && c != fn {
					fn.usesMem = fn.usesMem || c.usesMem
					fn.writes = fn.writes || c.writes
					fn.usesEnv = fn.usesEnv || c.usesEnv
				}
			case *ast.SelectorExpr:
				if c := g.fns["GError."+f.Sel.Name]; c != nil {
					if c == fn {
						fn.rec = true
					} else {
						fn.usesMem = fn.usesMem || c.usesMem
						fn.writes = fn.writes || c.writes
						fn.usesEnv = fn.usesEnv || c.usesEnv
					}
				}
			}
		}
		return true
	})
	if fn.writes {
		fn.usesMem = true
	}
}

func runGErrorIs(repo, out string) {
	g := &gi{fkind: map[string]string{}, consts: map[string]bool{}, fns: map[string]*giFn{}}
	parse := func(rel string) *ast.File {
		f, err := parser.ParseFile(fset, filepath.Join(repo, rel), nil, 0)
		if err != nil {
			fail("%v", err)
		}
		return f
	}
	files := map[string]*ast.File{"gerror/gerror.go": parse("gerror/gerror.go"), "gerror/factory.go": parse("gerror/factory.go"),
		"gerror/error.go": parse("gerror/error.go"), "gerror/stack.go": parse("gerror/stack.go")}
	// the declarations the kinds rely on
	types := map[string]ast.Expr{}
	for _, f := range files {
		for _, d := range f.Decls {
			if gd, ok := d.(*ast.GenDecl); ok && gd.Tok == token.TYPE {
				for _, sp := range gd.Specs {
					ts := sp.(*ast.TypeSpec)
					types[ts.Name.Name] = ts.Type
				}
			}
		}
	}
	st, ok := types["GError"].(*ast.StructType)
	if !ok {
		fail("gerroris: struct GError not found in gerror/gerror.go")
	}
	for _, f := range st.Fields.List {
		k := map[string]string{"string": "str", "Stack": "stack", "factoryOf": "iface", "[]error": "ifaces", "bool": "bool"}[src(f.Type)]
		if k == "" || len(f.Names) == 0 {
			fail("gerroris: gerror.go: field of type `%s` in GError", src(f.Type))
		}
		for _, n := range f.Names {
			g.fkind[n.Name] = k
		}
	}
	for _, n := range []string{"Error", "Factory", "factoryOf"} {
		it, ok := types[n].(*ast.InterfaceType)
		if !ok {
			fail("gerroris: type %s is not declared as an interface", n)
		}
		if n == "factoryOf" && src(it) != "interface { Error Factory }" {
			fail("gerroris: factoryOf is declared as `%s`; the translation assumes `interface { Error Factory }`", src(it))
		}
	}
	// Error must list the methods the dispatch through Go.method relies on
	{
		have := map[string]string{}
		for _, m := range types["Error"].(*ast.InterfaceType).Methods.List {
			for _, n := range m.Names {
				have[n.Name] = src(m.Type)
			}
		}
		for n, want := range map[string]string{"Unwrap": "func() error", "_embededGError": "func() *GError", "Is": "func(error) bool"} {
			if have[n] != want {
				fail("gerroris: interface Error declares %s as `%s`; the translation assumes `%s`", n, have[n], want)
			}
		}
	}
	for _, d := range files["gerror/stack.go"].Decls {
		if gd, ok := d.(*ast.GenDecl); ok && gd.Tok == token.CONST {
			for _, sp := range gd.Specs {
				vs := sp.(*ast.ValueSpec)
				if len(vs.Names) == 1 && vs.Type != nil && src(vs.Type) == "StackType" {
					g.consts[vs.Names[0].Name] = true
				}
			}
		}
	}
	for _, n := range []string{"NoStack", "SourceStack", "ShortStack", "DefaultStack"} {
		if !g.consts[n] {
			fail("gerroris: stack.go: constant %s of type StackType not found", n)
		}
	}
	for n := range g.consts {
		switch n {
		case "NoStack", "SourceStack", "ShortStack", "DefaultStack":
		default:
			delete(g.consts, n) // Generated/GoCloneBase.lean defines these four only
		}
	}

	// the functions, in dependency order
	want := []struct{ file, key, sig string }{
		{"gerror/gerror.go", "GError._embededGError", "func (e *GError) _embededGError() *GError"},
		{"gerror/gerror.go", "GError.Unwrap", "func (e *GError) Unwrap() error"},
		{"gerror/gerror.go", "isComparable", "func isComparable(err error) bool"},
		{"gerror/gerror.go", "ExtractFactoryReference", "func ExtractFactoryReference(err error) Factory"},
		{"gerror/gerror.go", "GError.Is", "func (e *GError) Is(err error) bool"},
		{"gerror/gerror.go", "GError.Convert", "func (e *GError) Convert(err error) Error"},
		{"gerror/gerror.go", "GError.ConvertS", "func (e *GError) ConvertS(err error) Error"},
		{"gerror/factory.go", "FactoryOf", "func FactoryOf[T factoryOf](err T) Factory"},
	}
	fileOf := map[*giFn]*ast.File{}
	var order []*giFn
	for _, w := range want {
		var fd *ast.FuncDecl
		for _, d := range files[w.file].Decls {
			f, ok := d.(*ast.FuncDecl)
			if !ok || f.Body == nil {
				continue
			}
			key := f.Name.Name
			if f.Recv != nil && len(f.Recv.List) == 1 {
				key = recvTypeName(f.Recv.List[0].Type) + "." + key
			}
			if key == w.key {
				if fd != nil {
					fail("gerroris: %s: %s is declared twice", w.file, w.key)
				}
				fd = f
			}
		}
		if fd == nil {
			fail("gerroris: %s: function %s not found", w.file, w.key)
		}
		if got := src(&ast.FuncDecl{Recv: fd.Recv, Name: fd.Name, Type: fd.Type}); got != w.sig {
			fail("gerroris: %s: %s is declared as `%s`; the translation assumes `%s`", w.file, w.key, got, w.sig)
		}
		fn := &giFn{key: w.key, lean: fd.Name.Name, decl: fd}
		tparams := map[string]bool{}
		if fd.Type.TypeParams != nil {
			for _, p := range fd.Type.TypeParams.List {
				if src(p.Type) != "factoryOf" {
					fail("gerroris: %s: type parameter constrained by `%s`", at(p), src(p.Type))
				}
				for _, n := range p.Names {
					tparams[n.Name] = true
				}
			}
		}
		if fd.Recv != nil {
			if src(fd.Recv.List[0].Type) != "*GError" || len(fd.Recv.List[0].Names) != 1 {
				fail("gerroris: %s: receiver `%s`", at(fd), src(fd.Recv.List[0].Type))
			}
			fn.recv = fd.Recv.List[0].Names[0].Name
		}
		for _, p := range fd.Type.Params.List {
			if len(p.Names) == 0 {
				fail("gerroris: %s: unnamed parameter", at(p))
			}
			for _, n := range p.Names {
				fn.params = append(fn.params, param{n.Name, g.kindOfType(p.Type, tparams)})
			}
		}
		if fd.Type.Results == nil || len(fd.Type.Results.List) != 1 || len(fd.Type.Results.List[0].Names) > 0 {
			fail("gerroris: %s: %s does not have exactly one unnamed result", at(fd), w.key)
		}
		fn.ret = g.kindOfType(fd.Type.Results.List[0].Type, tparams)
		g.fns[w.key] = fn
		g.classify(fn)
		fileOf[fn] = files[w.file]
		order = append(order, fn)
	}

	var defs strings.Builder
	for _, fn := range order {
		g.cur = fn
		g.env = map[string]string{}
		g.out.Reset()
		g.n = 0
		g.imports = map[string]string{}
		for _, im := range fileOf[fn].Imports {
			p, _ := strconv.Unquote(im.Path.Value)
			local := filepath.Base(p)
			if im.Name != nil {
				local = im.Name.Name
			}
			g.imports[local] = p
		}
		for _, n := range append([]string{fn.recv}, func() []string {
			var r []string
			for _, p := range fn.params {
				r = append(r, p.name)
			}
			return r
		}()...) {
			if n == "m" || n == "env" || n == "fuel" || n == "p" || n == "_" {
				fail("gerroris: %s: the parameter name `%s` is used by the translation", at(fn.decl), n)
			}
		}
		if fn.recv != "" {
			g.env[fn.recv] = "ptr"
		}
		for _, p := range fn.params {
			g.env[p.name] = p.kind
		}
		ind := 1
		if fn.rec {
			ind = 2
		}
		if fn.writes {
			g.line(ind, "let mut m := m")
		}
		if len(fn.decl.Body.List) == 0 {
			fail("gerroris: %s: empty body", at(fn.decl))
		}
		for _, s := range fn.decl.Body.List {
			g.stmt(ind, s)
		}
		if !endsInReturn(fn.decl.Body.List[len(fn.decl.Body.List)-1]) {
			fail("gerroris: %s: %s does not end in a return", at(fn.decl), fn.key)
		}
		retT := giLeanType(fn.ret)
		if fn.writes {
			retT = "(" + giMemT + " × " + retT + ")"
		}
		fmt.Fprintf(&defs, "/-- `%s` -/\n", src(&ast.FuncDecl{Recv: fn.decl.Recv, Name: fn.decl.Name, Type: fn.decl.Type}))
		head := "def " + fn.lean
		if fn.usesEnv {
			head += " (env : Env σ)"
		}
		if fn.usesMem {
			head += " (m : " + giMemT + ")"
		}
		var ps []param
		if fn.recv != "" {
			ps = append(ps, param{fn.recv, "ptr"})
		}
		ps = append(ps, fn.params...)
		if fn.rec {
			var tys, pats, wild []string
			for _, p := range ps {
				tys = append(tys, giLeanType(p.kind))
				pats = append(pats, name(p.name))
				wild = append(wild, "_")
			}
			fmt.Fprintf(&defs, "%s : Nat → %s → Go.M %s\n", head, strings.Join(tys, " → "), retT)
			fmt.Fprintf(&defs, "  | 0, %s => throw Go.fuelMsg\n", strings.Join(wild, ", "))
			fmt.Fprintf(&defs, "  | fuel + 1, %s => do\n", strings.Join(pats, ", "))
		} else {
			for _, p := range ps {
				head += " (" + name(p.name) + " : " + giLeanType(p.kind) + ")"
			}
			fmt.Fprintf(&defs, "%s : Go.M %s := do\n", head, retT)
		}
		defs.WriteString(g.out.String())
		defs.WriteString("\n")
	}

	var b strings.Builder
	b.WriteString("import Model.GoIface\nimport Generated.GoCloneBase\n")
	b.WriteString("/-! REGENERATED on every run by harness/cmd/go2lean -spec gerroris from gerror/gerror.go ((*GError).Is, Unwrap,\n_embededGError, Convert, ConvertS, isComparable, ExtractFactoryReference) and gerror/factory.go (FactoryOf). Do not edit.\nEvery definition follows the Go function statement by statement; `Model/GoIface.lean` fixes the meaning of the\nprimitives (memory `m` of GError records addressed by *GError, interface values `Val`, `==` on interfaces that may\npanic, short-circuit operators, type assertion to Error, method calls through an interface value, fuel for the\nrecursion).  `CloneBase` is the translated function of Generated/GoCloneBase.lean, `fmt.Sprintf` is opaque (`env.sprintf`). -/\n")
	b.WriteString("namespace Generated.GoGErrorIs\nopen GErrorIs (Val)\nopen Generated.GoCloneBase (GError CloneBase NoStack SourceStack ShortStack DefaultStack)\n\n")
	b.WriteString("/-- what the translated functions get from outside: the library functions of CloneBase and fmt.Sprintf -/\nstructure Env (σ : Type) where\n  clone : Generated.GoCloneBase.Env σ\n  sprintf : Go.Str → List Val → Go.Str\n\n")
	b.WriteString("variable {σ : Type}\n\n")
	b.WriteString(defs.String())
	b.WriteString("end Generated.GoGErrorIs\n")
	if err := os.WriteFile(out, []byte(b.String()), 0o644); err != nil {
		fail("%v", err)
	}
	fmt.Printf("go2lean gerroris: %d functions -> %s\n", len(order), out)
}

// h-set: correspondence runner for /repo/set (properties C07, C11, C17).
package main

import (
	"fmt"
	"os"

	"verif/harness/internal/hx"
)

func main() {
	f := hx.ParseFlags()
	switch f.Prop {
	case "C11":
		runC11(f)
	case "C07":
		runC07(f)
	case "C17":
		runC17(f)
	default:
		fmt.Fprintln(os.Stderr, "h-set: unknown property", f.Prop)
		os.Exit(2)
	}
}

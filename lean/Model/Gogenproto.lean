/-!
# Model of `gogenproto/gen/generate.go` (`Generate.Run`, `findProtos`) and of the flag wiring

The file system is a tree of directory entries.  A regular file carries the one thing
`protoFileHasGoPackage` reads from it (does the file declare `option go_package`); the line scan
itself, `filepath.WalkDir/Abs/Rel`, and `go/packages` are NOT modelled: the walk is the recursion
over the tree, `Abs/Rel` are operations on component lists, the package of a directory is the
parameter `pkgOf`.

Paths are lists of components below `/`.  `Generate.Run` is mirrored in the code's own order:

* `findProtos(g.InputDir, g.Recurse)`              -> `findProtos (firstCtx cfg) …`
* fixed arguments, then the vtproto / grpc blocks   -> `fixedArgs`
* for every include path (input dir first): `-I=<abs>`, then for every proto found below it
  (`findProtos(includePath, true)`) that has no `go_package` one `M` mapping per requested plugin
                                                    -> `rootArgs`
* the files found by the first walk                 -> `Arg.file`

The callback of `findProtos` compares path STRINGS (`pathname == "." || pathname == g.InputDir`).
In the first walk the pathnames are `Join(g.InputDir, …)`, so the test holds exactly at the root;
in the include walks the pathnames are absolute and clean, so it holds exactly at the input
directory's node and only if `g.InputDir` was spelled as that absolute clean path.  That is what
`WalkCtx.isInput` stands for (`firstCtx`, `inclCtx`).

Arguments are kept structured (`Arg`) and rendered to the literal strings by `Arg.render`, so that
theorems do not have to parse strings.
-/
namespace Gogenproto

abbrev Path := List String

/-- a directory entry; `regular = false` for symlinks, devices, …; `goPkg` = the file declares
`option go_package` -/
inductive Tree where
  | file (name : String) (regular : Bool) (goPkg : Bool)
  | dir (name : String) (children : List Tree)

def Tree.name : Tree → String
  | .file n _ _ => n
  | .dir n _ => n

/-! ## `filepath.Ext(d.Name()) == ".proto"` -/

/-- the loop of `filepath.Ext`, scanning from the end: `cs` is the name reversed, `acc` what was
passed so far -/
def extRev : List Char → List Char → List Char
  | [], _ => []
  | c :: rest, acc =>
    if c = '/' then [] else if c = '.' then c :: acc else extRev rest (c :: acc)

def ext (name : String) : String := String.ofList (extRev name.toList.reverse [])

def isProtoName (name : String) : Bool := ext name == ".proto"

/-! ## `findProtos` -/

/-- an entry of `protoList`, together with what `protoFileHasGoPackage` will read from it -/
structure Found where
  path : Path
  goPkg : Bool
deriving DecidableEq, Repr

structure WalkCtx where
  /-- `pathname == "." || pathname == g.InputDir` -/
  isInput : Path → Bool
  recurse : Bool

mutual
/-- the `WalkDir` callback on one entry below `pre` (and the walk below it) -/
def walk (c : WalkCtx) (pre : Path) : Tree → List Found
  | .file n reg g =>
    if c.isInput (pre ++ [n]) then []                       -- `return err` (nil)
    else if reg && isProtoName n then [⟨pre ++ [n], g⟩] else []
  | .dir n cs =>
    if c.isInput (pre ++ [n]) then walkList c (pre ++ [n]) cs
    else if !c.recurse then []                              -- `fs.SkipDir`
    else walkList c (pre ++ [n]) cs
def walkList (c : WalkCtx) (pre : Path) : List Tree → List Found
  | [] => []
  | t :: ts => walk c pre t ++ walkList c pre ts
end

/-- `g.findProtos(dir, recurse)` where `dir` is the directory at `root` with entries `cs` -/
def findProtos (c : WalkCtx) (root : Path) (cs : List Tree) : List Found :=
  if c.isInput root then walkList c root cs
  else if !c.recurse then []
  else walkList c root cs

/-! ## `Run` -/

structure Config where
  /-- `filepath.Abs(g.InputDir)` -/
  input : Path
  /-- `g.InputDir` is spelled as exactly that absolute clean path -/
  inputAbsSpelled : Bool
  recurse : Bool
  vt : Bool
  grpc : Bool

/-- an element of `includePaths` after `strings.Cut(…, "=")` and `filepath.Abs`, with the
directory found there; the prefix is kept as its `/`-separated components -/
structure Root where
  abs : Path
  pkgPrefix : Option (List String)
  children : List Tree

inductive Plugin where
  | go | vt | grpc
deriving DecidableEq, Repr

inductive Arg where
  | out (p : Plugin)
  | optPaths (p : Plugin)
  | fatalWarnings
  | incl (p : Path)
  | mapping (pl : Plugin) (rel : Path) (pkg : String)
  | file (p : Path)
deriving DecidableEq, Repr

def firstCtx (cfg : Config) : WalkCtx := ⟨fun p => p == cfg.input, cfg.recurse⟩
def inclCtx (cfg : Config) : WalkCtx := ⟨fun p => cfg.inputAbsSpelled && p == cfg.input, true⟩

def Config.requested (cfg : Config) : Plugin → Bool
  | .go => true
  | .vt => cfg.vt
  | .grpc => cfg.grpc

def fixedArgs (cfg : Config) : List Arg :=
  [.out .go, .optPaths .go, .fatalWarnings]
    ++ (if cfg.vt then [.out .vt, .optPaths .vt] else [])
    ++ (if cfg.grpc then [.out .grpc, .optPaths .grpc] else [])

def mappingArgs (cfg : Config) (rel : Path) (pkg : String) : List Arg :=
  [.mapping .go rel pkg]
    ++ (if cfg.vt then [.mapping .vt rel pkg] else [])
    ++ (if cfg.grpc then [.mapping .grpc rel pkg] else [])

/-- `filepath.Clean` on components: drops empty and `.` components, resolves `..` against what is
there (and keeps it otherwise; at the root it is dropped).  `acc` is reversed. -/
def normStep (rooted : Bool) (acc : List String) (c : String) : List String :=
  if c = "" || c = "." then acc
  else if c = ".." then
    match acc with
    | [] => if rooted then [] else [".."]
    | a :: rest => if a = ".." then c :: acc else rest
  else c :: acc

def normalize (rooted : Bool) (comps : List String) : List String :=
  (comps.foldl (normStep rooted) []).reverse

/-- `filepath.Join(pkgPrefix, filepath.Dir(relPath))` for a relative prefix -/
def joinPkg (pre : List String) (dirs : List String) : String :=
  let xs := normalize false (pre ++ dirs)
  if xs.isEmpty then "." else "/".intercalate xs

/-- the package half of the mapping -/
def pkgFor (pkgOf : Path → String) (r : Root) (f : Found) : String :=
  match r.pkgPrefix with
  | some pre => joinPkg pre (f.path.drop r.abs.length).dropLast
  | none => pkgOf f.path.dropLast                           -- `PackageNameFromPath(filepath.Dir(path))`

/-- the body of the `for … range includePaths` loop -/
def rootArgs (pkgOf : Path → String) (cfg : Config) (r : Root) : List Arg :=
  .incl r.abs ::
    (findProtos (inclCtx cfg) r.abs r.children).flatMap (fun f =>
      if f.goPkg then [] else mappingArgs cfg (f.path.drop r.abs.length) (pkgFor pkgOf r f))

/-- the argument vector, given all include roots (the input directory's first) -/
def runRaw (pkgOf : Path → String) (cfg : Config) (inputChildren : List Tree) (roots : List Root) :
    List Arg :=
  fixedArgs cfg
    ++ roots.flatMap (rootArgs pkgOf cfg)
    ++ (findProtos (firstCtx cfg) cfg.input inputChildren).map (fun f => .file f.path)

/-- `Run` for an input directory whose name has no `=` (so `strings.Cut` leaves it alone) -/
def run (pkgOf : Path → String) (cfg : Config) (inputChildren : List Tree) (incs : List Root) :
    List Arg :=
  runRaw pkgOf cfg inputChildren (⟨cfg.input, none, inputChildren⟩ :: incs)

/-! ## rendering -/

def renderPath (p : Path) : String := "/" ++ "/".intercalate p
def renderRel (p : Path) : String := "/".intercalate p

def Plugin.flag : Plugin → String
  | .go => "--go"
  | .vt => "--go-vtproto"
  | .grpc => "--go-grpc"

def Arg.render : Arg → String
  | .out p => p.flag ++ "_out=."
  | .optPaths .vt =>
    "--go-vtproto_opt=paths=source_relative,features=marshal+unmarshal+size+equal+clone+pool"
  | .optPaths p => p.flag ++ "_opt=paths=source_relative"
  | .fatalWarnings => "--fatal_warnings"
  | .incl p => "-I=" ++ renderPath p
  | .mapping pl rel pkg => pl.flag ++ "_opt=M" ++ renderRel rel ++ "=" ++ pkg
  | .file p => "file:" ++ renderPath p

/-! ## from the raw options and a whole file system to `runRaw` (`strings.Cut`, `filepath.Abs`,
the directory lookups of `WalkDir`) -/

structure Request where
  cwd : Path
  inputDir : String
  recurse : Bool
  vt : Bool
  grpc : Bool
  includes : List String

def isAbsStr (s : String) : Bool := s.toList.head? == some '/'

/-- `filepath.Abs` -/
def absPath (cwd : Path) (s : String) : Path :=
  if isAbsStr s then normalize true (s.splitOn "/") else normalize true (cwd ++ s.splitOn "/")

/-- `strings.Cut(s, "=")` on characters: split at the FIRST `=` -/
def cutChars : List Char → List Char × Option (List Char)
  | [] => ([], none)
  | c :: cs => if c = '=' then ([], some cs) else ((cutChars cs).1.cons c, (cutChars cs).2)

def cut (s : String) : String × Option String :=
  (String.ofList (cutChars s.toList).1, (cutChars s.toList).2.map String.ofList)

def dirNamed (d : String) : Tree → Option (List Tree)
  | .dir n sub => if n = d then some sub else none
  | .file .. => none

/-- entries of the directory at `p` (none: no such directory) -/
def lookupDir (cs : List Tree) : Path → Option (List Tree)
  | [] => some cs
  | d :: rest =>
    match cs.findSome? (dirNamed d) with
    | some sub => lookupDir sub rest
    | none => none

def resolveRoot (fs : List Tree) (cwd : Path) (s : String) : Option Root :=
  let c := cut s
  let abs := absPath cwd c.1
  (lookupDir fs abs).map (fun cs => ⟨abs, c.2.map (·.splitOn "/"), cs⟩)

def Request.config (rq : Request) : Config :=
  let abs := absPath rq.cwd rq.inputDir
  ⟨abs, rq.inputDir == renderPath abs, rq.recurse, rq.vt, rq.grpc⟩

/-- the whole of `Run`: `none` = an error before protoc is started -/
def runFS (pkgOf : Path → String) (fs : List Tree) (rq : Request) : Option (List Arg) :=
  let cfg := rq.config
  match lookupDir fs cfg.input with
  | none => none
  | some inputChildren =>
    match (rq.inputDir :: rq.includes).mapM (resolveRoot fs rq.cwd) with
    | none => none
    | some roots => some (runRaw pkgOf cfg inputChildren roots)

/-! ## Specification (mirrors the property text) -/

/-- below a directory with entries `cs`, following the directory names `dirs`, there is a file
entry `n` with these attributes -/
inductive HasFile : List Tree → List String → String → Bool → Bool → Prop where
  | here {cs n reg g} : Tree.file n reg g ∈ cs → HasFile cs [] n reg g
  | under {cs d sub dirs n reg g} :
    Tree.dir d sub ∈ cs → HasFile sub dirs n reg g → HasFile cs (d :: dirs) n reg g

/-- "a .proto file" -/
def EndsWithProto (n : String) : Prop := ".proto".toList <:+ n.toList

/-- "each .proto file directly inside the input directory (or anywhere below it with -recurse)":
`p` names a regular `.proto` file in scope, declaring `go_package` or not (`g`) -/
def InScope (recurse : Bool) (root : Path) (cs : List Tree) (p : Path) : Prop :=
  ∃ dirs n g, HasFile cs dirs n true g ∧ EndsWithProto n ∧ (recurse = true ∨ dirs = []) ∧
    p = root ++ dirs ++ [n]

/-- "the explicit prefix joined with the relative directory when one was given, the Go package of
the directory otherwise" -/
def specPkg (pkgOf : Path → String) (r : Root) (dirs : List String) : String :=
  match r.pkgPrefix with
  | some pre => "/".intercalate (pre ++ dirs)
  | none => pkgOf (r.abs ++ dirs)

/-- a path component that `filepath.Clean` leaves alone -/
def PlainComp (c : String) : Prop := c ≠ "" ∧ c ≠ "." ∧ c ≠ ".."

/-! file systems have distinct names in a directory -/
mutual
def WF : Tree → Prop
  | .file _ _ _ => True
  | .dir _ cs => WFL cs
def WFL : List Tree → Prop
  | [] => True
  | t :: ts => WF t ∧ (∀ u ∈ ts, u.name ≠ t.name) ∧ WFL ts
end

end Gogenproto

package main

import (
	"context"
	"fmt"
	"math/rand"
	"strconv"
	"strings"

	"go.uber.org/zap"
	"go.uber.org/zap/zapcore"
	"go.uber.org/zap/zaptest/observer"

	logx "verif/harness/instr/logx"
	"verif/harness/internal/hx"
	"verif/harness/internal/sched"
)

type ccall struct {
	kind   string // wf | sl
	fields []string
	lvl    int
}

func (c ccall) String() string {
	if c.kind == "wf" {
		return "wf=" + strings.Join(c.fields, ",")
	}
	return "sl=" + strconv.Itoa(c.lvl)
}

// mcall: the monitor's record of one call (event numbers order call starts and returns in real time)
type mcall struct {
	c          ccall
	start, end int // end < 0: in flight
}

type cthread struct {
	prog   []ccall
	status string
	done   int
}

type ckey struct{}

type concImpl struct {
	s       *sched.Sched
	threads []*cthread
	ob      *observer.ObservedLogs
	base    context.Context
	ids     map[*zap.Logger]int
	// monitor
	ev         int
	initFields []string
	initLvl    int
	calls      []*mcall
	mon        string
}

func (g *concImpl) kill() {
	if g.s != nil {
		g.s.Kill()
		g.s = nil
	}
}

func parseCCall(w string) (ccall, bool) {
	switch {
	case strings.HasPrefix(w, "wf="):
		c := ccall{kind: "wf"}
		for _, f := range strings.Split(w[3:], ",") {
			if f != "" {
				c.fields = append(c.fields, f)
			}
		}
		return c, true
	case strings.HasPrefix(w, "sl="):
		l, err := strconv.Atoi(w[3:])
		return ccall{kind: "sl", lvl: l}, err == nil
	}
	return ccall{}, false
}

func (g *concImpl) idOf(l *zap.Logger) int {
	if id, ok := g.ids[l]; ok {
		return id
	}
	id := len(g.ids)
	g.ids[l] = id
	return id
}

// start: ws = <variant> <level> <field>* | prog | prog ...
func (g *concImpl) start(ws []string) string {
	lvl, err := strconv.Atoi(ws[1])
	if err != nil {
		return "bad-op"
	}
	var parts [][]string
	cur := []string{}
	for _, w := range ws[2:] {
		if w == "|" {
			parts = append(parts, cur)
			cur = []string{}
		} else {
			cur = append(cur, w)
		}
	}
	parts = append(parts, cur)
	if len(parts) < 2 {
		return "bad-op"
	}
	var progs [][]ccall
	for _, p := range parts[1:] {
		var prog []ccall
		for _, w := range p {
			c, ok := parseCCall(w)
			if !ok {
				return "bad-op"
			}
			prog = append(prog, c)
		}
		progs = append(progs, prog)
	}
	g.initFields, g.initLvl = parts[0], lvl
	g.ob = installGlobal(lvl, parts[0])
	g.ids = map[*zap.Logger]int{}
	g.mon = "ok"
	g.s = sched.New()
	// set-up outside the scheduled threads: one holder, shared by every goroutine's context
	g.base = logx.InitLogger(context.Background())
	g.idOf(logx.Log(g.base)) // logger 0
	for i, p := range progs {
		t := &cthread{prog: p, status: "idle"}
		g.threads = append(g.threads, t)
		ctx := context.WithValue(g.base, ckey{}, i)
		id := g.s.Spawn(func() { g.runThread(t, ctx) })
		g.learn(id)
	}
	return "ok"
}

func (g *concImpl) runThread(t *cthread, ctx context.Context) {
	for _, c := range t.prog {
		t.status = c.kind
		m := &mcall{c: c, start: g.ev, end: -1}
		g.ev++
		g.calls = append(g.calls, m)
		if c.kind == "wf" {
			logx.WithFields(ctx, mkFields(c.fields)...)
		} else {
			logx.SetLevel(ctx, zapcore.Level(c.lvl))
		}
		m.end = g.ev
		g.ev++
		t.done++
	}
	t.status = "idle"
}

// learn numbers the logger a goroutine is about to install (allocated thread-locally before the
// pointer update it is now pending on), in allocation order — as the model numbers its heap.
func (g *concImpl) learn(tid int) {
	if op := g.s.Pending(tid); op != nil && op.Kind == "ptr-update" {
		if p, ok := op.B.(*zap.Logger); ok && p != nil {
			g.idOf(p)
		}
	}
}

func multiset(xs []string) map[string]int {
	m := map[string]int{}
	for _, x := range xs {
		m[x]++
	}
	return m
}

// monitor: the property as worded, on the implementation's observable state.
//   - no field lost: the installed logger carries every initial field and every field of every
//     WithFields call that has returned (and nothing that no started call added);
//   - no level change lost: its level is the level of a SetLevel call that is not followed in real
//     time by a returned SetLevel call (or the initial level while no SetLevel has returned).
func (g *concImpl) monitor(lvl string, fields []string) {
	if g.mon != "ok" {
		return
	}
	have := multiset(fields)
	need := multiset(g.initFields)
	may := multiset(g.initFields)
	for _, m := range g.calls {
		if m.c.kind != "wf" {
			continue
		}
		for _, f := range m.c.fields {
			may[f]++
			if m.end >= 0 {
				need[f]++
			}
		}
	}
	for f, n := range need {
		if have[f] < n {
			g.mon = "lost-field"
			return
		}
	}
	for f, n := range have {
		if may[f] < n {
			g.mon = "spurious-field"
			return
		}
	}
	allowed := map[string]bool{}
	anyReturned := false
	for _, m := range g.calls {
		if m.c.kind != "sl" {
			continue
		}
		if m.end >= 0 {
			anyReturned = true
		}
		overwritten := false
		for _, n := range g.calls {
			if n.c.kind == "sl" && n.end >= 0 && m.end >= 0 && n.start > m.end {
				overwritten = true
			}
		}
		if !overwritten {
			allowed[strconv.Itoa(m.c.lvl)] = true
		}
	}
	if !anyReturned {
		allowed[strconv.Itoa(g.initLvl)] = true
	}
	if !allowed[lvl] {
		g.mon = "lost-level"
	}
}

func (g *concImpl) state() string {
	cur := logx.Log(g.base)
	pat, fields, em := probeLogger(cur, g.ob, 2, false)
	lvl := "off"
	for i, ch := range pat {
		if ch != '-' {
			lvl = strconv.Itoa(i - 1)
			break
		}
	}
	fs := "?"
	if em && strings.HasSuffix(pat, "E") {
		fs = "[" + strings.Join(fields, " ") + "]"
	}
	g.monitor(lvl, fields)
	var b strings.Builder
	fmt.Fprintf(&b, "ptr=%d lvl=%s fields=%s", g.idOf(cur), lvl, fs)
	for _, t := range g.threads {
		fmt.Fprintf(&b, " | %s done=%d", t.status, t.done)
	}
	return b.String()
}

func (g *concImpl) step(tid int) string {
	if g.s == nil || tid < 0 {
		return "bad-op"
	}
	label := "none"
	if tid < len(g.threads) {
		if op := g.s.Step(tid); op != nil {
			label = op.Kind
			if label == "panic" {
				return "panic " + fmt.Sprint(op.Res)
			}
		}
		g.learn(tid)
	}
	out := label + " " + g.state()
	if g.mon != "ok" {
		out += " mon=" + g.mon
	}
	return out
}

func (g *concImpl) exec(ws []string) string {
	if g.s == nil {
		return "bad-op"
	}
	if len(ws) == 2 && ws[0] == "step" {
		n, err := strconv.Atoi(ws[1])
		if err != nil {
			return "bad-op"
		}
		return g.step(n)
	}
	if len(ws) == 1 && ws[0] == "state" {
		return g.state()
	}
	return "bad-op"
}

// ---- generators ----

func startLine(lvl int, gf []string, progs [][]ccall) string {
	ws := []string{"lg", "start", "conc", "cur", strconv.Itoa(lvl)}
	ws = append(ws, gf...)
	for _, p := range progs {
		ws = append(ws, "|")
		for _, c := range p {
			ws = append(ws, c.String())
		}
	}
	return strings.Join(ws, " ")
}

// genProgs: 2-8 goroutines x 1-3 calls on contexts sharing one holder.
func genProgs(rng *rand.Rand) [][]ccall {
	n := 2 + rng.Intn(7)
	if rng.Intn(2) == 0 {
		n = 2 + rng.Intn(3)
	}
	progs := make([][]ccall, n)
	for i := range progs {
		k := 1 + rng.Intn(3)
		for j := 0; j < k; j++ {
			if rng.Intn(3) == 0 {
				progs[i] = append(progs[i], ccall{kind: "sl", lvl: rng.Intn(4) - 1})
				continue
			}
			c := ccall{kind: "wf"}
			nf := []int{0, 1, 1, 1, 2}[rng.Intn(5)]
			for f := 0; f < nf; f++ {
				if rng.Intn(4) == 0 {
					c.fields = append(c.fields, fmt.Sprintf("%s:%d", fieldKeys[rng.Intn(3)], rng.Intn(2))) // repeated names
				} else {
					c.fields = append(c.fields, fmt.Sprintf("t%dc%d:%d", i, j, f))
				}
			}
			progs[i] = append(progs[i], c)
		}
	}
	return progs
}

type cdriver struct {
	m     *impl
	lines []string
}

func newCDriver(lvl int, gf []string, progs [][]ccall) *cdriver {
	d := &cdriver{m: &impl{}}
	d.do("case lg conc")
	d.do(startLine(lvl, gf, progs))
	return d
}

func (d *cdriver) do(line string) string {
	d.lines = append(d.lines, line)
	return d.m.Exec(line)
}

func (d *cdriver) live() []int {
	var l []int
	g := d.m.conc
	for i := range g.threads {
		if !g.s.Done(i) {
			l = append(l, i)
		}
	}
	return l
}

// schedule styles: 0 uniformly random; k>0 bursts (one goroutine performs a few operations, then
// another one runs) — the shape that separates a load from its pointer update.
func genConcCase(rng *rand.Rand, lvl int, gf []string, progs [][]ccall, style int) hx.Case {
	d := newCDriver(lvl, gf, progs)
	cur, left := -1, 0
	for steps := 0; steps < 400; steps++ {
		live := d.live()
		if len(live) == 0 {
			break
		}
		var tid int
		if style == 0 {
			tid = live[rng.Intn(len(live))]
		} else {
			alive := false
			for _, x := range live {
				alive = alive || x == cur
			}
			if left <= 0 || !alive {
				cur = live[rng.Intn(len(live))]
				left = 1 + rng.Intn(style*2)
			}
			tid = cur
			left--
		}
		if out := d.do(fmt.Sprintf("lg step %d", tid)); strings.HasPrefix(out, "blocked") {
			left = 0
		}
	}
	d.m.conc.kill()
	return hx.Case{Domain: true, Nontrivial: len(progs) >= 2, Lines: d.lines,
		Tags: []string{"conc", fmt.Sprintf("threads%d", len(progs)), fmt.Sprintf("style%d", style)}}
}

// dfs enumerates every schedule of progs with at most `bound` preemptions (a switch away from a
// goroutine that could still run), re-executing the prefix for every node.
func dfs(lvl int, gf []string, progs [][]ccall, bound int, emit func(hx.Case), limit *int) {
	var rec func(prefix []int, last int, used int)
	rec = func(prefix []int, last int, used int) {
		if *limit <= 0 {
			return
		}
		d := newCDriver(lvl, gf, progs)
		blockedLast := false
		for _, t := range prefix {
			out := d.do(fmt.Sprintf("lg step %d", t))
			blockedLast = strings.HasPrefix(out, "blocked")
		}
		live := d.live()
		d.m.conc.kill()
		if len(live) == 0 || len(prefix) >= 80 {
			*limit--
			emit(hx.Case{Domain: true, Nontrivial: true, Lines: d.lines, Tags: []string{"conc", "dfs"}})
			return
		}
		lastLive := false
		for _, x := range live {
			lastLive = lastLive || x == last
		}
		for _, t := range live {
			cost := 0
			if lastLive && t != last && !blockedLast {
				cost = 1 // switching away from a goroutine that could go on (a blocked one cannot)
			}
			if blockedLast && t == last {
				continue // re-trying a blocked lock at once is a pure stutter
			}
			if used+cost > bound {
				continue
			}
			rec(append(append([]int{}, prefix...), t), t, used+cost)
		}
	}
	rec(nil, -1, 0)
}

func wf(fs ...string) ccall { return ccall{kind: "wf", fields: fs} }
func sl(l int) ccall        { return ccall{kind: "sl", lvl: l} }

var dfsPrograms = [][][]ccall{
	{{wf("a:1")}, {wf("b:1")}},
	{{wf("a:1")}, {sl(-1)}},
	{{sl(-1), wf("a:1")}, {wf("b:1"), sl(2)}},
	{{wf("a:1"), wf("a:2")}, {wf("b:1")}, {sl(0)}},
	{{wf("a:1")}, {wf()}, {sl(-1), sl(2)}},
	{{wf("a:1"), sl(0)}, {wf("b:1"), wf("c:1")}, {sl(-1), wf("d:1")}},
	{{wf("a:1")}, {wf("b:1")}, {wf("c:1")}, {sl(2)}},
}

func runConc(r *hx.Runner, f *hx.Flags) {
	nprog, nsched, bound, limit := r.N(2000), 8, 3, 20000
	if f.Tier == "thorough" {
		nprog, nsched, bound, limit = r.N(15000), 12, 4, 40000
	}
	for i := 0; i < nprog; i++ {
		progs := genProgs(r.Rng)
		lvl := r.Rng.Intn(4) - 1
		gf := []string{}
		if r.Rng.Intn(2) == 0 {
			gf = []string{"g:0"}
		}
		for j := 0; j < nsched; j++ {
			r.Add(genConcCase(r.Rng, lvl, gf, progs, j%3))
		}
	}
	for _, progs := range dfsPrograms {
		lim := limit
		dfs(1, []string{"g:0"}, progs, bound, r.Add, &lim)
	}
	r.Flush()
	prune(r, 5)
	// L3: the lock-step broke and the monitor has not fired: widen the search on the implementation
	tie, mon := 0, 0
	for _, d := range r.Res.Disagreements {
		if d.Kind == "tie-broken" {
			tie++
		} else if strings.Contains(d.Key, ":monitor:") {
			mon++
		}
	}
	if tie > 0 && mon == 0 {
		// bounded so that the quick tier stays a quick tier
		lim, nrand := 30000, 500
		if r.F.Tier == "thorough" {
			lim, nrand = 200000, 3000
		}
		for _, progs := range dfsPrograms {
			l := lim / len(dfsPrograms)
			dfs(1, []string{"g:0"}, progs, 3, r.Add, &l)
			r.Flush()
		}
		for i := 0; i < nrand; i++ {
			progs := genProgs(r.Rng)
			for j := 0; j < 10; j++ {
				r.Add(genConcCase(r.Rng, r.Rng.Intn(4)-1, nil, progs, j%3))
			}
			if i%100 == 99 {
				r.Flush()
			}
		}
		r.Res.Extra["l3_search"] = fmt.Sprintf("lock-step broke without a monitor hit: widened schedule enumeration (<=3 preemptions, %d schedules) and %d more random schedules", lim, nrand*10)
	}
}

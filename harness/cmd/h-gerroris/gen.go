package main

import (
	"fmt"
	"math/rand"
	"strconv"
	"strings"

	"verif/harness/internal/hx"
)

var methods = []string{"Base", "SourceOnly", "Stack", "Src", "DTag", "Msg", "SrcDTagMsg", "SrcDTag", "SrcMsg", "DTagMsg",
	"SrcS", "DTagS", "MsgS", "SrcDTagMsgS", "SrcDTagS", "SrcMsgS", "DTagMsgS", "Convert", "ConvertS"}

// shadow is the generator's (and KeyOf's) bookkeeping of a case: what each value / foreign is.
type shadow struct {
	vkind   []string // root:base root:bare root:ext root:bareext derived converted reconverted
	nsrc    []int    // number of foreign errors converted on the way to the value
	fkind   []string // new ptr sliceptr slice map structslice str struct wrap wrapv
	fnoncmp []bool
}

func (s *shadow) apply(line string) {
	ws := strings.Fields(line)
	if len(ws) < 3 || ws[0] != "gei" {
		return
	}
	switch ws[1] {
	case "foreign":
		k, _, _ := strings.Cut(ws[2], ":")
		s.fkind = append(s.fkind, k)
		s.fnoncmp = append(s.fnoncmp, k == "slice" || k == "map" || k == "structslice")
	case "root":
		k, _, _ := strings.Cut(ws[2], ":")
		s.vkind = append(s.vkind, "root:"+k)
		s.nsrc = append(s.nsrc, 0)
	case "call":
		if len(ws) != 6 {
			return
		}
		recv, err := strconv.Atoi(ws[2])
		if err != nil || recv < 0 || recv >= len(s.vkind) {
			return
		}
		conv := ws[3] == "Convert" || ws[3] == "ConvertS"
		if j, ok := idx(ws[4], 'v', len(s.vkind)); ok && conv {
			s.vkind = append(s.vkind, s.vkind[j])
			s.nsrc = append(s.nsrc, s.nsrc[j])
			return
		}
		n := s.nsrc[recv]
		if _, ok := idx(ws[4], 'f', len(s.fkind)); ok && conv {
			n++
		}
		kind := "derived"
		if n == 1 {
			kind = "converted"
		} else if n > 1 {
			kind = "reconverted"
		}
		s.vkind = append(s.vkind, kind)
		s.nsrc = append(s.nsrc, n)
	}
}

func (s *shadow) targetClass(col int) string {
	switch {
	case col < len(s.vkind):
		return s.vkind[col]
	case col < len(s.vkind)+len(s.fkind):
		k := col - len(s.vkind)
		if s.fnoncmp[k] {
			return "foreign-noncomparable"
		}
		if s.fkind[k] == "wrapv" {
			return "foreign-wrapping-gerror"
		}
		return "foreign-comparable"
	case col == len(s.vkind)+len(s.fkind):
		return "nil"
	}
	return "?"
}

// keyOf: canonical class of a disagreement.
func keyOf(d *hx.Disagreement) string {
	lines := d.Case.Lines
	at := d.LineNo
	if len(d.Shrunk) > 0 {
		lines, at = d.Shrunk, d.ShrunkAt
	}
	if at >= len(lines) {
		return "C06:?"
	}
	sh := &shadow{}
	for _, l := range lines[:at] {
		sh.apply(l)
	}
	ws := strings.Fields(lines[at])
	if len(ws) < 3 {
		return "C06:?"
	}
	impl, model := d.Impl, d.Model
	if len(d.Shrunk) > 0 {
		// re-derive the answers of the shrunk case is not possible here; the class of line suffices
		// when the shapes differ
	}
	switch ws[1] {
	case "isrow", "isfrow", "specrow":
		if len(impl) != len(model) || len(d.Shrunk) > 0 && d.ShrunkAt != d.LineNo {
			// answers belong to the unshrunk case: classify on it instead
			if len(d.Shrunk) > 0 {
				d2 := *d
				d2.Shrunk = nil
				return keyOf(&d2)
			}
			return "C06:" + ws[1] + ":shape"
		}
		i, _ := strconv.Atoi(ws[2])
		errClass := "?"
		if (ws[1] == "isrow" || ws[1] == "specrow") && i < len(sh.vkind) {
			errClass = sh.vkind[i]
		} else if ws[1] == "isfrow" && i < len(sh.fkind) {
			errClass = "foreign-" + sh.fkind[i]
		}
		for c := 0; c < len(impl); c++ {
			if impl[c] == model[c] {
				continue
			}
			tc := sh.targetClass(c)
			switch {
			case impl[c] == 'p':
				return "C06:is:panic:" + tc
			case impl[c] == 'f' && model[c] == 't' && errClass == "reconverted" && tc == "foreign-comparable":
				return "C06:is:reconverted-source"
			}
			return fmt.Sprintf("C06:is:%c-for-%c:%s:%s", impl[c], model[c], errClass, tc)
		}
		return "C06:is:?"
	case "xref":
		i, _ := strconv.Atoi(ws[2])
		c := "?"
		if i < len(sh.vkind) {
			c = sh.vkind[i]
		}
		return "C06:xref:" + c
	case "call":
		if impl == "panic" {
			return "C06:call:panic:" + ws[3]
		}
		return "C06:call:" + ws[3]
	}
	return "C06:" + ws[1]
}

// genCase builds one pool + derivations + full Is matrix.
func genCase(rng *rand.Rand, id int, domain bool, small bool) hx.Case {
	// a third of the gating cases also create foreign errors that WRAP a gerror value half-way
	// (fmt.Errorf("%w", derived)) and may Convert them later: Convert must treat such a wrapper as
	// a foreign error (wrap it under the receiving factory), not return the buried gerror error
	wrapMid := domain && rng.Intn(3) == 0
	lines := []string{fmt.Sprintf("case gei %d", id)}
	sh := &shadow{}
	add := func(l string) {
		lines = append(lines, l)
		sh.apply(l)
	}
	tags := map[string]bool{}
	// foreign errors
	nf := 4 + rng.Intn(5)
	if small {
		nf = 2 + rng.Intn(3)
	}
	kinds := []string{"new", "new", "ptr", "sliceptr", "slice", "slice", "map", "structslice", "str", "str", "struct", "wrap", "wrap"}
	for k := 0; k < nf; k++ {
		kind := kinds[rng.Intn(len(kinds))]
		switch kind {
		case "str", "struct":
			add(fmt.Sprintf("gei foreign %s:%d", kind, rng.Intn(3)))
		case "wrap":
			if k == 0 {
				add("gei foreign new")
			} else {
				add(fmt.Sprintf("gei foreign wrap %d", rng.Intn(k)))
			}
		default:
			add("gei foreign " + kind)
		}
	}
	// pool of factories
	np := 6 + rng.Intn(5)
	if small {
		np = 2 + rng.Intn(3)
	}
	for k := 0; k < np; k++ {
		switch r := rng.Intn(10); {
		case r < 3:
			add("gei root base")
		case r < 5:
			add("gei root bare")
		default:
			if !domain && rng.Intn(3) == 0 {
				add(fmt.Sprintf("gei root bareext:%d", rng.Intn(3)))
				tags["bare-extension-factory"] = true
			} else {
				add(fmt.Sprintf("gei root ext:%d", rng.Intn(3)))
			}
		}
	}
	if !domain && rng.Intn(2) == 0 {
		add(fmt.Sprintf("gei foreign wrapv %d", rng.Intn(np)))
		tags["foreign-wrapping-gerror"] = true
	}
	// chains
	budget := 34 + rng.Intn(12)
	if small {
		budget = 3 + rng.Intn(6)
	}
	longChain, convForeign, convValue, reconv := false, false, false, false
	for budget > 0 {
		if wrapMid && len(sh.vkind) > np && rng.Intn(4) == 0 {
			add(fmt.Sprintf("gei foreign wrapv %d", rng.Intn(len(sh.vkind))))
			tags["foreign-wrapping-gerror-midway"] = true
		}
		cur := rng.Intn(np)
		if len(sh.vkind) > np && rng.Intn(2) == 0 {
			// branch off an EARLIER derived value: siblings of intermediate errors share whatever the
			// parent's slices and references share
			cur = rng.Intn(len(sh.vkind))
			tags["branch-from-derived"] = true
		}
		L := rng.Intn(7)
		if L > budget {
			L = budget
		}
		if L == 0 {
			budget--
		}
		for s := 0; s < L; s++ {
			m := methods[rng.Intn(len(methods))]
			if rng.Intn(4) == 0 {
				m = methods[17+rng.Intn(2)]
			}
			arg := "-"
			if m == "Convert" || m == "ConvertS" {
				switch r := rng.Intn(10); {
				case r < 7:
					arg = fmt.Sprintf("f%d", rng.Intn(len(sh.fkind)))
					convForeign = true
					if sh.nsrc[cur] > 0 {
						reconv = true
					}
				case r < 9:
					arg = fmt.Sprintf("v%d", rng.Intn(len(sh.vkind)))
					convValue = true
				default:
					arg = "nil"
				}
			}
			add(fmt.Sprintf("gei call %d %s %s %d", cur, m, arg, rng.Intn(4096)))
			cur = len(sh.vkind) - 1
			budget--
			if s >= 1 {
				longChain = true
			}
		}
	}
	if domain && !small && rng.Intn(3) == 0 {
		// a ladder of Converts (every length up to 6) with two or three sibling Converts of different
		// foreign errors at each rung: what one sibling records must not change what another recorded
		cur := rng.Intn(np)
		for d := 0; d < 6; d++ {
			parent := cur
			for k, K := 0, 2+rng.Intn(2); k < K; k++ {
				add(fmt.Sprintf("gei call %d %s f%d %d", parent, methods[17+rng.Intn(2)], rng.Intn(len(sh.fkind)), rng.Intn(4096)))
				if k == 0 {
					cur = len(sh.vkind) - 1
				}
			}
		}
		convForeign, longChain = true, true
		tags["convert-ladder"] = true
	}
	if !domain && rng.Intn(2) == 0 && len(sh.fkind) > 0 {
		add(fmt.Sprintf("gei foreign wrapv %d", rng.Intn(len(sh.vkind))))
		tags["foreign-wrapping-gerror"] = true
	}
	for i := range sh.vkind {
		add(fmt.Sprintf("gei isrow %d", i))
	}
	for k := range sh.fkind {
		add(fmt.Sprintf("gei isfrow %d", k))
	}
	if domain && !tags["foreign-wrapping-gerror-midway"] {
		// the implementation against the SPECIFICATION (specIs / specIsForeign) directly
		for i := range sh.vkind {
			add(fmt.Sprintf("gei specrow %d", i))
		}
	}
	for i := range sh.vkind {
		add(fmt.Sprintf("gei xref %d", i))
	}
	if convForeign {
		tags["convert-foreign"] = true
	}
	if convValue {
		tags["convert-gerror"] = true
	}
	if reconv {
		tags["reconvert"] = true
	}
	for _, nc := range sh.fnoncmp {
		if nc {
			tags["noncomparable-foreign"] = true
		}
	}
	if !domain {
		tags["out-of-domain-stream"] = true
	}
	tl := []string{}
	for t := range tags {
		tl = append(tl, t)
	}
	sortStrings(tl)
	return hx.Case{Lines: lines, Domain: domain, Nontrivial: np >= 2 && longChain && convForeign, Tags: tl}
}

func sortStrings(a []string) {
	for i := 1; i < len(a); i++ {
		for j := i; j > 0 && a[j] < a[j-1]; j-- {
			a[j], a[j-1] = a[j-1], a[j]
		}
	}
}

func runC06(f *hx.Flags) {
	r := hx.NewRunner(f, "h-gerroris", &gimpl{}, "pools of 6-10 factories (FactoryOf base, bare *GError, FactoryOf of 3 generated extension types incl. one with hand-written Convert), 4-8 foreign errors (errors.New, pointer, string/struct values with equal copies, %w-wrapped, slice-/map-/struct-of-slice-based), 34-45 derived errors in chains of length 0-6 over the 19 methods with string arguments from a 16-entry table; then errors.Is for ALL ordered pairs (value|foreign) x (value|foreign|nil) under recover, ExtractFactoryReference of every value, identity of every call result. Small pools (2-4 factories) are added for shrinkability. non-trivial: >=2 factories, a chain of length >=2 and a Convert of a foreign error; distinct by request lines. Out-of-domain stream: bare extension-type factories, foreign errors wrapping gerror errors")
	r.KeyOf = keyOf
	r.ShrinkBudget = 150
	if r.HandleReplay() {
		return
	}
	r.RunCorpus()
	n := r.N(5000)
	if f.Tier == "thorough" {
		n = r.N(100000)
	}
	for i := 0; i < n; i++ {
		domain := r.Rng.Intn(12) != 0
		small := r.Rng.Intn(4) == 0
		r.Add(genCase(r.Rng, i, domain, small))
	}
	r.Finish()
}

// go2lean -spec genumvalues: translation of genum/gen/values.go - `Value.Less`,
// `Values.ValueDeduplicatedSet`, `Values.getPrimary` - the three functions that decide the order of
// an enum's values and which of several names of one value is the primary one (C04, C12).
//
// Fragment: struct values, slices of structs (a `Values` is a `List Value`: the functions only take
// len, index, append and range, so nil and empty are not distinguished; an index out of range is a
// panic = an error of Go.M), `for i := a; i < len(s); i++` with `i` and `s` not assigned in the body,
// if / else-if / else, early return (one or two results), `:=` with several names, uint64 / int64 /
// int / bool / string comparisons, `int64(x)` of a uint64 (two's complement: BitVec.toInt).
package main

import (
	"fmt"
	"go/ast"
	"go/parser"
	"go/token"
	"os"
	"path/filepath"
	"strings"
)

type vt struct {
	fields []cbField
	fkind  map[string]string
	env    []map[string]string
	out    strings.Builder
	ret    []string // kinds of the current function's results
}

func vLeanType(k string) string {
	switch k {
	case "str":
		return "String"
	case "u64":
		return "Go.U64"
	case "i64":
		return "Int"
	case "int":
		return "Nat"
	case "bool":
		return "Bool"
	case "struct":
		return "GValue"
	case "list":
		return "List GValue"
	}
	fail("genumvalues: no Lean type for kind %q", k)
	return ""
}

func (t *vt) line(ind int, s string) { t.out.WriteString(strings.Repeat("  ", ind) + s + "\n") }
func (t *vt) push()                  { t.env = append(t.env, map[string]string{}) }
func (t *vt) pop()                   { t.env = t.env[:len(t.env)-1] }
func (t *vt) bind(n, k string)       { t.env[len(t.env)-1][n] = k }
func (t *vt) lookup(n string) (string, bool) {
	for i := len(t.env) - 1; i >= 0; i-- {
		if k, ok := t.env[i][n]; ok {
			return k, true
		}
	}
	return "", false
}

func (t *vt) kindOfType(e ast.Expr) string {
	switch src(e) {
	case "string":
		return "str"
	case "uint64":
		return "u64"
	case "int64":
		return "i64"
	case "int":
		return "int"
	case "bool":
		return "bool"
	case "Value":
		return "struct"
	case "Values":
		return "list"
	}
	return ""
}

func (t *vt) kindOf(e ast.Expr) string {
	switch x := e.(type) {
	case *ast.ParenExpr:
		return t.kindOf(x.X)
	case *ast.Ident:
		if x.Name == "true" || x.Name == "false" {
			return "bool"
		}
		if k, ok := t.lookup(x.Name); ok {
			return k
		}
	case *ast.BasicLit:
		if x.Kind == token.INT {
			return "int"
		}
	case *ast.SelectorExpr:
		if t.kindOf(x.X) == "struct" {
			if k, ok := t.fkind[x.Sel.Name]; ok {
				return k
			}
		}
	case *ast.IndexExpr:
		if t.kindOf(x.X) == "list" {
			return "struct"
		}
	case *ast.UnaryExpr:
		if x.Op == token.NOT {
			return "bool"
		}
	case *ast.BinaryExpr:
		switch x.Op {
		case token.EQL, token.NEQ, token.LSS, token.GTR, token.LEQ, token.GEQ, token.LAND, token.LOR:
			return "bool"
		case token.ADD, token.SUB:
			return t.kindOf(x.X)
		}
	case *ast.CompositeLit:
		if src(x.Type) == "Values" && len(x.Elts) == 0 {
			return "list"
		}
	case *ast.CallExpr:
		switch src(x.Fun) {
		case "len":
			return "int"
		case "int64":
			return "i64"
		case "make", "append":
			return "list"
		}
	}
	fail("genumvalues: %s: expression `%s` is outside the translated fragment", at(e), src(e))
	return ""
}

func (t *vt) expr(e ast.Expr) string {
	switch x := e.(type) {
	case *ast.ParenExpr:
		return t.expr(x.X)
	case *ast.Ident:
		if x.Name == "true" || x.Name == "false" {
			return x.Name
		}
		if _, ok := t.lookup(x.Name); ok {
			return name(x.Name)
		}
	case *ast.BasicLit:
		if x.Kind == token.INT {
			return x.Value
		}
	case *ast.SelectorExpr:
		if t.kindOf(x.X) == "struct" {
			if _, ok := t.fkind[x.Sel.Name]; ok {
				return t.expr(x.X) + "." + name(x.Sel.Name)
			}
		}
	case *ast.IndexExpr:
		if t.kindOf(x.X) == "list" && t.kindOf(x.Index) == "int" {
			return "(← Go.listGet " + t.expr(x.X) + " " + t.expr(x.Index) + ")"
		}
	case *ast.UnaryExpr:
		if x.Op == token.NOT {
			return "(!" + t.expr(x.X) + ")"
		}
	case *ast.CompositeLit:
		if src(x.Type) == "Values" && len(x.Elts) == 0 {
			return "([] : List GValue)"
		}
	case *ast.BinaryExpr:
		kx, ky := t.kindOf(x.X), t.kindOf(x.Y)
		a, b := t.expr(x.X), t.expr(x.Y)
		if kx != ky {
			fail("genumvalues: %s: `%s` mixes a %s and a %s", at(e), src(e), kx, ky)
		}
		switch x.Op {
		case token.EQL:
			return "(" + a + " == " + b + ")"
		case token.NEQ:
			return "(" + a + " != " + b + ")"
		case token.LSS:
			if kx == "str" || kx == "u64" || kx == "i64" || kx == "int" {
				return "(decide (" + a + " < " + b + "))"
			}
		case token.LAND:
			return "(" + a + " && " + b + ")"
		case token.LOR:
			return "(" + a + " || " + b + ")"
		case token.SUB:
			if kx == "int" {
				return "(" + a + " - " + b + ")" // on Nat: truncated; only used as an index, where -1 and 0-on-empty both panic
			}
		case token.ADD:
			if kx == "int" {
				return "(" + a + " + " + b + ")"
			}
		}
	case *ast.CallExpr:
		switch src(x.Fun) {
		case "len":
			if len(x.Args) == 1 && t.kindOf(x.Args[0]) == "list" {
				return "(List.length " + t.expr(x.Args[0]) + ")"
			}
		case "int64":
			if len(x.Args) == 1 && t.kindOf(x.Args[0]) == "u64" {
				return "(BitVec.toInt " + t.expr(x.Args[0]) + ")"
			}
		case "make":
			if len(x.Args) >= 2 && src(x.Args[0]) == "Values" && src(x.Args[1]) == "0" {
				return "([] : List GValue)" // length 0; the capacity does not matter
			}
		case "append":
			if len(x.Args) == 2 && !x.Ellipsis.IsValid() && t.kindOf(x.Args[0]) == "list" && t.kindOf(x.Args[1]) == "struct" {
				return "(" + t.expr(x.Args[0]) + " ++ [" + t.expr(x.Args[1]) + "])"
			}
		}
	}
	fail("genumvalues: %s: expression `%s` is outside the translated fragment", at(e), src(e))
	return ""
}

func assignsTo(b *ast.BlockStmt, v string) bool {
	found := false
	ast.Inspect(b, func(n ast.Node) bool {
		switch x := n.(type) {
		case *ast.AssignStmt:
			for _, l := range x.Lhs {
				e := l
				if ix, ok := l.(*ast.IndexExpr); ok {
					e = ix.X
				}
				if id, ok := e.(*ast.Ident); ok && id.Name == v {
					found = true
				}
			}
		case *ast.IncDecStmt:
			if id, ok := x.X.(*ast.Ident); ok && id.Name == v {
				found = true
			}
		}
		return true
	})
	return found
}

func (t *vt) block(ind int, b *ast.BlockStmt) {
	t.push()
	if len(b.List) == 0 {
		t.line(ind, "pure ()")
	}
	for _, s := range b.List {
		t.stmt(ind, s)
	}
	t.pop()
}

func (t *vt) ifStmt(ind int, x *ast.IfStmt) {
	if x.Init != nil {
		fail("genumvalues: %s: `if` with an init statement", at(x))
	}
	t.line(ind, "if "+t.expr(x.Cond)+" then")
	t.block(ind+1, x.Body)
	switch e := x.Else.(type) {
	case nil:
	case *ast.BlockStmt:
		t.line(ind, "else")
		t.block(ind+1, e)
	case *ast.IfStmt:
		t.line(ind, "else")
		t.ifStmt(ind+1, e)
	}
}

func (t *vt) stmt(ind int, s ast.Stmt) {
	switch x := s.(type) {
	case *ast.AssignStmt:
		if len(x.Lhs) != len(x.Rhs) {
			fail("genumvalues: %s: `%s`", at(x), src(x))
		}
		if x.Tok == token.DEFINE {
			// right-hand sides first (Go evaluates them before assigning)
			vals := make([]string, len(x.Rhs))
			kinds := make([]string, len(x.Rhs))
			for i, r := range x.Rhs {
				kinds[i] = t.kindOf(r)
				vals[i] = t.expr(r)
			}
			for i, l := range x.Lhs {
				id, ok := l.(*ast.Ident)
				if !ok {
					fail("genumvalues: %s: `%s`", at(x), src(x))
				}
				for j := i + 1; j < len(x.Rhs); j++ {
					if usesIdent(x.Rhs[j], id.Name) {
						fail("genumvalues: %s: `%s` reads a name it also defines", at(x), src(x))
					}
				}
				t.bind(id.Name, kinds[i])
				t.line(ind, "let mut "+name(id.Name)+" : "+vLeanType(kinds[i])+" := "+vals[i])
			}
			return
		}
		if x.Tok != token.ASSIGN || len(x.Lhs) != 1 {
			fail("genumvalues: %s: `%s`", at(x), src(x))
		}
		switch l := x.Lhs[0].(type) {
		case *ast.Ident:
			k, ok := t.lookup(l.Name)
			if !ok || k != t.kindOf(x.Rhs[0]) {
				fail("genumvalues: %s: `%s`", at(x), src(x))
			}
			t.line(ind, name(l.Name)+" := "+t.expr(x.Rhs[0]))
		case *ast.IndexExpr:
			id, ok := l.X.(*ast.Ident)
			if !ok || t.kindOf(l.X) != "list" || t.kindOf(x.Rhs[0]) != "struct" {
				fail("genumvalues: %s: `%s`", at(x), src(x))
			}
			t.line(ind, name(id.Name)+" ← Go.listSet "+name(id.Name)+" "+t.expr(l.Index)+" "+t.expr(x.Rhs[0]))
		default:
			fail("genumvalues: %s: `%s`", at(x), src(x))
		}
	case *ast.IfStmt:
		t.ifStmt(ind, x)
	case *ast.ForStmt:
		// for i := a; i < len(s); i++ { … } with i and s not assigned in the body
		init, ok1 := x.Init.(*ast.AssignStmt)
		cond, ok2 := x.Cond.(*ast.BinaryExpr)
		post, ok3 := x.Post.(*ast.IncDecStmt)
		if !ok1 || !ok2 || !ok3 || init.Tok != token.DEFINE || len(init.Lhs) != 1 || cond.Op != token.LSS || post.Tok != token.INC {
			fail("genumvalues: %s: loop header `%s` is outside the translated fragment", at(x), src(x.Init)+"; "+src(x.Cond)+"; "+src(x.Post))
		}
		iv := init.Lhs[0].(*ast.Ident).Name
		bound, okb := cond.Y.(*ast.CallExpr)
		if src(cond.X) != iv || src(post.X) != iv || !okb || src(bound.Fun) != "len" || len(bound.Args) != 1 {
			fail("genumvalues: %s: loop header is not `i < len(s); i++`", at(x))
		}
		sv, oks := bound.Args[0].(*ast.Ident)
		if !oks || t.kindOf(sv) != "list" || assignsTo(x.Body, iv) || assignsTo(x.Body, sv.Name) {
			fail("genumvalues: %s: the loop body assigns the loop variable or the slice it runs over", at(x))
		}
		if t.kindOf(init.Rhs[0]) != "int" {
			fail("genumvalues: %s: loop start", at(x))
		}
		a := t.expr(init.Rhs[0])
		t.push()
		t.bind(iv, "int")
		t.line(ind, "for "+name(iv)+" in List.range' "+a+" ((List.length "+name(sv.Name)+") - "+a+") do")
		t.block(ind+1, x.Body)
		t.pop()
	case *ast.ReturnStmt:
		if len(x.Results) != len(t.ret) {
			fail("genumvalues: %s: `%s`", at(x), src(x))
		}
		var vs []string
		for i, r := range x.Results {
			if t.kindOf(r) != t.ret[i] {
				fail("genumvalues: %s: result %d of `%s` is a %s", at(x), i, src(x), t.kindOf(r))
			}
			vs = append(vs, t.expr(r))
		}
		if len(vs) == 1 {
			t.line(ind, "return "+vs[0])
		} else {
			t.line(ind, "return ("+strings.Join(vs, ", ")+")")
		}
	default:
		fail("genumvalues: %s: statement `%s` is outside the translated fragment", at(s), src(s))
	}
}

func usesIdent(e ast.Expr, n string) bool {
	u := false
	ast.Inspect(e, func(x ast.Node) bool {
		if id, ok := x.(*ast.Ident); ok && id.Name == n {
			u = true
		}
		return true
	})
	return u
}

func runGenumValues(repo, out string) {
	t := &vt{fkind: map[string]string{}}
	file, err := parser.ParseFile(fset, filepath.Join(repo, "genum/gen/values.go"), nil, 0)
	if err != nil {
		fail("%v", err)
	}
	decls := map[string]*ast.FuncDecl{}
	var skipped []string
	for _, d := range file.Decls {
		switch x := d.(type) {
		case *ast.GenDecl:
			if x.Tok != token.TYPE {
				continue
			}
			for _, sp := range x.Specs {
				ts := sp.(*ast.TypeSpec)
				switch ts.Name.Name {
				case "Values":
					if src(ts.Type) != "[]Value" {
						fail("genumvalues: type Values is `%s`, the translation assumes `[]Value`", src(ts.Type))
					}
				case "Value":
					st, ok := ts.Type.(*ast.StructType)
					if !ok {
						fail("genumvalues: type Value is not a struct")
					}
					for _, f := range st.Fields.List {
						k := t.kindOfType(f.Type)
						for _, n := range f.Names {
							if k == "" || k == "struct" || k == "list" {
								skipped = append(skipped, n.Name+" "+src(f.Type))
								continue // a field the translated functions must not touch
							}
							t.fields = append(t.fields, cbField{n.Name, k})
							t.fkind[n.Name] = k
						}
					}
				}
			}
		case *ast.FuncDecl:
			if x.Recv != nil && len(x.Recv.List) == 1 {
				decls[src(x.Recv.List[0].Type)+"."+x.Name.Name] = x
			}
		}
	}
	if len(t.fields) == 0 {
		fail("genumvalues: struct Value not found")
	}
	var b strings.Builder
	b.WriteString("import Model.GoPrelude\n")
	b.WriteString("/-! REGENERATED on every run by harness/cmd/go2lean -spec genumvalues from genum/gen/values.go. Do not edit.\nEach definition follows the Go method of the same name statement by statement.  `Values` (`[]Value`) is a\n`List GValue`; indexing out of range is a panic (an error of `Go.M`); `int64(x)` of a uint64 is `BitVec.toInt`.\n")
	if len(skipped) > 0 {
		fmt.Fprintf(&b, "Fields of `Value` that are not part of the translation (no translated function reads them): %s. -/\n", strings.Join(skipped, ", "))
	} else {
		b.WriteString("-/\n")
	}
	b.WriteString("namespace Generated.GoGenumValues\n\n/-- `type Value struct` (named GValue here: the struct has a field of its own name) -/\nstructure GValue where\n")
	for _, f := range t.fields {
		fmt.Fprintf(&b, "  %s : %s\n", name(f.name), vLeanType(f.kind))
	}
	b.WriteString("  deriving Inhabited\n\n")
	for _, key := range []string{"Value.Less", "Values.ValueDeduplicatedSet", "Values.getPrimary"} {
		fd := decls[key]
		if fd == nil {
			fail("genumvalues: method %s not found", key)
		}
		t.env = nil
		t.push()
		t.out.Reset()
		r := fd.Recv.List[0]
		if len(r.Names) != 1 {
			fail("genumvalues: %s: receiver without a name", key)
		}
		sig := "def G" + key + " (" + name(r.Names[0].Name) + " : " + vLeanType(t.kindOfType(r.Type)) + ")"
		t.bind(r.Names[0].Name, t.kindOfType(r.Type))
		for _, p := range fd.Type.Params.List {
			k := t.kindOfType(p.Type)
			if k == "" {
				fail("genumvalues: %s: parameter type `%s`", key, src(p.Type))
			}
			for _, n := range p.Names {
				t.bind(n.Name, k)
				sig += " (" + name(n.Name) + " : " + vLeanType(k) + ")"
			}
		}
		t.ret = nil
		var rts []string
		if fd.Type.Results != nil {
			for _, res := range fd.Type.Results.List {
				k := t.kindOfType(res.Type)
				if k == "" || len(res.Names) > 0 {
					fail("genumvalues: %s: result `%s`", key, src(res.Type))
				}
				t.ret = append(t.ret, k)
				rts = append(rts, vLeanType(k))
			}
		}
		if len(t.ret) == 0 {
			fail("genumvalues: %s has no result", key)
		}
		if assignsTo(fd.Body, r.Names[0].Name) {
			fail("genumvalues: %s assigns its receiver", key)
		}
		sig += " : Go.M (" + strings.Join(rts, " × ") + ") := do"
		for _, s := range fd.Body.List {
			t.stmt(1, s)
		}
		if n := len(fd.Body.List); n == 0 || !endsInReturn(fd.Body.List[n-1]) {
			fail("genumvalues: %s can fall off its end", key)
		}
		fmt.Fprintf(&b, "/-- `%s` -/\n%s\n%s\n", src(&ast.FuncDecl{Recv: fd.Recv, Name: fd.Name, Type: fd.Type}), sig, t.out.String())
	}
	b.WriteString("end Generated.GoGenumValues\n")
	if err := os.WriteFile(out, []byte(b.String()), 0o644); err != nil {
		fail("%v", err)
	}
	fmt.Printf("go2lean genumvalues: 3 methods of genum/gen/values.go -> %s\n", out)
}

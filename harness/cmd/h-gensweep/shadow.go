package main

import "fmt"

// Extension structs whose OWN fields are named like the exported fields of the embedded GError
// (Source, Name, Message).  That is legal Go - the own field shadows the promoted one - and the
// generator has to keep reading the embedded GError's fields in the code it writes: with a
// shadowing field of another type an unqualified selector (`e.Source`) does not compile, with an
// embedded struct that has such fields it is ambiguous.  (A field named like one of GError's
// METHODS is not in the domain: it takes the method out of the struct's method set, so the type
// no longer implements gerror.Error whatever the generator writes.)

func init() {
	// a defined string type that renders itself, and a plain struct with fields named like GError's
	gerrTypes["kstr"] = struct{ goType, imp, decl string }{goType: "KStr", decl: "type KStr string\n\nfunc (c KStr) String() string { return \"code(\" + string(c) + \")\" }\n"}
	gerrTypes["meta"] = struct{ goType, imp, decl string }{goType: "Meta", decl: "type Meta struct {\n\tName    string\n\tSource  int\n\tMessage bool\n}\n"}
}

// addGerrorShadow: the fixed shapes (every shadowed name x string / non-string types x print / clone
// / renamed / untagged, an anonymous Meta field - a gerrField without a name - next to them), each
// under one of the three Convert variants; thorough adds random ones.
func (g *gen) addGerrorShadow() {
	variants := [][2]bool{{false, false}, {true, true}, {true, false}}
	shapes := []gerrorCase{
		{fields: []gerrField{{"Source", "status", "pc"}, {"Name", "int", "p"}, {"Message", "bool", "c"}}},
		{fields: []gerrField{{"Source", "string", "pc"}, {"Name", "string", "n:Shown:p"}, {"Message", "string", ""}}},
		{two: true, fields: []gerrField{{"Name", "slice", "c"}, {"Message", "dur", "pc"}, {"Plain", "string", "p"}}},
		{fields: []gerrField{{"", "meta", "pc"}, {"Code", "kstr", "pc"}}},
		{fields: []gerrField{{"Source", "ptr", ""}, {"Message", "kstr", "n:msg:pc"}, {"", "meta", ""}}},
		{fields: []gerrField{{"Source", "f64", "c"}, {"Name", "kstr", "pc"}, {"Message", "int", "p"}}},
	}
	for i := range shapes {
		c := shapes[i]
		c.skip, c.custom = variants[i%3][0], variants[i%3][1]
		g.addGerror(&c, "gerror:shadowing-fields")
	}
	if !g.thorough {
		return
	}
	rng := g.rng()
	types := []string{"int", "string", "bool", "f64", "dur", "status", "ptr", "slice", "kstr"}
	tags := []string{"", "pc", "p", "c", "n:Shown:pc", "n:other:p"}
	names := []string{"Source", "Name", "Message"}
	for i := 0; i < g.r.N(40); i++ {
		c := &gerrorCase{skip: rng.Intn(2) == 0, two: rng.Intn(4) == 0}
		c.custom = c.skip && rng.Intn(2) == 0
		for _, k := range rng.Perm(len(names))[:1+rng.Intn(len(names))] {
			c.fields = append(c.fields, gerrField{name: names[k], typ: types[rng.Intn(len(types))], tag: tags[rng.Intn(len(tags))]})
		}
		for k, n := 0, rng.Intn(3); k < n; k++ {
			c.fields = append(c.fields, gerrField{name: fmt.Sprintf("F%d", k), typ: types[rng.Intn(len(types))], tag: tags[rng.Intn(len(tags))]})
		}
		if rng.Intn(3) == 0 {
			c.fields = append(c.fields, gerrField{name: "", typ: "meta", tag: tags[rng.Intn(4)]})
		}
		g.addGerror(c, "gerror:shadowing-fields")
	}
}

/-!
# Model of `getFromCache` (`gconfig/config.go`)

`Get/MustGet/GetOrDefault[T](cfg, key)` memoize per (key, T).  The model keeps the memo table as
an association list; the memo key is built by `memoKey` (a parameter: the theorems need it
injective; `pairKey` is the current tree's `cacheKey{key, reflect.TypeFor[T]()}`, `concatKey` the
pinned commit's `key + fmt.Sprintf("%T", r)`).

The conversion of the extracted YAML value into `T` (`extractAndConvert`: path walk, yaml
re-marshal/unmarshal) is the parameter `conv : key → type → Option value` — a pure function of
the configuration, which is immutable after loading.  A converted value carries its dynamic type
(`TV.ty`); `nil` is the nil interface a YAML null converts to when `T` is an interface type.
-/
namespace GConfigCache

/-- a converted value: dynamic type and canonical rendering; `nil` = nil interface -/
inductive TV where
  | val (ty : String) (repr : String)
  | nil
  deriving DecidableEq, Repr

/-- outcome of one request -/
inductive Out where
  | ok (v : TV)          -- value returned (for `nil`: the zero value of T)
  | err                  -- error returned (key missing or not convertible); MustGet re-raises it
  | panic                -- a panic other than MustGet's
  deriving DecidableEq, Repr

structure Req where
  key : String
  ty : String
  /-- is `T` an interface type (then any dynamic type can be asserted to it) -/
  iface : Bool := false
  deriving DecidableEq, Repr

abbrev Cache (κ : Type) := List (κ × TV)

def lookup {κ : Type} [DecidableEq κ] (c : Cache κ) (k : κ) : Option TV :=
  (c.find? (fun e => e.1 == k)).map (·.2)

/-- `v.(T)` on a cached value (after the nil check of the current tree) -/
def assertTo (r : Req) : TV → Out
  | .nil => .ok .nil
  | .val ty repr => if r.iface || ty == r.ty then .ok (.val ty repr) else .panic

/-- `v.(T)` at the pinned commit: asserting a nil interface panics -/
def assertToLegacy (r : Req) : TV → Out
  | .nil => .panic
  | .val ty repr => if r.iface || ty == r.ty then .ok (.val ty repr) else .panic

/-- one `getFromCache[T](cfg, key)`: `Compute` on the memo key; errors are not stored -/
def get {κ : Type} [DecidableEq κ] (memoKey : Req → κ) (conv : Req → Option TV) (c : Cache κ) (r : Req) :
    Cache κ × Out :=
  match lookup c (memoKey r) with
  | some v => (c, assertTo r v)
  | none =>
    match conv r with
    | some v => ((memoKey r, v) :: c, assertTo r v)
    | none => (c, .err)

def runReqs {κ : Type} [DecidableEq κ] (memoKey : Req → κ) (conv : Req → Option TV) (c : Cache κ) :
    List Req → Cache κ
  | [] => c
  | r :: rs => runReqs memoKey conv (get memoKey conv c r).1 rs

/-- the current tree's memo key -/
def pairKey (r : Req) : String × String := (r.key, r.ty)

/-- the pinned commit's memo key -/
def concatKey (r : Req) : String := r.key ++ r.ty

/-- which construction the code uses (regenerated from `config.go` by the extractor) -/
inductive KeyKind where
  | pair | concat | typeName
  deriving DecidableEq, Repr

end GConfigCache

package main

import (
	"fmt"
	"strconv"
	"strings"
)

// impl interprets the `gs …` protocol on the real generator and on the code it generated.
type impl struct {
	w   *world
	cur *built
	lay string // layout of the case's package ("" = the plain single-file package of `gso def`)
	pre *Def   // the definition of the last `gso def` (the previous one for a following `gso regen`)
}

func (m *impl) Reset() { m.cur, m.lay, m.pre = nil, "", nil }

func (m *impl) Exec(line string) string {
	ws := strings.Fields(line)
	if len(ws) == 0 {
		return "bad-op"
	}
	switch ws[0] {
	case "case":
		return strings.Join(ws, " ")
	case "echo":
		return strings.Join(ws[1:], " ")
	case "gso":
	default:
		return "bad-op"
	}
	if len(ws) < 2 {
		return "bad-op"
	}
	if ws[1] == "layout" {
		l, ok := parseLayout(strings.Join(ws[2:], " "))
		if !ok {
			return "bad-op"
		}
		m.lay, m.cur, m.pre = l.String(), nil, nil
		return strings.Join(ws[1:], " ")
	}
	if ws[1] == "regen" {
		// the struct's tags are edited to this definition and the generator runs again over its
		// previous output; from here on the case talks to the code of THAT run
		d, err := parseDefLine(line)
		if err != nil {
			m.cur = nil
			return "bad-op"
		}
		lay := m.lay
		if lay == "" {
			lay = defaultLayout
		}
		m.cur = m.w.getHist(lay, m.pre, d)
		m.pre = d
		if m.cur.status != "ok" {
			return m.cur.status
		}
		return strings.Join(append([]string{"ok"}, m.cur.names...), " ")
	}
	if ws[1] == "def" && m.lay != "" {
		d, err := parseDefLine(line)
		if err != nil {
			m.cur, m.pre = nil, nil
			return "bad-op"
		}
		m.cur, m.pre = nil, d // queries before a `regen` are served lazily (see below)
		return m.w.getGen0(m.lay, d).answer()
	}
	if ws[1] == "def" {
		d, err := parseDefLine(line)
		if err != nil {
			m.cur, m.pre = nil, nil
			return "bad-op"
		}
		m.pre = d
		m.cur = m.w.get(d)
		if m.cur.status != "ok" {
			return m.cur.status
		}
		return strings.Join(append([]string{"ok"}, m.cur.names...), " ")
	}
	if len(ws) < 3 {
		return "bad-op"
	}
	op, raw, rest := ws[1], ws[2], ws[3:]
	if m.cur == nil && m.lay != "" && m.pre != nil {
		// a laid-out package that was generated once and not edited
		m.cur = m.w.getHist(m.lay, nil, m.pre)
	}
	if m.cur == nil || m.cur.status != "ok" {
		return "no-sorter"
	}
	chain, ok := m.cur.chains[raw]
	if !ok {
		return "no-sorter"
	}
	key := fmt.Sprintf("%d/%s", m.cur.idx, raw)
	d := m.cur.def
	switch {
	case op == "chain" && len(rest) == 0:
		return chain
	case op == "lessall" && len(rest) == 1:
		return m.cur.probe.ask(key + " lessall " + rest[0])
	case op == "stable" && len(rest) == 1:
		return m.cur.probe.ask(key + " stable " + rest[0])
	case op == "sort" && len(rest) == 1:
		ans := m.cur.probe.ask(key + " sort " + rest[0])
		recs, ok := parseRecs(rest[0])
		if !ok {
			return "bad-op"
		}
		if len(recs) == 0 {
			if ans == "" {
				return "perm:t "
			}
			return ans
		}
		ids, ok := parseInts(ans)
		if !ok {
			return ans
		}
		perm := isPerm(ids, len(recs))
		if !perm {
			return "perm:f"
		}
		idx := d.TaggedIdx(raw)
		proj := make([]string, len(ids))
		for i, id := range ids {
			t := make([]string, len(idx))
			for k, fi := range idx {
				if fi < len(recs[id]) {
					t[k] = strconv.Itoa(recs[id][fi])
				} else {
					t[k] = "0"
				}
			}
			proj[i] = strings.Join(t, ",")
		}
		return "perm:t " + strings.Join(proj, ";")
	case op == "swap" && len(rest) == 3:
		i, e1 := strconv.Atoi(rest[0])
		j, e2 := strconv.Atoi(rest[1])
		n, e3 := strconv.Atoi(rest[2])
		if e1 != nil || e2 != nil || e3 != nil || n < 0 || n > 100000 {
			return "bad-op"
		}
		zero := strings.TrimSuffix(strings.Repeat("0,", len(d.Fields)), ",")
		recs := "-"
		if n > 0 {
			recs = strings.TrimSuffix(strings.Repeat(zero+";", n), ";")
		}
		return m.cur.probe.ask(fmt.Sprintf("%s swap %d %d %s", key, i, j, recs))
	}
	return "bad-op"
}

func parseInts(s string) ([]int, bool) {
	if s == "" {
		return nil, true
	}
	var r []int
	for _, x := range strings.Split(s, ",") {
		n, err := strconv.Atoi(x)
		if err != nil {
			return nil, false
		}
		r = append(r, n)
	}
	return r, true
}

func parseRecs(w string) ([][]int, bool) {
	if w == "-" {
		return nil, true
	}
	var recs [][]int
	for _, r := range strings.Split(w, ";") {
		rec, ok := parseInts(r)
		if !ok {
			return nil, false
		}
		recs = append(recs, rec)
	}
	return recs, true
}

import Generated.GoGSync
import Properties.C01
import Properties.C02
/-!
# C01/C02, tie A: the hand-written transition system IS the derived program

`Generated.GoGSync.cfg` is the control-flow graph of `Add`, `Wait`, `Count` as read from
`gsync/selectable_wait_group.go` on this run (`harness/cmd/go2lean -spec gsync`).
`GSyncCfg.stepCfgL` (Model/GSyncCfg.lean) is the generic small-step meaning of such a graph.
This file proves, for ALL states and thread ids, that the hand-written `GSync.stepL true` (about
which C01 and C02 are proved) is exactly that meaning — up to the explicit correspondence `corr`
between the graph's nodes and the model's program-counter constructors — and restates the headline
theorems of C01/C02 for runs of the derived program.

What the correspondence may and may not hide.  `dec pc` binds exactly the locals the constructor
`pc` carries and leaves every other local UNBOUND; the interpreter fails (`none`) on reading an
unbound local, and the obligation demands `some …`.  So the model forgetting a local at some
program counter (e.g. `delta` once the counter update is done) is sound only as long as the code
does not read it from there on — if an edit makes it read one, the obligation breaks.  `enc` is
the inverse of `dec` (`enc_dec`) and `none` on every node that is not the pending operation of a
model program counter, so a new visible operation cannot be absorbed either.
-/
namespace C01Tie
open GSync GSyncCfg Generated.GoGSync

/-! ## the correspondence: model program counter ↔ (node of the derived graph, bound locals)

Locals (numbered by the extractor in binding order): Add `0 delta, 1 newV, 2 oldChan, 3 newChan,
4 (result of CompareAndSwap)`; Wait `0 count, 1 wgChan`; Count `0 (result of Load)`.
`aCAS` stands in front of the thread-local `make` (node 9) that the same step performs. -/

def dec : PC → Option (Nat × Env)
  | .idle => none
  | .aLock d => some (0, Env.empty.set 0 (.int d))
  | .aAdd d => some (1, Env.empty.set 0 (.int d))
  | .aSwap v => some (3, Env.empty.set 1 (.int v))
  | .aCloseOld v ch => some (7, (Env.empty.set 1 (.int v)).set 2 (.chan ch))
  | .aCAS v => some (9, Env.empty.set 1 (.int v))
  | .aCloseNew v ch => some (12, (Env.empty.set 1 (.int v)).set 3 (.chan ch))
  | .aUnlock v => some (5, Env.empty.set 1 (.int v))
  | .wCount => some (13, Env.empty)
  | .wChan c => some (14, Env.empty.set 0 (.int c))
  | .cLoad => some (17, Env.empty)

def enc (nd : Nat) (env : Env) : Option PC :=
  match nd with
  | 0 => (env.int 0).map .aLock
  | 1 => (env.int 0).map .aAdd
  | 3 => (env.int 1).map .aSwap
  | 7 => match env.int 1, env.chan 2 with
    | some v, some ch => some (.aCloseOld v ch)
    | _, _ => none
  | 9 => (env.int 1).map .aCAS
  | 12 => match env.int 1, env.chan 3 with
    | some v, some ch => some (.aCloseNew v ch)
    | _, _ => none
  | 5 => (env.int 1).map .aUnlock
  | 13 => some .wCount
  | 14 => (env.int 0).map .wChan
  | 17 => some .cLoad
  | _ => none

def corr : Corr := ⟨dec, enc⟩

/-- the correspondence is one: decoding a program counter and encoding it again gives it back -/
theorem enc_dec (pc : PC) (nd : Nat) (env : Env) (h : dec pc = some (nd, env)) : enc nd env = some pc := by
  cases pc <;> simp [dec] at h <;> obtain ⟨rfl, rfl⟩ := h <;> simp [enc, Env.int, Env.chan, Env.set]

/-! ## the obligation -/

macro "cfg_simp" : tactic => `(tactic|
  simp [corr, dec, enc, cfg, node, Cfg.fuel, execOp, runLocal, enterT, Env.int, Env.chan, Env.bool, Env.set,
    IExp.eval, PExp.eval, Cond.eval, finishAdd, enter, *])

theorem tstep_aLock (sh : Shared) (i : Nat) (t : Thread) (d : Int) (hp : t.pc = .aLock d) :
    tstepCfg cfg corr sh i t = some (tstep true sh i t) := by
  simp only [tstepCfg, tstep, hp]
  cases hl : sh.lock <;> cfg_simp

theorem tstep_aAdd (sh : Shared) (i : Nat) (t : Thread) (d : Int) (hp : t.pc = .aAdd d) :
    tstepCfg cfg corr sh i t = some (tstep true sh i t) := by
  simp only [tstepCfg, tstep, hp]
  by_cases h1 : sh.count + d = 0
  · cfg_simp
  · by_cases h2 : 0 < d ∧ sh.count + d = d
    · have hd : ¬ d = 0 := by omega
      cfg_simp
    · cfg_simp

theorem tstep_aSwap (sh : Shared) (i : Nat) (t : Thread) (v : Int) (hp : t.pc = .aSwap v) :
    tstepCfg cfg corr sh i t = some (tstep true sh i t) := by
  simp only [tstepCfg, tstep, hp]
  by_cases h1 : sh.wchan = 0 <;> cfg_simp

theorem tstep_aCloseOld (sh : Shared) (i : Nat) (t : Thread) (v : Int) (ch : Nat) (hp : t.pc = .aCloseOld v ch) :
    tstepCfg cfg corr sh i t = some (tstep true sh i t) := by
  simp only [tstepCfg, tstep, hp]
  cfg_simp

theorem tstep_aCAS (sh : Shared) (i : Nat) (t : Thread) (v : Int) (hp : t.pc = .aCAS v) :
    tstepCfg cfg corr sh i t = some (tstep true sh i t) := by
  simp only [tstepCfg, tstep, hp]
  by_cases h1 : sh.wchan = 0 <;> cfg_simp

theorem tstep_aCloseNew (sh : Shared) (i : Nat) (t : Thread) (v : Int) (ch : Nat) (hp : t.pc = .aCloseNew v ch) :
    tstepCfg cfg corr sh i t = some (tstep true sh i t) := by
  simp only [tstepCfg, tstep, hp]
  cfg_simp

theorem tstep_aUnlock (sh : Shared) (i : Nat) (t : Thread) (v : Int) (hp : t.pc = .aUnlock v) :
    tstepCfg cfg corr sh i t = some (tstep true sh i t) := by
  simp only [tstepCfg, tstep, hp]
  cases hq : t.prog with
  | nil => cfg_simp
  | cons c p => cases c <;> cfg_simp

theorem tstep_wCount (sh : Shared) (i : Nat) (t : Thread) (hp : t.pc = .wCount) :
    tstepCfg cfg corr sh i t = some (tstep true sh i t) := by
  simp only [tstepCfg, tstep, hp]
  cfg_simp

theorem tstep_wChan (sh : Shared) (i : Nat) (t : Thread) (c : Int) (hp : t.pc = .wChan c) :
    tstepCfg cfg corr sh i t = some (tstep true sh i t) := by
  simp only [tstepCfg, tstep, hp]
  by_cases h1 : c = 0 ∨ (0 < c ∧ sh.wchan ≠ 0)
  · cases hq : t.prog with
    | nil => cfg_simp
    | cons c p => cases c <;> cfg_simp
  · cfg_simp

theorem tstep_cLoad (sh : Shared) (i : Nat) (t : Thread) (hp : t.pc = .cLoad) :
    tstepCfg cfg corr sh i t = some (tstep true sh i t) := by
  simp only [tstepCfg, tstep, hp]
  cases hq : t.prog with
  | nil => cfg_simp
  | cons c p => cases c <;> cfg_simp

/-- **The obligation.**  One visible operation of a thread, as the derived program performs it, is
the hand-written `tstep` (shared state, thread, label class), for every state. -/
theorem tstep_eq (sh : Shared) (i : Nat) (t : Thread) :
    tstepCfg cfg corr sh i t = some (tstep true sh i t) := by
  cases hp : t.pc with
  | idle => simp [tstepCfg, tstep, hp]
  | aLock d => exact tstep_aLock sh i t d hp
  | aAdd d => exact tstep_aAdd sh i t d hp
  | aSwap v => exact tstep_aSwap sh i t v hp
  | aCloseOld v ch => exact tstep_aCloseOld sh i t v ch hp
  | aCAS v => exact tstep_aCAS sh i t v hp
  | aCloseNew v ch => exact tstep_aCloseNew sh i t v ch hp
  | aUnlock v => exact tstep_aUnlock sh i t v hp
  | wCount => exact tstep_wCount sh i t hp
  | wChan c => exact tstep_wChan sh i t c hp
  | cLoad => exact tstep_cLoad sh i t hp

/-- the labelled step function of the model IS the meaning of the derived program -/
theorem go_stepL_eq (s : St) (i : Nat) : stepCfgL cfg corr s i = some (stepL true s i) := by
  unfold stepCfgL stepL
  cases ht : s.threads[i]? with
  | none => rfl
  | some t => simp [tstep_eq]

theorem go_step_eq (s : St) (i : Nat) : stepCfg cfg corr s i = some (step true s i) := by
  simp [stepCfg, step, go_stepL_eq]

/-- … hence so is every run, of any length -/
theorem go_run_eq (s : St) (sched : List Nat) : runCfg cfg corr s sched = some (run true s sched) := by
  induction sched generalizing s with
  | nil => rfl
  | cons i rest ih => simp [runCfg, go_step_eq, ih, run]

theorem go_initThread_eq (p : List Call) : initThread cfg corr p = some (enter true 0 { prog := p }) := by
  unfold initThread
  cases p with
  | nil => cfg_simp
  | cons c p => cases c <;> cfg_simp

/-- … and the initial state -/
theorem go_init_eq (progs : List (List Call)) : initCfg cfg corr progs = some (init true progs) := by
  have h : progs.mapM (initThread cfg corr) = some (progs.map (fun p => enter true 0 { prog := p })) := by
    induction progs with
    | nil => rfl
    | cons p ps ih => simp [List.mapM_cons, go_initThread_eq, ih]
  simp [initCfg, init, h]

/-- `Inc` / `Dec` are `Add(1)` / `Add(-1)` (what the client programs of the correspondence assume) -/
theorem go_inc_dec : incDelta = 1 ∧ decDelta = -1 := by decide

/-! ## C01 / C02 for runs of the derived program

`GoReach progs sched s`: `s` is the state the program derived from the Go source reaches from the
start of the client program `progs` under the schedule `sched`. -/

def GoReach (progs : List (List Call)) (sched : List Nat) (s : St) : Prop :=
  ∃ s0, initCfg cfg corr progs = some s0 ∧ runCfg cfg corr s0 sched = some s

/-- the callers never drive the count negative along the run of the derived program -/
def GoNonNeg (progs : List (List Call)) (sched : List Nat) : Prop :=
  ∀ pre, pre <+: sched → ∀ s, GoReach progs pre s → 0 ≤ s.sh.count

theorem goReach_iff (progs : List (List Call)) (sched : List Nat) (s : St) :
    GoReach progs sched s ↔ s = run true (init true progs) sched := by
  constructor
  · rintro ⟨s0, h0, hr⟩
    rw [go_init_eq] at h0
    cases h0
    rw [go_run_eq] at hr
    cases hr
    rfl
  · rintro rfl
    exact ⟨_, go_init_eq progs, go_run_eq _ _⟩

/-- the derived program never gets stuck: every program and schedule has its state -/
theorem goReach_total (progs : List (List Call)) (sched : List Nat) : ∃ s, GoReach progs sched s :=
  ⟨_, (goReach_iff progs sched _).2 rfl⟩

theorem goNonNeg_iff (progs : List (List Call)) (sched : List Nat) :
    GoNonNeg progs sched ↔ NonNeg true (init true progs) sched := by
  constructor
  · intro h pre hpre
    exact h pre hpre _ ((goReach_iff progs pre _).2 rfl)
  · intro h pre hpre s hs
    rw [(goReach_iff progs pre s).1 hs]
    exact h pre hpre

/-- C01 for the derived program. -/
theorem go_wait_chan_closed_imp_zeroSeen (progs : List (List Call)) (sched : List Nat) (s : St)
    (hs : GoReach progs sched s) (hnn : GoNonNeg progs sched) :
    ∀ t ∈ s.threads, ∀ r ∈ t.recs, isClosed s.sh r.ch = true → zeroSeen s.sh r = true := by
  rw [(goReach_iff progs sched s).1 hs]
  exact wait_chan_closed_imp_zeroSeen progs sched ((goNonNeg_iff progs sched).1 hnn)

/-- C01 for the derived program and self-balanced clients, no semantic hypothesis left. -/
theorem go_wait_chan_closed_imp_zeroSeen_selfBalanced (progs : List (List Call)) (hb : SelfBalanced progs)
    (sched : List Nat) (s : St) (hs : GoReach progs sched s) :
    ∀ t ∈ s.threads, ∀ r ∈ t.recs, isClosed s.sh r.ch = true → zeroSeen s.sh r = true := by
  rw [(goReach_iff progs sched s).1 hs]
  exact wait_chan_closed_imp_zeroSeen_selfBalanced progs hb sched

/-- C02 (count at rest) for the derived program. -/
theorem go_quiescent_count (progs : List (List Call)) (sched : List Nat) (s : St)
    (hs : GoReach progs sched s) (hq : quiescent s = true) : s.sh.count = begunSum s.threads := by
  rw [(goReach_iff progs sched s).1 hs] at hq ⊢
  exact quiescent_count progs sched hq

/-- C02 (released at zero) for the derived program. -/
theorem go_quiescent_zero_all_closed (progs : List (List Call)) (sched : List Nat) (s : St)
    (hs : GoReach progs sched s) (hnn : GoNonNeg progs sched) (hq : quiescent s = true) (h0 : s.sh.count = 0) :
    ∀ t ∈ s.threads, ∀ r ∈ t.recs, isClosed s.sh r.ch = true := by
  rw [(goReach_iff progs sched s).1 hs] at hq h0 ⊢
  exact quiescent_zero_all_closed progs sched ((goNonNeg_iff progs sched).1 hnn) hq h0

/-- C02 (open while positive) for the derived program. -/
theorem go_quiescent_pos_fresh_wait_open (progs : List (List Call)) (sched : List Nat) (s : St)
    (hs : GoReach progs sched s) (hnn : GoNonNeg progs sched) (hq : quiescent s = true) (hpos : 0 < s.sh.count) :
    s.sh.wchan ≠ 0 ∧ isClosed s.sh s.sh.wchan = false := by
  rw [(goReach_iff progs sched s).1 hs] at hq hpos ⊢
  exact quiescent_pos_fresh_wait_open progs sched ((goNonNeg_iff progs sched).1 hnn) hq hpos

/-- `NoAddSteps` for the derived program: along `more`, no thread takes a step inside `Add` -/
def GoNoAddSteps (s : St) : List Nat → Prop
  | [] => True
  | a :: rest => (∀ u, s.threads[a]? = some u → inAdd u.pc = false) ∧
      ∀ s', stepCfg cfg corr s a = some s' → GoNoAddSteps s' rest

theorem goNoAddSteps_iff (s : St) (more : List Nat) : GoNoAddSteps s more ↔ NoAddSteps s more := by
  induction more generalizing s with
  | nil => simp [GoNoAddSteps, NoAddSteps]
  | cons a rest ih => simp [GoNoAddSteps, NoAddSteps, go_step_eq, ih]

/-- C02 (Wait never blocks) for the derived program: at rest, a Wait about to start has returned
after two of its own steps, whatever the other goroutines do, as long as no Add takes a step. -/
theorem go_wait_returns_in_two_steps (progs : List (List Call)) (sched : List Nat) (s : St)
    (hs : GoReach progs sched s) (hnn : GoNonNeg progs sched) (hq : quiescent s = true)
    (i : Nat) (t : Thread) (ht : s.threads[i]? = some t) (hpc : t.pc = .wCount) (more : List Nat)
    (hno : GoNoAddSteps s more) (h2 : 2 ≤ more.count i) :
    ∃ s' t', runCfg cfg corr s more = some s' ∧ s'.threads[i]? = some t' ∧ t.recs.length < t'.recs.length := by
  rw [(goReach_iff progs sched s).1 hs] at hq ht hno ⊢
  obtain ⟨t', h1, h3⟩ := wait_returns_in_two_steps progs sched ((goNonNeg_iff progs sched).1 hnn) hq i t ht hpc
    more ((goNoAddSteps_iff _ _).1 hno) h2
  exact ⟨_, t', go_run_eq _ _, h1, h3⟩

/-- non-vacuity: the derived program, run on the example of C01, reaches the state with count 2 and
one waiter holding the open channel 1 -/
example :
    ∃ s, GoReach [[.add 1, .add (-1)], [.wait, .add 1, .add 2, .wait]] [0, 0, 0, 0, 1, 1, 1, 1, 1] s ∧
      s.sh.count = 2 ∧ s.sh.wchan = 1 := by
  refine ⟨_, (goReach_iff _ _ _).2 rfl, ?_⟩
  decide

end C01Tie

import Model.Genum
import Lemmas.Genum
import Properties.C05
/-!
# C12 — genum: trait accessors and parse-by-trait agree with the declaration

About `genFull` and the accessor / `Parse` switch / decoder models of `Model/Genum.lean` part 2
(current tree; the pinned algorithms are the `Quirks`).
-/
namespace Genum.C12
open Genum

variable {f : FileDef} {t : TypeDecl}

/-! ## accessors -/

/-- the accessor switch of a trait whose rows have pairwise distinct owners returns, for the owner
of a row, the constant of that row … -/
theorem accessor_of_row (td : TraitDesc) (hn : (td.rows.map (·.owner.val)).Nodup) (r : TraitRow) (hr : r ∈ td.rows) :
    td.get r.owner.val = r.dyn := by
  unfold TraitDesc.get
  have : td.rows.find? (fun x => x.owner.val == r.owner.val) = some r := by
    generalize td.rows = l at *
    induction l with
    | nil => cases hr
    | cons x xs ih =>
      rw [List.map_cons, List.nodup_cons] at hn
      rw [List.find?_cons]
      rcases List.mem_cons.mp hr with rfl | hr'
      · simp
      · have : (x.owner.val == r.owner.val) = false := by
          rw [beq_eq_false_iff_ne]
          intro e
          exact hn.1 (e ▸ List.mem_map.mpr ⟨r, hr', rfl⟩)
        rw [this]; exact ih hn.2 hr'
  rw [this]

/-- … and the zero value of the trait type for every value that owns no row (undefined values
in particular). -/
theorem accessor_zero (td : TraitDesc) (e : Int) (h : ∀ r ∈ td.rows, r.owner.val ≠ e) :
    td.get e = zeroOf td.ty td.fam (td.rows.head?.map (·.dyn.v)) := by
  unfold TraitDesc.get
  have : td.rows.find? (fun x => x.owner.val == e) = none := by
    rw [List.find?_eq_none]
    intro r hr hp
    exact h r hr (by simpa using hp)
  rw [this]

/-- every definition `genFull` accepts has at most one row per value in every trait (the
generated accessor switch compiles) -/
theorem rows_unique (o : Options) (g : GenFull) (h : genFull o f t = .ok g) :
    ∀ td ∈ g.traits, (td.rows.map (·.owner.val)).Nodup := by
  obtain ⟨_, _, hd⟩ := C05.genFull_shape o g h
  unfold hasDupCase at hd
  simp only [Bool.or_eq_false_iff] at hd
  intro td htd
  have := hd.1.2
  rw [List.any_eq_false] at this
  have := this td htd
  simpa using this

/-- `accessor_returns_declared`, generator side: for every accepted definition, every trait and
every row the generator kept (the rows of primary definitions, see `keepRow`), the accessor
returns that row's constant on the row's value. -/
theorem accessor_returns_row (o : Options) (g : GenFull) (h : genFull o f t = .ok g)
    (td : TraitDesc) (htd : td ∈ g.traits) (r : TraitRow) (hr : r ∈ td.rows) :
    td.get r.owner.val = r.dyn :=
  accessor_of_row td (rows_unique o g h td htd) r hr

/- FULL STATEMENT (accessor_returns_declared):
     genFull o f t = .ok g → Accepted f t.name k → DeclaredTrait f t j e d →
       ∃ td ∈ g.traits, td.name = (t.cols[j]).name ∧ td.get e = d
   Proved: `accessor_returns_row` + `accessor_zero` (the switch returns exactly its rows, zero
   elsewhere) for all definitions. Missing: that the rows `genTraits` keeps are exactly the trait
   constants of the PRIMARY definition lines (`rowsOf` ∘ `keepRow` against `IsPrimary`), which needs
   `getPrimaryLoop` = `dedupLoop`'s choice on a sorted group. The correspondence run compares the
   accessors with the declaration on every generated definition (exhaustively on 8-bit kinds). -/

/-! ## Parse by trait -/

/-- `Parse<T>` of any constant of the generated switch — a constant name or a constant of a
parsable trait, typed as declared — returns the value of the case that holds it. -/
theorem parse_by_trait (o : Options) (g : GenFull) (h : genFull o f t = .ok g)
    (c : ParseCase) (hc : c ∈ g.base.cases) (d : Dyn) (hd : d ∈ c.consts) :
    g.base.parse d = some c.target.val := by
  obtain ⟨_, _, hdup⟩ := C05.genFull_shape o g h
  unfold hasDupCase at hdup
  simp only [Bool.or_eq_false_iff] at hdup
  have hn : (g.base.cases.flatMap (·.consts)).Nodup := by simpa using hdup.1.1
  exact C05.parse_of_case g.base hn c hc d hd

/-- decoding a scalar that holds an UNTYPED-string trait constant (or a name): all three decoders
return what `Parse<T>` returns for the string. -/
theorem decode_by_trait_string_partial (g : GenFull) (s : String) (v : Int)
    (h : g.base.parse (Dyn.ofString s) = some v) :
    g.unmarshalJSON {} (.str s) = some v ∧ g.unmarshalText s = some v ∧ g.unmarshalYAML {} s = some v := by
  have hs : stringTry g s = some v := by unfold stringTry; rw [h]
  refine ⟨hs, hs, ?_⟩
  unfold GenFull.unmarshalYAML; rw [hs]

/- FULL STATEMENT (decode_by_trait_json / _yaml / _text): for every parsable trait of a family
   the template has a branch for (named string, signed/unsigned integer of any width) and every
   row constant `c` of value `e`, whose number/string is no other switch constant:
     g.unmarshalJSON {} (doc c) = some e ∧ g.unmarshalYAML {} (text c) = some e (∧ text for strings)
   Proved: the untyped-string family (`decode_by_trait_string_partial`, with `parse_by_trait`).
   Missing: the `firstSome` search over the family lists (a positive lemma "the first candidate
   that parses wins and the earlier ones fail" under the pairwise-distinct hypothesis) and
   `wrapTo … x = x` for in-range constants. Families WITHOUT a template branch (bool, untyped rune)
   make the full statement false on the code: known findings C12:decode:bool-trait /
   C12:decode:rune-trait. The correspondence run checks every family against the property. -/

/-! ## the pinned algorithms -/

private def errOf {α : Type} : Except GenFailure α → Option GenFailure
  | .error e => some e
  | .ok _ => none

/-- value 1 has a deprecated alias that carries trait columns of its own -/
def dupWithCols : FileDef :=
  ⟨[{ name := "E", kind := ⟨64, true⟩, cols := [⟨"Num", "int", .sint 64⟩] }],
   [{ name := "B0", ty := "E", val := 0, deprecated := false, tvals := [.int 0] },
    { name := "B1", ty := "E", val := 1, deprecated := false, tvals := [.int 10] },
    { name := "B1Old", ty := "E", val := 1, deprecated := true, tvals := [.int 11] }]⟩

/-- value 1 has a deprecated alias without trait columns -/
def dupNoCols : FileDef :=
  ⟨[{ name := "E", kind := ⟨64, true⟩, cols := [⟨"Num", "int", .sint 64⟩] }],
   [{ name := "B0", ty := "E", val := 0, deprecated := false, tvals := [.int 0] },
    { name := "B1", ty := "E", val := 1, deprecated := false, tvals := [.int 10] },
    { name := "B1Old", ty := "E", val := 1, deprecated := true },
    { name := "B2", ty := "E", val := 2, deprecated := false, tvals := [.int 20] }]⟩

def dupType : TypeDecl := { name := "E", kind := ⟨64, true⟩, cols := [⟨"Num", "int", .sint 64⟩] }

/-- pinned `processDuplicates`: the row of a deprecated alias survives when the group is "safe", the
accessor switch gets two cases for one value and does not compile; pinned `Parse` template: rows
are taken by position, a value without a row shifts them until `index` runs out of range. The
current algorithms accept both definitions and keep the primary definition's constant. -/
theorem legacy_duplicates_violate :
    errOf (genFullQ { dropRowsOnlyUnsafe := true } {} dupWithCols dupType) = some .dupCase ∧
    errOf (genFullQ { parseRowsByIndex := true } { parsable := ["Num"] } dupNoCols dupType) = some .templateIndex ∧
    (genFull {} dupWithCols dupType).toOption.map (fun g => g.traits.map (fun td => (td.get 1, td.get 7)))
      = some [(⟨"int", .int 10⟩, ⟨"int", .int 0⟩)] ∧
    (genFull { parsable := ["Num"] } dupNoCols dupType).toOption.map (fun g =>
      (g.base.parse ⟨"int", .int 20⟩, g.base.parse (Dyn.ofString "B1Old"), g.unmarshalYAML {} "10"))
      = some (some 2, some 1, some 1) := by decide

/-! ## non-vacuity -/

example : (genFull { parsable := ["Num"] } C05.witness C05.witnessType).toOption.map (fun g =>
    (g.traits.map (fun td => (td.name, td.get 1, td.get 5)), g.base.parse ⟨"int", .int 10⟩, g.base.parse ⟨"int64", .int 10⟩))
    = some ([("Num", ⟨"int", .int 10⟩, ⟨"int", .int 0⟩)], some 1, none) := by decide

end Genum.C12

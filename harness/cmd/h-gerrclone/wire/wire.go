// Package wire is the part of the gerror line protocol shared by the harness and by the probe
// program that the C09 check generates next to the generated extension types.
package wire

import (
	"encoding/hex"
	"errors"
	"fmt"
	"strconv"
	"strings"

	"github.com/drshriveer/gtools/gerror"
	"verif/harness/cmd/h-gerrclone/sites"
)

// ---- wire encoding -------------------------------------------------------------------------

func Enc(s string) string {
	if s == "" {
		return "-"
	}
	return hex.EncodeToString([]byte(s))
}

func Dec(w string) (string, bool) {
	if w == "-" {
		return "", true
	}
	b, err := hex.DecodeString(w)
	if err != nil {
		return "", false
	}
	return string(b), true
}

func EncFrames(fr []string) string {
	var parts []string
	for i := 0; i < len(fr); {
		j := i
		for j < len(fr) && fr[j] == fr[i] {
			j++
		}
		if j-i > 1 {
			parts = append(parts, Enc(fr[i])+"*"+strconv.Itoa(j-i))
		} else {
			parts = append(parts, Enc(fr[i]))
		}
		i = j
	}
	return strings.Join(parts, ",")
}

// elems of a Sprintf call / the error handed to Convert, as a protocol word (ignored by the model)
type ElemSpec struct {
	Kind string // i s f n e l | conv: new wrap nil custom ptr
	Val  string
}

type CustomErr struct{ msg string }

func (c CustomErr) Error() string { return c.msg }

type PtrErr struct{ msg string }

func (c *PtrErr) Error() string { return c.msg }

func EncElems(es []ElemSpec) string {
	if len(es) == 0 {
		return "E:"
	}
	p := make([]string, len(es))
	for i, e := range es {
		p[i] = e.Kind + Enc(e.Val)
	}
	return "E:" + strings.Join(p, ",")
}

func DecElems(w string) ([]ElemSpec, bool) {
	if !strings.HasPrefix(w, "E:") {
		return nil, false
	}
	w = w[2:]
	if w == "" {
		return nil, true
	}
	var out []ElemSpec
	for _, p := range strings.Split(w, ",") {
		if len(p) < 2 {
			return nil, false
		}
		v, ok := Dec(p[1:])
		if !ok {
			return nil, false
		}
		out = append(out, ElemSpec{Kind: p[:1], Val: v})
	}
	return out, true
}

func (e ElemSpec) Value() any {
	switch e.Kind {
	case "i":
		n, _ := strconv.Atoi(e.Val)
		return n
	case "s":
		return e.Val
	case "f":
		f, _ := strconv.ParseFloat(e.Val, 64)
		return f
	case "n":
		return nil
	case "e":
		return errors.New(e.Val)
	case "l":
		return []string{e.Val, "z"}
	}
	return nil
}

// the error handed to Convert/ConvertS
func (e ElemSpec) ErrValue() error {
	switch e.Kind {
	case "N":
		return errors.New(e.Val)
	case "W":
		return fmt.Errorf("wrapped: %w", errors.New(e.Val))
	case "Z":
		return nil
	case "C":
		return CustomErr{e.Val}
	case "P":
		return &PtrErr{e.Val}
	}
	return nil
}

// ---- implementation side -------------------------------------------------------------------

// positional string parameters of each method (the part of the wiring the harness needs to
// *call* the method; what the method then does with them is what is being checked)
var ParamRoles = map[string][]string{
	"Base": {}, "SourceOnly": {}, "Stack": {},
	"Src": {"src"}, "DTag": {"dtag"}, "Msg": {"fmt"},
	"SrcDTagMsg": {"src", "dtag", "fmt"}, "SrcDTag": {"src", "dtag"}, "SrcMsg": {"src", "fmt"}, "DTagMsg": {"dtag", "fmt"},
	"SrcS": {"src"}, "DTagS": {"dtag"}, "MsgS": {"fmt"},
	"SrcDTagMsgS": {"src", "dtag", "fmt"}, "SrcDTagS": {"src", "dtag"}, "SrcMsgS": {"src", "fmt"}, "DTagMsgS": {"dtag", "fmt"},
	"Convert": {}, "ConvertS": {},
	// not Factory methods: the helper gerror.ExtMsgf on a gerror value / on a foreign error
	"ExtMsgf": {"fmt"}, "ExtMsgfForeign": {"fmt"},
}

var MethodNames = []string{"Base", "SourceOnly", "Stack", "Src", "DTag", "Msg", "SrcDTagMsg", "SrcDTag", "SrcMsg", "DTagMsg",
	"SrcS", "DTagS", "MsgS", "SrcDTagMsgS", "SrcDTagS", "SrcMsgS", "DTagMsgS", "Convert", "ConvertS"}

func HasRole(m, role string) bool {
	for _, r := range ParamRoles[m] {
		if r == role {
			return true
		}
	}
	return false
}

// ObsOf renders the observables of an error value.
func ObsOf(e gerror.Error) string {
	if e == nil {
		return "nil"
	}
	return fmt.Sprintf("n=%s m=%s s=%s d=%s k=%d", Enc(e.ErrName()), Enc(e.ErrMessage()), Enc(e.ErrSource()), Enc(e.ErrDetailTag()), len(e.ErrStack()))
}

// ParseCall decodes the argument words `<Method> <site> F:<s> P:<s>,.. S:<frames> E:<elems>` of a
// call line into the Go call to make; it re-applies fmt itself and refuses (non-empty problem) when
// the F: word is not what fmt produces for these operands.
func ParseCall(ws []string) (c *sites.Call, site, frames, problem string) {
	return ParseCallR(ws, nil)
}

// WrapKinds are the Convert* inputs that are foreign errors WRAPPING the gerror value held in a
// register: w/v = fmt.Errorf("ctx: %w", value), j/k = errors.Join(errors.New("x"), value); the
// caller's resolver says which value a (kind, register) pair denotes.
const WrapKinds = "wjvk"

// Wrap builds the wrapping error for a WrapKinds kind.
func Wrap(kind string, inner error) error {
	if kind == "w" || kind == "v" {
		return fmt.Errorf("ctx: %w", inner)
	}
	return errors.Join(errors.New("x"), inner)
}

// ParseCallR is ParseCall with a resolver for register-valued Convert* inputs.
func ParseCallR(ws []string, resolve func(kind string, reg int) (error, bool)) (c *sites.Call, site, frames, problem string) {
	if len(ws) != 6 {
		return nil, "", "", "bad-op"
	}
	m := ws[0]
	site = ws[1]
	roles, known := ParamRoles[m]
	if !known || !strings.HasPrefix(ws[2], "F:") || !strings.HasPrefix(ws[3], "P:") || !strings.HasPrefix(ws[4], "S:") {
		return nil, "", "", "bad-op"
	}
	formatted, ok := Dec(ws[2][2:])
	if !ok {
		return nil, "", "", "bad-op"
	}
	var params []string
	if p := ws[3][2:]; p != "" {
		for _, w := range strings.Split(p, ",") {
			v, ok := Dec(w)
			if !ok {
				return nil, "", "", "bad-op"
			}
			params = append(params, v)
		}
	}
	if len(params) != len(roles) {
		return nil, "", "", "bad-op"
	}
	elems, ok := DecElems(ws[5])
	if !ok {
		return nil, "", "", "bad-op"
	}
	c = &sites.Call{Method: m}
	for i, role := range roles {
		switch role {
		case "src":
			c.Src = params[i]
		case "dtag":
			c.DTag = params[i]
		case "fmt":
			c.Format = params[i]
		}
	}
	switch {
	case m == "ExtMsgfForeign":
		// first element: the foreign error; the rest: operands of the (dropped) format
		if len(elems) < 1 {
			return nil, "", "", "bad-op"
		}
		c.Err = elems[0].ErrValue()
		if _, isG := c.Err.(gerror.Error); isG {
			return nil, "", "", "bad-op"
		}
		for _, e := range elems[1:] {
			c.Elems = append(c.Elems, e.Value())
		}
		if fmt.Sprintf("%+v", c.Err) != formatted {
			return nil, "", "", "fmt-mismatch"
		}
	case m == "Convert" || m == "ConvertS":
		if len(elems) != 1 {
			return nil, "", "", "bad-op"
		}
		if k := elems[0].Kind; strings.Contains(WrapKinds, k) {
			// the text of a wrapped value is the model's to predict: no F: check here
			reg, err := strconv.Atoi(elems[0].Val)
			if err != nil || resolve == nil {
				return nil, "", "", "bad-op"
			}
			inner, ok := resolve(k, reg)
			if !ok {
				return nil, "", "", "bad-reg"
			}
			c.Err = Wrap(k, inner)
			break
		}
		c.Err = elems[0].ErrValue()
		if _, isG := c.Err.(gerror.Error); isG {
			return nil, "", "", "bad-op"
		}
		if fmt.Sprintf("%+v", c.Err) != formatted {
			return nil, "", "", "fmt-mismatch"
		}
	case HasRole(m, "fmt"):
		for _, e := range elems {
			c.Elems = append(c.Elems, e.Value())
		}
		if fmt.Sprintf(c.Format, c.Elems...) != formatted {
			return nil, "", "", "fmt-mismatch"
		}
	}
	return c, site, ws[4][2:], ""
}

// ObsWithError is ObsOf plus Error() with the stack text (checked to be the suffix "\n"+stack.String()
// exactly when there is a stack) cut off.
func ObsWithError(e gerror.Error) string {
	if e == nil {
		return "nil"
	}
	text := e.Error()
	if st := e.ErrStack(); len(st) > 0 {
		suffix := "\n" + st.String()
		if !strings.HasSuffix(text, suffix) {
			return ObsOf(e) + " e=stack-text-missing"
		}
		text = strings.TrimSuffix(text, suffix)
	}
	return ObsOf(e) + " e=" + Enc(text)
}
